#!/usr/bin/env python3
"""Verify a seeded defect produced by an independent sub-agent and run our check against it.

  tools/seedcheck.py /tmp/mut-out/C26-1 [--tier quick|thorough|both] [--no-suite]

Steps (all in a scratch worktree of /repo's HEAD under /tmp, removed afterwards):
  1. patch applies, tree builds with and without -tags verif
  2. demonstration fails with the patch and passes without it
  3. the repository's baseline suite still passes with the patch (stable_pass list of BASELINE.json)
  4. ./check CNN --repo <worktree> : does our check report a VIOLATION?
The change is kept under /verif/seeded/<id>/ (patch.diff, demo/, meta.json) only if 1-3 hold.
"""
import json, os, re, shutil, subprocess, sys, time

VERIF = os.path.dirname(os.path.dirname(os.path.abspath(__file__)))
ENV = dict(os.environ, GOFLAGS="-mod=mod", GOPROXY="off", GOSUMDB="off", GOTOOLCHAIN="local")


def sh(cmd, cwd=None, timeout=1800):
    p = subprocess.run(cmd, shell=True, cwd=cwd, env=ENV, capture_output=True, text=True, timeout=timeout)
    return p.returncode, p.stdout + p.stderr


def suite(wt):
    """returns the set of missing stable_pass tests"""
    out = ""
    for m in (".", "./parser/goyacc"):
        rc, o = sh("go test -mod=mod -json -vet=off -count=1 -timeout 25m ./... 2>/dev/null", cwd=os.path.join(wt, m))
        out += o
    passed = set()
    for l in out.split("\n"):
        try:
            e = json.loads(l)
        except ValueError:
            continue
        if e.get("Action") == "pass" and e.get("Test"):
            passed.add(e["Package"] + "::" + e["Test"])
    want = set(json.load(open("/root/.vp/BASELINE.json"))["stable_pass"])
    missing = sorted(want - passed)
    # timing-sensitive tests fail under machine load: retry the missing ones alone, twice
    for attempt in range(2):
        if not missing or len(missing) > 40:
            break
        bypkg = {}
        for m in missing:
            pkg, t = m.split("::")
            bypkg.setdefault(pkg, []).append(t.split("/")[0])
        for pkg, tests in bypkg.items():
            rel = "./" + pkg.replace("github.com/XiaoMi/Gaea", "").lstrip("/")
            rc, o = sh("go test -mod=mod -json -vet=off -count=1 -run '^(%s)$' %s 2>/dev/null" % ("|".join(sorted(set(tests))), rel), cwd=wt)
            for l in o.split("\n"):
                try:
                    e = json.loads(l)
                except ValueError:
                    continue
                if e.get("Action") == "pass" and e.get("Test"):
                    passed.add(e["Package"] + "::" + e["Test"])
        missing = sorted(want - passed)
    return missing


def main():
    src = os.path.abspath(sys.argv[1])
    tier = "quick"
    if "--tier" in sys.argv:
        tier = sys.argv[sys.argv.index("--tier") + 1]
    do_suite = "--no-suite" not in sys.argv
    sid = os.path.basename(src.rstrip("/"))
    meta = json.load(open(os.path.join(src, "meta.json")))
    prop = meta["property"]
    wt = "/tmp/seed-" + sid
    sh("git -C /repo worktree remove --force %s" % wt)
    shutil.rmtree(wt, ignore_errors=True)
    rc, o = sh("git -C /repo worktree add -q %s HEAD" % wt)
    if rc:
        print("worktree failed", o)
        return 2
    res = {"id": sid, "property": prop, "at": time.strftime("%Y-%m-%dT%H:%M:%SZ", time.gmtime())}
    try:
        rc, o = sh("git apply %s" % os.path.join(src, "patch.diff"), cwd=wt)
        res["applies"] = rc == 0
        if rc:
            rc, o = sh("git apply -3 %s" % os.path.join(src, "patch.diff"), cwd=wt)
            res["applies"] = rc == 0
            if rc:
                print("patch does not apply:", o[-500:])
                res["verdict"] = "rejected: patch does not apply"
                return finish(res, src, keep=False)
        rc1, o1 = sh("go build ./... && go build -tags verif ./...", cwd=wt)
        res["builds"] = rc1 == 0
        if rc1:
            print("does not build:", o1[-800:])
            res["verdict"] = "rejected: does not build"
            return finish(res, src, keep=False)
        # demo with the patch
        run = open(os.path.join(src, "demo", "RUN.txt")).read().strip().split("\n")[0]
        rawrun = run
        run = run.replace("<demo>", os.path.join(src, "demo"))
        run = re.sub(r"(^|\s)demo/", lambda m: m.group(1) + os.path.join(src, "demo") + "/", run)
        run = re.sub(r"\s+#.*$", "", run)
        run = re.sub(r"\s+\(env:.*\)\s*$", "", run)
        demo_files = []
        for root, _, files in os.walk(os.path.join(src, "demo")):
            for f in files:
                if f == "RUN.txt":
                    continue
                rel = os.path.relpath(os.path.join(root, f), os.path.join(src, "demo"))
                demo_files.append(rel)
        # demo files: placed by name into the package dir named in RUN.txt if flat
        def place():
            placed = []
            for rel in demo_files:
                if os.sep in rel:
                    dst = os.path.join(wt, rel)
                else:
                    m = re.search(re.escape(rel) + r"\s+(?:into\s+)?\.?/?([\w/\-\.]+?)/?(?:\s|$|\))", rawrun)
                    if m and os.path.isdir(os.path.join(wt, m.group(1))):
                        dst = os.path.join(wt, m.group(1), rel)
                        os.makedirs(os.path.dirname(dst), exist_ok=True)
                        shutil.copy(os.path.join(src, "demo", rel), dst)
                        placed.append(dst)
                        continue
                    m = re.search(r"\./([\w/\-\.]+)", run)
                    pkg = m.group(1).rstrip("/") if m else "."
                    if pkg.endswith("..."):
                        pkg = pkg[:-3].rstrip("/")
                    dst = os.path.join(wt, pkg, rel)
                os.makedirs(os.path.dirname(dst), exist_ok=True)
                shutil.copy(os.path.join(src, "demo", rel), dst)
                placed.append(dst)
            return placed
        placed = place()
        rc2, o2 = sh(run, cwd=wt, timeout=900)
        res["demo_fails_with_patch"] = rc2 != 0
        for p in placed:
            os.remove(p)
        missing = []
        if do_suite:
            missing = suite(wt)
            res["suite_missing_with_patch"] = missing[:20]
        # without the patch
        sh("git reset -q --hard HEAD && git clean -fdq -e parser/goyacc/goyacc", cwd=wt)
        placed = place()
        rc3, o3 = sh(run, cwd=wt, timeout=900)
        res["demo_passes_without_patch"] = rc3 == 0
        for p in placed:
            os.remove(p)
        ok = res["demo_fails_with_patch"] and res["demo_passes_without_patch"] and not missing
        if not ok:
            print("verification failed:", json.dumps(res, indent=1))
            if not res["demo_fails_with_patch"]:
                print(o2[-1500:])
            if not res["demo_passes_without_patch"]:
                print(o3[-1500:])
            res["verdict"] = "rejected: demo/suite verification failed"
            return finish(res, src, keep=False)
        # our check against the patched tree
        sh("git apply %s || git apply -3 %s" % (os.path.join(src, "patch.diff"), os.path.join(src, "patch.diff")), cwd=wt)
        res["checks"] = {}
        for t in (["quick", "thorough"] if tier == "both" else [tier]):
            t0 = time.time()
            rc4, o4 = sh("./check %s --tier %s --repo %s" % (prop, t, wt), cwd=VERIF, timeout=4000)
            res["checks"][t] = {"exit": rc4, "wall_s": round(time.time() - t0, 1),
                                "lines": [l for l in o4.split("\n") if l.startswith(("VIOLATION", "  detail", "INCONCLUSIVE", "OK ", "KNOWN-FINDING", "BUILD"))][:8]}
            print("check %s tier=%s -> exit %d" % (prop, t, rc4))
            print("\n".join(res["checks"][t]["lines"]))
            if rc4 == 1:
                break
        # a change can violate a neighbouring property too: optionally try those checks when the own one misses
        also = {}
        ap = os.path.join(VERIF, "tools", "seed_also.json")
        if os.path.exists(ap):
            also = json.load(open(ap))
        if not any(c["exit"] == 1 for c in res["checks"].values()):
            for other in also.get(sid, []):
                rc5, o5 = sh("./check %s --tier quick --repo %s" % (other, wt), cwd=VERIF, timeout=4000)
                res["checks"]["quick:" + other] = {"exit": rc5, "lines": [l for l in o5.split("\n") if l.startswith(("VIOLATION", "  detail", "INCONCLUSIVE", "OK "))][:6]}
                print("check %s (neighbouring property) -> exit %d" % (other, rc5))
        res["caught"] = any(c["exit"] == 1 for c in res["checks"].values())
        res["verdict"] = "kept"
        return finish(res, src, keep=True)
    finally:
        sh("git -C /repo worktree remove --force %s" % wt)
        shutil.rmtree(wt, ignore_errors=True)
        tag = re.sub(r"[^A-Za-z0-9]", "_", wt)
        for f in os.listdir(os.path.join(VERIF, "build")):
            if tag in f:
                p = os.path.join(VERIF, "build", f)
                shutil.rmtree(p, ignore_errors=True) if os.path.isdir(p) else os.remove(p)
        shutil.rmtree(os.path.join(VERIF, "build", "altmod", tag.strip("_")), ignore_errors=True)


def finish(res, src, keep):
    sid = res["id"]
    logdir = os.path.join(VERIF, "build", "seedlog")
    os.makedirs(logdir, exist_ok=True)
    json.dump(res, open(os.path.join(logdir, sid + ".json"), "w"), indent=1)
    if keep:
        dst = os.path.join(VERIF, "seeded", sid)
        shutil.rmtree(dst, ignore_errors=True)
        os.makedirs(dst)
        shutil.copy(os.path.join(src, "patch.diff"), dst)
        shutil.copytree(os.path.join(src, "demo"), os.path.join(dst, "demo"))
        meta = json.load(open(os.path.join(src, "meta.json")))
        meta["verification"] = res
        json.dump(meta, open(os.path.join(dst, "meta.json"), "w"), indent=1)
    print(json.dumps({k: v for k, v in res.items() if k != "checks"}, indent=1))
    return 0 if keep else 1


if __name__ == "__main__":
    sys.exit(main())
