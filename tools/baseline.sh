#!/bin/bash
# Runs the repository's baseline suite with the verif guard OFF and compares with BASELINE.json's stable_pass list.
# Tests missing after the full run are retried alone (timing-sensitive tests in util/timer etc. fail under machine load).
export GOFLAGS=-mod=mod GOPROXY=off GOSUMDB=off GOTOOLCHAIN=local
REPO=${1:-/repo}
mkdir -p /verif/build
out=$(mktemp /verif/build/baseline.XXXXXX.json)
for m in . ./parser/goyacc; do (cd $REPO/$m && go test -mod=mod -json -vet=off -count=1 -timeout 25m ./... ); done > "$out" 2>/dev/null
python3 - "$out" "$REPO" <<'PY'
import json,sys,subprocess,os
passed=set()
def absorb(text):
    for l in text.split('\n'):
        try: e=json.loads(l)
        except ValueError: continue
        if e.get('Action')=='pass' and e.get('Test'): passed.add(e['Package']+'::'+e['Test'])
absorb(open(sys.argv[1]).read())
repo=sys.argv[2]
want=set(json.load(open('/root/.vp/BASELINE.json'))['stable_pass'])
missing=sorted(want-passed)
for attempt in range(3):
    if not missing or len(missing)>60: break
    bypkg={}
    for m in missing:
        pkg,t=m.split('::'); bypkg.setdefault(pkg,set()).add(t.split('/')[0])
    for pkg,tests in bypkg.items():
        rel='./'+pkg.replace('github.com/XiaoMi/Gaea','').lstrip('/')
        p=subprocess.run("go test -mod=mod -json -vet=off -count=1 -run '^(%s)$' %s 2>/dev/null"%('|'.join(sorted(tests)),rel),shell=True,cwd=repo,capture_output=True,text=True)
        absorb(p.stdout)
    missing=sorted(want-passed)
print('baseline stable_pass:',len(want),'passed now:',len(want&passed),'missing:',len(missing))
for m in missing[:40]: print('  MISSING',m)
sys.exit(1 if missing else 0)
PY
rc=$?
rm -f "$out"
cd $REPO && git status --short | grep -v goyacc/goyacc
exit $rc
