#!/bin/bash
# Runs the repository's baseline suite with the verif guard OFF and compares with BASELINE.json's stable_pass list.
export GOFLAGS=-mod=mod GOPROXY=off GOSUMDB=off GOTOOLCHAIN=local
out=$(mktemp /verif/build/baseline.XXXXXX.json)
for m in . ./parser/goyacc; do (cd /repo/$m && go test -mod=mod -json -vet=off -count=1 -timeout 25m ./... ); done > "$out" 2>/dev/null
python3 - "$out" <<'PY'
import json,sys
passed=set()
for l in open(sys.argv[1]):
    try: e=json.loads(l)
    except ValueError: continue
    if e.get('Action')=='pass' and e.get('Test'): passed.add(e['Package']+'::'+e['Test'])
want=set(json.load(open('/root/.vp/BASELINE.json'))['stable_pass'])
missing=sorted(want-passed)
print('baseline stable_pass:',len(want),'passed now:',len(want&passed),'missing:',len(missing))
for m in missing[:40]: print('  MISSING',m)
sys.exit(1 if missing else 0)
PY
rc=$?
rm -f "$out"
cd /repo && git status --short | grep -v goyacc/goyacc
exit $rc
