#!/bin/bash
# Stronger regression run than the baseline: proxy/plan and proxy/server use mockey and only run fully with
# -gcflags=all=-N -l, and several plan tests assume Asia/Shanghai. Prints failing tests of the given tree.
export GOFLAGS=-mod=mod GOPROXY=off GOSUMDB=off GOTOOLCHAIN=local TZ=Asia/Shanghai
REPO=${1:-/repo}
cd $REPO && go test -json -gcflags="all=-N -l" -vet=off -count=1 -timeout 20m ./proxy/... ./backend/... ./mysql/... ./models/... ./parser/... ./util/... 2>/dev/null | python3 -c "
import json,sys
fail=set();passed=0
for l in sys.stdin:
    try: e=json.loads(l)
    except ValueError: continue
    if e.get('Test') and e.get('Action')=='fail': fail.add(e['Package'].replace('github.com/XiaoMi/Gaea/','')+'::'+e['Test'])
    if e.get('Test') and e.get('Action')=='pass': passed+=1
print('passed',passed,'failed',len(fail))
for f in sorted(fail): print('FAIL',f)
"
