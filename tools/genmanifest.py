#!/usr/bin/env python3
"""Regenerates /verif/MANIFEST.json from checks.json (single source of truth for commands)."""
import json, os
V = os.path.dirname(os.path.dirname(os.path.abspath(__file__)))
import glob
checks = {}
for p in sorted(glob.glob(os.path.join(V, "checks.d", "*.json"))):
    checks.update(json.load(open(p)))
props = [json.loads(l) for l in open(os.path.join(V, "properties.jsonl"))]
hooks = json.load(open(os.path.join(V, "hooks.json")))
na_reasons = json.load(open(os.path.join(V, "not_applicable.json")))
out = {
    "version": 1,
    "setup_cmd": "./check --setup",
    "hooks": hooks,
    "engines": [{"name": "rapid-harness", "path": "harness/", "serves_properties": sorted(checks),
                 "kind_free_text": "Go module with pgregory.net/rapid v1.3.0 property tests (one package per property under harness/props), native go fuzz targets in the thorough tier, driven by ./check"}],
    "checks": [],
    "not_applicable": [],
    "notes": "All commands run from /verif. ./check rebuilds the property's test binary from /repo's working tree with -tags verif on every invocation. Exit 0 held / 1 VIOLATION / 2 inconclusive. known_findings.json lists open findings (suppressed by classifier, KNOWN-FINDING line printed) and fixed defects (suppress nothing).",
}
for p in props:
    pid = p["id"]
    if pid in checks:
        c = checks[pid]
        out["checks"].append({
            "property_id": pid,
            "quick_cmd": "./check %s --tier quick" % pid,
            "thorough_cmd": "./check %s --tier thorough" % pid,
            "evidence_file": "/verif/evidence/%s.json" % pid,
            "replay_cmd_template": "./check %s --replay {path}" % pid,
            "engine": "rapid-harness",
            "level_claimed": {"category": c.get("level", "exploration"), "text": c["level_text"], "design_ref": "DESIGN.md section 3, " + pid},
            "level_note": c["level_note"],
            "technique": c["technique"],
        })
    else:
        out["not_applicable"].append({"property_id": pid, "reason": na_reasons.get(pid, "check not built yet in this session; see DESIGN.md section 3 for the planned check")})
json.dump(out, open(os.path.join(V, "MANIFEST.json"), "w"), indent=1)
print("checks:", len(out["checks"]), "not_applicable:", len(out["not_applicable"]))
