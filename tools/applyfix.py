#!/usr/bin/env python3
"""Apply a reviewed repair to /repo as one unguarded "fix:" commit and do the bookkeeping.

  tools/applyfix.py <diff> -f C20-F1 [-f ...] -m "fix: subject" [-b "body"] [--no-baseline]

1. git apply (3-way fallback) in /repo, gofmt check, go build with and without -tags verif
2. baseline suite (tools/baseline.sh) must still match BASELINE stable_pass
3. commit
4. known_findings.json: finding status -> fixed, "fixed: property=.. <commit> <what>" appended;
   replay witnesses whose expect is known:<id> -> expect pass
5. ./check <prop> must exit 0 without a KNOWN-FINDING line for the fixed ids
On failure at steps 1-2 the tree is restored.
"""
import argparse, glob, json, os, re, subprocess, sys

V = os.path.dirname(os.path.dirname(os.path.abspath(__file__)))
ENV = dict(os.environ, GOFLAGS="-mod=mod", GOPROXY="off", GOSUMDB="off", GOTOOLCHAIN="local")


def sh(cmd, cwd="/repo", check=False):
    p = subprocess.run(cmd, shell=True, cwd=cwd, env=ENV, capture_output=True, text=True)
    if check and p.returncode:
        print(p.stdout + p.stderr)
        raise SystemExit("failed: " + cmd)
    return p.returncode, p.stdout + p.stderr


def main():
    ap = argparse.ArgumentParser()
    ap.add_argument("diff")
    ap.add_argument("-f", action="append", default=[])
    ap.add_argument("-m", required=True)
    ap.add_argument("-b", default="")
    ap.add_argument("--no-baseline", action="store_true")
    ap.add_argument("--no-check", action="store_true")
    a = ap.parse_args()
    assert a.m.startswith("fix:")
    rc, o = sh("git status --porcelain | grep -v goyacc/goyacc")
    if o.strip():
        raise SystemExit("/repo is dirty:\n" + o)
    diff = os.path.abspath(a.diff)
    rc, o = sh("git apply %s" % diff)
    if rc:
        rc, o = sh("git apply -3 %s" % diff)
        if rc:
            sh("git checkout -- . && git reset -q")
            raise SystemExit("patch does not apply:\n" + o)
        sh("git reset -q")
    try:
        rc, o = sh("gofmt -l $(git diff --name-only | grep '\\.go$')")
        if o.strip():
            print("gofmt complains about:", o)
            sh("gofmt -w $(git diff --name-only | grep '\\.go$')")
        sh("go build ./... && go build -tags verif ./...", check=True)
        if not a.no_baseline:
            rc, o = sh("%s/tools/baseline.sh" % V, cwd=V)
            print(o.strip())
            if rc:
                raise SystemExit("baseline suite does not pass with the repair")
    except SystemExit:
        sh("git checkout -- . && git clean -fdq -e parser/goyacc/goyacc")
        raise
    files = sh("git diff --name-only")[1].split()
    msg = a.m + ("\n\n" + a.b if a.b else "")
    subprocess.run(["git", "add"] + files, cwd="/repo", check=True)
    subprocess.run(["git", "commit", "-q", "-m", msg], cwd="/repo", check=True)
    commit = sh("git rev-parse --short HEAD")[1].strip()
    print("committed", commit, files)
    props = set()
    kp = os.path.join(V, "known_findings.json")
    d = json.load(open(kp))
    for fid in a.f:
        prop = fid.split("-")[0]
        props.add(prop)
        for f in d["findings"]:
            if f["id"] == fid:
                f["status"] = "fixed"
                f["fixed_by"] = commit
                d.setdefault("fixed", []).append("fixed: property=%s %s %s: %s" % (prop, commit, fid, f["what"]))
        for rp in glob.glob(os.path.join(V, "replay", prop, "*.json")):
            r = json.load(open(rp))
            if r.get("expect") == "known:" + fid:
                r["expect"] = "pass"
                r["note"] = (r.get("note", "") + " (was witness of %s, fixed by %s)" % (fid, commit)).strip()
                json.dump(r, open(rp, "w"), indent=1, ensure_ascii=False)
    json.dump(d, open(kp, "w"), indent=1, ensure_ascii=False)
    if not a.no_check:
        for prop in sorted(props):
            rc, o = sh("./check %s" % prop, cwd=V)
            print(o.strip()[-1500:])
            bad = [fid for fid in a.f if re.search(r"KNOWN-FINDING: property=\S+ %s\b" % re.escape(fid), o)]
            if rc != 0 or bad:
                print("WARNING: check %s exit %d after the repair; still-known: %s" % (prop, rc, bad))
    return 0


if __name__ == "__main__":
    sys.exit(main())
