#!/usr/bin/env python3
import glob, json, os
V = os.path.dirname(os.path.dirname(os.path.abspath(__file__)))
rows = []
for p in sorted(glob.glob(os.path.join(V, "build", "seedlog", "*.json"))):
    d = json.load(open(p))
    rows.append(d)
caught = [d["id"] for d in rows if d.get("caught")]
print("caught (%d):" % len(caught), " ".join(caught))
for d in rows:
    if not d.get("caught"):
        print(d["id"], d.get("verdict"), "caught=", d.get("caught"),
              {k: d.get(k) for k in ("applies", "demo_fails_with_patch", "demo_passes_without_patch")},
              (d.get("suite_missing_with_patch") or [])[:2],
              [(t, c["exit"]) for t, c in d.get("checks", {}).items()])
