// Package stmtfix is the per-case fixture of C15/C16: one unsharded namespace
// on the shared live proxy, one simulated MySQL master that snapshots session
// variables, and one raw client session.
package stmtfix

import (
	"fmt"
	"strings"
	"sync/atomic"

	"github.com/XiaoMi/Gaea/models"

	"verifharness/internal/fakemysql"
	"verifharness/internal/proxyfix"
	"verifharness/internal/rawclient"
)

var counter int64

// Env is one live session through the proxy to a fresh backend.
type Env struct {
	Proxy  *proxyfix.Proxy
	Cl     *proxyfix.Cluster
	Master *fakemysql.Server
	NS     string
	User   string
	Conn   *rawclient.Conn
	seen   int
}

// Open starts a backend, installs a namespace without shard rules (statements
// are forwarded verbatim) and opens a client session as a read-write user.
// handler may be nil.
func Open(prefix string, handler func(c *fakemysql.Conn, sql string) fakemysql.Reply) (*Env, error) {
	return OpenWith(Options{Prefix: prefix, Handler: handler})
}

// Options of OpenWith.
type Options struct {
	Prefix  string
	Handler func(c *fakemysql.Conn, sql string) fakemysql.Reply
	// MultiStatements: the namespace supports multi-query and the client announces
	// CLIENT_MULTI_STATEMENTS, so every statement text passes the statement splitter.
	MultiStatements bool
}

// OpenWith is Open with options.
func OpenWith(opt Options) (*Env, error) {
	prefix, handler := opt.Prefix, opt.Handler
	p, err := proxyfix.Shared()
	if err != nil {
		return nil, fmt.Errorf("proxy: %v", err)
	}
	n := atomic.AddInt64(&counter, 1)
	specs := []proxyfix.SliceSpec{{Name: "slice-0", Capacity: 2, MaxCapacity: 4}}
	cl, err := proxyfix.NewCluster(specs)
	if err != nil {
		return nil, fmt.Errorf("cluster: %v", err)
	}
	m := cl.Masters["slice-0"]
	m.SnapshotVars = true
	m.Handler = handler
	e := &Env{Proxy: p, Cl: cl, Master: m, NS: proxyfix.UniqueName(prefix+"ns", n), User: proxyfix.UniqueName(prefix+"u", n)}
	ns := proxyfix.BaseNamespace(e.NS, cl.SliceConfigs(specs), []*models.User{{UserName: e.User, Password: "pw", RWFlag: 2, RWSplit: 0}})
	ns.SupportMultiQuery = opt.MultiStatements
	if err := p.Install(ns); err != nil {
		cl.Close()
		return nil, fmt.Errorf("install: %v", err)
	}
	caps := uint32(0)
	if opt.MultiStatements {
		caps = rawclient.ClientMultiStatements
	}
	c, err := p.Dial(e.User, "pw", "db", caps)
	if err != nil {
		p.Remove(e.NS)
		cl.Close()
		return nil, fmt.Errorf("dial: %v", err)
	}
	e.Conn = c
	return e, nil
}

// Close ends the session and removes the namespace and the backend.
func (e *Env) Close() {
	if e.Conn != nil {
		e.Conn.Close()
	}
	e.Proxy.Remove(e.NS)
	e.Cl.Close()
}

// NewQueries returns the query events that arrived at the master since the
// last call and whose statement contains tag.
func (e *Env) NewQueries(tag string) []fakemysql.Event {
	evs, n := e.Master.EventsSince(e.seen)
	e.seen = n
	var res []fakemysql.Event
	for _, ev := range evs {
		if ev.Kind == "query" && strings.Contains(ev.SQL, tag) {
			res = append(res, ev)
		}
	}
	return res
}
