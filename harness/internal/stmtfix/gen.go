package stmtfix

// Generators of parameter values shared by C15 and C16.

import (
	"fmt"
	"math"

	"pgregory.net/rapid"

	"verifharness/internal/sqllex"
)

// Pick draws an index in [0,n) without rapid's bias towards small values
// (rapid.IntRange and SampledFrom favour the first few values heavily, which
// starves the classes listed last). Built from fair booleans; shrinks to 0.
func Pick(t *rapid.T, name string, n int) int {
	bits := 2
	for 1<<uint(bits-2) < n {
		bits++
	}
	v := 0
	for i, b := range rapid.SliceOfN(rapid.Bool(), bits, bits).Draw(t, name) {
		if b {
			v |= 1 << uint(i)
		}
	}
	return v % n
}

var fragments = []string{
	"'", "\\", "\\'", "''", "\"", "\\\"", "\x00", "\n", "\r", "\x1a", "\t", "\b", "%", "_", "\\%", "\\_", "\\\\", "\\n", "\\0",
	"-- ", "#", "/*", "*/", ";", "?", "`", " OR 1=1 -- ", "' OR '1'='1", "\\' OR 1=1 -- ", "x", "abc", " ", "0", "NULL",
	"\xff", "\xc3", "\xe4\xb8", "\xc3\xa9", "\xe4\xb8\xad", "\xf0\x9f\x98\x80", "\x80\x27", "\xbf\x5c", "\xbf\x27", "\\\x00", "'\\",
}

// GenBytes draws a byte string biased to what breaks quoting.
func GenBytes(t *rapid.T, name string) []byte {
	switch Pick(t, name+"_k", 12) {
	case 0:
		return []byte{}
	case 1:
		return []byte(rapid.StringMatching(`[a-zA-Z0-9 _.,:-]{0,12}`).Draw(t, name+"_plain"))
	case 2:
		return rapid.SliceOfN(rapid.Byte(), 0, 24).Draw(t, name+"_raw")
	case 3:
		// long value crossing a length-encoding size class, with a few hostile bytes inside
		n := rapid.SampledFrom([]int{250, 251, 252, 300, 65535, 65536, 70000}).Draw(t, name+"_len")
		b := make([]byte, n)
		for i := range b {
			b[i] = byte('a' + i%23)
		}
		for _, pos := range []int{0, n / 2, n - 1} {
			f := rapid.SampledFrom([]string{"'", "\\", "\x00", "z"}).Draw(t, name+"_hb")
			b[pos] = f[0]
		}
		return b
	}
	n := rapid.IntRange(1, 6).Draw(t, name+"_n")
	var b []byte
	for i := 0; i < n; i++ {
		b = append(b, rapid.SampledFrom(fragments).Draw(t, fmt.Sprintf("%s_f%d", name, i))...)
	}
	return b
}

func genIntBits(t *rapid.T, name string, w int) uint64 {
	sh := uint(8 * w)
	all := uint64(math.MaxUint64)
	if w < 8 {
		all = 1<<sh - 1
	}
	switch Pick(t, name+"_ik", 8) {
	case 0:
		return 0
	case 1:
		return 1
	case 2:
		return all // -1 / unsigned max
	case 3:
		return 1 << (sh - 1) // signed min
	case 4:
		return 1<<(sh-1) - 1 // signed max
	case 5:
		return uint64(rapid.IntRange(0, 1000).Draw(t, name+"_small"))
	}
	return rapid.Uint64().Draw(t, name+"_bits") & all
}

var f32Special = []uint32{0, 0x80000000, 0x3f800000, 0xbf800000, 0x3dcccccd, 0x7f7fffff, 0x00000001, 0x00800000,
	0x7fc00000, 0x7f800000, 0xff800000, 0x60ad78ec /*1e20*/, 0x6258d727 /*1e21*/, 0x33d6bf95 /*1e-7*/, 0x4b800000, 0x3eaaaaab}
var f64Special = []uint64{0, 0x8000000000000000, 0x3ff0000000000000, 0xbff0000000000000, 0x3fb999999999999a, 0x7fefffffffffffff, 1, 0x0010000000000000,
	0x7ff8000000000000, 0x7ff0000000000000, 0xfff0000000000000, 0x444b1ae4d6e2ef50 /*1e21*/, 0x3e7ad7f29abcaf48 /*1e-7*/, 0x4340000000000000, 0x3fd5555555555555, 0xfff8000000000001}

// GenParam draws one parameter value of any binary-protocol type.
func GenParam(t *rapid.T, name string) sqllex.Param {
	k := Pick(t, name+"_kind", 100)
	switch {
	case k < 42:
		return sqllex.Param{Kind: "str", Type: rapid.SampledFrom(sqllex.StringTypes).Draw(t, name+"_st"), Bytes: GenBytes(t, name)}
	case k < 56:
		tp := rapid.SampledFrom([]byte{sqllex.TTiny, sqllex.TShort, sqllex.TYear, sqllex.TInt24, sqllex.TLong, sqllex.TLongLong}).Draw(t, name+"_it")
		return sqllex.Param{Kind: "int", Type: tp, Unsigned: rapid.Bool().Draw(t, name+"_uns"), Bits: genIntBits(t, name, sqllex.IntWidth(tp))}
	case k < 63:
		if rapid.Bool().Draw(t, name+"_fs") {
			return sqllex.Param{Kind: "float", Type: sqllex.TFloat, Bits: uint64(rapid.SampledFrom(f32Special).Draw(t, name+"_f32s"))}
		}
		return sqllex.Param{Kind: "float", Type: sqllex.TFloat, Bits: uint64(rapid.Uint32().Draw(t, name+"_f32"))}
	case k < 71:
		if rapid.Bool().Draw(t, name+"_ds") {
			return sqllex.Param{Kind: "double", Type: sqllex.TDouble, Bits: rapid.SampledFrom(f64Special).Draw(t, name+"_f64s")}
		}
		return sqllex.Param{Kind: "double", Type: sqllex.TDouble, Bits: rapid.Uint64().Draw(t, name+"_f64")}
	case k < 77:
		p := sqllex.Param{Kind: "date", Type: sqllex.TDate, Len: rapid.SampledFrom([]int{0, 4, 4, 4}).Draw(t, name+"_dl")}
		genDateFields(t, name, &p)
		return p
	case k < 86:
		p := sqllex.Param{Kind: "datetime", Type: rapid.SampledFrom([]byte{sqllex.TDatetime, sqllex.TTimestamp}).Draw(t, name+"_dtt"),
			Len: rapid.SampledFrom([]int{0, 4, 7, 7, 11, 11}).Draw(t, name+"_dtl")}
		genDateFields(t, name, &p)
		return p
	case k < 93:
		p := sqllex.Param{Kind: "time", Type: sqllex.TTime, Len: rapid.SampledFrom([]int{0, 8, 8, 12, 12}).Draw(t, name+"_tl")}
		if p.Len >= 8 {
			p.Neg = rapid.Bool().Draw(t, name+"_neg")
			p.Day = rapid.SampledFrom([]int{0, 0, 0, 1, 10, 34}).Draw(t, name+"_days")
			p.Hour = rapid.IntRange(0, 22).Draw(t, name+"_h")
			p.Minute = rapid.IntRange(0, 59).Draw(t, name+"_mi")
			p.Second = rapid.IntRange(0, 59).Draw(t, name+"_s")
		}
		if p.Len >= 12 {
			p.Micro = rapid.SampledFrom([]int{0, 1, 10, 500000, 999999, 123456, 100}).Draw(t, name+"_us")
		}
		return p
	case k < 97:
		tp := rapid.SampledFrom([]byte{sqllex.TVarString, sqllex.TLongLong, sqllex.TDouble, sqllex.TDatetime, sqllex.TBlob}).Draw(t, name+"_nt")
		return sqllex.Param{Kind: "null_bitmap", Type: tp}
	}
	return sqllex.Param{Kind: "null_type", Type: sqllex.TNull}
}

func genDateFields(t *rapid.T, name string, p *sqllex.Param) {
	if p.Len >= 4 {
		p.Year = rapid.SampledFrom([]int{0, 1, 1000, 1970, 1999, 2000, 2024, 2038, 9999}).Draw(t, name+"_y")
		p.Month = rapid.IntRange(0, 12).Draw(t, name+"_mo")
		p.Day = rapid.SampledFrom([]int{0, 1, 9, 10, 28, 29, 30, 31}).Draw(t, name+"_d")
	}
	if p.Len >= 7 {
		p.Hour = rapid.IntRange(0, 23).Draw(t, name+"_h")
		p.Minute = rapid.IntRange(0, 59).Draw(t, name+"_mi")
		p.Second = rapid.IntRange(0, 59).Draw(t, name+"_s")
	}
	if p.Len >= 11 {
		p.Micro = rapid.SampledFrom([]int{0, 1, 10, 500000, 999999, 123456, 100}).Draw(t, name+"_us")
	}
}
