// Package sqltok builds SQL texts from tokens whose lexical class is known to
// the generator, and contains an independent reference lexer written from the
// MySQL manual (9.1.1 String Literals, 9.2 Schema Object Names, 9.7 Comments)
// for the default sql_mode. It is used by C14 (parameter markers) and C17
// (statement boundaries): both need to know, for every byte of a text, whether
// it is code, inside a string, inside a quoted identifier or inside a comment.
//
// Nothing in here calls Gaea.
package sqltok

import (
	"strings"

	"pgregory.net/rapid"
)

// Kind is the lexical class of a token / segment.
type Kind string

const (
	Word   Kind = "word"   // identifier or keyword
	Num    Kind = "num"    // numeric literal
	Op     Kind = "op"     // operator / punctuation (never ? or ;)
	Space  Kind = "sp"     // whitespace
	Marker Kind = "marker" // a ? in code context
	Semi   Kind = "semi"   // a ; in code context
	SQ     Kind = "sq"     // 'single quoted string'
	DQ     Kind = "dq"     // "double quoted string"
	BQ     Kind = "bq"     // `quoted identifier`
	CDash  Kind = "cdash"  // -- comment to end of line
	CHash  Kind = "chash"  // # comment to end of line
	CBlock Kind = "cblock" // /* comment */
	Code   Kind = "code"   // reference lexer only: any other code bytes
)

// Tok is one generated token.
type Tok struct {
	K Kind   `json:"k"`
	S string `json:"s"`
}

// Join concatenates the token texts.
func Join(toks []Tok) string {
	var b strings.Builder
	for _, t := range toks {
		b.WriteString(t.S)
	}
	return b.String()
}

// Offsets returns the byte offsets of the tokens of kind k in Join(toks).
func Offsets(toks []Tok, k Kind) []int {
	res := []int{}
	off := 0
	for _, t := range toks {
		if t.K == k {
			res = append(res, off)
		}
		off += len(t.S)
	}
	return res
}

// ---------------------------------------------------------------------------
// Reference lexer
// ---------------------------------------------------------------------------

// Seg is a maximal run of bytes of one lexical class.
type Seg struct {
	K          Kind
	Start, End int // [Start,End)
	// Special is set for /*! and /*+ comments, whose content MySQL executes /
	// interprets; the generators never produce them.
	Special bool
	// Unterminated is set when a string, quoted identifier or block comment
	// runs to the end of the text without its terminator.
	Unterminated bool
}

func isSpaceOrCtl(c byte) bool { return c <= ' ' || c == 0x7f }

// Lex splits text into segments: SQ, DQ, BQ, CDash, CHash, CBlock, Marker,
// Semi, Space and Code (everything else).
func Lex(text string) []Seg {
	var segs []Seg
	n := len(text)
	add := func(k Kind, s, e int) *Seg {
		if k == Code && len(segs) > 0 && segs[len(segs)-1].K == Code && segs[len(segs)-1].End == s {
			segs[len(segs)-1].End = e
			return &segs[len(segs)-1]
		}
		if k == Space && len(segs) > 0 && segs[len(segs)-1].K == Space && segs[len(segs)-1].End == s {
			segs[len(segs)-1].End = e
			return &segs[len(segs)-1]
		}
		segs = append(segs, Seg{K: k, Start: s, End: e})
		return &segs[len(segs)-1]
	}
	i := 0
	for i < n {
		c := text[i]
		switch {
		case c == '\'' || c == '"':
			// string literal: backslash escapes the next character, a doubled
			// quote character is one quote character
			j := i + 1
			closed := false
			for j < n {
				if text[j] == '\\' {
					j += 2
					continue
				}
				if text[j] == c {
					if j+1 < n && text[j+1] == c {
						j += 2
						continue
					}
					j++
					closed = true
					break
				}
				j++
			}
			if j > n {
				j = n
			}
			k := SQ
			if c == '"' {
				k = DQ
			}
			s := add(k, i, j)
			s.Unterminated = !closed
			i = j
		case c == '`':
			// quoted identifier: no backslash escapes, doubled backquote is one
			j := i + 1
			closed := false
			for j < n {
				if text[j] == '`' {
					if j+1 < n && text[j+1] == '`' {
						j += 2
						continue
					}
					j++
					closed = true
					break
				}
				j++
			}
			s := add(BQ, i, j)
			s.Unterminated = !closed
			i = j
		case c == '#':
			j := i
			for j < n && text[j] != '\n' {
				j++
			}
			add(CHash, i, j)
			i = j
		case c == '-' && i+1 < n && text[i+1] == '-' && (i+2 == n || isSpaceOrCtl(text[i+2])):
			j := i
			for j < n && text[j] != '\n' {
				j++
			}
			add(CDash, i, j)
			i = j
		case c == '/' && i+1 < n && text[i+1] == '*':
			j := strings.Index(text[i+2:], "*/")
			end := n
			closed := false
			if j >= 0 {
				end = i + 2 + j + 2
				closed = true
			}
			s := add(CBlock, i, end)
			s.Unterminated = !closed
			if i+2 < n && (text[i+2] == '!' || text[i+2] == '+') {
				s.Special = true
			}
			i = end
		case c == '?':
			add(Marker, i, i+1)
			i++
		case c == ';':
			add(Semi, i, i+1)
			i++
		case c == ' ' || c == '\t' || c == '\n' || c == '\r' || c == '\v' || c == '\f':
			add(Space, i, i+1)
			i++
		default:
			add(Code, i, i+1)
			i++
		}
	}
	return segs
}

// KindOffsets returns the start offsets of the segments of kind k.
func KindOffsets(segs []Seg, k Kind) []int {
	res := []int{}
	for _, s := range segs {
		if s.K == k {
			res = append(res, s.Start)
		}
	}
	return res
}

// IsComment reports whether k is one of the comment kinds.
func IsComment(k Kind) bool { return k == CDash || k == CHash || k == CBlock }

// Statements splits text at its code-context semicolons and returns the
// pieces that contain anything besides whitespace and comments, each with
// surrounding whitespace removed.
func Statements(text string, segs []Seg) []string {
	res := []string{}
	begin := 0
	hasCode := false
	flush := func(end int) {
		if hasCode {
			res = append(res, strings.TrimSpace(text[begin:end]))
		}
		hasCode = false
	}
	for _, s := range segs {
		switch {
		case s.K == Semi:
			flush(s.Start)
			begin = s.End
		case s.K == Space || IsComment(s.K):
		default:
			hasCode = true
		}
	}
	flush(len(text))
	return res
}

// ---------------------------------------------------------------------------
// Generators
// ---------------------------------------------------------------------------

var plainChars = []string{"a", "b", "z", "0", "7", " ", "_", "%", ",", "(", ")", "=", ":", "é", "中"}

// the characters that matter to the properties: they must not be given a
// meaning inside strings, quoted identifiers and comments
var hotChars = []string{"?", ";", "?", ";", "'", "\"", "`", "#", "--", "-- ", "/*", "*"}

func atom(t *rapid.T, label string, extra []string, forbid func(string) bool) string {
	for tries := 0; ; tries++ {
		var s string
		switch rapid.IntRange(0, 9).Draw(t, label+"_ak") {
		case 0, 1, 2:
			s = rapid.SampledFrom(plainChars).Draw(t, label+"_p")
		case 3, 4, 5, 6:
			s = rapid.SampledFrom(hotChars).Draw(t, label+"_h")
		default:
			if len(extra) > 0 {
				s = rapid.SampledFrom(extra).Draw(t, label+"_x")
			} else {
				s = rapid.SampledFrom(hotChars).Draw(t, label+"_h2")
			}
		}
		if forbid == nil || !forbid(s) {
			return s
		}
		if tries > 20 {
			return "a"
		}
	}
}

// GenString returns a complete string literal quoted with q (' or ").
func GenString(t *rapid.T, q byte, label string) string {
	qs := string(q)
	extra := []string{qs + qs, "\\" + qs, "\\\\", "\\n", "\\%", "\\x", "\\?", "\\;", "\\'", "\\\"", "\\0", qs + qs}
	if rapid.IntRange(0, 4).Draw(t, label+"_short") == 0 {
		// the shortest forms: empty, one character, one escape, only quotes
		body := rapid.SampledFrom([]string{"", "?", ";", "\\\\", "\\\\\\\\", "\\" + qs, qs + qs, "\\?", "\\" + qs + "?", qs + qs + "?", "?" + "\\\\", "\\\\" + qs + qs}).Draw(t, label+"_sb")
		return qs + body + qs
	}
	n := rapid.IntRange(0, 6).Draw(t, label+"_n")
	var b strings.Builder
	b.WriteByte(q)
	for i := 0; i < n; i++ {
		b.WriteString(atom(t, label, extra, func(s string) bool { return s == qs }))
	}
	b.WriteByte(q)
	return b.String()
}

// GenBackquoted returns a complete quoted identifier.
func GenBackquoted(t *rapid.T, label string) string {
	extra := []string{"``", "\\", "x"}
	if rapid.IntRange(0, 4).Draw(t, label+"_short") == 0 {
		// shortest forms (the empty identifier is lexically complete, whatever the grammar says later)
		return "`" + rapid.SampledFrom([]string{"", "?", ";", "``", "\\", "'", "\"", "``?", "?``", "\\?"}).Draw(t, label+"_sb") + "`"
	}
	n := rapid.IntRange(1, 5).Draw(t, label+"_n")
	var b strings.Builder
	b.WriteByte('`')
	for i := 0; i < n; i++ {
		b.WriteString(atom(t, label, extra, func(s string) bool { return s == "`" }))
	}
	b.WriteByte('`')
	return b.String()
}

// blockBodies are block-comment bodies chosen for the comment's own delimiters:
// empty, as short as possible, beginning with '/' or '*' (the closing "*/" cannot
// overlap the opening "/*", so "/*/" is an OPEN comment), ending in '*'.
var blockBodies = []string{"", "*", "/", "**", "/ ? ", "/?", "/ ;", " * / ? ", "?", ";", " ? *", " ; **", "/*", "/ * ", "*?", "* ?*", "/'", "/ \" ", "*'?"}

// GenComment returns a complete comment of the given kind. Line comments end
// with a newline unless open is true (only legal for the last token of a text).
func GenComment(t *rapid.T, k Kind, open bool, label string) string {
	if k == CBlock && rapid.IntRange(0, 3).Draw(t, label+"_short") == 0 {
		return "/*" + rapid.SampledFrom(blockBodies).Draw(t, label+"_bb") + "*/"
	}
	n := rapid.IntRange(0, 6).Draw(t, label+"_n")
	var body strings.Builder
	for i := 0; i < n; i++ {
		body.WriteString(atom(t, label, []string{"\\", "\\'", "don't", "/", "*", "**"}, nil))
	}
	bs := body.String()
	switch k {
	case CBlock:
		// "*/" must not occur inside the body, nor be formed by the body's last '*'... which is fine:
		// "/* x **/" ends at the first "*/", which is the real terminator
		for strings.Contains(bs, "*/") {
			bs = strings.ReplaceAll(bs, "*/", "* /")
		}
		if strings.HasPrefix(bs, "!") || strings.HasPrefix(bs, "+") {
			bs = " " + bs
		}
		return "/*" + bs + "*/"
	case CHash:
		bs = strings.TrimRight(bs, ";")
		if open {
			return "#" + bs
		}
		return "#" + bs + "\n"
	default:
		bs = strings.TrimRight(bs, ";")
		// "--" needs one whitespace/control character (or the end of the text) behind it
		if bs == "" && rapid.Bool().Draw(t, label+"_bare") {
			if open {
				return "--"
			}
			return "--\n"
		}
		sep := rapid.SampledFrom([]string{" ", " ", "\t"}).Draw(t, label+"_sep")
		if open {
			return "--" + sep + bs
		}
		return "--" + sep + bs + "\n"
	}
}

// GenWord returns a plain identifier.
func GenWord(t *rapid.T, label string) string {
	return rapid.SampledFrom([]string{"a", "b", "c1", "id", "t", "tbl", "col", "x_y", "name"}).Draw(t, label)
}

// GenNum returns a numeric literal.
func GenNum(t *rapid.T, label string) string {
	return rapid.SampledFrom([]string{"0", "1", "42", "3.5", "1e3", "007"}).Draw(t, label)
}

// GenSpace returns whitespace.
func GenSpace(t *rapid.T, label string) string {
	return rapid.SampledFrom([]string{" ", " ", " ", "  ", "\n", "\t", " \n ", "\r\n"}).Draw(t, label)
}

var commentKinds = []Kind{CDash, CHash, CBlock}

// GenGlue returns the tokens that go between two code tokens: whitespace,
// optionally with comments in it. The result always starts and ends with
// whitespace, so any two tokens can be glued with it.
func GenGlue(t *rapid.T, label string, commentPct int) []Tok {
	res := []Tok{{Space, GenSpace(t, label+"_s0")}}
	for rapid.IntRange(0, 99).Draw(t, label+"_c") < commentPct && len(res) < 7 {
		k := rapid.SampledFrom(commentKinds).Draw(t, label+"_ck")
		res = append(res, Tok{k, GenComment(t, k, false, label+"_cm")}, Tok{Space, GenSpace(t, label+"_s1")})
	}
	return res
}

// Opts steers GenStatement.
type Opts struct {
	Markers    bool // allow ? as a value
	CommentPct int  // chance of a comment in each gap
}

type slot int

const (
	slotKw    slot = iota // fixed keyword / punctuation (text in the template)
	slotTable             // table name
	slotCol               // column name
	slotVal               // value expression
	slotLim               // LIMIT operand
)

type tmplItem struct {
	s    slot
	text string
}

func kw(s string) tmplItem { return tmplItem{slotKw, s} }

var (
	tT = tmplItem{slotTable, ""}
	tC = tmplItem{slotCol, ""}
	tV = tmplItem{slotVal, ""}
	tL = tmplItem{slotLim, ""}
)

var templates = [][]tmplItem{
	{kw("select"), tV, kw(","), tC, kw("from"), tT, kw("where"), tC, kw("="), tV, kw("and"), tC, kw("in"), kw("("), tV, kw(","), tV, kw(")"), kw("limit"), tL},
	{kw("select"), tC, kw("from"), tT, kw("where"), tC, kw(">"), tV},
	{kw("select"), tV},
	{kw("insert"), kw("into"), tT, kw("("), tC, kw(","), tC, kw(")"), kw("values"), kw("("), tV, kw(","), tV, kw(")")},
	{kw("update"), tT, kw("set"), tC, kw("="), tV, kw("where"), tC, kw("="), tV},
	{kw("delete"), kw("from"), tT, kw("where"), tC, kw("="), tV, kw("or"), tC, kw("like"), tV},
	{kw("select"), kw("*"), kw("from"), tT, kw("where"), tC, kw("between"), tV, kw("and"), tV, kw("order"), kw("by"), tC, kw("limit"), tL},
	{kw("replace"), kw("into"), tT, kw("values"), kw("("), tV, kw(")")},
}

// GenStatement returns the tokens of one complete statement (no trailing
// semicolon) built from a small template grammar that Gaea's parser accepts.
// Every pair of code tokens is separated by glue.
func GenStatement(t *rapid.T, label string, o Opts) []Tok {
	tm := rapid.SampledFrom(templates).Draw(t, label+"_tm")
	var res []Tok
	if rapid.IntRange(0, 99).Draw(t, label+"_lead") < o.CommentPct/2 {
		k := rapid.SampledFrom(commentKinds).Draw(t, label+"_lk")
		res = append(res, Tok{k, GenComment(t, k, false, label+"_lc")})
	}
	for i, it := range tm {
		if i > 0 {
			res = append(res, GenGlue(t, label+"_g", o.CommentPct)...)
		}
		switch it.s {
		case slotKw:
			k := Word
			if strings.ContainsAny(it.text, "(),=><*") {
				k = Op
			}
			res = append(res, Tok{k, it.text})
		case slotTable, slotCol:
			if rapid.IntRange(0, 2).Draw(t, label+"_nq") == 0 {
				res = append(res, Tok{BQ, GenBackquoted(t, label+"_bq")})
			} else {
				res = append(res, Tok{Word, GenWord(t, label+"_w")})
			}
		case slotLim:
			if o.Markers && rapid.Bool().Draw(t, label+"_lm") {
				res = append(res, Tok{Marker, "?"})
			} else {
				res = append(res, Tok{Num, rapid.SampledFrom([]string{"1", "10", "0"}).Draw(t, label+"_ln")})
			}
		case slotVal:
			hi := 3
			if o.Markers {
				hi = 6
			}
			// (not as the operand of LIKE: Gaea's grammar wants a simple expression there)
			if !(i > 0 && tm[i-1].text == "like") && rapid.IntRange(0, 7).Draw(t, label+"_mm") == 0 {
				// minus minus: 5--? , a--1 , 1--'7' , 2--(3): "--" without white space behind it is no comment
				if rapid.Bool().Draw(t, label+"_mml") {
					res = append(res, Tok{Num, GenNum(t, label+"_mmn")})
				} else {
					res = append(res, Tok{Word, GenWord(t, label+"_mmw")})
				}
				res = append(res, Tok{Op, "--"})
				switch k := rapid.IntRange(0, 5).Draw(t, label+"_mmk"); {
				case k <= 2 && o.Markers:
					res = append(res, Tok{Marker, "?"})
				case k == 3:
					res = append(res, Tok{SQ, GenString(t, '\'', label+"_mms")})
				case k == 4:
					res = append(res, Tok{Op, "("}, Tok{Num, GenNum(t, label+"_mmp")}, Tok{Op, ")"})
				default:
					res = append(res, Tok{Num, GenNum(t, label+"_mmr")})
				}
				continue
			}
			switch rapid.IntRange(0, hi).Draw(t, label+"_vk") {
			case 0:
				res = append(res, Tok{Num, GenNum(t, label+"_num")})
			case 1, 2:
				res = append(res, Tok{SQ, GenString(t, '\'', label+"_sq")})
			case 3:
				res = append(res, Tok{DQ, GenString(t, '"', label+"_dq")})
			default:
				res = append(res, Tok{Marker, "?"})
			}
		}
	}
	return res
}

// GenSoup returns a token sequence that is lexically well-formed but not
// necessarily a grammatical statement: every lexical class in every order.
// Tokens that could merge with a neighbour are separated by whitespace.
func GenSoup(t *rapid.T, label string, withSemi bool) []Tok {
	n := rapid.IntRange(1, 12).Draw(t, label+"_n")
	var res []Tok
	needSpace := false // previous token must be followed by whitespace before a non-punctuation token
	for i := 0; i < n; i++ {
		last := i == n-1
		var tk Tok
		hi := 13
		if withSemi {
			hi = 15
		}
		switch rapid.IntRange(0, hi).Draw(t, label+"_k") {
		case 0:
			tk = Tok{Word, GenWord(t, label+"_w")}
		case 1:
			tk = Tok{Num, GenNum(t, label+"_num")}
		case 2:
			tk = Tok{Op, rapid.SampledFrom([]string{"=", ",", "(", ")", "<", ">", "+", " - ", " * ", " / ", "!=", "."}).Draw(t, label+"_op")}
		case 3, 4, 5:
			tk = Tok{Marker, "?"}
		case 6, 7:
			tk = Tok{SQ, GenString(t, '\'', label+"_sq")}
		case 8:
			tk = Tok{DQ, GenString(t, '"', label+"_dq")}
		case 9, 10:
			tk = Tok{BQ, GenBackquoted(t, label+"_bq")}
		case 11:
			k := rapid.SampledFrom(commentKinds).Draw(t, label+"_ck")
			open := last && k != CBlock && rapid.Bool().Draw(t, label+"_open")
			tk = Tok{k, GenComment(t, k, open, label+"_cm")}
		case 12, 13:
			tk = Tok{Space, GenSpace(t, label+"_sp")}
		default:
			tk = Tok{Semi, ";"}
		}
		if !last && rapid.IntRange(0, 7).Draw(t, label+"_mm") == 0 {
			// "--" NOT followed by white space is two minus signs, not a comment:
			// 5--? a--? ?--? 1--1 --'x' --( ; what follows is ordinary code
			if needSpace {
				res = append(res, Tok{Space, " "})
			}
			res = append(res, Tok{Op, "--"})
			var nx Tok
			switch rapid.IntRange(0, 6).Draw(t, label+"_mmk") {
			case 0, 1, 2:
				nx = Tok{Marker, "?"}
			case 3:
				nx = Tok{Num, GenNum(t, label+"_mmn")}
			case 4:
				nx = Tok{Word, GenWord(t, label+"_mmw")}
			case 5:
				nx = Tok{SQ, GenString(t, '\'', label+"_mms")}
			default:
				nx = Tok{Op, "("}
			}
			res = append(res, nx)
			needSpace = !(nx.K == Marker || nx.K == Op)
			continue
		}
		punct := tk.K == Marker || tk.K == Semi || tk.K == Space || (tk.K == Op && tk.S != ".")
		if needSpace && !punct {
			res = append(res, Tok{Space, " "})
		}
		res = append(res, tk)
		// after anything that is not whitespace-like punctuation the next
		// literal/identifier/comment must not touch it ('a''b', 1a, x'..', a-- b, a/ *)
		needSpace = !(tk.K == Space || tk.K == Semi || tk.K == Marker || (tk.K == Op && tk.S != ".") ||
			((tk.K == CDash || tk.K == CHash) && strings.HasSuffix(tk.S, "\n")))
	}
	return res
}
