package condeval

import (
	"testing"

	"github.com/XiaoMi/Gaea/parser"
	"github.com/XiaoMi/Gaea/parser/ast"
)

// Truth tables of the evaluator itself (it is the reference of C01).
func TestTruth(t *testing.T) {
	env := func(schema, table, name string) (Val, bool) {
		switch name {
		case "k":
			return Int(7), true
		case "n":
			return Null(), true
		case "s":
			return Str("abc"), true
		}
		return Val{}, false
	}
	cases := map[string]TV{
		"k = 7": True, "k <> 7": False, "k < 7": False, "k <= 7": True, "7 >= k": True,
		"n = 1": Unknown, "n <> 1": Unknown, "n <=> NULL": True, "k <=> NULL": False,
		"n = 1 AND k = 8": False, "n = 1 AND k = 7": Unknown, "n = 1 OR k = 7": True, "n = 1 OR k = 8": Unknown,
		"NOT (n = 1)": Unknown, "NOT (k = 8)": True, "!(k = 7)": False,
		"k IN (1,7)": True, "k IN (1,NULL)": Unknown, "k NOT IN (1,NULL)": Unknown, "k NOT IN (1,2)": True, "n IN (1)": Unknown,
		"k BETWEEN 1 AND 7": True, "k BETWEEN 9 AND 1": False, "k NOT BETWEEN 9 AND 1": True, "k NOT BETWEEN 1 AND 9": False,
		"n NOT BETWEEN 9 AND 1": Unknown, "k BETWEEN NULL AND 1": False, "k BETWEEN NULL AND 9": Unknown,
		"n IS NULL": True, "k IS NOT NULL": True, "k + 1 = 8": True, "abs(k - 10) = 3": True, "k = -7": False, "-k = -7": True,
		"(k = 7) XOR (k = 8)": True, "(k = 7) XOR (n = 1)": Unknown, "k = '7'": True, "k < '10'": True,
		"s = 'abc'": True, "s < 'abd'": True, "s > 'B'": True,
		"k = 1 AND k = 7 OR k = 7": True, "k = 7 OR k = 1 AND k = 2": True,
		"k < 18446744073709551615": True,
	}
	for c, want := range cases {
		st, err := parser.New().ParseOneStmt("select * from t where "+c, "", "")
		if err != nil {
			t.Fatalf("%s: %v", c, err)
		}
		got, ok := Truth(st.(*ast.SelectStmt).Where, env)
		if !ok || got != want {
			t.Errorf("%s = %v (ok=%v), want %v", c, got, ok, want)
		}
	}
	for _, c := range []string{"zz = 1", "k LIKE 'a'", "s = 1", "k / 2 = 3"} {
		st, err := parser.New().ParseOneStmt("select * from t where "+c, "", "")
		if err != nil {
			t.Fatalf("%s: %v", c, err)
		}
		if _, ok := Truth(st.(*ast.SelectStmt).Where, env); ok {
			t.Errorf("%s should be undecidable", c)
		}
	}
}
