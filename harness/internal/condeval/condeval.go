// Package condeval is a small evaluator of SQL conditions with three-valued
// logic over Gaea's parser AST. It is the reference of C01 ("which rows satisfy
// the WHERE / ON condition"), written from the SQL semantics and independent of
// Gaea's planner: it never asks the router anything.
//
// Supported: AND OR XOR NOT ! ( ), = <> != < <= > >= <=>, IN / NOT IN lists,
// BETWEEN / NOT BETWEEN, IS [NOT] NULL, unary + -, binary + - *, ABS(), column
// references and integer / string / NULL literals. Anything else is reported as
// undecidable (ok=false) and the caller must not draw a conclusion from it.
//
// Typing follows what the generators produce: integers compare numerically,
// strings compare as bytes, a datetime column compares with a 'YYYY-MM-DD' or
// 'YYYY-MM-DD HH:MM:SS' literal as an instant, and an integer compared with a
// string that is a canonical integer compares numerically (MySQL's implicit
// cast, exact for such strings). Other mixed comparisons are undecidable.
package condeval

import (
	"math"
	"strconv"
	"strings"
	"time"

	"github.com/XiaoMi/Gaea/parser/ast"
	"github.com/XiaoMi/Gaea/parser/opcode"
	types "github.com/XiaoMi/Gaea/parser/tidb-types"
	driver "github.com/XiaoMi/Gaea/parser/tidb-types/parser_driver"
)

// TV is a truth value.
type TV int

const (
	False TV = iota
	True
	Unknown // SQL NULL
)

func (t TV) String() string { return [...]string{"FALSE", "TRUE", "NULL"}[t] }

// Kind of a value.
type Kind int

const (
	KNull Kind = iota
	KInt       // I
	KUint      // U (> MaxInt64 only)
	KStr       // S
	KTime      // T (datetime column value)
)

// Val is a scalar SQL value.
type Val struct {
	K Kind
	I int64
	U uint64
	S string
	T time.Time
}

// Null, Int, Str, Time build values.
func Null() Val            { return Val{K: KNull} }
func Int(i int64) Val      { return Val{K: KInt, I: i} }
func Str(s string) Val     { return Val{K: KStr, S: s} }
func Time(t time.Time) Val { return Val{K: KTime, T: t} }

// Env resolves a column reference (lower-cased parts; schema and table may be
// empty). ok=false: unknown column (evaluation becomes undecidable).
type Env func(schema, table, name string) (Val, bool)

func parseTime(s string) (time.Time, bool) {
	if t, err := time.ParseInLocation("2006-01-02 15:04:05", s, time.UTC); err == nil {
		return t, true
	}
	if t, err := time.ParseInLocation("2006-01-02", s, time.UTC); err == nil {
		return t, true
	}
	return time.Time{}, false
}

func canonicalInt(s string) (int64, bool) {
	v, err := strconv.ParseInt(s, 10, 64)
	if err != nil || strconv.FormatInt(v, 10) != s {
		return 0, false
	}
	return v, true
}

// Compare returns -1/0/+1 for non-NULL a, b; ok=false when the comparison is
// outside the supported typing.
func Compare(a, b Val) (int, bool) {
	sign := func(less, eq bool) int {
		switch {
		case eq:
			return 0
		case less:
			return -1
		}
		return 1
	}
	switch {
	case a.K == KInt && b.K == KInt:
		return sign(a.I < b.I, a.I == b.I), true
	case a.K == KUint && b.K == KUint:
		return sign(a.U < b.U, a.U == b.U), true
	case a.K == KInt && b.K == KUint:
		return -1, true
	case a.K == KUint && b.K == KInt:
		return 1, true
	case a.K == KStr && b.K == KStr:
		return strings.Compare(a.S, b.S), true
	case a.K == KTime && b.K == KTime:
		return sign(a.T.Before(b.T), a.T.Equal(b.T)), true
	case a.K == KTime && b.K == KStr:
		t, ok := parseTime(b.S)
		if !ok {
			return 0, false
		}
		return sign(a.T.Before(t), a.T.Equal(t)), true
	case a.K == KStr && b.K == KTime:
		c, ok := Compare(b, a)
		return -c, ok
	case a.K == KInt && b.K == KStr:
		v, ok := canonicalInt(b.S)
		if !ok {
			return 0, false
		}
		return sign(a.I < v, a.I == v), true
	case a.K == KStr && b.K == KInt:
		c, ok := Compare(b, a)
		return -c, ok
	}
	return 0, false
}

func tvOf(b bool) TV {
	if b {
		return True
	}
	return False
}

func boolVal(t TV) Val {
	switch t {
	case True:
		return Int(1)
	case False:
		return Int(0)
	}
	return Null()
}

// truthOf turns a scalar into a truth value.
func truthOf(v Val) (TV, bool) {
	switch v.K {
	case KNull:
		return Unknown, true
	case KInt:
		return tvOf(v.I != 0), true
	case KUint:
		return True, true
	}
	return Unknown, false
}

func not(t TV) TV {
	switch t {
	case True:
		return False
	case False:
		return True
	}
	return Unknown
}

func and(a, b TV) TV {
	if a == False || b == False {
		return False
	}
	if a == Unknown || b == Unknown {
		return Unknown
	}
	return True
}

func or(a, b TV) TV {
	if a == True || b == True {
		return True
	}
	if a == Unknown || b == Unknown {
		return Unknown
	}
	return False
}

// Truth evaluates e as a condition.
func Truth(e ast.ExprNode, env Env) (TV, bool) {
	v, ok := Eval(e, env)
	if !ok {
		return Unknown, false
	}
	return truthOf(v)
}

func cmpOp(op opcode.Op, a, b Val) (TV, bool) {
	if op == opcode.NullEQ {
		if a.K == KNull || b.K == KNull {
			return tvOf(a.K == KNull && b.K == KNull), true
		}
		c, ok := Compare(a, b)
		return tvOf(c == 0), ok
	}
	if a.K == KNull || b.K == KNull {
		return Unknown, true
	}
	c, ok := Compare(a, b)
	if !ok {
		return Unknown, false
	}
	switch op {
	case opcode.EQ:
		return tvOf(c == 0), true
	case opcode.NE:
		return tvOf(c != 0), true
	case opcode.LT:
		return tvOf(c < 0), true
	case opcode.LE:
		return tvOf(c <= 0), true
	case opcode.GT:
		return tvOf(c > 0), true
	case opcode.GE:
		return tvOf(c >= 0), true
	}
	return Unknown, false
}

func arith(op opcode.Op, a, b Val) (Val, bool) {
	if a.K == KNull || b.K == KNull {
		return Null(), true
	}
	if a.K != KInt || b.K != KInt {
		return Val{}, false
	}
	x, y := a.I, b.I
	switch op {
	case opcode.Plus:
		if (y > 0 && x > math.MaxInt64-y) || (y < 0 && x < math.MinInt64-y) {
			return Val{}, false
		}
		return Int(x + y), true
	case opcode.Minus:
		if (y < 0 && x > math.MaxInt64+y) || (y > 0 && x < math.MinInt64+y) {
			return Val{}, false
		}
		return Int(x - y), true
	case opcode.Mul:
		if x == 0 || y == 0 {
			return Int(0), true
		}
		p := x * y
		if p/y != x || (x == -1 && y == math.MinInt64) || (y == -1 && x == math.MinInt64) {
			return Val{}, false
		}
		return Int(p), true
	}
	return Val{}, false
}

// Eval evaluates e to a scalar (conditions yield 1, 0 or NULL).
func Eval(e ast.ExprNode, env Env) (Val, bool) {
	switch x := e.(type) {
	case *ast.ParenthesesExpr:
		return Eval(x.Expr, env)
	case *driver.ValueExpr:
		switch x.Kind() {
		case types.KindNull:
			return Null(), true
		case types.KindInt64:
			return Int(x.GetInt64()), true
		case types.KindUint64:
			u := x.GetUint64()
			if u <= math.MaxInt64 {
				return Int(int64(u)), true
			}
			return Val{K: KUint, U: u}, true
		case types.KindString, types.KindBytes:
			return Str(x.GetString()), true
		}
		return Val{}, false
	case *ast.ColumnNameExpr:
		return env(x.Name.Schema.L, x.Name.Table.L, x.Name.Name.L)
	case *ast.UnaryOperationExpr:
		v, ok := Eval(x.V, env)
		if !ok {
			return Val{}, false
		}
		switch x.Op {
		case opcode.Not:
			t, ok := truthOf(v)
			return boolVal(not(t)), ok
		case opcode.Minus:
			if v.K == KNull {
				return v, true
			}
			if v.K != KInt || v.I == math.MinInt64 {
				return Val{}, false
			}
			return Int(-v.I), true
		case opcode.Plus:
			return v, true
		}
		return Val{}, false
	case *ast.BinaryOperationExpr:
		switch x.Op {
		case opcode.LogicAnd, opcode.LogicOr, opcode.LogicXor:
			l, ok1 := Truth(x.L, env)
			r, ok2 := Truth(x.R, env)
			// FALSE AND anything / TRUE OR anything are decided by one side
			if x.Op == opcode.LogicAnd && ((ok1 && l == False) || (ok2 && r == False)) {
				return Int(0), true
			}
			if x.Op == opcode.LogicOr && ((ok1 && l == True) || (ok2 && r == True)) {
				return Int(1), true
			}
			if !ok1 || !ok2 {
				return Val{}, false
			}
			switch x.Op {
			case opcode.LogicAnd:
				return boolVal(and(l, r)), true
			case opcode.LogicOr:
				return boolVal(or(l, r)), true
			}
			if l == Unknown || r == Unknown {
				return Null(), true
			}
			return boolVal(tvOf(l != r)), true
		case opcode.EQ, opcode.NE, opcode.LT, opcode.LE, opcode.GT, opcode.GE, opcode.NullEQ:
			l, ok1 := Eval(x.L, env)
			r, ok2 := Eval(x.R, env)
			if !ok1 || !ok2 {
				return Val{}, false
			}
			t, ok := cmpOp(x.Op, l, r)
			return boolVal(t), ok
		case opcode.Plus, opcode.Minus, opcode.Mul:
			l, ok1 := Eval(x.L, env)
			r, ok2 := Eval(x.R, env)
			if !ok1 || !ok2 {
				return Val{}, false
			}
			return arith(x.Op, l, r)
		}
		return Val{}, false
	case *ast.PatternInExpr:
		if x.Sel != nil {
			return Val{}, false
		}
		v, ok := Eval(x.Expr, env)
		if !ok {
			return Val{}, false
		}
		if v.K == KNull {
			return Null(), true
		}
		res := False
		for _, it := range x.List {
			iv, ok := Eval(it, env)
			if !ok {
				return Val{}, false
			}
			t, ok := cmpOp(opcode.EQ, v, iv)
			if !ok {
				return Val{}, false
			}
			res = or(res, t)
		}
		if x.Not {
			res = not(res)
		}
		return boolVal(res), true
	case *ast.BetweenExpr:
		v, ok1 := Eval(x.Expr, env)
		lo, ok2 := Eval(x.Left, env)
		hi, ok3 := Eval(x.Right, env)
		if !ok1 || !ok2 || !ok3 {
			return Val{}, false
		}
		a, oka := cmpOp(opcode.GE, v, lo)
		b, okb := cmpOp(opcode.LE, v, hi)
		if !oka || !okb {
			return Val{}, false
		}
		res := and(a, b)
		if x.Not {
			res = not(res)
		}
		return boolVal(res), true
	case *ast.IsNullExpr:
		v, ok := Eval(x.Expr, env)
		if !ok {
			return Val{}, false
		}
		return boolVal(tvOf((v.K == KNull) != x.Not)), true
	case *ast.FuncCallExpr:
		if x.FnName.L == "abs" && len(x.Args) == 1 {
			v, ok := Eval(x.Args[0], env)
			if !ok {
				return Val{}, false
			}
			if v.K == KNull {
				return v, true
			}
			if v.K != KInt || v.I == math.MinInt64 {
				return Val{}, false
			}
			if v.I < 0 {
				return Int(-v.I), true
			}
			return v, true
		}
		return Val{}, false
	}
	return Val{}, false
}
