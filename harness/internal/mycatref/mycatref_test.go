package mycatref

import (
	"encoding/binary"
	"testing"
	"unicode/utf16"
)

// murmur3_32 over bytes, the textbook formulation (Appleby's MurmurHash3_x86_32),
// kept separate from the char-oriented code under test.
func murmur3Bytes(data []byte, seed uint32) uint32 {
	h := seed
	n := len(data)
	for len(data) >= 4 {
		k := binary.LittleEndian.Uint32(data)
		data = data[4:]
		k *= 0xcc9e2d51
		k = k<<15 | k>>17
		k *= 0x1b873593
		h ^= k
		h = h<<13 | h>>19
		h = h*5 + 0xe6546b64
	}
	var k uint32
	switch len(data) {
	case 3:
		k ^= uint32(data[2]) << 16
		fallthrough
	case 2:
		k ^= uint32(data[1]) << 8
		fallthrough
	case 1:
		k ^= uint32(data[0])
		k *= 0xcc9e2d51
		k = k<<15 | k>>17
		k *= 0x1b873593
		h ^= k
	}
	h ^= uint32(n)
	h ^= h >> 16
	h *= 0x85ebca6b
	h ^= h >> 13
	h *= 0xc2b2ae35
	h ^= h >> 16
	return h
}

// Published MurmurHash3_x86_32 vectors (SMHasher-derived list).
func TestMurmurPublishedVectors(t *testing.T) {
	vec := []struct {
		data []byte
		seed uint32
		want uint32
	}{
		{nil, 0, 0},
		{nil, 1, 0x514E28B7},
		{nil, 0xffffffff, 0x81F16F39},
		{[]byte{0xff, 0xff, 0xff, 0xff}, 0, 0x76293B50},
		{[]byte{0x21, 0x43, 0x65, 0x87}, 0, 0xF55B516B},
		{[]byte{0x21, 0x43, 0x65, 0x87}, 0x5082EDEE, 0x2362F9DE},
		{[]byte{0x21, 0x43, 0x65}, 0, 0x7E4A8634},
		{[]byte{0x21, 0x43}, 0, 0xA0F7B07A},
		{[]byte{0x21}, 0, 0x72661CF4},
		{[]byte{0, 0, 0, 0}, 0, 0x2362F9DE},
		{[]byte{0, 0, 0}, 0, 0x85F0B427},
		{[]byte{0, 0}, 0, 0x30F4C306},
		{[]byte{0}, 0, 0x514E28B7},
	}
	for _, v := range vec {
		if got := murmur3Bytes(v.data, v.seed); got != v.want {
			t.Errorf("byte murmur3(%x, %#x) = %#x want %#x", v.data, v.seed, got, v.want)
		}
		if len(v.data)%2 == 0 {
			// hashUnencodedChars(s) == murmur3_32(UTF-16LE bytes of s)
			js := make(JavaString, len(v.data)/2)
			for i := range js {
				js[i] = binary.LittleEndian.Uint16(v.data[2*i:])
			}
			if got := uint32(Murmur3HashUnencodedChars(int32(v.seed), js)); got != v.want {
				t.Errorf("char murmur3(%x, %#x) = %#x want %#x", v.data, v.seed, got, v.want)
			}
		}
	}
}

func TestMurmurCharsEqualsUTF16LEBytes(t *testing.T) {
	keys := []string{"", "a", "ab", "abc", "hello, world", "你好, 中国", "𠀀", "a😀b", "😀😀😀", "é", "́x\U0002A6D6"}
	for _, seed := range []int32{0, 1, -1, 42, -2147483648, 2147483647} {
		for _, k := range keys {
			u := utf16.Encode([]rune(k))
			b := make([]byte, 2*len(u))
			for i, c := range u {
				binary.LittleEndian.PutUint16(b[2*i:], c)
			}
			want := int32(murmur3Bytes(b, uint32(seed)))
			if got := Murmur3HashUnencodedChars(seed, ToJava(k)); got != want {
				t.Errorf("seed %d key %q: %d want %d", seed, k, got, want)
			}
		}
	}
}

func TestSequenceSlicing(t *testing.T) {
	vec := []struct {
		s    string
		a, b int
		bad  bool
	}{
		{"2", 0, 2, false}, {"-2", -2, 0, false}, {"0", 0, 0, false}, {"1:2", 1, 2, false}, {"1:", 1, 0, false},
		{"-1:", -1, 0, false}, {":-1", 0, -1, false}, {":", 0, 0, false}, {" 3 ", 0, 3, false}, {" -3 : 5 ", -3, 5, false},
		{"", 0, 0, true}, {"a", 0, 0, true}, {"a:1", 0, 0, true}, {"1:a", 0, 0, true}, {"1:2:3", 0, 0, true},
	}
	for _, v := range vec {
		a, b, err := SequenceSlicing(v.s)
		if (err != nil) != v.bad || (!v.bad && (a != v.a || b != v.b)) {
			t.Errorf("SequenceSlicing(%q) = %d,%d,%v want %d,%d bad=%v", v.s, a, b, err, v.a, v.b, v.bad)
		}
	}
}

func TestStringHashIsJavaHashCodeOnWholeString(t *testing.T) {
	// StringUtil.hash over the whole string is String.hashCode() carried in a long;
	// the low 32 bits must equal the well-known hashCode values.
	vec := map[string]int32{"": 0, "a": 97, "hello": 99162322, "Hello, World!": 1498789909, "你好": 652829}
	for s, want := range vec {
		js := ToJava(s)
		if got := int32(StringHash(js, 0, len(js))); got != want {
			t.Errorf("hash(%q) low32 = %d want %d", s, got, want)
		}
	}
}

func TestMod(t *testing.T) {
	vec := []struct {
		n    int
		k    string
		want int
	}{
		{3, "-9223372036854775808", 2}, // 2^63 mod 3
		{7, "-9223372036854775808", 1}, // 2^63 mod 7 = (2^3)^21 mod 7
		{10, "-9223372036854775808", 8},
		{10, "9223372036854775807", 7},
		{5, "+12", 2},
		{5, "-12", 2},
		{5, "007", 2},
		{16, "-9223372036854775808", 0},
	}
	for _, v := range vec {
		got, err := Mod(v.n, v.k)
		if err != nil || got != v.want {
			t.Errorf("Mod(%d,%s) = %d,%v want %d", v.n, v.k, got, err, v.want)
		}
	}
	for _, bad := range []string{"", "-", "+", "1 ", " 1", "1e3", "0x10", "1_0", "--1", "１２"} {
		if _, err := Mod(3, bad); err == nil {
			t.Errorf("Mod accepted %q", bad)
		}
	}
}

// The reference must reproduce every Mycat-derived expectation of Gaea's own tests.
func TestMycatVectors(t *testing.T) {
	if bad := CheckVectors(); len(bad) > 0 {
		for _, b := range bad {
			t.Error(b)
		}
	}
	if len(MycatVectors) < 500 {
		t.Fatalf("only %d vectors", len(MycatVectors))
	}
}
