// Package mycatref is an independent re-implementation of the Mycat 1.6
// partition functions PartitionByMod, PartitionByLong, PartitionByString and
// PartitionByMurmurHash (and of Guava's Hashing.murmur3_32(seed)
// .hashUnencodedChars they rely on), written from the Java algorithms with Java
// semantics spelled out: `int` is int32 with wrap-around, `long` is int64,
// `>>>` is a shift on the unsigned value, String.length()/charAt() work on
// UTF-16 code units. It shares no code with Gaea's proxy/router or util
// packages; it is the oracle of property C08.
package mycatref

import (
	"errors"
	"fmt"
	"math/big"
	"sort"
	"strconv"
	"strings"
	"unicode/utf16"
)

// ErrReject is returned where the Java code throws (NumberFormatException,
// IllegalArgumentException, ...).
var ErrReject = errors.New("mycat rejects")

// JavaString is a java.lang.String: a sequence of UTF-16 code units.
type JavaString []uint16

// ToJava converts a Go string holding valid UTF-8 to the Java String holding
// the same text (supplementary characters become surrogate pairs).
func ToJava(s string) JavaString {
	return JavaString(utf16.Encode([]rune(s)))
}

// ---------- PartitionByMod ----------

// javaBigInteger is new BigInteger(String): optional single sign followed by at
// least one decimal digit, nothing else.
func javaBigInteger(s string) (*big.Int, bool) {
	t := s
	if len(t) > 0 && (t[0] == '+' || t[0] == '-') {
		t = t[1:]
	}
	if len(t) == 0 {
		return nil, false
	}
	for i := 0; i < len(t); i++ {
		if t[i] < '0' || t[i] > '9' {
			return nil, false
		}
	}
	v, ok := new(big.Int).SetString(s, 10)
	return v, ok
}

// Mod is PartitionByMod.calculate: new BigInteger(v).abs().mod(count).intValue().
func Mod(count int, columnValue string) (int, error) {
	v, ok := javaBigInteger(columnValue)
	if !ok {
		return 0, ErrReject
	}
	if count <= 0 {
		return 0, ErrReject // BigInteger.mod: ArithmeticException
	}
	v.Abs(v)
	v.Mod(v, big.NewInt(int64(count)))
	return int(v.Int64()), nil
}

// ---------- PartitionUtil / PartitionByLong ----------

const partitionLength = 1024

// Long is PartitionByLong with its PartitionUtil.
type Long struct {
	segment [partitionLength]int
	nodes   int
}

// splitInts is toIntArray: SplitUtil.split(s, ',', true) + Integer.parseInt.
func splitInts(s string) ([]int, error) {
	parts := strings.Split(s, ",")
	out := make([]int, 0, len(parts))
	for _, p := range parts {
		p = strings.TrimSpace(p)
		n, err := strconv.ParseInt(p, 10, 32)
		if err != nil {
			return nil, ErrReject
		}
		out = append(out, int(n))
	}
	return out, nil
}

// NewLong is PartitionUtil(count[], length[]): node i of group g owns the next
// length[g] of the 1024 slots.
func NewLong(partitionCount, partitionLengthStr string) (*Long, error) {
	count, err := splitInts(partitionCount)
	if err != nil {
		return nil, err
	}
	length, err := splitInts(partitionLengthStr)
	if err != nil {
		return nil, err
	}
	if len(count) != len(length) {
		return nil, ErrReject
	}
	l := &Long{}
	pos := 0
	node := 0
	for g := range count {
		if count[g] < 0 || length[g] < 0 {
			return nil, ErrReject
		}
		for j := 0; j < count[g]; j++ {
			for k := 0; k < length[g]; k++ {
				if pos >= partitionLength {
					return nil, ErrReject
				}
				l.segment[pos] = node
				pos++
			}
			node++
		}
	}
	if pos != partitionLength {
		return nil, ErrReject
	}
	l.nodes = node
	return l, nil
}

// Nodes is the number of data nodes of the layout.
func (l *Long) Nodes() int { return l.nodes }

// PartitionHash is PartitionUtil.partition(long hash): segment[(int) hash & 1023].
func (l *Long) PartitionHash(hash int64) int {
	i := int32(hash) // (int) hash : low 32 bits
	return l.segment[i&(partitionLength-1)]
}

// javaParseLong is Long.parseLong(String) (radix 10).
func javaParseLong(s string) (int64, bool) {
	v, ok := javaBigInteger(s)
	if !ok || !v.IsInt64() {
		return 0, false
	}
	return v.Int64(), true
}

// Calculate is PartitionByLong.calculate.
func (l *Long) Calculate(columnValue string) (int, error) {
	k, ok := javaParseLong(columnValue)
	if !ok {
		return 0, ErrReject
	}
	return l.PartitionHash(k), nil
}

// ---------- PartitionByString ----------

// SequenceSlicing is PairUtil.sequenceSlicing:
// "2" -> (0,2), "-2" -> (-2,0), "1:2" -> (1,2), "1:" -> (1,0), "-1:" -> (-1,0),
// ":-1" -> (0,-1), ":" -> (0,0).
func SequenceSlicing(slice string) (start, end int, err error) {
	parse := func(s string) (int, error) {
		n, e := strconv.ParseInt(s, 10, 32) // Integer.parseInt
		if e != nil {
			return 0, ErrReject
		}
		return int(n), nil
	}
	ind := strings.IndexByte(slice, ':')
	if ind < 0 {
		i, e := parse(strings.TrimSpace(slice))
		if e != nil {
			return 0, 0, e
		}
		if i >= 0 {
			return 0, i, nil
		}
		return i, 0, nil
	}
	left := strings.TrimSpace(slice[:ind])
	right := strings.TrimSpace(slice[ind+1:])
	if left != "" {
		if start, err = parse(left); err != nil {
			return 0, 0, err
		}
	}
	if right != "" {
		if end, err = parse(right); err != nil {
			return 0, 0, err
		}
	}
	return start, end, nil
}

// StringHash is StringUtil.hash(String s, int start, int end):
// h = 31*h + s.charAt(i) on a Java long, start/end clamped to [0, s.length()].
func StringHash(s JavaString, start, end int) int64 {
	if start < 0 {
		start = 0
	}
	if end > len(s) {
		end = len(s)
	}
	var h int64
	for i := start; i < end; i++ {
		h = (h << 5) - h + int64(s[i]) // wraps like a Java long
	}
	return h
}

// String is PartitionByString.
type String struct {
	*Long
	Start, End int
}

// NewString builds PartitionByString from its three properties.
func NewString(partitionCount, partitionLengthStr, hashSlice string) (*String, error) {
	l, err := NewLong(partitionCount, partitionLengthStr)
	if err != nil {
		return nil, err
	}
	s, e, err := SequenceSlicing(hashSlice)
	if err != nil {
		return nil, err
	}
	return &String{Long: l, Start: s, End: e}, nil
}

// SliceBounds gives the effective [start,end) that calculate() passes to
// StringUtil.hash for a key of n UTF-16 code units.
func (p *String) SliceBounds(n int) (int, int) {
	start := p.Start
	if start < 0 {
		start = n + p.Start
	}
	end := p.End
	if end <= 0 {
		end = n + p.End
	}
	return start, end
}

// Calculate is PartitionByString.calculate.
func (p *String) Calculate(key string) int {
	js := ToJava(key)
	start, end := p.SliceBounds(len(js))
	return p.PartitionHash(StringHash(js, start, end))
}

// ---------- Guava Murmur3_32HashFunction.hashUnencodedChars ----------

const (
	mc1 uint32 = 0xcc9e2d51
	mc2 uint32 = 0x1b873593
)

func rotl32(x uint32, r uint) uint32 { return x<<r | x>>(32-r) }

func mixK1(k1 uint32) uint32 {
	k1 *= mc1
	k1 = rotl32(k1, 15)
	k1 *= mc2
	return k1
}

func mixH1(h1, k1 uint32) uint32 {
	h1 ^= k1
	h1 = rotl32(h1, 13)
	h1 = h1*5 + 0xe6546b64
	return h1
}

func fmix(h1, length uint32) uint32 {
	h1 ^= length
	h1 ^= h1 >> 16
	h1 *= 0x85ebca6b
	h1 ^= h1 >> 13
	h1 *= 0xc2b2ae35
	h1 ^= h1 >> 16
	return h1
}

// Murmur3HashUnencodedChars is Hashing.murmur3_32(seed).hashUnencodedChars(s).asInt().
// Java int arithmetic is two's complement mod 2^32, so it is carried out on
// uint32 (same bit patterns; `>>>` is the plain unsigned shift) and converted to
// the signed value at the end.
func Murmur3HashUnencodedChars(seed int32, s JavaString) int32 {
	h1 := uint32(seed)
	n := len(s)
	for i := 1; i < n; i += 2 {
		k1 := uint32(s[i-1]) | uint32(s[i])<<16
		h1 = mixH1(h1, mixK1(k1))
	}
	if n&1 == 1 {
		h1 ^= mixK1(uint32(s[n-1]))
	}
	return int32(fmix(h1, uint32(2*n))) // Chars.BYTES * length
}

// ---------- PartitionByMurmurHash ----------

// Murmur is PartitionByMurmurHash with default weights (1 per node).
type Murmur struct {
	seed  int32
	keys  []int32 // sorted ring positions (TreeMap keys, signed order)
	owner map[int32]int
}

// NewMurmur builds the consistent-hash ring: for node i the names are the
// cumulative "SHARD-i-NODE-0", "SHARD-i-NODE-0-NODE-1", ... (the Java code keeps
// appending to one StringBuilder); a later put() with an equal hash replaces
// the earlier one.
func NewMurmur(seed int32, count, virtualBucketTimes int) (*Murmur, error) {
	if count <= 0 || virtualBucketTimes <= 0 {
		return nil, ErrReject // empty TreeMap: firstKey() throws
	}
	m := &Murmur{seed: seed, owner: map[int32]int{}}
	for i := 0; i < count; i++ {
		name := fmt.Sprintf("SHARD-%d", i)
		for n := 0; n < virtualBucketTimes; n++ {
			name += fmt.Sprintf("-NODE-%d", n)
			h := Murmur3HashUnencodedChars(seed, ToJava(name))
			if _, dup := m.owner[h]; !dup {
				m.keys = append(m.keys, h)
			}
			m.owner[h] = i
		}
	}
	sort.Slice(m.keys, func(a, b int) bool { return m.keys[a] < m.keys[b] })
	return m, nil
}

// Calculate is PartitionByMurmurHash.calculate: first ring position >= hash
// (tailMap is inclusive), wrapping to the smallest position.
func (m *Murmur) Calculate(columnValue string) int {
	h := Murmur3HashUnencodedChars(m.seed, ToJava(columnValue))
	i := sort.Search(len(m.keys), func(i int) bool { return m.keys[i] >= h })
	if i == len(m.keys) {
		i = 0
	}
	return m.owner[m.keys[i]]
}

// Hash exposes the key hash (for diagnostics).
func (m *Murmur) Hash(columnValue string) int32 {
	return Murmur3HashUnencodedChars(m.seed, ToJava(columnValue))
}

// CheckVectors evaluates the reference on MycatVectors and returns one line per
// disagreement (empty when the reference reproduces all of them).
func CheckVectors() []string {
	var bad []string
	atoi := func(s string) int { n, _ := strconv.Atoi(s); return n }
	for _, v := range MycatVectors {
		got, err := -1, error(nil)
		switch v.Kind {
		case "mod":
			got, err = Mod(atoi(v.P1), v.Key)
		case "long":
			var l *Long
			if l, err = NewLong(v.P1, v.P2); err == nil {
				got, err = l.Calculate(v.Key)
			}
		case "string":
			var s *String
			if s, err = NewString(v.P1, v.P2, v.P3); err == nil {
				got = s.Calculate(v.Key)
			}
		case "murmur":
			var m *Murmur
			if m, err = NewMurmur(int32(atoi(v.P1)), atoi(v.P2), 160); err == nil {
				got = m.Calculate(v.Key)
			}
		default:
			err = fmt.Errorf("unknown kind")
		}
		if err != nil || got != v.Want {
			bad = append(bad, fmt.Sprintf("%s(%s,%s,%s) key %q: reference %d (err %v), Mycat-derived %d", v.Kind, v.P1, v.P2, v.P3, v.Key, got, err, v.Want))
		}
	}
	return bad
}

// Locate is the ring lookup of calculate() for an already computed key hash.
func (m *Murmur) Locate(h int32) int {
	i := sort.Search(len(m.keys), func(i int) bool { return m.keys[i] >= h })
	if i == len(m.keys) {
		i = 0
	}
	return m.owner[m.keys[i]]
}
