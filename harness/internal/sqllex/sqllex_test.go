package sqllex

import (
	"testing"
)

// Vectors taken from the MySQL reference manual (9.1.1, 9.1.2, 9.1.4, 9.7, 5.1.11).
func TestStringLiterals(t *testing.T) {
	type tc struct {
		sql  string
		m    Mode
		want []string // denoted values of the Str tokens; nil = lex error
	}
	nbe := Mode{NoBackslashEscapes: true}
	ansi := Mode{AnsiQuotes: true}
	for _, c := range []tc{
		{`SELECT 'hello', '"hello"', '""hello""', 'hel''lo', '\'hello'`, Mode{}, []string{`hello`, `"hello"`, `""hello""`, `hel'lo`, `'hello`}},
		{`SELECT "hello", "'hello'", "''hello''", "hel""lo", "\"hello"`, Mode{}, []string{`hello`, `'hello'`, `''hello''`, `hel"lo`, `"hello`}},
		{`SELECT 'This\nIs\nFour\nLines'`, Mode{}, []string{"This\nIs\nFour\nLines"}},
		{`SELECT 'disappearing\ backslash'`, Mode{}, []string{"disappearing backslash"}},
		{`SELECT '\0\b\n\r\t\Z\\\%\_\x'`, Mode{}, []string{"\x00\x08\n\r\t\x1a\\\\%\\_x"}},
		{`SELECT '\0\b\n'`, nbe, []string{`\0\b\n`}},
		{`SELECT 'a\\b'`, nbe, []string{`a\\b`}},
		{`SELECT 'a\\b'`, Mode{}, []string{`a\b`}},
		{`SELECT 'a\', 'b'`, nbe, []string{`a\`, `b`}},
		{`SELECT 'a\', 'b'`, Mode{}, nil},                  // the string a', b and then an unterminated string
		{`SELECT '\\\' OR 1=1 -- '`, nbe, []string{`\\\`}}, // three backslashes, then OR 1=1 and a comment
		{`SELECT '\\\' OR 1=1 -- '`, Mode{}, []string{`\' OR 1=1 -- `}},
		{`SELECT "x", 'y'`, ansi, []string{`y`}},
		{`SELECT 'it''s'`, nbe, []string{`it's`}},
		{`SELECT 'unterminated`, Mode{}, nil},
		{`SELECT 'ends in backslash\`, Mode{}, nil},
		{`SELECT 'ends in backslash\'`, nbe, []string{`ends in backslash\`}},
	} {
		toks, err := Lex(c.sql, c.m)
		if c.want == nil {
			if err == nil {
				t.Errorf("%q mode %+v: want lex error, got %s", c.sql, c.m, Render(toks))
			}
			continue
		}
		if err != nil {
			t.Errorf("%q mode %+v: %v", c.sql, c.m, err)
			continue
		}
		var got []string
		for _, tk := range toks {
			if tk.Kind == Str {
				got = append(got, string(tk.Val))
			}
		}
		if len(got) != len(c.want) {
			t.Errorf("%q mode %+v: strings %q want %q", c.sql, c.m, got, c.want)
			continue
		}
		for i := range got {
			if got[i] != c.want[i] {
				t.Errorf("%q mode %+v: string %d = %q want %q", c.sql, c.m, i, got[i], c.want[i])
			}
		}
	}
}

func TestTokens(t *testing.T) {
	for _, c := range []struct{ sql, want string }{
		{"SELECT 1+1 -- c\n, 2", `word("SELECT") num("1") op("+") num("1") op(",") num("2")`},
		{"SELECT 1--1", `word("SELECT") num("1") op("-") op("-") num("1")`},
		{"SELECT 1 # c\n/* x ? ' */ , ?", `word("SELECT") num("1") op(",") placeholder("?")`},
		{"a<=>?, b<>1, c!=.5e-3", `word("a") op("<=>") placeholder("?") op(",") word("b") op("<>") num("1") op(",") word("c") op("!=") num(".5e-3")`},
		{"X'4D7953514C', 0x0a, 0b101, b'01', 1e+21, 1.5E10, 12abc, `a``b`", "hex(\"MySQL\") op(\",\") hex(\"\\n\") op(\",\") bit(\"0b101\") op(\",\") bit(\"b'01'\") op(\",\") num(\"1e+21\") op(\",\") num(\"1.5E10\") op(\",\") word(\"12abc\") op(\",\") qident(\"a`b\")"},
		{"-Inf, NaN, NULL", `op("-") word("Inf") op(",") word("NaN") op(",") word("NULL")`},
	} {
		toks, err := Lex(c.sql, Mode{})
		if err != nil {
			t.Errorf("%q: %v", c.sql, err)
			continue
		}
		if got := Render(toks); got != c.want {
			t.Errorf("%q:\n got %s\nwant %s", c.sql, got, c.want)
		}
	}
}

func TestParseMode(t *testing.T) {
	for v, want := range map[string]Mode{
		"":                     {},
		"NO_BACKSLASH_ESCAPES": {NoBackslashEscapes: true},
		"'strict_trans_tables, no_backslash_escapes'": {NoBackslashEscapes: true},
		"ANSI":                             {AnsiQuotes: true},
		"ANSI_QUOTES,NO_BACKSLASH_ESCAPES": {NoBackslashEscapes: true, AnsiQuotes: true},
		"STRICT_ALL_TABLES":                {},
	} {
		if got := ParseMode(v); got != want {
			t.Errorf("ParseMode(%q)=%+v want %+v", v, got, want)
		}
	}
}

func TestMatchAndDenotes(t *testing.T) {
	str := func(s string) Param { return Param{Kind: "str", Type: TVarString, Bytes: []byte(s)} }
	i32 := func(v int32) Param { return Param{Kind: "int", Type: TLong, Bits: uint64(uint32(v))} }
	for _, c := range []struct {
		tmpl, got string
		m         Mode
		ps        []Param
		ok        bool
	}{
		{"SELECT ?, ?", "SELECT 'a''b', -5", Mode{}, []Param{str("a'b"), i32(-5)}, true},
		{"SELECT ?, ?", `SELECT 'a\'b', -5`, Mode{}, []Param{str("a'b"), i32(-5)}, true},
		{"SELECT ?, ?", `SELECT 'a\'b', -5`, Mode{NoBackslashEscapes: true}, []Param{str("a'b"), i32(-5)}, false},
		{"SELECT ?", `SELECT 'a\\b'`, Mode{NoBackslashEscapes: true}, []Param{str(`a\b`)}, false},
		{"SELECT ?", `SELECT 'a\b'`, Mode{NoBackslashEscapes: true}, []Param{str(`a\b`)}, true},
		{"SELECT ?", `SELECT X'615c62'`, Mode{NoBackslashEscapes: true}, []Param{str(`a\b`)}, true},
		{"SELECT ?", `SELECT _binary 'x'`, Mode{}, []Param{str(`x`)}, true},
		{"SELECT ? FROM t", `SELECT '' OR 1=1 FROM t`, Mode{}, []Param{str(``)}, false},
		{"SELECT ?", "SELECT 4294967295", Mode{}, []Param{{Kind: "int", Type: TLong, Unsigned: true, Bits: 0xffffffff}}, true},
		{"SELECT ?", "SELECT -1", Mode{}, []Param{{Kind: "int", Type: TLong, Unsigned: true, Bits: 0xffffffff}}, false},
		{"SELECT ?", "SELECT 0.1", Mode{}, []Param{{Kind: "float", Type: TFloat, Bits: 0x3dcccccd}}, true},
		{"SELECT ?", "SELECT 0.1", Mode{}, []Param{{Kind: "double", Type: TDouble, Bits: 0x3fb999999999999a}}, true},
		{"SELECT ?", "SELECT 0.10000000149011612", Mode{}, []Param{{Kind: "double", Type: TDouble, Bits: 0x3fb999999999999a}}, false},
		{"SELECT ?", "SELECT NaN", Mode{}, []Param{{Kind: "double", Type: TDouble, Bits: 0x7ff8000000000000}}, false},
		{"SELECT ?", "SELECT NULL", Mode{}, []Param{{Kind: "null_type", Type: TNull}}, true},
		{"SELECT ?", "SELECT '2024-02-29 23:59:58.000010'", Mode{}, []Param{{Kind: "datetime", Type: TDatetime, Len: 11, Year: 2024, Month: 2, Day: 29, Hour: 23, Minute: 59, Second: 58, Micro: 10}}, true},
		{"SELECT ?", "SELECT '2024-02-29 23:59:58.10'", Mode{}, []Param{{Kind: "datetime", Type: TDatetime, Len: 11, Year: 2024, Month: 2, Day: 29, Hour: 23, Minute: 59, Second: 58, Micro: 10}}, false},
		{"SELECT ?", "SELECT '2024-02-29'", Mode{}, []Param{{Kind: "datetime", Type: TDatetime, Len: 4, Year: 2024, Month: 2, Day: 29}}, true},
		{"SELECT ?", "SELECT '-838:59:59'", Mode{}, []Param{{Kind: "time", Type: TTime, Len: 8, Neg: true, Day: 34, Hour: 22, Minute: 59, Second: 59}}, true},
		{"SELECT ?", "SELECT '00:00:00'", Mode{}, []Param{{Kind: "time", Type: TTime, Len: 0}}, true},
		{"SELECT ?", "SELECT '0000-00-00'", Mode{}, []Param{{Kind: "time", Type: TTime, Len: 0}}, false},
		{"SELECT ?, 1", "SELECT 5, 1, 2", Mode{}, []Param{i32(5)}, false},
		{"SELECT ?, 1", "SELECT 5", Mode{}, []Param{i32(5)}, false},
	} {
		r := Match(c.tmpl, c.got, c.m, c.ps, nil)
		if r.OK != c.ok {
			t.Errorf("Match(%q, %q, %+v) = %v (%s) want %v", c.tmpl, c.got, c.m, r.OK, r.Detail, c.ok)
		}
	}
}
