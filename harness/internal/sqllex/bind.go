package sqllex

// Reference model of binary-protocol parameter values (MySQL internals manual,
// "Binary Protocol Value") and of what it means for a literal to denote one:
// the oracle side of C15/C16. Values are encoded for the wire here and the
// expected denotation is derived from the same specification, never from Gaea.

import (
	"bytes"
	"encoding/binary"
	"fmt"
	"math"
	"math/big"
	"strings"
)

// MySQL type codes used for parameters.
const (
	TDecimal    = 0
	TTiny       = 1
	TShort      = 2
	TLong       = 3
	TFloat      = 4
	TDouble     = 5
	TNull       = 6
	TTimestamp  = 7
	TLongLong   = 8
	TInt24      = 9
	TDate       = 10
	TTime       = 11
	TDatetime   = 12
	TYear       = 13
	TVarchar    = 15
	TBit        = 16
	TJSON       = 245
	TNewDecimal = 246
	TEnum       = 247
	TSet        = 248
	TTinyBlob   = 249
	TMediumBlob = 250
	TLongBlob   = 251
	TBlob       = 252
	TVarString  = 253
	TString     = 254
	TGeometry   = 255
)

// StringTypes are the type codes whose binary value is a length-encoded string.
var StringTypes = []byte{TVarString, TString, TVarchar, TBlob, TTinyBlob, TMediumBlob, TLongBlob, TNewDecimal, TDecimal, TBit, TEnum, TSet, TJSON, TGeometry}

// Param is one bound parameter as the client means it.
type Param struct {
	Kind     string `json:"kind"` // null_bitmap | null_type | int | float | double | str | date | datetime | time
	Type     byte   `json:"type"` // MySQL type code sent in the type block
	Unsigned bool   `json:"unsigned,omitempty"`
	Bits     uint64 `json:"bits,omitempty"`  // int: value bits (low bytes used per width); float/double: IEEE bits
	Bytes    []byte `json:"bytes,omitempty"` // str: the bytes
	// temporal: Len is the length byte (date 0/4; datetime 0/4/7/11; time 0/8/12)
	Len    int  `json:"len,omitempty"`
	Year   int  `json:"year,omitempty"`
	Month  int  `json:"month,omitempty"`
	Day    int  `json:"day,omitempty"` // for time: days (0..34)
	Hour   int  `json:"hour,omitempty"`
	Minute int  `json:"minute,omitempty"`
	Second int  `json:"second,omitempty"`
	Micro  int  `json:"micro,omitempty"`
	Neg    bool `json:"neg,omitempty"`
}

// IsNull reports whether the parameter is NULL.
func (p Param) IsNull() bool { return p.Kind == "null_bitmap" || p.Kind == "null_type" }

// IntWidth is the number of value bytes of an integer type code (0 if not an integer type).
func IntWidth(tp byte) int {
	switch tp {
	case TTiny:
		return 1
	case TShort, TYear:
		return 2
	case TLong, TInt24:
		return 4
	case TLongLong:
		return 8
	}
	return 0
}

// LenEnc encodes a length-encoded string.
func LenEnc(b []byte) []byte {
	n := uint64(len(b))
	var p []byte
	switch {
	case n < 251:
		p = []byte{byte(n)}
	case n < 1<<16:
		p = []byte{0xfc, byte(n), byte(n >> 8)}
	case n < 1<<24:
		p = []byte{0xfd, byte(n), byte(n >> 8), byte(n >> 16)}
	default:
		p = make([]byte, 9)
		p[0] = 0xfe
		binary.LittleEndian.PutUint64(p[1:], n)
	}
	return append(p, b...)
}

// Wire returns the type code, unsigned flag, NULL-bitmap bit and value bytes of
// the parameter in a COM_STMT_EXECUTE packet.
func (p Param) Wire() (tp byte, unsigned bool, nullBit bool, value []byte) {
	switch p.Kind {
	case "null_bitmap":
		return p.Type, p.Unsigned, true, nil
	case "null_type":
		return TNull, false, false, nil
	case "int":
		w := IntWidth(p.Type)
		var b [8]byte
		binary.LittleEndian.PutUint64(b[:], p.Bits)
		return p.Type, p.Unsigned, false, b[:w]
	case "float":
		var b [4]byte
		binary.LittleEndian.PutUint32(b[:], uint32(p.Bits))
		return TFloat, false, false, b[:]
	case "double":
		var b [8]byte
		binary.LittleEndian.PutUint64(b[:], p.Bits)
		return TDouble, false, false, b[:]
	case "str":
		return p.Type, false, false, LenEnc(p.Bytes)
	case "date", "datetime":
		v := []byte{byte(p.Len)}
		full := []byte{byte(p.Year), byte(p.Year >> 8), byte(p.Month), byte(p.Day), byte(p.Hour), byte(p.Minute), byte(p.Second),
			byte(p.Micro), byte(p.Micro >> 8), byte(p.Micro >> 16), byte(p.Micro >> 24)}
		return p.Type, false, false, append(v, full[:p.Len]...)
	case "time":
		v := []byte{byte(p.Len)}
		neg := byte(0)
		if p.Neg {
			neg = 1
		}
		full := []byte{neg, byte(p.Day), byte(p.Day >> 8), byte(p.Day >> 16), byte(p.Day >> 24), byte(p.Hour), byte(p.Minute), byte(p.Second),
			byte(p.Micro), byte(p.Micro >> 8), byte(p.Micro >> 16), byte(p.Micro >> 24)}
		return TTime, false, false, append(v, full[:p.Len]...)
	}
	panic("sqllex: unknown param kind " + p.Kind)
}

// IntValue is the integer the parameter denotes.
func (p Param) IntValue() *big.Int {
	w := IntWidth(p.Type)
	bits := p.Bits
	if w < 8 {
		bits &= 1<<(8*uint(w)) - 1
	}
	if p.Unsigned {
		return new(big.Int).SetUint64(bits)
	}
	switch w {
	case 1:
		return big.NewInt(int64(int8(bits)))
	case 2:
		return big.NewInt(int64(int16(bits)))
	case 4:
		return big.NewInt(int64(int32(bits)))
	}
	return big.NewInt(int64(bits))
}

// FloatValue is the number a float/double parameter denotes.
func (p Param) FloatValue() float64 {
	if p.Kind == "float" {
		return float64(math.Float32frombits(uint32(p.Bits)))
	}
	return math.Float64frombits(p.Bits)
}

// NonFinite reports a float/double parameter that is NaN or an infinity.
func (p Param) NonFinite() bool {
	if p.Kind != "float" && p.Kind != "double" {
		return false
	}
	f := p.FloatValue()
	return math.IsNaN(f) || math.IsInf(f, 0)
}

// temporal value with only the fields present on the wire (the rest is zero)
func (p Param) temporal() Temporal {
	var t Temporal
	switch p.Kind {
	case "date", "datetime":
		t.HasDate = true
		if p.Len >= 4 {
			t.Year, t.Month, t.Day = p.Year, p.Month, p.Day
		}
		if p.Kind == "datetime" {
			t.HasTime = true
			if p.Len >= 7 {
				t.Hour, t.Minute, t.Second = p.Hour, p.Minute, p.Second
			}
			if p.Len >= 11 {
				t.Micro = p.Micro
			}
		}
	case "time":
		t.HasTime = true
		if p.Len >= 8 {
			t.Neg = p.Neg
			t.Hour, t.Minute, t.Second = p.Day*24+p.Hour, p.Minute, p.Second
		}
		if p.Len >= 12 {
			t.Micro = p.Micro
		}
	}
	return t
}

// Describe renders the value for messages.
func (p Param) Describe() string {
	switch p.Kind {
	case "null_bitmap", "null_type":
		return "NULL(" + p.Kind + ")"
	case "int":
		return fmt.Sprintf("int(type %d, unsigned %v) %s", p.Type, p.Unsigned, p.IntValue())
	case "float", "double":
		return fmt.Sprintf("%s %v (bits %#x)", p.Kind, p.FloatValue(), p.Bits)
	case "str":
		return fmt.Sprintf("string(type %d) %q", p.Type, p.Bytes)
	}
	return fmt.Sprintf("%s(len %d) %+v", p.Kind, p.Len, p.temporal())
}

// Denotes decides whether literal l denotes exactly the value of p.
//
//   - NULL: the literal NULL.
//   - integers: a numeric literal with exactly that value.
//   - float/double: a numeric literal that, rounded to the parameter's own
//     precision (binary32 for FLOAT, binary64 for DOUBLE), gives the bound value
//     (the weakest reading of "numerically": the shortest round-trip decimal of a
//     float is accepted). A non-finite value has no literal.
//   - strings/blobs (and DECIMAL, BIT, ENUM, SET, JSON, GEOMETRY, which travel
//     as strings): a string or hexadecimal literal with the same bytes, with or
//     without a character set introducer.
//   - DATE/DATETIME/TIMESTAMP/TIME: a string literal (optionally DATE/TIME/
//     TIMESTAMP-typed) in one of the standard forms with the same fields; a
//     date-only string denotes a DATETIME whose time part is zero.
func Denotes(l Literal, p Param) (bool, string) {
	switch p.Kind {
	case "null_bitmap", "null_type":
		if l.IsNull() {
			return true, ""
		}
		return false, "want NULL"
	case "int":
		r, ok := l.Rat()
		if !ok {
			return false, "want a numeric literal"
		}
		if !r.IsInt() || r.Num().Cmp(p.IntValue()) != 0 {
			return false, fmt.Sprintf("numeric literal %s is not %s", l.Tok.Text, p.IntValue())
		}
		return true, ""
	case "float", "double":
		if p.NonFinite() {
			return false, "a non-finite value has no literal"
		}
		bits := 64
		if p.Kind == "float" {
			bits = 32
		}
		f, ok := l.Float(bits)
		if !ok {
			return false, "want a numeric literal"
		}
		if f != p.FloatValue() {
			return false, fmt.Sprintf("numeric literal %v is not %v", f, p.FloatValue())
		}
		return true, ""
	case "str":
		if l.Intro != "" && !strings.HasPrefix(l.Intro, "_") && l.Intro != "N" {
			return false, "typed temporal literal for a string value"
		}
		if b, ok := l.Bytes(); ok {
			if bytes.Equal(b, p.Bytes) {
				return true, ""
			}
			return false, fmt.Sprintf("literal denotes %q", b)
		}
		if p.Type == TNewDecimal || p.Type == TDecimal {
			// a DECIMAL travels as its text; an exact numeric literal of the same value denotes it too
			want, ok1 := new(big.Rat).SetString(string(p.Bytes))
			got, ok2 := l.Rat()
			if ok1 && ok2 && want.Cmp(got) == 0 && !strings.ContainsAny(l.Tok.Text, "eE") {
				return true, ""
			}
		}
		return false, "want a string literal"
	case "date", "datetime", "time":
		b, ok := l.Bytes()
		if !ok || l.Tok.Kind != Str {
			return false, "want a temporal string literal"
		}
		got, ok := ParseTemporal(b)
		if !ok {
			return false, fmt.Sprintf("string %q is not a temporal value in standard form", b)
		}
		want := p.temporal()
		if p.Kind == "time" {
			if got.HasDate {
				return false, fmt.Sprintf("string %q is a date, want a TIME value %+v", b, want)
			}
			zero := want.Hour == 0 && want.Minute == 0 && want.Second == 0 && want.Micro == 0
			if got.Hour != want.Hour || got.Minute != want.Minute || got.Second != want.Second || got.Micro != want.Micro || (!zero && got.Neg != want.Neg) {
				return false, fmt.Sprintf("string %q is %+v, want %+v", b, got, want)
			}
			return true, ""
		}
		if !got.HasDate {
			return false, fmt.Sprintf("string %q is a time, want a date", b)
		}
		if got.Year != want.Year || got.Month != want.Month || got.Day != want.Day ||
			got.Hour != want.Hour || got.Minute != want.Minute || got.Second != want.Second || got.Micro != want.Micro {
			return false, fmt.Sprintf("string %q is %+v, want %+v", b, got, want)
		}
		return true, ""
	}
	return false, "unknown parameter kind"
}

// Alt lets a caller accept, for placeholder k, a specific non-literal token
// run at gt[j:] (used by narrow known-finding classifiers). It returns the
// number of tokens to accept, 0 for none.
type Alt func(k int, p Param, gt []Token, j int) int

// MatchResult is the outcome of Match.
type MatchResult struct {
	OK      bool
	Detail  string
	Slot    int   // placeholder index at which the comparison failed, -1 for a structural failure
	AltUsed []int // placeholders accepted through alt
}

// Match decides whether got is template with every placeholder replaced by
// exactly one literal denoting the corresponding parameter, both lexed under
// mode m.
func Match(template, got string, m Mode, params []Param, alt Alt) MatchResult {
	tt, err := Lex(template, m)
	if err != nil {
		return MatchResult{Detail: "template does not lex: " + err.Error(), Slot: -1}
	}
	gt, err := Lex(got, m)
	if err != nil {
		return MatchResult{Detail: fmt.Sprintf("executed statement does not lex (%v); tokens so far: %s", err, Render(gt)), Slot: -1}
	}
	res := MatchResult{Slot: -1}
	j, k := 0, 0
	for i := 0; i < len(tt); i++ {
		if tt[i].Kind == Placeholder {
			if k >= len(params) {
				return MatchResult{Detail: "template has more placeholders than parameters", Slot: -1}
			}
			l, ok := TakeLiteral(gt, j)
			why := "no literal"
			if ok {
				ok, why = Denotes(l, params[k])
			}
			if !ok {
				if alt != nil {
					if n := alt(k, params[k], gt, j); n > 0 {
						res.AltUsed = append(res.AltUsed, k)
						j += n
						k++
						continue
					}
				}
				rest := gt[min(j, len(gt)):]
				if len(rest) > 6 {
					rest = rest[:6]
				}
				return MatchResult{Slot: k, Detail: fmt.Sprintf("placeholder %d bound to %s: %s; statement continues with: %s", k, params[k].Describe(), why, Render(rest))}
			}
			j += l.N
			k++
			continue
		}
		if j >= len(gt) {
			return MatchResult{Slot: -1, Detail: fmt.Sprintf("executed statement ends early: template token %s missing", tt[i])}
		}
		if !SameToken(tt[i], gt[j]) {
			return MatchResult{Slot: -1, Detail: fmt.Sprintf("token %d differs: template has %s, executed statement has %s", j, tt[i], gt[j])}
		}
		j++
	}
	if j != len(gt) {
		rest := gt[j:]
		if len(rest) > 6 {
			rest = rest[:6]
		}
		return MatchResult{Slot: -1, Detail: fmt.Sprintf("executed statement has %d extra token(s) after the template's last: %s", len(gt)-j, Render(rest))}
	}
	res.OK = true
	return res
}

// CountPlaceholders lexes the template and counts ? in code context.
func CountPlaceholders(template string, m Mode) (int, error) {
	tt, err := Lex(template, m)
	if err != nil {
		return 0, err
	}
	n := 0
	for _, t := range tt {
		if t.Kind == Placeholder {
			n++
		}
	}
	return n, nil
}

// RenderNoBackslash renders b as the body of a string literal quoted with q for
// a server running with NO_BACKSLASH_ESCAPES (9.1.1: the only special character
// is the quote itself, written twice).
func RenderNoBackslash(b []byte, q byte) string {
	out := make([]byte, 0, len(b)+2)
	for _, c := range b {
		if c == q {
			out = append(out, q)
		}
		out = append(out, c)
	}
	return string(out)
}

// CutInsideValue recognises a statement text that is the expected text cut off
// at a ';' lying inside the literal of a string parameter, read under
// NO_BACKSLASH_ESCAPES: got must be exactly
//
//	<text matching the template up to placeholder k, earlier values right> ' <correct rendering of value[:i]>
//
// with value[i] == ';'. It returns the placeholder and the offset of the cut.
func CutInsideValue(template, got string, m Mode, params []Param) (ok bool, k int, at int) {
	if !m.NoBackslashEscapes {
		return false, 0, 0
	}
	tt, err := Lex(template, m)
	if err != nil {
		return false, 0, 0
	}
	k = -1
	for _, t := range tt {
		if t.Kind != Placeholder {
			continue
		}
		k++
		if k >= len(params) || params[k].Kind != "str" {
			continue
		}
		v := params[k].Bytes
		for i := 0; i < len(v); i++ {
			if v[i] != ';' {
				continue
			}
			suffix := "'" + RenderNoBackslash(v[:i], '\'')
			if !strings.HasSuffix(got, suffix) {
				continue
			}
			head := got[:len(got)-len(suffix)]
			if Match(template[:t.Pos], head, m, params[:k], nil).OK {
				return true, k, i
			}
		}
	}
	return false, 0, 0
}
