// Package sqllex is a small, binary-safe lexer for MySQL statement text,
// written from the MySQL reference manual (9.1.1 String Literals, 9.1.2 Numeric
// Literals, 9.1.4 Hexadecimal Literals, 9.1.5 Bit-Value Literals, 9.2 Schema
// Object Names, 9.7 Comments, 5.1.11 Server SQL Modes) and aware of the two
// sql_mode flags that change lexing: NO_BACKSLASH_ESCAPES and ANSI_QUOTES.
//
// It is the oracle of C15/C16: the statement text a backend received is
// tokenised under the sql_mode in force on that backend connection and compared
// token by token with the prepared template. Nothing in here calls Gaea.
//
// Assumption: character_set_client is an ASCII-transparent character set
// (latin1, utf8, utf8mb4, binary): no multi-byte character contains the bytes
// ' " ` or \, so byte-wise scanning is exact. (Not true for gbk, big5, sjis.)
package sqllex

import (
	"bytes"
	"fmt"
	"math"
	"math/big"
	"strconv"
	"strings"
)

// Kind of a token.
type Kind int

const (
	Word        Kind = iota // keyword or unquoted identifier (also NULL, TRUE, introducers such as _binary)
	Num                     // unsigned numeric literal: 12, 1.5, .5, 1e-7, 1.5E+10
	Str                     // quoted string literal; Val holds the denoted bytes
	Hex                     // X'..' or 0x.. literal; Val holds the denoted bytes
	Bit                     // b'..' or 0b.. literal; Text only
	QIdent                  // `quoted identifier` (or "quoted identifier" under ANSI_QUOTES); Val holds the name
	Op                      // operator or punctuation
	Placeholder             // ? in code context
)

func (k Kind) String() string {
	return [...]string{"word", "num", "str", "hex", "bit", "qident", "op", "placeholder"}[k]
}

// Token is one lexical element. Comments and whitespace are not tokens.
type Token struct {
	Kind Kind
	Text string // raw text of the token
	Val  []byte // denoted bytes for Str/Hex/QIdent
	Pos  int
}

func (t Token) String() string {
	switch t.Kind {
	case Str, Hex, QIdent:
		return fmt.Sprintf("%s(%q)", t.Kind, t.Val)
	}
	return fmt.Sprintf("%s(%q)", t.Kind, t.Text)
}

// Mode are the sql_mode flags relevant to lexing.
type Mode struct {
	NoBackslashEscapes bool
	AnsiQuotes         bool
}

// ParseMode derives the flags from a sql_mode value as text (comma separated
// mode names, any case; combination modes are expanded per the manual).
func ParseMode(v string) Mode {
	var m Mode
	v = strings.TrimSpace(v)
	if len(v) >= 2 && (v[0] == '\'' || v[0] == '"') && v[len(v)-1] == v[0] {
		v = v[1 : len(v)-1]
	}
	for _, f := range strings.Split(v, ",") {
		switch strings.ToUpper(strings.TrimSpace(f)) {
		case "NO_BACKSLASH_ESCAPES":
			m.NoBackslashEscapes = true
		case "ANSI_QUOTES", "ANSI", "DB2", "MAXDB", "MSSQL", "ORACLE", "POSTGRESQL":
			m.AnsiQuotes = true
		}
	}
	return m
}

func isSpace(c byte) bool {
	return c == ' ' || c == '\t' || c == '\n' || c == '\r' || c == '\f' || c == '\v'
}

func isDigit(c byte) bool { return c >= '0' && c <= '9' }

func isIdent(c byte) bool {
	return c == '_' || c == '$' || isDigit(c) || c >= 'a' && c <= 'z' || c >= 'A' && c <= 'Z' || c >= 0x80
}

func isHexDigit(c byte) bool {
	return isDigit(c) || c >= 'a' && c <= 'f' || c >= 'A' && c <= 'F'
}

// Lex tokenises sql. An error is returned for an unterminated string, quoted
// identifier or block comment, and for a malformed X'..' literal.
func Lex(sql string, m Mode) ([]Token, error) {
	var toks []Token
	n := len(sql)
	i := 0
	for i < n {
		c := sql[i]
		switch {
		case isSpace(c):
			i++
		case c == '#':
			for i < n && sql[i] != '\n' {
				i++
			}
		case c == '-' && i+1 < n && sql[i+1] == '-' && (i+2 == n || isSpace(sql[i+2]) || sql[i+2] < 0x20):
			// "-- " comment: two dashes followed by whitespace or a control character
			for i < n && sql[i] != '\n' {
				i++
			}
		case c == '/' && i+1 < n && sql[i+1] == '*':
			j := strings.Index(sql[i+2:], "*/")
			if j < 0 {
				return toks, fmt.Errorf("unterminated /* comment at %d", i)
			}
			i += 2 + j + 2
		case c == '\'' || c == '"' && !m.AnsiQuotes:
			val, end, err := scanString(sql, i, m)
			if err != nil {
				return toks, err
			}
			toks = append(toks, Token{Kind: Str, Text: sql[i:end], Val: val, Pos: i})
			i = end
		case c == '`' || c == '"' && m.AnsiQuotes:
			val, end, err := scanQuotedIdent(sql, i)
			if err != nil {
				return toks, err
			}
			toks = append(toks, Token{Kind: QIdent, Text: sql[i:end], Val: val, Pos: i})
			i = end
		case c == '?':
			toks = append(toks, Token{Kind: Placeholder, Text: "?", Pos: i})
			i++
		case (c == 'x' || c == 'X' || c == 'b' || c == 'B') && i+1 < n && sql[i+1] == '\'':
			j := strings.IndexByte(sql[i+2:], '\'')
			if j < 0 {
				return toks, fmt.Errorf("unterminated %c'..' literal at %d", c, i)
			}
			body := sql[i+2 : i+2+j]
			end := i + 2 + j + 1
			if c == 'x' || c == 'X' {
				if len(body)%2 != 0 {
					return toks, fmt.Errorf("odd number of digits in hex literal at %d", i)
				}
				val := make([]byte, 0, len(body)/2)
				for k := 0; k < len(body); k += 2 {
					if !isHexDigit(body[k]) || !isHexDigit(body[k+1]) {
						return toks, fmt.Errorf("bad digit in hex literal at %d", i)
					}
					b, _ := strconv.ParseUint(body[k:k+2], 16, 8)
					val = append(val, byte(b))
				}
				toks = append(toks, Token{Kind: Hex, Text: sql[i:end], Val: val, Pos: i})
			} else {
				for k := 0; k < len(body); k++ {
					if body[k] != '0' && body[k] != '1' {
						return toks, fmt.Errorf("bad digit in bit literal at %d", i)
					}
				}
				toks = append(toks, Token{Kind: Bit, Text: sql[i:end], Pos: i})
			}
			i = end
		case isDigit(c) || c == '.' && i+1 < n && isDigit(sql[i+1]):
			end, kind, val := scanNumber(sql, i)
			toks = append(toks, Token{Kind: kind, Text: sql[i:end], Val: val, Pos: i})
			i = end
		case isIdent(c):
			j := i
			for j < n && isIdent(sql[j]) {
				j++
			}
			toks = append(toks, Token{Kind: Word, Text: sql[i:j], Pos: i})
			i = j
		default:
			end := i + 1
			for _, op := range [...]string{"<=>", "<<", ">>", "<=", ">=", "<>", "!=", ":=", "||", "&&"} {
				if strings.HasPrefix(sql[i:], op) {
					end = i + len(op)
					break
				}
			}
			toks = append(toks, Token{Kind: Op, Text: sql[i:end], Pos: i})
			i = end
		}
	}
	return toks, nil
}

// scanString decodes the quoted string starting at sql[i] (9.1.1): the quote
// character doubled denotes itself; unless NO_BACKSLASH_ESCAPES is enabled a
// backslash starts an escape sequence.
func scanString(sql string, i int, m Mode) (val []byte, end int, err error) {
	q := sql[i]
	n := len(sql)
	val = []byte{}
	j := i + 1
	for j < n {
		c := sql[j]
		switch {
		case c == q:
			if j+1 < n && sql[j+1] == q {
				val = append(val, q)
				j += 2
				continue
			}
			return val, j + 1, nil
		case c == '\\' && !m.NoBackslashEscapes:
			if j+1 >= n {
				return nil, n, fmt.Errorf("unterminated string starting at %d (ends in a backslash)", i)
			}
			e := sql[j+1]
			switch e {
			case '0':
				val = append(val, 0)
			case 'b':
				val = append(val, 8)
			case 'n':
				val = append(val, '\n')
			case 'r':
				val = append(val, '\r')
			case 't':
				val = append(val, '\t')
			case 'Z':
				val = append(val, 0x1a)
			case '%', '_':
				val = append(val, '\\', e)
			default: // \' \" \\ and every other character: the character itself
				val = append(val, e)
			}
			j += 2
		default:
			val = append(val, c)
			j++
		}
	}
	return nil, n, fmt.Errorf("unterminated string starting at %d", i)
}

func scanQuotedIdent(sql string, i int) (val []byte, end int, err error) {
	q := sql[i]
	n := len(sql)
	val = []byte{}
	j := i + 1
	for j < n {
		c := sql[j]
		if c == q {
			if j+1 < n && sql[j+1] == q {
				val = append(val, q)
				j += 2
				continue
			}
			return val, j + 1, nil
		}
		val = append(val, c)
		j++
	}
	return nil, n, fmt.Errorf("unterminated quoted identifier starting at %d", i)
}

// scanNumber scans 0x.., 0b.., integers, decimals and approximate literals. A
// digit string that runs into identifier characters (1abc) is an identifier.
func scanNumber(sql string, i int) (end int, kind Kind, val []byte) {
	n := len(sql)
	if sql[i] == '0' && i+2 < n && sql[i+1] == 'x' && isHexDigit(sql[i+2]) {
		j := i + 2
		for j < n && isHexDigit(sql[j]) {
			j++
		}
		if j == n || !isIdent(sql[j]) {
			h := sql[i+2 : j]
			if len(h)%2 == 1 {
				h = "0" + h
			}
			v := make([]byte, 0, len(h)/2)
			for k := 0; k < len(h); k += 2 {
				b, _ := strconv.ParseUint(h[k:k+2], 16, 8)
				v = append(v, byte(b))
			}
			return j, Hex, v
		}
	}
	if sql[i] == '0' && i+2 < n && sql[i+1] == 'b' && (sql[i+2] == '0' || sql[i+2] == '1') {
		j := i + 2
		for j < n && (sql[j] == '0' || sql[j] == '1') {
			j++
		}
		if j == n || !isIdent(sql[j]) {
			return j, Bit, nil
		}
	}
	j := i
	for j < n && isDigit(sql[j]) {
		j++
	}
	intEnd := j
	if j < n && sql[j] == '.' {
		j++
		for j < n && isDigit(sql[j]) {
			j++
		}
	}
	if j < n && (sql[j] == 'e' || sql[j] == 'E') {
		k := j + 1
		if k < n && (sql[k] == '+' || sql[k] == '-') {
			k++
		}
		if k < n && isDigit(sql[k]) {
			for k < n && isDigit(sql[k]) {
				k++
			}
			j = k
		}
	}
	if j < n && isIdent(sql[j]) && j == intEnd && sql[i] != '.' {
		// digits immediately followed by identifier characters: an identifier
		for j < n && isIdent(sql[j]) {
			j++
		}
		return j, Word, nil
	}
	return j, Num, nil
}

// Render is a compact rendering of a token sequence for messages.
func Render(toks []Token) string {
	var b strings.Builder
	for i, t := range toks {
		if i > 0 {
			b.WriteByte(' ')
		}
		b.WriteString(t.String())
	}
	return b.String()
}

// SameToken says whether two non-literal tokens are the same lexical element.
func SameToken(a, b Token) bool {
	if a.Kind != b.Kind {
		return false
	}
	switch a.Kind {
	case Str, Hex, QIdent:
		return bytes.Equal(a.Val, b.Val)
	}
	return a.Text == b.Text
}

// ---- literal denotation ----

// Literal is the literal found in the place of one placeholder: an optional
// sign, an optional introducer or type keyword (_binary, DATE, TIME, TIMESTAMP)
// and exactly one literal token.
type Literal struct {
	Neg   bool
	Intro string // upper-cased introducer / type keyword, "" if none
	Tok   Token
	N     int // tokens consumed
}

// TakeLiteral recognises a literal at toks[i:]: NULL | TRUE | FALSE |
// [+|-] number | [_charset] string | hex | bit | DATE/TIME/TIMESTAMP string
// (9.1 Literal Values). ok=false when toks[i:] does not start with a literal.
func TakeLiteral(toks []Token, i int) (l Literal, ok bool) {
	if i >= len(toks) {
		return l, false
	}
	t := toks[i]
	switch t.Kind {
	case Str, Hex, Bit, Num:
		return Literal{Tok: t, N: 1}, true
	case Op:
		if (t.Text == "-" || t.Text == "+") && i+1 < len(toks) && toks[i+1].Kind == Num {
			return Literal{Neg: t.Text == "-", Tok: toks[i+1], N: 2}, true
		}
	case Word:
		up := strings.ToUpper(t.Text)
		if up == "NULL" || up == "TRUE" || up == "FALSE" {
			return Literal{Tok: t, N: 1}, true
		}
		if i+1 < len(toks) && toks[i+1].Kind == Str {
			adjacent := toks[i+1].Pos == t.Pos+len(t.Text)
			if up == "DATE" || up == "TIME" || up == "TIMESTAMP" || strings.HasPrefix(up, "_") && len(up) > 1 || up == "N" && adjacent {
				return Literal{Intro: up, Tok: toks[i+1], N: 2}, true
			}
		}
	}
	return l, false
}

// IsNull reports whether the literal is NULL.
func (l Literal) IsNull() bool {
	return l.Tok.Kind == Word && strings.EqualFold(l.Tok.Text, "NULL")
}

// Bytes returns the byte string a string-like literal denotes.
func (l Literal) Bytes() ([]byte, bool) {
	if l.Neg {
		return nil, false
	}
	switch l.Tok.Kind {
	case Str, Hex:
		return l.Tok.Val, true
	}
	return nil, false
}

// Rat returns the exact value of a numeric literal.
func (l Literal) Rat() (*big.Rat, bool) {
	if l.Tok.Kind != Num {
		return nil, false
	}
	r, ok := new(big.Rat).SetString(l.Tok.Text)
	if !ok {
		return nil, false
	}
	if l.Neg {
		r.Neg(r)
	}
	return r, true
}

// Float returns the numeric literal rounded to a float of the given size (32/64).
func (l Literal) Float(bits int) (float64, bool) {
	if l.Tok.Kind != Num {
		return 0, false
	}
	f, err := strconv.ParseFloat(l.Tok.Text, bits)
	if err != nil && (math.IsInf(f, 0) || f == 0 && !isZeroText(l.Tok.Text)) {
		return 0, false
	}
	if l.Neg {
		f = -f
	}
	return f, true
}

func isZeroText(s string) bool {
	for i := 0; i < len(s); i++ {
		if s[i] == 'e' || s[i] == 'E' {
			break
		}
		if s[i] >= '1' && s[i] <= '9' {
			return false
		}
	}
	return true
}

// Temporal is a date, datetime or time value as fields.
type Temporal struct {
	HasDate              bool
	Year, Month, Day     int
	HasTime              bool
	Neg                  bool
	Hour, Minute, Second int // Hour may exceed 23 for TIME values (days folded in)
	Micro                int
}

func atoiAll(s string) (int, bool) {
	if s == "" || len(s) > 9 {
		return 0, false
	}
	v := 0
	for i := 0; i < len(s); i++ {
		if !isDigit(s[i]) {
			return 0, false
		}
		v = v*10 + int(s[i]-'0')
	}
	return v, true
}

func parseFrac(s string) (int, bool) {
	if s == "" || len(s) > 6 {
		return 0, false
	}
	v, ok := atoiAll(s)
	if !ok {
		return 0, false
	}
	for k := len(s); k < 6; k++ {
		v *= 10
	}
	return v, true
}

func parseClock(s string) (h, mi, sec, us int, ok bool) {
	frac := ""
	if k := strings.IndexByte(s, '.'); k >= 0 {
		frac = s[k+1:]
		s = s[:k]
		if us, ok = parseFrac(frac); !ok {
			return
		}
	}
	parts := strings.Split(s, ":")
	if len(parts) != 3 {
		return 0, 0, 0, 0, false
	}
	var o1, o2, o3 bool
	h, o1 = atoiAll(parts[0])
	mi, o2 = atoiAll(parts[1])
	sec, o3 = atoiAll(parts[2])
	if !o1 || !o2 || !o3 || len(parts[1]) != 2 || len(parts[2]) != 2 || len(parts[0]) < 2 || mi > 59 || sec > 59 {
		return 0, 0, 0, 0, false
	}
	return h, mi, sec, us, true
}

// ParseTemporal parses the standard string forms of 9.1.3 Date and Time
// Literals: 'YYYY-MM-DD', 'YYYY-MM-DD hh:mm:ss[.ffffff]' (space or T),
// '[-][D ]hh:mm:ss[.ffffff]'.
func ParseTemporal(b []byte) (t Temporal, ok bool) {
	s := string(b)
	if len(s) >= 10 && s[4] == '-' && s[7] == '-' {
		y, o1 := atoiAll(s[0:4])
		mo, o2 := atoiAll(s[5:7])
		d, o3 := atoiAll(s[8:10])
		if !o1 || !o2 || !o3 || mo > 12 || d > 31 {
			return t, false
		}
		t.HasDate, t.Year, t.Month, t.Day = true, y, mo, d
		if len(s) == 10 {
			return t, true
		}
		if s[10] != ' ' && s[10] != 'T' {
			return t, false
		}
		h, mi, sec, us, okc := parseClock(s[11:])
		if !okc || h > 23 || len(s[11:]) < 8 || s[13] != ':' {
			return t, false
		}
		t.HasTime, t.Hour, t.Minute, t.Second, t.Micro = true, h, mi, sec, us
		return t, true
	}
	if strings.HasPrefix(s, "-") {
		t.Neg = true
		s = s[1:]
	}
	days := 0
	if k := strings.IndexByte(s, ' '); k > 0 {
		var okd bool
		if days, okd = atoiAll(s[:k]); !okd {
			return t, false
		}
		s = s[k+1:]
	}
	h, mi, sec, us, okc := parseClock(s)
	if !okc {
		return t, false
	}
	t.HasTime, t.Hour, t.Minute, t.Second, t.Micro = true, days*24+h, mi, sec, us
	return t, true
}
