package sqlmodel

import (
	"fmt"
	"sort"
	"strings"

	"github.com/XiaoMi/Gaea/parser"
	"github.com/XiaoMi/Gaea/parser/ast"
	driver "github.com/XiaoMi/Gaea/parser/tidb-types/parser_driver"
)

// ColMeta describes one result column.
type ColMeta struct {
	Name     string
	OrgName  string
	Table    string
	OrgTable string
	Schema   string
	T        ColType
}

// ResultSet is the answer to a SELECT / UNION.
type ResultSet struct {
	Cols []ColMeta
	Rows [][]Value

	// What an order-aware oracle needs: the rows before LIMIT in ORDER BY
	// order, the ORDER BY key tuple of each of them, and the LIMIT window.
	PreLimit [][]Value
	Keys     [][]Value // nil when the statement has no ORDER BY
	Desc     []bool
	Offset   int64
	Count    int64 // -1: no LIMIT

	// Matched is the number of (joined) rows that passed WHERE, before any
	// grouping (for a UNION: the sum over its selects).
	Matched int
}

// Parse parses one statement with Gaea's parser.
func Parse(sql string) (ast.StmtNode, error) {
	return parser.New().ParseOneStmt(sql, "", "")
}

// Query evaluates a SELECT or UNION statement text.
func Query(sql string, cat Catalog) (*ResultSet, error) {
	st, err := Parse(sql)
	if err != nil {
		return nil, fmt.Errorf("parse %q: %w", sql, err)
	}
	return QueryStmt(st, cat)
}

// QueryStmt evaluates a parsed SELECT or UNION.
func QueryStmt(st ast.StmtNode, cat Catalog) (*ResultSet, error) {
	switch s := st.(type) {
	case *ast.SelectStmt:
		return evalSelect(s, cat)
	case *ast.UnionStmt:
		return evalUnion(s, cat)
	}
	return nil, unsupported("statement %T", st)
}

type joined struct {
	sc   *scope
	rows [][]Value
}

func tableSourceOf(ts *ast.TableSource, cat Catalog) (*source, error) {
	tn, ok := ts.Source.(*ast.TableName)
	if !ok {
		return nil, unsupported("table source %T", ts.Source)
	}
	t, err := cat.Lookup(tn.Schema.O, tn.Name.O)
	if err != nil {
		return nil, err
	}
	s := &source{name: tn.Name.L, schema: tn.Schema.L, table: t}
	if ts.AsName.L != "" {
		s.name, s.alias = ts.AsName.L, true
	}
	return s, nil
}

func nullRow(cols []Column) []Value {
	r := make([]Value, len(cols))
	for i, c := range cols {
		r[i] = Null(c.K)
	}
	return r
}

func evalFrom(n ast.ResultSetNode, cat Catalog) (*joined, error) {
	switch x := n.(type) {
	case *ast.TableSource:
		s, err := tableSourceOf(x, cat)
		if err != nil {
			return nil, err
		}
		sc := &scope{srcs: []source{*s}, width: len(s.table.Cols)}
		return &joined{sc: sc, rows: s.table.Rows}, nil
	case *ast.Join:
		if x.Right == nil {
			return evalFrom(x.Left, cat)
		}
		if len(x.Using) > 0 || x.NaturalJoin {
			return nil, unsupported("JOIN USING / NATURAL")
		}
		l, err := evalFrom(x.Left, cat)
		if err != nil {
			return nil, err
		}
		r, err := evalFrom(x.Right, cat)
		if err != nil {
			return nil, err
		}
		sc := &scope{width: l.sc.width + r.sc.width}
		for _, s := range l.sc.srcs {
			for _, o := range r.sc.srcs {
				if o.name == s.name {
					return nil, &SQLError{1066, "Not unique table/alias: '" + s.name + "'"}
				}
			}
			sc.srcs = append(sc.srcs, s)
		}
		for _, s := range r.sc.srcs {
			s.off += l.sc.width
			sc.srcs = append(sc.srcs, s)
		}
		e := &env{sc: sc}
		match := func(row []Value) (bool, error) {
			if x.On == nil {
				return true, nil
			}
			e.row = row
			v, err := e.eval(x.On.Expr)
			if err != nil {
				return false, err
			}
			return truth(v) == 1, nil
		}
		var out [][]Value
		concat := func(a, b []Value) []Value {
			row := make([]Value, 0, len(a)+len(b))
			row = append(row, a...)
			return append(row, b...)
		}
		switch x.Tp {
		case ast.RightJoin:
			ln := nullRow(l.sc.colKinds())
			for _, rr := range r.rows {
				hit := false
				for _, lr := range l.rows {
					row := concat(lr, rr)
					ok, err := match(row)
					if err != nil {
						return nil, err
					}
					if ok {
						hit = true
						out = append(out, row)
					}
				}
				if !hit {
					out = append(out, concat(ln, rr))
				}
			}
		default:
			rn := nullRow(r.sc.colKinds())
			for _, lr := range l.rows {
				hit := false
				for _, rr := range r.rows {
					row := concat(lr, rr)
					ok, err := match(row)
					if err != nil {
						return nil, err
					}
					if ok {
						hit = true
						out = append(out, row)
					}
				}
				if !hit && x.Tp == ast.LeftJoin {
					out = append(out, concat(lr, rn))
				}
			}
		}
		return &joined{sc: sc, rows: out}, nil
	}
	return nil, unsupported("FROM node %T", n)
}

// selItem is one expanded select-list item.
type selItem struct {
	expr ast.ExprNode // nil for a direct column (wildcard expansion)
	col  int          // joined-row index for direct columns
	meta ColMeta
}

func expandFields(stmt *ast.SelectStmt, sc *scope) ([]selItem, error) {
	var items []selItem
	for _, f := range stmt.Fields.Fields {
		if f.WildCard != nil {
			if sc == nil {
				return nil, &SQLError{1096, "No tables used"}
			}
			matched := false
			for _, s := range sc.srcs {
				if f.WildCard.Table.L != "" && f.WildCard.Table.L != s.name {
					continue
				}
				matched = true
				for ci, c := range s.table.Cols {
					items = append(items, selItem{col: s.off + ci, meta: ColMeta{
						Name: c.Name, OrgName: c.Name, Table: s.name, OrgTable: s.table.Name, Schema: s.table.DB,
						T: ColType{K: c.K, Scale: c.Scale, Int32: c.Int32}}})
				}
			}
			if !matched {
				return nil, &SQLError{1051, "Unknown table '" + f.WildCard.Table.O + "'"}
			}
			continue
		}
		t, err := exprType(f.Expr, sc)
		if err != nil {
			return nil, err
		}
		m := ColMeta{T: t}
		if cn, ok := f.Expr.(*ast.ColumnNameExpr); ok {
			_, s, _ := sc.resolve(cn.Name)
			m.Name, m.OrgName = cn.Name.Name.O, cn.Name.Name.O
			if s != nil {
				m.Table, m.OrgTable, m.Schema = s.name, s.table.Name, s.table.DB
			}
		} else {
			m.Name = restore(f.Expr)
		}
		if f.AsName.O != "" {
			m.Name = f.AsName.O
		}
		items = append(items, selItem{expr: f.Expr, col: -1, meta: m})
	}
	return items, nil
}

type outRow struct {
	vals  []Value
	rep   []Value   // representative source row
	group [][]Value // group rows (aggregate queries)
	keys  []Value   // ORDER BY keys
}

func limitOf(l *ast.Limit) (offset, count int64, err error) {
	if l == nil {
		return 0, -1, nil
	}
	cv, ok := l.Count.(*driver.ValueExpr)
	if !ok {
		return 0, 0, unsupported("LIMIT count %T", l.Count)
	}
	count = cv.GetInt64()
	if l.Offset != nil {
		ov, ok := l.Offset.(*driver.ValueExpr)
		if !ok {
			return 0, 0, unsupported("LIMIT offset %T", l.Offset)
		}
		offset = ov.GetInt64()
	}
	return offset, count, nil
}

func applyLimit(rows [][]Value, offset, count int64) [][]Value {
	if count < 0 {
		return rows
	}
	n := int64(len(rows))
	if offset >= n {
		return nil
	}
	end := offset + count
	if end > n {
		end = n
	}
	return rows[offset:end]
}

func evalSelect(stmt *ast.SelectStmt, cat Catalog) (*ResultSet, error) {
	var sc *scope
	rows := [][]Value{{}}
	if stmt.From != nil && stmt.From.TableRefs != nil {
		j, err := evalFrom(stmt.From.TableRefs, cat)
		if err != nil {
			return nil, err
		}
		sc, rows = j.sc, j.rows
	} else {
		sc = &scope{}
	}
	if stmt.Fields == nil {
		return nil, unsupported("SELECT without field list")
	}
	// WHERE
	if stmt.Where != nil {
		if hasAggregate(stmt.Where) {
			return nil, &SQLError{1111, "Invalid use of group function"}
		}
		e := &env{sc: sc}
		var kept [][]Value
		for _, r := range rows {
			e.row = r
			v, err := e.eval(stmt.Where)
			if err != nil {
				return nil, err
			}
			if truth(v) == 1 {
				kept = append(kept, r)
			}
		}
		rows = kept
	}
	items, err := expandFields(stmt, sc)
	if err != nil {
		return nil, err
	}
	aliases := map[string]int{}
	for i := len(items) - 1; i >= 0; i-- {
		aliases[strings.ToLower(items[i].meta.Name)] = i
	}
	agg := stmt.GroupBy != nil
	for _, it := range items {
		if it.expr != nil && hasAggregate(it.expr) {
			agg = true
		}
	}
	if stmt.Having != nil && hasAggregate(stmt.Having.Expr) {
		agg = true
	}
	if stmt.OrderBy != nil {
		for _, bi := range stmt.OrderBy.Items {
			if hasAggregate(bi.Expr) {
				agg = true
			}
		}
	}

	evalItems := func(e *env) ([]Value, error) {
		vals := make([]Value, len(items))
		for i, it := range items {
			if it.expr == nil {
				if e.row == nil {
					vals[i] = Null(it.meta.T.K)
				} else {
					vals[i] = e.row[it.col]
				}
				continue
			}
			v, err := e.eval(it.expr)
			if err != nil {
				return nil, err
			}
			vals[i] = v
		}
		return vals, nil
	}

	var outs []*outRow
	if !agg {
		e := &env{sc: sc}
		for _, r := range rows {
			e.row = r
			vals, err := evalItems(e)
			if err != nil {
				return nil, err
			}
			outs = append(outs, &outRow{vals: vals, rep: r})
		}
	} else {
		type grp struct{ rows [][]Value }
		var groups []*grp
		if stmt.GroupBy == nil {
			groups = []*grp{{rows: rows}}
		} else {
			if stmt.GroupBy.WithRollup {
				return nil, unsupported("WITH ROLLUP")
			}
			idx := map[string]*grp{}
			e := &env{sc: sc}
			for _, r := range rows {
				e.row = r
				key := make([]Value, len(stmt.GroupBy.Items))
				for i, bi := range stmt.GroupBy.Items {
					v, err := evalByItem(bi.Expr, e, items, aliases, false)
					if err != nil {
						return nil, err
					}
					key[i] = v
				}
				k := RowKey(key)
				g, ok := idx[k]
				if !ok {
					g = &grp{}
					idx[k] = g
					groups = append(groups, g)
				}
				g.rows = append(g.rows, r)
			}
		}
		for _, g := range groups {
			e := &env{sc: sc, group: g.rows, inAgg: true}
			if len(g.rows) > 0 {
				e.row = g.rows[0]
			}
			vals, err := evalItems(e)
			if err != nil {
				return nil, err
			}
			outs = append(outs, &outRow{vals: vals, rep: e.row, group: g.rows})
		}
	}

	rowEnv := func(o *outRow) *env {
		e := &env{sc: sc, row: o.rep, aliases: aliases, aliasVal: o.vals}
		if agg {
			e.group, e.inAgg = o.group, true
		}
		return e
	}

	// HAVING
	if stmt.Having != nil {
		var kept []*outRow
		for _, o := range outs {
			v, err := rowEnv(o).eval(stmt.Having.Expr)
			if err != nil {
				return nil, err
			}
			if truth(v) == 1 {
				kept = append(kept, o)
			}
		}
		outs = kept
	}

	// DISTINCT
	if stmt.Distinct {
		seen := map[string]bool{}
		var kept []*outRow
		for _, o := range outs {
			k := RowKey(o.vals)
			if !seen[k] {
				seen[k] = true
				kept = append(kept, o)
			}
		}
		outs = kept
	}

	rs := &ResultSet{Count: -1, Matched: len(rows)}
	for _, it := range items {
		rs.Cols = append(rs.Cols, it.meta)
	}

	// ORDER BY
	if stmt.OrderBy != nil {
		for _, bi := range stmt.OrderBy.Items {
			rs.Desc = append(rs.Desc, bi.Desc)
		}
		for _, o := range outs {
			e := rowEnv(o)
			o.keys = make([]Value, len(stmt.OrderBy.Items))
			for i, bi := range stmt.OrderBy.Items {
				v, err := evalByItem(bi.Expr, e, items, aliases, true)
				if err != nil {
					return nil, err
				}
				o.keys[i] = v
			}
		}
		sort.SliceStable(outs, func(a, b int) bool {
			return cmpKeys(outs[a].keys, outs[b].keys, rs.Desc) < 0
		})
	}

	for _, o := range outs {
		rs.PreLimit = append(rs.PreLimit, o.vals)
		if stmt.OrderBy != nil {
			rs.Keys = append(rs.Keys, o.keys)
		}
	}
	if stmt.OrderBy != nil && rs.Keys == nil {
		rs.Keys = [][]Value{}
	}
	rs.Offset, rs.Count, err = limitOf(stmt.Limit)
	if err != nil {
		return nil, err
	}
	rs.Rows = applyLimit(rs.PreLimit, rs.Offset, rs.Count)
	return rs, nil
}

func cmpKeys(a, b []Value, desc []bool) int {
	for i := range a {
		c := SortCompare(a[i], b[i])
		if desc[i] {
			c = -c
		}
		if c != 0 {
			return c
		}
	}
	return 0
}

// evalByItem evaluates a GROUP BY / ORDER BY item. ORDER BY resolves a bare
// name against the select list first (alias), GROUP BY against the FROM
// columns first; both accept positions.
func evalByItem(x ast.ExprNode, e *env, items []selItem, aliases map[string]int, aliasFirst bool) (Value, error) {
	itemVal := func(i int) (Value, error) {
		if e.aliasVal != nil {
			return e.aliasVal[i], nil
		}
		it := items[i]
		if it.expr == nil {
			return e.row[it.col], nil
		}
		return e.eval(it.expr)
	}
	switch n := x.(type) {
	case *ast.PositionExpr:
		if n.N < 1 || n.N > len(items) {
			return Value{}, &SQLError{1054, fmt.Sprintf("Unknown column '%d' in 'order clause'", n.N)}
		}
		return itemVal(n.N - 1)
	case *ast.ColumnNameExpr:
		if n.Name.Table.L == "" {
			ai, isAlias := aliases[n.Name.Name.L]
			if isAlias && aliasFirst {
				return itemVal(ai)
			}
			if _, _, err := e.sc.resolve(n.Name); err != nil && isAlias {
				return itemVal(ai)
			}
		}
	}
	return e.eval(x)
}

func unifyType(a, b ColType) ColType {
	if a.K == KNull {
		return b
	}
	if b.K == KNull {
		return a
	}
	if a.K == b.K {
		if b.Scale > a.Scale {
			a.Scale = b.Scale
		}
		a.Int32 = a.Int32 && b.Int32
		a.NotNull = a.NotNull && b.NotNull
		return a
	}
	num := func(k Kind) bool { return k == KInt || k == KDec || k == KDouble }
	if num(a.K) && num(b.K) {
		if a.K == KDouble || b.K == KDouble {
			return ColType{K: KDouble}
		}
		s := a.Scale
		if b.Scale > s {
			s = b.Scale
		}
		return ColType{K: KDec, Scale: s}
	}
	return ColType{K: KString}
}

func evalUnion(stmt *ast.UnionStmt, cat Catalog) (*ResultSet, error) {
	if stmt.SelectList == nil || len(stmt.SelectList.Selects) == 0 {
		return nil, unsupported("empty UNION")
	}
	var acc [][]Value
	var cols []ColMeta
	matched := 0
	for i, sel := range stmt.SelectList.Selects {
		r, err := evalSelect(sel, cat)
		if err != nil {
			return nil, err
		}
		if i == 0 {
			cols = append([]ColMeta(nil), r.Cols...)
		} else {
			if len(r.Cols) != len(cols) {
				return nil, &SQLError{1222, "The used SELECT statements have a different number of columns"}
			}
			for c := range cols {
				cols[c].T = unifyType(cols[c].T, r.Cols[c].T)
			}
		}
		acc = append(acc, r.Rows...)
		matched += r.Matched
		if i > 0 && sel.IsAfterUnionDistinct {
			seen := map[string]bool{}
			var kept [][]Value
			for _, row := range acc {
				k := RowKey(row)
				if !seen[k] {
					seen[k] = true
					kept = append(kept, row)
				}
			}
			acc = kept
		}
	}
	rs := &ResultSet{Cols: cols, Count: -1, Matched: matched}
	type kr struct {
		row  []Value
		keys []Value
	}
	krs := make([]kr, len(acc))
	for i, row := range acc {
		krs[i].row = row
	}
	if stmt.OrderBy != nil {
		var idx []int
		for _, bi := range stmt.OrderBy.Items {
			rs.Desc = append(rs.Desc, bi.Desc)
			switch n := bi.Expr.(type) {
			case *ast.PositionExpr:
				if n.N < 1 || n.N > len(cols) {
					return nil, &SQLError{1054, "Unknown column in 'order clause'"}
				}
				idx = append(idx, n.N-1)
			case *ast.ColumnNameExpr:
				found := -1
				for c := range cols {
					if strings.EqualFold(cols[c].Name, n.Name.Name.O) {
						found = c
						break
					}
				}
				if found < 0 || n.Name.Table.L != "" {
					return nil, &SQLError{1054, "Unknown column '" + n.Name.Name.O + "' in 'order clause'"}
				}
				idx = append(idx, found)
			default:
				return nil, unsupported("UNION ORDER BY %T", bi.Expr)
			}
		}
		for i := range krs {
			for _, c := range idx {
				krs[i].keys = append(krs[i].keys, krs[i].row[c])
			}
		}
		sort.SliceStable(krs, func(a, b int) bool { return cmpKeys(krs[a].keys, krs[b].keys, rs.Desc) < 0 })
		rs.Keys = [][]Value{}
	}
	for _, k := range krs {
		rs.PreLimit = append(rs.PreLimit, k.row)
		if stmt.OrderBy != nil {
			rs.Keys = append(rs.Keys, k.keys)
		}
	}
	var err error
	rs.Offset, rs.Count, err = limitOf(stmt.Limit)
	if err != nil {
		return nil, err
	}
	rs.Rows = applyLimit(rs.PreLimit, rs.Offset, rs.Count)
	return rs, nil
}
