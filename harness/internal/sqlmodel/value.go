// Package sqlmodel is a small SQL reference evaluator (DESIGN.md 2.4).
//
// It parses with Gaea's parser and evaluates the AST on in-memory tables with
// MySQL semantics for the subset the verification harness generates: one table
// or a two-table join, WHERE with three-valued logic, COUNT/SUM/MAX/MIN with
// DISTINCT, GROUP BY, HAVING, ORDER BY, LIMIT, SELECT DISTINCT, UNION [ALL],
// UPDATE, DELETE and INSERT.  Nothing in this package calls Gaea's planner,
// router or merge code; only the parser (AST) and, in wire.go, the packet
// decoders a backend connection uses are shared with the implementation.
package sqlmodel

import (
	"bytes"
	"fmt"
	"math"
	"math/big"
	"strconv"
	"strings"
)

// Kind is the value class of a Value / the storage class of a column.
type Kind int

const (
	KNull   Kind = iota // only for untyped NULL literals
	KInt                // BIGINT / INT
	KDec                // DECIMAL(p,s)
	KDouble             // DOUBLE
	KString             // VARCHAR, binary collation
	KTime               // DATETIME, canonical "YYYY-MM-DD HH:MM:SS"
)

func (k Kind) String() string {
	switch k {
	case KInt:
		return "int"
	case KDec:
		return "decimal"
	case KDouble:
		return "double"
	case KString:
		return "string"
	case KTime:
		return "datetime"
	}
	return "null"
}

// Value is one SQL value. Null values keep the kind of their column.
type Value struct {
	Null  bool
	K     Kind
	I     int64    // KInt
	U     *big.Int // KDec: unscaled value
	Scale int      // KDec: digits after the point
	F     float64  // KDouble
	S     string   // KString, KTime
}

// Null returns a NULL of kind k.
func Null(k Kind) Value { return Value{Null: true, K: k} }

// Int returns an integer value.
func Int(i int64) Value { return Value{K: KInt, I: i} }

// Double returns a double value.
func Double(f float64) Value { return Value{K: KDouble, F: f} }

// Str returns a string value.
func Str(s string) Value { return Value{K: KString, S: s} }

// Time returns a datetime value from its canonical text.
func Time(s string) Value { return Value{K: KTime, S: s} }

// Dec returns a decimal value unscaled * 10^-scale.
func Dec(unscaled int64, scale int) Value {
	return Value{K: KDec, U: big.NewInt(unscaled), Scale: scale}
}

// ParseDec parses a decimal literal such as "-12.50".
func ParseDec(s string) (Value, error) {
	t := s
	neg := false
	if strings.HasPrefix(t, "-") {
		neg = true
		t = t[1:]
	} else if strings.HasPrefix(t, "+") {
		t = t[1:]
	}
	scale := 0
	if i := strings.IndexByte(t, '.'); i >= 0 {
		scale = len(t) - i - 1
		t = t[:i] + t[i+1:]
	}
	if t == "" {
		return Value{}, fmt.Errorf("bad decimal %q", s)
	}
	u, ok := new(big.Int).SetString(t, 10)
	if !ok {
		return Value{}, fmt.Errorf("bad decimal %q", s)
	}
	if neg {
		u.Neg(u)
	}
	return Value{K: KDec, U: u, Scale: scale}, nil
}

var ten = big.NewInt(10)

func pow10(n int) *big.Int {
	return new(big.Int).Exp(ten, big.NewInt(int64(n)), nil)
}

// rat returns the exact rational value of an int or decimal.
func (v Value) rat() *big.Rat {
	switch v.K {
	case KInt:
		return new(big.Rat).SetInt64(v.I)
	case KDec:
		return new(big.Rat).SetFrac(v.U, pow10(v.Scale))
	}
	return nil
}

func (v Value) float() float64 {
	switch v.K {
	case KInt:
		return float64(v.I)
	case KDec:
		f, _ := v.rat().Float64()
		return f
	case KDouble:
		return v.F
	case KString, KTime:
		return strPrefixFloat(v.S)
	}
	return 0
}

// strPrefixFloat is MySQL's string-to-number cast: the longest numeric prefix.
func strPrefixFloat(s string) float64 {
	s = strings.TrimLeft(s, " \t\n")
	end := 0
	seenDigit, seenDot, seenExp := false, false, false
	for i := 0; i < len(s); i++ {
		c := s[i]
		switch {
		case c >= '0' && c <= '9':
			seenDigit = true
			end = i + 1
		case (c == '-' || c == '+') && (i == 0 || (seenExp && (s[i-1] == 'e' || s[i-1] == 'E'))):
		case c == '.' && !seenDot && !seenExp:
			seenDot = true
		case (c == 'e' || c == 'E') && seenDigit && !seenExp:
			seenExp = true
		default:
			i = len(s)
		}
	}
	if !seenDigit {
		return 0
	}
	f, err := strconv.ParseFloat(s[:end], 64)
	if err != nil {
		return 0
	}
	return f
}

func (v Value) isNumeric() bool { return v.K == KInt || v.K == KDec || v.K == KDouble }

// normTime brings a date / datetime literal into canonical datetime text.
// ok is false when s is not of one of the accepted spellings.
func normTime(s string) (string, bool) {
	isDigits := func(t string) bool {
		if t == "" {
			return false
		}
		for i := 0; i < len(t); i++ {
			if t[i] < '0' || t[i] > '9' {
				return false
			}
		}
		return true
	}
	if len(s) == 10 && s[4] == '-' && s[7] == '-' && isDigits(s[:4]) && isDigits(s[5:7]) && isDigits(s[8:10]) {
		return s + " 00:00:00", true
	}
	if len(s) == 19 && s[4] == '-' && s[7] == '-' && (s[10] == ' ' || s[10] == 'T') && s[13] == ':' && s[16] == ':' &&
		isDigits(s[:4]) && isDigits(s[5:7]) && isDigits(s[8:10]) && isDigits(s[11:13]) && isDigits(s[14:16]) && isDigits(s[17:19]) {
		return s[:10] + " " + s[11:], true
	}
	return s, false
}

// Compare compares two non-NULL values the way MySQL's comparison operators
// do for the type pairs the harness generates: numbers exactly (doubles as
// doubles), strings as bytes, a datetime with a string as datetimes, a string
// with a number as doubles.
func Compare(a, b Value) int {
	switch {
	case a.isNumeric() && b.isNumeric():
		if a.K == KDouble || b.K == KDouble {
			return cmpFloat(a.float(), b.float())
		}
		return a.rat().Cmp(b.rat())
	case (a.K == KTime || a.K == KString) && (b.K == KTime || b.K == KString):
		as, bs := a.S, b.S
		if a.K == KTime || b.K == KTime {
			if n, ok := normTime(as); ok {
				as = n
			}
			if n, ok := normTime(bs); ok {
				bs = n
			}
		}
		return bytes.Compare([]byte(as), []byte(bs))
	default:
		// a number against a string constant: MySQL converts the constant to the
		// column's type, so an exactly numeric string is compared exactly
		if (a.K == KInt || a.K == KDec) && b.K == KString {
			if d, err := ParseDec(b.S); err == nil && b.S != "" {
				return a.rat().Cmp(d.rat())
			}
		}
		if (b.K == KInt || b.K == KDec) && a.K == KString {
			if d, err := ParseDec(a.S); err == nil && a.S != "" {
				return d.rat().Cmp(b.rat())
			}
		}
		return cmpFloat(a.float(), b.float())
	}
}

func cmpFloat(x, y float64) int {
	switch {
	case x < y:
		return -1
	case x > y:
		return 1
	}
	return 0
}

// SameValue is the equality used for grouping, DISTINCT and UNION: NULL equals
// NULL, everything else by Compare.
func SameValue(a, b Value) bool {
	if a.Null || b.Null {
		return a.Null && b.Null
	}
	return Compare(a, b) == 0
}

// SortCompare orders values for ORDER BY ASC: NULL first.
func SortCompare(a, b Value) int {
	switch {
	case a.Null && b.Null:
		return 0
	case a.Null:
		return -1
	case b.Null:
		return 1
	}
	return Compare(a, b)
}

// Text is the text-protocol rendering of a non-NULL value.
func (v Value) Text() string {
	switch v.K {
	case KInt:
		return strconv.FormatInt(v.I, 10)
	case KDec:
		return decText(v.U, v.Scale)
	case KDouble:
		return floatText(v.F)
	}
	return v.S
}

func decText(u *big.Int, scale int) string {
	s := new(big.Int).Abs(u).String()
	if scale > 0 {
		for len(s) <= scale {
			s = "0" + s
		}
		s = s[:len(s)-scale] + "." + s[len(s)-scale:]
	}
	if u.Sign() < 0 {
		s = "-" + s
	}
	return s
}

func floatText(f float64) string {
	if f == 0 {
		return "0"
	}
	a := math.Abs(f)
	if a >= 1e15 || a < 1e-15 {
		return strconv.FormatFloat(f, 'e', -1, 64)
	}
	return strconv.FormatFloat(f, 'f', -1, 64)
}

// String renders a value for messages.
func (v Value) String() string {
	if v.Null {
		return "NULL"
	}
	if v.K == KString || v.K == KTime {
		return strconv.Quote(v.S)
	}
	return v.Text()
}

// key is a canonical encoding under which SameValue-equal values of one column
// are identical (used for hashing groups; collisions are impossible because
// every component is length-prefixed).
func (v Value) key() string {
	if v.Null {
		return "N"
	}
	switch v.K {
	case KInt, KDec:
		r := v.rat()
		s := r.RatString()
		return "Q" + strconv.Itoa(len(s)) + ":" + s
	case KDouble:
		if f := v.F; f == math.Trunc(f) && math.Abs(f) < 1e15 {
			s := new(big.Rat).SetInt64(int64(f)).RatString()
			return "Q" + strconv.Itoa(len(s)) + ":" + s
		}
		s := strconv.FormatFloat(v.F, 'g', -1, 64)
		return "F" + strconv.Itoa(len(s)) + ":" + s
	case KTime:
		s := v.S
		if n, ok := normTime(s); ok {
			s = n
		}
		return "S" + strconv.Itoa(len(s)) + ":" + s
	}
	return "S" + strconv.Itoa(len(v.S)) + ":" + v.S
}

// RowKey is the canonical key of a tuple of values.
func RowKey(vs []Value) string {
	var sb strings.Builder
	for _, v := range vs {
		sb.WriteString(v.key())
		sb.WriteByte('|')
	}
	return sb.String()
}

// add returns a+b for non-NULL numeric values with MySQL's result typing:
// double if either is a double, else exact (int+int stays int).
func add(a, b Value, sign int) Value {
	if a.K == KDouble || b.K == KDouble || !a.isNumeric() || !b.isNumeric() {
		return Double(a.float() + float64(sign)*b.float())
	}
	if a.K == KInt && b.K == KInt {
		return Int(a.I + int64(sign)*b.I)
	}
	sc := a.Scale
	if a.K == KInt {
		sc = 0
	}
	bs := b.Scale
	if b.K == KInt {
		bs = 0
	}
	if bs > sc {
		sc = bs
	}
	au := unscaledAt(a, sc)
	bu := unscaledAt(b, sc)
	if sign < 0 {
		bu.Neg(bu)
	}
	return Value{K: KDec, U: au.Add(au, bu), Scale: sc}
}

func unscaledAt(v Value, scale int) *big.Int {
	if v.K == KInt {
		return new(big.Int).Mul(big.NewInt(v.I), pow10(scale))
	}
	return new(big.Int).Mul(v.U, pow10(scale-v.Scale))
}

func mul(a, b Value) Value {
	if a.K == KDouble || b.K == KDouble || !a.isNumeric() || !b.isNumeric() {
		return Double(a.float() * b.float())
	}
	if a.K == KInt && b.K == KInt {
		return Int(a.I * b.I)
	}
	as, bs := 0, 0
	au, bu := big.NewInt(a.I), big.NewInt(b.I)
	if a.K == KDec {
		as, au = a.Scale, a.U
	}
	if b.K == KDec {
		bs, bu = b.Scale, b.U
	}
	return Value{K: KDec, U: new(big.Int).Mul(au, bu), Scale: as + bs}
}

type bigInt = big.Int
