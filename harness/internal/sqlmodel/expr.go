package sqlmodel

import (
	"fmt"
	"strings"

	"github.com/XiaoMi/Gaea/parser/ast"
	"github.com/XiaoMi/Gaea/parser/format"
	"github.com/XiaoMi/Gaea/parser/opcode"
	types "github.com/XiaoMi/Gaea/parser/tidb-types"
	driver "github.com/XiaoMi/Gaea/parser/tidb-types/parser_driver"
)

// source is one table of the FROM clause.
type source struct {
	name   string // alias, or the table name when there is no alias (lower case)
	schema string // schema the table was named with (lower case, may be empty)
	alias  bool
	table  *Table
	off    int
}

// scope is the column namespace of a FROM clause.
type scope struct {
	srcs  []source
	width int
}

func (sc *scope) colKinds() []Column {
	out := make([]Column, 0, sc.width)
	for _, s := range sc.srcs {
		out = append(out, s.table.Cols...)
	}
	return out
}

// resolve finds the joined-row index of a column reference.
func (sc *scope) resolve(cn *ast.ColumnName) (int, *source, error) {
	name := cn.Name.L
	if cn.Table.L != "" {
		for i := range sc.srcs {
			s := &sc.srcs[i]
			if s.name != cn.Table.L {
				continue
			}
			if cn.Schema.L != "" && !s.alias && s.schema != "" && s.schema != cn.Schema.L {
				continue
			}
			ci := s.table.ColIndex(name)
			if ci < 0 {
				return -1, nil, &SQLError{1054, fmt.Sprintf("Unknown column '%s.%s'", cn.Table.O, cn.Name.O)}
			}
			return s.off + ci, s, nil
		}
		return -1, nil, &SQLError{1054, fmt.Sprintf("Unknown column '%s.%s' (no such table)", cn.Table.O, cn.Name.O)}
	}
	found := -1
	var fs *source
	for i := range sc.srcs {
		s := &sc.srcs[i]
		if ci := s.table.ColIndex(name); ci >= 0 {
			if found >= 0 {
				return -1, nil, &SQLError{1052, fmt.Sprintf("Column '%s' is ambiguous", cn.Name.O)}
			}
			found, fs = s.off+ci, s
		}
	}
	if found < 0 {
		return -1, nil, &SQLError{1054, fmt.Sprintf("Unknown column '%s'", cn.Name.O)}
	}
	return found, fs, nil
}

// env is the evaluation context of one expression.
type env struct {
	sc    *scope
	row   []Value   // current joined row (representative row in a group context)
	group [][]Value // rows of the current group; nil outside aggregate context
	inAgg bool      // group context is active (group may be empty)
	// select-list aliases visible to HAVING / ORDER BY / GROUP BY
	aliases  map[string]int
	aliasVal []Value
	// VALUES(col) in INSERT ... ON DUPLICATE KEY UPDATE
	insertRow []Value
	insertTab *Table
}

func boolVal(b bool) Value {
	if b {
		return Int(1)
	}
	return Int(0)
}

// truth maps a value to SQL's three truth values: 1 true, 0 false, -1 unknown.
func truth(v Value) int {
	if v.Null {
		return -1
	}
	switch v.K {
	case KInt:
		if v.I != 0 {
			return 1
		}
		return 0
	case KDec:
		if v.U.Sign() != 0 {
			return 1
		}
		return 0
	}
	if v.float() != 0 {
		return 1
	}
	return 0
}

func fromTruth(t int) Value {
	switch t {
	case 1:
		return Int(1)
	case 0:
		return Int(0)
	}
	return Null(KInt)
}

// Literal converts a parsed literal to a Value.
func Literal(v *driver.ValueExpr) (Value, error) {
	switch v.Kind() {
	case types.KindNull:
		return Null(KNull), nil
	case types.KindInt64:
		return Int(v.GetInt64()), nil
	case types.KindUint64:
		u := v.GetUint64()
		if u > 1<<63-1 {
			return Value{}, unsupported("unsigned literal above int64")
		}
		return Int(int64(u)), nil
	case types.KindFloat32, types.KindFloat64:
		return Double(v.GetFloat64()), nil
	case types.KindString, types.KindBytes:
		return Str(v.GetString()), nil
	case types.KindMysqlDecimal:
		return ParseDec(v.GetMysqlDecimal().String())
	}
	return Value{}, unsupported("literal kind %d", v.Kind())
}

func restore(n ast.Node) string {
	var sb strings.Builder
	if err := n.Restore(format.NewRestoreCtx(format.DefaultRestoreFlags, &sb)); err != nil {
		return fmt.Sprintf("<%T>", n)
	}
	return sb.String()
}

func (e *env) eval(x ast.ExprNode) (Value, error) {
	switch n := x.(type) {
	case *driver.ValueExpr:
		return Literal(n)
	case *ast.ParenthesesExpr:
		return e.eval(n.Expr)
	case *ast.ColumnNameExpr:
		return e.evalColumn(n)
	case *ast.UnaryOperationExpr:
		v, err := e.eval(n.V)
		if err != nil {
			return v, err
		}
		switch n.Op {
		case opcode.Not:
			t := truth(v)
			if t < 0 {
				return Null(KInt), nil
			}
			return boolVal(t == 0), nil
		case opcode.Minus:
			if v.Null {
				return v, nil
			}
			switch v.K {
			case KInt:
				return Int(-v.I), nil
			case KDec:
				return Value{K: KDec, U: new(bigInt).Neg(v.U), Scale: v.Scale}, nil
			default:
				return Double(-v.float()), nil
			}
		case opcode.Plus:
			return v, nil
		}
		return Value{}, unsupported("unary operator %v", n.Op)
	case *ast.BinaryOperationExpr:
		return e.evalBinary(n)
	case *ast.IsNullExpr:
		v, err := e.eval(n.Expr)
		if err != nil {
			return v, err
		}
		return boolVal(v.Null != n.Not), nil
	case *ast.IsTruthExpr:
		v, err := e.eval(n.Expr)
		if err != nil {
			return v, err
		}
		t := truth(v)
		is := t >= 0 && int64(t) == n.True
		return boolVal(is != n.Not), nil
	case *ast.BetweenExpr:
		v, err := e.eval(n.Expr)
		if err != nil {
			return v, err
		}
		lo, err := e.eval(n.Left)
		if err != nil {
			return lo, err
		}
		hi, err := e.eval(n.Right)
		if err != nil {
			return hi, err
		}
		// v BETWEEN lo AND hi  ==  v >= lo AND v <= hi
		t := and3(cmp3(v, lo, opcode.GE), cmp3(v, hi, opcode.LE))
		if n.Not {
			t = not3(t)
		}
		return fromTruth(t), nil
	case *ast.PatternInExpr:
		if n.Sel != nil {
			return Value{}, unsupported("IN (subquery)")
		}
		v, err := e.eval(n.Expr)
		if err != nil {
			return v, err
		}
		// v IN (a,b)  ==  v = a OR v = b
		t := 0
		for _, it := range n.List {
			iv, err := e.eval(it)
			if err != nil {
				return iv, err
			}
			t = or3(t, cmp3(v, iv, opcode.EQ))
		}
		if n.Not {
			t = not3(t)
		}
		return fromTruth(t), nil
	case *ast.AggregateFuncExpr:
		return e.evalAggregate(n)
	case *ast.ValuesExpr:
		if e.insertTab == nil {
			return Value{}, unsupported("VALUES() outside ON DUPLICATE KEY UPDATE")
		}
		ci := e.insertTab.ColIndex(n.Column.Name.Name.L)
		if ci < 0 {
			return Value{}, &SQLError{1054, "Unknown column in VALUES()"}
		}
		return e.insertRow[ci], nil
	}
	return Value{}, unsupported("expression %T (%s)", x, restore(x))
}

func (e *env) evalColumn(n *ast.ColumnNameExpr) (Value, error) {
	if e.sc != nil {
		idx, _, err := e.sc.resolve(n.Name)
		if err == nil {
			if e.row == nil {
				return Null(e.sc.colKinds()[idx].K), nil
			}
			return e.row[idx], nil
		}
		if n.Name.Table.L == "" && e.aliases != nil {
			if ai, ok := e.aliases[n.Name.Name.L]; ok {
				return e.aliasVal[ai], nil
			}
		}
		return Value{}, err
	}
	if n.Name.Table.L == "" && e.aliases != nil {
		if ai, ok := e.aliases[n.Name.Name.L]; ok {
			return e.aliasVal[ai], nil
		}
	}
	return Value{}, &SQLError{1054, fmt.Sprintf("Unknown column '%s'", n.Name.Name.O)}
}

func and3(a, b int) int {
	if a == 0 || b == 0 {
		return 0
	}
	if a < 0 || b < 0 {
		return -1
	}
	return 1
}

func or3(a, b int) int {
	if a == 1 || b == 1 {
		return 1
	}
	if a < 0 || b < 0 {
		return -1
	}
	return 0
}

func not3(a int) int {
	if a < 0 {
		return -1
	}
	return 1 - a
}

// cmp3 evaluates a comparison operator under three-valued logic.
func cmp3(a, b Value, op opcode.Op) int {
	if a.Null || b.Null {
		return -1
	}
	c := Compare(a, b)
	var r bool
	switch op {
	case opcode.EQ:
		r = c == 0
	case opcode.NE:
		r = c != 0
	case opcode.LT:
		r = c < 0
	case opcode.LE:
		r = c <= 0
	case opcode.GT:
		r = c > 0
	case opcode.GE:
		r = c >= 0
	}
	if r {
		return 1
	}
	return 0
}

func (e *env) evalBinary(n *ast.BinaryOperationExpr) (Value, error) {
	l, err := e.eval(n.L)
	if err != nil {
		return l, err
	}
	r, err := e.eval(n.R)
	if err != nil {
		return r, err
	}
	switch n.Op {
	case opcode.LogicAnd:
		return fromTruth(and3(truth(l), truth(r))), nil
	case opcode.LogicOr:
		return fromTruth(or3(truth(l), truth(r))), nil
	case opcode.LogicXor:
		a, b := truth(l), truth(r)
		if a < 0 || b < 0 {
			return Null(KInt), nil
		}
		return boolVal(a != b), nil
	case opcode.EQ, opcode.NE, opcode.LT, opcode.LE, opcode.GT, opcode.GE:
		return fromTruth(cmp3(l, r, n.Op)), nil
	case opcode.NullEQ:
		return boolVal(SameValue(l, r)), nil
	case opcode.Plus, opcode.Minus, opcode.Mul:
		if l.Null || r.Null {
			k := l.K
			if k == KNull || k == KString || k == KTime {
				k = KDouble
			}
			return Null(k), nil
		}
		switch n.Op {
		case opcode.Plus:
			return add(l, r, 1), nil
		case opcode.Minus:
			return add(l, r, -1), nil
		}
		return mul(l, r), nil
	}
	return Value{}, unsupported("binary operator %v", n.Op)
}

// evalAggregate computes an aggregate over the current group.
func (e *env) evalAggregate(n *ast.AggregateFuncExpr) (Value, error) {
	if !e.inAgg {
		return Value{}, &SQLError{1111, "Invalid use of group function"}
	}
	fn := strings.ToLower(n.F)
	if len(n.Args) != 1 {
		return Value{}, unsupported("%s with %d arguments", fn, len(n.Args))
	}
	argT, err := exprType(n.Args[0], e.sc)
	if err != nil {
		return Value{}, err
	}
	// collect the non-NULL argument values of the group
	var vals []Value
	sub := *e
	sub.inAgg = false
	sub.group = nil
	for _, r := range e.group {
		sub.row = r
		v, err := sub.eval(n.Args[0])
		if err != nil {
			return v, err
		}
		if v.Null {
			continue
		}
		vals = append(vals, v)
	}
	if n.Distinct {
		seen := map[string]bool{}
		out := vals[:0:0]
		for _, v := range vals {
			k := v.key()
			if !seen[k] {
				seen[k] = true
				out = append(out, v)
			}
		}
		vals = out
	}
	switch fn {
	case "count":
		return Int(int64(len(vals))), nil
	case "sum":
		rt := sumType(argT)
		if len(vals) == 0 {
			return Null(rt.K), nil
		}
		if rt.K == KDouble {
			s := 0.0
			for _, v := range vals {
				s += v.float()
			}
			return Double(s), nil
		}
		acc := Value{K: KDec, U: new(bigInt), Scale: rt.Scale}
		for _, v := range vals {
			acc = add(acc, v, 1)
		}
		return acc, nil
	case "max", "min":
		if len(vals) == 0 {
			return Null(argT.K), nil
		}
		best := vals[0]
		for _, v := range vals[1:] {
			c := Compare(v, best)
			if (fn == "max" && c > 0) || (fn == "min" && c < 0) {
				best = v
			}
		}
		return best, nil
	}
	return Value{}, unsupported("aggregate %s", fn)
}

// ColType is the static type of an expression (what the field packet says).
type ColType struct {
	K       Kind
	Scale   int
	Int32   bool
	NotNull bool
}

func sumType(arg ColType) ColType {
	switch arg.K {
	case KInt:
		return ColType{K: KDec}
	case KDec:
		return ColType{K: KDec, Scale: arg.Scale}
	}
	return ColType{K: KDouble}
}

// exprType derives the result type of an expression.
func exprType(x ast.ExprNode, sc *scope) (ColType, error) {
	switch n := x.(type) {
	case *driver.ValueExpr:
		v, err := Literal(n)
		if err != nil {
			return ColType{}, err
		}
		if v.Null {
			return ColType{K: KNull}, nil
		}
		return ColType{K: v.K, Scale: v.Scale, NotNull: true}, nil
	case *ast.ParenthesesExpr:
		return exprType(n.Expr, sc)
	case *ast.ColumnNameExpr:
		if sc == nil {
			return ColType{}, &SQLError{1054, "Unknown column " + n.Name.Name.O}
		}
		idx, _, err := sc.resolve(n.Name)
		if err != nil {
			return ColType{}, err
		}
		c := sc.colKinds()[idx]
		return ColType{K: c.K, Scale: c.Scale, Int32: c.Int32}, nil
	case *ast.UnaryOperationExpr:
		if n.Op == opcode.Not {
			return ColType{K: KInt}, nil
		}
		t, err := exprType(n.V, sc)
		if err != nil {
			return t, err
		}
		if t.K == KString || t.K == KTime || t.K == KNull {
			return ColType{K: KDouble}, nil
		}
		t.Int32 = false
		return t, nil
	case *ast.BinaryOperationExpr:
		switch n.Op {
		case opcode.Plus, opcode.Minus, opcode.Mul:
			l, err := exprType(n.L, sc)
			if err != nil {
				return l, err
			}
			r, err := exprType(n.R, sc)
			if err != nil {
				return r, err
			}
			num := func(t ColType) bool { return t.K == KInt || t.K == KDec }
			if !num(l) || !num(r) {
				return ColType{K: KDouble}, nil
			}
			if l.K == KInt && r.K == KInt {
				return ColType{K: KInt}, nil
			}
			ls, rs := l.Scale, r.Scale
			if l.K == KInt {
				ls = 0
			}
			if r.K == KInt {
				rs = 0
			}
			if n.Op == opcode.Mul {
				return ColType{K: KDec, Scale: ls + rs}, nil
			}
			if rs > ls {
				ls = rs
			}
			return ColType{K: KDec, Scale: ls}, nil
		}
		return ColType{K: KInt}, nil
	case *ast.IsNullExpr, *ast.IsTruthExpr:
		return ColType{K: KInt, NotNull: true}, nil
	case *ast.BetweenExpr, *ast.PatternInExpr:
		return ColType{K: KInt}, nil
	case *ast.AggregateFuncExpr:
		fn := strings.ToLower(n.F)
		if len(n.Args) != 1 {
			return ColType{}, unsupported("%s with %d arguments", fn, len(n.Args))
		}
		if fn == "count" {
			return ColType{K: KInt, NotNull: true}, nil
		}
		at, err := exprType(n.Args[0], sc)
		if err != nil {
			return at, err
		}
		switch fn {
		case "sum":
			return sumType(at), nil
		case "max", "min":
			at.NotNull = false
			return at, nil
		}
		return ColType{}, unsupported("aggregate %s", fn)
	}
	return ColType{}, unsupported("type of expression %T", x)
}

// hasAggregate reports whether x contains an aggregate function call.
func hasAggregate(x ast.ExprNode) bool {
	switch n := x.(type) {
	case nil:
		return false
	case *ast.AggregateFuncExpr:
		return true
	case *ast.ParenthesesExpr:
		return hasAggregate(n.Expr)
	case *ast.UnaryOperationExpr:
		return hasAggregate(n.V)
	case *ast.BinaryOperationExpr:
		return hasAggregate(n.L) || hasAggregate(n.R)
	case *ast.IsNullExpr:
		return hasAggregate(n.Expr)
	case *ast.IsTruthExpr:
		return hasAggregate(n.Expr)
	case *ast.BetweenExpr:
		return hasAggregate(n.Expr) || hasAggregate(n.Left) || hasAggregate(n.Right)
	case *ast.PatternInExpr:
		if hasAggregate(n.Expr) {
			return true
		}
		for _, it := range n.List {
			if hasAggregate(it) {
				return true
			}
		}
	}
	return false
}

// EvalCondition evaluates a boolean expression over a single row of one table
// (used by oracles that need "does this row match the WHERE clause").
// alias may be empty. Result: 1 true, 0 false, -1 unknown.
func EvalCondition(x ast.ExprNode, t *Table, schema, alias string, row []Value) (int, error) {
	name := strings.ToLower(t.Name)
	isAlias := false
	if alias != "" {
		name, isAlias = strings.ToLower(alias), true
	}
	sc := &scope{srcs: []source{{name: name, schema: strings.ToLower(schema), alias: isAlias, table: t}}, width: len(t.Cols)}
	e := &env{sc: sc, row: row}
	v, err := e.eval(x)
	if err != nil {
		return -1, err
	}
	return truth(v), nil
}
