package sqlmodel

import (
	"fmt"
	"math/big"
	"sort"
	"strconv"

	"github.com/XiaoMi/Gaea/parser/ast"
)

// ExecOptions selects server behaviour visible in the OK packet.
type ExecOptions struct {
	// FoundRows: the connection was opened with CLIENT_FOUND_ROWS, so UPDATE
	// reports matched rows instead of changed rows.
	FoundRows bool
}

// ExecResult is the OK packet of a modification.
type ExecResult struct {
	Affected uint64
	Matched  uint64
}

// Exec applies an UPDATE, DELETE, INSERT or REPLACE statement text.
func Exec(sql string, cat Catalog, opt ExecOptions) (*ExecResult, error) {
	st, err := Parse(sql)
	if err != nil {
		return nil, fmt.Errorf("parse %q: %w", sql, err)
	}
	return ExecStmt(st, cat, opt)
}

// ExecStmt applies a parsed modification statement. A statement that fails
// leaves the tables unchanged.
func ExecStmt(st ast.StmtNode, cat Catalog, opt ExecOptions) (*ExecResult, error) {
	switch s := st.(type) {
	case *ast.UpdateStmt:
		return execUpdate(s, cat, opt)
	case *ast.DeleteStmt:
		return execDelete(s, cat)
	case *ast.InsertStmt:
		return execInsert(s, cat, opt)
	}
	return nil, unsupported("statement %T", st)
}

func singleSource(refs *ast.TableRefsClause, cat Catalog) (*source, *scope, error) {
	if refs == nil || refs.TableRefs == nil {
		return nil, nil, unsupported("statement without table")
	}
	j := refs.TableRefs
	if j.Right != nil {
		return nil, nil, unsupported("multi-table modification")
	}
	ts, ok := j.Left.(*ast.TableSource)
	if !ok {
		return nil, nil, unsupported("table reference %T", j.Left)
	}
	s, err := tableSourceOf(ts, cat)
	if err != nil {
		return nil, nil, err
	}
	return s, &scope{srcs: []source{*s}, width: len(s.table.Cols)}, nil
}

// castTo converts v for storage in column c (assignment conversion).
func castTo(c Column, v Value) (Value, error) {
	if v.Null {
		return Null(c.K), nil
	}
	switch c.K {
	case KInt:
		switch v.K {
		case KInt:
			return v, nil
		case KDec:
			return Int(roundRat(v.rat(), 0).Int64()), nil
		case KDouble:
			return Int(int64(roundHalfAway(v.F))), nil
		default:
			i, err := strconv.ParseInt(v.S, 10, 64)
			if err != nil {
				return Value{}, &SQLError{1366, "Incorrect integer value: '" + v.S + "'"}
			}
			return Int(i), nil
		}
	case KDec:
		switch v.K {
		case KInt, KDec:
			return Value{K: KDec, U: roundRat(v.rat(), c.Scale), Scale: c.Scale}, nil
		case KDouble:
			r := new(big.Rat)
			if r.SetFloat64(v.F) == nil {
				return Value{}, &SQLError{1366, "Incorrect decimal value"}
			}
			return Value{K: KDec, U: roundRat(r, c.Scale), Scale: c.Scale}, nil
		default:
			d, err := ParseDec(v.S)
			if err != nil {
				return Value{}, &SQLError{1366, "Incorrect decimal value: '" + v.S + "'"}
			}
			return Value{K: KDec, U: roundRat(d.rat(), c.Scale), Scale: c.Scale}, nil
		}
	case KDouble:
		return Double(v.float()), nil
	case KTime:
		if v.K == KString || v.K == KTime {
			if n, ok := normTime(v.S); ok {
				return Time(n), nil
			}
		}
		return Value{}, &SQLError{1292, "Incorrect datetime value: " + v.String()}
	default:
		return Str(v.Text()), nil
	}
}

func roundHalfAway(f float64) float64 {
	if f < 0 {
		return -float64(int64(-f + 0.5))
	}
	return float64(int64(f + 0.5))
}

// roundRat returns round-half-away-from-zero(r * 10^scale).
func roundRat(r *big.Rat, scale int) *big.Int {
	x := new(big.Rat).Mul(r, new(big.Rat).SetInt(pow10(scale)))
	neg := x.Sign() < 0
	if neg {
		x.Neg(x)
	}
	x.Add(x, big.NewRat(1, 2))
	q := new(big.Int).Quo(x.Num(), x.Denom())
	if neg {
		q.Neg(q)
	}
	return q
}

func identical(a, b Value) bool {
	if a.Null || b.Null {
		return a.Null && b.Null
	}
	if a.K != b.K {
		return false
	}
	switch a.K {
	case KInt:
		return a.I == b.I
	case KDec:
		return a.Scale == b.Scale && a.U.Cmp(b.U) == 0
	case KDouble:
		return a.F == b.F
	}
	return a.S == b.S
}

// selectTargets returns the indexes of the rows of t that match where, in
// ORDER BY order, cut by LIMIT.
func selectTargets(t *Table, sc *scope, where ast.ExprNode, order *ast.OrderByClause, limit *ast.Limit) ([]int, error) {
	e := &env{sc: sc}
	var idx []int
	for i, r := range t.Rows {
		if where != nil {
			e.row = r
			v, err := e.eval(where)
			if err != nil {
				return nil, err
			}
			if truth(v) != 1 {
				continue
			}
		}
		idx = append(idx, i)
	}
	if order != nil {
		keys := make(map[int][]Value, len(idx))
		desc := make([]bool, len(order.Items))
		for k, bi := range order.Items {
			desc[k] = bi.Desc
		}
		for _, i := range idx {
			e.row = t.Rows[i]
			ks := make([]Value, len(order.Items))
			for k, bi := range order.Items {
				v, err := e.eval(bi.Expr)
				if err != nil {
					return nil, err
				}
				ks[k] = v
			}
			keys[i] = ks
		}
		sort.SliceStable(idx, func(a, b int) bool { return cmpKeys(keys[idx[a]], keys[idx[b]], desc) < 0 })
	}
	if limit != nil {
		off, cnt, err := limitOf(limit)
		if err != nil {
			return nil, err
		}
		if off != 0 {
			return nil, unsupported("LIMIT with offset in a modification")
		}
		if cnt >= 0 && int64(len(idx)) > cnt {
			idx = idx[:cnt]
		}
	}
	return idx, nil
}

func execUpdate(st *ast.UpdateStmt, cat Catalog, opt ExecOptions) (*ExecResult, error) {
	s, sc, err := singleSource(st.TableRefs, cat)
	if err != nil {
		return nil, err
	}
	t := s.table
	cols := make([]int, len(st.List))
	for i, a := range st.List {
		ci, _, err := sc.resolve(a.Column)
		if err != nil {
			return nil, err
		}
		cols[i] = ci
	}
	idx, err := selectTargets(t, sc, st.Where, st.Order, st.Limit)
	if err != nil {
		return nil, err
	}
	// compute first, apply afterwards: a failing statement changes nothing
	newRows := make(map[int][]Value, len(idx))
	res := &ExecResult{}
	for _, i := range idx {
		row := append([]Value(nil), t.Rows[i]...)
		e := &env{sc: sc, row: row}
		changed := false
		for k, a := range st.List {
			v, err := e.eval(a.Expr)
			if err != nil {
				return nil, err
			}
			cv, err := castTo(t.Cols[cols[k]], v)
			if err != nil {
				return nil, err
			}
			if !identical(cv, row[cols[k]]) {
				changed = true
			}
			row[cols[k]] = cv // later assignments see the new value (single-table UPDATE)
		}
		res.Matched++
		if changed {
			res.Affected++
			newRows[i] = row
		}
	}
	for i, r := range newRows {
		t.Rows[i] = r
	}
	if opt.FoundRows {
		res.Affected = res.Matched
	}
	return res, nil
}

func execDelete(st *ast.DeleteStmt, cat Catalog) (*ExecResult, error) {
	if st.IsMultiTable {
		return nil, unsupported("multi-table DELETE")
	}
	s, sc, err := singleSource(st.TableRefs, cat)
	if err != nil {
		return nil, err
	}
	t := s.table
	idx, err := selectTargets(t, sc, st.Where, st.Order, st.Limit)
	if err != nil {
		return nil, err
	}
	del := make(map[int]bool, len(idx))
	for _, i := range idx {
		del[i] = true
	}
	kept := make([][]Value, 0, len(t.Rows)-len(idx))
	for i, r := range t.Rows {
		if !del[i] {
			kept = append(kept, r)
		}
	}
	t.Rows = kept
	return &ExecResult{Affected: uint64(len(idx)), Matched: uint64(len(idx))}, nil
}

func execInsert(st *ast.InsertStmt, cat Catalog, opt ExecOptions) (*ExecResult, error) {
	if st.Select != nil {
		return nil, unsupported("INSERT ... SELECT")
	}
	s, sc, err := singleSource(st.Table, cat)
	if err != nil {
		return nil, err
	}
	t := s.table
	uk := t.UK
	// rows to insert
	var colIdx []int
	var lists [][]ast.ExprNode
	if len(st.Setlist) > 0 {
		var l []ast.ExprNode
		for _, a := range st.Setlist {
			ci := t.ColIndex(a.Column.Name.L)
			if ci < 0 {
				return nil, &SQLError{1054, "Unknown column '" + a.Column.Name.O + "'"}
			}
			colIdx = append(colIdx, ci)
			l = append(l, a.Expr)
		}
		lists = [][]ast.ExprNode{l}
	} else {
		if len(st.Columns) == 0 {
			for i := range t.Cols {
				colIdx = append(colIdx, i)
			}
		}
		for _, c := range st.Columns {
			ci := t.ColIndex(c.Name.L)
			if ci < 0 {
				return nil, &SQLError{1054, "Unknown column '" + c.Name.O + "'"}
			}
			colIdx = append(colIdx, ci)
		}
		lists = st.Lists
	}
	work := t.Clone()
	res := &ExecResult{}
	for _, l := range lists {
		if len(l) != len(colIdx) {
			return nil, &SQLError{1136, "Column count doesn't match value count"}
		}
		row := nullRow(t.Cols)
		e := &env{sc: &scope{}}
		for k, x := range l {
			v, err := e.eval(x)
			if err != nil {
				return nil, err
			}
			cv, err := castTo(t.Cols[colIdx[k]], v)
			if err != nil {
				return nil, err
			}
			row[colIdx[k]] = cv
		}
		dup := -1
		if uk != nil {
			for i, r := range work.Rows {
				same := true
				for _, c := range uk {
					if r[c].Null || row[c].Null || !SameValue(r[c], row[c]) {
						same = false
						break
					}
				}
				if same {
					dup = i
					break
				}
			}
		}
		switch {
		case dup < 0:
			work.Rows = append(work.Rows, row)
			res.Affected++
		case st.IsReplace:
			work.Rows = append(work.Rows[:dup:dup], work.Rows[dup+1:]...)
			work.Rows = append(work.Rows, row)
			res.Affected += 2
		case len(st.OnDuplicate) > 0:
			cur := append([]Value(nil), work.Rows[dup]...)
			ue := &env{sc: sc, row: cur, insertRow: row, insertTab: t}
			changed := false
			for _, a := range st.OnDuplicate {
				ci := t.ColIndex(a.Column.Name.L)
				if ci < 0 {
					return nil, &SQLError{1054, "Unknown column '" + a.Column.Name.O + "'"}
				}
				v, err := ue.eval(a.Expr)
				if err != nil {
					return nil, err
				}
				cv, err := castTo(t.Cols[ci], v)
				if err != nil {
					return nil, err
				}
				if !identical(cv, cur[ci]) {
					changed = true
				}
				cur[ci] = cv
			}
			work.Rows[dup] = cur
			if changed {
				res.Affected += 2
			} else if opt.FoundRows {
				res.Affected++
			}
		case st.IgnoreErr:
			// row skipped
		default:
			return nil, &SQLError{1062, "Duplicate entry"}
		}
	}
	t.Rows = work.Rows
	return res, nil
}
