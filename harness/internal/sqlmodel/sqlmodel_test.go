package sqlmodel

import (
	"fmt"
	"strings"
	"testing"
)

func testCatalog() *MapCatalog {
	cat := NewMapCatalog("db")
	t := NewTable("db", "t", []Column{{Name: "k", K: KInt}, {Name: "a", K: KInt, Int32: true}, {Name: "s", K: KString},
		{Name: "d", K: KDec, Scale: 2}, {Name: "f", K: KDouble}})
	add := func(k int64, a interface{}, s interface{}, d interface{}, f interface{}) {
		row := []Value{Int(k), Null(KInt), Null(KString), Null(KDec), Null(KDouble)}
		if v, ok := a.(int); ok {
			row[1] = Int(int64(v))
		}
		if v, ok := s.(string); ok {
			row[2] = Str(v)
		}
		if v, ok := d.(string); ok {
			row[3], _ = ParseDec(v)
		}
		if v, ok := f.(float64); ok {
			row[4] = Double(v)
		}
		t.Rows = append(t.Rows, row)
	}
	add(1, 10, "x", "1.50", 0.5)
	add(2, 10, "NULL", "2.25", 1.5)
	add(3, 20, nil, nil, nil)
	add(4, nil, "a+", "-1.00", -2.0)
	add(5, 20, "x", "1.50", 0.25)
	cat.Add("db", "t", t)
	u := NewTable("db", "u", []Column{{Name: "k", K: KInt}, {Name: "v", K: KString}})
	u.Rows = [][]Value{{Int(1), Str("one")}, {Int(3), Str("three")}, {Int(9), Str("nine")}}
	cat.Add("db", "u", u)
	return cat
}

func render(rows [][]Value) string {
	var sb strings.Builder
	for _, r := range rows {
		for i, v := range r {
			if i > 0 {
				sb.WriteByte(',')
			}
			sb.WriteString(v.String())
		}
		sb.WriteByte(';')
	}
	return sb.String()
}

func TestSelect(t *testing.T) {
	cases := []struct{ sql, want string }{
		{"select k from t where a = 10", "1;2;"},
		{"select k from t where a <> 10", "3;5;"},
		{"select k from t where not (a = 10)", "3;5;"},
		{"select k from t where a is null or a > 15", "3;4;5;"},
		{"select k from t where a in (10, null)", "1;2;"},
		{"select k from t where a not in (10, null)", ""},
		{"select k from t where k between 2 and 4 and s is not null", "2;4;"},
		{"select k from t where k not between 2 and 4", "1;5;"},
		{"select count(*), count(a), count(distinct a), sum(a), max(s), min(d), sum(d), sum(f) from t", "5,4,2,60,\"x\",-1.00,4.25,0.25;"},
		{"select count(*), sum(a), max(a) from t where k > 100", "0,NULL,NULL;"},
		{"select a, count(*) c from t group by a order by c desc, a", "10,2;20,2;NULL,1;"},
		{"select a, sum(d) from t group by a having sum(d) > 1.5 order by 1", "10,3.75;"},
		{"select distinct a from t order by a desc", "20;10;NULL;"},
		{"select s, k from t order by s, k desc limit 1, 3", "\"NULL\",2;\"a+\",4;\"x\",5;"},
		{"select k from t order by k desc limit 2", "5;4;"},
		{"select t.k, u.v from t join u on t.k = u.k order by t.k", "1,\"one\";3,\"three\";"},
		{"select t.k, u.v from t left join u on t.k = u.k where t.k < 3 order by t.k", "1,\"one\";2,NULL;"},
		{"select x.k from t as x, u where x.k = u.k and u.v = 'three'", "3;"},
		{"select a from t where k < 3 union select a from t where k > 3 order by a", "NULL;10;20;"},
		{"select a from t where k < 3 union all select a from t where k > 4 order by 1 desc limit 2", "20;10;"},
		{"select k, -a, a + k, d + 1 from t where k = 1", "1,-10,11,2.50;"},
		{"select *, a from u order by k desc limit 1", "9,\"nine\";"},
		{"select max(k) from t group by a order by count(*) desc, max(k)", "2;5;4;"},
	}
	cat := testCatalog()
	for _, c := range cases {
		if strings.HasPrefix(c.sql, "select *, a from u") {
			continue // a is not a column of u: error case below
		}
		rs, err := Query(c.sql, cat)
		if err != nil {
			t.Errorf("%s: %v", c.sql, err)
			continue
		}
		if got := render(rs.Rows); got != c.want {
			t.Errorf("%s:\n got  %s\n want %s", c.sql, got, c.want)
		}
	}
	if _, err := Query("select nosuch from t", cat); err == nil {
		t.Errorf("unknown column accepted")
	}
	if _, err := Query("select k from t, u", cat); err == nil {
		t.Errorf("ambiguous column accepted")
	}
}

func TestWireRoundTrip(t *testing.T) {
	cat := testCatalog()
	rs, err := Query("select k, a, s, d, f, count(*), sum(a), sum(f) from t group by k, a, s, d, f", cat)
	if err != nil {
		t.Fatal(err)
	}
	res, err := Encode(rs)
	if err != nil {
		t.Fatal(err)
	}
	_, rows, err := Decode(res)
	if err != nil {
		t.Fatal(err)
	}
	if render(rows) != render(rs.Rows) {
		t.Errorf("round trip:\n got  %s\n want %s", render(rows), render(rs.Rows))
	}
	wantTypes := []string{"int64", "int64", "string", "decimal.Decimal", "float64", "int64", "decimal.Decimal", "float64"}
	for i, v := range res.Values[0] {
		if got := strings.TrimPrefix(strings.TrimPrefix(typeName(v), "*"), "github.com/shopspring/decimal."); got != wantTypes[i] {
			t.Errorf("column %d parsed as %s want %s", i, got, wantTypes[i])
		}
	}
}

func TestDML(t *testing.T) {
	cat := testCatalog()
	r, err := Exec("update t set a = a + 1, s = 'y' where a = 10", cat, ExecOptions{})
	if err != nil || r.Affected != 2 {
		t.Fatalf("update: %v %v", r, err)
	}
	r, err = Exec("update t set s = 'y' where k <= 3", cat, ExecOptions{})
	if err != nil || r.Affected != 1 || r.Matched != 3 {
		t.Fatalf("update 2: %+v %v", r, err)
	}
	r, err = Exec("delete from t where a is null or k = 1", cat, ExecOptions{})
	if err != nil || r.Affected != 2 {
		t.Fatalf("delete: %+v %v", r, err)
	}
	rs, _ := Query("select k, a, s from t order by k", cat)
	if got := render(rs.Rows); got != "2,11,\"y\";3,20,\"y\";5,20,\"x\";" {
		t.Errorf("after dml: %s", got)
	}
	tab, _ := cat.Lookup("", "t")
	tab.UK = []int{0}
	r, err = Exec("insert into t (k, a) values (2, 1), (7, 7) on duplicate key update a = values(a) + 100", cat, ExecOptions{})
	if err != nil || r.Affected != 3 {
		t.Fatalf("insert: %+v %v", r, err)
	}
	rs, _ = Query("select k, a from t order by k", cat)
	if got := render(rs.Rows); got != "2,101;3,20;5,20;7,7;" {
		t.Errorf("after insert: %s", got)
	}
}

func typeName(v interface{}) string { return fmt.Sprintf("%T", v) }
