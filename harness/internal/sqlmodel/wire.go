package sqlmodel

import (
	"encoding/binary"
	"fmt"
	"strconv"

	"github.com/XiaoMi/Gaea/mysql"
)

// Wire encoding of a result set exactly as a backend's text protocol delivers
// it and as Gaea's DirectConnection.readResultSet turns it into a
// *mysql.Result: every column definition is serialised as a Protocol::
// ColumnDefinition41 packet (written here from the protocol description) and
// decoded with mysql.FieldData.Parse; every row is serialised as a text
// resultset row (length-encoded strings, 0xfb for NULL) and decoded with
// mysql.RowData.ParseText. So the Go types Gaea's merge code sees are decided
// by Gaea's own decoder from the column type, as in production.

func lenEncInt(b []byte, n uint64) []byte {
	switch {
	case n <= 250:
		return append(b, byte(n))
	case n <= 0xffff:
		return append(b, 0xfc, byte(n), byte(n>>8))
	case n <= 0xffffff:
		return append(b, 0xfd, byte(n), byte(n>>8), byte(n>>16))
	}
	b = append(b, 0xfe)
	return binary.LittleEndian.AppendUint64(b, n)
}

func lenEncStr(b []byte, s string) []byte {
	b = lenEncInt(b, uint64(len(s)))
	return append(b, s...)
}

const (
	flagNotNull = 1
	flagBinary  = 128
	flagNum     = 32768
)

// fieldPacket serialises a column definition.
func fieldPacket(c ColMeta) []byte {
	var typ byte
	var charset uint16 = 63
	var length uint32
	var decimals byte
	flags := uint16(0)
	switch c.T.K {
	case KInt:
		if c.T.Int32 {
			typ, length = mysql.TypeLong, 11
		} else {
			typ, length = mysql.TypeLonglong, 21
		}
		flags |= flagBinary | flagNum
	case KDec:
		typ, length, decimals = mysql.TypeNewDecimal, 33, byte(c.T.Scale)
		flags |= flagBinary | flagNum
	case KDouble:
		typ, length, decimals = mysql.TypeDouble, 23, 31
		flags |= flagBinary | flagNum
	case KTime:
		typ, length = mysql.TypeDatetime, 19
		flags |= flagBinary
	case KNull:
		typ = mysql.TypeNull
		flags |= flagBinary
	default:
		typ, length, charset = mysql.TypeVarString, 255*3, 33
	}
	if c.T.NotNull {
		flags |= flagNotNull
	}
	b := lenEncStr(nil, "def")
	b = lenEncStr(b, c.Schema)
	b = lenEncStr(b, c.Table)
	b = lenEncStr(b, c.OrgTable)
	b = lenEncStr(b, c.Name)
	b = lenEncStr(b, c.OrgName)
	b = append(b, 0x0c)
	b = binary.LittleEndian.AppendUint16(b, charset)
	b = binary.LittleEndian.AppendUint32(b, length)
	b = append(b, typ)
	b = binary.LittleEndian.AppendUint16(b, flags)
	b = append(b, decimals, 0, 0)
	return b
}

func rowPacket(row []Value) []byte {
	var b []byte
	for _, v := range row {
		if v.Null {
			b = append(b, 0xfb)
			continue
		}
		b = lenEncStr(b, v.Text())
	}
	return b
}

// ServerStatusAutocommit is the status word a quiet autocommit session reports.
const ServerStatusAutocommit = 0x0002

// Encode turns a result set into the *mysql.Result a backend connection
// would hand to the session executor.
func Encode(rs *ResultSet) (*mysql.Result, error) {
	res := mysql.ResultPool.Get()
	res.Fields = make([]*mysql.Field, len(rs.Cols))
	res.FieldNames = make(map[string]int, len(rs.Cols))
	for i, c := range rs.Cols {
		f, err := mysql.FieldData(fieldPacket(c)).Parse()
		if err != nil {
			return nil, fmt.Errorf("sqlmodel: field packet %d: %v", i, err)
		}
		res.Fields[i] = f
		res.FieldNames[string(f.Name)] = i
	}
	res.Status = ServerStatusAutocommit
	res.RowDatas = res.RowDatas[:0]
	for _, r := range rs.Rows {
		res.RowDatas = append(res.RowDatas, mysql.RowData(rowPacket(r)))
	}
	res.Values = make([][]interface{}, len(res.RowDatas))
	for i := range res.Values {
		vals, err := res.RowDatas[i].ParseText(res.Fields)
		if err != nil {
			return nil, fmt.Errorf("sqlmodel: row %d: %v", i, err)
		}
		res.Values[i] = vals
	}
	return res, nil
}

// EncodeOK is the *mysql.Result of an OK packet.
func EncodeOK(r *ExecResult) *mysql.Result {
	res := mysql.ResultPool.GetWithoutResultSet()
	res.AffectedRows = r.Affected
	res.Status = ServerStatusAutocommit
	return res
}

// Decode reads the rows of a *mysql.Result Gaea returned to the client back
// into Values. It decodes the RowDatas (what is written to the client socket)
// with a reader written here, and takes each column's kind from the field
// packet type.
func Decode(res *mysql.Result) ([]ColMeta, [][]Value, error) {
	if res == nil || res.Resultset == nil {
		return nil, nil, fmt.Errorf("no result set")
	}
	cols := make([]ColMeta, len(res.Fields))
	for i, f := range res.Fields {
		c := ColMeta{Name: string(f.Name), OrgName: string(f.OrgName), Table: string(f.Table)}
		switch f.Type {
		case mysql.TypeTiny, mysql.TypeShort, mysql.TypeLong, mysql.TypeInt24, mysql.TypeLonglong, mysql.TypeYear:
			c.T.K = KInt
		case mysql.TypeNewDecimal, mysql.TypeDecimal:
			c.T.K = KDec
		case mysql.TypeFloat, mysql.TypeDouble:
			c.T.K = KDouble
		case mysql.TypeDatetime, mysql.TypeDate, mysql.TypeTimestamp:
			c.T.K = KTime
		case mysql.TypeNull:
			c.T.K = KNull
		default:
			c.T.K = KString
		}
		cols[i] = c
	}
	var rows [][]Value
	for ri, rd := range res.RowDatas {
		row := make([]Value, len(cols))
		pos := 0
		for ci := range cols {
			if pos >= len(rd) {
				return nil, nil, fmt.Errorf("row %d: truncated at column %d", ri, ci)
			}
			if rd[pos] == 0xfb {
				row[ci] = Null(cols[ci].T.K)
				pos++
				continue
			}
			n, w, err := readLenEnc(rd[pos:])
			if err != nil {
				return nil, nil, fmt.Errorf("row %d column %d: %v", ri, ci, err)
			}
			pos += w
			if pos+int(n) > len(rd) {
				return nil, nil, fmt.Errorf("row %d column %d: string beyond packet", ri, ci)
			}
			s := string(rd[pos : pos+int(n)])
			pos += int(n)
			v, err := parseText(cols[ci].T.K, s)
			if err != nil {
				return nil, nil, fmt.Errorf("row %d column %d: %v", ri, ci, err)
			}
			row[ci] = v
		}
		if pos != len(rd) {
			return nil, nil, fmt.Errorf("row %d: %d trailing bytes", ri, len(rd)-pos)
		}
		rows = append(rows, row)
	}
	return cols, rows, nil
}

func readLenEnc(b []byte) (uint64, int, error) {
	switch {
	case b[0] <= 250:
		return uint64(b[0]), 1, nil
	case b[0] == 0xfc && len(b) >= 3:
		return uint64(b[1]) | uint64(b[2])<<8, 3, nil
	case b[0] == 0xfd && len(b) >= 4:
		return uint64(b[1]) | uint64(b[2])<<8 | uint64(b[3])<<16, 4, nil
	case b[0] == 0xfe && len(b) >= 9:
		return binary.LittleEndian.Uint64(b[1:]), 9, nil
	}
	return 0, 0, fmt.Errorf("bad length prefix %#x", b[0])
}

func parseText(k Kind, s string) (Value, error) {
	switch k {
	case KInt:
		i, err := strconv.ParseInt(s, 10, 64)
		if err != nil {
			// a merged integer column may have been turned into a decimal text
			d, derr := ParseDec(s)
			if derr != nil {
				return Value{}, fmt.Errorf("integer column holds %q", s)
			}
			return d, nil
		}
		return Int(i), nil
	case KDec:
		return ParseDec(s)
	case KDouble:
		f, err := strconv.ParseFloat(s, 64)
		if err != nil {
			return Value{}, fmt.Errorf("double column holds %q", s)
		}
		return Double(f), nil
	case KTime:
		return Time(s), nil
	}
	return Str(s), nil
}
