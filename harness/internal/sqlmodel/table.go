package sqlmodel

import (
	"fmt"
	"strings"
)

// Column describes one table column.
type Column struct {
	Name  string
	K     Kind
	Scale int  // KDec
	Int32 bool // KInt: INT (wire type LONG) instead of BIGINT (LONGLONG)
}

// Table is an in-memory table; row order is insertion order.
type Table struct {
	Name string // physical table name
	DB   string // physical database
	Cols []Column
	Rows [][]Value
	UK   []int // optional unique key (column indexes): what ON DUPLICATE KEY UPDATE / REPLACE react to
}

// NewTable makes an empty table.
func NewTable(db, name string, cols []Column) *Table {
	return &Table{Name: name, DB: db, Cols: cols}
}

// Clone deep-copies the rows (values are immutable).
func (t *Table) Clone() *Table {
	c := &Table{Name: t.Name, DB: t.DB, Cols: t.Cols, UK: t.UK}
	c.Rows = make([][]Value, len(t.Rows))
	for i, r := range t.Rows {
		c.Rows[i] = append([]Value(nil), r...)
	}
	return c
}

// ColIndex finds a column by (case-insensitive) name.
func (t *Table) ColIndex(name string) int {
	for i, c := range t.Cols {
		if strings.EqualFold(c.Name, name) {
			return i
		}
	}
	return -1
}

// Catalog resolves the table names that appear in a statement.
type Catalog interface {
	// Lookup returns the table for a (possibly empty) schema and a table name.
	Lookup(schema, name string) (*Table, error)
}

// MapCatalog is a Catalog over "db.table" and "table" keys (lower case).
type MapCatalog struct {
	DefaultDB string
	Tables    map[string]*Table
}

// NewMapCatalog makes an empty catalog whose unqualified names live in db.
func NewMapCatalog(db string) *MapCatalog {
	return &MapCatalog{DefaultDB: db, Tables: map[string]*Table{}}
}

// Add registers t under db.name.
func (m *MapCatalog) Add(db, name string, t *Table) {
	m.Tables[strings.ToLower(db)+"."+strings.ToLower(name)] = t
}

// Lookup implements Catalog.
func (m *MapCatalog) Lookup(schema, name string) (*Table, error) {
	if schema == "" {
		schema = m.DefaultDB
	}
	t, ok := m.Tables[strings.ToLower(schema)+"."+strings.ToLower(name)]
	if !ok {
		return nil, &SQLError{Code: 1146, Msg: fmt.Sprintf("Table '%s.%s' doesn't exist", schema, name)}
	}
	return t, nil
}

// SQLError is an error a MySQL server would answer the statement with.
type SQLError struct {
	Code int
	Msg  string
}

func (e *SQLError) Error() string { return fmt.Sprintf("ERROR %d: %s", e.Code, e.Msg) }

// Unsupported is returned for statements outside the evaluator's subset; the
// harness never generates those, so seeing one is a harness error.
type Unsupported struct{ What string }

func (e *Unsupported) Error() string { return "sqlmodel: unsupported: " + e.What }

func unsupported(f string, a ...interface{}) error {
	return &Unsupported{What: fmt.Sprintf(f, a...)}
}
