// Package routefix is the small amount of glue shared by the black-box
// routing properties C06, C21 and C22: one fresh namespace + fresh simulated
// backends per case on the process-wide proxy, and attribution of tagged
// client statements to the backend (slice, role) that received them.
package routefix

import (
	"fmt"
	"strings"
	"sync/atomic"

	"github.com/XiaoMi/Gaea/models"

	"verifharness/internal/fakemysql"
	"verifharness/internal/proxyfix"
	"verifharness/internal/rawclient"
)

var counter int64

const namePool = 4

// Env is one installed namespace with its backends.
type Env struct {
	P    *proxyfix.Proxy
	Cl   *proxyfix.Cluster
	Name string
	NS   *models.Namespace
}

// User describes a client account of the namespace; the real user name is Env.User(Key).
type User struct {
	Key     string
	RWFlag  int
	RWSplit int
}

// Password of every generated user.
const Password = "pw"

// Setup starts the backends, builds the namespace (edit may change any field
// before it is verified and loaded) and installs it through the real reload path.
func Setup(prefix string, specs []proxyfix.SliceSpec, users []User, edit func(ns *models.Namespace)) (*Env, error) {
	p, err := proxyfix.Shared()
	if err != nil {
		return nil, fmt.Errorf("proxy: %v", err)
	}
	cl, err := proxyfix.NewCluster(specs)
	if err != nil {
		return nil, fmt.Errorf("cluster: %v", err)
	}
	// A small rotating pool of names instead of an ever-growing counter: Gaea's
	// Manager.ReloadNamespacePrepare inserts every NEW namespace name into
	// statistics.SQLResponsePercentile without a lock while a 4 s ticker iterates that map
	// (StatisticManager.CalcAvgSQLTimes, >= 1 ms per name ever seen, entries are never
	// deleted); thousands of fresh names make the test process die with "concurrent map
	// iteration and map write". A name is reused only after the case that owned it removed
	// the namespace and closed its sessions, and three other cases have run.
	name := proxyfix.UniqueName(prefix, atomic.AddInt64(&counter, 1)%namePool)
	var mu []*models.User
	for _, u := range users {
		mu = append(mu, &models.User{UserName: name + "_" + u.Key, Password: Password, RWFlag: u.RWFlag, RWSplit: u.RWSplit})
	}
	ns := proxyfix.BaseNamespace(name, cl.SliceConfigs(specs), mu)
	if edit != nil {
		edit(ns)
	}
	if err := p.Install(ns); err != nil {
		cl.Close()
		return nil, err
	}
	return &Env{P: p, Cl: cl, Name: name, NS: ns}, nil
}

// User returns the real user name for a key.
func (e *Env) User(key string) string { return e.Name + "_" + key }

// Dial opens a client session for the user key.
func (e *Env) Dial(key, db string, caps uint32) (*rawclient.Conn, error) {
	return e.P.Dial(e.User(key), Password, db, caps)
}

// Close removes the namespace and stops the backends.
func (e *Env) Close() {
	e.P.Remove(e.Name)
	e.Cl.Close()
}

// Hits returns the query events, in global order, whose text contains tag.
func (e *Env) Hits(tag string) []fakemysql.Event {
	var res []fakemysql.Event
	for _, ev := range e.Cl.Events() {
		if ev.Kind == "query" && strings.Contains(ev.SQL, tag) {
			res = append(res, ev)
		}
	}
	return res
}

// Describe formats events for a failure detail.
func Describe(evs []fakemysql.Event) string {
	var b strings.Builder
	for i, ev := range evs {
		if i > 0 {
			b.WriteString("; ")
		}
		fmt.Fprintf(&b, "%s(%s) got %q", ev.Server, ev.Role, ev.SQL)
	}
	if len(evs) == 0 {
		return "no backend"
	}
	return b.String()
}

// infraMarks are fragments of error texts that show trouble of the test infrastructure
// (the proxy could not get or keep a backend connection in time on a loaded machine),
// as opposed to a decision of the proxy about the statement.
var infraMarks = []string{"getbackendconn failed", "create resource failed", "context deadline exceeded", "i/o timeout",
	"connection refused", "broken pipe", "bad connection", "no backend", "connection reset", "unexpected eof",
	"use of closed network connection", "invalid connection", "get conn timeout", "connection was bad", "resource pool"}

// InfraTrouble reports whether an error text returned to the client shows infrastructure
// trouble. Such a case is inconclusive (Skip), never a violation and never a "rejection".
func InfraTrouble(msg string) bool {
	l := strings.ToLower(msg)
	for _, m := range infraMarks {
		if strings.Contains(l, m) {
			return true
		}
	}
	return false
}
