// Package nsgen generates Gaea namespace configurations for the property
// checks C10 (validation vs. loading) and C33 (store round trip).
//
// Valid builds a configuration that is valid by construction from the
// documented meaning of every field; Mutate applies small, realistic edits
// (zero / negative / mismatched locations, case variants of table names,
// database list syntax, overlapping date ranges, wrong partition sums, ...)
// to such a configuration.  All randomness comes from the *rapid.T passed in.
package nsgen

import (
	"fmt"
	"strings"

	"github.com/XiaoMi/Gaea/log"
	"github.com/XiaoMi/Gaea/models"
	"pgregory.net/rapid"
)

// ---- quiet global logger ----

type nopLogger struct{}

func (nopLogger) SetLevel(name, level string) error                    { return nil }
func (nopLogger) Debug(format string, a ...interface{}) error          { return nil }
func (nopLogger) Trace(format string, a ...interface{}) error          { return nil }
func (nopLogger) Notice(format string, a ...interface{}) error         { return nil }
func (nopLogger) Warn(format string, a ...interface{}) error           { return nil }
func (nopLogger) Fatal(format string, a ...interface{}) error          { return nil }
func (nopLogger) Debugx(logID, format string, a ...interface{}) error  { return nil }
func (nopLogger) Tracex(logID, format string, a ...interface{}) error  { return nil }
func (nopLogger) Noticex(logID, format string, a ...interface{}) error { return nil }
func (nopLogger) Warnx(logID, format string, a ...interface{}) error   { return nil }
func (nopLogger) Fatalx(logID, format string, a ...interface{}) error  { return nil }
func (nopLogger) Close()                                               {}
func (nopLogger) Dropped(i int) uint64                                 { return 0 }

// Quiet replaces Gaea's global console logger (debug level) by a no-op one.
func Quiet() { log.SetGlobalLogger(nopLogger{}) }

// ---- deep copy (no JSON: credentials may hold arbitrary bytes) ----

func cpStrs(s []string) []string {
	if s == nil {
		return nil
	}
	return append([]string{}, s...)
}

func cpInts(s []int) []int {
	if s == nil {
		return nil
	}
	return append([]int{}, s...)
}

// Copy returns a deep copy of ns.
func Copy(ns *models.Namespace) *models.Namespace {
	if ns == nil {
		return nil
	}
	c := *ns
	if ns.AllowedDBS != nil {
		c.AllowedDBS = make(map[string]bool, len(ns.AllowedDBS))
		for k, v := range ns.AllowedDBS {
			c.AllowedDBS[k] = v
		}
	}
	if ns.DefaultPhyDBS != nil {
		c.DefaultPhyDBS = make(map[string]string, len(ns.DefaultPhyDBS))
		for k, v := range ns.DefaultPhyDBS {
			c.DefaultPhyDBS[k] = v
		}
	}
	if ns.AllowedSessionVariables != nil {
		c.AllowedSessionVariables = make(map[string]string, len(ns.AllowedSessionVariables))
		for k, v := range ns.AllowedSessionVariables {
			c.AllowedSessionVariables[k] = v
		}
	}
	c.BlackSQL = cpStrs(ns.BlackSQL)
	c.AllowedIP = cpStrs(ns.AllowedIP)
	if ns.Slices != nil {
		c.Slices = make([]*models.Slice, len(ns.Slices))
		for i, s := range ns.Slices {
			if s == nil {
				continue
			}
			d := *s
			d.Slaves = cpStrs(s.Slaves)
			d.StatisticSlaves = cpStrs(s.StatisticSlaves)
			c.Slices[i] = &d
		}
	}
	if ns.ShardRules != nil {
		c.ShardRules = make([]*models.Shard, len(ns.ShardRules))
		for i, s := range ns.ShardRules {
			if s == nil {
				continue
			}
			d := *s
			d.Locations = cpInts(s.Locations)
			d.Slices = cpStrs(s.Slices)
			d.DateRange = cpStrs(s.DateRange)
			d.Databases = cpStrs(s.Databases)
			c.ShardRules[i] = &d
		}
	}
	if ns.Users != nil {
		c.Users = make([]*models.User, len(ns.Users))
		for i, u := range ns.Users {
			if u == nil {
				continue
			}
			d := *u
			c.Users[i] = &d
		}
	}
	if ns.GlobalSequences != nil {
		c.GlobalSequences = make([]*models.GlobalSequence, len(ns.GlobalSequences))
		for i, g := range ns.GlobalSequences {
			if g == nil {
				continue
			}
			d := *g
			c.GlobalSequences[i] = &d
		}
	}
	return &c
}

// ---- valid configurations ----

var tableNames = []string{"tbl_a", "tbl_b", "T1", "Tbl_C", "orders", "USER_LOG", "t", "X_y"}
var dbNames = []string{"db_ks", "db_mycat"}

// HashSlices are the forms of the mycat_string hash_slice parameter.
var HashSlices = []string{"2", "-2", "1:4", ":3", "-2:", ":", "0:2", ":-1"}

func pick[T any](t *rapid.T, name string, xs []T) T {
	return xs[rapid.IntRange(0, len(xs)-1).Draw(t, name)]
}

func genSlice(t *rapid.T, i int) *models.Slice {
	p := fmt.Sprintf("s%d_", i)
	s := &models.Slice{
		Name:     fmt.Sprintf("slice-%d", i),
		UserName: "backend_user",
		Password: "backend_pass",
		// host names with a "<dc>-" prefix: the datacenter is parsed from the name, no reverse lookup, no dialing at load time
		Master:      fmt.Sprintf("dc1-db%d.test:3306", i),
		Capacity:    rapid.IntRange(1, 4).Draw(t, p+"cap"),
		IdleTimeout: rapid.SampledFrom([]int{0, 0, 60, 3600}).Draw(t, p+"idle"),
	}
	s.MaxCapacity = s.Capacity + rapid.IntRange(0, 4).Draw(t, p+"maxcap")
	ns := rapid.IntRange(0, 2).Draw(t, p+"slaves")
	for j := 0; j < ns; j++ {
		a := fmt.Sprintf("dc%d-db%d-s%d.test:3306", 1+j%2, i, j)
		if rapid.Bool().Draw(t, p+"w") {
			a += fmt.Sprintf("@%d", rapid.IntRange(1, 3).Draw(t, p+"wv"))
		}
		s.Slaves = append(s.Slaves, a)
	}
	if rapid.IntRange(0, 5).Draw(t, p+"stat") == 0 {
		s.StatisticSlaves = []string{fmt.Sprintf("dc1-db%d-st.test:3306", i)}
	}
	return s
}

// chooseSlices returns k distinct slice names in namespace order (k>=1).
func chooseSlices(t *rapid.T, name string, all []string, min int) []string {
	if min > len(all) {
		min = len(all)
	}
	k := rapid.IntRange(min, len(all)).Draw(t, name+"_k")
	off := rapid.IntRange(0, len(all)-k).Draw(t, name+"_off")
	return append([]string{}, all[off:off+k]...)
}

// partitionParams returns partition_count / partition_length strings whose
// counts sum to n and whose count*length products sum to 1024.
func partitionParams(t *rapid.T, name string, n int) (string, string, bool) {
	type sol struct{ a, la, b, lb int }
	var sols []sol
	if n >= 1 && 1024%n == 0 {
		sols = append(sols, sol{n, 1024 / n, 0, 0})
	}
	for a := 1; a < n; a++ {
		b := n - a
		for la := 1; la*a < 1024; la++ {
			rest := 1024 - la*a
			if rest%b == 0 {
				sols = append(sols, sol{a, la, b, rest / b})
				if len(sols) > 40 {
					break
				}
			}
		}
	}
	if len(sols) == 0 {
		return "", "", false
	}
	s := sols[rapid.IntRange(0, len(sols)-1).Draw(t, name+"_sol")]
	if s.b == 0 {
		return fmt.Sprint(s.a), fmt.Sprint(s.la), true
	}
	sep := pick(t, name+"_sep", []string{",", ", ", " ,"})
	return fmt.Sprintf("%d%s%d", s.a, sep, s.b), fmt.Sprintf("%d%s%d", s.la, sep, s.lb), true
}

// databaseList returns a databases list that expands to exactly n names.
func databaseList(t *rapid.T, name string, prefix string, n int) []string {
	if n <= 0 {
		return nil
	}
	switch {
	case n >= 2 && rapid.IntRange(0, 2).Draw(t, name+"_form") > 0:
		lo := rapid.IntRange(0, 3).Draw(t, name+"_lo")
		if n >= 3 && rapid.Bool().Draw(t, name+"_mix") {
			// one explicit name followed by a range
			return []string{prefix + "_x", fmt.Sprintf("%s_[%d-%d]", prefix, lo, lo+n-2)}
		}
		return []string{fmt.Sprintf("%s_[%d-%d]", prefix, lo, lo+n-1)}
	default:
		var out []string
		for i := 0; i < n; i++ {
			out = append(out, fmt.Sprintf("%s_%d", prefix, i))
		}
		return out
	}
}

// OverlappingDatabases returns a databases list of pairwise different entries
// that expands to exactly n names of which at least two are equal: a range and
// a plain name inside it, two overlapping ranges, or the same names reached
// through different spellings of a range. nil when n is too small (n < 3).
func OverlappingDatabases(t *rapid.T, name, prefix string, n int) []string {
	if n < 3 || n > 64 {
		return nil
	}
	lo := rapid.IntRange(0, 3).Draw(t, name+"_lo")
	rng := func(pre string, a, b int) string { return fmt.Sprintf("%s[%d-%d]", pre, a, b) }
	pre := prefix + "_m_"
	forms := []string{"range_name", "name_range"}
	if n >= 4 {
		forms = append(forms, "range_range", "spelling_prefix", "spelling_zeros", "range_range_names")
	}
	var out []string
	switch pick(t, name+"_form", forms) {
	case "range_name": // [lo .. lo+n-2] plus one of its members
		k := lo + rapid.IntRange(0, n-2).Draw(t, name+"_k")
		out = []string{rng(pre, lo, lo+n-2), fmt.Sprintf("%s%d", pre, k)}
	case "name_range":
		k := lo + rapid.IntRange(0, n-2).Draw(t, name+"_k")
		out = []string{fmt.Sprintf("%s%d", pre, k), rng(pre, lo, lo+n-2)}
	case "range_range": // a elements, then n-a elements starting inside the first range
		a := rapid.IntRange(2, n-2).Draw(t, name+"_a")
		start := lo + rapid.IntRange(0, a-1).Draw(t, name+"_s")
		out = []string{rng(pre, lo, lo+a-1), rng(pre, start, start+n-a-1)}
	case "range_range_names": // two overlapping two-element ranges padded with distinct plain names
		out = []string{rng(pre, lo, lo+1), rng(pre, lo+1, lo+2)}
		for i := 0; len(out) < n-2; i++ {
			out = append(out, fmt.Sprintf("%sextra%d", pre, i))
		}
	case "spelling_prefix": // db_[10-11] and db_1[0-1] are the same two names
		out = []string{rng(pre, 10, 11), rng(pre+"1", 0, 1)}
		for i := 0; len(out) < n-2; i++ {
			out = append(out, fmt.Sprintf("%sextra%d", pre, i))
		}
	default: // spelling_zeros: [01-02] and [1-2]
		out = []string{fmt.Sprintf("%s[01-02]", pre), rng(pre, 1, 2)}
		for i := 0; len(out) < n-2; i++ {
			out = append(out, fmt.Sprintf("%sextra%d", pre, i))
		}
	}
	return out
}

func genLocations(t *rapid.T, name string, k int, allowZero bool) []int {
	loc := make([]int, k)
	for i := range loc {
		loc[i] = rapid.IntRange(1, 3).Draw(t, fmt.Sprintf("%s_loc%d", name, i))
	}
	if allowZero && k >= 2 && rapid.IntRange(0, 9).Draw(t, name+"_zero") == 0 {
		loc[rapid.IntRange(0, k-1).Draw(t, name+"_zi")] = 0
	}
	return loc
}

func sum(xs []int) int {
	n := 0
	for _, x := range xs {
		n += x
	}
	return n
}

func dateRanges(t *rapid.T, name, typ string, k int) []string {
	var out []string
	switch typ {
	case models.ShardYear:
		y := rapid.IntRange(2010, 2020).Draw(t, name+"_y0")
		for i := 0; i < k; i++ {
			span := rapid.IntRange(0, 2).Draw(t, fmt.Sprintf("%s_sp%d", name, i))
			switch {
			case span == 0:
				out = append(out, fmt.Sprintf("%04d", y))
			case rapid.IntRange(0, 3).Draw(t, fmt.Sprintf("%s_rev%d", name, i)) == 0:
				out = append(out, fmt.Sprintf("%04d-%04d", y+span, y)) // written backwards: documented as accepted
			default:
				out = append(out, fmt.Sprintf("%04d-%04d", y, y+span))
			}
			y += span + 1 + rapid.IntRange(0, 1).Draw(t, fmt.Sprintf("%s_gap%d", name, i))
		}
	case models.ShardMonth:
		m := rapid.IntRange(2015*12, 2018*12).Draw(t, name+"_m0") // months since year 0, month index 0..11
		f := func(m int) string { return fmt.Sprintf("%04d%02d", m/12, m%12+1) }
		for i := 0; i < k; i++ {
			span := rapid.IntRange(0, 14).Draw(t, fmt.Sprintf("%s_sp%d", name, i))
			if span == 0 {
				out = append(out, f(m))
			} else {
				out = append(out, f(m)+"-"+f(m+span))
			}
			m += span + 1 + rapid.IntRange(0, 2).Draw(t, fmt.Sprintf("%s_gap%d", name, i))
		}
	default: // day
		starts := []struct{ y, m, d int }{{2016, 2, 26}, {2015, 12, 28}, {2017, 6, 1}, {2019, 2, 25}}
		s := pick(t, name+"_d0", starts)
		y, m, d := s.y, s.m, s.d
		next := func(n int) {
			for ; n > 0; n-- {
				d++
				dim := []int{31, 28, 31, 30, 31, 30, 31, 31, 30, 31, 30, 31}[m-1]
				if m == 2 && (y%4 == 0 && y%100 != 0 || y%400 == 0) {
					dim = 29
				}
				if d > dim {
					d = 1
					m++
					if m > 12 {
						m = 1
						y++
					}
				}
			}
		}
		f := func() string { return fmt.Sprintf("%04d%02d%02d", y, m, d) }
		for i := 0; i < k; i++ {
			span := rapid.IntRange(0, 6).Draw(t, fmt.Sprintf("%s_sp%d", name, i))
			a := f()
			if span > 0 {
				next(span)
				a += "-" + f()
			}
			out = append(out, a)
			next(1 + rapid.IntRange(0, 1).Draw(t, fmt.Sprintf("%s_gap%d", name, i)))
		}
	}
	return out
}

// RuleTypes lists every non-linked rule type.
var RuleTypes = []string{models.ShardHash, models.ShardMod, models.ShardRange, models.ShardYear, models.ShardMonth, models.ShardDay,
	models.ShardMycatMod, models.ShardMycatLong, models.ShardMycatString, models.ShardMycatMURMUR, models.ShardMycatPaddingMod, models.ShardGlobal}

func genRule(t *rapid.T, name string, typ, db, table string, sliceNames []string) *models.Shard {
	r := &models.Shard{DB: db, Table: table, Type: typ, Key: pick(t, name+"_key", []string{"id", "ID", "user_id"})}
	switch typ {
	case models.ShardHash, models.ShardMod, models.ShardRange:
		r.Slices = chooseSlices(t, name+"_sl", sliceNames, 1)
		r.Locations = genLocations(t, name, len(r.Slices), true)
		if typ == models.ShardRange {
			r.TableRowLimit = rapid.IntRange(1, 1000).Draw(t, name+"_limit")
		}
	case models.ShardYear, models.ShardMonth, models.ShardDay:
		r.Slices = chooseSlices(t, name+"_sl", sliceNames, 1)
		r.DateRange = dateRanges(t, name, typ, len(r.Slices))
	case models.ShardMycatMod, models.ShardMycatMURMUR:
		r.Slices = chooseSlices(t, name+"_sl", sliceNames, 1)
		r.Locations = genLocations(t, name, len(r.Slices), true)
		r.Databases = databaseList(t, name+"_db", db, sum(r.Locations))
		if typ == models.ShardMycatMURMUR {
			r.Seed = pick(t, name+"_seed", []string{"0", "123", "-7"})
			r.VirtualBucketTimes = pick(t, name+"_vbt", []string{"", "160", "16", "1"})
		}
	case models.ShardMycatLong, models.ShardMycatString:
		r.Slices = chooseSlices(t, name+"_sl", sliceNames, 1)
		for tries := 0; ; tries++ {
			r.Locations = genLocations(t, fmt.Sprintf("%s_t%d", name, tries), len(r.Slices), true)
			pc, pl, ok := partitionParams(t, fmt.Sprintf("%s_pp%d", name, tries), sum(r.Locations))
			if ok {
				r.PartitionCount, r.PartitionLength = pc, pl
				break
			}
			if tries > 4 { // cannot happen: n | 1024 or a two-segment solution exists for every n in 1..12
				r.Locations = make([]int, len(r.Slices))
				for i := range r.Locations {
					r.Locations[i] = 1
				}
				r.Locations[0] = 1 + (4 - len(r.Slices)%4)
				r.PartitionCount, r.PartitionLength = fmt.Sprint(sum(r.Locations)), fmt.Sprint(1024/sum(r.Locations))
				break
			}
		}
		r.Databases = databaseList(t, name+"_db", db, sum(r.Locations))
		if typ == models.ShardMycatString {
			r.HashSlice = pick(t, name+"_hs", HashSlices)
		}
	case models.ShardMycatPaddingMod:
		r.Slices = chooseSlices(t, name+"_sl", sliceNames, 1)
		r.Locations = genLocations(t, name, len(r.Slices), false)
		if sum(r.Locations) < 2 {
			r.Locations[0]++
		}
		r.Databases = databaseList(t, name+"_db", db, sum(r.Locations))
		r.PadFrom = pick(t, name+"_pf", []string{"0", "1"})
		begin := rapid.IntRange(0, 10).Draw(t, name+"_mb")
		end := begin + rapid.IntRange(1, 6).Draw(t, name+"_me")
		r.ModBegin, r.ModEnd = fmt.Sprint(begin), fmt.Sprint(end)
		r.PadLength = fmt.Sprint(end + rapid.IntRange(0, 4).Draw(t, name+"_pl"))
	case models.ShardGlobal:
		if rapid.Bool().Draw(t, name+"_all") {
			r.Slices = append([]string{}, sliceNames...)
		} else {
			r.Slices = chooseSlices(t, name+"_sl", sliceNames, 1)
		}
		r.Locations = make([]int, len(r.Slices))
		per := rapid.IntRange(1, 2).Draw(t, name+"_per")
		for i := range r.Locations {
			r.Locations[i] = per
		}
		if rapid.Bool().Draw(t, name+"_hasdb") {
			r.Databases = databaseList(t, name+"_db", db, sum(r.Locations))
		}
		r.Key = ""
	}
	return r
}

// Valid draws a namespace configuration that is valid by construction.
func Valid(t *rapid.T, name string) *models.Namespace {
	ns := &models.Namespace{Name: name, Online: true}
	nsl := rapid.IntRange(1, 4).Draw(t, "n_slices")
	var sliceNames []string
	for i := 0; i < nsl; i++ {
		s := genSlice(t, i)
		ns.Slices = append(ns.Slices, s)
		sliceNames = append(sliceNames, s.Name)
	}
	ns.DefaultSlice = pick(t, "default_slice", sliceNames)

	nu := rapid.IntRange(1, 3).Draw(t, "n_users")
	for i := 0; i < nu; i++ {
		u := &models.User{UserName: fmt.Sprintf("user%d", i), Password: fmt.Sprintf("pw%d", i),
			RWFlag:        rapid.IntRange(1, 2).Draw(t, fmt.Sprintf("u%d_rw", i)),
			RWSplit:       rapid.IntRange(0, 1).Draw(t, fmt.Sprintf("u%d_split", i)),
			OtherProperty: rapid.IntRange(0, 3).Draw(t, fmt.Sprintf("u%d_other", i))}
		if rapid.Bool().Draw(t, fmt.Sprintf("u%d_ns", i)) {
			u.Namespace = name
		}
		ns.Users = append(ns.Users, u)
	}

	ns.AllowedDBS = map[string]bool{}
	for _, d := range dbNames {
		ns.AllowedDBS[d] = true
	}
	if rapid.IntRange(0, 3).Draw(t, "logic_db") == 0 {
		ns.DefaultPhyDBS = map[string]string{}
		for _, d := range dbNames {
			ns.DefaultPhyDBS[d] = d + "_phy"
		}
	}
	switch rapid.IntRange(0, 3).Draw(t, "charset") {
	case 1:
		ns.DefaultCharset = "utf8mb4"
	case 2:
		ns.DefaultCharset, ns.DefaultCollation = "utf8mb4", "utf8mb4_general_ci"
	case 3:
		ns.DefaultCharset, ns.DefaultCollation = "gbk", "gbk_chinese_ci"
	}
	ns.SlowSQLTime = pick(t, "slow", []string{"", "100", "0"})
	ns.MaxSqlExecuteTime = pick(t, "maxexec", []int{0, 1000})
	ns.MaxSqlResultSize = pick(t, "maxres", []int{0, -1, 5000})
	ns.FuseEnabled = pick(t, "fuse", []string{"", "off", "on", "ON"})
	ns.FallbackToMasterOnSlaveFail = pick(t, "fallback", []string{"", "on", "off"})
	if rapid.IntRange(0, 3).Draw(t, "allow_ip") == 0 {
		ns.AllowedIP = []string{"127.0.0.1", "10.0.0.0/8", " "}
	}
	if rapid.IntRange(0, 3).Draw(t, "black") == 0 {
		ns.BlackSQL = []string{"delete from t where 1=1", ""}
	}

	nr := rapid.IntRange(0, 5).Draw(t, "n_rules")
	used := map[string]bool{} // db + lower(table)
	var parents []*models.Shard
	for i := 0; i < nr; i++ {
		rn := fmt.Sprintf("r%d", i)
		db := pick(t, rn+"_dbn", dbNames)
		var table string
		for tries := 0; tries < 20; tries++ {
			table = pick(t, fmt.Sprintf("%s_tbl%d", rn, tries), tableNames)
			if !used[db+"\x00"+strings.ToLower(table)] {
				break
			}
			table = ""
		}
		if table == "" {
			table = fmt.Sprintf("tbl_extra_%d", i)
		}
		used[db+"\x00"+strings.ToLower(table)] = true
		// a linked rule now and then, when a parent exists in the same db
		var cands []*models.Shard
		for _, p := range parents {
			if p.DB == db {
				cands = append(cands, p)
			}
		}
		if len(cands) > 0 && rapid.IntRange(0, 4).Draw(t, rn+"_linked") == 0 {
			p := pick(t, rn+"_parent", cands)
			ns.ShardRules = append(ns.ShardRules, &models.Shard{DB: db, Table: table, Type: models.ShardLinked, ParentTable: p.Table, Key: "id"})
			continue
		}
		typ := pick(t, rn+"_type", RuleTypes)
		r := genRule(t, rn, typ, db, table, sliceNames)
		ns.ShardRules = append(ns.ShardRules, r)
		if typ != models.ShardGlobal {
			parents = append(parents, r)
		}
	}
	// the order of list entries carries no meaning: children before their parents, rules of
	// different databases interleaved, slices and users in any order
	if len(ns.ShardRules) >= 2 && rapid.IntRange(0, 9).Draw(t, "permute_rules") < 6 {
		ns.ShardRules = permuted(t, "rules_order", ns.ShardRules)
	}
	if len(ns.Slices) >= 2 && rapid.IntRange(0, 9).Draw(t, "permute_slices") < 3 {
		ns.Slices = permuted(t, "slices_order", ns.Slices)
	}
	if len(ns.Users) >= 2 && rapid.IntRange(0, 9).Draw(t, "permute_users") < 3 {
		ns.Users = permuted(t, "users_order", ns.Users)
	}
	return ns
}

func permuted[T any](t *rapid.T, name string, xs []T) []T {
	idx := make([]int, len(xs))
	for i := range idx {
		idx[i] = i
	}
	out := make([]T, len(xs))
	for i, j := range rapid.Permutation(idx).Draw(t, name) {
		out[i] = xs[j]
	}
	return out
}

// ---- mutations ----

func flipCase(s string) string {
	b := []byte(s)
	for i, c := range b {
		switch {
		case c >= 'a' && c <= 'z':
			b[i] = c - 32
			return string(b)
		case c >= 'A' && c <= 'Z':
			b[i] = c + 32
			return string(b)
		}
	}
	return s + "X"
}

// Mutate applies one realistic edit to ns (in place) and returns its name.
// Edits that need a rule fall back to a namespace-level edit when there is none.
func Mutate(t *rapid.T, ns *models.Namespace, tag string) string {
	var rule *models.Shard
	var nonLinked []*models.Shard
	for _, r := range ns.ShardRules {
		if r.Type != models.ShardLinked {
			nonLinked = append(nonLinked, r)
		}
	}
	if len(nonLinked) > 0 {
		rule = pick(t, tag+"_rule", nonLinked)
	}
	kinds := []string{"default_slice_empty", "default_slice_unknown", "default_slice_case", "slice_name_dup", "slice_name_space",
		"user_dup", "users_empty", "user_rwflag", "down_after_negative", "slice_capacity"}
	if rule != nil {
		kinds = append(kinds,
			"loc_zero", "loc_zero_all", "loc_negative", "loc_drop", "loc_add", "loc_inc",
			"rule_slice_unknown", "rule_slice_drop", "rule_slice_dup", "rule_slices_empty",
			"db_range_reversed", "db_range_single", "db_drop", "db_dup", "db_on_plain_rule", "db_bad_on_plain_rule",
			"date_overlap", "date_descending", "date_malformed", "date_count",
			"partition_sum", "partition_blank", "partition_negative",
			"table_case_dup", "table_case_flip", "parent_case_flip", "linked_missing", "linked_to_linked", "linked_self", "linked_case_clash",
			"padding_short", "padding_begin_end", "type_unknown", "type_default", "row_limit_zero", "murmur_vbt", "murmur_seed", "hash_slice_bad",
			// the location edits are the heart of the property: weight them
			"loc_zero", "loc_negative", "loc_negative", "table_case_dup", "table_case_dup", "padding_short", "db_dup",
			"db_overlap", "db_overlap", "db_overlap", "date_touch", "date_touch", "date_touch", "child_first", "child_first", "children_around_parent")
	}
	k := pick(t, tag+"_kind", kinds)
	idx := func(n int, name string) int {
		if n <= 1 {
			return 0
		}
		return rapid.IntRange(0, n-1).Draw(t, tag+"_"+name)
	}
	switch k {
	case "default_slice_empty":
		ns.DefaultSlice = ""
	case "default_slice_unknown":
		ns.DefaultSlice = "slice-9"
	case "default_slice_case":
		ns.DefaultSlice = strings.ToUpper(ns.DefaultSlice)
	case "slice_name_dup":
		if len(ns.Slices) >= 2 {
			ns.Slices[1].Name = ns.Slices[0].Name
		} else {
			ns.Slices[0].Name = ""
		}
	case "slice_name_space":
		i := idx(len(ns.Slices), "si")
		old := ns.Slices[i].Name
		ns.Slices[i].Name = old + " "
		// the operator writes the same (padded) name everywhere
		if ns.DefaultSlice == old {
			ns.DefaultSlice = old + " "
		}
		for _, r := range ns.ShardRules {
			for j := range r.Slices {
				if r.Slices[j] == old {
					r.Slices[j] = old + " "
				}
			}
		}
	case "user_dup":
		if len(ns.Users) == 0 {
			break
		}
		ns.Users = append(ns.Users, &models.User{UserName: ns.Users[0].UserName, Password: "other", RWFlag: 2})
	case "users_empty":
		ns.Users = nil
	case "user_rwflag":
		if len(ns.Users) > 0 {
			ns.Users[0].RWFlag = 0
		}
	case "down_after_negative":
		ns.DownAfterNoAlive = -1
	case "slice_capacity":
		ns.Slices[0].Capacity = ns.Slices[0].MaxCapacity + 1
	case "loc_zero":
		if len(rule.Locations) > 0 {
			rule.Locations[idx(len(rule.Locations), "li")] = 0
		}
	case "loc_zero_all":
		for i := range rule.Locations {
			rule.Locations[i] = 0
		}
		if rule.Databases != nil {
			rule.Databases = []string{}
		}
	case "loc_negative":
		if len(rule.Locations) > 0 {
			i := idx(len(rule.Locations), "li")
			neg := rapid.IntRange(1, 3).Draw(t, tag+"_neg")
			rule.Locations[i] = -neg
			// keep the total consistent with the database list, as an operator "correcting" a count would
			if len(rule.Locations) > 1 && rapid.Bool().Draw(t, tag+"_comp") {
				j := (i + 1) % len(rule.Locations)
				rule.Locations[j] += neg + 1
			}
		}
	case "loc_drop":
		if len(rule.Locations) > 0 {
			rule.Locations = rule.Locations[:len(rule.Locations)-1]
		}
	case "loc_add":
		rule.Locations = append(rule.Locations, 1)
	case "loc_inc":
		if len(rule.Locations) > 0 {
			rule.Locations[idx(len(rule.Locations), "li")]++
		}
	case "rule_slice_unknown":
		if len(rule.Slices) > 0 {
			rule.Slices[idx(len(rule.Slices), "ri")] = "slice-9"
		}
	case "rule_slice_drop":
		if len(rule.Slices) > 0 {
			rule.Slices = rule.Slices[:len(rule.Slices)-1]
		}
	case "rule_slice_dup":
		if len(rule.Slices) >= 2 {
			rule.Slices[1] = rule.Slices[0]
		}
	case "rule_slices_empty":
		rule.Slices = nil
		rule.Locations = nil
		rule.DateRange = nil
		if rule.Databases != nil {
			rule.Databases = nil
		}
	case "db_range_reversed":
		rule.Databases = []string{rule.DB + "_[3-1]"}
	case "db_range_single":
		rule.Databases = []string{rule.DB + "_[2-2]"}
	case "db_drop":
		if len(rule.Databases) > 0 {
			rule.Databases = rule.Databases[:len(rule.Databases)-1]
		}
	case "db_dup":
		n := sum(rule.Locations)
		if n >= 2 && n <= 64 {
			rule.Databases = nil
			for i := 0; i < n; i++ {
				rule.Databases = append(rule.Databases, fmt.Sprintf("%s_%d", rule.DB, i))
			}
			rule.Databases[n-1] = rule.Databases[0]
		}
	case "db_overlap":
		// entries that are pairwise different as written but name the same database after expansion
		var cands []*models.Shard
		for _, r := range nonLinked { // prefer a rule whose database list matters
			if (strings.HasPrefix(r.Type, "mycat_") || r.Type == models.ShardGlobal) && sum(r.Locations) >= 3 {
				cands = append(cands, r)
			}
		}
		if len(cands) > 0 {
			rule = pick(t, tag+"_ovr", cands)
		}
		if dbs := OverlappingDatabases(t, tag+"_ov", rule.DB, sum(rule.Locations)); dbs != nil {
			rule.Databases = dbs
		}
	case "db_on_plain_rule":
		rule.Databases = []string{rule.DB + "_[0-3]"}
	case "db_bad_on_plain_rule":
		rule.Databases = []string{rule.DB + pick(t, tag+"_bad", []string{"_[3-1]", "_[2-2]", "_[5-0]"})}
	case "date_overlap":
		if len(rule.DateRange) >= 2 {
			rule.DateRange[1] = rule.DateRange[0]
		} else if len(rule.DateRange) == 1 {
			rule.DateRange[0] = rule.DateRange[0] + "-" + rule.DateRange[0]
		}
	case "date_touch":
		// consecutive entries that share exactly their boundary period:
		// ["201801-201806","201806-201812"], or a single period repeated as the next entry's start
		var cands []*models.Shard
		for _, r := range nonLinked {
			if len(r.DateRange) >= 2 && (r.Type == models.ShardYear || r.Type == models.ShardMonth || r.Type == models.ShardDay) {
				cands = append(cands, r)
			}
		}
		if len(cands) > 0 {
			rule = pick(t, tag+"_tr", cands)
			i := 1 + idx(len(rule.DateRange)-1, "ti") // first pair, a middle pair or the last pair
			bounds := func(e string) (string, string) {
				p := strings.SplitN(e, "-", 2)
				if len(p) == 1 {
					return p[0], p[0]
				}
				if p[1] < p[0] {
					return p[1], p[0]
				}
				return p[0], p[1]
			}
			_, prevEnd := bounds(rule.DateRange[i-1])
			_, curEnd := bounds(rule.DateRange[i])
			switch {
			case curEnd > prevEnd && rapid.IntRange(0, 3).Draw(t, tag+"_tform") > 0:
				rule.DateRange[i] = prevEnd + "-" + curEnd
			case curEnd > prevEnd && rapid.Bool().Draw(t, tag+"_trev"):
				rule.DateRange[i] = curEnd + "-" + prevEnd // written backwards, still starts at the shared period
			default:
				rule.DateRange[i] = prevEnd // the boundary period alone
			}
		}
	case "date_descending":
		if len(rule.DateRange) >= 2 {
			rule.DateRange[0], rule.DateRange[1] = rule.DateRange[1], rule.DateRange[0]
		}
	case "date_malformed":
		if len(rule.DateRange) > 0 {
			i := idx(len(rule.DateRange), "di")
			rule.DateRange[i] = pick(t, tag+"_mal", []string{"", "2016-", "-2016", "20161", "201613", "20160230", "2016-2017-2018", "abcd", "2016,2017", " 2016", "201601-201513", "20160101-2016"})
		}
	case "date_count":
		rule.DateRange = append(rule.DateRange, "2030")
	case "partition_sum":
		rule.PartitionCount = pick(t, tag+"_pc", []string{"1", "3", "2,2", "8"})
	case "partition_blank":
		if rapid.Bool().Draw(t, tag+"_which") {
			rule.PartitionCount = pick(t, tag+"_pb", []string{"", " ", ",", "2,"})
		} else {
			rule.PartitionLength = pick(t, tag+"_pb", []string{"", " ", ",", "512,"})
		}
	case "partition_negative":
		rule.PartitionCount, rule.PartitionLength = pick(t, tag+"_pn", []string{"3,-1", "-1,3", "0,2"}), "512,0"
	case "table_case_dup":
		// a second rule whose table differs from an existing one only in letter case
		c := *rule
		c.Locations, c.Slices, c.DateRange, c.Databases = cpInts(rule.Locations), cpStrs(rule.Slices), cpStrs(rule.DateRange), cpStrs(rule.Databases)
		c.Table = flipCase(rule.Table)
		ns.ShardRules = append(ns.ShardRules, &c)
	case "table_case_flip":
		rule.Table = flipCase(rule.Table)
	case "parent_case_flip":
		for _, r := range ns.ShardRules {
			if r.Type == models.ShardLinked {
				r.ParentTable = flipCase(r.ParentTable)
				break
			}
		}
	case "child_first":
		// a linked child listed before its parent (a new one when the namespace has none)
		child := &models.Shard{DB: rule.DB, Table: "tbl_child_first", Type: models.ShardLinked, ParentTable: rule.Table, Key: "id"}
		var rest []*models.Shard
		found := false
		for _, r := range ns.ShardRules {
			if !found && r.Type == models.ShardLinked {
				child, found = r, true
				continue
			}
			rest = append(rest, r)
		}
		ns.ShardRules = append([]*models.Shard{child}, rest...)
	case "children_around_parent":
		// two children of one parent on both sides of it, an unrelated rule in between when there is one
		var rest []*models.Shard
		for _, r := range ns.ShardRules {
			if r != rule {
				rest = append(rest, r)
			}
		}
		c1 := &models.Shard{DB: rule.DB, Table: "tbl_child_before", Type: models.ShardLinked, ParentTable: rule.Table, Key: "id"}
		c2 := &models.Shard{DB: rule.DB, Table: "tbl_child_after", Type: models.ShardLinked, ParentTable: rule.Table, Key: "id"}
		out := []*models.Shard{c1}
		if len(rest) > 0 {
			out = append(out, rest[0])
			rest = rest[1:]
		}
		out = append(out, rule, c2)
		ns.ShardRules = append(out, rest...)
	case "linked_missing":
		ns.ShardRules = append(ns.ShardRules, &models.Shard{DB: rule.DB, Table: "tbl_child_m", Type: models.ShardLinked, ParentTable: "no_such_table", Key: "id"})
	case "linked_to_linked":
		ns.ShardRules = append(ns.ShardRules,
			&models.Shard{DB: rule.DB, Table: "tbl_child_1", Type: models.ShardLinked, ParentTable: rule.Table, Key: "id"},
			&models.Shard{DB: rule.DB, Table: "tbl_child_2", Type: models.ShardLinked, ParentTable: "tbl_child_1", Key: "id"})
	case "linked_self":
		ns.ShardRules = append(ns.ShardRules, &models.Shard{DB: rule.DB, Table: "tbl_self", Type: models.ShardLinked, ParentTable: "tbl_self", Key: "id"})
	case "linked_case_clash":
		// a linked table whose name is a case variant of its own parent
		ns.ShardRules = append(ns.ShardRules, &models.Shard{DB: rule.DB, Table: flipCase(rule.Table), Type: models.ShardLinked, ParentTable: rule.Table, Key: "id"})
	case "padding_short":
		for _, r := range nonLinked { // prefer a padding rule when the namespace has one
			if r.Type == models.ShardMycatPaddingMod {
				rule = r
				break
			}
		}
		if rule.Type == models.ShardMycatPaddingMod {
			rule.PadLength = pick(t, tag+"_pl", []string{"1", "2", "6"})
			rule.ModBegin, rule.ModEnd = "10", "16"
		} else {
			rule.PadLength = "6"
		}
	case "padding_begin_end":
		rule.ModBegin, rule.ModEnd = "5", "5"
	case "type_unknown":
		rule.Type = pick(t, tag+"_ty", []string{"", "Hash", "mycat", "date"})
	case "type_default":
		rule.Type = models.ShardDefault
	case "row_limit_zero":
		rule.TableRowLimit = pick(t, tag+"_rl", []int{0, -5})
	case "murmur_vbt":
		rule.VirtualBucketTimes = pick(t, tag+"_vb", []string{"0", "-1", "x"})
	case "murmur_seed":
		rule.Seed = pick(t, tag+"_sd", []string{"", "x", "1.5"})
	case "hash_slice_bad":
		rule.HashSlice = pick(t, tag+"_hs", []string{"", "a", "1:2:3", "1:b", " 2 ", "100", "-100:"})
	}
	return k
}
