// Package healthfix runs histories of fuse events and health-check rounds
// against Gaea's real backend.Slice.TryFuse / TryRecover (replica status
// machine) over scripted fake pools and a fake clock, and judges every step
// with a reference model written from the statements of properties C27 and C28.
//
// The clock hook (backend.VerifSetClock, build tag verif) is process-global:
// Run installs it, restores it before returning and must never be called
// concurrently.
package healthfix

import (
	"errors"
	"fmt"
	"time"

	"github.com/XiaoMi/Gaea/backend"
	"github.com/XiaoMi/Gaea/mysql"
	"verifharness/internal/fakepool"
)

// HealthSQL is the configured health statement when Config.HealthSQL is set.
const HealthSQL = "select /* gaea health */ 1 from dual"

// T0 is the fake time at which every history starts.
const T0 int64 = 1_700_000_000

// Config is the static part of a history.
type Config struct {
	Policy     string `json:"policy"`             // none | hard | gradual
	Cooldown   int64  `json:"cooldown"`           // hard policy: cool-down seconds (>0)
	FuseWindow int64  `json:"fuse_window"`        // sliding window seconds
	FuseMinErr int64  `json:"fuse_min_err"`       // errors in the window that trip the breaker
	DownAfter  int    `json:"down_after"`         // down_after_no_alive seconds
	SBM        int    `json:"sbm"`                // seconds_behind_master limit, 0 = replication not checked
	HealthSQL  bool   `json:"health_sql"`         // a health statement is configured
	StartDown  bool   `json:"start_down"`         // the replica starts in state down (not fused)
	Replicas   int    `json:"replicas,omitempty"` // replicas in the group (Slice.Slave), 0 = 1; their strategies come from one DBInfo.InitFuseRecoveryPolicy call
}

// Probe scripts the health probe of one round.
type Probe struct {
	GetCheck string `json:"getcheck,omitempty"`  // "" ok | "err"
	Health   string `json:"health,omitempty"`    // "" ok | soft | soft1ok | shutdown | ts_missing | ts_discarded | timeout   (only with Config.HealthSQL)
	PingFail int    `json:"ping_fail,omitempty"` // 0 never, 1-4 fails at that repeat only, 5 always
	SelFail  int    `json:"sel_fail,omitempty"`  // same for "select 1"
}

// Repl scripts SHOW SLAVE STATUS of one round.
type Repl struct {
	Kind string `json:"kind,omitempty"` // "" row | empty | noprivilege | error
	Lag  int64  `json:"lag"`            // Seconds_Behind_Master; -1 = NULL
	IO   string `json:"io,omitempty"`   // "" = Yes
	SQL  string `json:"sql,omitempty"`  // "" = Yes
}

// Op is one step of a history.
type Op struct {
	K    string `json:"k"`              // adv | fuse | round
	Node int    `json:"node,omitempty"` // fuse, round: replica index (taken modulo Config.Replicas)
	Dt   int64  `json:"dt,omitempty"`   // seconds the clock advances before the op (before every repeat for rounds)
	N    int    `json:"n,omitempty"`    // repeats (fuse: TryFuse calls at the same instant; round: identical rounds); 0 = 1
	// fuse
	Err string `json:"err,omitempty"` // conn | sql | generic | nil
	Via string `json:"via,omitempty"` // "" TryFuse | getconn (a failing ConnPool.Get under GetSlaveConn)
	// round
	Probe   Probe  `json:"probe,omitempty"`
	Repl    Repl   `json:"repl,omitempty"`
	Master  string `json:"master,omitempty"`   // "" up | down | missing
	UntilUp bool   `json:"until_up,omitempty"` // stop repeating once the replica is up
}

// Step is the judged outcome of one TryFuse call or one TryRecover round.
type Step struct {
	Op        int    // index into the ops
	Node      int    // replica the step acted on
	Rep       int    // repeat number within the op
	T         int64  // fake time, seconds since T0
	Kind      string // fuse | round
	Before    bool   // replica up before the step
	After     bool   // replica up after the step (observed)
	AllowUp   bool   // the reference permits "up" after the step
	AllowDown bool   // the reference permits "down" after the step
	Cat       string // which rule of the reference decided
	Why       string // human-readable reason
	// facts about the step, for labels and classifiers
	ProbePass bool
	Master    string // up | down | missing
	Repl      string // healthy | unhealthy | error | disabled | notrun
	FusedDown bool   // before the step the replica was down because the breaker took it down
	GateHolds bool   // hard policy: cool-down since the latest fuse is over
	FullPass  bool   // round in which probe, master and replication all allow a recovery
}

// Deviates reports whether the observed status is outside the reference.
func (s Step) Deviates() bool { return (s.After && !s.AllowUp) || (!s.After && !s.AllowDown) }

func (s Step) String() string {
	st := func(b bool) string {
		if b {
			return "up"
		}
		return "down"
	}
	allowed := "up or down"
	if !s.AllowUp {
		allowed = "down"
	} else if !s.AllowDown {
		allowed = "up"
	}
	return fmt.Sprintf("op %d replica %d rep %d t=+%ds %s [%s]: %s -> %s, reference allows %s (%s; probe_pass=%v master=%s repl=%s fused_down=%v)",
		s.Op, s.Node, s.Rep, s.T, s.Kind, s.Cat, st(s.Before), st(s.After), allowed, s.Why, s.ProbePass, s.Master, s.Repl, s.FusedDown)
}

// Episode is one breaker episode under the gradual policy: from the fuse that
// took the replica down to the round that marked it up again.
type Episode struct {
	Node        int   // replica
	FuseT       int64 // time of the fuse
	Gap         int64 // seconds since the previous recovery (-1: none before)
	SinceStart  int64 // seconds since the strategy was created
	R           int   // length of the final uninterrupted run of full-pass rounds, the last of which marked the replica up
	MaxPrior    int   // longest earlier run of full-pass rounds that did not suffice
	Interrupted bool  // a failed probe occurred during the episode
	Tainted     bool  // neutral rounds (master down, replication unhealthy) occurred: runs not comparable
	Recovered   bool
	PrevFuse    bool // the previous recovery ended a (recovered, untainted) fuse episode and nothing else marked the node up in between
	PrevR       int
	EndStep     int
}

// Issue is a violation of an episode-level invariant of the gradual policy.
type Issue struct {
	Cat    string
	Step   int
	Detail string
}

// Trace is everything Run observed.
type Trace struct {
	Steps    []Step
	Episodes []Episode
	Issues   []Issue
	Other    []string // changes of the bystander replica or of the master (must stay empty)
	Panic    string
}

// ---- reference pieces written from the statements ----

// ProbePasses: a probe passes iff a check connection is obtained and either the
// configured health statement succeeds, or (no health statement / it failed
// with an ordinary error) every repeat of ping and "select 1" succeeds. Server
// shutdown, missing/discarded tablespace and a timeout of the health statement
// fail the probe outright.
func ProbePasses(cfg Config, p Probe) bool {
	if p.GetCheck != "" {
		return false
	}
	if cfg.HealthSQL {
		switch p.Health {
		case "":
			return true
		case "soft":
		case "soft1ok": // first attempt fails softly, the second succeeds: only the first repeat of ping/select matters
			return p.PingFail != 1 && p.PingFail != 5 && p.SelFail != 1 && p.SelFail != 5
		default:
			return false
		}
	}
	return p.PingFail == 0 && p.SelFail == 0
}

// ReplVerdict: healthy | unhealthy | unknown | error | disabled.
func ReplVerdict(cfg Config, r Repl) string {
	if cfg.SBM == 0 {
		return "disabled"
	}
	switch r.Kind {
	case "empty", "noprivilege":
		return "healthy" // cannot be a replica we are allowed to judge: check skipped
	case "error":
		return "error"
	}
	if r.Lag > int64(cfg.SBM) {
		return "unhealthy"
	}
	if (r.IO != "" && r.IO != "Yes") || (r.SQL != "" && r.SQL != "Yes") {
		return "unhealthy" // also with NULL lag: a stopped or connecting thread marks the replica down
	}
	if r.Lag < 0 {
		return "unknown" // NULL lag although both threads report Yes: MySQL does not produce it; not judged
	}
	return "healthy"
}

func isConnErr(kind string) bool { return kind == "conn" }

// ---- system under test ----

type env struct {
	cfg   Config
	now   int64
	slice *backend.Slice
	nodes []*backend.NodeInfo // replicas of the group under test (Slice.Slave)
	pools []*fakepool.Pool
	by    *backend.NodeInfo // bystander in another group (Slice.StatisticSlave)
	mnode *backend.NodeInfo

	getTarget *fakepool.Pool // the pool whose Get fails with getErr

	cur                     *Op
	healthN, pingN, selectN int
	getErr                  error
}

func failsAt(spec, k int) bool { return spec == 5 || (spec >= 1 && spec <= 4 && spec-1 == k) }

func slaveStatusResult(r Repl) *mysql.Result {
	names := []string{"Seconds_Behind_Master", "Slave_IO_Running", "Slave_SQL_Running", "Master_Log_File", "Read_Master_Log_Pos", "Relay_Master_Log_File", "Exec_Master_Log_Pos"}
	rs := &mysql.Resultset{FieldNames: map[string]int{}}
	for i, n := range names {
		rs.Fields = append(rs.Fields, &mysql.Field{Name: []byte(n)})
		rs.FieldNames[n] = i
	}
	if r.Kind == "empty" {
		return &mysql.Result{Status: 2, Resultset: rs}
	}
	var lag interface{}
	if r.Lag >= 0 {
		lag = uint64(r.Lag)
	}
	io, sq := r.IO, r.SQL
	if io == "" {
		io = "Yes"
	}
	if sq == "" {
		sq = "Yes"
	}
	rs.Values = [][]interface{}{{lag, io, sq, "mysql-bin.000042", uint64(4711), "mysql-bin.000042", uint64(4711)}}
	return &mysql.Result{Status: 2, Resultset: rs}
}

func newEnv(cfg Config) (*env, error) {
	e := &env{cfg: cfg, now: T0}
	backend.VerifSetClock(func() time.Time { return time.Unix(e.now, 0) })
	clock := func() int64 { return e.now }
	mp := fakepool.New("10.1.0.1:3306", &fakepool.Options{Clock: clock})
	mp.SetLastCheckedAt(T0)
	bp := fakepool.New("10.1.0.3:3306", &fakepool.Options{Clock: clock})
	bp.SetLastCheckedAt(T0)

	nrep := cfg.Replicas
	if nrep <= 0 {
		nrep = 1
	}
	st := backend.StatusUp
	if cfg.StartDown {
		st = backend.StatusDown
	}
	for i := 0; i < nrep; i++ {
		p := fakepool.New(fmt.Sprintf("10.1.1.%d:3306", i+1), &fakepool.Options{Clock: clock})
		p.SetLastCheckedAt(T0)
		p.OnGetCheck = func(_ *fakepool.Pool, n int) error {
			if e.cur != nil && e.cur.Probe.GetCheck != "" {
				return errors.New("get check conn: timeout")
			}
			return nil
		}
		p.OnPing = func(c *fakepool.Conn) error {
			k := e.pingN
			e.pingN++
			if e.cur != nil && failsAt(e.cur.Probe.PingFail, k) {
				return errors.New("ping: i/o timeout")
			}
			return nil
		}
		p.OnExec = func(c *fakepool.Conn, sql string) (*mysql.Result, error) {
			if e.cur == nil {
				return &mysql.Result{}, nil
			}
			switch sql {
			case "show slave status;":
				switch e.cur.Repl.Kind {
				case "noprivilege":
					return nil, mysql.NewError(mysql.ErrSpecificAccessDenied, "Access denied; you need (at least one of) the SUPER, REPLICATION CLIENT privilege(s) for this operation")
				case "error":
					return nil, errors.New("read: connection reset by peer")
				}
				return slaveStatusResult(e.cur.Repl), nil
			case "select 1":
				k := e.selectN
				e.selectN++
				if failsAt(e.cur.Probe.SelFail, k) {
					return nil, errors.New("select 1: i/o timeout")
				}
				return &mysql.Result{}, nil
			case HealthSQL:
				k := e.healthN
				e.healthN++
				switch e.cur.Probe.Health {
				case "":
					return &mysql.Result{}, nil
				case "soft":
					return nil, mysql.NewError(mysql.ErrNoSuchTable, "Table 'health.t' doesn't exist")
				case "soft1ok":
					if k == 0 {
						return nil, mysql.NewError(mysql.ErrNoSuchTable, "Table 'health.t' doesn't exist")
					}
					return &mysql.Result{}, nil
				case "shutdown":
					return nil, mysql.NewError(mysql.ErrServerShutdown, "Server shutdown in progress")
				case "ts_missing":
					return nil, mysql.NewError(mysql.ErrTablespaceMissing, "Tablespace is missing for table health.t")
				case "ts_discarded":
					return nil, mysql.NewError(mysql.ErrTablespaceDiscarded, "Tablespace has been discarded for table 't'")
				case "timeout":
					return nil, backend.ErrExecuteTimeout
				}
			}
			return &mysql.Result{}, nil
		}
		p.OnGet = func(q *fakepool.Pool, n int) error {
			if q == e.getTarget {
				return e.getErr
			}
			return nil
		}

		e.pools = append(e.pools, p)
		e.nodes = append(e.nodes, &backend.NodeInfo{Address: p.Addr(), Weight: 1, ConnPool: p, Status: st})
	}
	e.mnode = fakepool.Node(mp, 1)
	e.by = fakepool.Node(bp, 1)
	s := &backend.Slice{Namespace: "healthfix"}
	s.Cfg.Name = backend.DefaultSlice
	if cfg.HealthSQL {
		s.HealthCheckSql = HealthSQL
	}
	s.Master = &backend.DBInfo{Nodes: []*backend.NodeInfo{e.mnode}}
	s.Slave = &backend.DBInfo{Nodes: e.nodes}
	s.StatisticSlave = &backend.DBInfo{Nodes: []*backend.NodeInfo{e.by}}
	if err := s.Slave.InitBalancers(""); err != nil {
		return nil, err
	}
	s.FuseEnabled = "on"
	s.FuseWindowSize, s.FuseMinErrorCount = cfg.FuseWindow, cfg.FuseMinErr
	switch cfg.Policy {
	case "hard":
		s.FuseCooldownPeriod = cfg.Cooldown
	case "gradual":
		s.FuseCooldownPeriod = 0
	}
	if cfg.Policy != "none" {
		if err := s.InitFuseRecoveryPolicy(s.Slave); err != nil {
			return nil, err
		}
		if err := s.InitFuseRecoveryPolicy(s.StatisticSlave); err != nil {
			return nil, err
		}
	}
	e.slice = s
	return e, nil
}

func fuseErr(kind, addr string) error {
	switch kind {
	case "conn":
		return mysql.NewConnTypeError(addr, "dial tcp: i/o timeout")
	case "sql":
		return mysql.NewError(mysql.ErrNoSuchTable, "Table 'x' doesn't exist")
	case "generic":
		return errors.New("pool timeout")
	}
	return nil
}

// Caps of the gradual policy that the reference is allowed to know (DESIGN C27):
// "soon" = within two ping periods, and the penalty never exceeds 120 rounds.
const (
	soonSec  = 2 * 4
	maxRuns  = 121
	neverSet = int64(-1 << 60)
)

// Run interprets the history against Gaea and the reference.
func Run(cfg Config, ops []Op) (tr Trace) {
	defer backend.VerifSetClock(nil)
	defer func() {
		if r := recover(); r != nil {
			tr.Panic = fmt.Sprint(r)
		}
	}()
	e, err := newEnv(cfg)
	if err != nil {
		tr.Panic = "setup: " + err.Error()
		return
	}
	// reference state, independent per replica
	type refState struct {
		tOK       int64
		tFuse     int64
		fusedDown bool
		events    []int64 // times of recorded connection errors
		// gradual bookkeeping
		ep               *Episode
		curRun           int
		downRun          int // consecutive full-pass rounds while down (any reason), for the liveness bound
		lastRecovery     int64
		lastRecoveryFuse bool
		lastRecoveryR    int
	}
	refs := make([]*refState, len(e.nodes))
	for i := range refs {
		refs[i] = &refState{tOK: T0, tFuse: neverSet, lastRecovery: neverSet}
	}
	others := func(ni int, before []bool, where string) {
		if !e.by.IsStatusUp() {
			tr.Other = append(tr.Other, where+": the bystander replica of another group (never probed, never fused) changed to down")
			e.by.SetStatusUp()
		}
		for j, nd := range e.nodes {
			if j != ni && nd.IsStatusUp() != before[j] {
				tr.Other = append(tr.Other, fmt.Sprintf("%s: replica %d of the same group changed its status although the step acted on replica %d", where, j, ni))
			}
		}
	}
	snapshot := func() []bool {
		b := make([]bool, len(e.nodes))
		for j, nd := range e.nodes {
			b[j] = nd.IsStatusUp()
		}
		return b
	}

	for oi := range ops {
		op := ops[oi]
		ni := ((op.Node % len(e.nodes)) + len(e.nodes)) % len(e.nodes)
		node, pool, r := e.nodes[ni], e.pools[ni], refs[ni]
		up := func() bool { return node.IsStatusUp() }
		n := op.N
		if n <= 0 {
			n = 1
		}
		switch op.K {
		case "adv":
			if op.Dt > 0 {
				e.now += op.Dt
			}
		case "fuse":
			if op.Dt > 0 {
				e.now += op.Dt
			}
			for rep := 0; rep < n; rep++ {
				before := snapshot()
				st := Step{Op: oi, Node: ni, Rep: rep, T: e.now - T0, Kind: "fuse", Before: up(), FusedDown: r.fusedDown, Master: "n/a", Repl: "n/a"}
				ferr := fuseErr(op.Err, pool.Addr())
				delivered := true
				if op.Via == "getconn" {
					// the error reaches TryFuse only if the balancer hands out this replica
					delivered = st.Before
					e.getErr, e.getTarget = ferr, pool
					g0 := pool.Count("get") + pool.Count("get_err")
					for try := 0; try < 2*len(e.nodes)+2; try++ {
						pc, _ := e.slice.GetSlaveConn(e.slice.Slave, backend.LocalSlaveReadClosed)
						if pc != nil {
							pc.Recycle()
						}
						if !delivered || pool.Count("get")+pool.Count("get_err") > g0 {
							break
						}
					}
					e.getErr, e.getTarget = nil, nil
				} else {
					e.slice.TryFuse(node, ferr)
				}
				st.After = up()
				trigger := false
				if delivered && cfg.Policy != "none" && isConnErr(op.Err) {
					r.events = append(r.events, e.now)
					cnt := int64(0)
					for _, t := range r.events {
						if t > e.now-cfg.FuseWindow && t <= e.now {
							cnt++
						}
					}
					trigger = cfg.FuseWindow > 0 && cfg.FuseMinErr > 0 && cnt >= cfg.FuseMinErr
				}
				switch {
				case trigger:
					st.Cat, st.Why = "fuse_trigger", "connection errors in the window reached the threshold"
					st.AllowDown = true
				case cfg.Policy == "none" || !isConnErr(op.Err) || !delivered:
					st.Cat, st.Why = "fuse_no_event", "no breaker configured, or not a connection error"
					st.AllowUp, st.AllowDown = st.Before, !st.Before
				default:
					st.Cat, st.Why = "fuse_below_threshold", "connection errors in the window below the threshold"
					st.AllowUp, st.AllowDown = st.Before, !st.Before
				}
				if trigger {
					r.tFuse = e.now
					if st.Before {
						r.fusedDown = true
					}
				}
				if st.Before && !st.After && trigger && cfg.Policy == "gradual" {
					ne := Episode{Node: ni, FuseT: e.now, Gap: -1, SinceStart: e.now - T0}
					if r.lastRecovery != neverSet {
						ne.Gap = e.now - r.lastRecovery
						ne.PrevFuse, ne.PrevR = r.lastRecoveryFuse, r.lastRecoveryR
					}
					r.ep = &ne
					r.curRun = 0
				}
				if st.After {
					r.fusedDown = false
				}
				tr.Steps = append(tr.Steps, st)
				others(ni, before, st.String())
			}
		case "round":
			switch op.Master {
			case "down":
				e.mnode.SetStatusDown()
				e.slice.Master.Nodes = []*backend.NodeInfo{e.mnode}
			case "missing":
				e.slice.Master.Nodes = []*backend.NodeInfo{}
			default:
				e.mnode.SetStatusUp()
				e.slice.Master.Nodes = []*backend.NodeInfo{e.mnode}
			}
			mst := op.Master
			if mst == "" {
				mst = "up"
			}
			for rep := 0; rep < n; rep++ {
				if op.UntilUp && up() && rep > 0 {
					break
				}
				if op.Dt > 0 {
					e.now += op.Dt
				}
				before := snapshot()
				st := Step{Op: oi, Node: ni, Rep: rep, T: e.now - T0, Kind: "round", Before: up(), FusedDown: r.fusedDown, Master: mst}
				e.cur, e.healthN, e.pingN, e.selectN = &ops[oi], 0, 0, 0
				rerr := e.slice.TryRecover(node, cfg.DownAfter, cfg.SBM)
				e.cur = nil
				st.After = up()
				if rerr != nil {
					tr.Other = append(tr.Other, fmt.Sprintf("op %d: TryRecover returned %v", oi, rerr))
				}
				if mst != "missing" && (mst == "up") != e.mnode.IsStatusUp() {
					tr.Other = append(tr.Other, fmt.Sprintf("op %d: a replica round changed the master's status", oi))
				}

				// ---- reference ----
				p := ProbePasses(cfg, op.Probe)
				st.ProbePass = p
				if p {
					r.tOK = e.now
				}
				st.GateHolds = r.tFuse == neverSet || e.now >= r.tFuse+cfg.Cooldown
				st.Repl = "notrun"
				switch {
				case e.now-r.tOK >= int64(cfg.DownAfter):
					st.Cat, st.Why = "noalive", fmt.Sprintf("no probe passed for %ds >= down_after %ds", e.now-r.tOK, cfg.DownAfter)
					st.AllowDown = true
				case mst != "up":
					switch {
					case !p:
						st.Cat, st.Why = "masterdown_probefail", "probe failed (master not up): status must not change"
						st.AllowUp, st.AllowDown = st.Before, !st.Before
					case st.Before:
						st.Cat, st.Why = "masterdown_stay_up", "probe passed, replication cannot be judged: stays up"
						st.AllowUp = true
					case cfg.Policy == "hard" && r.fusedDown && !st.GateHolds:
						st.Cat, st.Why = "masterdown_gate", fmt.Sprintf("fused %ds ago, cool-down %ds not over", e.now-r.tFuse, cfg.Cooldown)
						st.AllowDown = true
					default:
						st.Cat, st.Why = "masterdown_probeok", "probe passed while the master is not up: statement silent, either accepted"
						st.AllowUp, st.AllowDown = true, true
					}
				case !p:
					st.Cat, st.Why = "probefail_keep", "probe failed within down_after: status must not change"
					st.AllowUp, st.AllowDown = st.Before, !st.Before
				default:
					st.Repl = ReplVerdict(cfg, op.Repl)
					switch st.Repl {
					case "unhealthy":
						st.Cat, st.Why = "repl_down", "replication lag over the limit or a replication thread stopped"
						st.AllowDown = true
					case "unknown":
						st.Cat, st.Why = "repl_null_lag_running_threads", "NULL lag with both threads running: either accepted"
						st.AllowDown, st.AllowUp = true, true
					case "error":
						st.Cat, st.Why = "repl_error", "SHOW SLAVE STATUS failed: not up unless it was up; down accepted"
						st.AllowDown, st.AllowUp = true, st.Before
					default:
						st.FullPass = true
						switch {
						case st.Before:
							st.Cat, st.Why = "healthy_stay_up", "probe passed and replication healthy"
							st.AllowUp = true
						case cfg.Policy == "none":
							st.Cat, st.Why = "recover", "probe passed and replication healthy: marked up"
							st.AllowUp = true
						case cfg.Policy == "hard":
							switch {
							case st.GateHolds:
								st.Cat, st.Why = "hard_recover", "cool-down since the latest fuse is over and the probe passed: marked up"
								st.AllowUp = true
							case r.fusedDown:
								st.Cat, st.Why = "hard_gate", fmt.Sprintf("fused %ds ago, cool-down %ds not over", e.now-r.tFuse, cfg.Cooldown)
								st.AllowDown = true
							default:
								st.Cat, st.Why = "hard_gate_ambiguous", "down for another reason, breaker tripped while down: either accepted"
								st.AllowUp, st.AllowDown = true, true
							}
						default: // gradual: judged by the episode invariants
							st.Cat, st.Why = "gradual_round", "gradual policy: judged per episode"
							st.AllowUp, st.AllowDown = true, true
						}
					}
				}
				// ---- gradual episode bookkeeping (on the observed trajectory) ----
				if cfg.Policy == "gradual" && !st.Before {
					switch {
					case st.FullPass:
						r.downRun++
						if r.downRun >= maxRuns && !st.After {
							tr.Issues = append(tr.Issues, Issue{Cat: "gradual_never_recovers", Step: len(tr.Steps),
								Detail: fmt.Sprintf("%d consecutive rounds with passing probe, master up and healthy replication and the replica is still down", r.downRun)})
							r.downRun = 0
						}
					default:
						r.downRun = 0
					}
					if r.ep != nil {
						switch {
						case st.FullPass:
							r.curRun++
						case !p:
							if r.curRun > r.ep.MaxPrior {
								r.ep.MaxPrior = r.curRun
							}
							r.curRun = 0
							r.ep.Interrupted = true
						default:
							r.ep.Tainted = true
							r.curRun = 0
						}
					}
				}
				if cfg.Policy == "gradual" && !st.Before && st.After {
					// marked up in this round
					wasFuse := false
					epR := 0
					if r.ep != nil {
						r.ep.Recovered, r.ep.R, r.ep.EndStep = true, r.curRun, len(tr.Steps)
						if !st.FullPass {
							r.ep.Tainted = true
						}
						wasFuse = !r.ep.Tainted
						epR = r.ep.R
						tr.Episodes = append(tr.Episodes, *r.ep)
						judgeEpisode(&tr, *r.ep)
						r.ep = nil
					}
					r.lastRecovery, r.lastRecoveryFuse, r.lastRecoveryR = e.now, wasFuse, epR
					r.downRun = 0
				}
				if st.After {
					r.fusedDown = false
					r.downRun = 0
				}
				tr.Steps = append(tr.Steps, st)
				others(ni, before, st.String())
			}
		}
	}
	for _, r := range refs {
		if r.ep != nil {
			tr.Episodes = append(tr.Episodes, *r.ep)
		}
	}
	return
}

// judgeEpisode applies the invariants of the gradual policy that follow from
// the statement without copying the implementation's penalty formula.
func judgeEpisode(tr *Trace, ep Episode) {
	if ep.Tainted || !ep.Recovered {
		return
	}
	add := func(cat, f string, a ...interface{}) {
		tr.Issues = append(tr.Issues, Issue{Cat: cat, Step: ep.EndStep, Detail: fmt.Sprintf(f, a...)})
	}
	// (c) consecutive: a run of successful rounds that did not suffice is shorter than the run that finally did
	if ep.R < ep.MaxPrior+1 {
		add("gradual_count_not_restarted", "replica "+fmt.Sprint(ep.Node)+": episode fused at +%ds: recovered after a run of %d successful rounds although an earlier uninterrupted run of %d rounds had not sufficed (a failed probe must restart the count)", ep.FuseT-T0, ep.R, ep.MaxPrior)
	}
	short := ep.Gap >= 0 && ep.Gap < soonSec
	long := ep.Gap > soonSec
	// (b) failing again soon after a recovery: the penalty grows
	if short {
		if ep.R < 2 {
			add("gradual_no_penalty", "episode fused at +%ds, %ds after the previous recovery: recovered on the first successful round (no penalty)", ep.FuseT-T0, ep.Gap)
		}
		if ep.PrevFuse {
			want := ep.PrevR + 1
			if want > maxRuns {
				want = maxRuns
			}
			if ep.R < want {
				add("gradual_penalty_not_growing", "episode fused at +%ds, %ds after the previous recovery which had needed %d successful rounds: now only %d needed", ep.FuseT-T0, ep.Gap, ep.PrevR, ep.R)
			}
		}
	}
	// (d) a fuse long after the previous recovery: back at the base requirement
	if long && !ep.Interrupted {
		for _, o := range tr.Episodes[:len(tr.Episodes)-1] {
			if o.Node == ep.Node && o.Recovered && !o.Tainted && !o.Interrupted && o.Gap > soonSec && o.R != ep.R {
				add("gradual_base_not_restored", "episode fused at +%ds long (%ds) after the previous recovery needed %d successful rounds, an earlier such episode needed %d", ep.FuseT-T0, ep.Gap, ep.R, o.R)
				break
			}
		}
		for _, o := range tr.Episodes[:len(tr.Episodes)-1] {
			if o.Node == ep.Node && o.Recovered && !o.Tainted && o.Gap >= 0 && o.Gap < soonSec && o.R <= ep.R {
				add("gradual_base_not_restored", "episode fused at +%ds long (%ds) after the previous recovery needed %d successful rounds, not fewer than an earlier penalised episode (%d)", ep.FuseT-T0, ep.Gap, ep.R, o.R)
				break
			}
		}
	}
}
