// Package fakemysql is a scriptable MySQL server for loopback use by the
// session-level property checks (DESIGN.md 2.3). It speaks just enough of the
// protocol for Gaea's backend.DirectConnection: v10 handshake with
// mysql_native_password (any password is accepted), COM_QUERY, COM_INIT_DB,
// COM_PING, COM_FIELD_LIST, COM_QUIT. Framing is written here independently of
// Gaea's mysql/conn.go. Every connection keeps the state a MySQL session has
// that the proxy's pool logic relies on (autocommit, in-transaction, current
// database, character set, session and user variables) and every command is
// appended to an event log that oracles read afterwards.
package fakemysql

import (
	"bufio"
	"encoding/binary"
	"fmt"
	"io"
	"net"
	"regexp"
	"strings"
	"sync"
	"sync/atomic"
	"time"
)

const (
	StatusInTrans     = 0x0001
	StatusAutocommit  = 0x0002
	StatusMoreResults = 0x0008

	maxFrame = 1<<24 - 1
)

// MySQL field types used by result builders.
const (
	TypeTiny      = 1
	TypeLong      = 3
	TypeDouble    = 5
	TypeLongLong  = 8
	TypeNewDec    = 246
	TypeVarString = 253
	TypeVarchar   = 15
	TypeBlob      = 252
)

// Column describes one result column.
type Column struct {
	Name     string
	Type     byte
	Flags    uint16
	Charset  uint16
	Decimals byte
	Length   uint32
}

// ResultSet is a text-protocol result. A nil cell is NULL.
type ResultSet struct {
	Cols []Column
	Rows [][][]byte
	// RowGen, if set, produces row i (0 <= i < NRows) lazily so that huge results need no memory.
	RowGen func(i int) [][]byte
	NRows  int
}

// Reply is what a query handler returns.
type Reply struct {
	Err          *SQLErr
	Result       *ResultSet
	Affected     uint64
	InsertID     uint64
	CloseBefore  bool          // close the socket without replying
	CloseAfter   bool          // reply, then close the socket
	Delay        time.Duration // sleep before replying
	Unhandled    bool          // handler did not recognise the statement: use the default
	MidStreamErr int           // if >0: send an ERR packet instead of row number MidStreamErr (1-based)
	// More, if set, are further results of the SAME command (a multi-result reply, as for CALL or a forwarded
	// multi-statement text): this reply and every reply of More but the last carry SERVER_MORE_RESULTS_EXISTS in
	// their OK/EOF status; an ERR reply ends the sequence. Only Err/Result/Affected/InsertID/MidStreamErr of the
	// further replies are used.
	More []Reply
}

// SQLErr is a MySQL error.
type SQLErr struct {
	Code    uint16
	State   string
	Message string
}

// Event is one entry of the server's log.
type Event struct {
	Seq        int64 // global order across all servers of a Cluster
	Server     string
	Role       string
	Slice      string
	ConnID     uint32
	Kind       string // connect, query, initdb, ping, fieldlist, quit, close
	SQL        string
	Outcome    string // ok, err:<code>, closed
	DB         string // current database when the command arrived
	Autocommit bool   // state when the command arrived
	InTrans    bool
	Charset    string
	Collation  string
	Vars       map[string]string // copy of session+user variables when a query arrived (only if Server.SnapshotVars)
}

// Conn is the per-connection session state.
type Conn struct {
	ID         uint32
	srv        *Server
	c          net.Conn
	r          *bufio.Reader
	seq        byte
	DB         string
	Autocommit bool
	InTrans    bool
	Charset    string
	Collation  string
	Vars       map[string]string // session variables set explicitly (lower-case names), value text as sent
	UserVars   map[string]string
	closed     int32
	Killed     int32
	more       bool // the packet being written is followed by another result of the same command
}

// Server is one simulated MySQL instance.
type Server struct {
	Name  string
	Role  string // "master" or "replica"
	Slice string
	ln    net.Listener
	seqp  *int64

	mu     sync.Mutex
	conns  map[uint32]*Conn
	nextID uint32
	events []Event

	// Handler produces the reply for statements that are not session-state statements.
	Handler func(c *Conn, sql string) Reply
	// Fault, if set, is consulted first for every command (kind is query/initdb/ping/fieldlist);
	// a non-nil reply is used instead of normal processing. Session-state statements that are
	// answered with an error leave the state unchanged.
	Fault func(c *Conn, kind, sql string) *Reply
	// RejectSet, if set, is asked for every assignment of a SET statement; returning an error
	// rejects the whole statement atomically.
	RejectSet func(c *Conn, name, value string) *SQLErr
	// SnapshotVars makes query events carry a copy of the connection's variables.
	SnapshotVars bool
	// VarAlias, if set, maps a (lower-case) session variable name onto the name it is an alias of
	// (e.g. "transaction_read_only" -> "tx_read_only" on MySQL 5.7.20+): assignments to either name
	// then write the same entry of Conn.Vars, in statement order, as a real server does. Set before use.
	VarAlias map[string]string
	// DefaultCharset/DefaultCollation of new connections.
	DefaultCharset   string
	DefaultCollation string
	Version          string

	closed  int32
	refuse  int32 // non-zero: accepted sockets are closed before the greeting
	refused uint32
	wg      sync.WaitGroup
}

var globalSeq int64

// NewServer starts a server on 127.0.0.1:0.
func NewServer(name, role, slice string) (*Server, error) {
	ln, err := listenLoopback()
	if err != nil {
		return nil, err
	}
	s := &Server{Name: name, Role: role, Slice: slice, ln: ln, conns: map[uint32]*Conn{}, seqp: &globalSeq,
		DefaultCharset: "utf8mb4", DefaultCollation: "utf8mb4_general_ci", Version: "5.7.25-fake"}
	s.wg.Add(1)
	go s.acceptLoop()
	return s, nil
}

// listenLoopback listens on 127.0.0.1:0; when the machine is short of free ports (many
// sockets in TIME_WAIT while several checks run in parallel) it retries for up to a minute.
func listenLoopback() (net.Listener, error) {
	var ln net.Listener
	var err error
	for i := 0; i < 240; i++ {
		ln, err = net.Listen("tcp", "127.0.0.1:0")
		if err == nil || !strings.Contains(err.Error(), "address already in use") {
			return ln, err
		}
		time.Sleep(250 * time.Millisecond)
	}
	return ln, err
}

// Addr is host:port of the listener.
func (s *Server) Addr() string { return s.ln.Addr().String() }

// Close stops the listener and closes every connection.
func (s *Server) Close() {
	if !atomic.CompareAndSwapInt32(&s.closed, 0, 1) {
		return
	}
	s.ln.Close()
	s.mu.Lock()
	for _, c := range s.conns {
		c.c.Close()
	}
	s.mu.Unlock()
	s.wg.Wait()
}

// Abort is Close with a connection reset (SO_LINGER 0) on every open connection, so that neither
// side keeps a socket in TIME_WAIT. Use it at the end of a case, BEFORE the proxy's namespace is
// removed, when many cases run per second: thousands of TIME_WAIT sockets exhaust the local ports.
func (s *Server) Abort() {
	s.mu.Lock()
	for _, c := range s.conns {
		if tc, ok := c.c.(*net.TCPConn); ok {
			tc.SetLinger(0)
		}
	}
	s.mu.Unlock()
	s.Close()
}

// Events returns a copy of the log.
func (s *Server) Events() []Event {
	s.mu.Lock()
	defer s.mu.Unlock()
	return append([]Event(nil), s.events...)
}

// EventsSince returns the events with index >= n and the new length.
func (s *Server) EventsSince(n int) ([]Event, int) {
	s.mu.Lock()
	defer s.mu.Unlock()
	if n > len(s.events) {
		n = len(s.events)
	}
	return append([]Event(nil), s.events[n:]...), len(s.events)
}

// ResetEvents clears the log.
func (s *Server) ResetEvents() {
	s.mu.Lock()
	s.events = nil
	s.mu.Unlock()
}

// RefuseConnections makes the server close every newly accepted socket before sending the greeting (true) or
// serve new connections normally again (false). Established connections are not affected.
func (s *Server) RefuseConnections(on bool) {
	v := int32(0)
	if on {
		v = 1
	}
	atomic.StoreInt32(&s.refuse, v)
}

// Refused returns how many connection attempts were turned away by RefuseConnections.
func (s *Server) Refused() uint32 { return atomic.LoadUint32(&s.refused) }

// Accepted returns how many connections the server has accepted so far; connection ids are 1..Accepted() in
// accept order. Unlike the "connect" event (logged by the connection's goroutine after the handshake) the counter
// is bumped before the handshake starts, i.e. before the dialling side can have seen the greeting.
func (s *Server) Accepted() uint32 {
	s.mu.Lock()
	defer s.mu.Unlock()
	return s.nextID
}

// OpenConns returns the state of the currently open connections.
func (s *Server) OpenConns() []ConnState {
	s.mu.Lock()
	defer s.mu.Unlock()
	var res []ConnState
	for _, c := range s.conns {
		res = append(res, ConnState{ID: c.ID, DB: c.DB, Autocommit: c.Autocommit, InTrans: c.InTrans, Charset: c.Charset, Collation: c.Collation})
	}
	return res
}

// ConnState is a snapshot of a connection.
type ConnState struct {
	ID         uint32
	DB         string
	Autocommit bool
	InTrans    bool
	Charset    string
	Collation  string
}

// KillConn closes connection id from the server side.
func (s *Server) KillConn(id uint32) {
	s.mu.Lock()
	c := s.conns[id]
	s.mu.Unlock()
	if c != nil {
		c.c.Close()
	}
}

func (s *Server) log(c *Conn, kind, sql, outcome string, pre ConnState, vars map[string]string) {
	e := Event{Seq: atomic.AddInt64(s.seqp, 1), Server: s.Name, Role: s.Role, Slice: s.Slice, ConnID: c.ID, Kind: kind, SQL: sql,
		Outcome: outcome, DB: pre.DB, Autocommit: pre.Autocommit, InTrans: pre.InTrans, Charset: pre.Charset, Collation: pre.Collation, Vars: vars}
	s.mu.Lock()
	s.events = append(s.events, e)
	s.mu.Unlock()
}

func (s *Server) acceptLoop() {
	defer s.wg.Done()
	for {
		nc, err := s.ln.Accept()
		if err != nil {
			return
		}
		if atomic.LoadInt32(&s.refuse) != 0 {
			// "this server cannot give a connection right now": the dialling side sees EOF instead of a greeting
			atomic.AddUint32(&s.refused, 1)
			nc.Close()
			continue
		}
		s.mu.Lock()
		s.nextID++
		c := &Conn{ID: s.nextID, srv: s, c: nc, r: bufio.NewReaderSize(nc, 64*1024), Autocommit: true,
			Charset: s.DefaultCharset, Collation: s.DefaultCollation, Vars: map[string]string{}, UserVars: map[string]string{}}
		s.conns[c.ID] = c
		s.mu.Unlock()
		s.wg.Add(1)
		go func() {
			defer s.wg.Done()
			c.serve()
			nc.Close()
			s.mu.Lock()
			delete(s.conns, c.ID)
			s.mu.Unlock()
			s.log(c, "close", "", "closed", c.state(), nil)
		}()
	}
}

func (c *Conn) state() ConnState {
	return ConnState{ID: c.ID, DB: c.DB, Autocommit: c.Autocommit, InTrans: c.InTrans, Charset: c.Charset, Collation: c.Collation}
}

func (c *Conn) status() uint16 {
	var st uint16
	if c.Autocommit {
		st |= StatusAutocommit
	}
	if c.InTrans {
		st |= StatusInTrans
	}
	if c.more {
		st |= StatusMoreResults
	}
	return st
}

// ---- framing (independent of Gaea) ----

func (c *Conn) readPacket() ([]byte, error) {
	var payload []byte
	for {
		var hdr [4]byte
		if _, err := io.ReadFull(c.r, hdr[:]); err != nil {
			return nil, err
		}
		n := int(hdr[0]) | int(hdr[1])<<8 | int(hdr[2])<<16
		if hdr[3] != c.seq {
			return nil, fmt.Errorf("fakemysql: bad sequence %d want %d", hdr[3], c.seq)
		}
		c.seq++
		buf := make([]byte, n)
		if _, err := io.ReadFull(c.r, buf); err != nil {
			return nil, err
		}
		payload = append(payload, buf...)
		if n < maxFrame {
			return payload, nil
		}
	}
}

func (c *Conn) writePacket(w io.Writer, p []byte) error {
	for {
		n := len(p)
		if n > maxFrame {
			n = maxFrame
		}
		hdr := []byte{byte(n), byte(n >> 8), byte(n >> 16), c.seq}
		c.seq++
		if _, err := w.Write(hdr); err != nil {
			return err
		}
		if _, err := w.Write(p[:n]); err != nil {
			return err
		}
		p = p[n:]
		if n < maxFrame {
			return nil
		}
	}
}

func lenenc(b []byte, v uint64) []byte {
	switch {
	case v < 251:
		return append(b, byte(v))
	case v < 1<<16:
		return append(b, 0xfc, byte(v), byte(v>>8))
	case v < 1<<24:
		return append(b, 0xfd, byte(v), byte(v>>8), byte(v>>16))
	}
	var x [8]byte
	binary.LittleEndian.PutUint64(x[:], v)
	return append(append(b, 0xfe), x[:]...)
}

func lenencStr(b []byte, s []byte) []byte {
	b = lenenc(b, uint64(len(s)))
	return append(b, s...)
}

func (c *Conn) okPacket(affected, insertID uint64) []byte {
	p := []byte{0}
	p = lenenc(p, affected)
	p = lenenc(p, insertID)
	st := c.status()
	p = append(p, byte(st), byte(st>>8), 0, 0)
	return p
}

func (c *Conn) eofPacket() []byte {
	st := c.status()
	return []byte{0xfe, 0, 0, byte(st), byte(st >> 8)}
}

func errPacket(e *SQLErr) []byte {
	st := e.State
	if len(st) != 5 {
		st = "HY000"
	}
	p := []byte{0xff, byte(e.Code), byte(e.Code >> 8), '#'}
	p = append(p, st...)
	return append(p, e.Message...)
}

func colDef(col Column) []byte {
	var p []byte
	p = lenencStr(p, []byte("def"))
	p = lenencStr(p, []byte(""))
	p = lenencStr(p, []byte(""))
	p = lenencStr(p, []byte(""))
	p = lenencStr(p, []byte(col.Name))
	p = lenencStr(p, []byte(col.Name))
	p = append(p, 0x0c)
	cs := col.Charset
	if cs == 0 {
		cs = 45
	}
	ln := col.Length
	if ln == 0 {
		ln = 255
	}
	p = append(p, byte(cs), byte(cs>>8), byte(ln), byte(ln>>8), byte(ln>>16), byte(ln>>24), col.Type, byte(col.Flags), byte(col.Flags>>8), col.Decimals, 0, 0)
	return p
}

// ---- handshake ----

func (c *Conn) handshake() error {
	c.seq = 0
	salt := []byte("abcdefgh12345678ijkl") // 20 bytes; any proof is accepted
	p := []byte{10}
	p = append(p, c.srv.Version...)
	p = append(p, 0)
	p = append(p, byte(c.ID), byte(c.ID>>8), byte(c.ID>>16), byte(c.ID>>24))
	p = append(p, salt[:8]...)
	p = append(p, 0)
	capab := uint32(0x00000001 | 0x00000004 | 0x00000008 | 0x00000200 | 0x00002000 | 0x00008000 | 0x00010000 | 0x00020000 | 0x00080000)
	// long password, long flag, connect with db, protocol 41, transactions, secure connection, multi statements, multi results, plugin auth
	p = append(p, byte(capab), byte(capab>>8))
	p = append(p, 45) // charset utf8mb4_general_ci
	st := c.status()
	p = append(p, byte(st), byte(st>>8))
	p = append(p, byte(capab>>16), byte(capab>>24))
	p = append(p, 21)
	p = append(p, make([]byte, 10)...)
	p = append(p, salt[8:]...)
	p = append(p, 0)
	p = append(p, "mysql_native_password"...)
	p = append(p, 0)
	if err := c.writePacket(c.c, p); err != nil {
		return err
	}
	resp, err := c.readPacket()
	if err != nil {
		return err
	}
	// capability(4) maxpacket(4) charset(1) reserved(23) user\0 authlen auth [db\0]
	if len(resp) < 33 {
		return fmt.Errorf("short handshake response")
	}
	ccap := binary.LittleEndian.Uint32(resp[:4])
	pos := 32
	i := pos
	for i < len(resp) && resp[i] != 0 {
		i++
	}
	pos = i + 1
	if pos < len(resp) {
		al := int(resp[pos])
		pos += 1 + al
	}
	if ccap&0x00000008 != 0 && pos < len(resp) {
		j := pos
		for j < len(resp) && resp[j] != 0 {
			j++
		}
		c.DB = string(resp[pos:j])
	}
	return c.writePacket(c.c, c.okPacket(0, 0))
}

// ---- command loop ----

func (c *Conn) serve() {
	c.c.SetDeadline(time.Now().Add(10 * time.Second))
	if err := c.handshake(); err != nil {
		return
	}
	c.c.SetDeadline(time.Time{})
	c.srv.log(c, "connect", "", "ok", c.state(), nil)
	for {
		c.seq = 0
		pkt, err := c.readPacket()
		if err != nil {
			return
		}
		if len(pkt) == 0 {
			return
		}
		cmd, data := pkt[0], pkt[1:]
		pre := c.state()
		switch cmd {
		case 0x01: // COM_QUIT
			c.srv.log(c, "quit", "", "ok", pre, nil)
			return
		case 0x0e: // COM_PING
			if r := c.fault("ping", ""); r != nil {
				if !c.sendReply(pre, "ping", "", *r) {
					return
				}
				continue
			}
			c.srv.log(c, "ping", "", "ok", pre, nil)
			if c.writePacket(c.c, c.okPacket(0, 0)) != nil {
				return
			}
		case 0x02: // COM_INIT_DB
			db := string(data)
			if r := c.fault("initdb", db); r != nil {
				if !c.sendReply(pre, "initdb", db, *r) {
					return
				}
				continue
			}
			c.DB = db
			c.srv.log(c, "initdb", db, "ok", pre, nil)
			if c.writePacket(c.c, c.okPacket(0, 0)) != nil {
				return
			}
		case 0x04: // COM_FIELD_LIST
			tbl := string(data)
			if i := strings.IndexByte(tbl, 0); i >= 0 {
				tbl = tbl[:i]
			}
			c.srv.log(c, "fieldlist", tbl, "ok", pre, nil)
			bw := bufio.NewWriter(c.c)
			c.writePacket(bw, colDef(Column{Name: "id", Type: TypeLong}))
			c.writePacket(bw, c.eofPacket())
			if bw.Flush() != nil {
				return
			}
		case 0x03: // COM_QUERY
			sql := string(data)
			if !c.query(pre, sql) {
				return
			}
		default:
			c.srv.log(c, fmt.Sprintf("cmd%d", cmd), "", "err:1047", pre, nil)
			if c.writePacket(c.c, errPacket(&SQLErr{Code: 1047, State: "08S01", Message: "unknown command"})) != nil {
				return
			}
		}
	}
}

func (c *Conn) fault(kind, sql string) *Reply {
	if f := c.srv.Fault; f != nil {
		return f(c, kind, sql)
	}
	return nil
}

// sendReply writes r; returns false when the connection must end.
func (c *Conn) sendReply(pre ConnState, kind, sql string, r Reply) bool {
	var vars map[string]string
	if c.srv.SnapshotVars && kind == "query" {
		vars = map[string]string{}
		for k, v := range c.Vars {
			vars[k] = v
		}
		for k, v := range c.UserVars {
			vars[k] = v
		}
	}
	if r.Delay > 0 {
		time.Sleep(r.Delay)
	}
	if r.CloseBefore {
		c.srv.log(c, kind, sql, "closed", pre, vars)
		return false
	}
	bw := bufio.NewWriterSize(c.c, 256*1024)
	replies := append([]Reply{r}, r.More...)
	defer func() { c.more = false }()
	for ri, r := range replies {
		c.more = ri < len(replies)-1
		last := false
		switch {
		case r.Err != nil:
			if ri == 0 {
				c.srv.log(c, kind, sql, fmt.Sprintf("err:%d", r.Err.Code), pre, vars)
			}
			last = true
			c.writePacket(bw, errPacket(r.Err))
		case r.Result != nil:
			if ri == 0 {
				c.srv.log(c, kind, sql, "ok", pre, vars)
			}
			rs := r.Result
			c.writePacket(bw, lenenc(nil, uint64(len(rs.Cols))))
			for _, col := range rs.Cols {
				c.writePacket(bw, colDef(col))
			}
			c.writePacket(bw, c.eofPacket())
			n := len(rs.Rows)
			if rs.RowGen != nil {
				n = rs.NRows
			}
			aborted := false
			for i := 0; i < n; i++ {
				if r.MidStreamErr > 0 && i+1 == r.MidStreamErr {
					c.writePacket(bw, errPacket(&SQLErr{Code: 1317, State: "70100", Message: "Query execution was interrupted"}))
					aborted = true
					break
				}
				var row [][]byte
				if rs.RowGen != nil {
					row = rs.RowGen(i)
				} else {
					row = rs.Rows[i]
				}
				var p []byte
				for _, cell := range row {
					if cell == nil {
						p = append(p, 0xfb)
					} else {
						p = lenencStr(p, cell)
					}
				}
				if err := c.writePacket(bw, p); err != nil {
					return false
				}
			}
			if !aborted {
				c.writePacket(bw, c.eofPacket())
			} else {
				last = true
			}
		default:
			if ri == 0 {
				c.srv.log(c, kind, sql, "ok", pre, vars)
			}
			c.writePacket(bw, c.okPacket(r.Affected, r.InsertID))
		}
		if last {
			break
		}
	}
	if bw.Flush() != nil {
		return false
	}
	return !r.CloseAfter
}

var (
	reLeadingComment = regexp.MustCompile(`^(\s*/\*.*?\*/)*\s*`)
	reSetAutocommit  = regexp.MustCompile(`(?i)^set\s+(@@)?(session\.)?autocommit\s*=\s*(\S+)\s*;?\s*$`)
	reSavepoint      = regexp.MustCompile(`(?i)^(savepoint|release\s+savepoint|rollback\s+(work\s+)?to)\b`)
	reKill           = regexp.MustCompile(`(?i)^kill\s+(query\s+)?(\d+)`)
)

// StripLeadingComments removes /* */ comments and whitespace at the start.
func StripLeadingComments(sql string) string {
	return sql[len(reLeadingComment.FindString(sql)):]
}

func firstWord(s string) string {
	s = strings.TrimSpace(s)
	i := 0
	for i < len(s) && (s[i] == '_' || s[i] >= 'a' && s[i] <= 'z' || s[i] >= 'A' && s[i] <= 'Z') {
		i++
	}
	return strings.ToLower(s[:i])
}

func (c *Conn) query(pre ConnState, sql string) bool {
	if r := c.fault("query", sql); r != nil {
		return c.sendReply(pre, "query", sql, *r)
	}
	body := StripLeadingComments(sql)
	word := firstWord(body)
	lower := strings.ToLower(strings.TrimRight(strings.TrimSpace(body), ";"))
	switch {
	case word == "begin" || strings.HasPrefix(lower, "start transaction"):
		c.InTrans = true
		return c.sendReply(pre, "query", sql, Reply{})
	case word == "commit" || (word == "rollback" && !reSavepoint.MatchString(body)):
		c.InTrans = false
		return c.sendReply(pre, "query", sql, Reply{})
	case reSavepoint.MatchString(body):
		return c.sendReply(pre, "query", sql, Reply{})
	case word == "set":
		if m := reSetAutocommit.FindStringSubmatch(strings.TrimSpace(body)); m != nil {
			v := strings.ToLower(strings.Trim(m[3], "'\""))
			on := v == "1" || v == "on" || v == "true"
			if on && !c.Autocommit {
				c.InTrans = false // implicit commit
			}
			c.Autocommit = on
			return c.sendReply(pre, "query", sql, Reply{})
		}
		if e := c.applySet(body); e != nil {
			return c.sendReply(pre, "query", sql, Reply{Err: e})
		}
		return c.sendReply(pre, "query", sql, Reply{})
	case word == "use":
		c.DB = strings.Trim(strings.TrimSpace(body[3:]), "`; ")
		return c.sendReply(pre, "query", sql, Reply{})
	case word == "kill":
		if m := reKill.FindStringSubmatch(body); m != nil {
			var id uint32
			fmt.Sscan(m[2], &id)
			c.srv.mu.Lock()
			t := c.srv.conns[id]
			c.srv.mu.Unlock()
			if t != nil {
				atomic.StoreInt32(&t.Killed, 1)
			}
		}
		return c.sendReply(pre, "query", sql, Reply{})
	}
	var r Reply
	r.Unhandled = true
	if h := c.srv.Handler; h != nil {
		r = h(c, sql)
	}
	if r.Unhandled {
		r = DefaultReply(body)
	}
	// a statement that touches data opens a transaction when autocommit is off
	if !c.Autocommit && r.Err == nil && !r.CloseBefore {
		switch word {
		case "select", "insert", "update", "delete", "replace":
			c.InTrans = true
		}
	}
	// DDL commits implicitly
	switch word {
	case "create", "alter", "drop", "truncate", "rename":
		if r.Err == nil {
			c.InTrans = false
		}
	}
	return c.sendReply(pre, "query", sql, r)
}

// DefaultReply answers SELECT/SHOW with a one-row result and everything else with OK (1 row affected for DML).
func DefaultReply(body string) Reply {
	switch firstWord(body) {
	case "select":
		return Reply{Result: &ResultSet{Cols: []Column{{Name: "1", Type: TypeLongLong, Flags: 0x81, Charset: 63, Length: 1}}, Rows: [][][]byte{{[]byte("1")}}}}
	case "show", "desc", "describe", "explain":
		return Reply{Result: &ResultSet{Cols: []Column{{Name: "Variable_name", Type: TypeVarString}, {Name: "Value", Type: TypeVarString}}}}
	case "insert", "update", "delete", "replace":
		return Reply{Affected: 1}
	}
	return Reply{}
}

// Assignment is one item of a SET statement.
type Assignment struct {
	Names     bool   // SET NAMES
	Name      string // lower-case variable name without @@/session prefixes; user variables keep their @
	Value     string // raw value text, quotes stripped for simple quoted strings
	Collation string // for SET NAMES
	Default   bool
}

// ParseSet splits the SET statement Gaea's backend layer emits
// ("SET NAMES 'cs' COLLATE 'co',a = 1,b = 'x',@u = 3,c = DEFAULT").
func ParseSet(body string) ([]Assignment, error) {
	s := strings.TrimSpace(body)
	s = strings.TrimRight(s, "; ")
	if len(s) < 4 || !strings.EqualFold(s[:3], "set") {
		return nil, fmt.Errorf("not a SET statement")
	}
	s = s[3:]
	var items []string
	depth, quote, start := 0, byte(0), 0
	for i := 0; i < len(s); i++ {
		ch := s[i]
		switch {
		case quote != 0:
			if ch == '\\' {
				i++
			} else if ch == quote {
				quote = 0
			}
		case ch == '\'' || ch == '"' || ch == '`':
			quote = ch
		case ch == '(':
			depth++
		case ch == ')':
			depth--
		case ch == ',' && depth == 0:
			items = append(items, s[start:i])
			start = i + 1
		}
	}
	items = append(items, s[start:])
	var res []Assignment
	for _, it := range items {
		it = strings.TrimSpace(it)
		if it == "" {
			return nil, fmt.Errorf("empty assignment")
		}
		low := strings.ToLower(it)
		if strings.HasPrefix(low, "names") {
			rest := strings.Fields(it[5:])
			a := Assignment{Names: true, Name: "names"}
			if len(rest) >= 1 {
				a.Value = strings.Trim(rest[0], "'\"`")
			}
			if len(rest) >= 3 && strings.EqualFold(rest[1], "collate") {
				a.Collation = strings.Trim(rest[2], "'\"`")
			}
			res = append(res, a)
			continue
		}
		eq := strings.Index(it, "=")
		if eq < 0 {
			return nil, fmt.Errorf("assignment without '=': %q", it)
		}
		name := strings.ToLower(strings.TrimSpace(strings.TrimSuffix(it[:eq], ":")))
		name = strings.TrimPrefix(name, "@@")
		name = strings.TrimPrefix(name, "session.")
		name = strings.TrimPrefix(name, "session ")
		name = strings.TrimPrefix(name, "local.")
		name = strings.TrimSpace(name)
		val := strings.TrimSpace(it[eq+1:])
		a := Assignment{Name: name, Value: val}
		if strings.EqualFold(val, "default") || (strings.HasPrefix(name, "@") && strings.EqualFold(val, "null")) {
			a.Default = true
		}
		if len(val) >= 2 && (val[0] == '\'' || val[0] == '"') && val[len(val)-1] == val[0] {
			a.Value = val[1 : len(val)-1]
		}
		res = append(res, a)
	}
	return res, nil
}

func (c *Conn) applySet(body string) *SQLErr {
	as, err := ParseSet(body)
	if err != nil {
		return &SQLErr{Code: 1064, State: "42000", Message: "fakemysql: " + err.Error()}
	}
	if rj := c.srv.RejectSet; rj != nil {
		for _, a := range as {
			if e := rj(c, a.Name, a.Value); e != nil {
				return e
			}
		}
	}
	for _, a := range as {
		switch {
		case a.Names:
			c.Charset = strings.ToLower(a.Value)
			if a.Collation != "" {
				c.Collation = strings.ToLower(a.Collation)
			} else {
				c.Collation = ""
			}
		case strings.HasPrefix(a.Name, "@"):
			if a.Default {
				delete(c.UserVars, a.Name)
			} else {
				c.UserVars[a.Name] = a.Value
			}
		default:
			name := a.Name
			if to, ok := c.srv.VarAlias[name]; ok {
				name = to
			}
			if a.Default {
				delete(c.Vars, name)
			} else {
				c.Vars[name] = a.Value
			}
		}
	}
	return nil
}
