// Package fakepool provides in-memory fakes of backend.ConnectionPool and
// backend.PooledConnect with a get/put/close ledger, so that properties about
// slices, sequences, balancing, fusing and health checks can run Gaea's real
// backend.Slice code over scripted backends without sockets.
//
// A Pool is scripted through its exported hook fields (all optional); every
// hook runs with the pool unlocked, may be called from several goroutines and
// must itself be deterministic (no wall clock, no RNG). The ledger records what
// Gaea did with the pool: connections taken, returned, closed, statements run.
//
//	p := fakepool.New("10.0.0.1:3306", nil)
//	p.OnExec = func(c *fakepool.Conn, sql string) (*mysql.Result, error) { ... }
//	s := fakepool.MasterSlice("ns", p)          // *backend.Slice with that master
//	... call Gaea ...
//	if p.Outstanding() != 0 { /* a connection leaked */ }
package fakepool

import (
	"context"
	"fmt"
	"sync"
	"time"

	"github.com/XiaoMi/Gaea/backend"
	"github.com/XiaoMi/Gaea/mysql"
)

// Event is one ledger entry.
type Event struct {
	Kind string `json:"kind"` // get, get_err, getcheck, getcheck_err, put, put_nil, double_put, close, exec, usedb, ping, begin, commit, rollback, pool_open, pool_close, use_after_put
	Conn int    `json:"conn"` // connection id (0 for pool-level events)
	Arg  string `json:"arg,omitempty"`
	Err  string `json:"err,omitempty"`
}

// Options are the static attributes of a Pool.
type Options struct {
	Datacenter string
	Capacity   int64
	// Clock is used by SetLastChecked; nil means the pool keeps an explicit
	// value set with SetLastCheckedAt (and SetLastChecked stores ClockValue).
	Clock func() int64
}

// Pool is a fake backend.ConnectionPool.
type Pool struct {
	addr string
	opt  Options

	// OnGet decides the n-th (1-based) Get: a non-nil error fails it.
	OnGet func(p *Pool, n int) error
	// OnGetCheck decides the n-th (1-based) GetCheck.
	OnGetCheck func(p *Pool, n int) error
	// OnExec answers Execute / ExecuteWithTimeout. nil hook: empty OK result.
	OnExec func(c *Conn, sql string) (*mysql.Result, error)
	// OnUseDB answers UseDB. nil hook: success.
	OnUseDB func(c *Conn, db string) error
	// OnPing answers Ping / PingWithTimeout. nil hook: success.
	OnPing func(c *Conn) error
	// OnTx answers Begin/Commit/Rollback/SetAutoCommit (kind = begin|commit|rollback|autocommit). nil: success.
	OnTx func(c *Conn, kind string) error

	mu          sync.Mutex
	events      []Event
	nextID      int
	gets        int
	getChecks   int
	out         map[int]*Conn // connections handed out by Get and not yet returned
	check       *Conn
	closed      bool
	opened      bool
	lastChecked int64
	clockValue  int64
	counts      map[string]int
}

var _ backend.ConnectionPool = (*Pool)(nil)
var _ backend.PooledConnect = (*Conn)(nil)

// New creates a pool for addr. opt may be nil.
func New(addr string, opt *Options) *Pool {
	p := &Pool{addr: addr, out: map[int]*Conn{}, counts: map[string]int{}}
	if opt != nil {
		p.opt = *opt
	}
	if p.opt.Capacity == 0 {
		p.opt.Capacity = 16
	}
	return p
}

func (p *Pool) log(e Event) {
	p.events = append(p.events, e)
	p.counts[e.Kind]++
}

// Events returns a copy of the ledger.
func (p *Pool) Events() []Event {
	p.mu.Lock()
	defer p.mu.Unlock()
	return append([]Event(nil), p.events...)
}

// Count returns how many ledger events of that kind were recorded.
func (p *Pool) Count(kind string) int {
	p.mu.Lock()
	defer p.mu.Unlock()
	return p.counts[kind]
}

// Outstanding is the number of connections taken with Get and not yet returned.
func (p *Pool) Outstanding() int {
	p.mu.Lock()
	defer p.mu.Unlock()
	return len(p.out)
}

// Misuse lists protocol errors Gaea committed against the pool: a connection
// returned twice, or used after it was returned.
func (p *Pool) Misuse() []Event {
	p.mu.Lock()
	defer p.mu.Unlock()
	var r []Event
	for _, e := range p.events {
		if e.Kind == "double_put" || e.Kind == "use_after_put" {
			r = append(r, e)
		}
	}
	return r
}

// ResetLedger forgets the recorded events (not the outstanding connections).
func (p *Pool) ResetLedger() {
	p.mu.Lock()
	p.events = nil
	p.counts = map[string]int{}
	p.mu.Unlock()
}

// SetLastCheckedAt sets the value GetLastChecked returns.
func (p *Pool) SetLastCheckedAt(v int64) { p.mu.Lock(); p.lastChecked = v; p.mu.Unlock() }

// SetClockValue sets what SetLastChecked stores when Options.Clock is nil.
func (p *Pool) SetClockValue(v int64) { p.mu.Lock(); p.clockValue = v; p.mu.Unlock() }

// ---- backend.ConnectionPool ----

func (p *Pool) Open() error {
	p.mu.Lock()
	p.opened = true
	p.closed = false
	p.log(Event{Kind: "pool_open"})
	p.mu.Unlock()
	return nil
}
func (p *Pool) Addr() string       { return p.addr }
func (p *Pool) Datacenter() string { return p.opt.Datacenter }
func (p *Pool) Close() {
	p.mu.Lock()
	p.closed = true
	p.log(Event{Kind: "pool_close"})
	p.mu.Unlock()
}

// IsClosed reports whether Close was called on the pool.
func (p *Pool) IsClosed() bool { p.mu.Lock(); defer p.mu.Unlock(); return p.closed }

func (p *Pool) Get(ctx context.Context) (backend.PooledConnect, error) {
	p.mu.Lock()
	p.gets++
	n := p.gets
	closed := p.closed
	hook := p.OnGet
	p.mu.Unlock()
	var err error
	if closed {
		err = backend.ErrConnectionPoolClosed
	} else if hook != nil {
		err = hook(p, n)
	}
	p.mu.Lock()
	defer p.mu.Unlock()
	if err != nil {
		p.log(Event{Kind: "get_err", Err: err.Error()})
		return nil, err
	}
	p.nextID++
	c := &Conn{pool: p, id: p.nextID, getSeq: n}
	p.out[c.id] = c
	p.log(Event{Kind: "get", Conn: c.id})
	return c, nil
}

func (p *Pool) GetCheck(ctx context.Context) (backend.PooledConnect, error) {
	p.mu.Lock()
	p.getChecks++
	n := p.getChecks
	hook := p.OnGetCheck
	p.mu.Unlock()
	var err error
	if hook != nil {
		err = hook(p, n)
	}
	p.mu.Lock()
	defer p.mu.Unlock()
	if err != nil {
		p.log(Event{Kind: "getcheck_err", Err: err.Error()})
		return nil, err
	}
	if p.check == nil || p.check.closed {
		p.nextID++
		p.check = &Conn{pool: p, id: p.nextID, isCheck: true, getSeq: n}
	}
	p.log(Event{Kind: "getcheck", Conn: p.check.id})
	return p.check, nil
}

func (p *Pool) Put(pc backend.PooledConnect) {
	p.mu.Lock()
	defer p.mu.Unlock()
	if pc == nil {
		p.log(Event{Kind: "put_nil"})
		return
	}
	c, ok := pc.(*Conn)
	if !ok || c.pool != p {
		p.log(Event{Kind: "double_put", Arg: "foreign connection"})
		return
	}
	p.putLocked(c)
}

func (p *Pool) putLocked(c *Conn) {
	if c.isCheck {
		return
	}
	if _, ok := p.out[c.id]; !ok {
		p.log(Event{Kind: "double_put", Conn: c.id})
		return
	}
	delete(p.out, c.id)
	c.returned = true
	p.log(Event{Kind: "put", Conn: c.id})
}

func (p *Pool) SetCapacity(capacity int) error { p.opt.Capacity = int64(capacity); return nil }
func (p *Pool) SetIdleTimeout(time.Duration)   {}
func (p *Pool) StatsJSON() string {
	return fmt.Sprintf(`{"Capacity": %d, "InUse": %d}`, p.opt.Capacity, p.Outstanding())
}
func (p *Pool) Capacity() int64            { return p.opt.Capacity }
func (p *Pool) Available() int64           { return p.opt.Capacity - int64(p.Outstanding()) }
func (p *Pool) Active() int64              { return int64(p.Outstanding()) }
func (p *Pool) InUse() int64               { return int64(p.Outstanding()) }
func (p *Pool) MaxCap() int64              { return p.opt.Capacity }
func (p *Pool) WaitCount() int64           { return 0 }
func (p *Pool) WaitTime() time.Duration    { return 0 }
func (p *Pool) IdleTimeout() time.Duration { return 0 }
func (p *Pool) IdleClosed() int64          { return 0 }
func (p *Pool) SetLastChecked() {
	p.mu.Lock()
	defer p.mu.Unlock()
	if p.opt.Clock != nil {
		p.lastChecked = p.opt.Clock()
	} else {
		p.lastChecked = p.clockValue
	}
}
func (p *Pool) GetLastChecked() int64 { p.mu.Lock(); defer p.mu.Unlock(); return p.lastChecked }

// ---- backend.PooledConnect ----

// Conn is a fake pooled connection.
type Conn struct {
	pool     *Pool
	id       int
	getSeq   int
	isCheck  bool
	returned bool
	closed   bool
	db       string
	// Data is free for the scripting hooks.
	Data interface{}
}

// ID is the ledger id of the connection; GetSeq the ordinal of the Get that produced it.
func (c *Conn) ID() int       { return c.id }
func (c *Conn) GetSeq() int   { return c.getSeq }
func (c *Conn) Pool() *Pool   { return c.pool }
func (c *Conn) DB() string    { return c.db }
func (c *Conn) IsCheck() bool { return c.isCheck }

func (c *Conn) use(kind, arg string) {
	p := c.pool
	p.mu.Lock()
	if c.returned {
		p.log(Event{Kind: "use_after_put", Conn: c.id, Arg: kind})
	}
	p.log(Event{Kind: kind, Conn: c.id, Arg: arg})
	p.mu.Unlock()
}

func (c *Conn) Recycle() {
	p := c.pool
	p.mu.Lock()
	defer p.mu.Unlock()
	p.putLocked(c)
}
func (c *Conn) Reconnect() error {
	c.use("reconnect", "")
	c.pool.mu.Lock()
	c.closed = false
	c.pool.mu.Unlock()
	return nil
}
func (c *Conn) Close() {
	p := c.pool
	p.mu.Lock()
	c.closed = true
	p.log(Event{Kind: "close", Conn: c.id})
	p.mu.Unlock()
}
func (c *Conn) IsClosed() bool { p := c.pool; p.mu.Lock(); defer p.mu.Unlock(); return c.closed }
func (c *Conn) UseDB(db string) error {
	c.use("usedb", db)
	if h := c.pool.OnUseDB; h != nil {
		if err := h(c, db); err != nil {
			return err
		}
	}
	c.db = db
	return nil
}
func (c *Conn) Execute(sql string, maxRows int) (*mysql.Result, error) {
	c.use("exec", sql)
	if h := c.pool.OnExec; h != nil {
		return h(c, sql)
	}
	return &mysql.Result{}, nil
}
func (c *Conn) ExecuteWithTimeout(sql string, maxRows int, timeout time.Duration) (*mysql.Result, error) {
	return c.Execute(sql, maxRows)
}
func (c *Conn) tx(kind string) error {
	c.use(kind, "")
	if h := c.pool.OnTx; h != nil {
		return h(c, kind)
	}
	return nil
}
func (c *Conn) SetAutoCommit(v uint8) error { return c.tx("autocommit") }
func (c *Conn) Begin() error                { return c.tx("begin") }
func (c *Conn) Commit() error               { return c.tx("commit") }
func (c *Conn) Rollback() error             { return c.tx("rollback") }
func (c *Conn) Ping() error {
	c.use("ping", "")
	if h := c.pool.OnPing; h != nil {
		return h(c)
	}
	return nil
}
func (c *Conn) PingWithTimeout(time.Duration) error { return c.Ping() }
func (c *Conn) SetCharset(string, mysql.CollationID) (bool, error) {
	return false, nil
}
func (c *Conn) FieldList(table string, wildcard string) ([]*mysql.Field, error) { return nil, nil }
func (c *Conn) GetAddr() string                                                 { return c.pool.addr }
func (c *Conn) SetSessionVariables(*mysql.SessionVariables) (bool, error)       { return false, nil }
func (c *Conn) SyncSessionVariables(*mysql.SessionVariables) error              { return nil }
func (c *Conn) WriteSetStatement() error                                        { return nil }
func (c *Conn) GetConnectionID() int64                                          { return int64(c.id) }
func (c *Conn) GetReturnTime() time.Time                                        { return time.Time{} }
func (c *Conn) MoreRowsExist() bool                                             { return false }
func (c *Conn) MoreResultsExist() bool                                          { return false }
func (c *Conn) FetchMoreRows(*mysql.Result, int) error                          { return nil }
func (c *Conn) ReadMoreResult(int) (*mysql.Result, error)                       { return nil, nil }

// ---- helpers ----

// Node wraps a pool into an up backend.NodeInfo.
func Node(p *Pool, weight int) *backend.NodeInfo {
	return &backend.NodeInfo{Address: p.addr, Datacenter: p.opt.Datacenter, Weight: weight, ConnPool: p, Status: backend.StatusUp}
}

// MasterSlice builds a backend.Slice whose business master is the given pool
// (status up) and which has no replicas.
func MasterSlice(namespace string, master *Pool) *backend.Slice {
	s := &backend.Slice{Namespace: namespace}
	s.Cfg.Name = backend.DefaultSlice
	s.Master = &backend.DBInfo{Nodes: []*backend.NodeInfo{Node(master, 1)}}
	s.Slave = &backend.DBInfo{}
	s.StatisticSlave = &backend.DBInfo{}
	return s
}

// TextResult builds a one-column result set with the given rows, the way the
// text protocol delivers VARCHAR data (RowData.ParseText yields string values;
// nil = SQL NULL).
func TextResult(column string, rows ...interface{}) *mysql.Result {
	rs := &mysql.Resultset{
		Fields:     []*mysql.Field{{Name: []byte(column), Type: mysql.TypeVarString}},
		FieldNames: map[string]int{column: 0},
	}
	for _, v := range rows {
		rs.Values = append(rs.Values, []interface{}{v})
	}
	return &mysql.Result{Status: mysql.ServerStatusAutocommit, Resultset: rs}
}

// NullLogger is a log.Logger that discards everything; install it with
// log.SetGlobalLogger(fakepool.NullLogger{}) to keep check output clean.
type NullLogger struct{}

func (NullLogger) SetLevel(name, level string) error                    { return nil }
func (NullLogger) Debug(format string, a ...interface{}) error          { return nil }
func (NullLogger) Trace(format string, a ...interface{}) error          { return nil }
func (NullLogger) Notice(format string, a ...interface{}) error         { return nil }
func (NullLogger) Warn(format string, a ...interface{}) error           { return nil }
func (NullLogger) Fatal(format string, a ...interface{}) error          { return nil }
func (NullLogger) Debugx(logID, format string, a ...interface{}) error  { return nil }
func (NullLogger) Tracex(logID, format string, a ...interface{}) error  { return nil }
func (NullLogger) Noticex(logID, format string, a ...interface{}) error { return nil }
func (NullLogger) Warnx(logID, format string, a ...interface{}) error   { return nil }
func (NullLogger) Fatalx(logID, format string, a ...interface{}) error  { return nil }
func (NullLogger) Close()                                               {}
func (NullLogger) Dropped(i int) uint64                                 { return 0 }
