// Package nsenv holds what the reload / control-plane properties (C31, C32)
// share: versioned namespace configurations that need no MySQL, and a silent
// implementation of Gaea's global logger.
package nsenv

import (
	"fmt"

	"github.com/XiaoMi/Gaea/log"
	"github.com/XiaoMi/Gaea/models"
)

// VersionBase is added to a version number to give max_sql_result_size, the
// observable field that carries the version through NewNamespace
// (Namespace.GetMaxResultSize).
const VersionBase = 1000

// SharedUser is a user name present in every namespace and version; only the
// password tells the owners apart (exercises the per-user password lists).
const SharedUser = "shared"

// UserName is the per-version user of a namespace.
func UserName(ns string, version int) string { return fmt.Sprintf("u_%s_v%d", ns, version) }

// UserPassword is the password of the per-version user.
func UserPassword(ns string, version int) string { return fmt.Sprintf("pw_%s_%d", ns, version) }

// SharedPassword is the password of the shared user in (ns, version).
func SharedPassword(ns string, version int) string { return fmt.Sprintf("sp_%s_%d", ns, version) }

// Config returns a configuration that models.Namespace.Verify accepts and
// that proxy/server.NewNamespace builds without touching the network: one
// slice whose master is 127.0.0.1:1 (connection pools dial lazily; the
// "#c3" suffix gives the datacenter so that no reverse DNS lookup is made).
func Config(name string, version int) *models.Namespace {
	return &models.Namespace{
		Name:             name,
		Online:           true,
		AllowedDBS:       map[string]bool{"db_" + name: true},
		SlowSQLTime:      "1000",
		DefaultSlice:     "slice-0",
		MaxSqlResultSize: VersionBase + version,
		Slices: []*models.Slice{{
			Name: "slice-0", UserName: "root", Password: "root", Master: "127.0.0.1:1#c3",
			Capacity: 1, MaxCapacity: 1, IdleTimeout: 0, // 0: no idle-reaper goroutine per pool
		}},
		Users: []*models.User{
			{UserName: UserName(name, version), Password: UserPassword(name, version), Namespace: name, RWFlag: 2},
			{UserName: SharedUser, Password: SharedPassword(name, version), Namespace: name, RWFlag: 1, RWSplit: 1},
		},
	}
}

// NullLogger implements log.Logger and drops everything.
type NullLogger struct{}

func (NullLogger) SetLevel(name, level string) error                  { return nil }
func (NullLogger) Debug(format string, a ...interface{}) error        { return nil }
func (NullLogger) Trace(format string, a ...interface{}) error        { return nil }
func (NullLogger) Notice(format string, a ...interface{}) error       { return nil }
func (NullLogger) Warn(format string, a ...interface{}) error         { return nil }
func (NullLogger) Fatal(format string, a ...interface{}) error        { return nil }
func (NullLogger) Debugx(id, format string, a ...interface{}) error   { return nil }
func (NullLogger) Tracex(id, format string, a ...interface{}) error   { return nil }
func (NullLogger) Noticex(id, format string, a ...interface{}) error  { return nil }
func (NullLogger) Warnx(id, format string, a ...interface{}) error    { return nil }
func (NullLogger) Fatalx(id, format string, a ...interface{}) error   { return nil }
func (NullLogger) Close()                                             {}
func (NullLogger) Dropped(i int) uint64                               { return 0 }

// Quiet replaces Gaea's global console logger (debug level, stdout) with a
// silent one. Call once from TestMain.
func Quiet() { log.SetGlobalLogger(NullLogger{}) }

// BadKinds is the number of ways BadConfig can spoil a configuration.
const BadKinds = 4

// BadConfig is Config(name, version) with one defect that
// proxy/server.NewNamespace rejects (so the failure happens inside
// NamespaceManager.RebuildNamespace, after ReloadNamespacePrepare has started):
// 1 unparsable slow_sql_time, 2 charset/collation pair that does not match,
// 3 default slice that is not in the slice list (router.NewRouter, after the
// slices and their pools were built), 4 shard rule on a slice that does not exist.
// Its users are those of (name, version): they must never become valid.
func BadConfig(name string, version, kind int) *models.Namespace {
	c := Config(name, version)
	switch kind {
	case 1:
		c.SlowSQLTime = "soon"
	case 2:
		c.DefaultCharset, c.DefaultCollation = "utf8mb4", "latin1_bin"
	case 3:
		c.DefaultSlice = "slice-9"
	default:
		c.ShardRules = []*models.Shard{{DB: "db_" + name, Table: "t", Type: "hash", Key: "id",
			Locations: []int{1}, Slices: []string{"slice-9"}}}
	}
	return c
}
