// Package fakeetcd is an in-memory etcd v2 server: the subset of the HTTP keys
// API that Gaea's models/etcd client (github.com/coreos/etcd/client KeysAPI)
// uses - GET /version, and GET / PUT / DELETE on /v2/keys/<path> with the
// options value, dir, prevExist, ttl (accepted, not enforced), recursive,
// sorted. Semantics follow the etcd v2 API documentation: parents are created
// implicitly as directories, a directory cannot be overwritten by a value,
// errors carry etcd's errorCode (100 key not found, 102 not a file, 105 node
// exists, 108 directory not empty).
//
// The harness side reads and writes the same tree directly (Get, Set, Delete,
// Keys) and can inject store faults through Hook.
package fakeetcd

import (
	"encoding/json"
	"fmt"
	"net"
	"net/http"
	"sort"
	"strconv"
	"strings"
	"sync"
)

type node struct {
	dir      bool
	value    string
	children map[string]*node
	created  uint64
	modified uint64
}

// Server is one fake etcd member.
type Server struct {
	mu    sync.Mutex
	root  *node
	index uint64
	ln    net.Listener
	srv   *http.Server
	log   []string

	// Hook, if set, is consulted before a keys request is served; a non-zero
	// return is sent as the HTTP status with an etcd-style error body and the
	// request has no effect. Called without the server lock held.
	Hook func(method, key string) int
}

// New starts a server on 127.0.0.1:0.
func New() (*Server, error) {
	ln, err := net.Listen("tcp", "127.0.0.1:0")
	if err != nil {
		return nil, err
	}
	s := &Server{root: &node{dir: true, children: map[string]*node{}}, ln: ln}
	mux := http.NewServeMux()
	mux.HandleFunc("/version", func(w http.ResponseWriter, r *http.Request) {
		w.Header().Set("Content-Type", "application/json")
		w.Write([]byte(`{"etcdserver":"2.3.8","etcdcluster":"2.3.0"}`))
	})
	mux.HandleFunc("/v2/keys", s.keys)
	mux.HandleFunc("/v2/keys/", s.keys)
	s.srv = &http.Server{Handler: mux}
	go s.srv.Serve(ln)
	return s, nil
}

// Addr is the client URL (http://127.0.0.1:port).
func (s *Server) Addr() string { return "http://" + s.ln.Addr().String() }

// Close stops the server and drops its connections.
func (s *Server) Close() { s.srv.Close() }

// Log returns the keys requests served so far ("PUT /a/b", ...).
func (s *Server) Log() []string {
	s.mu.Lock()
	defer s.mu.Unlock()
	return append([]string(nil), s.log...)
}

func split(key string) []string {
	var parts []string
	for _, p := range strings.Split(key, "/") {
		if p != "" {
			parts = append(parts, p)
		}
	}
	return parts
}

func (s *Server) lookup(parts []string) *node {
	n := s.root
	for _, p := range parts {
		if !n.dir {
			return nil
		}
		c, ok := n.children[p]
		if !ok {
			return nil
		}
		n = c
	}
	return n
}

// Get returns the value stored at key (false for a missing key or a directory).
func (s *Server) Get(key string) (string, bool) {
	s.mu.Lock()
	defer s.mu.Unlock()
	n := s.lookup(split(key))
	if n == nil || n.dir {
		return "", false
	}
	return n.value, true
}

// Set stores a value, creating parents, without going through HTTP.
func (s *Server) Set(key, value string) {
	s.mu.Lock()
	defer s.mu.Unlock()
	s.set(split(key), value, false)
}

// Delete removes a key or a whole directory without going through HTTP.
func (s *Server) Delete(key string) {
	s.mu.Lock()
	defer s.mu.Unlock()
	parts := split(key)
	if len(parts) == 0 {
		return
	}
	if p := s.lookup(parts[:len(parts)-1]); p != nil && p.dir {
		delete(p.children, parts[len(parts)-1])
		s.index++
	}
}

// Keys lists the value keys under prefix, sorted.
func (s *Server) Keys(prefix string) []string {
	s.mu.Lock()
	defer s.mu.Unlock()
	var out []string
	var walk func(path string, n *node)
	walk = func(path string, n *node) {
		if !n.dir {
			out = append(out, path)
			return
		}
		for name, c := range n.children {
			walk(path+"/"+name, c)
		}
	}
	parts := split(prefix)
	if n := s.lookup(parts); n != nil {
		walk("/"+strings.Join(parts, "/"), n)
	}
	sort.Strings(out)
	return out
}

// set returns (node, created, errorCode).
func (s *Server) set(parts []string, value string, dir bool) (*node, bool, int) {
	n := s.root
	for i, p := range parts {
		last := i == len(parts)-1
		c, ok := n.children[p]
		if !ok {
			s.index++
			c = &node{dir: !last || dir, created: s.index, modified: s.index}
			if c.dir {
				c.children = map[string]*node{}
			}
			n.children[p] = c
			if last {
				c.value = value
				return c, true, 0
			}
		} else if last {
			if c.dir {
				return nil, false, 102
			}
			s.index++
			c.value = value
			c.modified = s.index
			return c, false, 0
		} else if !c.dir {
			return nil, false, 104 // not a directory
		}
		n = c
	}
	return n, false, 102
}

type jsonNode struct {
	Key           string      `json:"key"`
	Dir           bool        `json:"dir,omitempty"`
	Value         *string     `json:"value,omitempty"`
	Nodes         []*jsonNode `json:"nodes,omitempty"`
	ModifiedIndex uint64      `json:"modifiedIndex"`
	CreatedIndex  uint64      `json:"createdIndex"`
}

func render(path string, n *node, depth int, recursive bool) *jsonNode {
	j := &jsonNode{Key: path, Dir: n.dir, ModifiedIndex: n.modified, CreatedIndex: n.created}
	if path == "" {
		j.Key = "/"
	}
	if !n.dir {
		v := n.value
		j.Value = &v
		return j
	}
	if depth == 0 || recursive {
		names := make([]string, 0, len(n.children))
		for name := range n.children {
			names = append(names, name)
		}
		sort.Strings(names)
		for _, name := range names {
			j.Nodes = append(j.Nodes, render(path+"/"+name, n.children[name], depth+1, recursive))
		}
	}
	return j
}

var messages = map[int]string{100: "Key not found", 102: "Not a file", 104: "Not a directory", 105: "Key already exists", 108: "Directory not empty", 300: "Raft Internal Error"}

func (s *Server) fail(w http.ResponseWriter, status, code int, cause string) {
	w.Header().Set("Content-Type", "application/json")
	w.Header().Set("X-Etcd-Index", strconv.FormatUint(s.index, 10))
	w.WriteHeader(status)
	b, _ := json.Marshal(map[string]interface{}{"errorCode": code, "message": messages[code], "cause": cause, "index": s.index})
	w.Write(b)
}

func (s *Server) keys(w http.ResponseWriter, r *http.Request) {
	key := strings.TrimPrefix(r.URL.Path, "/v2/keys")
	parts := split(key)
	path := "/" + strings.Join(parts, "/")
	if len(parts) == 0 {
		path = ""
	}
	r.ParseForm()
	if h := s.Hook; h != nil {
		if st := h(r.Method, path); st != 0 {
			s.mu.Lock()
			s.log = append(s.log, fmt.Sprintf("%s %s -> injected %d", r.Method, path, st))
			s.fail(w, st, 300, "injected fault")
			s.mu.Unlock()
			return
		}
	}
	s.mu.Lock()
	defer s.mu.Unlock()
	s.log = append(s.log, r.Method+" "+path)
	q := r.URL.Query()
	switch r.Method {
	case http.MethodGet:
		n := s.lookup(parts)
		if n == nil {
			s.fail(w, http.StatusNotFound, 100, path)
			return
		}
		s.reply(w, http.StatusOK, map[string]interface{}{"action": "get", "node": render(path, n, 0, q.Get("recursive") == "true")})
	case http.MethodPut:
		dir := q.Get("dir") == "true" || r.PostForm.Get("dir") == "true"
		existing := s.lookup(parts)
		switch q.Get("prevExist") {
		case "false":
			if existing != nil {
				s.fail(w, http.StatusPreconditionFailed, 105, path)
				return
			}
		case "true":
			if existing == nil {
				s.fail(w, http.StatusNotFound, 100, path)
				return
			}
		}
		if len(parts) == 0 {
			s.fail(w, http.StatusForbidden, 102, path)
			return
		}
		var prev *jsonNode
		if existing != nil && !existing.dir {
			prev = render(path, existing, 0, false)
		}
		n, created, code := s.set(parts, r.PostForm.Get("value"), dir)
		if code != 0 {
			s.fail(w, http.StatusForbidden, code, path)
			return
		}
		status := http.StatusOK
		if created {
			status = http.StatusCreated
		}
		body := map[string]interface{}{"action": "set", "node": render(path, n, 1, false)}
		if prev != nil {
			body["prevNode"] = prev
		}
		s.reply(w, status, body)
	case http.MethodDelete:
		n := s.lookup(parts)
		if n == nil || len(parts) == 0 {
			s.fail(w, http.StatusNotFound, 100, path)
			return
		}
		if n.dir {
			if q.Get("dir") != "true" && q.Get("recursive") != "true" {
				s.fail(w, http.StatusForbidden, 102, path)
				return
			}
			if len(n.children) > 0 && q.Get("recursive") != "true" {
				s.fail(w, http.StatusForbidden, 108, path)
				return
			}
		}
		prev := render(path, n, 1, false)
		parent := s.lookup(parts[:len(parts)-1])
		delete(parent.children, parts[len(parts)-1])
		s.index++
		s.reply(w, http.StatusOK, map[string]interface{}{"action": "delete",
			"node": &jsonNode{Key: path, Dir: n.dir, ModifiedIndex: s.index, CreatedIndex: n.created}, "prevNode": prev})
	default:
		w.WriteHeader(http.StatusMethodNotAllowed)
	}
}

func (s *Server) reply(w http.ResponseWriter, status int, body interface{}) {
	w.Header().Set("Content-Type", "application/json")
	w.Header().Set("X-Etcd-Index", strconv.FormatUint(s.index, 10))
	w.Header().Set("X-Etcd-Cluster-Id", "fakeetcd")
	w.WriteHeader(status)
	b, _ := json.Marshal(body)
	w.Write(b)
}
