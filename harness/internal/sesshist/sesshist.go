// Package sesshist interprets a pre-generated history of client commands for
// 1-3 sessions against the live proxy of internal/proxyfix with simulated
// MySQL backends, optionally with a schedule of backend faults, and returns a
// trace (client responses, the backend events caused by every command, pool
// counters after every command) for the oracles of C18, C19 and C23.
//
// Commands are executed strictly one after the other (sessions interleave but
// never run concurrently), so every backend event that is logged between the
// moment a command is sent and the moment its response has been read was caused
// by that command (or by a health-check / kill connection, which are classified
// separately and ignored by the ledgers).
package sesshist

import (
	"fmt"
	"net"
	"sort"
	"strings"
	"sync"
	"sync/atomic"
	"time"

	"github.com/XiaoMi/Gaea/backend"
	"github.com/XiaoMi/Gaea/models"
	"github.com/XiaoMi/Gaea/proxy/server"

	"verifharness/internal/fakemysql"
	"verifharness/internal/proxyfix"
	"verifharness/internal/rawclient"
)

// Command kinds.
const (
	KBegin      = "begin"
	KStart      = "start"  // START TRANSACTION
	KCommit     = "commit" //
	KRollback   = "rollback"
	KAc0        = "ac0" // SET autocommit=0
	KAc1        = "ac1" // SET autocommit=1
	KSavepoint  = "savepoint"
	KRollbackTo = "rollback_to"
	KRelease    = "release"
	KURead      = "uread"  // unsharded select
	KUWrite     = "uwrite" // unsharded update
	KUForUpdate = "ufu"    // unsharded select ... for update
	KUBig       = "ubig"   // unsharded select whose backend reply is larger than 16 MiB (the proxy streams it)
	KUMulti     = "umulti" // unsharded select answered with two result sets (SERVER_MORE_RESULTS_EXISTS); the proxy's parser rejects CALL
	KSRead      = "sread"  // sharded select (Keys decide the slices)
	KSWrite     = "swrite" // sharded update
	KSForUpdate = "sfu"    // sharded select ... for update
	KUse        = "use"
	KPing       = "ping"
	KSetVar     = "setvar"   // SET sql_select_limit=N : makes the proxy sync session variables on the next backend use
	KSetUser    = "setuser"  // SET @v=N
	KQuit       = "quit"     // COM_QUIT, then wait for the proxy to close the socket
	KDrop       = "drop"     // half-close (FIN) without COM_QUIT, then wait for the proxy to close the socket
	KDropFlight = "dropfly"  // send an unsharded statement and half-close without reading the reply
	KDropHard   = "drophard" // close with SO_LINGER 0 (RST); the proxy-side close cannot be observed on the socket
	KReload     = "reload"   // namespace configuration change (prepare + commit of the same name); session index ignored
)

// Fault targets and actions.
const (
	OnStmt       = "stmt"
	OnBegin      = "begin"
	OnCommit     = "commit"
	OnRollback   = "rollback"
	OnAutocommit = "autocommit"
	OnSetVars    = "setvars"
	OnInitDB     = "initdb"
	OnPing       = "ping"
	OnConnect    = "connect" // the slice's servers refuse new connections while the command runs (action "refuse")

	ActErr         = "err"
	ActCloseBefore = "close_before"
	ActCloseAfter  = "close_after"
	ActStall       = "stall"
	ActRefuse      = "refuse"
)

// Fault is armed before its command is sent and fires at most once, on the
// first matching backend command on a server of the chosen slice.
type Fault struct {
	On     string `json:"on"`
	Slice  int    `json:"slice"` // index modulo the number of slices
	Action string `json:"action"`
}

// Cmd is one step of a history.
type Cmd struct {
	S    int    `json:"s"`              // session index
	K    string `json:"k"`              // kind
	Keys []int  `json:"keys,omitempty"` // shard key values of a sharded statement
	N    int    `json:"n,omitempty"`    // savepoint number / variable value / database index
	F    *Fault `json:"f,omitempty"`
}

// Case is a whole history with its configuration.
type Case struct {
	Slices      int    `json:"slices"`   // 1..3
	Replicas    int    `json:"replicas"` // per slice
	Cap         int    `json:"cap"`
	MaxCap      int    `json:"max_cap"`
	KeepSession bool   `json:"keep_session"`
	RWSplit     []bool `json:"rw_split"` // per session; len = number of sessions
	MaxExecMs   int    `json:"max_exec_ms"`
	StallMs     int    `json:"stall_ms"`
	Cmds        []Cmd  `json:"cmds"`
}

// ConnKey identifies a backend connection.
type ConnKey struct {
	Server string
	ID     uint32
}

func (k ConnKey) String() string { return fmt.Sprintf("%s#%d", k.Server, k.ID) }

// PoolStat is a snapshot of one pool's counters.
type PoolStat struct {
	Name      string // "slice-0/master", "slice-0/replica0"
	Slice     string
	Role      string
	InUse     int64
	Available int64
	Capacity  int64
	Active    int64
}

func (p PoolStat) String() string {
	return fmt.Sprintf("%s{inuse=%d avail=%d cap=%d}", p.Name, p.InUse, p.Available, p.Capacity)
}

// Step is what happened for one command.
type Step struct {
	Idx               int
	Cmd               Cmd
	Tag               string // literal carried by the statement (empty for non-statements)
	SQL               string
	NoSession         bool // the session was already gone: command not executed
	OK                bool // OK packet or result set
	Err               *rawclient.Error
	IOErr             string // transport error (proxy closed the connection, timeout)
	Status            uint16 // server status flags of the OK/EOF packet
	FaultArmed        bool
	FaultFired        bool
	FaultConn         ConnKey
	ProxyClosed       bool              // the proxy closed the client socket during/after this command (observed as EOF)
	ServedAfterErr    bool              // after an error and a generous wait the session still answered a COM_PING
	ProbeInconclusive bool              // neither a close nor an answer was seen
	Events            []fakemysql.Event // backend events logged while the command ran, in global order
	Pools             []PoolStat        // counters after the command
	OldPools          []PoolStat        // counters of pools of previous namespace generations (reload), after the command
	Gen               int               // namespace generation (number of reloads so far) when the command ran
	NewConns          []ConnKey         // backend connections accepted while the command ran (synchronous with the proxy's dial)
	Dur               time.Duration     // wall time of the command including waits of the runner
}

// Trace is the result of running a case.
type Trace struct {
	Steps      []Step
	SliceNames []string
	// all events of the whole run (including those after the last command), global order
	AllEvents []fakemysql.Event
	// Final observations (C19)
	FinalPools                             []PoolStat // all generations
	FinalOpen                              []OpenConn // backend connections still open at the end that are not health/kill connections
	Quiesced                               bool       // pools reached InUse==0 && Available==Capacity
	StillChanging                          bool       // counters were still changing when the deadline passed (inconclusive)
	FreshOK                                bool       // a fresh session could run a statement on every slice
	FreshErr                               string
	SetupErr                               string
	HardDrops                              int // sessions closed with RST: the proxy-side close cannot be observed
	SetupDur, StepsDur, FinalDur, TotalDur time.Duration
	Unobserved                             int // sessions closed with FIN / COM_QUIT whose proxy-side close was not seen within the deadline
}

// OpenConn is a backend connection still open at the end.
type OpenConn struct {
	Key        ConnKey
	Slice      string
	Role       string
	InTrans    bool
	Autocommit bool
	Class      string // session, health, kill, idle
}

var caseCounter int64

// cluster-wide armed fault
type armed struct {
	mu        sync.Mutex
	f         *Fault
	slice     string
	tag       string
	stallMs   int
	fired     bool
	firedAt   time.Time
	conn      ConnKey
	sessConns map[ConnKey]bool // connections that have carried a tagged statement
}

func lowerTrim(s string) string {
	return strings.ToLower(strings.TrimRight(strings.TrimSpace(fakemysql.StripLeadingComments(s)), "; "))
}

func (a *armed) hook(srv *fakemysql.Server) func(c *fakemysql.Conn, kind, sql string) *fakemysql.Reply {
	return func(c *fakemysql.Conn, kind, sql string) *fakemysql.Reply {
		a.mu.Lock()
		defer a.mu.Unlock()
		key := ConnKey{srv.Name, c.ID}
		if kind == "query" && IsTagged(sql) {
			a.sessConns[key] = true
		}
		f := a.f
		if f == nil || a.fired || srv.Slice != a.slice {
			return nil
		}
		low := ""
		if kind == "query" {
			low = lowerTrim(sql)
		}
		match := false
		switch f.On {
		case OnStmt:
			match = kind == "query" && a.tag != "" && strings.Contains(sql, a.tag)
		case OnBegin:
			match = low == "begin"
		case OnCommit:
			match = low == "commit"
		case OnRollback:
			match = low == "rollback"
		case OnAutocommit:
			match = strings.HasPrefix(low, "set autocommit")
		case OnSetVars:
			match = kind == "query" && strings.HasPrefix(low, "set ") && !strings.HasPrefix(low, "set autocommit")
		case OnInitDB:
			match = kind == "initdb"
		case OnPing:
			match = kind == "ping" && a.sessConns[key]
		}
		if !match {
			return nil
		}
		a.fired = true
		a.firedAt = time.Now()
		a.conn = key
		var r fakemysql.Reply
		switch f.Action {
		case ActErr:
			r.Err = &fakemysql.SQLErr{Code: 1105, State: "HY000", Message: "injected fault"}
		case ActCloseBefore:
			r.CloseBefore = true
		case ActCloseAfter:
			if kind == "query" {
				r = fakemysql.DefaultReply(fakemysql.StripLeadingComments(sql))
			}
			r.CloseAfter = true
		case ActStall:
			if kind == "query" {
				r = fakemysql.DefaultReply(fakemysql.StripLeadingComments(sql))
			}
			r.Delay = time.Duration(a.stallMs) * time.Millisecond
		}
		return &r
	}
}

type poolRef struct {
	name, slice, role string
	pool              backend.ConnectionPool
}

func poolsOf(ns *server.Namespace, sliceNames []string) []poolRef {
	var res []poolRef
	for _, sn := range sliceNames {
		sl := ns.GetSlice(sn)
		if sl == nil {
			continue
		}
		if sl.Master != nil {
			for _, n := range sl.Master.Nodes {
				res = append(res, poolRef{sn + "/master", sn, "master", n.ConnPool})
			}
		}
		if sl.Slave != nil {
			for i, n := range sl.Slave.Nodes {
				res = append(res, poolRef{fmt.Sprintf("%s/replica%d", sn, i), sn, "replica", n.ConnPool})
			}
		}
	}
	return res
}

func snap(refs []poolRef) []PoolStat {
	res := make([]PoolStat, 0, len(refs))
	for _, r := range refs {
		res = append(res, PoolStat{Name: r.name, Slice: r.slice, Role: r.role, InUse: r.pool.InUse(), Available: r.pool.Available(),
			Capacity: r.pool.Capacity(), Active: r.pool.Active()})
	}
	return res
}

// Quiet reports whether every pool has nothing handed out and is full.
func Quiet(ps []PoolStat) bool {
	for _, p := range ps {
		if p.InUse != 0 || p.Available != p.Capacity {
			return false
		}
	}
	return true
}

func samePools(a, b []PoolStat) bool {
	if len(a) != len(b) {
		return false
	}
	for i := range a {
		if a[i] != b[i] {
			return false
		}
	}
	return true
}

// SQLFor builds the statement text of a command.
func SQLFor(c Cmd, tag string, nslices int) string {
	keys := func() string {
		ks := c.Keys
		if len(ks) == 0 {
			ks = []int{0}
		}
		var parts []string
		for _, k := range ks {
			if k < 0 {
				k = -k
			}
			parts = append(parts, fmt.Sprint(k))
		}
		return strings.Join(parts, ",")
	}
	switch c.K {
	case KBegin:
		return "begin"
	case KStart:
		return "start transaction"
	case KCommit:
		return "commit"
	case KRollback:
		return "rollback"
	case KAc0:
		return "set autocommit=0"
	case KAc1:
		return "set autocommit=1"
	case KSavepoint:
		return fmt.Sprintf("savepoint sp%d", c.N%3)
	case KRollbackTo:
		return fmt.Sprintf("rollback to sp%d", c.N%3)
	case KRelease:
		return fmt.Sprintf("release savepoint sp%d", c.N%3)
	case KURead, KDropFlight:
		return fmt.Sprintf("select * from tu where id=%d and tag='%s'", c.N%50, tag)
	case KUWrite:
		return fmt.Sprintf("update tu set v=%d where id=1 and tag='%s'", c.N%50, tag)
	case KUForUpdate:
		return fmt.Sprintf("select * from tu where id=%d and tag='%s' for update", c.N%50, tag)
	case KUBig:
		return fmt.Sprintf("select * from tu where id=%d and pad='big' and tag='%s'", c.N%50, tag)
	case KUMulti:
		return fmt.Sprintf("select * from tu where id=%d and pad='two' and tag='%s'", c.N%50, tag)
	case KSRead:
		return fmt.Sprintf("select * from ts where id in (%s) and tag='%s'", keys(), tag)
	case KSWrite:
		return fmt.Sprintf("update ts set v=%d where id in (%s) and tag='%s'", c.N%50, keys(), tag)
	case KSForUpdate:
		return fmt.Sprintf("select * from ts where id in (%s) and tag='%s' for update", keys(), tag)
	case KUse:
		return "use " + []string{"db", "db2"}[c.N%2]
	case KSetVar:
		return fmt.Sprintf("set sql_select_limit=%d", 100+c.N%5)
	case KSetUser:
		return fmt.Sprintf("set @uv=%d", c.N%7)
	}
	return ""
}

// IsStmt reports whether kind k is a tagged statement sent to backends.
func IsStmt(k string) bool {
	switch k {
	case KURead, KUWrite, KUForUpdate, KUBig, KUMulti, KSRead, KSWrite, KSForUpdate, KDropFlight:
		return true
	}
	return false
}

// IsSharded reports whether kind k addresses the sharded table.
func IsSharded(k string) bool { return k == KSRead || k == KSWrite || k == KSForUpdate }

// Options tune the runner.
type Options struct {
	// Mutate lets a property adjust the namespace before it is installed.
	Mutate func(ns *models.Namespace)
	// FinalLedger runs the end-of-history disconnect + quiescence observation (C19).
	FinalLedger bool
	// ClientTimeout bounds the wait for a response (default 10 s).
	ClientTimeout time.Duration
	// ProbeCloseOnErr: after an error response wait up to this long (early exit) for the proxy to close the socket
	// (Step.ProxyClosed). If the socket is still open then, one COM_PING decides: answered normally ->
	// Step.ServedAfterErr (the session demonstrably keeps serving), EOF/reset -> ProxyClosed (late close), no answer ->
	// Step.ProbeInconclusive.
	ProbeCloseOnErr time.Duration
	// ProbeCloseIf restricts the probe to error messages it accepts (nil: every error).
	ProbeCloseIf func(msg string) bool
}

type sess struct {
	c     *rawclient.Conn
	alive bool
}

// waitEOF reads until the proxy closes the socket; true if EOF/reset was seen before the deadline.
func waitEOF(c *rawclient.Conn, d time.Duration) bool {
	nc := c.NetConn()
	nc.SetReadDeadline(time.Now().Add(d))
	buf := make([]byte, 4096)
	for {
		_, err := nc.Read(buf)
		if err != nil {
			if ne, ok := err.(net.Error); ok && ne.Timeout() {
				return false
			}
			return true
		}
	}
}

// Live gives an oracle access to the backends after the history has run; Close tears the fixture down.
type Live struct {
	cl      *proxyfix.Cluster
	cleanup []func()
}

// IsOpen reports whether the backend still has the connection open.
func (l *Live) IsOpen(k ConnKey) bool {
	if l == nil || l.cl == nil {
		return false
	}
	for _, srv := range l.cl.All() {
		if srv.Name != k.Server {
			continue
		}
		for _, oc := range srv.OpenConns() {
			if oc.ID == k.ID {
				return true
			}
		}
	}
	return false
}

// WaitClosed polls until the backend connection is gone or the deadline passes.
func (l *Live) WaitClosed(k ConnKey, d time.Duration) bool {
	end := time.Now().Add(d)
	for l.IsOpen(k) {
		if time.Now().After(end) {
			return false
		}
		time.Sleep(2 * time.Millisecond)
	}
	return true
}

// Events returns all backend events so far.
func (l *Live) Events() []fakemysql.Event {
	if l == nil || l.cl == nil {
		return nil
	}
	return l.cl.Events()
}

// Close releases clients, namespace and backends.
func (l *Live) Close() {
	if l == nil {
		return
	}
	for i := len(l.cleanup) - 1; i >= 0; i-- {
		l.cleanup[i]()
	}
	l.cleanup = nil
}

// Run interprets the case. The returned trace is always usable; SetupErr is set when the fixture failed.
func Run(c Case, opt Options) *Trace {
	tr, live := RunLive(c, opt)
	live.Close()
	return tr
}

// RunLive is Run that leaves the fixture up until Live.Close is called.
func RunLive(c Case, opt Options) (*Trace, *Live) {
	live := &Live{}
	tr := runLive(c, opt, live)
	return tr, live
}

func runLive(c Case, opt Options, live *Live) *Trace {
	tr := &Trace{}
	t0 := time.Now()
	defer func() { tr.TotalDur = time.Since(t0) }()
	px, err := proxyfix.Shared()
	if err != nil {
		tr.SetupErr = "proxy: " + err.Error()
		return tr
	}
	n := atomic.AddInt64(&caseCounter, 1)
	nsName := proxyfix.UniqueName("hist", n)
	nslices := c.Slices
	if nslices < 1 {
		nslices = 1
	}
	var specs []proxyfix.SliceSpec
	for i := 0; i < nslices; i++ {
		specs = append(specs, proxyfix.SliceSpec{Name: fmt.Sprintf("slice-%d", i), Replicas: c.Replicas, Capacity: c.Cap, MaxCapacity: c.MaxCap})
		tr.SliceNames = append(tr.SliceNames, fmt.Sprintf("slice-%d", i))
	}
	cl, err := proxyfix.NewCluster(specs)
	if err != nil {
		tr.SetupErr = "cluster: " + err.Error()
		return tr
	}
	live.cl = cl
	live.cleanup = append(live.cleanup, cl.Abort) // connection reset: no TIME_WAIT sockets on either side
	arm := &armed{sessConns: map[ConnKey]bool{}, stallMs: c.StallMs}
	for _, s := range cl.All() {
		s.Fault = arm.hook(s)
		s.Handler = streamedReplies
	}
	nsess := len(c.RWSplit)
	if nsess == 0 {
		nsess = 1
	}
	mkNS := func(gen int) *models.Namespace {
		var users []*models.User
		for i := 0; i < nsess; i++ {
			sp := 0
			if i < len(c.RWSplit) && c.RWSplit[i] {
				sp = 1
			}
			users = append(users, &models.User{UserName: fmt.Sprintf("%su%d", nsName, i), Password: "pw", RWFlag: models.ReadWrite, RWSplit: sp})
		}
		ns := proxyfix.BaseNamespace(nsName, cl.SliceConfigs(specs), users)
		ns.AllowedDBS = map[string]bool{"db": true, "db2": true}
		ns.SetForKeepSession = c.KeepSession
		ns.MaxSqlExecuteTime = c.MaxExecMs
		ns.CheckSelectLock = true
		ns.SlowSQLTime = fmt.Sprint(100000 + gen) // a harmless change per generation
		if nslices >= 2 {
			loc := make([]int, nslices)
			for i := range loc {
				loc[i] = 1
			}
			ns.ShardRules = []*models.Shard{{DB: "db", Table: "ts", Type: "hash", Key: "id", Locations: loc, Slices: append([]string{}, tr.SliceNames...)}}
		}
		if opt.Mutate != nil {
			opt.Mutate(ns)
		}
		return ns
	}
	if err := px.Install(mkNS(0)); err != nil {
		tr.SetupErr = "install: " + err.Error()
		return tr
	}
	// runs last: clients are reset first, then the backends (Abort), then the namespace goes
	live.cleanup = append([]func(){func() { px.Remove(nsName) }}, live.cleanup...)
	gens := [][]poolRef{poolsOf(px.Manager.GetNamespace(nsName), tr.SliceNames)}
	curPools := func() []PoolStat { return snap(gens[len(gens)-1]) }
	oldPools := func() []PoolStat {
		var res []PoolStat
		for g := 0; g < len(gens)-1; g++ {
			for _, p := range snap(gens[g]) {
				p.Name = fmt.Sprintf("gen%d:%s", g, p.Name)
				res = append(res, p)
			}
		}
		return res
	}

	sessions := make([]*sess, nsess)
	live.cleanup = append(live.cleanup, func() {
		for _, s := range sessions {
			if s != nil && s.c != nil {
				if tc, ok := s.c.NetConn().(*net.TCPConn); ok && s.alive {
					tc.SetLinger(0) // the history is over: reset instead of leaving a TIME_WAIT socket behind
				}
				s.c.Close()
			}
		}
	})
	dial := func(i int) (*rawclient.Conn, error) {
		cn, err := px.Dial(fmt.Sprintf("%su%d", nsName, i), "pw", "db", 0)
		if err == nil {
			cn.Timeout = 10 * time.Second
			if opt.ClientTimeout > 0 {
				cn.Timeout = opt.ClientTimeout
			}
		}
		return cn, err
	}
	for i := range sessions {
		cn, err := dial(i)
		if err != nil {
			tr.SetupErr = "dial: " + err.Error()
			return tr
		}
		sessions[i] = &sess{c: cn, alive: true}
	}

	marks := func() map[string]int {
		m := map[string]int{}
		for _, s := range cl.All() {
			_, n := s.EventsSince(1 << 30)
			m[s.Name] = n
		}
		return m
	}
	accepted := func() map[string]uint32 {
		m := map[string]uint32{}
		for _, s := range cl.All() {
			m[s.Name] = s.Accepted()
		}
		return m
	}
	newConns := func(before map[string]uint32) []ConnKey {
		var res []ConnKey
		for _, s := range cl.All() {
			for id := before[s.Name] + 1; id <= s.Accepted(); id++ {
				res = append(res, ConnKey{s.Name, id})
			}
		}
		return res
	}
	since := func(m map[string]int) []fakemysql.Event {
		var all []fakemysql.Event
		for _, s := range cl.All() {
			ev, _ := s.EventsSince(m[s.Name])
			all = append(all, ev...)
		}
		sort.Slice(all, func(i, j int) bool { return all[i].Seq < all[j].Seq })
		return all
	}

	tr.SetupDur = time.Since(t0)
	for idx, cmd := range c.Cmds {
		stepStart := time.Now()
		st := Step{Idx: idx, Cmd: cmd, Gen: len(gens) - 1}
		if cmd.K == KReload {
			m := marks()
			if err := px.Install(mkNS(len(gens))); err != nil {
				tr.SetupErr = "reload: " + err.Error()
				return tr
			}
			gens = append(gens, poolsOf(px.Manager.GetNamespace(nsName), tr.SliceNames))
			st.OK = true
			st.Gen = len(gens) - 1
			st.Events = since(m)
			st.Pools = curPools()
			st.OldPools = oldPools()
			tr.Steps = append(tr.Steps, st)
			continue
		}
		si := cmd.S % nsess
		if si < 0 {
			si = -si
		}
		st.Cmd.S = si
		s := sessions[si]
		if !s.alive {
			st.NoSession = true
			st.Pools = curPools()
			st.OldPools = oldPools()
			tr.Steps = append(tr.Steps, st)
			continue
		}
		if IsStmt(cmd.K) {
			st.Tag = fmt.Sprintf("t%de", idx)
		}
		st.SQL = SQLFor(cmd, st.Tag, nslices)
		var refusedBefore uint32
		if cmd.F != nil {
			fs := cmd.F.Slice % nslices
			if fs < 0 {
				fs = -fs
			}
			arm.mu.Lock()
			arm.f, arm.slice, arm.tag, arm.fired = cmd.F, tr.SliceNames[fs], "'"+st.Tag+"'", false
			if st.Tag == "" {
				arm.tag = ""
			}
			arm.mu.Unlock()
			st.FaultArmed = true
			if cmd.F.On == OnConnect {
				for _, srv := range cl.All() {
					if srv.Slice == tr.SliceNames[fs] {
						refusedBefore += srv.Refused()
						srv.RefuseConnections(true)
					}
				}
			}
		}
		m := marks()
		acc := accepted()
		setRes := func(r *rawclient.Result, err error) {
			if err != nil {
				st.IOErr = err.Error()
				return
			}
			if r.Err != nil {
				st.Err = r.Err
				return
			}
			st.OK = true
			st.Status = r.Status
		}
		switch cmd.K {
		case KPing:
			setRes(s.c.Ping())
		case KQuit:
			s.c.ResetSeq()
			s.c.WritePacket([]byte{0x01})
			st.ProxyClosed = waitEOF(s.c, 2*time.Second)
			if !st.ProxyClosed {
				tr.Unobserved++
			}
			s.c.Close()
			s.alive = false
			st.OK = true
		case KDrop:
			if tc, ok := s.c.NetConn().(*net.TCPConn); ok {
				tc.CloseWrite()
			}
			st.ProxyClosed = waitEOF(s.c, 2*time.Second)
			if !st.ProxyClosed {
				tr.Unobserved++
			}
			s.c.Close()
			s.alive = false
			st.OK = true
		case KDropFlight:
			s.c.ResetSeq()
			s.c.WritePacket(append([]byte{0x03}, st.SQL...))
			if tc, ok := s.c.NetConn().(*net.TCPConn); ok {
				tc.CloseWrite()
			}
			// the proxy can still answer on the half-closed socket: keep the first packet (an error text is
			// evidence for the classifiers), discard the rest
			st.OK = false
			if p, err := s.c.ReadPacket(); err == nil && len(p) > 0 {
				if p[0] == 0xff {
					e := &rawclient.Error{}
					if len(p) >= 3 {
						e.Code = uint16(p[1]) | uint16(p[2])<<8
					}
					pos := 3
					if len(p) >= 9 && p[3] == '#' {
						e.State = string(p[4:9])
						pos = 9
					}
					e.Message = string(p[pos:])
					st.Err = e
				} else {
					st.OK = true
				}
			}
			st.ProxyClosed = waitEOF(s.c, 2*time.Second)
			if !st.ProxyClosed {
				tr.Unobserved++
			}
			s.c.Close()
			s.alive = false
		case KDropHard:
			if tc, ok := s.c.NetConn().(*net.TCPConn); ok {
				tc.SetLinger(0)
			}
			s.c.Close()
			s.alive = false
			st.OK = true
			tr.HardDrops++
		default:
			setRes(s.c.Exec(st.SQL))
			if (cmd.K == KUBig || cmd.K == KUMulti) && st.IOErr == "" {
				// A streamed reply is recycled by the proxy after its last byte has been written, i.e. possibly after the
				// client has read it. Commands of one session are handled one after the other, so a completed COM_PING
				// round trip means that the statement is fully finished on the proxy's side.
				if _, err := s.c.Ping(); err != nil {
					st.IOErr = "sync ping: " + err.Error()
				}
			}
		}
		if st.Err != nil && opt.ProbeCloseOnErr > 0 && s.alive && (opt.ProbeCloseIf == nil || opt.ProbeCloseIf(st.Err.Message)) {
			if waitEOF(s.c, opt.ProbeCloseOnErr) {
				st.ProxyClosed = true
			} else {
				s.c.NetConn().SetReadDeadline(time.Time{})
				r, err := s.c.Ping()
				switch {
				case err == nil && r != nil:
					st.ServedAfterErr = true
				case err != nil && (strings.Contains(err.Error(), "EOF") || strings.Contains(err.Error(), "reset") || strings.Contains(err.Error(), "broken pipe")):
					st.ProxyClosed = true
				default:
					st.ProbeInconclusive = true
				}
			}
			if !st.ServedAfterErr {
				s.c.Close()
				s.alive = false
			}
		}
		if st.IOErr != "" {
			// the proxy closed the connection (or the client timed out): the session is gone
			st.ProxyClosed = strings.Contains(st.IOErr, "EOF") || strings.Contains(st.IOErr, "reset")
			s.c.Close()
			s.alive = false
		}
		if cmd.F != nil {
			arm.mu.Lock()
			st.FaultFired, st.FaultConn = arm.fired, arm.conn
			firedAt := arm.firedAt
			arm.f = nil
			arm.mu.Unlock()
			if cmd.F.On == OnConnect {
				var refusedAfter uint32
				fsl := cmd.F.Slice % nslices
				if fsl < 0 {
					fsl = -fsl
				}
				for _, srv := range cl.All() {
					if srv.Slice == tr.SliceNames[fsl] {
						srv.RefuseConnections(false)
						refusedAfter += srv.Refused()
					}
				}
				if refusedAfter > refusedBefore {
					st.FaultFired = true
					st.FaultConn = ConnKey{tr.SliceNames[fsl] + "/master", 0}
				}
			}
			if st.FaultFired && cmd.F.Action == ActStall {
				// Scheduling, not an oracle: when max_sql_execute_time expires the proxy answers the client but a
				// goroutine of it keeps reading the stalled backend connection until the reply arrives. Using that
				// connection again before then is a data race inside the proxy with nondeterministic outcome
				// (observed: COMMIT / Session.Close hanging for ever). The next command is therefore sent only
				// after the stalled reply has been delivered.
				if d := time.Until(firedAt.Add(time.Duration(c.StallMs)*time.Millisecond + 100*time.Millisecond)); d > 0 {
					time.Sleep(d)
				}
			}
		}
		st.Events = since(m)
		st.NewConns = newConns(acc)
		st.Dur = time.Since(stepStart)
		st.Pools = curPools()
		st.OldPools = oldPools()
		tr.Steps = append(tr.Steps, st)
	}

	tr.StepsDur = time.Since(t0) - tr.SetupDur
	finalStart := time.Now()
	defer func() { tr.FinalDur = time.Since(finalStart) }()
	if opt.FinalLedger {
		// every remaining client goes away; wait until the proxy has closed each session
		for _, s := range sessions {
			if s.alive {
				if tc, ok := s.c.NetConn().(*net.TCPConn); ok {
					tc.CloseWrite()
				}
				if !waitEOF(s.c, 2*time.Second) {
					tr.Unobserved++ // not observed: fall back to polling
				}
				s.c.Close()
				s.alive = false
			}
		}
		all := func() []PoolStat {
			var res []PoolStat
			for g := range gens {
				for _, p := range snap(gens[g]) {
					if len(gens) > 1 {
						p.Name = fmt.Sprintf("gen%d:%s", g, p.Name)
					}
					res = append(res, p)
				}
			}
			return res
		}
		openNow := func() []OpenConn {
			var res []OpenConn
			for _, srv := range cl.All() {
				for _, oc := range srv.OpenConns() {
					res = append(res, OpenConn{Key: ConnKey{srv.Name, oc.ID}, Slice: srv.Slice, Role: srv.Role, InTrans: oc.InTrans, Autocommit: oc.Autocommit})
				}
			}
			sort.Slice(res, func(i, j int) bool { return res[i].Key.String() < res[j].Key.String() })
			return res
		}
		dirty := func(oc []OpenConn) bool {
			for _, o := range oc {
				if o.InTrans || !o.Autocommit {
					return true
				}
			}
			return false
		}
		// Poll. When every session close was observed on its socket the counters are already final and the
		// loop ends on the first iteration in the good case; a state that is not quiet must stay unchanged for
		// a while before it is called stuck (stalled backend replies and RST-closed sessions finish asynchronously).
		start := time.Now()
		last := all()
		lastOpen := openNow()
		lastChange := start
		// every stall has been waited out by the loop above and every observed session close is complete, so the
		// counters are final unless a session was closed with RST or its close was not seen
		settle := 200 * time.Millisecond
		if tr.HardDrops > 0 || tr.Unobserved > 0 {
			settle = 1500 * time.Millisecond
		}
		for {
			cur := all()
			curOpen := openNow()
			if !samePools(cur, last) || fmt.Sprint(curOpen) != fmt.Sprint(lastOpen) {
				last, lastOpen, lastChange = cur, curOpen, time.Now()
			}
			if Quiet(cur) && !dirty(curOpen) {
				tr.Quiesced = true
				break
			}
			if time.Since(lastChange) > settle {
				// stuck. A backend connection that still looks open inside a transaction may only be waiting for its
				// (loaded) server goroutine to notice that the proxy closed the socket: give those a little longer.
				if !dirty(curOpen) || time.Since(start) > 2*time.Second {
					break
				}
			}
			if time.Since(start) > 10*time.Second {
				tr.StillChanging = true
				break
			}
			time.Sleep(5 * time.Millisecond)
		}
		tr.FinalPools = last
		tr.AllEvents = cl.Events()
		cls := ClassifyConns(tr.AllEvents)
		for _, oc := range lastOpen {
			oc.Class = cls[oc.Key]
			if oc.Class == "" {
				oc.Class = "idle"
			}
			tr.FinalOpen = append(tr.FinalOpen, oc)
		}
		// a fresh session must be able to use every slice
		if cn, err := dial(0); err != nil {
			tr.FreshErr = "dial: " + err.Error()
		} else {
			cn.Timeout = 10 * time.Second
			ok := true
			for k := 0; k < nslices && ok; k++ {
				q := fmt.Sprintf("select * from ts where id in (%d) and tag='fresh%d'", k, k)
				if nslices < 2 {
					q = "select * from tu where id=1 and tag='fresh'"
				}
				// a pooled connection whose socket an injected fault closed fails on its first use and is then
				// discarded: that is the fault's residue, not a leak, so try once per possible pooled connection
				good := false
				for attempt := 0; attempt < c.MaxCap+3 && !good; attempt++ {
					r, err := cn.Exec(q)
					if err != nil {
						// the proxy closes a session whose unsharded statement met a dead backend connection
						tr.FreshErr = "io: " + err.Error()
						cn.Close()
						if cn, err = dial(0); err != nil {
							tr.FreshErr = "dial: " + err.Error()
							break
						}
					} else if r.Err != nil {
						tr.FreshErr = r.Err.Error()
					} else {
						good = true
					}
				}
				if !good {
					ok = false
				} else {
					tr.FreshErr = ""
				}
			}
			tr.FreshOK = ok
			if cn != nil {
				cn.Quit()
			}
		}
	} else {
		tr.AllEvents = cl.Events()
	}
	return tr
}

// ClassifyConns labels every backend connection seen in the log:
// "session" (carried a tagged statement or transaction control), "kill"
// (KILL QUERY helper connection), "health" (only ping / select 1), "bare"
// (connected, never used).
func ClassifyConns(evs []fakemysql.Event) map[ConnKey]string {
	res := map[ConnKey]string{}
	for _, e := range evs {
		k := ConnKey{e.Server, e.ConnID}
		cur := res[k]
		switch e.Kind {
		case "connect", "close", "quit":
			if cur == "" {
				res[k] = "bare"
			}
		case "ping":
			if cur == "" || cur == "bare" {
				res[k] = "health"
			}
		case "query":
			low := lowerTrim(e.SQL)
			switch {
			case low == "select 1":
				if cur == "" || cur == "bare" {
					res[k] = "health"
				}
			case strings.HasPrefix(low, "kill "):
				if cur != "session" {
					res[k] = "kill"
				}
			default:
				res[k] = "session"
			}
		default:
			res[k] = "session"
		}
	}
	return res
}

// SessionEvents filters the events of a step down to those on connections that are not health/kill connections
// and drops connect/close bookkeeping.
func SessionEvents(evs []fakemysql.Event, cls map[ConnKey]string) []fakemysql.Event {
	var res []fakemysql.Event
	for _, e := range evs {
		c := cls[ConnKey{e.Server, e.ConnID}]
		if c == "health" || c == "kill" || c == "bare" {
			continue
		}
		if e.Kind == "connect" || e.Kind == "close" || e.Kind == "quit" {
			continue
		}
		res = append(res, e)
	}
	return res
}

// IsTagged reports whether sql is a client statement of a history (it names the tag column).
func IsTagged(sql string) bool {
	return strings.Contains(sql, "tag='") || strings.Contains(sql, "`tag`=")
}

var bigCell = []byte(strings.Repeat("x", 2<<20))

// streamedReplies is the backends' query handler: the two statement kinds whose reply the proxy cannot buffer and
// forward as one result but streams through Session.continueConn.
func streamedReplies(c *fakemysql.Conn, sql string) fakemysql.Reply {
	one := func(name string) *fakemysql.ResultSet {
		return &fakemysql.ResultSet{Cols: []fakemysql.Column{{Name: name, Type: fakemysql.TypeLongLong, Flags: 0x81, Charset: 63, Length: 1}}, Rows: [][][]byte{{[]byte("1")}}}
	}
	switch {
	case strings.Contains(sql, "pad='big'"):
		// 9 rows x 2 MiB: more than one 16 MiB chunk
		return fakemysql.Reply{Result: &fakemysql.ResultSet{
			Cols:   []fakemysql.Column{{Name: "pad", Type: fakemysql.TypeBlob, Charset: 63, Length: 1 << 24}},
			NRows:  9,
			RowGen: func(i int) [][]byte { return [][]byte{bigCell} },
		}}
	case strings.Contains(sql, "pad='two'"):
		return fakemysql.Reply{Result: one("a"), More: []fakemysql.Reply{{Result: one("b")}}}
	}
	return fakemysql.Reply{Unhandled: true}
}

// HasTag reports whether sql carries the literal tag.
func HasTag(sql, tag string) bool { return tag != "" && strings.Contains(sql, "'"+tag+"'") }

// Key of an event's connection.
func Key(e fakemysql.Event) ConnKey { return ConnKey{e.Server, e.ConnID} }

// Low is the lower-cased, trimmed statement text of a query event.
func Low(e fakemysql.Event) string { return lowerTrim(e.SQL) }

// StatusInTrans / StatusAutocommit as seen by the client.
const (
	StatusInTrans    = 0x0001
	StatusAutocommit = 0x0002
)

// Dump renders a trace for debugging (VERIF_TRACE=1).
func Dump(tr *Trace) string {
	var b strings.Builder
	cls := ClassifyConns(tr.AllEvents)
	for _, st := range tr.Steps {
		f := ""
		if st.Cmd.F != nil {
			f = fmt.Sprintf(" fault=%s/%s@%d fired=%v on %s", st.Cmd.F.On, st.Cmd.F.Action, st.Cmd.F.Slice, st.FaultFired, st.FaultConn)
		}
		fmt.Fprintf(&b, "#%d s%d %s %q ok=%v err=%v io=%q status=%x closed=%v nosess=%v%s\n", st.Idx, st.Cmd.S, st.Cmd.K, st.SQL, st.OK, st.Err, st.IOErr, st.Status, st.ProxyClosed, st.NoSession, f)
		for _, e := range st.Events {
			fmt.Fprintf(&b, "      %d %s#%d [%s] %s %q %s ac=%v tx=%v\n", e.Seq, e.Server, e.ConnID, cls[Key(e)], e.Kind, e.SQL, e.Outcome, e.Autocommit, e.InTrans)
		}
		var ps []string
		for _, p := range append(append([]PoolStat{}, st.Pools...), st.OldPools...) {
			if p.InUse != 0 || p.Available != p.Capacity {
				ps = append(ps, p.String())
			}
		}
		fmt.Fprintf(&b, "      pools(non-quiet) %v\n", ps)
	}
	fmt.Fprintf(&b, "final pools %v\nopen %v\nquiesced=%v changing=%v fresh=%v %s\n", tr.FinalPools, tr.FinalOpen, tr.Quiesced, tr.StillChanging, tr.FreshOK, tr.FreshErr)
	return b.String()
}
