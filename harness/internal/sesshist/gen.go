package sesshist

import (
	"pgregory.net/rapid"
)

// Profile selects what a generated history may contain.
type Profile struct {
	MinCmds, MaxCmds int
	KeepSession      int  // 0 never, 1 always, 2 drawn (about one in three)
	Faults           bool // attach backend faults to commands
	RefuseFaults     bool // include "the slice refuses new connections while the command runs"
	FaultPct         int  // chance (percent) that a command carries a fault (default 30)
	Reload           bool // namespace configuration changes
	ReloadWeight     int  // weight of a configuration change among the commands (default 7)
	Disconnects      bool // quit / drop in the middle of the history
	HardDrops        bool // RST disconnects (need polling at the end)
	Ping             bool
	Streamed         bool // unsharded reads whose reply exceeds 16 MiB / carries two result sets
	MaxExecMs        int
	StallMs          int
	OddAutocommit    bool // SET autocommit=1 inside a BEGIN-started transaction (rare)
}

type gsess struct {
	alive  bool
	txOpen bool
	ac0    bool
	held   map[int]bool // slices believed to be held (tx or keep-session pins)
	vars   bool         // a session variable changed since the last backend use
	doomed bool         // keep-session client that was inside a transaction when the namespace changed: its next command ends it
}

func (g *gsess) inTx() bool { return g.txOpen || g.ac0 }

// RawCmd is drawn independently of the history before it, so that rapid can
// delete and simplify single commands; Build maps it to a command with weights
// that depend on a rough model of the session.
type RawCmd struct {
	S, R, Stmt, N, NKeys             int
	Keys                             [3]int
	FP, FOn, FAct, FNear, FPick, FSl int
}

func genRaw(t *rapid.T) RawCmd {
	var r RawCmd
	r.S = rapid.IntRange(0, 2).Draw(t, "s")
	r.R = rapid.IntRange(0, 999).Draw(t, "r")
	r.Stmt = rapid.IntRange(0, 7).Draw(t, "stmt")
	r.N = rapid.IntRange(0, 9).Draw(t, "n")
	r.NKeys = rapid.SampledFrom([]int{1, 1, 2, 2, 3}).Draw(t, "nkeys")
	for i := range r.Keys {
		r.Keys[i] = rapid.IntRange(0, 8).Draw(t, "key")
	}
	r.FP = rapid.IntRange(0, 99).Draw(t, "fp")
	r.FOn = rapid.IntRange(0, 11).Draw(t, "fon")
	r.FAct = rapid.IntRange(0, 5).Draw(t, "fact")
	r.FNear = rapid.IntRange(0, 9).Draw(t, "fnear")
	r.FPick = rapid.IntRange(0, 5).Draw(t, "fpick")
	r.FSl = rapid.IntRange(0, 2).Draw(t, "fsl")
	return r
}

// Gen draws a case. It keeps a rough model of every session only to bias the
// draw towards interesting histories; nothing in the oracles depends on it.
func Gen(t *rapid.T, p Profile) Case {
	c := Case{MaxExecMs: p.MaxExecMs, StallMs: p.StallMs}
	c.Slices = rapid.SampledFrom([]int{1, 2, 2, 3, 3, 3}).Draw(t, "slices")
	c.Replicas = rapid.SampledFrom([]int{0, 0, 1, 1, 2}).Draw(t, "replicas")
	c.Cap = rapid.IntRange(1, 3).Draw(t, "cap")
	c.MaxCap = c.Cap + rapid.SampledFrom([]int{3, 3, 4}).Draw(t, "extra_cap")
	switch p.KeepSession {
	case 1:
		c.KeepSession = true
	case 2:
		c.KeepSession = rapid.IntRange(0, 2).Draw(t, "ks") == 0
	}
	nsess := rapid.SampledFrom([]int{1, 2, 2, 2, 3, 3, 3}).Draw(t, "sessions")
	for i := 0; i < nsess; i++ {
		c.RWSplit = append(c.RWSplit, rapid.Bool().Draw(t, "rwsplit"))
	}
	raws := rapid.SliceOfN(rapid.Custom(genRaw), p.MinCmds, p.MaxCmds).Draw(t, "cmds")
	c.Cmds = Build(c, p, raws, nsess)
	return c
}

// Build maps raw draws to commands.
func Build(c Case, p Profile, raws []RawCmd, nsess int) []Cmd {
	gs := make([]*gsess, nsess)
	for i := range gs {
		gs[i] = &gsess{alive: true, held: map[int]bool{}}
	}
	stmtKinds := []string{KURead, KUWrite, KUForUpdate, KSRead, KSRead, KSWrite, KSWrite, KSForUpdate}
	if c.Slices == 1 {
		stmtKinds = []string{KURead, KUWrite, KUForUpdate, KSRead, KSWrite, KURead, KUWrite, KSRead}
	}
	faultPct := p.FaultPct
	if faultPct == 0 {
		faultPct = 30
	}
	var cmds []Cmd
	for _, r := range raws {
		si := r.S % nsess
		for k := 0; k < nsess && !gs[si].alive; k++ {
			si = (si + 1) % nsess
		}
		if !gs[si].alive {
			break
		}
		g := gs[si]
		cmd := Cmd{S: si}
		type w struct {
			k string
			w int
		}
		var ws []w
		if g.inTx() {
			ws = []w{{"stmt", 60}, {KCommit, 7}, {KRollback, 5}, {KSavepoint, 4}, {KRollbackTo, 3}, {KRelease, 2},
				{KBegin, 2}, {KStart, 1}, {KAc0, 2}, {KUse, 2}, {KSetVar, 4}, {KSetUser, 2}}
			if g.ac0 {
				ws = append(ws, w{KAc1, 6})
			} else if p.OddAutocommit {
				ws = append(ws, w{KAc1, 1})
			}
		} else {
			ws = []w{{"stmt", 30}, {KBegin, 14}, {KStart, 6}, {KAc0, 6}, {KCommit, 2}, {KRollback, 2}, {KSavepoint, 1},
				{KUse, 2}, {KSetVar, 4}, {KSetUser, 2}, {KAc1, 1}}
		}
		if p.Ping {
			ws = append(ws, w{KPing, 4})
		}
		if p.Disconnects {
			ws = append(ws, w{KQuit, 1}, w{KDrop, 1}, w{KDropFlight, 1})
			if p.HardDrops {
				ws = append(ws, w{KDropHard, 1})
			}
		}
		if p.Reload {
			rw := p.ReloadWeight
			if rw == 0 {
				rw = 7
			}
			ws = append(ws, w{KReload, rw})
		}
		// rapid favours the ends of an integer range: keep the most common kind at both ends of the table
		for i := range ws {
			if ws[i].k == "stmt" && ws[i].w > 8 {
				ws[i].w -= 8
				ws = append(ws, w{"stmt", 8})
				break
			}
		}
		total := 0
		for _, x := range ws {
			total += x.w
		}
		rr := r.R * total / 1000
		kind := ""
		for _, x := range ws {
			if rr < x.w {
				kind = x.k
				break
			}
			rr -= x.w
		}
		if kind == "stmt" {
			kind = stmtKinds[r.Stmt%len(stmtKinds)]
			// a few statements per run get a reply the proxy has to stream
			if p.Streamed && (kind == KURead || kind == KUForUpdate) {
				switch {
				case r.N == 9 && r.Keys[0] < 5:
					kind = KUBig
				case r.N == 8:
					kind = KUMulti
				}
			}
		}
		cmd.K = kind
		cmd.N = r.N
		var target []int // slices the command is believed to touch
		if IsSharded(kind) {
			for j := 0; j < r.NKeys; j++ {
				cmd.Keys = append(cmd.Keys, r.Keys[j])
				target = append(target, r.Keys[j]%c.Slices)
			}
		} else if IsStmt(kind) {
			target = []int{0}
		}
		fp := faultPct
		if (kind == KCommit || kind == KRollback || kind == KAc1) && len(g.held) > 0 {
			fp = 70 // transaction-ending commands are rare: fault them more often
		}
		if p.Faults && r.FP < fp {
			var ons []string
			switch {
			case IsStmt(kind):
				ons = []string{OnStmt, OnStmt, OnStmt, OnInitDB}
				if g.inTx() {
					ons = append(ons, OnBegin, OnStmt)
				}
				if g.ac0 || c.KeepSession {
					ons = append(ons, OnAutocommit)
				}
				if g.vars {
					ons = append(ons, OnSetVars, OnSetVars)
				}
				if p.RefuseFaults {
					ons = append(ons, OnConnect)
					if IsSharded(kind) && len(target) > 1 {
						ons = append(ons, OnConnect, OnConnect, OnConnect)
					}
				}
			case kind == KCommit:
				ons = []string{OnCommit}
			case kind == KRollback, kind == KQuit, kind == KDrop, kind == KDropHard:
				ons = []string{OnRollback}
			case kind == KBegin, kind == KStart:
				ons = []string{OnBegin}
			case kind == KAc0, kind == KAc1:
				ons = []string{OnAutocommit}
			case kind == KPing:
				ons = []string{OnPing}
			}
			if len(ons) > 0 {
				f := &Fault{On: ons[r.FOn%len(ons)]}
				acts := []string{ActErr, ActCloseBefore, ActCloseAfter}
				if f.On == OnStmt || f.On == OnSetVars || f.On == OnInitDB {
					acts = append(acts, ActStall, ActStall)
				}
				f.Action = acts[r.FAct%len(acts)]
				if f.On == OnConnect {
					f.Action = ActRefuse
				}
				// mostly a slice the command touches / the session holds
				cand := append([]int{}, target...)
				if !IsStmt(kind) {
					for s := range g.held {
						cand = append(cand, s)
					}
				}
				sortInts(cand)
				if len(cand) > 0 && r.FNear < 9 {
					f.Slice = cand[r.FPick%len(cand)]
				} else {
					f.Slice = r.FSl % c.Slices
				}
				cmd.F = f
			}
		}
		// rough model update
		switch kind {
		case KBegin, KStart:
			g.txOpen = true
		case KCommit, KRollback:
			g.txOpen = false
			if !c.KeepSession {
				g.held = map[int]bool{}
			}
		case KAc0:
			g.ac0 = true
		case KAc1:
			g.ac0, g.txOpen = false, false
			if !c.KeepSession {
				g.held = map[int]bool{}
			}
		case KSetVar, KSetUser:
			g.vars = true
		case KQuit, KDrop, KDropFlight, KDropHard:
			g.alive = false
		case KReload:
			if c.KeepSession {
				for _, x := range gs {
					if x.inTx() {
						x.doomed = true
					} else {
						x.held = map[int]bool{}
					}
				}
			}
		default:
			if IsStmt(kind) {
				g.vars = false
				if g.inTx() || c.KeepSession {
					for _, s := range target {
						g.held[s] = true
					}
				}
			}
		}
		if g.doomed && kind != KReload {
			g.alive = false
		}
		cmds = append(cmds, cmd)
	}
	return cmds
}

func sortInts(a []int) {
	for i := 1; i < len(a); i++ {
		for j := i; j > 0 && a[j-1] > a[j]; j-- {
			a[j-1], a[j] = a[j], a[j-1]
		}
	}
}
