// Package proxyfix starts one real Gaea proxy (server.Manager + server.Server,
// config type "file", loopback listeners) per test process and installs
// namespaces whose slices point at fakemysql servers (DESIGN.md section 3,
// "Session-level fixture").
package proxyfix

import (
	"fmt"
	"net"
	"os"
	"path/filepath"
	"strings"
	"sync"
	"time"

	"github.com/XiaoMi/Gaea/models"
	"github.com/XiaoMi/Gaea/proxy/server"
	"github.com/gin-gonic/gin"

	"verifharness/internal/fakemysql"
	"verifharness/internal/rawclient"
)

// Proxy is a running proxy.
type Proxy struct {
	Cfg     *models.Proxy
	Manager *server.Manager
	Server  *server.Server
	Addr    string
	dir     string
	mu      sync.Mutex
}

var (
	once   sync.Once
	shared *Proxy
	sherr  error
)

// Shared returns the process-wide proxy, starting it on first use.
func Shared() (*Proxy, error) {
	once.Do(func() { shared, sherr = Start(nil) })
	return shared, sherr
}

// Start creates a manager and a server with no namespaces and runs it.
func Start(initial map[string]*models.Namespace) (*Proxy, error) {
	gin.SetMode(gin.ReleaseMode)
	dir, err := os.MkdirTemp(".", "proxyfix")
	if err != nil {
		return nil, err
	}
	dir, _ = filepath.Abs(dir)
	cfg := &models.Proxy{
		ConfigType:     models.ConfigFile,
		FileConfigPath: dir,
		Cluster:        "verif",
		Service:        "gaea_proxy",
		Environ:        "local",
		LogPath:        filepath.Join(dir, "logs"),
		LogLocalPath:   filepath.Join(dir, "local_logs"),
		LogLevel:       "fatal",
		LogFileName:    "gaea",
		LogOutput:      "file",
		LogKeepDays:    1,
		LogKeepCounts:  1,
		LogStrategy:    "sync",
		ProtoType:      "tcp4",
		ProxyAddr:      "127.0.0.1:0",
		AdminAddr:      "127.0.0.1:0",
		AdminUser:      "admin",
		AdminPassword:  "admin",
		SlowSQLTime:    100000,
		SessionTimeout: 3600,
		StatsEnabled:   "false",
		StatsInterval:  10,
		EncryptKey:     "1234abcd5678efg*",
		ServerVersion:  "5.7.25-gaea",
		AuthPlugin:     "mysql_native_password",
	}
	if err := models.InitXLog(cfg); err != nil {
		return nil, fmt.Errorf("InitXLog: %v", err)
	}
	if initial == nil {
		initial = map[string]*models.Namespace{}
	}
	// A Manager can be created only once per process and a failed NewServer closes it, so a
	// temporary shortage of local ports (thousands of TIME_WAIT sockets while many checks run in
	// parallel) is waited out BEFORE anything is created: up to a minute until a probe listen works.
	for i := 0; i < 240; i++ {
		ln, lerr := net.Listen("tcp4", "127.0.0.1:0")
		if lerr == nil {
			ln.Close()
			break
		}
		time.Sleep(250 * time.Millisecond)
	}
	mgr, err := server.CreateManager(cfg, initial)
	if err != nil {
		return nil, fmt.Errorf("CreateManager: %v", err)
	}
	srv, err := server.NewServer(cfg, mgr)
	if err != nil {
		return nil, fmt.Errorf("NewServer: %v", err)
	}
	go srv.Run()
	return &Proxy{Cfg: cfg, Manager: mgr, Server: srv, Addr: srv.Listener().Addr().String(), dir: dir}, nil
}

// Install loads (or replaces) a namespace through the real two-phase reload.
func (p *Proxy) Install(ns *models.Namespace) error {
	p.mu.Lock()
	defer p.mu.Unlock()
	if err := ns.Verify(); err != nil {
		return fmt.Errorf("namespace does not verify: %v", err)
	}
	if err := p.Manager.ReloadNamespacePrepare(ns); err != nil {
		return fmt.Errorf("prepare: %v", err)
	}
	if err := p.Manager.ReloadNamespaceCommit(ns.Name); err != nil {
		return fmt.Errorf("commit: %v", err)
	}
	return nil
}

// Remove deletes a namespace.
func (p *Proxy) Remove(name string) error {
	p.mu.Lock()
	defer p.mu.Unlock()
	return p.Manager.DeleteNamespace(name)
}

// Dial opens a client session.
func (p *Proxy) Dial(user, password, db string, caps uint32) (*rawclient.Conn, error) {
	return rawclient.Dial(p.Addr, rawclient.Options{User: user, Password: password, DB: db, Caps: caps, Timeout: 15 * time.Second})
}

// Cluster is the set of simulated backends behind one namespace.
type Cluster struct {
	Masters  map[string]*fakemysql.Server   // slice name -> master
	Replicas map[string][]*fakemysql.Server // slice name -> replicas
	order    []string
}

// SliceSpec describes one slice to create.
type SliceSpec struct {
	Name        string
	Replicas    int
	Capacity    int
	MaxCapacity int
}

// NewCluster starts the backends for the given slices.
func NewCluster(specs []SliceSpec) (*Cluster, error) {
	cl := &Cluster{Masters: map[string]*fakemysql.Server{}, Replicas: map[string][]*fakemysql.Server{}}
	for _, sp := range specs {
		m, err := fakemysql.NewServer(sp.Name+"/master", "master", sp.Name)
		if err != nil {
			cl.Close()
			return nil, err
		}
		cl.Masters[sp.Name] = m
		cl.order = append(cl.order, sp.Name)
		for i := 0; i < sp.Replicas; i++ {
			r, err := fakemysql.NewServer(fmt.Sprintf("%s/replica%d", sp.Name, i), "replica", sp.Name)
			if err != nil {
				cl.Close()
				return nil, err
			}
			cl.Replicas[sp.Name] = append(cl.Replicas[sp.Name], r)
		}
	}
	return cl, nil
}

// All returns every server.
func (cl *Cluster) All() []*fakemysql.Server {
	var res []*fakemysql.Server
	for _, n := range cl.order {
		res = append(res, cl.Masters[n])
		res = append(res, cl.Replicas[n]...)
	}
	return res
}

// Close stops every backend.
func (cl *Cluster) Close() {
	for _, s := range cl.All() {
		s.Close()
	}
}

// Abort stops every backend with a connection reset (see fakemysql.Server.Abort).
func (cl *Cluster) Abort() {
	for _, s := range cl.All() {
		s.Abort()
	}
}

// Events returns all events of all servers ordered by global sequence.
func (cl *Cluster) Events() []fakemysql.Event {
	var all []fakemysql.Event
	for _, s := range cl.All() {
		all = append(all, s.Events()...)
	}
	sortEvents(all)
	return all
}

func sortEvents(ev []fakemysql.Event) {
	// insertion sort is fine for the sizes used; keeps dependencies minimal
	for i := 1; i < len(ev); i++ {
		for j := i; j > 0 && ev[j-1].Seq > ev[j].Seq; j-- {
			ev[j-1], ev[j] = ev[j], ev[j-1]
		}
	}
}

// ResetEvents clears all logs.
func (cl *Cluster) ResetEvents() {
	for _, s := range cl.All() {
		s.ResetEvents()
	}
}

// SliceConfigs builds models.Slice entries pointing at the cluster.
func (cl *Cluster) SliceConfigs(specs []SliceSpec) []*models.Slice {
	var res []*models.Slice
	for _, sp := range specs {
		capn, maxc := sp.Capacity, sp.MaxCapacity
		if capn == 0 {
			capn = 4
		}
		if maxc < capn {
			maxc = capn
		}
		sl := &models.Slice{Name: sp.Name, UserName: "backend", Password: "backend", Master: cl.Masters[sp.Name].Addr(),
			Capacity: capn, MaxCapacity: maxc, IdleTimeout: 3600}
		for _, r := range cl.Replicas[sp.Name] {
			sl.Slaves = append(sl.Slaves, r.Addr())
		}
		res = append(res, sl)
	}
	return res
}

// BaseNamespace returns a namespace config with sane defaults for the fixture.
func BaseNamespace(name string, slices []*models.Slice, users []*models.User) *models.Namespace {
	for _, u := range users {
		u.Namespace = name
	}
	return &models.Namespace{
		Name:             name,
		Online:           true,
		AllowedDBS:       map[string]bool{"db": true},
		DefaultPhyDBS:    map[string]string{},
		SlowSQLTime:      "100000",
		Slices:           slices,
		Users:            users,
		DefaultSlice:     slices[0].Name,
		DefaultCharset:   "utf8mb4",
		DefaultCollation: "utf8mb4_general_ci",
		MaxSqlExecuteTime: 0,
		MaxSqlResultSize:  -1,
		DownAfterNoAlive:  3600,
	}
}

// UniqueName makes namespace/user names unique per case so that a shared proxy can be reused.
func UniqueName(prefix string, n int64) string {
	return fmt.Sprintf("%s%d", strings.ToLower(prefix), n)
}
