// Package rawclient is a minimal MySQL client used to drive a live Gaea proxy:
// handshake with mysql_native_password, COM_QUERY, the prepared-statement
// commands, COM_PING/INIT_DB/FIELD_LIST and raw packets. It is written
// independently of Gaea's mysql package.
package rawclient

import (
	"bufio"
	"crypto/sha1"
	"encoding/binary"
	"errors"
	"fmt"
	"io"
	"net"
	"time"
)

const (
	ClientLongPassword    = 0x00000001
	ClientFoundRows       = 0x00000002
	ClientLongFlag        = 0x00000004
	ClientConnectWithDB   = 0x00000008
	ClientProtocol41      = 0x00000200
	ClientTransactions    = 0x00002000
	ClientSecureConn      = 0x00008000
	ClientMultiStatements = 0x00010000
	ClientMultiResults    = 0x00020000
	ClientPluginAuth      = 0x00080000

	maxFrame = 1<<24 - 1
)

// Error is an ERR packet.
type Error struct {
	Code    uint16
	State   string
	Message string
}

func (e *Error) Error() string { return fmt.Sprintf("ERROR %d (%s): %s", e.Code, e.State, e.Message) }

// Column of a result.
type Column struct {
	Name     string
	Type     byte
	Flags    uint16
	Charset  uint16
	Decimals byte
}

// Result of one statement.
type Result struct {
	OK       bool // OK packet (no result set)
	Affected uint64
	InsertID uint64
	Status   uint16
	Cols     []Column
	Rows     [][][]byte // text protocol: cell bytes, nil = NULL; binary protocol: raw row packets in RawRows
	RawRows  [][]byte
	Err      *Error
}

// Conn is a client connection.
type Conn struct {
	c       net.Conn
	r       *bufio.Reader
	seq     byte
	Cap     uint32
	ConnID  uint32
	Timeout time.Duration
	Salt    []byte
	Version string
}

// Options for Dial.
type Options struct {
	User, Password, DB string
	Caps               uint32 // extra capability flags (e.g. ClientMultiStatements)
	Collation          byte
	Timeout            time.Duration
	LocalAddr          string // optional source address "127.0.0.x:0"
	AuthResponse       []byte // if non-nil, sent instead of the native scramble
	SkipHandshake      bool   // only read the greeting; caller sends the response as a raw packet
}

// NativeScramble computes the mysql_native_password proof.
func NativeScramble(salt []byte, password string) []byte {
	if password == "" {
		return nil
	}
	h1 := sha1.Sum([]byte(password))
	h2 := sha1.Sum(h1[:])
	h := sha1.New()
	h.Write(salt)
	h.Write(h2[:])
	h3 := h.Sum(nil)
	out := make([]byte, 20)
	for i := range out {
		out[i] = h1[i] ^ h3[i]
	}
	return out
}

// Dial connects and authenticates.
func Dial(addr string, o Options) (*Conn, error) {
	if o.Timeout == 0 {
		o.Timeout = 10 * time.Second
	}
	d := net.Dialer{Timeout: o.Timeout}
	if o.LocalAddr != "" {
		la, err := net.ResolveTCPAddr("tcp", o.LocalAddr)
		if err != nil {
			return nil, err
		}
		d.LocalAddr = la
	}
	nc, err := d.Dial("tcp", addr)
	if err != nil {
		return nil, err
	}
	c := &Conn{c: nc, r: bufio.NewReaderSize(nc, 64*1024), Timeout: o.Timeout}
	greet, err := c.ReadPacket()
	if err != nil {
		nc.Close()
		return nil, fmt.Errorf("read greeting: %w", err)
	}
	if len(greet) > 0 && greet[0] == 0xff {
		nc.Close()
		return nil, parseErr(greet)
	}
	if err := c.parseGreeting(greet); err != nil {
		nc.Close()
		return nil, err
	}
	if o.SkipHandshake {
		return c, nil
	}
	capab := uint32(ClientLongPassword | ClientLongFlag | ClientProtocol41 | ClientTransactions | ClientSecureConn | ClientMultiResults | o.Caps)
	if o.DB != "" {
		capab |= ClientConnectWithDB
	}
	c.Cap = capab
	coll := o.Collation
	if coll == 0 {
		coll = 45
	}
	auth := o.AuthResponse
	if auth == nil {
		auth = NativeScramble(c.Salt, o.Password)
	}
	p := make([]byte, 0, 64)
	p = append(p, byte(capab), byte(capab>>8), byte(capab>>16), byte(capab>>24))
	p = append(p, 0, 0, 0, 1)
	p = append(p, coll)
	p = append(p, make([]byte, 23)...)
	p = append(p, o.User...)
	p = append(p, 0)
	p = append(p, byte(len(auth)))
	p = append(p, auth...)
	if o.DB != "" {
		p = append(p, o.DB...)
		p = append(p, 0)
	}
	if err := c.WritePacket(p); err != nil {
		nc.Close()
		return nil, err
	}
	resp, err := c.ReadPacket()
	if err != nil {
		nc.Close()
		return nil, fmt.Errorf("read auth result: %w", err)
	}
	if len(resp) == 0 {
		nc.Close()
		return nil, errors.New("empty auth result")
	}
	switch resp[0] {
	case 0x00:
		return c, nil
	case 0xff:
		nc.Close()
		return nil, parseErr(resp)
	}
	nc.Close()
	return nil, fmt.Errorf("unexpected auth result packet 0x%02x", resp[0])
}

func (c *Conn) parseGreeting(g []byte) error {
	if len(g) < 1 || g[0] != 10 {
		return fmt.Errorf("bad greeting")
	}
	i := 1
	for i < len(g) && g[i] != 0 {
		i++
	}
	c.Version = string(g[1:i])
	pos := i + 1
	if pos+4+8+1+2 > len(g) {
		return fmt.Errorf("short greeting")
	}
	c.ConnID = binary.LittleEndian.Uint32(g[pos:])
	pos += 4
	c.Salt = append([]byte{}, g[pos:pos+8]...)
	pos += 9
	pos += 2 // cap low
	if len(g) > pos {
		pos += 1 + 2 + 2 + 1 + 10
		if pos+12 <= len(g) {
			c.Salt = append(c.Salt, g[pos:pos+12]...)
		}
	}
	return nil
}

// Close closes the socket.
func (c *Conn) Close() error { return c.c.Close() }

// NetConn exposes the socket.
func (c *Conn) NetConn() net.Conn { return c.c }

// ResetSeq sets the sequence id to 0 (start of a command).
func (c *Conn) ResetSeq() { c.seq = 0 }

// SetSeq sets the sequence id.
func (c *Conn) SetSeq(s byte) { c.seq = s }

// ReadPacket reads one logical packet.
func (c *Conn) ReadPacket() ([]byte, error) {
	if c.Timeout > 0 {
		c.c.SetReadDeadline(time.Now().Add(c.Timeout))
	}
	var payload []byte
	for {
		var hdr [4]byte
		if _, err := io.ReadFull(c.r, hdr[:]); err != nil {
			return nil, err
		}
		n := int(hdr[0]) | int(hdr[1])<<8 | int(hdr[2])<<16
		if hdr[3] != c.seq {
			return nil, fmt.Errorf("rawclient: sequence %d want %d", hdr[3], c.seq)
		}
		c.seq++
		buf := make([]byte, n)
		if _, err := io.ReadFull(c.r, buf); err != nil {
			return nil, err
		}
		if payload == nil {
			payload = buf
		} else {
			payload = append(payload, buf...)
		}
		if n < maxFrame {
			return payload, nil
		}
	}
}

// WritePacket writes one logical packet.
func (c *Conn) WritePacket(p []byte) error {
	if c.Timeout > 0 {
		c.c.SetWriteDeadline(time.Now().Add(c.Timeout))
	}
	bw := bufio.NewWriter(c.c)
	for {
		n := len(p)
		if n > maxFrame {
			n = maxFrame
		}
		bw.Write([]byte{byte(n), byte(n >> 8), byte(n >> 16), c.seq})
		c.seq++
		bw.Write(p[:n])
		p = p[n:]
		if n < maxFrame {
			break
		}
	}
	return bw.Flush()
}

// WriteRaw writes bytes to the socket without framing.
func (c *Conn) WriteRaw(b []byte) error {
	if c.Timeout > 0 {
		c.c.SetWriteDeadline(time.Now().Add(c.Timeout))
	}
	_, err := c.c.Write(b)
	return err
}

func parseErr(p []byte) *Error {
	e := &Error{}
	if len(p) >= 3 {
		e.Code = binary.LittleEndian.Uint16(p[1:])
	}
	pos := 3
	if len(p) > pos && p[pos] == '#' && len(p) >= pos+6 {
		e.State = string(p[pos+1 : pos+6])
		pos += 6
	}
	if pos <= len(p) {
		e.Message = string(p[pos:])
	}
	return e
}

// ReadLenEnc decodes a length-encoded integer.
func ReadLenEnc(b []byte, pos int) (v uint64, np int, null bool, ok bool) {
	if pos >= len(b) {
		return 0, pos, false, false
	}
	switch b[pos] {
	case 0xfb:
		return 0, pos + 1, true, true
	case 0xfc:
		if pos+3 > len(b) {
			return 0, pos, false, false
		}
		return uint64(binary.LittleEndian.Uint16(b[pos+1:])), pos + 3, false, true
	case 0xfd:
		if pos+4 > len(b) {
			return 0, pos, false, false
		}
		return uint64(b[pos+1]) | uint64(b[pos+2])<<8 | uint64(b[pos+3])<<16, pos + 4, false, true
	case 0xfe:
		if pos+9 > len(b) {
			return 0, pos, false, false
		}
		return binary.LittleEndian.Uint64(b[pos+1:]), pos + 9, false, true
	}
	return uint64(b[pos]), pos + 1, false, true
}

func readLenEncStr(b []byte, pos int) ([]byte, int, bool, bool) {
	n, np, null, ok := ReadLenEnc(b, pos)
	if !ok {
		return nil, pos, false, false
	}
	if null {
		return nil, np, true, true
	}
	if uint64(len(b)-np) < n {
		return nil, pos, false, false
	}
	return b[np : np+int(n)], np + int(n), false, true
}

func parseColumn(p []byte) (Column, error) {
	var col Column
	pos := 0
	var s []byte
	var ok bool
	for i := 0; i < 6; i++ {
		s, pos, _, ok = readLenEncStr(p, pos)
		if !ok {
			return col, fmt.Errorf("bad column definition")
		}
		if i == 4 {
			col.Name = string(s)
		}
	}
	if pos+13 > len(p) {
		return col, fmt.Errorf("short column definition")
	}
	pos++ // 0x0c
	col.Charset = binary.LittleEndian.Uint16(p[pos:])
	pos += 2 + 4
	col.Type = p[pos]
	pos++
	col.Flags = binary.LittleEndian.Uint16(p[pos:])
	pos += 2
	col.Decimals = p[pos]
	return col, nil
}

func isEOF(p []byte) bool { return len(p) > 0 && p[0] == 0xfe && len(p) <= 5 }

// readResult reads one result (OK, ERR or result set) after a command was sent.
func (c *Conn) readResult(binaryRows bool) (*Result, error) {
	p, err := c.ReadPacket()
	if err != nil {
		return nil, err
	}
	if len(p) == 0 {
		return nil, errors.New("empty response packet")
	}
	res := &Result{}
	switch p[0] {
	case 0x00:
		res.OK = true
		var pos int
		res.Affected, pos, _, _ = ReadLenEnc(p, 1)
		res.InsertID, pos, _, _ = ReadLenEnc(p, pos)
		if pos+2 <= len(p) {
			res.Status = binary.LittleEndian.Uint16(p[pos:])
		}
		return res, nil
	case 0xff:
		res.Err = parseErr(p)
		return res, nil
	case 0xfb:
		return nil, errors.New("LOCAL INFILE request")
	}
	n, pos, _, ok := ReadLenEnc(p, 0)
	if !ok || pos != len(p) {
		return nil, fmt.Errorf("bad column count packet % x", p)
	}
	for i := uint64(0); i < n; i++ {
		cp, err := c.ReadPacket()
		if err != nil {
			return nil, err
		}
		col, err := parseColumn(cp)
		if err != nil {
			return nil, err
		}
		res.Cols = append(res.Cols, col)
	}
	ep, err := c.ReadPacket()
	if err != nil {
		return nil, err
	}
	if !isEOF(ep) {
		return nil, fmt.Errorf("expected EOF after columns, got % x", ep[:min(len(ep), 16)])
	}
	for {
		rp, err := c.ReadPacket()
		if err != nil {
			return nil, err
		}
		if isEOF(rp) {
			if len(rp) >= 5 {
				res.Status = binary.LittleEndian.Uint16(rp[3:])
			}
			return res, nil
		}
		if len(rp) > 0 && rp[0] == 0xff {
			res.Err = parseErr(rp)
			return res, nil
		}
		if binaryRows {
			res.RawRows = append(res.RawRows, rp)
			continue
		}
		row := make([][]byte, 0, len(res.Cols))
		pos := 0
		for range res.Cols {
			var cell []byte
			var null, ok bool
			cell, pos, null, ok = readLenEncStr(rp, pos)
			if !ok {
				return nil, fmt.Errorf("bad row packet")
			}
			if null {
				row = append(row, nil)
			} else {
				row = append(row, append([]byte{}, cell...))
			}
		}
		res.Rows = append(res.Rows, row)
	}
}

// Query sends COM_QUERY and reads all results (following MORE_RESULTS).
func (c *Conn) Query(sql string) ([]*Result, error) {
	c.seq = 0
	if err := c.WritePacket(append([]byte{0x03}, sql...)); err != nil {
		return nil, err
	}
	var all []*Result
	for {
		r, err := c.readResult(false)
		if err != nil {
			return all, err
		}
		all = append(all, r)
		if r.Err != nil || r.Status&0x0008 == 0 {
			return all, nil
		}
	}
}

// Exec is Query for a single statement; returns the single result.
func (c *Conn) Exec(sql string) (*Result, error) {
	rs, err := c.Query(sql)
	if err != nil {
		return nil, err
	}
	return rs[len(rs)-1], nil
}

// Ping sends COM_PING.
func (c *Conn) Ping() (*Result, error) {
	c.seq = 0
	if err := c.WritePacket([]byte{0x0e}); err != nil {
		return nil, err
	}
	return c.readResult(false)
}

// UseDB sends COM_INIT_DB.
func (c *Conn) UseDB(db string) (*Result, error) {
	c.seq = 0
	if err := c.WritePacket(append([]byte{0x02}, db...)); err != nil {
		return nil, err
	}
	return c.readResult(false)
}

// Quit sends COM_QUIT and closes.
func (c *Conn) Quit() {
	c.seq = 0
	c.WritePacket([]byte{0x01})
	c.c.Close()
}

// Stmt is a prepared statement handle.
type Stmt struct {
	ID      uint32
	Columns uint16
	Params  uint16
}

// Prepare sends COM_STMT_PREPARE.
func (c *Conn) Prepare(sql string) (*Stmt, *Error, error) {
	c.seq = 0
	if err := c.WritePacket(append([]byte{0x16}, sql...)); err != nil {
		return nil, nil, err
	}
	p, err := c.ReadPacket()
	if err != nil {
		return nil, nil, err
	}
	if len(p) > 0 && p[0] == 0xff {
		return nil, parseErr(p), nil
	}
	if len(p) < 12 || p[0] != 0 {
		return nil, nil, fmt.Errorf("bad prepare response % x", p)
	}
	st := &Stmt{ID: binary.LittleEndian.Uint32(p[1:]), Columns: binary.LittleEndian.Uint16(p[5:]), Params: binary.LittleEndian.Uint16(p[7:])}
	if st.Params > 0 {
		for i := 0; i < int(st.Params); i++ {
			if _, err := c.ReadPacket(); err != nil {
				return nil, nil, err
			}
		}
		if ep, err := c.ReadPacket(); err != nil || !isEOF(ep) {
			return nil, nil, fmt.Errorf("prepare: expected EOF after params: %v", err)
		}
	}
	if st.Columns > 0 {
		for i := 0; i < int(st.Columns); i++ {
			if _, err := c.ReadPacket(); err != nil {
				return nil, nil, err
			}
		}
		if ep, err := c.ReadPacket(); err != nil || !isEOF(ep) {
			return nil, nil, fmt.Errorf("prepare: expected EOF after columns: %v", err)
		}
	}
	return st, nil, nil
}

// ExecuteRaw sends COM_STMT_EXECUTE with a caller-built payload (after the command byte) and reads the result.
func (c *Conn) ExecuteRaw(payload []byte) (*Result, error) {
	c.seq = 0
	if err := c.WritePacket(append([]byte{0x17}, payload...)); err != nil {
		return nil, err
	}
	return c.readResult(true)
}

// Param is one bound parameter of COM_STMT_EXECUTE.
type Param struct {
	Type     byte // MySQL type code
	Unsigned bool
	Null     bool
	Value    []byte // already encoded per the binary protocol for Type
}

// BuildExecute builds the payload for COM_STMT_EXECUTE.
func BuildExecute(id uint32, params []Param, newParamsBound bool) []byte {
	p := []byte{byte(id), byte(id >> 8), byte(id >> 16), byte(id >> 24), 0, 1, 0, 0, 0}
	if len(params) == 0 {
		return p
	}
	bm := make([]byte, (len(params)+7)/8)
	for i, pa := range params {
		if pa.Null {
			bm[i/8] |= 1 << (uint(i) % 8)
		}
	}
	p = append(p, bm...)
	if newParamsBound {
		p = append(p, 1)
		for _, pa := range params {
			fl := byte(0)
			if pa.Unsigned {
				fl = 0x80
			}
			p = append(p, pa.Type, fl)
		}
	} else {
		p = append(p, 0)
	}
	for _, pa := range params {
		if !pa.Null {
			p = append(p, pa.Value...)
		}
	}
	return p
}

// Execute binds params and executes.
func (c *Conn) Execute(st *Stmt, params []Param) (*Result, error) {
	return c.ExecuteRaw(BuildExecute(st.ID, params, true))
}

// SendLongData sends COM_STMT_SEND_LONG_DATA (no response).
func (c *Conn) SendLongData(id uint32, param uint16, data []byte) error {
	c.seq = 0
	p := []byte{0x18, byte(id), byte(id >> 8), byte(id >> 16), byte(id >> 24), byte(param), byte(param >> 8)}
	return c.WritePacket(append(p, data...))
}

// StmtReset sends COM_STMT_RESET.
func (c *Conn) StmtReset(id uint32) (*Result, error) {
	c.seq = 0
	if err := c.WritePacket([]byte{0x1a, byte(id), byte(id >> 8), byte(id >> 16), byte(id >> 24)}); err != nil {
		return nil, err
	}
	return c.readResult(false)
}

// StmtClose sends COM_STMT_CLOSE (no response).
func (c *Conn) StmtClose(id uint32) error {
	c.seq = 0
	return c.WritePacket([]byte{0x19, byte(id), byte(id >> 8), byte(id >> 16), byte(id >> 24)})
}

// LenEncBytes encodes b as a length-encoded string (for string/blob parameters).
func LenEncBytes(b []byte) []byte {
	n := uint64(len(b))
	var p []byte
	switch {
	case n < 251:
		p = []byte{byte(n)}
	case n < 1<<16:
		p = []byte{0xfc, byte(n), byte(n >> 8)}
	case n < 1<<24:
		p = []byte{0xfd, byte(n), byte(n >> 8), byte(n >> 16)}
	default:
		p = make([]byte, 9)
		p[0] = 0xfe
		binary.LittleEndian.PutUint64(p[1:], n)
	}
	return append(p, b...)
}

// Command sends an arbitrary command packet (cmd byte + payload) with sequence 0 and returns the first response packet.
func (c *Conn) Command(pkt []byte) ([]byte, error) {
	c.seq = 0
	if err := c.WritePacket(pkt); err != nil {
		return nil, err
	}
	return c.ReadPacket()
}
