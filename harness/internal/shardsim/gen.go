package shardsim

import (
	"fmt"
	"strconv"
	"strings"

	"pgregory.net/rapid"

	"verifharness/internal/shardfix"
)

// Gen carries what the statement generators need. All randomness is drawn
// from T; everything else is a deterministic function of the layout.
type Gen struct {
	T    *rapid.T
	L    shardfix.Layout
	F    *shardfix.Fixture
	U    []shardfix.KeyVal // key universe
	Work []shardfix.KeyVal // keys the data uses
	n    int
}

func (g *Gen) name(s string) string {
	g.n++
	return s + strconv.Itoa(g.n)
}

// intn draws a uniform choice in [0,n). rapid's integer generators favour
// small values (which would turn every "10%" branch into a 30% branch), so the
// drawn word is mixed before it is reduced; 0 still maps to 0, so shrinking
// moves towards the first alternative.
func (g *Gen) intn(label string, n int) int {
	x := rapid.Uint64().Draw(g.T, g.name(label))
	x ^= x >> 33
	x *= 0xff51afd7ed558ccd
	x ^= x >> 33
	x *= 0xc4ceb9fe1a85ec53
	x ^= x >> 33
	return int(x % uint64(n))
}

// chance is true with probability pct/100 (false for the shrunk draw 0).
func (g *Gen) chance(label string, pct int) bool {
	return 99-g.intn(label, 100) < pct
}

func pick[T any](g *Gen, label string, xs []T) T {
	return xs[g.intn(label, len(xs))]
}

// GenLayout draws a layout for the data-level checks: any rule type, an
// optional linked table, no global sequence, and (usually) a global table g1
// configured on the same slices / databases as t so that a join with it can
// be executed on every shard.
func GenLayout(t *rapid.T) shardfix.Layout {
	l := shardfix.GenLayout(t, shardfix.Opts{NoSeq: true, Globals: -1, MaxPeriods: 8})
	l.Globals = nil
	if rapid.IntRange(0, 2).Draw(t, "with_g1") != 0 {
		g := shardfix.GlobalSpec{Table: "g1"}
		if l.IsMycat() {
			g.RuleSlices = append([]int(nil), l.RuleSlices...)
			g.Locations = append([]int(nil), l.Locations...)
			g.Databases = append([]string(nil), l.Databases...)
		} else {
			for i := 0; i < l.NSSlices; i++ {
				g.RuleSlices = append(g.RuleSlices, i)
				g.Locations = append(g.Locations, 1)
			}
		}
		l2 := l
		l2.Globals = []shardfix.GlobalSpec{g}
		if _, err := shardfix.Build(l2); err == nil {
			l = l2
		}
	}
	return l
}

// NewGen builds the generator context of a layout.
func NewGen(t *rapid.T, l shardfix.Layout) (*Gen, error) {
	f, err := shardfix.Build(l)
	if err != nil {
		return nil, err
	}
	return &Gen{T: t, L: l, F: f, U: f.Universe()}, nil
}

func keyOf(k shardfix.KeyVal) Key {
	switch k.Type {
	case shardfix.KeyInt, shardfix.KeyUnix:
		return Key{I: k.I}
	}
	return Key{S: k.S}
}

var (
	aVals = []int64{-3, 0, 1, 2, 2, 5, 10, 100}
	sVals = []string{"", "NULL", "a", "a+", "+b", "b", "a,b", "x+y", "null", "1", "A", "a"}
	dVals = []string{"0.00", "1.50", "-2.25", "10.00", "1.05", "99.99", "0.10", "1.50"}
	// doubles are dyadic rationals of moderate size: every sum of up to a few
	// hundred of them is exact, so the order of additions (per shard, then
	// merged) cannot produce rounding noise that would perturb ORDER BY SUM(f)
	fVals = []float64{0, 0.5, -1.25, 2.5, 1e10, 0.125, 3, 0.5}
)

// GenData draws the table contents. maxRows bounds the rows of t.
func (g *Gen) GenData(maxRows int) Data {
	t := g.T
	by := shardfix.ByTable(g.U)
	var tables []int
	for _, tl := range g.F.Tables {
		if len(by[tl.Index]) > 0 {
			tables = append(tables, tl.Index)
		}
	}
	// working set: a few keys per table, over several tables
	nt := 1 + g.intn("work_tables", min(len(tables), 5))
	if len(tables) > 1 && nt == 1 && g.chance("force_multi", 90) {
		nt = 2
	}
	if len(tables) > 2 && nt == 2 && g.chance("force_three", 50) {
		nt = 3
	}
	perm := rapid.Permutation(tables).Draw(t, "work_perm")
	for _, idx := range perm[:nt] {
		ks := by[idx]
		n := rapid.IntRange(1, min(3, len(ks))).Draw(t, "keys_in_table")
		off := rapid.IntRange(0, len(ks)-1).Draw(t, "key_off")
		for i := 0; i < n; i++ {
			g.Work = append(g.Work, ks[(off+i)%len(ks)])
		}
	}
	var d Data
	nr := g.intn("rows", maxRows+1)
	if nr < 8 && maxRows >= 8 && g.chance("more_rows", 75) {
		nr += 8
	}
	narrow := rapid.IntRange(0, 2).Draw(t, "narrow") == 0 // few distinct values: many duplicates and shared groups
	span := func(n int) int {
		if narrow {
			return min(n, 3)
		}
		return n
	}
	for i := 0; i < nr; i++ {
		r := Row{K: keyOf(g.Work[g.intn("rk", len(g.Work))]), ID: int64(i + 1)}
		if rapid.IntRange(0, 5).Draw(t, "a_null") != 0 {
			v := aVals[rapid.IntRange(0, span(len(aVals))-1).Draw(t, "a")]
			r.A = &v
		}
		if rapid.IntRange(0, 5).Draw(t, "s_null") != 0 {
			v := sVals[rapid.IntRange(0, span(len(sVals))-1).Draw(t, "s")]
			if narrow {
				v = []string{"NULL", "a+", "a"}[rapid.IntRange(0, 2).Draw(t, "sn")]
			}
			r.S = &v
		}
		if rapid.IntRange(0, 5).Draw(t, "d_null") != 0 {
			v := dVals[rapid.IntRange(0, span(len(dVals))-1).Draw(t, "d")]
			r.D = &v
		}
		if rapid.IntRange(0, 5).Draw(t, "f_null") != 0 {
			v := fVals[rapid.IntRange(0, span(len(fVals))-1).Draw(t, "f")]
			r.F = &v
		}
		d.T = append(d.T, r)
	}
	if g.L.ChildKey != "" {
		nc := rapid.IntRange(0, 12).Draw(t, "child_rows")
		for i := 0; i < nc; i++ {
			r := ChildRow{K: keyOf(g.Work[rapid.IntRange(0, len(g.Work)-1).Draw(t, "ck")])}
			if rapid.IntRange(0, 4).Draw(t, "v_null") != 0 {
				v := aVals[rapid.IntRange(0, len(aVals)-1).Draw(t, "v")]
				r.V = &v
			}
			if rapid.IntRange(0, 4).Draw(t, "w_null") != 0 {
				v := sVals[rapid.IntRange(0, len(sVals)-1).Draw(t, "w")]
				r.W = &v
			}
			d.TC = append(d.TC, r)
		}
	}
	if len(g.L.Globals) > 0 {
		ng := rapid.IntRange(0, 6).Draw(t, "g_rows")
		for i := 0; i < ng; i++ {
			r := GlobalRow{ID: aVals[i%len(aVals)]}
			if i >= len(aVals) {
				r.ID = int64(i)
			}
			if rapid.IntRange(0, 4).Draw(t, "ga_null") != 0 {
				v := int64(rapid.IntRange(0, 3).Draw(t, "ga"))
				r.A = &v
			}
			d.G1 = append(d.G1, r)
		}
	}
	return d
}

// KeyLiteral draws a literal for the sharding column: mostly keys the data
// uses, otherwise any key of the boundary universe (placed or not).
func (g *Gen) KeyLiteral() string {
	var k shardfix.KeyVal
	switch {
	case len(g.Work) > 0 && g.chance("kl_work", 65):
		k = pick(g, "kl_w", g.Work)
	default:
		k = pick(g, "kl_u", g.U)
		if !k.Placed && g.chance("kl_placed", 80) {
			// unplaceable keys make the planner reject the statement; keep them rare
			for i := 0; i < len(g.U); i++ {
				if c := g.U[(i+g.n)%len(g.U)]; c.Placed {
					k = c
					break
				}
			}
		}
	}
	if len(k.Alt) > 0 && g.chance("kl_alt", 20) {
		return pick(g, "kl_a", k.Alt)
	}
	return k.Lit
}

var cmpOps = []string{"=", "=", "=", "<>", "<", "<=", ">", ">="}

// Cond draws a condition tree over the columns of t. q is the column
// qualifier ("", "t.", "x.", "db.t."); kcol is the sharding column's name.
func (g *Gen) Cond(depth int, q string) string {
	if depth > 0 {
		switch g.intn("cond_shape", 10) {
		case 0, 1, 2:
			return g.Cond(depth-1, q) + " AND " + g.Cond(depth-1, q)
		case 3, 4:
			return "(" + g.Cond(depth-1, q) + " OR " + g.Cond(depth-1, q) + ")"
		case 5:
			return "NOT (" + g.Cond(depth-1, q) + ")"
		case 6:
			return "(" + g.Cond(depth-1, q) + ")"
		}
	}
	if g.chance("cond_key", 35) {
		return g.KeyAtom(q + "k")
	}
	return g.PlainAtom(q)
}

// KeyAtom draws an atomic predicate on the sharding column col.
func (g *Gen) KeyAtom(col string) string {
	switch g.intn("katom", 10) {
	case 0, 1, 2, 3:
		op := pick(g, "kop", []string{"=", "<>", "<", "<=", ">", ">=", "<", ">=", "<>"})
		if g.chance("k_flip", 20) {
			return g.KeyLiteral() + " " + op + " " + col
		}
		return col + " " + op + " " + g.KeyLiteral()
	case 4, 5, 6:
		n := 2 + g.intn("kin_n", 4)
		var ls []string
		for i := 0; i < n; i++ {
			ls = append(ls, g.KeyLiteral())
		}
		not := ""
		if g.chance("kin_not", 25) {
			not = " NOT"
		}
		return col + not + " IN (" + strings.Join(ls, ", ") + ")"
	default:
		not := ""
		if g.chance("kbt_not", 30) {
			not = " NOT"
		}
		return col + not + " BETWEEN " + g.KeyLiteral() + " AND " + g.KeyLiteral()
	}
}

func sqlStr(s string) string { return "'" + strings.ReplaceAll(s, "'", "''") + "'" }

// PlainAtom draws an atomic predicate on a non-key column of t.
func (g *Gen) PlainAtom(q string) string {
	switch g.intn("patom", 12) {
	case 0, 1, 2:
		return q + "a " + pick(g, "aop", cmpOps) + " " + strconv.FormatInt(pick(g, "av", aVals), 10)
	case 3:
		return q + "a IN (" + strconv.FormatInt(pick(g, "av1", aVals), 10) + ", " + strconv.FormatInt(pick(g, "av2", aVals), 10) + ")"
	case 4:
		if g.chance("a_notnull", 50) {
			return q + "a IS NOT NULL"
		}
		return q + "a IS NULL"
	case 5, 6:
		op := pick(g, "sop", []string{"=", "=", "<>", "<", ">="})
		return q + "s " + op + " " + sqlStr(pick(g, "sv", sVals))
	case 7:
		if g.chance("s_notnull", 50) {
			return q + "s IS NOT NULL"
		}
		return q + "s IS NULL"
	case 8:
		return q + "d " + pick(g, "dop", cmpOps) + " " + pick(g, "dv", dVals)
	case 9:
		return q + "f " + pick(g, "fop", []string{"<", "<=", ">", ">="}) + " " + strconv.FormatFloat(pick(g, "fv", fVals), 'f', -1, 64)
	case 10:
		return q + "id " + pick(g, "idop", []string{"<=", ">", "<>"}) + " " + strconv.Itoa(1+g.intn("idv", 20))
	default:
		return q + "s IN (" + sqlStr(pick(g, "sv1", sVals)) + ", " + sqlStr(pick(g, "sv2", sVals)) + ")"
	}
}

// Where draws an optional WHERE clause (with leading space).
func (g *Gen) Where(q string, pctNone int) string {
	if g.chance("where_none", pctNone) {
		return ""
	}
	return " WHERE " + g.Cond(g.intn("where_depth", 3), q)
}

// tcol is a column of t as the select generators see it.
type tcol struct {
	name string
	kind string // "int", "str", "dec", "dbl", "key"
}

var tCols = []tcol{{"k", "key"}, {"a", "int"}, {"s", "str"}, {"d", "dec"}, {"f", "dbl"}, {"id", "int"}}

// TableRef draws how t is named in FROM and returns (from text, column qualifier).
func (g *Gen) TableRef() (string, string) {
	switch g.intn("tref", 16) {
	case 0, 1, 2:
		return "t AS x", "x."
	case 3, 4:
		return "t x", "x."
	case 5:
		return "db.t", "t."
	case 6:
		return "db.t", "db.t."
	case 7:
		return "t", "t."
	case 8, 9:
		return "db.t", ""
	default:
		return "t", ""
	}
}

func (g *Gen) limit(pct int) string {
	if !g.chance("limit", pct) {
		return ""
	}
	cnt := pick(g, "limit_cnt", []int{1, 1, 2, 3, 5, 8, 0, 20})
	if g.chance("limit_off", 50) {
		off := pick(g, "limit_offv", []int{0, 1, 1, 2, 3, 7})
		if g.chance("limit_offset_kw", 50) {
			return fmt.Sprintf(" LIMIT %d OFFSET %d", cnt, off)
		}
		return fmt.Sprintf(" LIMIT %d, %d", off, cnt)
	}
	return fmt.Sprintf(" LIMIT %d", cnt)
}

type selField struct {
	expr  string
	alias string
	col   string // underlying column name for plain columns
	agg   bool
}

func (f selField) text() string {
	if f.alias != "" {
		return f.expr + " AS " + f.alias
	}
	return f.expr
}

var aggArgs = map[string][]string{
	"COUNT": {"*", "a", "s", "d", "k", "id", "f"},
	"SUM":   {"a", "d", "f", "id", "a"},
	"MAX":   {"a", "s", "d", "f", "k", "id"},
	"MIN":   {"a", "s", "d", "f", "k", "id"},
}

func (g *Gen) aggregate(q string, allowDistinct bool) string {
	fn := pick(g, "agg_fn", []string{"COUNT", "COUNT", "SUM", "SUM", "MAX", "MIN"})
	arg := pick(g, "agg_arg", aggArgs[fn])
	if arg == "*" {
		return "COUNT(*)"
	}
	if allowDistinct && (fn == "COUNT" || fn == "SUM") && g.chance("agg_distinct", 30) {
		return fn + "(DISTINCT " + q + arg + ")"
	}
	return fn + "(" + q + arg + ")"
}

func (g *Gen) orderBy(fields []selField, extra []string, pct int, star bool, q string) string {
	if !g.chance("order", pct) {
		return ""
	}
	n := 1 + g.intn("order_n", 2)
	var items []string
	for i := 0; i < n; i++ {
		var it string
		switch k := g.intn("order_kind", 10); {
		case k < 4 && len(fields) > 0:
			f := pick(g, "order_f", fields)
			switch {
			case f.alias != "" && g.chance("order_alias", 70):
				it = f.alias
			case f.col != "":
				it = q + f.col
			default:
				it = f.expr
			}
		case k < 6 && len(fields) > 0 && !star:
			it = strconv.Itoa(1 + g.intn("order_pos", len(fields)))
		case len(extra) > 0:
			it = pick(g, "order_x", extra)
		default:
			continue
		}
		if g.chance("order_desc", 40) {
			it += " DESC"
		}
		items = append(items, it)
	}
	if len(items) == 0 {
		return ""
	}
	return " ORDER BY " + strings.Join(items, ", ")
}

// SelectPlain draws a projection query over t.
func (g *Gen) SelectPlain(noOrderLimit bool, forceCols []string) string {
	from, q := g.TableRef()
	var fields []selField
	star := false
	distinct := g.chance("distinct", 20)
	switch {
	case forceCols != nil:
		for _, c := range forceCols {
			fields = append(fields, selField{expr: q + c, col: c})
		}
	case !distinct && g.chance("star", 15):
		star = true
	default:
		n := 1 + g.intn("nfields", 4)
		pool := tCols
		if distinct {
			pool = []tcol{{"a", "int"}, {"s", "str"}, {"d", "dec"}, {"k", "key"}, {"f", "dbl"}}
			n = 1 + g.intn("nfields_d", 2)
		}
		for i := 0; i < n; i++ {
			c := pick(g, "field", pool)
			f := selField{expr: q + c.name, col: c.name}
			if g.chance("alias", 25) {
				f.alias = "c" + strconv.Itoa(i+1)
			}
			fields = append(fields, f)
		}
	}
	var sb strings.Builder
	sb.WriteString("SELECT ")
	if distinct {
		sb.WriteString("DISTINCT ")
	}
	if star {
		if q != "" && q != "db.t." && g.chance("qstar", 50) {
			sb.WriteString(q + "*")
		} else {
			sb.WriteString("*")
		}
	} else {
		for i, f := range fields {
			if i > 0 {
				sb.WriteString(", ")
			}
			sb.WriteString(f.text())
		}
	}
	sb.WriteString(" FROM " + from)
	sb.WriteString(g.Where(q, 50))
	if noOrderLimit {
		return sb.String()
	}
	var extra []string
	if star {
		for _, c := range tCols {
			extra = append(extra, q+c.name)
		}
	} else if !distinct {
		for _, c := range tCols {
			extra = append(extra, q+c.name)
		}
	}
	sb.WriteString(g.orderBy(fields, extra, 70, star, q))
	sb.WriteString(g.limit(40))
	return sb.String()
}

// SelectAgg draws an aggregate query without GROUP BY.
func (g *Gen) SelectAgg() string {
	from, q := g.TableRef()
	n := 1 + g.intn("naggs", 3)
	var fs []string
	for i := 0; i < n; i++ {
		f := g.aggregate(q, true)
		if g.chance("agg_alias", 25) {
			f += " AS c" + strconv.Itoa(i+1)
		}
		fs = append(fs, f)
	}
	s := "SELECT " + strings.Join(fs, ", ") + " FROM " + from + g.Where(q, 55)
	if g.chance("agg_limit", 10) {
		s += g.limit(100)
	}
	return s
}

// SelectGroup draws a GROUP BY query: select list within group columns and aggregates.
func (g *Gen) SelectGroup(noOrderLimit bool) string {
	from, q := g.TableRef()
	pool := []string{"a", "s", "a", "s", "d", "k", "f"}
	ng := 1 + g.intn("ngroup", 2)
	var gcols []string
	for i := 0; i < ng; i++ {
		c := pick(g, "gcol", pool)
		dup := false
		for _, e := range gcols {
			dup = dup || e == c
		}
		if !dup {
			gcols = append(gcols, c)
		}
	}
	var fields []selField
	for i, c := range gcols {
		if g.chance("gsel", 80) {
			f := selField{expr: q + c, col: c}
			if g.chance("galias", 20) {
				f.alias = "g" + strconv.Itoa(i+1)
			}
			fields = append(fields, f)
		}
	}
	na := g.intn("gaggs", 3)
	if len(fields) == 0 && na == 0 {
		na = 1
	}
	for i := 0; i < na; i++ {
		f := selField{expr: g.aggregate(q, true), agg: true}
		if g.chance("gagg_alias", 30) {
			f.alias = "c" + strconv.Itoa(i+1)
		}
		fields = append(fields, f)
	}
	if g.chance("gshuffle", 30) && len(fields) > 1 {
		fields[0], fields[len(fields)-1] = fields[len(fields)-1], fields[0]
	}
	var fs, gb []string
	for _, f := range fields {
		fs = append(fs, f.text())
	}
	for _, c := range gcols {
		// GROUP BY by column, by alias of the selected column, or by position
		item := q + c
		for i, f := range fields {
			if f.col == c {
				if f.alias != "" && g.chance("gb_alias", 40) {
					item = f.alias
				} else if g.chance("gb_pos", 15) {
					item = strconv.Itoa(i + 1)
				}
			}
		}
		gb = append(gb, item)
	}
	s := "SELECT " + strings.Join(fs, ", ") + " FROM " + from + g.Where(q, 60) + " GROUP BY " + strings.Join(gb, ", ")
	if noOrderLimit {
		return s
	}
	var extra []string
	for _, c := range gcols {
		extra = append(extra, q+c)
	}
	extra = append(extra, g.aggregate(q, false), "COUNT(*)")
	s += g.orderBy(fields, extra, 60, false, q)
	s += g.limit(35)
	return s
}

// SelectUnion draws a UNION of two selects with the same column list.
func (g *Gen) SelectUnion() string {
	var a, b string
	var names []string
	if g.chance("union_group", 25) {
		c := pick(g, "ug_col", []string{"a", "s", "d"})
		agg := pick(g, "ug_agg", []string{"COUNT(*)", "MAX(id)", "SUM(a)", "MIN(k)"})
		a = "SELECT " + c + ", " + agg + " AS c2 FROM t" + g.Where("", 40) + " GROUP BY " + c
		b = "SELECT " + c + ", " + agg + " FROM t" + g.Where("", 20) + " GROUP BY " + c
		names = []string{c, "c2"}
	} else {
		n := 1 + g.intn("union_n", 3)
		for i := 0; i < n; i++ {
			names = append(names, pick(g, "union_col", []string{"k", "a", "s", "d", "f", "id", "a", "s"}))
		}
		a = g.SelectPlain(true, names)
		b = g.SelectPlain(true, names)
	}
	op := pick(g, "union_op", []string{" UNION ", " UNION ", " UNION ALL ", " UNION DISTINCT "})
	if g.chance("union_paren", 30) {
		a, b = "("+a+")", "("+b+")"
	}
	s := a + op + b
	if g.chance("union_order", 55) {
		var items []string
		for i := 0; i < 1+g.intn("uo_n", 2); i++ {
			it := strconv.Itoa(1 + g.intn("uo_pos", len(names)))
			if g.chance("uo_name", 60) {
				it = pick(g, "uo_col", names)
			}
			if g.chance("uo_desc", 40) {
				it += " DESC"
			}
			items = append(items, it)
		}
		s += " ORDER BY " + strings.Join(items, ", ")
	}
	s += g.limit(35)
	return s
}

// SelectJoin draws a two-table join on the sharding key (linked table) or
// with the global table.
func (g *Gen) SelectJoin() string {
	ck := g.L.ChildKey
	useChild := ck != "" && (len(g.L.Globals) == 0 || g.chance("join_child", 70))
	if !useChild && len(g.L.Globals) == 0 {
		return g.SelectPlain(false, nil)
	}
	ta, oa := "t", "tc"
	tq, oq := "t.", "tc."
	if !useChild {
		oa, oq = "g1", "g1."
	}
	from := "t"
	other := oa
	if g.chance("join_alias", 40) {
		ta, tq = "x", "x."
		from = "t AS x"
		if g.chance("join_alias2", 50) {
			other = oa + " AS y"
			oa, oq = "y", "y."
		}
	}
	_ = ta
	var on string
	if useChild {
		on = tq + "k = " + oq + ck
		if g.chance("on_flip", 30) {
			on = oq + ck + " = " + tq + "k"
		}
	} else {
		on = tq + "a = " + oq + "id"
	}
	var ocols []string
	if useChild {
		ocols = []string{oq + ck, oq + "v", oq + "w"}
	} else {
		ocols = []string{oq + "id", oq + "a"}
	}
	tcols := []string{tq + "k", tq + "a", tq + "s", tq + "id", tq + "d"}
	where := ""
	if g.chance("join_where", 60) {
		where = g.Cond(g.intn("jw_depth", 2), tq)
		if useChild && g.chance("join_where_child", 30) {
			where += " AND " + g.KeyAtom(oq+ck)
		}
	}
	var fromText string
	switch g.intn("join_kind", 6) {
	case 0:
		fromText = from + ", " + other
		if where != "" {
			where = on + " AND " + where
		} else {
			where = on
		}
	case 1:
		fromText = from + " LEFT JOIN " + other + " ON " + on
	case 2:
		fromText = from + " INNER JOIN " + other + " ON " + on
	default:
		fromText = from + " JOIN " + other + " ON " + on
	}
	if where != "" {
		where = " WHERE " + where
	}
	if g.chance("join_group", 30) {
		gc := pick(g, "jg_col", []string{tq + "a", tq + "s", ocols[1]})
		agg := pick(g, "jg_agg", []string{"COUNT(*)", "SUM(" + ocols[1] + ")", "MAX(" + tq + "id)", "COUNT(" + ocols[len(ocols)-1] + ")"})
		s := "SELECT " + gc + ", " + agg + " AS c2 FROM " + fromText + where + " GROUP BY " + gc
		if g.chance("jg_order", 50) {
			s += " ORDER BY " + pick(g, "jg_o", []string{gc, "c2", "c2 DESC", gc + " DESC"})
		}
		return s
	}
	if g.chance("join_agg", 20) {
		return "SELECT COUNT(*), " + pick(g, "ja", []string{"SUM(" + ocols[1] + ")", "MAX(" + tq + "id)", "MIN(" + tq + "a)"}) + " FROM " + fromText + where
	}
	n := 2 + g.intn("join_nf", 3)
	var fields []selField
	all := append(append([]string{}, tcols...), ocols...)
	for i := 0; i < n; i++ {
		c := pick(g, "join_f", all)
		fields = append(fields, selField{expr: c})
	}
	var fs []string
	for _, f := range fields {
		fs = append(fs, f.text())
	}
	s := "SELECT " + strings.Join(fs, ", ") + " FROM " + fromText + where
	s += g.orderBy(fields, all, 50, false, "")
	s += g.limit(30)
	return s
}

// Select draws one statement of the supported SELECT subset.
func (g *Gen) Select() string {
	switch k := g.intn("select_kind", 20); {
	case k < 4:
		return g.SelectPlain(false, nil)
	case k < 7:
		return g.SelectAgg()
	case k < 14:
		return g.SelectGroup(false)
	case k < 17:
		return g.SelectUnion()
	default:
		return g.SelectJoin()
	}
}
