package shardsim

import (
	"strconv"
	"strings"
)

// ---- modification statements (C05) ----

// assignment draws "col = expr" for a non-key column of t (q qualifies the
// target, rq the columns read on the right-hand side).
func (g *Gen) assignment(q, rq string) string {
	switch g.intn("asg", 9) {
	case 0:
		return q + "a = " + strconv.FormatInt(pick(g, "asg_a", aVals), 10)
	case 1:
		return q + "a = " + rq + "a + 1"
	case 2:
		return q + "a = NULL"
	case 3:
		return q + "s = " + sqlStr(pick(g, "asg_s", sVals))
	case 4:
		return q + "d = " + pick(g, "asg_d", dVals)
	case 5:
		return q + "d = " + rq + "d + 1.50"
	case 6:
		return q + "f = " + strconv.FormatFloat(pick(g, "asg_f", fVals), 'f', -1, 64)
	case 7:
		return q + "s = NULL"
	default:
		return q + "a = " + rq + "id"
	}
}

// keyAssignment draws an assignment to the sharding column.
func (g *Gen) keyAssignment(q, rq string) string {
	switch g.intn("kasg", 4) {
	case 0:
		return q + "k = " + rq + "k"
	default:
		return q + "k = " + g.KeyLiteral()
	}
}

func (g *Gen) dmlOrder(q string) string {
	if !g.chance("dml_order", 25) {
		return ""
	}
	it := q + pick(g, "dml_order_col", []string{"id", "a", "k", "s"})
	if g.chance("dml_order_desc", 40) {
		it += " DESC"
	}
	return " ORDER BY " + it
}

// Update draws an UPDATE of t without LIMIT. touchKey reports whether the
// statement assigns the sharding column.
func (g *Gen) Update() (sql string, touchKey bool) {
	from, q := g.TableRef()
	n := 1 + g.intn("upd_n", 3)
	tq := ""
	if q != "" && g.chance("upd_qualify_target", 50) {
		tq = q
	}
	var as []string
	for i := 0; i < n; i++ {
		as = append(as, g.assignment(tq, q))
	}
	if g.chance("upd_key", 12) {
		touchKey = true
		ka := g.keyAssignment(tq, q)
		pos := g.intn("upd_key_pos", len(as)+1)
		as = append(as[:pos], append([]string{ka}, as[pos:]...)...)
	}
	return "UPDATE " + from + " SET " + strings.Join(as, ", ") + g.Where(q, 20) + g.dmlOrder(q), touchKey
}

// Delete draws a DELETE from t without LIMIT.
func (g *Gen) Delete() string {
	var from, q string
	switch g.intn("del_ref", 6) {
	case 0:
		from, q = "db.t", "t."
	case 1:
		from, q = "db.t", ""
	case 2:
		from, q = "t", "t."
	default:
		from, q = "t", ""
	}
	return "DELETE FROM " + from + g.Where(q, 15) + g.dmlOrder(q)
}

// InsertDup draws INSERT ... ON DUPLICATE KEY UPDATE on t (unique key (k, id)):
// rows that collide with existing rows and rows that do not.
func (g *Gen) InsertDup(d Data) (sql string, touchKey bool) {
	n := 1 + g.intn("ins_n", 3)
	var rows []string
	for i := 0; i < n; i++ {
		var k, id string
		if len(d.T) > 0 && g.chance("ins_existing", 60) {
			r := pick(g, "ins_row", d.T)
			k, id = KeyLit(g.L, r.K), strconv.FormatInt(r.ID, 10)
		} else {
			k = g.KeyLiteral()
			id = strconv.Itoa(100 + g.intn("ins_id", 5))
		}
		a := strconv.FormatInt(pick(g, "ins_a", aVals), 10)
		s := sqlStr(pick(g, "ins_s", sVals))
		rows = append(rows, "("+k+", "+a+", "+s+", "+id+")")
	}
	var ups []string
	for i := 0; i < 1+g.intn("ins_ups", 2); i++ {
		ups = append(ups, pick(g, "ins_up", []string{"a = a + 1", "a = VALUES(a)", "s = VALUES(s)", "s = 'dup'", "a = 7", "d = 1.50", "t.a = 3"}))
	}
	if g.chance("ins_key", 15) {
		touchKey = true
		ups = append(ups, pick(g, "ins_kup", []string{"k = VALUES(k)", "k = " + g.KeyLiteral(), "k = k"}))
		if g.chance("ins_key_first", 50) {
			ups[0], ups[len(ups)-1] = ups[len(ups)-1], ups[0]
		}
	}
	tbl := pick(g, "ins_tbl", []string{"t", "t", "db.t"})
	return "INSERT INTO " + tbl + " (k, a, s, id) VALUES " + strings.Join(rows, ", ") + " ON DUPLICATE KEY UPDATE " + strings.Join(ups, ", "), touchKey
}
