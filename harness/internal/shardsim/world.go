// Package shardsim is the data side of the differential checks C02 and C05:
// table contents placed on the physical tables of a shardfix layout by the
// rule's own placement function, the per-shard catalogs the simulated
// backends evaluate rewritten statements on (through sqlmodel), and the union
// catalog ("one database holding all shards") the reference answer is
// computed on.
//
// Schema (logical database "db"):
//
//	t  (k <key type>, a INT NULL, s VARCHAR NULL, d DECIMAL(10,2) NULL, f DOUBLE NULL, id BIGINT NOT NULL)
//	tc (<child key> <key type>, v INT NULL, w VARCHAR NULL)          linked to t
//	g1 (id BIGINT, a INT NULL)                                      global, identical on every copy
package shardsim

import (
	"fmt"
	"sort"
	"strconv"
	"strings"

	"github.com/XiaoMi/Gaea/mysql"
	"github.com/XiaoMi/Gaea/parser/ast"

	"verifharness/internal/shardfix"
	"verifharness/internal/sqlmodel"
)

// Key is a sharding-key value (one of I / S is used, by the layout's key type).
type Key struct {
	I int64  `json:"i,omitempty"`
	S string `json:"s,omitempty"`
}

// Row is one row of t.
type Row struct {
	K  Key      `json:"k"`
	A  *int64   `json:"a"`
	S  *string  `json:"s"`
	D  *string  `json:"d"` // decimal text with two fraction digits
	F  *float64 `json:"f"`
	ID int64    `json:"id"`
}

// ChildRow is one row of the linked table tc.
type ChildRow struct {
	K Key     `json:"k"`
	V *int64  `json:"v"`
	W *string `json:"w"`
}

// GlobalRow is one row of the global table g1.
type GlobalRow struct {
	ID int64  `json:"id"`
	A  *int64 `json:"a"`
}

// Data is the content of the namespace.
type Data struct {
	T  []Row       `json:"t"`
	TC []ChildRow  `json:"tc,omitempty"`
	G1 []GlobalRow `json:"g1,omitempty"`
}

// World is a layout with data on it.
type World struct {
	F     *shardfix.Fixture
	Phys  map[string]*sqlmodel.Table // slice|db|name -> physical table
	Union *sqlmodel.MapCatalog       // db.t, db.tc, db.g1 of the single reference database
	// Unsupported collects statements the evaluator refused as outside its
	// subset (a harness limitation, never a verdict).
	Unsupported []string
	Opt         sqlmodel.ExecOptions
	Trace       []StmtTrace // every statement the simulated backends received
}

// StmtTrace records what one backend statement did.
type StmtTrace struct {
	Stmt     shardfix.Stmt
	Matched  int // rows that passed WHERE (SELECT) / were matched (DML)
	Rows     int // rows returned
	Affected uint64
	Err      string
}

func physKey(slice, db, name string) string {
	return slice + "|" + strings.ToLower(db) + "|" + strings.ToLower(name)
}

// KeyKind is the sqlmodel kind of the sharding column.
func KeyKind(l shardfix.Layout) sqlmodel.Kind {
	switch l.KeyType {
	case shardfix.KeyStr:
		return sqlmodel.KString
	case shardfix.KeyDatetime:
		return sqlmodel.KTime
	}
	return sqlmodel.KInt
}

// TCols are the columns of t.
func TCols(l shardfix.Layout) []sqlmodel.Column {
	return []sqlmodel.Column{{Name: "k", K: KeyKind(l)}, {Name: "a", K: sqlmodel.KInt, Int32: true}, {Name: "s", K: sqlmodel.KString},
		{Name: "d", K: sqlmodel.KDec, Scale: 2}, {Name: "f", K: sqlmodel.KDouble}, {Name: "id", K: sqlmodel.KInt}}
}

// TCCols are the columns of tc.
func TCCols(l shardfix.Layout) []sqlmodel.Column {
	ck := l.ChildKey
	if ck == "" {
		ck = "k"
	}
	return []sqlmodel.Column{{Name: ck, K: KeyKind(l)}, {Name: "v", K: sqlmodel.KInt, Int32: true}, {Name: "w", K: sqlmodel.KString}}
}

// GCols are the columns of g1.
func GCols() []sqlmodel.Column {
	return []sqlmodel.Column{{Name: "id", K: sqlmodel.KInt}, {Name: "a", K: sqlmodel.KInt, Int32: true}}
}

// KeyValue converts a key to its sqlmodel value.
func KeyValue(l shardfix.Layout, k Key) sqlmodel.Value {
	switch l.KeyType {
	case shardfix.KeyStr:
		return sqlmodel.Str(k.S)
	case shardfix.KeyDatetime:
		return sqlmodel.Time(k.S)
	}
	return sqlmodel.Int(k.I)
}

// GoValue is the Go value INSERT routing sees for the key's literal.
func GoValue(l shardfix.Layout, k Key) interface{} {
	switch l.KeyType {
	case shardfix.KeyStr, shardfix.KeyDatetime:
		return k.S
	}
	if k.I < 0 {
		return strconv.FormatInt(k.I, 10)
	}
	return k.I
}

// KeyLit is the SQL literal of a key.
func KeyLit(l shardfix.Layout, k Key) string {
	switch l.KeyType {
	case shardfix.KeyStr, shardfix.KeyDatetime:
		return "'" + strings.ReplaceAll(k.S, "'", "''") + "'"
	}
	if k.I < 0 {
		return "'" + strconv.FormatInt(k.I, 10) + "'"
	}
	return strconv.FormatInt(k.I, 10)
}

func optInt(p *int64) sqlmodel.Value {
	if p == nil {
		return sqlmodel.Null(sqlmodel.KInt)
	}
	return sqlmodel.Int(*p)
}

func optStr(p *string) sqlmodel.Value {
	if p == nil {
		return sqlmodel.Null(sqlmodel.KString)
	}
	return sqlmodel.Str(*p)
}

// RowValues converts a row of t.
func RowValues(l shardfix.Layout, r Row) ([]sqlmodel.Value, error) {
	d := sqlmodel.Null(sqlmodel.KDec)
	if r.D != nil {
		v, err := sqlmodel.ParseDec(*r.D)
		if err != nil || v.Scale != 2 {
			return nil, fmt.Errorf("bad decimal %q", *r.D)
		}
		d = v
	}
	f := sqlmodel.Null(sqlmodel.KDouble)
	if r.F != nil {
		f = sqlmodel.Double(*r.F)
	}
	return []sqlmodel.Value{KeyValue(l, r.K), optInt(r.A), optStr(r.S), d, f, sqlmodel.Int(r.ID)}, nil
}

// Build places the data on the layout's physical tables. An error means the
// case is malformed (a key that no table can hold, an unaccepted layout).
func Build(l shardfix.Layout, d Data) (*World, error) {
	f, err := shardfix.Build(l)
	if err != nil {
		return nil, err
	}
	if f.Rule == nil {
		return nil, fmt.Errorf("layout without sharded table")
	}
	w := &World{F: f, Phys: map[string]*sqlmodel.Table{}, Union: sqlmodel.NewMapCatalog(shardfix.DB)}
	ut := sqlmodel.NewTable(shardfix.DB, shardfix.Table, TCols(l))
	ut.UK = []int{0, 5} // unique key (k, id): a unique key of a sharded table contains the sharding column
	w.Union.Add(shardfix.DB, shardfix.Table, ut)
	var utc *sqlmodel.Table
	if l.ChildKey != "" {
		utc = sqlmodel.NewTable(shardfix.DB, shardfix.Child, TCCols(l))
		w.Union.Add(shardfix.DB, shardfix.Child, utc)
	}
	for _, tl := range f.Tables {
		pt := sqlmodel.NewTable(tl.DB, tl.Name, TCols(l))
		pt.UK = []int{0, 5}
		w.Phys[physKey(tl.Slice, tl.DB, tl.Name)] = pt
		if l.ChildKey != "" {
			w.Phys[physKey(tl.Slice, tl.DB, tl.Child)] = sqlmodel.NewTable(tl.DB, tl.Child, TCCols(l))
		}
	}
	type placed struct {
		idx int
		row []sqlmodel.Value
	}
	var pt, pc []placed
	for i, r := range d.T {
		idx, ok := f.Place(GoValue(l, r.K))
		if !ok {
			return nil, fmt.Errorf("row %d of t: key %v cannot be placed", i, r.K)
		}
		vals, err := RowValues(l, r)
		if err != nil {
			return nil, err
		}
		pt = append(pt, placed{idx, vals})
	}
	for i, r := range d.TC {
		if l.ChildKey == "" {
			break
		}
		idx, ok := f.Place(GoValue(l, r.K))
		if !ok {
			return nil, fmt.Errorf("row %d of tc: key %v cannot be placed", i, r.K)
		}
		pc = append(pc, placed{idx, []sqlmodel.Value{KeyValue(l, r.K), optInt(r.V), optStr(r.W)}})
	}
	// physical tables keep insertion order; the union lists shard after shard
	for _, tl := range f.Tables {
		pt0 := w.Phys[physKey(tl.Slice, tl.DB, tl.Name)]
		for _, p := range pt {
			if p.idx == tl.Index {
				pt0.Rows = append(pt0.Rows, p.row)
				ut.Rows = append(ut.Rows, p.row)
			}
		}
		if l.ChildKey != "" {
			pc0 := w.Phys[physKey(tl.Slice, tl.DB, tl.Child)]
			for _, p := range pc {
				if p.idx == tl.Index {
					pc0.Rows = append(pc0.Rows, p.row)
					utc.Rows = append(utc.Rows, p.row)
				}
			}
		}
	}
	for _, g := range l.Globals {
		if g.Table != "g1" {
			continue
		}
		var rows [][]sqlmodel.Value
		for _, r := range d.G1 {
			rows = append(rows, []sqlmodel.Value{sqlmodel.Int(r.ID), optInt(r.A)})
		}
		ug := sqlmodel.NewTable(shardfix.DB, "g1", GCols())
		ug.Rows = rows
		w.Union.Add(shardfix.DB, "g1", ug)
		for _, c := range g.Copies() {
			gt := sqlmodel.NewTable(c.DB, "g1", GCols())
			gt.Rows = append([][]sqlmodel.Value(nil), rows...)
			w.Phys[physKey(c.Slice, c.DB, "g1")] = gt
		}
	}
	return w, nil
}

// TableAt returns the physical table of t with index idx.
func (w *World) TableAt(idx int) *sqlmodel.Table {
	tl, ok := w.F.TableByIndex(idx)
	if !ok {
		return nil
	}
	return w.Phys[physKey(tl.Slice, tl.DB, tl.Name)]
}

// shardCatalog resolves names the way a backend connection on slice with
// current database db does.
type shardCatalog struct {
	w     *World
	slice string
	db    string
}

func (c shardCatalog) Lookup(schema, name string) (*sqlmodel.Table, error) {
	if schema == "" {
		schema = c.db
	}
	t, ok := c.w.Phys[physKey(c.slice, schema, name)]
	if !ok {
		return nil, &sqlmodel.SQLError{Code: 1146, Msg: fmt.Sprintf("Table '%s.%s' doesn't exist on %s", schema, name, c.slice)}
	}
	return t, nil
}

// ShardCatalog is the catalog of a backend connection.
func (w *World) ShardCatalog(slice, db string) sqlmodel.Catalog {
	return shardCatalog{w, slice, db}
}

// ExecStmt is the simulated backend: it evaluates one rewritten statement on
// the shard it was sent to and answers as the backend's text protocol would.
func (w *World) ExecStmt(s shardfix.Stmt) (*mysql.Result, error) {
	st, err := sqlmodel.Parse(s.SQL)
	if err != nil {
		return nil, mysql.NewError(1064, fmt.Sprintf("You have an error in your SQL syntax: %v", err))
	}
	cat := w.ShardCatalog(s.Slice, s.DB)
	switch st.(type) {
	case *ast.SelectStmt, *ast.UnionStmt:
		rs, err := sqlmodel.QueryStmt(st, cat)
		if err != nil {
			return nil, w.backendErr(s, err)
		}
		w.Trace = append(w.Trace, StmtTrace{Stmt: s, Matched: rs.Matched, Rows: len(rs.Rows)})
		return sqlmodel.Encode(rs)
	default:
		r, err := sqlmodel.ExecStmt(st, cat, w.Opt)
		if err != nil {
			return nil, w.backendErr(s, err)
		}
		w.Trace = append(w.Trace, StmtTrace{Stmt: s, Matched: int(r.Matched), Affected: r.Affected})
		return sqlmodel.EncodeOK(r), nil
	}
}

func (w *World) backendErr(s shardfix.Stmt, err error) error {
	w.Trace = append(w.Trace, StmtTrace{Stmt: s, Err: err.Error()})
	if u, ok := err.(*sqlmodel.Unsupported); ok {
		w.Unsupported = append(w.Unsupported, u.What+" in "+s.SQL)
	}
	if e, ok := err.(*sqlmodel.SQLError); ok {
		return mysql.NewError(uint16(e.Code), e.Msg)
	}
	return err
}

// ShardRows lists the rows of t currently on every physical table, by index.
func (w *World) ShardRows() map[int][][]sqlmodel.Value {
	out := map[int][][]sqlmodel.Value{}
	for _, tl := range w.F.Tables {
		out[tl.Index] = w.Phys[physKey(tl.Slice, tl.DB, tl.Name)].Rows
	}
	return out
}

// SortedKeys returns the multiset of rows as sorted canonical keys.
func SortedKeys(rows [][]sqlmodel.Value) []string {
	ks := make([]string, len(rows))
	for i, r := range rows {
		ks[i] = sqlmodel.RowKey(r)
	}
	sort.Strings(ks)
	return ks
}
