package shardsim

import (
	"strings"

	"github.com/XiaoMi/Gaea/parser/ast"
	"github.com/XiaoMi/Gaea/parser/opcode"
	driver "github.com/XiaoMi/Gaea/parser/tidb-types/parser_driver"

	"verifharness/internal/shardfix"
	"verifharness/internal/sqlmodel"
)

// Narrow recognition of the two routing defects C02 and C05 inherit from C01
// (findings C01-F1 and C01-F2). Both are recognised from the statement's own
// key predicates and from which tables actually received a statement:
//
//	LT  calendar rule, "k < v" / "v > k" / "k NOT BETWEEN v AND w" (v placed
//	    not after w): the planner drops v's own period.
//	NB  range-like rule, "k NOT BETWEEN lo AND hi" with lo placed after hi:
//	    the planner drops the tables from hi's up to the one before lo's.
//
// DroppedLT / DroppedNB return exactly those tables when they were not
// routed; a check neutralises the defect by emptying them (DropRows) on both
// sides of the differential and must then see a correct answer.

type boundAtoms struct {
	lt []*driver.ValueExpr
	nb [][2]*driver.ValueExpr
}

type boundCollector struct {
	keyCols map[string]bool
	out     *boundAtoms
}

func (b *boundCollector) isKey(x ast.ExprNode) bool {
	cn, ok := x.(*ast.ColumnNameExpr)
	return ok && b.keyCols[cn.Name.Name.L]
}

func (b *boundCollector) Enter(n ast.Node) (ast.Node, bool) {
	switch x := n.(type) {
	case *ast.BinaryOperationExpr:
		lv, lok := x.L.(*driver.ValueExpr)
		rv, rok := x.R.(*driver.ValueExpr)
		if x.Op == opcode.LT && b.isKey(x.L) && rok {
			b.out.lt = append(b.out.lt, rv)
		}
		if x.Op == opcode.GT && b.isKey(x.R) && lok {
			b.out.lt = append(b.out.lt, lv)
		}
	case *ast.BetweenExpr:
		lo, ok1 := x.Left.(*driver.ValueExpr)
		hi, ok2 := x.Right.(*driver.ValueExpr)
		if x.Not && b.isKey(x.Expr) && ok1 && ok2 {
			b.out.nb = append(b.out.nb, [2]*driver.ValueExpr{lo, hi})
		}
	}
	return n, false
}

func (b *boundCollector) Leave(n ast.Node) (ast.Node, bool) { return n, true }

func collectBounds(st ast.StmtNode, l shardfix.Layout) boundAtoms {
	var out boundAtoms
	kc := map[string]bool{"k": true}
	if l.ChildKey != "" {
		kc[l.ChildKey] = true
	}
	st.Accept(&boundCollector{keyCols: kc, out: &out})
	return out
}

func goValueOf(v *driver.ValueExpr) interface{} {
	lit, err := sqlmodel.Literal(v)
	if err != nil || lit.Null {
		return nil
	}
	switch lit.K {
	case sqlmodel.KInt:
		return lit.I
	case sqlmodel.KString:
		return lit.S
	}
	return nil
}

// RoutedTables is the set of physical tables of t (by index) that received a
// statement, read from the backend trace.
func (w *World) RoutedTables() map[int]bool {
	out := map[int]bool{}
	for _, tl := range w.F.Tables {
		for _, tr := range w.Trace {
			if tr.Stmt.Slice != tl.Slice || tr.Stmt.DB != tl.DB {
				continue
			}
			if w.F.Layout.IsMycat() || strings.Contains(tr.Stmt.SQL, "`"+tl.Name+"`") || strings.Contains(tr.Stmt.SQL, "`"+tl.Child+"`") {
				out[tl.Index] = true
			}
		}
	}
	return out
}

// DroppedLT lists the unrouted tables that the LT defect explains for st.
func (w *World) DroppedLT(st ast.StmtNode) map[int]bool {
	l := w.F.Layout
	if !l.IsDate() {
		return nil
	}
	b := collectBounds(st, l)
	cand := map[int]bool{}
	for _, v := range b.lt {
		if idx, ok := w.F.Place(goValueOf(v)); ok {
			cand[idx] = true
		}
	}
	for _, p := range b.nb {
		// the upper bound may lie outside the configured periods (calendar
		// placement still yields its period number)
		lo, ok1 := w.F.Place(goValueOf(p[0]))
		hi, _ := w.F.Place(goValueOf(p[1]))
		if ok1 && hi >= 0 && lo <= hi {
			cand[lo] = true
		}
	}
	routed := w.RoutedTables()
	drop := map[int]bool{}
	for idx := range cand {
		if !routed[idx] {
			drop[idx] = true
		}
	}
	return drop
}

// DroppedNB lists the unrouted tables that the NB defect explains for st.
func (w *World) DroppedNB(st ast.StmtNode) map[int]bool {
	l := w.F.Layout
	if !l.IsRangeLike() {
		return nil
	}
	b := collectBounds(st, l)
	routed := w.RoutedTables()
	drop := map[int]bool{}
	for _, p := range b.nb {
		lo, ok1 := w.F.Place(goValueOf(p[0]))
		hi, ok2 := w.F.Place(goValueOf(p[1]))
		if !l.IsDate() && (!ok1 || !ok2) {
			continue // a range rule rejects bounds outside its ranges
		}
		if lo < 0 || hi < 0 || lo <= hi {
			continue
		}
		for _, tl := range w.F.Tables {
			if tl.Index >= hi && tl.Index < lo && !routed[tl.Index] {
				drop[tl.Index] = true
			}
		}
	}
	return drop
}

// DropRows removes from d every row of t and tc that lives in one of tables.
func (w *World) DropRows(d Data, tables map[int]bool) (Data, bool) {
	changed := false
	l := w.F.Layout
	var out Data
	out.G1 = d.G1
	for _, r := range d.T {
		idx, _ := w.F.Place(GoValue(l, r.K))
		if tables[idx] {
			changed = true
			continue
		}
		out.T = append(out.T, r)
	}
	for _, r := range d.TC {
		idx, _ := w.F.Place(GoValue(l, r.K))
		if tables[idx] {
			changed = true
			continue
		}
		out.TC = append(out.TC, r)
	}
	return out, changed
}
