// Package pbt is the glue between rapid, the property functions and the
// /verif/check driver: seeds and case counts from the environment, evidence
// counters, minimised-failure files, replay of saved cases and the
// known-findings protocol (DESIGN.md 2.5-2.7).
package pbt

import (
	"crypto/sha1"
	"encoding/binary"
	"encoding/json"
	"flag"
	"fmt"
	"os"
	"path/filepath"
	"sort"
	"strconv"
	"strings"
	"sync"
	"testing"

	"pgregory.net/rapid"
)

// Outcome is what a property function reports for one case.
type Outcome struct {
	Skip       string   // non-empty: oracle not evaluated (reason)
	Violation  string   // non-empty: the property is violated (detail)
	Known      string   // non-empty: id of the known finding this failure is classified as
	KnownWhat  string   // detail of the classified failure
	NonTrivial bool     // the case is non-trivial by the property's stated rule
	Labels     []string // classes for the label histogram
}

// Spec configures one sub-check of a property.
type Spec struct {
	ID       string  // property id, e.g. "C12"
	Sub      string  // sub-check name, e.g. "decode"
	Quick    int     // rapid cases in the quick tier
	Thorough int     // rapid cases per shard in the thorough tier
	Rule     string  // how cases are generated and what makes one non-trivial
	Floor    float64 // minimal non-trivial fraction; below it the run is inconclusive
	Steps    int     // rapid.steps override (0 = leave)
}

type finding struct {
	ID       string `json:"id"`
	Property string `json:"property"`
	Status   string `json:"status"`
	What     string `json:"what"`
	Witness  string `json:"witness"`
}

type findingsFile struct {
	Findings []finding `json:"findings"`
	Fixed    []string  `json:"fixed"`
}

// Recorder accumulates the evidence of one sub-check.
type Recorder struct {
	mu          sync.Mutex
	spec        Spec
	Evaluations int            `json:"evaluations"`
	NonTrivial  int            `json:"nontrivial"`
	Skipped     map[string]int `json:"skipped"`
	Labels      map[string]int `json:"labels"`
	KnownHits   map[string]int `json:"known_hits"`
	KnownWhat   map[string]string `json:"known_what"`
	Violations  int            `json:"violations"`
	ViolationDetail string     `json:"violation_detail,omitempty"`
	FailFile    string         `json:"fail_file,omitempty"`
	Samples     []json.RawMessage `json:"samples"`
	hashes      map[uint64]struct{}
	extra       map[string]interface{}
	shrinking   bool
}

func envInt(name string, def int) int {
	if v := os.Getenv(name); v != "" {
		if n, err := strconv.Atoi(v); err == nil {
			return n
		}
	}
	return def
}

// Tier returns "quick" or "thorough".
func Tier() string {
	if os.Getenv("VERIF_TIER") == "thorough" {
		return "thorough"
	}
	return "quick"
}

// Seed returns the rapid seed for this process (never 0).
func Seed() uint64 {
	s := uint64(envInt("VERIF_SEED", 1))
	sh := uint64(envInt("VERIF_SHARD", 0))
	v := s*64 + sh
	if v == 0 {
		v = 0x5eed
	}
	return v
}

// VerifDir is the root of the verification tree.
func VerifDir() string {
	if d := os.Getenv("VERIF_DIR"); d != "" {
		return d
	}
	return "/verif"
}

func outDir() string {
	if d := os.Getenv("VERIF_OUT"); d != "" {
		return d
	}
	d := filepath.Join(VerifDir(), "build", "out")
	os.MkdirAll(d, 0o755)
	return d
}

func loadFindings() map[string]finding {
	res := map[string]finding{}
	b, err := os.ReadFile(filepath.Join(VerifDir(), "known_findings.json"))
	if err != nil {
		return res
	}
	var ff findingsFile
	if json.Unmarshal(b, &ff) != nil {
		return res
	}
	for _, f := range ff.Findings {
		if f.Status == "open" {
			res[f.ID] = f
		}
	}
	return res
}

func canon(c interface{}) []byte {
	b, err := json.Marshal(c)
	if err != nil {
		return []byte(fmt.Sprintf("%#v", c))
	}
	return b
}

func newRecorder(spec Spec) *Recorder {
	return &Recorder{spec: spec, Skipped: map[string]int{}, Labels: map[string]int{},
		KnownHits: map[string]int{}, KnownWhat: map[string]string{}, hashes: map[uint64]struct{}{}, extra: map[string]interface{}{}}
}

// SetExtra adds a free-form key to the evidence coverage.
func (r *Recorder) SetExtra(k string, v interface{}) {
	r.mu.Lock()
	r.extra[k] = v
	r.mu.Unlock()
}

const maxHashes = 3000000

func (r *Recorder) record(c interface{}, o Outcome) {
	r.mu.Lock()
	defer r.mu.Unlock()
	if o.Skip != "" {
		r.Skipped[o.Skip]++
		return
	}
	r.Evaluations++
	for _, l := range o.Labels {
		r.Labels[l]++
	}
	var cj []byte
	if o.NonTrivial {
		r.NonTrivial++
		cj = canon(c)
		h := sha1.Sum(cj)
		if len(r.hashes) < maxHashes {
			r.hashes[binary.LittleEndian.Uint64(h[:8])] = struct{}{}
		}
	}
	// samples: the first 3 evaluated cases, then up to 5 more chosen by case hash
	if len(r.Samples) < 3 || (len(r.Samples) < 8 && o.NonTrivial && r.Evaluations%97 == 0) {
		if cj == nil {
			cj = canon(c)
		}
		if len(cj) > 4096 {
			cj, _ = json.Marshal(string(cj[:4096]) + "...(truncated)")
		}
		r.Samples = append(r.Samples, json.RawMessage(cj))
	}
}

func (r *Recorder) flush() {
	r.mu.Lock()
	defer r.mu.Unlock()
	hs := make([]uint64, 0, len(r.hashes))
	for h := range r.hashes {
		hs = append(hs, h)
	}
	sort.Slice(hs, func(i, j int) bool { return hs[i] < hs[j] })
	out := map[string]interface{}{
		"property_id": r.spec.ID, "sub": r.spec.Sub, "rule": r.spec.Rule, "floor": r.spec.Floor,
		"evaluations": r.Evaluations, "nontrivial": r.NonTrivial, "distinct_nontrivial": len(hs),
		"skipped": r.Skipped, "labels": r.Labels, "known_hits": r.KnownHits, "known_what": r.KnownWhat,
		"violations": r.Violations, "violation_detail": r.ViolationDetail, "fail_file": r.FailFile,
		"samples": r.Samples, "extra": r.extra, "seed": Seed(), "tier": Tier(),
	}
	b, _ := json.Marshal(out)
	base := filepath.Join(outDir(), fmt.Sprintf("%s.%s.%d", r.spec.ID, r.spec.Sub, envInt("VERIF_SHARD", 0)))
	os.WriteFile(base+".json", b, 0o644)
	hb := make([]byte, 8*len(hs))
	for i, h := range hs {
		binary.LittleEndian.PutUint64(hb[8*i:], h)
	}
	os.WriteFile(base+".hashes", hb, 0o644)
}

type replayFile struct {
	Property string          `json:"property"`
	Sub      string          `json:"sub"`
	Expect   string          `json:"expect"` // "pass" or "known:<finding id>"
	Note     string          `json:"note,omitempty"`
	Detail   string          `json:"detail,omitempty"`
	Case     json.RawMessage `json:"case"`
}

func writeFail(spec Spec, c interface{}, detail string) string {
	dir := filepath.Join(VerifDir(), "build", "fail")
	os.MkdirAll(dir, 0o755)
	p := filepath.Join(dir, fmt.Sprintf("%s-%s-seed%d.json", spec.ID, spec.Sub, Seed()))
	rf := replayFile{Property: spec.ID, Sub: spec.Sub, Expect: "pass", Detail: detail, Case: canon(c)}
	b, _ := json.MarshalIndent(rf, "", " ")
	os.WriteFile(p, b, 0o644)
	return p
}

// Run is the standard entry point of a sub-check: it replays saved cases,
// then searches with rapid, and always writes the evidence of this run.
func Run[C any](t *testing.T, spec Spec, gen func(*rapid.T) C, check func(C) Outcome) {
	RunWith(t, spec, gen, func(c C, _ *Recorder) Outcome { return check(c) })
}

// RunWith is Run for property functions that also want the recorder.
func RunWith[C any](t *testing.T, spec Spec, gen func(*rapid.T) C, check func(C, *Recorder) Outcome) {
	rec := newRecorder(spec)
	known := loadFindings()
	defer rec.flush()
	replaySub = spec.Sub

	judge := func(c C) (Outcome, string) {
		o := check(c, rec)
		if o.Known != "" {
			if _, ok := known[o.Known]; !ok {
				// classified as a finding that is not (or no longer) listed: a violation
				o.Violation = fmt.Sprintf("[unlisted finding %s] %s", o.Known, o.KnownWhat)
				o.Known = ""
			}
		}
		return o, o.Violation
	}

	// 1. explicit replay of one file
	if p := os.Getenv("VERIF_REPLAY"); p != "" {
		rf, c, err := loadReplay[C](p)
		if err != nil {
			t.Fatalf("replay %s: %v", p, err)
		}
		if rf.Sub != "" && rf.Sub != spec.Sub {
			t.Skipf("replay file is for sub-check %s", rf.Sub)
		}
		o, v := judge(c)
		rec.record(c, o)
		if v != "" {
			rec.Violations++
			rec.ViolationDetail = v
			rec.FailFile = p
			fmt.Printf("VIOLATION property=%s replay=%s\n  detail: %s\n", spec.ID, p, v)
			t.Fatalf("violation: %s", v)
		}
		if o.Known != "" {
			fmt.Printf("KNOWN-FINDING: property=%s %s: %s\n", spec.ID, o.Known, known[o.Known].What)
		}
		return
	}

	// 2. committed regression / witness corpus
	files, _ := filepath.Glob(filepath.Join(VerifDir(), "replay", spec.ID, "*.json"))
	sort.Strings(files)
	printed := map[string]bool{}
	for _, p := range files {
		rf, c, err := loadReplay[C](p)
		if err != nil || rf.Sub != spec.Sub {
			continue
		}
		o, v := judge(c)
		rec.record(c, o)
		rec.Labels["replayed_corpus_case"]++
		if v != "" {
			rec.Violations++
			rec.ViolationDetail = v
			rec.FailFile = p
			fmt.Printf("VIOLATION property=%s replay=%s\n  detail: %s\n", spec.ID, p, v)
			t.Fatalf("saved case %s violates: %s", p, v)
		}
		if o.Known != "" {
			rec.KnownHits[o.Known]++
			rec.KnownWhat[o.Known] = o.KnownWhat
			if !printed[o.Known] {
				printed[o.Known] = true
				fmt.Printf("KNOWN-FINDING: property=%s %s: %s\n", spec.ID, o.Known, known[o.Known].What)
			}
		} else if strings.HasPrefix(rf.Expect, "known:") {
			fmt.Printf("NOTE property=%s witness %s of %s no longer fails\n", spec.ID, filepath.Base(p), rf.Expect)
		}
	}

	// 3. generated search
	n := spec.Quick
	if Tier() == "thorough" {
		n = spec.Thorough
	}
	if sc := os.Getenv("VERIF_SCALE"); sc != "" {
		if f, err := strconv.ParseFloat(sc, 64); err == nil && f > 0 {
			n = int(float64(n) * f)
		}
	}
	if n <= 0 {
		return
	}
	flag.Set("rapid.checks", strconv.Itoa(n))
	flag.Set("rapid.seed", strconv.FormatUint(Seed(), 10))
	flag.Set("rapid.nofailfile", "true")
	if spec.Steps > 0 {
		flag.Set("rapid.steps", strconv.Itoa(spec.Steps))
	}
	defer func() {
		if t.Failed() && rec.Violations > 0 {
			fmt.Printf("VIOLATION property=%s replay=%s\n  detail: %s\n", spec.ID, rec.FailFile, rec.ViolationDetail)
		}
		for id, n := range rec.KnownHits {
			if !printed[id] && n > 0 {
				fmt.Printf("KNOWN-FINDING: property=%s %s: %s\n", spec.ID, id, known[id].What)
			}
		}
	}()
	rapid.Check(t, func(rt *rapid.T) {
		c := gen(rt)
		o, v := judge(c)
		if v != "" {
			rec.mu.Lock()
			rec.Violations++
			rec.ViolationDetail = v
			rec.FailFile = writeFail(spec, c, v) // the last write is the minimised case
			rec.mu.Unlock()
			rt.Fatalf("violation: %s", v)
		}
		rec.record(c, o)
		if o.Known != "" {
			rec.mu.Lock()
			rec.KnownHits[o.Known]++
			if _, ok := rec.KnownWhat[o.Known]; !ok {
				rec.KnownWhat[o.Known] = o.KnownWhat
			}
			rec.mu.Unlock()
		}
		if o.Skip != "" {
			// the case is counted as skipped; it is still a valid rapid case so
			// that heavy skipping shows up in the evidence rather than as a rapid error
			return
		}
	})
}

// replaySub is the sub-check currently loading replay files (tests of a package run sequentially).
var replaySub string

func loadReplay[C any](p string) (replayFile, C, error) {
	var rf replayFile
	var c C
	b, err := os.ReadFile(p)
	if err != nil {
		return rf, c, err
	}
	if err := json.Unmarshal(b, &rf); err != nil {
		return rf, c, err
	}
	if want := replaySub; want != "" && rf.Sub != "" && rf.Sub != want {
		// a case of another sub-check: its JSON need not fit this sub-check's case type
		return rf, c, nil
	}
	if err := json.Unmarshal(rf.Case, &c); err != nil {
		return rf, c, err
	}
	return rf, c, nil
}

// Catch runs f and converts a Go runtime panic into a string (empty if none).
func Catch(f func()) (panicked string) {
	defer func() {
		if r := recover(); r != nil {
			panicked = fmt.Sprint(r)
		}
	}()
	f()
	return ""
}
