package shardfix

import (
	"github.com/XiaoMi/Gaea/parser/ast"
)

// TabRef is a table reference found in a statement.
type TabRef struct {
	Schema, Name string // as written (original case)
}

// ColRef is a column reference found in a statement.
type ColRef struct {
	Schema, Table, Name string
}

type nameCollector struct {
	tabs []TabRef
	cols []ColRef
}

func (c *nameCollector) Enter(n ast.Node) (ast.Node, bool) {
	switch x := n.(type) {
	case *ast.TableName:
		c.tabs = append(c.tabs, TabRef{Schema: x.Schema.O, Name: x.Name.O})
	case *ast.ColumnName:
		c.cols = append(c.cols, ColRef{Schema: x.Schema.O, Table: x.Table.O, Name: x.Name.O})
	}
	return n, false
}

func (c *nameCollector) Leave(n ast.Node) (ast.Node, bool) { return n, true }

// Names lists every table and column reference of a parsed statement (used on
// the re-parsed per-shard SQL to see which physical names it mentions).
func Names(n ast.Node) ([]TabRef, []ColRef) {
	c := &nameCollector{}
	n.Accept(c)
	return c.tabs, c.cols
}
