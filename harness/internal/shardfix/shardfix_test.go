package shardfix

import (
	"testing"

	"pgregory.net/rapid"
)

// Every generated layout must be an accepted configuration, and the physical
// tables derived from the configuration must be the ones the router knows.
func TestGeneratedLayoutsBuild(t *testing.T) {
	rapid.Check(t, func(rt *rapid.T) {
		l := GenLayout(rt, Opts{})
		f, err := Build(l)
		if err != nil {
			rt.Fatalf("layout %+v: %v", l, err)
		}
		if l.Kind == "" {
			return
		}
		idx := f.Rule.GetSubTableIndexes()
		if len(idx) != len(f.Tables) {
			rt.Fatalf("layout %+v: router has %d tables, fixture %d", l, len(idx), len(f.Tables))
		}
		for i, tl := range f.Tables {
			if idx[i] != tl.Index {
				rt.Fatalf("layout %+v: table %d index %d vs fixture %d", l, i, idx[i], tl.Index)
			}
			si := f.Rule.GetSliceIndexFromTableIndex(tl.Index)
			if f.Rule.GetSlice(si) != tl.Slice {
				rt.Fatalf("layout %+v: table %d slice %s vs fixture %s", l, tl.Index, f.Rule.GetSlice(si), tl.Slice)
			}
			db, _ := f.Rule.GetDatabaseNameByTableIndex(tl.Index)
			if db != tl.DB {
				rt.Fatalf("layout %+v: table %d db %s vs fixture %s", l, tl.Index, db, tl.DB)
			}
		}
		u := f.Universe()
		if len(u) == 0 {
			rt.Fatalf("empty universe")
		}
		placed := ByTable(u)
		if len(placed) == 0 {
			rt.Fatalf("layout %+v: no key of the universe is placed", l)
		}
	})
}
