package shardfix

import (
	"fmt"
	"strconv"
	"time"

	"github.com/XiaoMi/Gaea/models"
	"pgregory.net/rapid"
)

// Opts restricts GenLayout.
type Opts struct {
	Kinds       []string // rule types to choose from (default AllKinds); a single "" entry = no sharded table
	MaxPerSlice int      // max tables per slice for hash-like rules (default 4)
	MaxPeriods  int      // max calendar periods in total (default 10)
	Globals     int      // number of global tables: -1 none, 0 random 0..2, n>0 exactly n (max 2)
	NoChild     bool     // never configure the linked table
	NoSeq       bool     // never configure a global sequence
	SameGlobals bool     // g2 gets g1's layout (Gaea documents that global tables used together must be configured alike)
}

// mycat_long / mycat_string partition tables for 1..8 shards: count, length
// with sum(count)=shards and sum(count*length)=1024.
var partitionTables = map[int][][2]string{
	1:  {{"1", "1024"}},
	2:  {{"2", "512"}, {"1,1", "256,768"}},
	3:  {{"2,1", "256,512"}, {"1,2", "512,256"}},
	4:  {{"4", "256"}, {"2,2", "128,384"}},
	5:  {{"4,1", "128,512"}},
	6:  {{"4,2", "128,256"}, {"2,4", "256,128"}},
	7:  {{"6,1", "128,256"}},
	8:  {{"8", "128"}},
	9:  {{"8,1", "64,512"}},
	10: {{"8,2", "64,256"}},
	12: {{"8,4", "64,128"}},
	16: {{"16", "64"}},
}

func genSliceList(t *rapid.T, name string, ns int, allowRepeat bool) []int {
	n := rapid.IntRange(1, ns).Draw(t, name+"_n")
	perm := rapid.Permutation(seq(ns)).Draw(t, name+"_perm")
	if rapid.IntRange(0, 3).Draw(t, name+"_ordered") != 0 {
		perm = seq(ns) // most configurations list slices in namespace order
	}
	out := append([]int(nil), perm[:n]...)
	if allowRepeat && rapid.IntRange(0, 7).Draw(t, name+"_rep") == 0 {
		out = append(out, out[0])
	}
	return out
}

func seq(n int) []int {
	s := make([]int, n)
	for i := range s {
		s[i] = i
	}
	return s
}

// GenLayout draws a layout accepted by configuration validation.
func GenLayout(t *rapid.T, o Opts) Layout {
	if len(o.Kinds) == 0 {
		o.Kinds = AllKinds
	}
	if o.MaxPerSlice == 0 {
		o.MaxPerSlice = 4
	}
	if o.MaxPeriods == 0 {
		o.MaxPeriods = 10
	}
	l := Layout{Kind: o.Kinds[Uniform(t, "kind", len(o.Kinds))]}
	l.NSSlices = rapid.IntRange(1, 4).Draw(t, "ns_slices")
	if l.Kind != "" {
		l.RuleSlices = genSliceList(t, "rule_slices", l.NSSlices, true)
		genRule(t, &l, o)
		if !o.NoChild && rapid.IntRange(0, 3).Draw(t, "child") != 0 {
			l.ChildKey = []string{"pk", "pk", "k"}[Uniform(t, "child_key", 3)] // mostly a name different from the parent's key
		}
		if !o.NoSeq && rapid.IntRange(0, 2).Draw(t, "seq") == 0 {
			l.SeqCol = "id"
			if l.KeyType == KeyInt && rapid.IntRange(0, 3).Draw(t, "seq_on_key") == 0 {
				l.SeqCol = Key
			}
		}
	}
	ng := o.Globals
	switch {
	case ng < 0:
		ng = 0
	case ng == 0:
		ng = rapid.IntRange(0, 2).Draw(t, "n_globals")
	}
	for i := 0; i < ng && i < 2; i++ {
		name := "g" + strconv.Itoa(i+1)
		if i == 1 && o.SameGlobals {
			g := l.Globals[0]
			g.Table = name
			l.Globals = append(l.Globals, g)
			continue
		}
		l.Globals = append(l.Globals, genGlobal(t, name, l.NSSlices))
	}
	return l
}

func genGlobal(t *rapid.T, name string, ns int) GlobalSpec {
	g := GlobalSpec{Table: name}
	// the documented configurations list every namespace slice in order; others are accepted too
	switch k := Uniform(t, name+"_slicemode", 10); {
	case k < 5 || ns == 1:
		g.RuleSlices = seq(ns)
	case k < 8:
		// fewer copies than the namespace has slices: the first n slices, in namespace order
		g.RuleSlices = seq(1 + Uniform(t, name+"_prefix", ns-1))
	default:
		g.RuleSlices = genSliceList(t, name+"_slices", ns, false)
	}
	total := 0
	for range g.RuleSlices {
		n := rapid.IntRange(1, 3).Draw(t, name+"_loc")
		g.Locations = append(g.Locations, n)
		total += n
	}
	switch rapid.IntRange(0, 3).Draw(t, name+"_dbmode") {
	case 0: // implicit: the logical database on every slice
	case 1:
		if total >= 2 {
			g.Databases = []string{fmt.Sprintf("gdb_[0-%d]", total-1)}
			break
		}
		fallthrough
	case 2:
		for i := 0; i < total; i++ {
			g.Databases = append(g.Databases, "gdb_"+string(rune('a'+i)))
		}
	default: // explicit list mixing plain names and a range
		if total >= 3 {
			g.Databases = []string{"gdb_x", fmt.Sprintf("gdb_[1-%d]", total-1)}
		} else {
			for i := 0; i < total; i++ {
				g.Databases = append(g.Databases, "gdb_"+strconv.Itoa(i))
			}
		}
	}
	return g
}

func genRule(t *rapid.T, l *Layout, o Opts) {
	l.KeyType = KeyInt
	if l.IsDate() {
		l.KeyType = rapid.SampledFrom([]string{KeyDatetime, KeyDatetime, KeyUnix}).Draw(t, "date_col")
		genDateRanges(t, l, o.MaxPeriods)
		return
	}
	total := 0
	for range l.RuleSlices {
		n := rapid.IntRange(1, o.MaxPerSlice).Draw(t, "loc")
		l.Locations = append(l.Locations, n)
		total += n
	}
	switch l.Kind {
	case models.ShardHash:
		if rapid.IntRange(0, 3).Draw(t, "hash_str") == 0 {
			l.KeyType = KeyStr
		}
	case models.ShardRange:
		l.RowLimit = rapid.SampledFrom([]int{1, 2, 3, 10, 100, 1000, 7, 999}).Draw(t, "row_limit")
	}
	if !l.IsMycat() {
		return
	}
	// mycat rules: one physical database per table
	if _, ok := partitionTables[total]; !ok && (l.Kind == models.ShardMycatLong || l.Kind == models.ShardMycatString) {
		// shrink the layout to a supported partition count
		for total > 8 || partitionTables[total] == nil {
			for i := range l.Locations {
				if l.Locations[i] > 1 {
					l.Locations[i]--
					total--
					break
				}
			}
		}
	}
	if l.Kind == models.ShardMycatPaddingMod && total < 2 {
		l.Locations[0]++
		total++
	}
	switch rapid.IntRange(0, 2).Draw(t, "mycat_dbmode") {
	case 0:
		if total >= 2 {
			l.Databases = []string{fmt.Sprintf("db_m[0-%d]", total-1)}
			break
		}
		fallthrough
	case 1:
		for i := 0; i < total; i++ {
			l.Databases = append(l.Databases, "db_m"+strconv.Itoa(i))
		}
	default:
		if total >= 3 {
			l.Databases = []string{"db_first", fmt.Sprintf("db_m[1-%d]", total-1)}
		} else {
			for i := 0; i < total; i++ {
				l.Databases = append(l.Databases, "db_x"+strconv.Itoa(i))
			}
		}
	}
	switch l.Kind {
	case models.ShardMycatLong, models.ShardMycatString:
		pt := rapid.SampledFrom(partitionTables[total]).Draw(t, "partition")
		l.PartitionCount, l.PartitionLength = pt[0], pt[1]
		if l.Kind == models.ShardMycatString {
			l.HashSlice = rapid.SampledFrom([]string{"0:2", "-2:", ":", "3", ":-1", "1:", "0:20", "-3:-1"}).Draw(t, "hash_slice")
			l.KeyType = KeyStr
			if rapid.IntRange(0, 4).Draw(t, "string_int") == 0 {
				l.KeyType = KeyInt
			}
		}
	case models.ShardMycatMURMUR:
		l.Seed = rapid.SampledFrom([]string{"0", "7", "12345"}).Draw(t, "seed")
		l.VirtualBuckets = rapid.SampledFrom([]string{"", "160", "16", "1"}).Draw(t, "vbt")
		if rapid.IntRange(0, 1).Draw(t, "murmur_str") == 0 {
			l.KeyType = KeyStr
		}
	case models.ShardMycatPaddingMod:
		pm := rapid.SampledFrom([][4]string{{"1", "18", "10", "16"}, {"0", "18", "10", "16"}, {"1", "6", "0", "3"}, {"0", "6", "3", "6"}, {"1", "19", "0", "18"}}).Draw(t, "padding")
		l.PadFrom, l.PadLength, l.ModBegin, l.ModEnd = pm[0], pm[1], pm[2], pm[3]
	}
}

// genDateRanges draws one date_range entry per rule slice: single periods,
// spans, spans crossing year ends, leap days; ascending and non-overlapping as
// validation requires, with gaps between entries.
func genDateRanges(t *rapid.T, l *Layout, maxPeriods int) {
	ns := len(l.RuleSlices)
	per := maxPeriods / ns
	if per < 1 {
		per = 1
	}
	var cur time.Time
	switch l.Kind {
	case models.ShardYear:
		cur = time.Date(rapid.SampledFrom([]int{2015, 2016, 2019, 1999}).Draw(t, "y0"), 1, 1, 0, 0, 0, 0, time.UTC)
	case models.ShardMonth:
		cur = time.Date(rapid.SampledFrom([]int{2015, 2016, 2019}).Draw(t, "y0"), time.Month(rapid.SampledFrom([]int{1, 2, 11, 12}).Draw(t, "m0")), 1, 0, 0, 0, 0, time.UTC)
	default:
		cur = rapid.SampledFrom([]time.Time{
			time.Date(2016, 12, 30, 0, 0, 0, 0, time.UTC), time.Date(2016, 2, 27, 0, 0, 0, 0, time.UTC),
			time.Date(2017, 2, 27, 0, 0, 0, 0, time.UTC), time.Date(2018, 6, 29, 0, 0, 0, 0, time.UTC),
			time.Date(2019, 1, 1, 0, 0, 0, 0, time.UTC)}).Draw(t, "d0")
	}
	step := func(tm time.Time, n int) time.Time {
		switch l.Kind {
		case models.ShardYear:
			return tm.AddDate(n, 0, 0)
		case models.ShardMonth:
			return tm.AddDate(0, n, 0)
		}
		return tm.AddDate(0, 0, n)
	}
	format := func(tm time.Time) string {
		switch l.Kind {
		case models.ShardYear:
			return tm.Format("2006")
		case models.ShardMonth:
			return tm.Format("200601")
		}
		return tm.Format("20060102")
	}
	for i := 0; i < ns; i++ {
		n := rapid.IntRange(1, per).Draw(t, "periods")
		if i > 0 {
			cur = step(cur, rapid.IntRange(0, 2).Draw(t, "gap"))
		}
		end := step(cur, n-1)
		switch {
		case n == 1:
			l.DateRange = append(l.DateRange, format(cur))
		case rapid.IntRange(0, 5).Draw(t, "reversed") == 0:
			l.DateRange = append(l.DateRange, format(end)+"-"+format(cur)) // validation accepts either order
		default:
			l.DateRange = append(l.DateRange, format(cur)+"-"+format(end))
		}
		cur = step(end, 1)
	}
}

// Uniform draws an integer in [0,n) without rapid's bias towards small values
// (rapid.IntRange and rapid.SampledFrom favour the first alternatives, which
// starves the later classes of a weighted choice). n <= 100.
func Uniform(t *rapid.T, label string, n int) int {
	if n <= 1 {
		return 0
	}
	if n <= 12 {
		return rapid.Permutation(seq(n)).Draw(t, label)[0]
	}
	for {
		v := Uniform(t, label+"_hi", (n+9)/10)*10 + Uniform(t, label+"_lo", 10)
		if v < n {
			return v
		}
		// out of range only for n that is not a multiple of 10: fold instead of rejecting
		return v % n
	}
}
