// Package shardfix is the shared shard-layout fixture of the planner
// properties (C01-C07): a JSON-serialisable description of one namespace
// (Layout), a rapid generator for it, the Gaea router / sequence manager built
// from it exactly as the proxy does (models.Namespace.Verify + router.NewRouter),
// the physical tables it implies (computed from the configuration, not from
// the router), a boundary-rich key universe per rule, and a recording
// plan.Executor.
//
// Fixed names (all lower case):
//
//	logical database      "db"          (DB)
//	sharded table         "t"           (Table)      sharding column "k", other columns "a","s","d","f","id"
//	linked child table    "tc"          (Child)      sharding column Layout.ChildKey ("k" or "pk")
//	global tables         "g1","g2"     columns "id","a"
//	unsharded table       "u"           (no rule: default slice)
//	slices                "slice-0".."slice-3"
//
// Typical use:
//
//	l := shardfix.GenLayout(t, shardfix.Opts{})       // inside a rapid generator, stored in the case
//	f, err := shardfix.Build(l)                       // inside check(case); pure
//	p, err, pan := f.Plan("db", sql)                  // parser.New().ParseOneStmt + plan.BuildPlan
//	rec := shardfix.NewRecorder(); p.ExecuteIn(util.NewRequestContext(), rec)
//	for _, s := range rec.Stmts() { ... s.Slice, s.DB, s.SQL ... }
//	for _, tl := range f.Tables { ... tl.Index, tl.Slice, tl.DB, tl.Name ... }
//	for _, k := range f.Universe() { ... k.Lit, k.Place ... }
//
// The package sets time.Local = time.UTC in init(): Gaea's calendar rules place
// integer (unix timestamp) keys with time.Unix(v,0) in the local zone, and a
// saved case must replay identically on every machine.
package shardfix

import (
	"fmt"
	"strconv"
	"strings"
	"time"

	"github.com/XiaoMi/Gaea/models"
)

func init() { time.Local = time.UTC }

const (
	DB     = "db"
	Table  = "t"
	Child  = "tc"
	Key    = "k"
	Unshrd = "u"
)

// Key column types.
const (
	KeyInt      = "int"      // BIGINT column, integer literals
	KeyStr      = "str"      // VARCHAR column, string literals
	KeyDatetime = "datetime" // DATETIME column, 'YYYY-MM-DD[ HH:MM:SS]' literals
	KeyUnix     = "unix"     // BIGINT column holding a unix timestamp (calendar rules accept it)
)

// AllKinds lists every sharded rule type the configuration accepts.
var AllKinds = []string{
	models.ShardHash, models.ShardMod, models.ShardRange,
	models.ShardYear, models.ShardMonth, models.ShardDay,
	models.ShardMycatMod, models.ShardMycatLong, models.ShardMycatString,
	models.ShardMycatMURMUR, models.ShardMycatPaddingMod,
}

// GlobalSpec is one global table.
type GlobalSpec struct {
	Table      string   `json:"table"`
	RuleSlices []int    `json:"rule_slices"` // indexes of namespace slices, in the order the rule lists them
	Locations  []int    `json:"locations"`   // copies per listed slice
	Databases  []string `json:"databases"`   // as configured (may use the prefix[a-b] syntax); empty = implicit (logical db)
}

// Layout describes one namespace. It is plain data so that it can live in a
// saved case.
type Layout struct {
	Kind       string   `json:"kind"`        // rule type of table t (models.Shard*); "" = no sharded table
	KeyType    string   `json:"key_type"`    // KeyInt, KeyStr, KeyDatetime, KeyUnix
	NSSlices   int      `json:"ns_slices"`   // namespace slices slice-0..slice-(n-1)
	RuleSlices []int    `json:"rule_slices"` // indexes of namespace slices used by t's rule, in rule order
	Locations  []int    `json:"locations"`   // tables per rule slice (all kinds except date_*)
	RowLimit   int      `json:"row_limit"`   // range: table_row_limit
	DateRange  []string `json:"date_range"`  // date_*: one entry per rule slice
	Databases  []string `json:"databases"`   // mycat_*: as configured (may use prefix[a-b])

	PartitionCount  string `json:"partition_count,omitempty"`
	PartitionLength string `json:"partition_length,omitempty"`
	HashSlice       string `json:"hash_slice,omitempty"`
	Seed            string `json:"seed,omitempty"`
	VirtualBuckets  string `json:"virtual_bucket_times,omitempty"`
	PadFrom         string `json:"pad_from,omitempty"`
	PadLength       string `json:"pad_length,omitempty"`
	ModBegin        string `json:"mod_begin,omitempty"`
	ModEnd          string `json:"mod_end,omitempty"`

	ChildKey string       `json:"child_key"` // sharding column of the linked table tc ("" = no linked table)
	SeqCol   string       `json:"seq_col"`   // global sequence column of t ("" = none)
	Globals  []GlobalSpec `json:"globals"`
}

// IsDate reports whether the rule is a calendar rule.
func (l Layout) IsDate() bool {
	return l.Kind == models.ShardYear || l.Kind == models.ShardMonth || l.Kind == models.ShardDay
}

// IsMycat reports whether the rule is a mycat rule (tables keep their name and
// live in one physical database each).
func (l Layout) IsMycat() bool { return strings.HasPrefix(l.Kind, "mycat_") }

// IsRangeLike reports whether the planner prunes < <= > >= BETWEEN for this rule.
func (l Layout) IsRangeLike() bool { return l.Kind == models.ShardRange || l.IsDate() }

// SliceName is the name of namespace slice i.
func SliceName(i int) string { return "slice-" + strconv.Itoa(i) }

// ExpandDatabases expands the prefix[a-b] syntax, written from the
// configuration documentation (inclusive bounds), independently of Gaea.
func ExpandDatabases(dbs []string) []string {
	var out []string
	for _, d := range dbs {
		lb := strings.LastIndexByte(d, '[')
		if lb > 0 && strings.HasSuffix(d, "]") {
			body := d[lb+1 : len(d)-1]
			if parts := strings.SplitN(body, "-", 2); len(parts) == 2 {
				a, e1 := strconv.Atoi(parts[0])
				b, e2 := strconv.Atoi(parts[1])
				if e1 == nil && e2 == nil && a < b {
					for i := a; i <= b; i++ {
						out = append(out, d[:lb]+strconv.Itoa(i))
					}
					continue
				}
			}
		}
		out = append(out, d)
	}
	return out
}

// TableLoc is one physical table (or one copy of a global table).
type TableLoc struct {
	Index int    `json:"index"` // Gaea's table index (0.. for hash-like rules, 2016 / 201612 / 20161231 for calendar rules)
	Slice string `json:"slice"` // slice name it lives on
	DB    string `json:"db"`    // physical database the statement must be sent to
	Name  string `json:"name"`  // physical name of table t (t_0003, or t for mycat rules)
	Child string `json:"child"` // physical name of the linked table tc on the same shard
}

func sum(a []int) int {
	s := 0
	for _, v := range a {
		s += v
	}
	return s
}

// ShardTables lists the physical tables of t in index order, derived from the
// configuration alone.
func (l Layout) ShardTables() []TableLoc {
	var out []TableLoc
	if l.Kind == "" {
		return nil
	}
	name := func(idx int) (string, string) {
		if l.IsMycat() {
			return Table, Child
		}
		return fmt.Sprintf("%s_%04d", Table, idx), fmt.Sprintf("%s_%04d", Child, idx)
	}
	if l.IsDate() {
		for si, dr := range l.DateRange {
			for _, idx := range expandDateRange(l.Kind, dr) {
				n, c := name(idx)
				out = append(out, TableLoc{Index: idx, Slice: SliceName(l.RuleSlices[si]), DB: DB, Name: n, Child: c})
			}
		}
		return out
	}
	dbs := ExpandDatabases(l.Databases)
	idx := 0
	for si, n := range l.Locations {
		for j := 0; j < n; j++ {
			tn, cn := name(idx)
			db := DB
			if l.IsMycat() {
				db = dbs[idx]
			}
			out = append(out, TableLoc{Index: idx, Slice: SliceName(l.RuleSlices[si]), DB: db, Name: tn, Child: cn})
			idx++
		}
	}
	return out
}

// Copies lists the physical copies of global table g, derived from the
// configuration alone: location j of listed slice i lives on that slice, in
// the j-th next configured database (or the logical database when none is
// configured).
func (g GlobalSpec) Copies() []TableLoc {
	dbs := ExpandDatabases(g.Databases)
	var out []TableLoc
	idx := 0
	for si, n := range g.Locations {
		for j := 0; j < n; j++ {
			db := DB
			if len(dbs) > 0 {
				db = dbs[idx]
			}
			out = append(out, TableLoc{Index: idx, Slice: SliceName(g.RuleSlices[si]), DB: db, Name: g.Table})
			idx++
		}
	}
	return out
}

// expandDateRange lists the period numbers of one date_range entry
// ("2016", "2016-2018", "201611-201702", "20161230-20170102"), written from
// the configuration documentation with the calendar of package time.
func expandDateRange(kind, dr string) []int {
	parts := strings.SplitN(dr, "-", 2)
	if len(parts) == 1 {
		n, _ := strconv.Atoi(parts[0])
		return []int{n}
	}
	a, b := parts[0], parts[1]
	if b < a {
		a, b = b, a
	}
	var out []int
	switch kind {
	case models.ShardYear:
		y0, _ := strconv.Atoi(a)
		y1, _ := strconv.Atoi(b)
		for y := y0; y <= y1; y++ {
			out = append(out, y)
		}
	case models.ShardMonth:
		t0, _ := time.Parse("200601", a)
		t1, _ := time.Parse("200601", b)
		for t := t0; !t.After(t1); t = t.AddDate(0, 1, 0) {
			out = append(out, t.Year()*100+int(t.Month()))
		}
	case models.ShardDay:
		t0, _ := time.Parse("20060102", a)
		t1, _ := time.Parse("20060102", b)
		for t := t0; !t.After(t1); t = t.AddDate(0, 0, 1) {
			out = append(out, t.Year()*10000+int(t.Month())*100+t.Day())
		}
	}
	return out
}

// PeriodStart returns the first instant of calendar table index idx.
func PeriodStart(kind string, idx int) time.Time {
	switch kind {
	case models.ShardYear:
		return time.Date(idx, 1, 1, 0, 0, 0, 0, time.UTC)
	case models.ShardMonth:
		return time.Date(idx/100, time.Month(idx%100), 1, 0, 0, 0, 0, time.UTC)
	default:
		return time.Date(idx/10000, time.Month(idx/100%100), idx%100, 0, 0, 0, 0, time.UTC)
	}
}

// PeriodEnd returns the first instant after calendar table index idx.
func PeriodEnd(kind string, idx int) time.Time {
	s := PeriodStart(kind, idx)
	switch kind {
	case models.ShardYear:
		return s.AddDate(1, 0, 0)
	case models.ShardMonth:
		return s.AddDate(0, 1, 0)
	default:
		return s.AddDate(0, 0, 1)
	}
}

// Namespace renders the layout as the namespace model the control plane
// stores. The caller (Build) runs Verify on it.
func (l Layout) Namespace() *models.Namespace {
	ns := &models.Namespace{
		Name:          "ns_fix",
		Online:        true,
		AllowedDBS:    map[string]bool{DB: true},
		DefaultPhyDBS: map[string]string{DB: DB},
		DefaultSlice:  SliceName(0),
		Users:         []*models.User{{UserName: "u", Password: "p", Namespace: "ns_fix", RWFlag: models.ReadWrite}},
	}
	for i := 0; i < l.NSSlices; i++ {
		ns.Slices = append(ns.Slices, &models.Slice{Name: SliceName(i), UserName: "root", Password: "root",
			Master: "127.0.0.1:" + strconv.Itoa(3306+i), Capacity: 4, MaxCapacity: 8, IdleTimeout: 60})
	}
	names := func(ix []int) []string {
		var s []string
		for _, i := range ix {
			s = append(s, SliceName(i))
		}
		return s
	}
	if l.Kind != "" {
		sh := &models.Shard{DB: DB, Table: Table, Type: l.Kind, Key: Key, Slices: names(l.RuleSlices),
			Locations: append([]int(nil), l.Locations...), TableRowLimit: l.RowLimit,
			DateRange: append([]string(nil), l.DateRange...), Databases: append([]string(nil), l.Databases...),
			PartitionCount: l.PartitionCount, PartitionLength: l.PartitionLength, HashSlice: l.HashSlice,
			Seed: l.Seed, VirtualBucketTimes: l.VirtualBuckets,
			PadFrom: l.PadFrom, PadLength: l.PadLength, ModBegin: l.ModBegin, ModEnd: l.ModEnd}
		ns.ShardRules = append(ns.ShardRules, sh)
		if l.IsMycat() {
			if dbs := ExpandDatabases(l.Databases); len(dbs) > 0 {
				ns.DefaultPhyDBS[DB] = dbs[0]
			}
		}
		if l.ChildKey != "" {
			ns.ShardRules = append(ns.ShardRules, &models.Shard{DB: DB, Table: Child, Type: models.ShardLinked, Key: l.ChildKey, ParentTable: Table})
		}
		if l.SeqCol != "" {
			ns.GlobalSequences = append(ns.GlobalSequences, &models.GlobalSequence{DB: DB, Table: Table, Type: "mycat", PKName: l.SeqCol})
		}
	}
	for _, g := range l.Globals {
		ns.ShardRules = append(ns.ShardRules, &models.Shard{DB: DB, Table: g.Table, Type: models.ShardGlobal,
			Slices: names(g.RuleSlices), Locations: append([]int(nil), g.Locations...), Databases: append([]string(nil), g.Databases...)})
	}
	return ns
}
