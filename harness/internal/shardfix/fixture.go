package shardfix

import (
	"fmt"
	"sort"
	"strings"
	"sync/atomic"

	"github.com/XiaoMi/Gaea/models"
	"github.com/XiaoMi/Gaea/parser"
	"github.com/XiaoMi/Gaea/parser/ast"
	"github.com/XiaoMi/Gaea/proxy/plan"
	"github.com/XiaoMi/Gaea/proxy/router"
	"github.com/XiaoMi/Gaea/proxy/sequence"
)

// Fixture is a layout turned into the objects the session hands to
// plan.BuildPlan.
type Fixture struct {
	Layout    Layout
	Namespace *models.Namespace
	Router    *router.Router
	Seqs      *sequence.SequenceManager
	Seq       *StubSequence     // non-nil when Layout.SeqCol != ""
	PhyDBs    map[string]string // namespace default_phy_dbs
	Rule      router.Rule       // rule of table t (nil when Layout.Kind == "")
	Tables    []TableLoc        // physical tables of t, in index order (from the configuration)
	byIndex   map[int]int
}

// StubSequence hands out 1000001, 1000002, ... (distinct, recognisable).
type StubSequence struct {
	pk string
	v  int64
}

func (s *StubSequence) GetPKName() string       { return s.pk }
func (s *StubSequence) NextSeq() (int64, error) { return atomic.AddInt64(&s.v, 1), nil }

// Issued returns how many values were handed out.
func (s *StubSequence) Issued() int64 { return atomic.LoadInt64(&s.v) - 1000000 }

// Build verifies the namespace as the control plane does and constructs the
// router as the proxy does. An error means the layout is not an accepted
// configuration (a generator bug, never a property violation).
func Build(l Layout) (*Fixture, error) {
	ns := l.Namespace()
	if err := ns.Verify(); err != nil {
		return nil, fmt.Errorf("namespace.Verify: %v", err)
	}
	rt, err := router.NewRouter(ns)
	if err != nil {
		return nil, fmt.Errorf("router.NewRouter: %v", err)
	}
	f := &Fixture{Layout: l, Namespace: ns, Router: rt, Seqs: sequence.NewSequenceManager(), PhyDBs: ns.DefaultPhyDBS,
		Tables: l.ShardTables(), byIndex: map[int]int{}}
	for i, t := range f.Tables {
		f.byIndex[t.Index] = i
	}
	if l.Kind != "" {
		r, ok := rt.GetShardRule(DB, Table)
		if !ok {
			return nil, fmt.Errorf("router has no rule for %s.%s", DB, Table)
		}
		f.Rule = r
		if l.SeqCol != "" {
			f.Seq = &StubSequence{pk: l.SeqCol, v: 1000000}
			f.Seqs.SetSequence(DB, Table, f.Seq)
		}
	}
	return f, nil
}

// TableByIndex returns the physical table with Gaea index idx.
func (f *Fixture) TableByIndex(idx int) (TableLoc, bool) {
	i, ok := f.byIndex[idx]
	if !ok {
		return TableLoc{}, false
	}
	return f.Tables[i], true
}

// Global returns the spec of global table name.
func (f *Fixture) Global(name string) (GlobalSpec, bool) {
	for _, g := range f.Layout.Globals {
		if g.Table == name {
			return g, true
		}
	}
	return GlobalSpec{}, false
}

// Parse parses one statement the way SessionExecutor.Parse does.
func Parse(sql string) (ast.StmtNode, error) {
	return parser.New().ParseOneStmt(sql, "", "")
}

// Plan parses sql and builds its plan with session database db, the way
// SessionExecutor.getPlan does after the unshard fast path declined. A panic
// escaping BuildPlan (router.KeyError is Gaea's rejection mechanism, recovered
// by the session) is returned as text in pan; keyErr tells whether it was a
// router.KeyError.
func (f *Fixture) Plan(db, sql string) (p plan.Plan, err error, pan string, keyErr bool) {
	stmt, perr := Parse(sql)
	if perr != nil {
		return nil, fmt.Errorf("parse sql error: %v", perr), "", false
	}
	return f.PlanStmt(db, sql, stmt)
}

// PlanStmt is Plan for an already parsed statement (BuildPlan rewrites stmt in
// place; do not reuse it).
func (f *Fixture) PlanStmt(db, sql string, stmt ast.StmtNode) (p plan.Plan, err error, pan string, keyErr bool) {
	defer func() {
		if r := recover(); r != nil {
			_, keyErr = r.(router.KeyError)
			pan = fmt.Sprint(r)
			if pan == "" {
				pan = "panic"
			}
			p, err = nil, nil
		}
	}()
	p, err = plan.BuildPlan(stmt, f.PhyDBs, db, sql, f.Router, f.Seqs, nil)
	return
}

// IsRuntimePanic tells whether the panic text returned by Plan is a Go runtime
// error (index out of range, nil dereference, ...) rather than one of Gaea's
// deliberate panic(error) rejections.
func IsRuntimePanic(pan string) bool {
	return strings.HasPrefix(pan, "runtime error:") || strings.Contains(pan, "invalid memory address") || strings.Contains(pan, "interface conversion")
}

// Place returns the table index INSERT routing gives a key whose literal
// evaluates to goValue (int64, uint64 or string, as util.GetValueExprResult
// returns it), or ok=false when the key cannot be placed in a configured table
// (error, KeyError panic, or an index that is not a configured table).
func (f *Fixture) Place(goValue interface{}) (idx int, ok bool) {
	defer func() {
		if r := recover(); r != nil {
			idx, ok = -1, false
		}
	}()
	i, err := f.Rule.FindTableIndex(goValue)
	if err != nil {
		return -1, false
	}
	if _, known := f.byIndex[i]; !known {
		return i, false
	}
	return i, true
}

// SortedInts returns a sorted copy.
func SortedInts(a []int) []int {
	b := append([]int(nil), a...)
	sort.Ints(b)
	return b
}
