package shardfix

import "github.com/XiaoMi/Gaea/log"

// nopLogger discards Gaea's global log output (the planner logs a warning for
// every rejected INSERT, which would drown the driver's output).
type nopLogger struct{}

func (nopLogger) SetLevel(name, level string) error            { return nil }
func (nopLogger) Debug(string, ...interface{}) error           { return nil }
func (nopLogger) Trace(string, ...interface{}) error           { return nil }
func (nopLogger) Notice(string, ...interface{}) error          { return nil }
func (nopLogger) Warn(string, ...interface{}) error            { return nil }
func (nopLogger) Fatal(string, ...interface{}) error           { return nil }
func (nopLogger) Debugx(string, string, ...interface{}) error  { return nil }
func (nopLogger) Tracex(string, string, ...interface{}) error  { return nil }
func (nopLogger) Noticex(string, string, ...interface{}) error { return nil }
func (nopLogger) Warnx(string, string, ...interface{}) error   { return nil }
func (nopLogger) Fatalx(string, string, ...interface{}) error  { return nil }
func (nopLogger) Close()                                       {}
func (nopLogger) Dropped(int) uint64                           { return 0 }

func init() { log.SetGlobalLogger(nopLogger{}) }
