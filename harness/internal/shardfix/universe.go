package shardfix

import (
	"math"
	"sort"
	"strconv"
	"time"

	"github.com/XiaoMi/Gaea/models"
)

// KeyVal is one sharding-key value of the universe.
type KeyVal struct {
	Type   string   // KeyInt, KeyStr, KeyDatetime, KeyUnix
	I      int64    // KeyInt / KeyUnix value
	S      string   // KeyStr value; KeyDatetime canonical "YYYY-MM-DD HH:MM:SS"
	Lit    string   // SQL literal (17, 'abc', '2017-06-01 00:00:00')
	Alt    []string // other literals of the same value that are placed identically ('2017-06-01' for a midnight, '17' for 17)
	Place  int      // table index INSERT routing gives it (Rule.FindTableIndex)
	Placed bool     // false: no configured table can hold this key
}

// GoValue is what util.GetValueExprResult yields for Lit: int64 for an
// unquoted number, the string content for a quoted literal (a negative number
// is only a literal when quoted, and is then placed through its string).
func (k KeyVal) GoValue() interface{} {
	switch k.Type {
	case KeyInt, KeyUnix:
		if k.I < 0 {
			return strconv.FormatInt(k.I, 10)
		}
		return k.I
	}
	return k.S
}

const dtFmt = "2006-01-02 15:04:05"

// FormatDatetime renders t canonically.
func FormatDatetime(t time.Time) string { return t.UTC().Format(dtFmt) }

// ParseDatetime parses 'YYYY-MM-DD' or 'YYYY-MM-DD HH:MM:SS'.
func ParseDatetime(s string) (time.Time, bool) {
	if t, err := time.ParseInLocation(dtFmt, s, time.UTC); err == nil {
		return t, true
	}
	if t, err := time.ParseInLocation("2006-01-02", s, time.UTC); err == nil {
		return t, true
	}
	return time.Time{}, false
}

func quote(s string) string { return "'" + s + "'" }

// Universe returns the boundary-rich key universe of the layout's rule, each
// key with its placement. Deterministic.
func (f *Fixture) Universe() []KeyVal {
	l := f.Layout
	var out []KeyVal
	seen := map[string]bool{}
	add := func(k KeyVal) {
		if seen[k.Lit] {
			return
		}
		seen[k.Lit] = true
		k.Place, k.Placed = f.Place(k.GoValue())
		out = append(out, k)
	}
	addInt := func(v int64) {
		k := KeyVal{Type: KeyInt, I: v, Lit: strconv.FormatInt(v, 10)}
		if v >= 0 {
			k.Alt = []string{quote(k.Lit)}
		} else {
			k.Lit = quote(k.Lit) // a negative number is only a literal when quoted; unquoted it is a unary expression
		}
		add(k)
	}
	addStr := func(s string) { add(KeyVal{Type: KeyStr, S: s, Lit: quote(s)}) }
	addTime := func(t time.Time) {
		if t.Year() < 1971 || t.Year() > 9998 {
			return
		}
		if l.KeyType == KeyUnix {
			add(KeyVal{Type: KeyUnix, I: t.Unix(), Lit: strconv.FormatInt(t.Unix(), 10)})
			return
		}
		k := KeyVal{Type: KeyDatetime, S: FormatDatetime(t), Lit: quote(FormatDatetime(t))}
		if t.Hour() == 0 && t.Minute() == 0 && t.Second() == 0 {
			k.Alt = []string{quote(t.Format("2006-01-02"))}
		}
		add(k)
	}
	n := len(f.Tables)
	switch {
	case l.Kind == "":
	case l.IsDate():
		idxs := make([]int, 0, n)
		for _, t := range f.Tables {
			idxs = append(idxs, t.Index)
		}
		sort.Ints(idxs)
		for _, idx := range idxs {
			s, e := PeriodStart(l.Kind, idx), PeriodEnd(l.Kind, idx)
			addTime(s)
			addTime(s.Add(time.Second))
			mid := s.Add(e.Sub(s) / 2).Truncate(24 * time.Hour)
			addTime(mid) // a midnight inside the period (also spelled 'YYYY-MM-DD')
			addTime(mid.Add(12*time.Hour + 34*time.Minute + 56*time.Second))
			addTime(e.Add(-time.Second))
			addTime(e) // first instant of the next period (a gap or the next table)
			addTime(s.Add(-time.Second))
		}
		first, last := PeriodStart(l.Kind, idxs[0]), PeriodEnd(l.Kind, idxs[len(idxs)-1])
		addTime(first.AddDate(-1, -1, -3))
		addTime(last.AddDate(1, 1, 3).Add(5*time.Hour + 7*time.Minute))
		if l.Kind != models.ShardDay {
			addTime(time.Date(first.Year(), 2, 28, 23, 59, 59, 0, time.UTC))
			if y := first.Year(); y%4 == 0 {
				addTime(time.Date(y, 2, 29, 12, 0, 0, 0, time.UTC))
			}
		}
	case l.KeyType == KeyStr:
		for _, s := range []string{"", "a", "b", "c", "ab", "abc", "abd", "b1", "user_1", "user_2", "user_10", "zz", "zzz",
			"0", "7", "10", "007", "hello world", "k", "order-2017", "x9", "mn", "q"} {
			addStr(s)
		}
	default:
		if l.Kind == models.ShardRange {
			L := int64(l.RowLimit)
			for i := int64(0); i <= int64(n); i++ {
				for _, d := range []int64{-1, 0, 1} {
					addInt(i*L + d)
				}
				addInt(i*L + L/2)
			}
			addInt(int64(n)*L + 5)
			addInt(int64(n)*L*3 + 7)
			addInt(-5)
			break
		}
		for v := int64(0); v <= int64(2*n+1); v++ {
			addInt(v)
		}
		for _, v := range []int64{127, 128, 129, 255, 256, 257, 511, 512, 513, 767, 768, 1023, 1024, 1025, 1279, 2048, 4097,
			12, 123456, 1000000007, 1 << 40,
			1<<31 - 1, 1 << 31, 1<<32 - 1, 1 << 32, 1<<32 + 1, 1 << 53, 1<<53 + 1, math.MaxInt64 - 1, // width boundaries of number parsing 1234567890123456, 123456789012345678, 1234567890123456789, math.MaxInt64,
			-1, -2, -17, -1024, -1000000007} {
			addInt(v)
		}
	}
	return out
}

// ByTable groups the placed keys of the universe by table index.
func ByTable(u []KeyVal) map[int][]KeyVal {
	m := map[int][]KeyVal{}
	for _, k := range u {
		if k.Placed {
			m[k.Place] = append(m[k.Place], k)
		}
	}
	return m
}
