package shardfix

import (
	"fmt"
	"testing"
	"github.com/XiaoMi/Gaea/parser/ast"
	"github.com/XiaoMi/Gaea/util"
)

func TestProbe(t *testing.T) {
	for _, q := range []string{
		"select * from t where not (k < 5)",
		"select * from t where k not in (1,2)",
		"select * from t where k not between 5 and 1",
		"select * from t where k < -5",
		"select * from t where k < +5",
		"select * from t where k < 5 xor a = 1",
		"select * from t where k is null",
		"select * from t where k < 18446744073709551615",
		"select * from t where k < 5.5",
		"select * from t where !(k=1)",
		"select * from t x join tc y on x.k = y.pk where x.k < 5",
		"select * from t where k = 1 and a = 2 or k = 3",
		"insert into t (k,a) values (-5,1),(+5,2),(2+1,3),(abs(3),4),(null,5),('7',6),(default,7)",
	} {
		st, err := Parse(q)
		if err != nil {
			fmt.Println(q, "ERR", err)
			continue
		}
		switch s := st.(type) {
		case *ast.SelectStmt:
			fmt.Printf("%s\n   where=%T %#v\n", q, s.Where, s.Where)
			if b, ok := s.Where.(*ast.BinaryOperationExpr); ok {
				fmt.Printf("   L=%T R=%T op=%v\n", b.L, b.R, b.Op)
			}
			if s.From.TableRefs.Right != nil {
				fmt.Printf("   join=%#v left=%#v\n", s.From.TableRefs, s.From.TableRefs.Left)
			}
		case *ast.InsertStmt:
			for _, row := range s.Lists {
				fmt.Printf("   %T", row[0])
			}
			fmt.Println()
		}
	}
	l := Layout{Kind: "date_year", KeyType: KeyDatetime, NSSlices: 2, RuleSlices: []int{0, 1}, DateRange: []string{"2016-2017", "2018"}}
	f, err := Build(l)
	if err != nil {
		t.Fatal(err)
	}
	for _, q := range []string{"select * from t where k < '2017-06-01'", "select * from t where k not between '2018-03-01' and '2016-03-01'", "update t set a=1 where k >= '2017-01-01'", "insert into t (k,a) values ('2017-01-01',1),(2+1,3)", "insert into t set k=abs(1), a=3"} {
		p, err, pan, _ := f.Plan("db", q)
		fmt.Println(q, "err", err, "pan", pan)
		if p != nil {
			r := NewRecorder()
			_, e := p.ExecuteIn(util.NewRequestContext(), r)
			fmt.Println("  exec err", e)
			for _, s := range r.Stmts() {
				fmt.Println("  ", s)
			}
		}
	}
}
