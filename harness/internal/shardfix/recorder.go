package shardfix

import (
	"fmt"
	"sort"

	"github.com/XiaoMi/Gaea/mysql"
	"github.com/XiaoMi/Gaea/parser/ast"
	"github.com/XiaoMi/Gaea/util"
)

// Stmt is one statement the plan sent to a backend.
type Stmt struct {
	Slice string `json:"slice"`
	DB    string `json:"db"` // database the connection is switched to
	SQL   string `json:"sql"`
	Pos   int    `json:"pos"` // position in the (slice, db) list
}

// Recorder is a plan.Executor that records what a plan executes. Statements
// are visited in the order the real SessionExecutor.ExecuteSQLs returns their
// results: slices sorted by name, databases sorted by name, statements in list
// order; an empty map is refused with "no sql to execute" as the real one does.
//
// Exec, when set, produces the result of each statement (C02/C05 evaluate the
// statement on the shard there); when nil every statement yields an empty OK
// result. Fail, when set, makes ExecuteSQLs return that error after recording
// (used by checks that only want to see the routing).
type Recorder struct {
	Exec func(Stmt) (*mysql.Result, error)
	Fail error

	Calls        int // ExecuteSQLs + ExecuteSQL calls
	Maps         []map[string]map[string][]string
	stmts        []Stmt
	LastInsertID uint64
	SetCalls     int
}

// NewRecorder returns an empty recorder.
func NewRecorder() *Recorder { return &Recorder{} }

// Flatten lists the statements of a per-slice SQL map in result order.
func Flatten(sqls map[string]map[string][]string) []Stmt {
	var out []Stmt
	slices := make([]string, 0, len(sqls))
	for s := range sqls {
		slices = append(slices, s)
	}
	sort.Strings(slices)
	for _, s := range slices {
		dbs := make([]string, 0, len(sqls[s]))
		for d := range sqls[s] {
			dbs = append(dbs, d)
		}
		sort.Strings(dbs)
		for _, d := range dbs {
			for i, q := range sqls[s][d] {
				out = append(out, Stmt{Slice: s, DB: d, SQL: q, Pos: i})
			}
		}
	}
	return out
}

// Stmts returns every statement received so far, in result order per call.
func (r *Recorder) Stmts() []Stmt { return r.stmts }

func (r *Recorder) run(s Stmt) (*mysql.Result, error) {
	r.stmts = append(r.stmts, s)
	if r.Exec != nil {
		return r.Exec(s)
	}
	return &mysql.Result{}, nil
}

// ExecuteSQL implements plan.Executor.
func (r *Recorder) ExecuteSQL(ctx *util.RequestContext, slice, db, sql string) (*mysql.Result, error) {
	r.Calls++
	res, err := r.run(Stmt{Slice: slice, DB: db, SQL: sql})
	if err == nil && r.Fail != nil {
		return nil, r.Fail
	}
	return res, err
}

// ExecuteSQLs implements plan.Executor.
func (r *Recorder) ExecuteSQLs(ctx *util.RequestContext, sqls map[string]map[string][]string) ([]*mysql.Result, error) {
	r.Calls++
	cp := map[string]map[string][]string{}
	for s, m := range sqls {
		cp[s] = map[string][]string{}
		for d, l := range m {
			cp[s][d] = append([]string(nil), l...)
		}
	}
	r.Maps = append(r.Maps, cp)
	if len(sqls) == 0 {
		return nil, fmt.Errorf("no sql to execute")
	}
	for s, m := range sqls {
		if len(m) == 0 {
			// the real executor would take a connection for the slice and run nothing
			_ = s
		}
	}
	var out []*mysql.Result
	for _, st := range Flatten(sqls) {
		res, err := r.run(st)
		if err != nil {
			return nil, err
		}
		out = append(out, res)
	}
	if r.Fail != nil {
		return nil, r.Fail
	}
	return out, nil
}

// SetLastInsertID implements plan.Executor.
func (r *Recorder) SetLastInsertID(id uint64) { r.LastInsertID = id }

// GetLastInsertID implements plan.Executor.
func (r *Recorder) GetLastInsertID() uint64 { return r.LastInsertID }

// HandleSet implements plan.Executor.
func (r *Recorder) HandleSet(*util.RequestContext, string, *ast.SetStmt) (*mysql.Result, error) {
	r.SetCalls++
	return &mysql.Result{}, nil
}
