//go:build verif

// C03 Every inserted row is stored once, where lookups will find it.
//
// Case = shard layout + session database + one INSERT / REPLACE text (VALUES
// form with 1-6 rows or SET form). The statement is planned with plan.BuildPlan
// and executed against a recording plan.Executor; the statements it receives
// are re-parsed and their rows extracted. Reference, from the property text:
// if the statement is accepted, the multiset of written rows equals the rows of
// the statement (plus the generated sequence column), every row is in the
// statement of the physical table to which the point query "k = <that row's
// literal>" is routed (asked from a separate plan), every statement is sent to
// the slice / database where that table lives, and a global table gets the
// whole statement once per copy. If some row's sharding value cannot be routed
// (not a literal while there is more than one table, NULL, or a literal whose
// point query is refused or finds no table), the statement must fail with
// nothing executed.
package c03

import (
	"fmt"
	"math"
	"sort"
	"strconv"
	"strings"
	"testing"

	"github.com/XiaoMi/Gaea/parser/ast"
	"github.com/XiaoMi/Gaea/parser/format"
	types "github.com/XiaoMi/Gaea/parser/tidb-types"
	driver "github.com/XiaoMi/Gaea/parser/tidb-types/parser_driver"
	"github.com/XiaoMi/Gaea/proxy/plan"
	"github.com/XiaoMi/Gaea/util"
	"pgregory.net/rapid"
	"verifharness/internal/pbt"
	"verifharness/internal/shardfix"
)

type c03Case struct {
	Layout shardfix.Layout `json:"layout"`
	DB     string          `json:"db"`
	SQL    string          `json:"sql"`
}

// ---------------------------------------------------------------- generator

func genKeyExpr(t *rapid.T, f *shardfix.Fixture, placed, unplaced []shardfix.KeyVal, name string) string {
	l := f.Layout
	intKey := l.KeyType == shardfix.KeyInt || l.KeyType == shardfix.KeyUnix
	pick := func(ks []shardfix.KeyVal) string {
		k := rapid.SampledFrom(ks).Draw(t, name+"_key")
		if len(k.Alt) > 0 && rapid.IntRange(0, 3).Draw(t, name+"_alt") == 0 {
			return k.Alt[0] // the same value in its other spelling ('17' for 17, '2017-06-01' for a midnight)
		}
		if k.Type == shardfix.KeyInt && k.I >= 0 && rapid.IntRange(0, 11).Draw(t, name+"_spell") == 0 {
			// further quoted spellings of the same number
			return "'" + rapid.SampledFrom([]string{"0", "00", "+", "+0"}).Draw(t, name+"_prefix") + k.Lit + "'"
		}
		return k.Lit
	}
	plain := func() string {
		for i := 0; i < 8; i++ {
			if s := pick(placed); !strings.HasPrefix(s, "'") {
				return s
			}
		}
		return "3"
	}
	c := shardfix.Uniform(t, name+"_cat", 100)
	if c >= 84 {
		c = 62 + (c-84)*38/16 // the unroutable kinds share 16 %: most multi-row statements stay routable
	} else {
		c = 0
	}
	switch {
	case c < 62 || len(placed) == 0:
		if len(placed) == 0 {
			return "1"
		}
		return pick(placed)
	case c < 70:
		if len(unplaced) > 0 {
			return pick(unplaced) // outside the configured ranges / periods
		}
		return pick(placed)
	case c < 75:
		return "NULL"
	case c < 81:
		if intKey {
			return rapid.SampledFrom([]string{"-", "+", "- "}).Draw(t, name+"_sign") + plain()
		}
		return "concat('a','b')"
	case c < 87:
		if intKey {
			return plain() + rapid.SampledFrom([]string{"+1", " + 0", "*1", "-0"}).Draw(t, name+"_arith")
		}
		return "upper(" + pick(placed) + ")"
	case c < 92:
		if intKey {
			return "abs(" + plain() + ")"
		}
		if l.IsDate() {
			return rapid.SampledFrom([]string{"now()", "curdate()"}).Draw(t, name+"_fn")
		}
		return "lower(" + pick(placed) + ")"
	case c < 94:
		return "DEFAULT"
	case c < 97:
		return "nextval()"
	case c < 98:
		return "(" + pick(placed) + ")"
	default:
		if intKey {
			return rapid.SampledFrom([]string{"'abc'", "''", "1.5"}).Draw(t, name+"_bad")
		}
		return pick(placed)
	}
}

func genOther(t *rapid.T, col, name string) string {
	switch col {
	case "a":
		return rapid.SampledFrom([]string{"1", "2", "7", "NULL", "1+1", "-3"}).Draw(t, name)
	case "s":
		return rapid.SampledFrom([]string{"'x'", "'hi'", "''", "NULL", "'it''s'", "'a,b'"}).Draw(t, name)
	case "id":
		return rapid.SampledFrom([]string{"10", "11", "NULL", "nextval()", "12"}).Draw(t, name)
	case "cid":
		return rapid.SampledFrom([]string{"100", "101", "NULL"}).Draw(t, name)
	}
	return "0"
}

func genCase(t *rapid.T) c03Case {
	l := shardfix.GenLayout(t, shardfix.Opts{Globals: 0})
	f, err := shardfix.Build(l)
	if err != nil {
		t.Fatalf("generator produced a rejected layout: %v", err)
	}
	c := c03Case{Layout: l, DB: shardfix.DB}
	verb := rapid.SampledFrom([]string{"INSERT INTO", "INSERT INTO", "INSERT INTO", "REPLACE INTO", "INSERT IGNORE INTO", "INSERT"}).Draw(t, "verb")
	qual := rapid.IntRange(0, 5).Draw(t, "qual") == 0
	if rapid.IntRange(0, 24).Draw(t, "no_db") == 0 {
		c.DB, qual = "", true
	}
	if len(l.Globals) > 0 && (l.Kind == "" || rapid.IntRange(0, 7).Draw(t, "global") == 0) {
		g := rapid.SampledFrom(l.Globals).Draw(t, "gtab")
		name := g.Table
		if qual {
			name = shardfix.DB + "." + name
		}
		n := rapid.IntRange(1, 3).Draw(t, "rows")
		var rows []string
		for i := 0; i < n; i++ {
			rows = append(rows, fmt.Sprintf("(%d,%s)", i+1, genOther(t, "a", "ga")))
		}
		c.SQL = verb + " " + name + " (id, a) VALUES " + strings.Join(rows, ",")
		return c
	}
	if l.Kind == "" {
		c.Layout.Kind = ""
		c.SQL = "INSERT INTO u (id) VALUES (1)"
		return c
	}
	var placed, unplaced []shardfix.KeyVal
	for _, k := range f.Universe() {
		if k.Placed {
			placed = append(placed, k)
		} else {
			unplaced = append(unplaced, k)
		}
	}
	// target: the sharded table t, or its linked table tc (routed by tc's own
	// sharding column, whatever other columns the statement carries)
	target, keyCol := shardfix.Table, shardfix.Key
	if l.ChildKey != "" && shardfix.Uniform(t, "into_child", 4) == 0 {
		target, keyCol = shardfix.Child, l.ChildKey
	}
	name := target
	if qual {
		name = shardfix.DB + "." + name
	}
	colName := func(col string) string {
		if c.DB == "" {
			return col
		}
		switch rapid.IntRange(0, 7).Draw(t, "colq_"+col) {
		case 0:
			return target + "." + col
		case 1:
			return "db." + target + "." + col
		}
		return col
	}
	// columns: the key (almost always) and a subset of the others, in any order
	cols := []string{}
	if rapid.IntRange(0, 19).Draw(t, "omit_key") != 0 {
		cols = append(cols, keyCol)
	}
	others := []string{"a", "s", "id"}
	if target == shardfix.Child {
		others = []string{"a", "cid"}
		if keyCol != shardfix.Key && shardfix.Uniform(t, "parent_named_col", 5) != 0 {
			// a plain column of tc that is named like the parent's sharding column
			cols = append(cols, shardfix.Key)
		}
	}
	for _, oc := range others {
		if rapid.IntRange(0, 2).Draw(t, "use_"+oc) != 0 {
			cols = append(cols, oc)
		}
	}
	if len(cols) == 0 {
		cols = []string{keyCol}
	}
	cols = rapid.Permutation(cols).Draw(t, "col_order")
	dup := ""
	switch rapid.IntRange(0, 9).Draw(t, "on_dup") {
	case 0:
		dup = " ON DUPLICATE KEY UPDATE a = 5"
	case 1:
		dup = " ON DUPLICATE KEY UPDATE a = a + 1, s = VALUES(s)"
	case 2:
		dup = " ON DUPLICATE KEY UPDATE " + target + ".a = 1"
		if c.DB == "" {
			dup = " ON DUPLICATE KEY UPDATE a = 1"
		}
	case 3:
		if rapid.IntRange(0, 2).Draw(t, "dup_key") == 0 {
			dup = " ON DUPLICATE KEY UPDATE " + keyCol + " = 3"
		}
	}
	if target == shardfix.Child && strings.Contains(dup, "s = VALUES(s)") {
		dup = " ON DUPLICATE KEY UPDATE a = a + 1"
	}
	if strings.HasPrefix(verb, "REPLACE") {
		dup = ""
	}
	value := func(col, nm string) string {
		switch {
		case col == keyCol:
			return genKeyExpr(t, f, placed, unplaced, nm)
		case col == shardfix.Key:
			// tc's column named like the parent's key: any literal of that type, drawn
			// independently of the row's own sharding value
			k := rapid.SampledFrom(placed).Draw(t, nm+"_parentcol")
			return k.Lit
		}
		return genOther(t, col, nm)
	}
	if rapid.IntRange(0, 4).Draw(t, "set_form") == 0 {
		var as []string
		for _, col := range cols {
			as = append(as, colName(col)+" = "+value(col, "set_"+col))
		}
		c.SQL = verb + " " + name + " SET " + strings.Join(as, ", ") + dup
		return c
	}
	n := rapid.IntRange(1, 6).Draw(t, "rows")
	var rows []string
	for i := 0; i < n; i++ {
		var vs []string
		for _, col := range cols {
			vs = append(vs, value(col, fmt.Sprintf("r%d_%s", i, col)))
		}
		rows = append(rows, "("+strings.Join(vs, ",")+")")
	}
	var cn []string
	for _, col := range cols {
		cn = append(cn, colName(col))
	}
	c.SQL = verb + " " + name + " (" + strings.Join(cn, ", ") + ") VALUES " + strings.Join(rows, ",") + dup
	return c
}

// ---------------------------------------------------------------- reference helpers

func exprText(e ast.Node) string {
	var sb strings.Builder
	if err := e.Restore(format.NewRestoreCtx(format.DefaultRestoreFlags, &sb)); err != nil {
		return "<unrestorable>"
	}
	return sb.String()
}

// row is one inserted row: column (lower case) -> value expression text.
type row struct {
	vals  map[string]string
	nodes map[string]ast.ExprNode
}

type insertInfo struct {
	table     string // lower case, without schema
	schema    string
	replace   bool
	ignore    bool
	onDup     int
	setForm   bool
	cols      []string
	rows      []row
	malformed string
}

func insertOf(stmt ast.StmtNode) (*insertInfo, bool) {
	s, ok := stmt.(*ast.InsertStmt)
	if !ok || s.Table == nil || s.Table.TableRefs == nil {
		return nil, false
	}
	ts, ok := s.Table.TableRefs.Left.(*ast.TableSource)
	if !ok {
		return nil, false
	}
	tn, ok := ts.Source.(*ast.TableName)
	if !ok {
		return nil, false
	}
	in := &insertInfo{table: tn.Name.L, schema: tn.Schema.O, replace: s.IsReplace, ignore: s.IgnoreErr, onDup: len(s.OnDuplicate)}
	if len(s.Setlist) > 0 {
		in.setForm = true
		r := row{vals: map[string]string{}, nodes: map[string]ast.ExprNode{}}
		for _, a := range s.Setlist {
			c := a.Column.Name.L
			in.cols = append(in.cols, c)
			r.vals[c] = exprText(a.Expr)
			r.nodes[c] = a.Expr
		}
		in.rows = []row{r}
		return in, true
	}
	for _, c := range s.Columns {
		in.cols = append(in.cols, c.Name.L)
	}
	for _, l := range s.Lists {
		if len(l) != len(in.cols) {
			in.malformed = "row length differs from column count"
			return in, true
		}
		r := row{vals: map[string]string{}, nodes: map[string]ast.ExprNode{}}
		for i, e := range l {
			r.vals[in.cols[i]] = exprText(e)
			r.nodes[in.cols[i]] = e
		}
		in.rows = append(in.rows, r)
	}
	return in, true
}

func rowKey(cols []string, r row) string {
	cs := append([]string(nil), cols...)
	sort.Strings(cs)
	var parts []string
	for _, c := range cs {
		parts = append(parts, c+"="+r.vals[c])
	}
	return strings.Join(parts, "; ")
}

// pointRoute asks a separate plan where "k = lit" is looked up: exactly one
// configured table, or ok=false.
func pointRoute(f *shardfix.Fixture, table, keyCol, lit string) (int, bool) {
	p, err, pan, _ := f.Plan(shardfix.DB, "SELECT * FROM "+table+" WHERE "+keyCol+" = "+lit)
	if err != nil || pan != "" {
		return 0, false
	}
	sp, ok := p.(*plan.SelectPlan)
	if !ok {
		return 0, false
	}
	idx := sp.GetRouteResult().GetShardIndexes()
	if len(idx) != 1 {
		return 0, false
	}
	if _, ok := f.TableByIndex(idx[0]); !ok {
		return 0, false
	}
	return idx[0], true
}

func isLiteral(e ast.ExprNode) (lit bool, null bool) {
	v, ok := e.(*driver.ValueExpr)
	if !ok {
		return false, false
	}
	return true, v.IsNull()
}

func isNextval(e ast.ExprNode) bool {
	fc, ok := e.(*ast.FuncCallExpr)
	return ok && fc.FnName.L == "nextval"
}

// isStubSeq recognises a value handed out by shardfix.StubSequence (1000001...).
func isStubSeq(s string) bool {
	return isIntText(s) && len(s) == 7 && s[0] == '1' && s != "1000000"
}

func isIntText(s string) bool {
	if s == "" {
		return false
	}
	for _, r := range s {
		if r < '0' || r > '9' {
			return false
		}
	}
	return true
}

// physicalIndex extracts the table index a recorded statement addresses.
func physicalIndex(f *shardfix.Fixture, st shardfix.Stmt, in *insertInfo, target string) (int, string) {
	l := f.Layout
	if l.IsMycat() {
		if in.table != target {
			return 0, fmt.Sprintf("statement for %s/%s writes table %s", st.Slice, st.DB, in.table)
		}
		if in.schema != "" && in.schema != st.DB {
			return 0, fmt.Sprintf("statement for %s/%s names database %s", st.Slice, st.DB, in.schema)
		}
		for _, tl := range f.Tables {
			if tl.DB == st.DB {
				if tl.Slice != st.Slice {
					return 0, fmt.Sprintf("database %s lives on %s but the statement was sent to %s", st.DB, tl.Slice, st.Slice)
				}
				return tl.Index, ""
			}
		}
		return 0, fmt.Sprintf("no table of the rule lives in %s/%s", st.Slice, st.DB)
	}
	for _, tl := range f.Tables {
		phys := tl.Name
		if target == shardfix.Child {
			phys = tl.Child
		}
		if phys == in.table {
			if tl.Slice != st.Slice || tl.DB != st.DB {
				return 0, fmt.Sprintf("table %s lives on %s/%s but its statement was sent to %s/%s", phys, tl.Slice, tl.DB, st.Slice, st.DB)
			}
			return tl.Index, ""
		}
	}
	return 0, fmt.Sprintf("statement for %s/%s writes %q, not a physical table of %s", st.Slice, st.DB, in.table, target)
}

// ---------------------------------------------------------------- the property

func checkCase(c c03Case) (o pbt.Outcome) {
	f, err := shardfix.Build(c.Layout)
	if err != nil {
		o.Skip = "layout rejected by configuration validation: " + err.Error()
		return
	}
	l := c.Layout
	ref, err := shardfix.Parse(c.SQL)
	if err != nil {
		o.Skip = "statement does not parse"
		return
	}
	in, ok := insertOf(ref)
	if !ok {
		o.Skip = "not an INSERT the reference understands"
		return
	}
	if in.malformed != "" {
		o.Skip = in.malformed
		return
	}
	g, isGlobal := f.Global(in.table)
	target, keyCol, seqColName := in.table, shardfix.Key, l.SeqCol
	switch {
	case isGlobal:
	case l.Kind != "" && in.table == shardfix.Table:
	case l.Kind != "" && in.table == shardfix.Child && l.ChildKey != "":
		keyCol, seqColName = l.ChildKey, "" // the sequence belongs to t
		o.Labels = append(o.Labels, "into_linked_table")
		if _, has := func() (int, bool) {
			for i, cn := range in.cols {
				if cn == shardfix.Key && keyCol != shardfix.Key {
					return i, true
				}
			}
			return 0, false
		}(); has {
			o.Labels = append(o.Labels, "linked_with_parent_named_column")
		}
	default:
		o.Skip = "not a sharded, linked or global table"
		return
	}
	if isGlobal {
		o.Labels = append(o.Labels, "global_table")
	} else {
		o.Labels = append(o.Labels, "rule_"+l.Kind)
	}
	if in.setForm {
		o.Labels = append(o.Labels, "form_set")
	} else {
		o.Labels = append(o.Labels, fmt.Sprintf("form_values_%d", len(in.rows)))
	}
	if in.replace {
		o.Labels = append(o.Labels, "replace")
	}
	if in.onDup > 0 {
		o.Labels = append(o.Labels, "on_duplicate")
	}

	// ---- reference classification of every row (sharded tables)
	nTables := len(f.Tables)
	var classes []rowClass
	unroutable, routableRows := 0, 0
	// Gaea looks the sequence up by the session database only; with another (or no)
	// session database the table has no sequence and nextval() is an ordinary,
	// unevaluated function call
	seqOnKey := seqColName != "" && seqColName == keyCol && c.DB == shardfix.DB
	if seqColName != "" && c.DB != shardfix.DB {
		o.Labels = append(o.Labels, "observed_sequence_ignored_without_session_db")
	}
	if !isGlobal {
		hasKeyCol := false
		for _, cn := range in.cols {
			if cn == keyCol {
				hasKeyCol = true
			}
		}
		for _, r := range in.rows {
			rc := rowClass{}
			node, has := r.nodes[keyCol]
			switch {
			case !has:
				if seqOnKey && !in.setForm {
					rc.routable, rc.seqKey = true, true // the sequence column is appended
				} else {
					rc.why = "no sharding column"
				}
			default:
				lit, null := isLiteral(node)
				switch {
				case seqOnKey && !in.setForm && (isNextval(node) || (lit && null)):
					rc.routable, rc.seqKey = true, true
				case seqOnKey && in.setForm && isNextval(node):
					rc.routable, rc.seqKey = true, true
				case lit && null:
					rc.why = "NULL sharding value"
				case lit:
					if idx, ok := pointRoute(f, target, keyCol, r.vals[keyCol]); ok {
						rc.routable, rc.want = true, idx
					} else {
						rc.why = "point query " + keyCol + " = " + r.vals[keyCol] + " is refused or finds no table"
					}
				default:
					rc.nonLit = true
					if nTables == 1 {
						rc.routable, rc.want = true, f.Tables[0].Index // a single table: every row belongs there
					} else {
						rc.why = fmt.Sprintf("sharding value %s is not a literal (%T)", r.vals[keyCol], node)
					}
				}
			}
			_ = hasKeyCol
			if rc.routable {
				routableRows++
			} else {
				unroutable++
			}
			if rc.nonLit {
				o.Labels = append(o.Labels, "key_nonliteral")
			}
			if rc.seqKey {
				o.Labels = append(o.Labels, "key_from_sequence")
			}
			classes = append(classes, rc)
		}
		if unroutable > 0 {
			o.Labels = append(o.Labels, "has_unroutable_row")
		}
	}

	// ---- Gaea
	p, perr, pan, keyErr := f.Plan(c.DB, c.SQL)
	rejected := ""
	switch {
	case perr != nil:
		rejected = "error"
	case pan != "" && shardfix.IsRuntimePanic(pan):
		rejected = "runtime_panic"
	case pan != "" && keyErr:
		rejected = "keyerror_panic"
	case pan != "":
		rejected = "deliberate_panic"
	}
	rec := shardfix.NewRecorder()
	rec.Exec = nil
	var execErr error
	if rejected == "" {
		if pp := pbt.Catch(func() { _, execErr = p.ExecuteIn(util.NewRequestContext(), rec) }); pp != "" {
			if len(rec.Stmts()) > 0 {
				o.Violation = fmt.Sprintf("panic %q in ExecuteIn after %d statements were executed (sql %q)", pp, len(rec.Stmts()), c.SQL)
				return
			}
			rejected = "panic_at_execute"
		} else if execErr != nil {
			if len(rec.Stmts()) > 0 {
				o.Violation = fmt.Sprintf("ExecuteIn failed (%v) after %d statements were executed (sql %q)", execErr, len(rec.Stmts()), c.SQL)
				return
			}
			rejected = "at_execute"
		}
	}
	if rejected != "" {
		o.Labels = append(o.Labels, "rejected_"+rejected)
		if !isGlobal && unroutable == 0 {
			o.Labels = append(o.Labels, "rejected_although_all_rows_routable")
		}
		o.NonTrivial = !isGlobal && unroutable > 0 && routableRows > 0
		return
	}
	o.Labels = append(o.Labels, "accepted")
	stmts := rec.Stmts()

	// ---- global table: the whole statement once per copy
	if isGlobal {
		copies := g.Copies()
		want := map[loc]int{}
		for _, cp := range copies {
			want[loc{cp.Slice, cp.DB}]++
		}
		got := map[loc]int{}
		for _, st := range stmts {
			got[loc{st.Slice, st.DB}]++
			node, err := shardfix.Parse(st.SQL)
			if err != nil {
				o.Violation = fmt.Sprintf("statement for %s/%s does not parse: %q", st.Slice, st.DB, st.SQL)
				return
			}
			ei, ok := insertOf(node)
			if !ok || ei.table != in.table || len(ei.rows) != len(in.rows) {
				o.Violation = fmt.Sprintf("copy %s/%s got %q instead of the whole statement %q", st.Slice, st.DB, st.SQL, c.SQL)
				return
			}
			if ei.schema != "" && ei.schema != st.DB {
				o.Violation = fmt.Sprintf("copy %s/%s: statement names database %s: %q", st.Slice, st.DB, ei.schema, st.SQL)
				return
			}
			for i := range in.rows {
				if rowKey(in.cols, in.rows[i]) != rowKey(ei.cols, ei.rows[i]) {
					o.Violation = fmt.Sprintf("copy %s/%s: row %d differs: %q vs original %q", st.Slice, st.DB, i, st.SQL, c.SQL)
					return
				}
			}
		}
		probs := copyProblems(want, got)
		o.NonTrivial = len(want) >= 2
		if len(probs) > 0 {
			sort.Strings(probs)
			detail := fmt.Sprintf("global table %s (slices %v locations %v databases %v): %s (sql %q)", g.Table, g.RuleSlices, g.Locations, g.Databases, strings.Join(probs, "; "), c.SQL)
			// C03-F3 (open; root cause of C04-F2): the rule lists other slices than the
			// first ones of the namespace, in namespace order; Gaea ignores the rule's
			// slice names and uses namespace slice i for the rule's i-th entry. Accepted
			// only when the statements are exactly one per copy of that substituted
			// layout; anything else (duplicates, a missing copy) stays a violation.
			if !isPrefixOrder(g.RuleSlices) {
				g2 := g
				g2.RuleSlices = nil
				for i := range g.RuleSlices {
					g2.RuleSlices = append(g2.RuleSlices, i)
				}
				want2 := map[loc]int{}
				for _, cp := range g2.Copies() {
					want2[loc{cp.Slice, cp.DB}]++
				}
				if len(copyProblems(want2, got)) == 0 {
					o.Known, o.KnownWhat = "C03-F3", detail
					return
				}
			}
			o.Violation = detail
			return
		}
		return
	}

	// ---- sharded table: what was written
	var out []written
	seenTable := map[int]bool{}
	for _, st := range stmts {
		node, err := shardfix.Parse(st.SQL)
		if err != nil {
			o.Violation = fmt.Sprintf("statement for %s/%s does not parse: %q", st.Slice, st.DB, st.SQL)
			return
		}
		ei, ok := insertOf(node)
		if !ok || ei.malformed != "" {
			o.Violation = fmt.Sprintf("statement for %s/%s is not a well-formed INSERT: %q", st.Slice, st.DB, st.SQL)
			return
		}
		idx, problem := physicalIndex(f, st, ei, target)
		if problem != "" {
			o.Violation = problem + fmt.Sprintf(": %q (original %q)", st.SQL, c.SQL)
			return
		}
		if ei.replace != in.replace || ei.ignore != in.ignore || ei.onDup != in.onDup || ei.setForm != in.setForm {
			o.Violation = fmt.Sprintf("statement kind changed: %q (original %q)", st.SQL, c.SQL)
			return
		}
		if seenTable[idx] {
			o.Violation = fmt.Sprintf("table %d receives two statements: %v (original %q)", idx, sqlsOf(stmts), c.SQL)
			return
		}
		seenTable[idx] = true
		for _, r := range ei.rows {
			var cols []string
			for cn := range r.vals {
				cols = append(cols, cn)
			}
			out = append(out, written{idx: idx, cols: cols, row: r})
		}
	}
	if len(seenTable) >= 2 {
		o.Labels = append(o.Labels, "split_over_tables")
	}
	var all []int
	for i := range classes {
		all = append(all, i)
	}
	ver := &verifier{f: f, in: in, classes: classes, out: out, sql: c.SQL, stmts: stmts, target: target, keyCol: keyCol, seqCol: seqColName}
	var problem string
	if unroutable > 0 {
		var whys []string
		for i, rc := range classes {
			if !rc.routable {
				whys = append(whys, fmt.Sprintf("row %d: %s", i, rc.why))
			}
		}
		o.NonTrivial = routableRows > 0
		problem = fmt.Sprintf("%s rule: statement accepted (%d statements executed: %v) although %s (sql %q)", l.Kind, len(stmts), sqlsOf(stmts), strings.Join(whys, "; "), c.SQL)
	} else {
		o.NonTrivial = len(in.rows) >= 2 && len(seenTable) >= 2
		problem = ver.verify(all)
	}
	if problem == "" && unroutable == 0 {
		// the rows are where the point query with the same spelling looks; now the
		// other spellings of the same number and the rule's arithmetic
		problem = crossSpelling(f, in, classes, target, keyCol, &o, c.SQL)
	}
	if problem == "" {
		return
	}
	o.Violation = problem
	return
}

// ---------------------------------------------------------------- numbers across spellings

// numLiteral reads an integer sharding literal: 17, '17', '017', '+17', '+017'.
// style: "plain", "quoted", "quoted_zeros", "quoted_plus", "quoted_plus_zeros".
func numLiteral(e ast.ExprNode) (n uint64, style string, ok bool) {
	v, isVal := e.(*driver.ValueExpr)
	if !isVal {
		return 0, "", false
	}
	switch v.Kind() {
	case types.KindInt64:
		if v.GetInt64() < 0 {
			return 0, "", false
		}
		return uint64(v.GetInt64()), "plain", true
	case types.KindUint64:
		if v.GetUint64() > math.MaxInt64 {
			return 0, "", false
		}
		return v.GetUint64(), "plain", true
	case types.KindString:
		s := v.GetString()
		style = "quoted"
		if strings.HasPrefix(s, "+") {
			s, style = s[1:], "quoted_plus"
		}
		if len(s) > 1 && s[0] == '0' {
			s = strings.TrimLeft(s, "0")
			if s == "" {
				s = "0"
			}
			style += "_zeros"
		}
		if !isIntText(s) {
			return 0, "", false
		}
		u, err := strconv.ParseUint(s, 10, 64)
		if err != nil || u > math.MaxInt64 {
			return 0, "", false
		}
		return u, style, true
	}
	return 0, "", false
}

func spell(n uint64, style string) string {
	d := strconv.FormatUint(n, 10)
	switch style {
	case "plain":
		return d
	case "quoted":
		return "'" + d + "'"
	case "quoted_zeros":
		return "'00" + d + "'"
	case "quoted_plus":
		return "'+" + d + "'"
	default:
		return "'+0" + d + "'"
	}
}

// refPlace is the rule's arithmetic for a non-negative integer key, written
// from the rule descriptions (hash and mod: n mod tables; range: n div limit;
// mycat_long: the partition of n mod 1024), where there is one.
func refPlace(l shardfix.Layout, n uint64) (idx int, placed bool, known bool) {
	tables := 0
	for _, c := range l.Locations {
		tables += c
	}
	switch l.Kind {
	case "hash", "mod", "mycat_mod":
		return int(n % uint64(tables)), true, true
	case "range":
		q := n / uint64(l.RowLimit)
		if q >= uint64(tables) {
			return 0, false, true
		}
		return int(q), true, true
	case "mycat_long":
		var counts, lens []int
		for _, p := range strings.Split(l.PartitionCount, ",") {
			v, _ := strconv.Atoi(strings.TrimSpace(p))
			counts = append(counts, v)
		}
		for _, p := range strings.Split(l.PartitionLength, ",") {
			v, _ := strconv.Atoi(strings.TrimSpace(p))
			lens = append(lens, v)
		}
		slot, part, upper := int(n&1023), 0, 0
		for i := range counts {
			for j := 0; j < counts[i]; j++ {
				upper += lens[i]
				if slot < upper {
					return part, true, true
				}
				part++
			}
		}
	}
	return 0, false, false
}

// crossSpelling: a row whose sharding value is an integer must be stored where
// the point queries on the SAME NUMBER in its other spellings look, for every
// spelling this rule treats as a number. Whether a spelling is numeric for the
// rule is not assumed: it is read off the tree under test on small numbers
// (5 and '5' must already agree there), so a parser that only mishandles wide
// numbers cannot hide. Where the rule has simple arithmetic the table must also
// be the one that arithmetic gives.
func crossSpelling(f *shardfix.Fixture, in *insertInfo, classes []rowClass, target, keyCol string, o *pbt.Outcome, sql string) string {
	l := f.Layout
	if l.KeyType != shardfix.KeyInt {
		return ""
	}
	numeric := map[string]bool{"plain": true}
	probed := map[string]bool{"plain": true}
	isNumeric := func(style string) bool {
		if probed[style] {
			return numeric[style]
		}
		probed[style] = true
		for _, n := range []uint64{0, 1, 2, 3, 5, 7, 10, 11, 13, 100, 255, 1000} {
			a, ok1 := pointRoute(f, target, keyCol, spell(n, "plain"))
			b, ok2 := pointRoute(f, target, keyCol, spell(n, style))
			if ok1 != ok2 || (ok1 && a != b) {
				return false
			}
		}
		numeric[style] = true
		return true
	}
	for i, rc := range classes {
		if !rc.routable || rc.nonLit || rc.seqKey {
			continue
		}
		node, has := in.rows[i].nodes[keyCol]
		if !has {
			continue
		}
		n, style, ok := numLiteral(node)
		if !ok || !isNumeric(style) {
			continue
		}
		o.Labels = append(o.Labels, "number_spelled_"+style)
		if n >= 1<<31 {
			o.Labels = append(o.Labels, "number_wide_"+style)
		}
		for _, other := range []string{"plain", "quoted"} {
			if other == style || !isNumeric(other) {
				continue
			}
			idx, ok := pointRoute(f, target, keyCol, spell(n, other))
			if !ok || idx != rc.want {
				where := "is refused or finds no table"
				if ok {
					where = fmt.Sprintf("is routed to table %d", idx)
				}
				return fmt.Sprintf("%s rule: row %d of %q stores %s = %s in table %d, but the point query %s = %s on the same number %s (this rule places small numbers identically in both spellings)",
					l.Kind, i, sql, keyCol, in.rows[i].vals[keyCol], rc.want, keyCol, spell(n, other), where)
			}
		}
		if idx, placed, known := refPlace(l, n); known && (!placed || idx != rc.want) {
			return fmt.Sprintf("%s rule: row %d of %q stores %s = %s in table %d, but the rule's arithmetic places %d in table %d (placed=%v)",
				l.Kind, i, sql, keyCol, in.rows[i].vals[keyCol], rc.want, n, idx, placed)
		}
	}
	return ""
}

type loc struct{ slice, db string }

func isPrefixOrder(rs []int) bool {
	for i, v := range rs {
		if v != i {
			return false
		}
	}
	return true
}

// copyProblems compares the statements per (slice, database) with the copies:
// each copy must get the statement exactly once and nothing else may get it.
func copyProblems(want, got map[loc]int) (probs []string) {
	for lc := range want {
		if got[lc] == 0 {
			probs = append(probs, fmt.Sprintf("copy %s/%s gets nothing", lc.slice, lc.db))
		} else if got[lc] > 1 {
			probs = append(probs, fmt.Sprintf("copy %s/%s gets the statement %d times", lc.slice, lc.db, got[lc]))
		}
	}
	for lc := range got {
		if want[lc] == 0 {
			probs = append(probs, fmt.Sprintf("%s/%s is not a copy but gets the statement", lc.slice, lc.db))
		}
	}
	sort.Strings(probs)
	return probs
}

type written struct {
	idx  int
	cols []string
	row  row
}

// verifier checks that exactly the chosen rows of the statement were written,
// each once, each in the table its point query is routed to.
type verifier struct {
	f       *shardfix.Fixture
	in      *insertInfo
	classes []rowClass
	out     []written
	sql     string
	stmts   []shardfix.Stmt
	target  string // logical table written (t or tc)
	keyCol  string // its sharding column
	seqCol  string // its sequence column ("" = none)
}

func (v *verifier) verify(rows []int) string {
	l := v.f.Layout
	in := v.in
	seqCol := v.seqCol
	seqGenerated := func(r row) bool {
		if seqCol == "" {
			return false
		}
		n, has := r.nodes[seqCol]
		if !has {
			return !in.setForm
		}
		if isNextval(n) {
			return true
		}
		lit, null := isLiteral(n)
		return lit && null && !in.setForm
	}
	strip := func(cols []string, r row) string {
		var cs []string
		for _, cn := range cols {
			if cn != seqCol {
				cs = append(cs, cn)
			}
		}
		return rowKey(cs, r)
	}
	used := make([]bool, len(v.out))
	seqSeen := map[string]bool{}
	match := make(map[int]int) // row -> written
	genOf := make(map[int]bool)
	// first the rows written as they stand, then the rows whose sequence column was generated
	for _, i := range rows {
		exactKey := rowKey(in.cols, in.rows[i])
		for j, w := range v.out {
			if !used[j] && rowKey(w.cols, w.row) == exactKey {
				// (also when the session has no database and Gaea therefore finds no
				// sequence for the table: not this property's concern)
				used[j], match[i] = true, j
				break
			}
		}
	}
	for _, i := range rows {
		if _, done := match[i]; done {
			continue
		}
		r := in.rows[i]
		if !seqGenerated(r) {
			continue
		}
		for j, w := range v.out {
			if used[j] || strip(w.cols, w.row) != strip(in.cols, r) {
				continue
			}
			if sv, has := w.row.vals[seqCol]; !has || !isStubSeq(sv) {
				continue
			}
			used[j], match[i], genOf[i] = true, j, true
			break
		}
	}
	for _, i := range rows {
		r := in.rows[i]
		exactKey := rowKey(in.cols, r)
		found, ok := match[i]
		if !ok {
			return fmt.Sprintf("%s rule: row %d (%s) of %q is not written by any of the %d executed statements %v", l.Kind, i, exactKey, v.sql, len(v.stmts), sqlsOf(v.stmts))
		}
		gen := genOf[i]
		w := v.out[found]
		want := v.classes[i].want
		if gen {
			sv := w.row.vals[seqCol]
			if seqSeen[sv] {
				return fmt.Sprintf("sequence value %s was given to two rows (sql %q -> %v)", sv, v.sql, sqlsOf(v.stmts))
			}
			seqSeen[sv] = true
		}
		if v.classes[i].seqKey {
			idx, ok := pointRoute(v.f, v.target, v.keyCol, w.row.vals[v.keyCol])
			if !ok {
				return fmt.Sprintf("row %d got sequence key %s which no point query finds (sql %q)", i, w.row.vals[v.keyCol], v.sql)
			}
			want = idx
		}
		if w.idx != want {
			return fmt.Sprintf("%s rule: row %d (%s) of %q is written to table %d but the point query on its key is routed to table %d", l.Kind, i, exactKey, v.sql, w.idx, want)
		}
	}
	for j, w := range v.out {
		if !used[j] {
			return fmt.Sprintf("%s rule: %q writes an extra row (%s) to table %d: %v", l.Kind, v.sql, rowKey(w.cols, w.row), w.idx, sqlsOf(v.stmts))
		}
	}
	return ""
}

func sqlsOf(st []shardfix.Stmt) []string {
	var out []string
	for _, s := range st {
		out = append(out, s.Slice+"/"+s.DB+": "+s.SQL)
	}
	return out
}

// rowClass is the reference's view of one row of the statement.
type rowClass struct {
	routable bool
	why      string // why not routable
	nonLit   bool   // the sharding value is not a literal
	seqKey   bool   // the sharding value comes from the sequence
	want     int    // table of the point query (when the key is a literal)
}

func TestC03Insert(t *testing.T) {
	pbt.Run(t, pbt.Spec{ID: "C03", Sub: "insert", Quick: 4000, Thorough: 30000,
		Rule:  "layout of every rule type x INSERT / REPLACE / INSERT IGNORE in VALUES form (1-6 rows, any column order, qualified names, ON DUPLICATE KEY UPDATE) or SET form, sharding values from placed literals, quoted numbers, out-of-range literals, NULL, signed numbers, arithmetic, function calls, DEFAULT, nextval(), with and without a sequence column (also on the sharding column), and global-table inserts; non-trivial = >=2 rows written to >=2 tables, or a statement mixing routable and unroutable rows, or a global table with >=2 copies",
		Floor: 0.4}, genCase, checkCase)
}
