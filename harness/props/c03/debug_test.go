//go:build verif

package c03

import (
	"fmt"
	"os"
	"strings"
	"testing"

	"pgregory.net/rapid"
	"verifharness/internal/shardfix"
)

func TestDebugLabels(t *testing.T) {
	want := os.Getenv("DBG_LABEL")
	if want == "" {
		t.Skip()
	}
	n := 0
	rapid.Check(t, func(rt *rapid.T) {
		c := genCase(rt)
		o := checkCase(c)
		ls := append([]string{}, o.Labels...)
		if o.Skip != "" {
			ls = append(ls, "skip:"+o.Skip)
		}
		for _, l := range ls {
			if strings.HasPrefix(l, want) && n < 25 {
				n++
				f, _ := shardfix.Build(c.Layout)
				_, err, pan, _ := f.Plan(c.DB, c.SQL)
				fmt.Printf("%s | %s seq=%q | db=%q | %s | err=%v pan=%s\n", l, c.Layout.Kind, c.Layout.SeqCol, c.DB, c.SQL, err, pan)
			}
		}
	})
}
