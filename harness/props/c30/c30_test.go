//go:build verif

// C30 Password checks accept exactly the proofs MySQL would accept.
//
// Sub-checks:
//
//	handshake  the real Session.handleHandshakeResponse decision (hook
//	           server.VerifHandshakeAuth, build tag verif) for an arbitrary salt,
//	           auth response and negotiated plugin, against a user table built
//	           through Manager.ReloadNamespacePrepare/Commit (1-3 namespaces that
//	           configure the same user name with different stored passwords, the
//	           only way one user gets several passwords: models.Namespace.Verify
//	           rejects a duplicate name inside one namespace). The expected
//	           decision comes from ref.go (both scrambles and the server side of
//	           mysql_native_password written from the protocol documentation).
//	functions  mysql.CalcPassword / CalcCachingSha2Password / CheckHashPassword
//	           against the same reference.
package c30

import (
	"bytes"
	"fmt"
	"os"
	"strings"
	"sync"
	"testing"

	"github.com/XiaoMi/Gaea/log"
	"github.com/XiaoMi/Gaea/models"
	"github.com/XiaoMi/Gaea/mysql"
	"github.com/XiaoMi/Gaea/proxy/server"
	"pgregory.net/rapid"
	"verifharness/internal/pbt"
)

// ---- quiet logger (Gaea's default global logger prints to the console) ----

type nullLogger struct{}

func (nullLogger) SetLevel(name, level string) error                 { return nil }
func (nullLogger) Debug(format string, a ...interface{}) error       { return nil }
func (nullLogger) Trace(format string, a ...interface{}) error       { return nil }
func (nullLogger) Notice(format string, a ...interface{}) error      { return nil }
func (nullLogger) Warn(format string, a ...interface{}) error        { return nil }
func (nullLogger) Fatal(format string, a ...interface{}) error       { return nil }
func (nullLogger) Debugx(id, format string, a ...interface{}) error  { return nil }
func (nullLogger) Tracex(id, format string, a ...interface{}) error  { return nil }
func (nullLogger) Noticex(id, format string, a ...interface{}) error { return nil }
func (nullLogger) Warnx(id, format string, a ...interface{}) error   { return nil }
func (nullLogger) Fatalx(id, format string, a ...interface{}) error  { return nil }
func (nullLogger) Close()                                            {}
func (nullLogger) Dropped(i int) uint64                              { return 0 }

var tmpDir string

func TestMain(m *testing.M) {
	log.SetGlobalLogger(nullLogger{})
	var err error
	tmpDir, err = os.MkdirTemp("", "verif-c30-")
	if err != nil {
		fmt.Println("c30: cannot create temp dir:", err)
		os.Exit(3)
	}
	code := m.Run()
	os.RemoveAll(tmpDir)
	os.Exit(code)
}

// ---- the Manager under test ----

var (
	mgrOnce sync.Once
	mgr     *server.Manager
	mgrErr  error
	mgrMu   sync.Mutex
)

const nNamespaces = 3

// manager returns the process-wide Manager. It is created with no namespace;
// every case replaces the complete user table (every namespace is deleted, then
// the case's namespaces are prepared and committed in order n0, n1, n2), so no
// state of an earlier case survives. The
// namespaces have one slice without a master address: no backend is contacted.
func manager() (*server.Manager, error) {
	mgrOnce.Do(func() {
		cfg := &models.Proxy{StatsEnabled: "false", LogPath: tmpDir, LogFileName: "c30", LogLevel: "fatal",
			Cluster: "verif", Service: "verif"}
		mgr, mgrErr = server.CreateManager(cfg, map[string]*models.Namespace{})
	})
	return mgr, mgrErr
}

const (
	targetUser = "u"
	otherUser  = "v"
)

func nsName(i int) string { return fmt.Sprintf("n%d", i) }

var installed string // signature of the user table currently installed in mgr

func installUsers(m *server.Manager, target, other []string) error {
	sig := fmt.Sprintf("%q|%q", target, other)
	if sig == installed {
		return nil // the table is a pure function of (target, other); authentication never changes it
	}
	installed = "?"
	// Empty the table first: re-preparing a namespace while another one still holds the
	// same user+password key (left by the previous case) would leave a stale password
	// behind (UserManager keys are only unique within one consistent configuration).
	for i := 0; i < nNamespaces; i++ {
		if err := m.DeleteNamespace(nsName(i)); err != nil {
			return err
		}
	}
	if m.CheckUser(targetUser) || m.CheckUser(otherUser) {
		return fmt.Errorf("user table not empty after deleting every namespace")
	}
	for i := 0; i < nNamespaces && (i < len(target) || i < len(other)); i++ {
		ns := &models.Namespace{Name: nsName(i), DefaultSlice: "s0", Slices: []*models.Slice{{Name: "s0"}}}
		if i < len(target) {
			ns.Users = append(ns.Users, &models.User{UserName: targetUser, Password: target[i], Namespace: ns.Name, RWFlag: models.ReadWrite})
		}
		if i < len(other) {
			ns.Users = append(ns.Users, &models.User{UserName: otherUser, Password: other[i], Namespace: ns.Name, RWFlag: models.ReadWrite})
		}
		if err := m.ReloadNamespacePrepare(ns); err != nil {
			return err
		}
		if err := m.ReloadNamespaceCommit(ns.Name); err != nil {
			return err
		}
	}
	installed = sig
	return nil
}

// ---- case ----

const (
	formClear = iota
	formHashUpper
	formHashLower
	formHashMixed
)

type entry struct {
	Password string `json:"password"` // the clear-text password the client knows
	Form     int    `json:"form"`     // how the namespace configuration stores it
}

func (e entry) stored() string {
	switch e.Form {
	case formHashUpper:
		return "*" + refDoubleSHA1Hex(e.Password, true)
	case formHashLower:
		return "*" + refDoubleSHA1Hex(e.Password, false)
	case formHashMixed:
		up, lo := refDoubleSHA1Hex(e.Password, true), refDoubleSHA1Hex(e.Password, false)
		b := []byte(up)
		for i := range b {
			if i%3 == 1 {
				b[i] = lo[i]
			}
		}
		return "*" + string(b)
	}
	return e.Password
}

type respSpec struct {
	// Base: native | sha2 (proof of Target[Entry]'s clear password) |
	// literal_native | literal_sha2 (proof computed over the stored string itself) |
	// other_native | other_sha2 (proof of the other user's entry) |
	// wrongsalt_native | wrongsalt_sha2 (proof for another salt) |
	// stage1 (unsalted SHA1(pw)) | empty | raw
	Base  string `json:"base"`
	Entry int    `json:"entry"`
	// Mod: "" | flip (bit Bit) | trunc (drop Cut bytes at the end) | extend (append Extra)
	Mod   string `json:"mod"`
	Bit   int    `json:"bit"`
	Cut   int    `json:"cut"`
	Extra []byte `json:"extra"`
	Raw   []byte `json:"raw"`
}

type authCase struct {
	Salt   []byte   `json:"salt"`
	Target []entry  `json:"target"` // stored passwords of user u, one per namespace n0.., in check order
	Other  []entry  `json:"other"`  // stored passwords of user v
	Plugin string   `json:"plugin"` // HandshakeResponseInfo.AuthPlugin: "" (client used the advertised plugin) or the plugin of an auth switch
	Resp   respSpec `json:"resp"`
}

var pwPool = []string{"a", "password", "pässwörd", "密码🔑", "p w", "*", "*not-a-hash", "0", "\x00\x01bin",
	"0123456789012345678901234567890123456789012345678901234567890123",
	"*ZZZZZZZZZZZZZZZZZZZZZZZZZZZZZZZZZZZZZZZZ",  // '*' + 40 non-hex characters: clear text by the stated rule
	"*2470C0C06DEE42FD1618BB99005ADCA2EC9D1E19",  // clear text that has the hashed form (hash of "password")
	"2470C0C06DEE42FD1618BB99005ADCA2EC9D1E19", // 40 hex digits without the star
}

func sanitize(p string) string {
	// ':' is the separator of the user table key (owned by the reload properties) and
	// models.User.verify trims white space; stay inside what the control plane stores.
	p = strings.ReplaceAll(p, ":", ";")
	p = strings.TrimSpace(p)
	return p
}

func genPassword(t *rapid.T, name string) string {
	switch rapid.IntRange(0, 9).Draw(t, name+"_k") {
	case 0, 1, 2, 3:
		return rapid.SampledFrom(pwPool).Draw(t, name)
	case 4:
		return "" // models.User.verify refuses it; kept as a rare class because MySQL defines it (empty response)
	default:
		p := sanitize(rapid.StringN(1, 24, 80).Draw(t, name))
		if p == "" {
			p = "x"
		}
		return p
	}
}

func genEntries(t *rapid.T, name string, min, max int) []entry {
	n := rapid.IntRange(min, max).Draw(t, name+"_n")
	var es []entry
	seen := map[string]bool{}
	for i := 0; i < n; i++ {
		e := entry{Password: genPassword(t, fmt.Sprintf("%s_pw%d", name, i))}
		if i > 0 && rapid.IntRange(0, 3).Draw(t, fmt.Sprintf("%s_same%d", name, i)) == 0 {
			e.Password = es[0].Password // same password stored in another form elsewhere
		}
		if rapid.IntRange(0, 1).Draw(t, fmt.Sprintf("%s_h%d", name, i)) == 1 {
			e.Form = rapid.IntRange(formHashUpper, formHashMixed).Draw(t, fmt.Sprintf("%s_form%d", name, i))
		}
		// user name + stored password is unique across namespaces (UserManager's key)
		for seen[e.stored()] {
			e.Password += "+"
		}
		seen[e.stored()] = true
		es = append(es, e)
	}
	return es
}

// tableCase is what rapid generates: one user table and several handshakes
// against it (installing a table costs two orders of magnitude more than a
// decision). Every handshake is judged on its own by checkAuth.
type attempt struct {
	Salt   []byte   `json:"salt"`
	Plugin string   `json:"plugin"`
	Resp   respSpec `json:"resp"`
}

type tableCase struct {
	Target   []entry   `json:"target"`
	Other    []entry   `json:"other"`
	Attempts []attempt `json:"attempts"`
}

func genTable(t *rapid.T) tableCase {
	var c tableCase
	c.Target = genEntries(t, "t", 1, nNamespaces)
	c.Other = genEntries(t, "o", 0, 2)
	n := rapid.IntRange(1, 10).Draw(t, "attempts")
	for i := 0; i < n; i++ {
		a := genAuth(t, c.Target)
		c.Attempts = append(c.Attempts, attempt{Salt: a.Salt, Plugin: a.Plugin, Resp: a.Resp})
	}
	return c
}

func checkTable(c tableCase, rec *pbt.Recorder) (o pbt.Outcome) {
	if len(c.Attempts) == 0 {
		o.Skip = "no handshake in the case"
		return
	}
	skipped := 0
	for _, a := range c.Attempts {
		r := checkAuth(authCase{Salt: a.Salt, Target: c.Target, Other: c.Other, Plugin: a.Plugin, Resp: a.Resp})
		if r.Skip != "" {
			skipped++
			o.Labels = append(o.Labels, "skipped_attempt")
			continue
		}
		o.Labels = append(o.Labels, r.Labels...)
		o.NonTrivial = o.NonTrivial || r.NonTrivial
		if r.Violation != "" {
			o.Violation = r.Violation
			o.Known, o.KnownWhat = "", ""
			return
		}
		if r.Known != "" && o.Known == "" {
			o.Known, o.KnownWhat = r.Known, r.KnownWhat // keep judging the remaining handshakes
		}
		o.Labels = append(o.Labels, "decision")
	}
	if skipped == len(c.Attempts) {
		o.Skip = "every handshake of the case was malformed"
	}
	return
}

func genAuth(t *rapid.T, target []entry) authCase {
	var c authCase
	c.Target = target
	c.Salt = rapid.SliceOfN(rapid.Byte(), 20, 20).Draw(t, "salt")
	if rapid.IntRange(0, 9).Draw(t, "saltk") == 0 {
		c.Salt = bytes.Repeat([]byte{rapid.SampledFrom([]byte{0, 0xff, 'a'}).Draw(t, "saltb")}, 20)
	}
	c.Plugin = rapid.SampledFrom([]string{"", "", "", "mysql_native_password", "caching_sha2_password"}).Draw(t, "plugin")
	r := &c.Resp
	r.Entry = rapid.IntRange(0, len(c.Target)-1).Draw(t, "entry")
	switch k := rapid.IntRange(0, 19).Draw(t, "base"); {
	case k <= 5:
		r.Base = "native"
	case k <= 9:
		r.Base = "sha2"
	case k == 10:
		r.Base = "literal_native"
	case k == 11:
		r.Base = "literal_sha2"
	case k == 12:
		r.Base = "other_native"
	case k == 13:
		r.Base = "other_sha2"
	case k == 14:
		r.Base = "wrongsalt_native"
	case k == 15:
		r.Base = "wrongsalt_sha2"
	case k == 16:
		r.Base = "stage1"
	case k == 17:
		r.Base = "empty"
	default:
		r.Base = "raw"
		n := rapid.SampledFrom([]int{0, 1, 19, 20, 20, 21, 31, 32, 32, 33, 40, 64, 255}).Draw(t, "rawn")
		r.Raw = rapid.SliceOfN(rapid.Byte(), n, n).Draw(t, "raw")
	}
	switch rapid.IntRange(0, 9).Draw(t, "mod") {
	case 0, 1:
		r.Mod = "flip"
		r.Bit = rapid.IntRange(0, 255).Draw(t, "bit")
	case 2:
		r.Mod = "trunc"
		r.Cut = rapid.IntRange(1, 32).Draw(t, "cut")
	case 3:
		r.Mod = "extend"
		n := rapid.SampledFrom([]int{1, 1, 2, 12, 13, 20, 32}).Draw(t, "extn")
		r.Extra = rapid.SliceOfN(rapid.Byte(), n, n).Draw(t, "ext")
	}
	return c
}

func buildResp(c authCase) []byte {
	r := c.Resp
	var b []byte
	var e entry
	if len(c.Target) > 0 {
		e = c.Target[((r.Entry%len(c.Target))+len(c.Target))%len(c.Target)]
	}
	var oe entry
	if len(c.Other) > 0 {
		oe = c.Other[((r.Entry%len(c.Other))+len(c.Other))%len(c.Other)]
	} else {
		oe = entry{Password: "somebody-else"}
	}
	otherSalt := append([]byte(nil), c.Salt...)
	if len(otherSalt) > 0 {
		otherSalt[len(otherSalt)-1] ^= 1
	}
	switch r.Base {
	case "native":
		b = refNative(c.Salt, e.Password)
	case "sha2":
		b = refSha2(c.Salt, e.Password)
	case "literal_native":
		b = refNative(c.Salt, e.stored())
	case "literal_sha2":
		b = refSha2(c.Salt, e.stored())
	case "other_native":
		b = refNative(c.Salt, oe.Password)
	case "other_sha2":
		b = refSha2(c.Salt, oe.Password)
	case "wrongsalt_native":
		b = refNative(otherSalt, e.Password)
	case "wrongsalt_sha2":
		b = refSha2(otherSalt, e.Password)
	case "stage1":
		if h, ok := storedHash("*" + refDoubleSHA1Hex(e.Password, true)); ok {
			b = h // SHA1(SHA1(pw)): what a reader of the configuration knows
		}
	case "empty":
		b = []byte{}
	default:
		b = append([]byte{}, r.Raw...)
	}
	b = append([]byte{}, b...)
	switch r.Mod {
	case "flip":
		if len(b) > 0 {
			bit := ((r.Bit % (8 * len(b))) + 8*len(b)) % (8 * len(b))
			b[bit/8] ^= 1 << uint(bit%8)
		}
	case "trunc":
		if len(b) > 0 {
			cut := r.Cut
			if cut < 1 {
				cut = 1
			}
			if cut > len(b) {
				cut = len(b)
			}
			b = b[:len(b)-cut]
		}
	case "extend":
		b = append(b, r.Extra...)
	}
	return b
}

// ---- oracle ----

type verdict struct {
	validNative  bool // resp is a mysql_native_password proof of a configured password (either stored form)
	validSha2    bool // resp is a caching_sha2_password proof of a clear-text configured password
	unverifiable bool // resp is the sha2 proof of a password that is configured only as a SHA1 hash
	nativeIdx    []int
	sha2Idx      []int
}

func judge(c authCase, resp []byte) verdict {
	var v verdict
	for i, e := range c.Target {
		st := e.stored()
		if h2, hashed := storedHash(st); hashed {
			if refVerifyNativeHashed(resp, c.Salt, h2) {
				v.validNative = true
				v.nativeIdx = append(v.nativeIdx, i)
			}
			if e.Form != formClear && bytes.Equal(resp, refSha2(c.Salt, e.Password)) {
				v.unverifiable = true
			}
			continue
		}
		if bytes.Equal(resp, refNative(c.Salt, st)) {
			v.validNative = true
			v.nativeIdx = append(v.nativeIdx, i)
		}
		if bytes.Equal(resp, refSha2(c.Salt, st)) {
			v.validSha2 = true
			v.sha2Idx = append(v.sha2Idx, i)
		}
	}
	return v
}

func isHashed(e entry) bool { _, ok := storedHash(e.stored()); return ok }

func contains(xs []int, x int) bool {
	for _, y := range xs {
		if y == x {
			return true
		}
	}
	return false
}

func checkAuth(c authCase) (o pbt.Outcome) {
	if len(c.Target) == 0 || len(c.Target) > nNamespaces || len(c.Other) > nNamespaces || len(c.Salt) != 20 {
		o.Skip = "malformed case"
		return
	}
	switch c.Plugin {
	case "", "mysql_native_password", "caching_sha2_password":
	default:
		o.Skip = "plugin outside models.Proxy.Verify"
		return
	}
	resp := buildResp(c)
	v := judge(c, resp)

	var mustAccept, mustReject bool
	switch c.Plugin {
	case "":
		mustAccept = v.validNative || v.validSha2
	case "mysql_native_password":
		mustAccept = v.validNative
	case "caching_sha2_password":
		mustAccept = v.validSha2
	}
	mustReject = !v.validNative && !v.validSha2 && !v.unverifiable

	nHashed := 0
	for _, e := range c.Target {
		if isHashed(e) {
			nHashed++
		}
	}
	o.NonTrivial = (len(c.Target) >= 2 && nHashed >= 1) || (len(resp) != 0 && len(resp) != 20 && len(resp) != 32)
	pl := c.Plugin
	if pl == "" {
		pl = "none"
	}
	o.Labels = append(o.Labels, "plugin_"+pl, "base_"+c.Resp.Base, "mod_"+c.Resp.Mod,
		fmt.Sprintf("entries_%d_hashed_%d", len(c.Target), nHashed))
	switch {
	case mustAccept:
		o.Labels = append(o.Labels, "expect_accept")
	case mustReject:
		o.Labels = append(o.Labels, "expect_reject")
	default:
		o.Labels = append(o.Labels, "expect_nodemand")
	}

	mgrMu.Lock()
	defer mgrMu.Unlock()
	m, err := manager()
	if err != nil {
		o.Skip = "cannot create manager: " + err.Error()
		return
	}
	var target, other []string
	for _, e := range c.Target {
		target = append(target, e.stored())
	}
	for _, e := range c.Other {
		other = append(other, e.stored())
	}
	if err := installUsers(m, target, other); err != nil {
		o.Skip = "cannot install users: " + err.Error()
		return
	}

	var ns string
	var herr error
	wire := append([]byte{}, resp...) // the server hands the session its own copy of the packet bytes
	panicked := pbt.Catch(func() {
		ns, herr = server.VerifHandshakeAuth(m, server.HandshakeResponseInfo{CollationID: 33, User: targetUser,
			AuthResponse: wire, Salt: append([]byte{}, c.Salt...), AuthPlugin: c.Plugin})
	})
	accepted := panicked == "" && herr == nil
	switch {
	case panicked != "":
		o.Labels = append(o.Labels, "got_panic_counted_as_reject")
	case accepted:
		o.Labels = append(o.Labels, "got_accept")
	default:
		o.Labels = append(o.Labels, "got_reject")
	}
	desc := func() string {
		var st []string
		for _, e := range c.Target {
			st = append(st, fmt.Sprintf("%q", e.stored()))
		}
		return fmt.Sprintf("user with stored passwords [%s], plugin %q, salt %x, response %x (%s%s of entry %d)",
			strings.Join(st, ", "), c.Plugin, c.Salt, resp, c.Resp.Base, map[bool]string{true: "+" + c.Resp.Mod, false: ""}[c.Resp.Mod != ""], c.Resp.Entry)
	}

	if mustAccept && !accepted {
		how := "rejected: " + fmt.Sprint(herr)
		if panicked != "" {
			how = "panicked: " + panicked
		}
		detail := fmt.Sprintf("correct proof %s; want accepted, %s", how, desc())
		// (C30-F1, the in-place XOR of mysql.CheckHashPassword, and C30-F2, hashed passwords after an
		// auth switch, are fixed in /repo: a rejected correct proof is a plain violation again)
		o.Violation = detail
		return
	}
	if mustReject && accepted {
		detail := fmt.Sprintf("response that is no proof of any configured password was accepted (namespace %q); %s", ns, desc())
		// C30-F3: the clear-text comparisons also run over entries that have the
		// hashed form, so the stored hash string itself works as a password.
		for _, e := range c.Target {
			if !isHashed(e) {
				continue
			}
			lit := e.stored()
			if (c.Plugin != "caching_sha2_password" && bytes.Equal(resp, refNative(c.Salt, lit))) ||
				(c.Plugin != "mysql_native_password" && bytes.Equal(resp, refSha2(c.Salt, lit))) {
				o.Known, o.KnownWhat = "C30-F3", detail
				return
			}
		}
		o.Violation = detail
		return
	}
	if accepted {
		// informational: the namespace the session is bound to belongs to an entry the proof matches
		ok := false
		for _, i := range append(append([]int{}, v.nativeIdx...), v.sha2Idx...) {
			if ns == nsName(i) {
				ok = true
			}
		}
		if ok {
			o.Labels = append(o.Labels, "bound_to_matching_namespace")
		} else {
			o.Labels = append(o.Labels, "bound_to_other_namespace")
		}
	}
	return
}

func TestC30Handshake(t *testing.T) {
	pbt.RunWith(t, pbt.Spec{ID: "C30", Sub: "handshake", Quick: 2500, Thorough: 40000,
		Rule: "one user table and 1-10 handshakes against it (label 'decision' counts handshakes); 20-byte salts; user u configured in 1-3 namespaces with passwords (pool of ASCII/multi-byte/binary/hash-looking strings, random strings, rarely empty) stored clear or as '*'+40 hex of SHA1(SHA1(p)) in upper/lower/mixed case; responses: native or sha2 proof of an entry, proof over the stored string itself, another user's proof, proof for another salt, SHA1(SHA1(p)), empty, raw bytes of length 0-255, each optionally with one bit flipped, truncated or extended; AuthPlugin empty/native/sha2; non-trivial = user has >= 2 stored passwords with at least one hashed, or a response length is not 0/20/32",
		Floor: 0.4}, genTable, checkTable)
}

// ---- the exported scramble functions ----

type fnCase struct {
	Salt     []byte `json:"salt"`
	Password string `json:"password"`
	Upper    bool   `json:"upper"`
	// Resp: 0 correct native proof, 1 one bit flipped, 2 truncated, 3 raw 20 bytes, 4 proof of Other
	Resp  int    `json:"resp_kind"`
	Bit   int    `json:"bit"`
	Raw   []byte `json:"raw"`
	Other string `json:"other"`
}

func genFn(t *rapid.T) fnCase {
	var c fnCase
	n := rapid.SampledFrom([]int{20, 20, 20, 20, 0, 1, 8, 21, 32}).Draw(t, "saltn")
	c.Salt = rapid.SliceOfN(rapid.Byte(), n, n).Draw(t, "salt")
	c.Password = genPassword(t, "pw")
	c.Other = genPassword(t, "other")
	c.Upper = rapid.Bool().Draw(t, "upper")
	c.Resp = rapid.IntRange(0, 4).Draw(t, "resp")
	c.Bit = rapid.IntRange(0, 159).Draw(t, "bit")
	c.Raw = rapid.SliceOfN(rapid.Byte(), 20, 20).Draw(t, "raw")
	return c
}

func checkFn(c fnCase) (o pbt.Outcome) {
	o.NonTrivial = c.Password != "" && len(c.Salt) == 20
	o.Labels = append(o.Labels, fmt.Sprintf("resp_%d", c.Resp))
	if p := pbt.Catch(func() {
		wantN := refNative(c.Salt, c.Password)
		gotN := mysql.CalcPassword(append([]byte{}, c.Salt...), []byte(c.Password))
		if !bytes.Equal(gotN, wantN) {
			o.Violation = fmt.Sprintf("CalcPassword(salt %x, %q) = %x, mysql_native_password scramble is %x", c.Salt, c.Password, gotN, wantN)
			return
		}
		wantS := refSha2(c.Salt, c.Password)
		gotS := mysql.CalcCachingSha2Password(append([]byte{}, c.Salt...), c.Password)
		if !bytes.Equal(gotS, wantS) {
			o.Violation = fmt.Sprintf("CalcCachingSha2Password(salt %x, %q) = %x, caching_sha2_password scramble is %x", c.Salt, c.Password, gotS, wantS)
			return
		}
		if c.Password == "" {
			return
		}
		var resp []byte
		switch c.Resp {
		case 0:
			resp = append([]byte{}, wantN...)
		case 1:
			resp = append([]byte{}, wantN...)
			resp[(c.Bit%160)/8] ^= 1 << uint(c.Bit%8)
		case 2:
			resp = append([]byte{}, wantN[:19]...)
		case 3:
			resp = append([]byte{}, c.Raw...)
		default:
			resp = append([]byte{}, refNative(c.Salt, c.Other)...)
		}
		hexd := refDoubleSHA1Hex(c.Password, c.Upper)
		h2, _ := storedHash("*" + hexd)
		want := refVerifyNativeHashed(resp, c.Salt, h2)
		got := mysql.CheckHashPassword(append([]byte{}, resp...), append([]byte{}, c.Salt...), []byte(hexd))
		if got != want {
			o.Violation = fmt.Sprintf("CheckHashPassword(resp %x, salt %x, %s) = %v, the server side of mysql_native_password says %v", resp, c.Salt, hexd, got, want)
		}
		if want {
			o.Labels = append(o.Labels, "verify_true")
		}
	}); p != "" {
		o.Violation = "runtime panic: " + p
	}
	return
}

func TestC30Functions(t *testing.T) {
	pbt.Run(t, pbt.Spec{ID: "C30", Sub: "functions", Quick: 20000, Thorough: 200000,
		Rule: "salts of 0-32 bytes (mostly 20), passwords as in the handshake sub-check; CalcPassword and CalcCachingSha2Password must equal the reference scrambles, CheckHashPassword must equal the reference server-side verification for correct, bit-flipped, truncated, random and foreign 20-byte-or-shorter responses; non-trivial = non-empty password and 20-byte salt",
		Floor: 0.4}, genFn, checkFn)
}
