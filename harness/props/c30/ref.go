//go:build verif

package c30

// Reference implementation of the two MySQL password proofs, written from the
// protocol documentation (MySQL internals manual, "Secure Password
// Authentication" and "Caching SHA-2 Pluggable Authentication"), independent of
// github.com/XiaoMi/Gaea/mysql.
//
//	mysql_native_password:  SHA1(pw) XOR SHA1(salt || SHA1(SHA1(pw)))            (20 bytes)
//	caching_sha2_password:  SHA256(pw) XOR SHA256(SHA256(SHA256(pw)) || salt)    (32 bytes)
//
// An empty password is represented by an empty auth response in both plugins.
// The server side of mysql_native_password only holds H2 = SHA1(SHA1(pw))
// (the 40 hex digits after '*' in mysql.user.authentication_string) and accepts a
// 20-byte response r iff SHA1(r XOR SHA1(salt || H2)) == H2.

import (
	"crypto/sha1"
	"crypto/sha256"
	"strings"
)

func xorBytes(a, b []byte) []byte {
	out := make([]byte, len(a))
	for i := range a {
		out[i] = a[i] ^ b[i]
	}
	return out
}

func cat(parts ...[]byte) []byte {
	var out []byte
	for _, p := range parts {
		out = append(out, p...)
	}
	return out
}

func refNative(salt []byte, pw string) []byte {
	if pw == "" {
		return []byte{}
	}
	s1 := sha1.Sum([]byte(pw))
	s2 := sha1.Sum(s1[:])
	m := sha1.Sum(cat(salt, s2[:]))
	return xorBytes(s1[:], m[:])
}

func refSha2(salt []byte, pw string) []byte {
	if pw == "" {
		return []byte{}
	}
	d1 := sha256.Sum256([]byte(pw))
	d2 := sha256.Sum256(d1[:])
	m := sha256.Sum256(cat(d2[:], salt))
	return xorBytes(d1[:], m[:])
}

// refDoubleSHA1Hex is what MySQL's PASSWORD() prints after the '*'.
func refDoubleSHA1Hex(pw string, upper bool) string {
	s1 := sha1.Sum([]byte(pw))
	s2 := sha1.Sum(s1[:])
	const lo, up = "0123456789abcdef", "0123456789ABCDEF"
	digits := lo
	if upper {
		digits = up
	}
	var sb strings.Builder
	for _, b := range s2 {
		sb.WriteByte(digits[b>>4])
		sb.WriteByte(digits[b&15])
	}
	return sb.String()
}

func hexVal(c byte) int {
	switch {
	case c >= '0' && c <= '9':
		return int(c - '0')
	case c >= 'a' && c <= 'f':
		return int(c-'a') + 10
	case c >= 'A' && c <= 'F':
		return int(c-'A') + 10
	}
	return -1
}

// storedHash reports whether the stored string has the hashed form
// ('*' followed by exactly 40 hex digits) and returns the 20 hash bytes.
func storedHash(stored string) ([]byte, bool) {
	if len(stored) != 41 || stored[0] != '*' {
		return nil, false
	}
	out := make([]byte, 20)
	for i := 0; i < 20; i++ {
		h, l := hexVal(stored[1+2*i]), hexVal(stored[2+2*i])
		if h < 0 || l < 0 {
			return nil, false
		}
		out[i] = byte(h<<4 | l)
	}
	return out, true
}

// refVerifyNativeHashed is the server side of mysql_native_password.
func refVerifyNativeHashed(resp, salt, h2 []byte) bool {
	if len(resp) != 20 || len(h2) != 20 {
		return false
	}
	m := sha1.Sum(cat(salt, h2))
	s1 := xorBytes(resp, m[:])
	got := sha1.Sum(s1)
	return string(got[:]) == string(h2)
}
