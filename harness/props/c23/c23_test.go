//go:build verif

// C23 Keep-session clients stay pinned to their backend connections.
//
// Namespace with keep-session on. Histories of statements on 1-3 slices,
// SET @v / SET variable, BEGIN / COMMIT / ROLLBACK / autocommit, COM_PING,
// namespace configuration changes (prepare + commit of the same name through
// the real reload path) and disconnects are generated up front and interpreted
// one command at a time against a live proxy with simulated backends. The
// oracle reads the backends' event logs (which connection got which tagged
// statement, which connections were closed) and the exported pool counters of
// every namespace generation.
package c23

import (
	"fmt"
	"os"
	"sort"
	"strings"
	"testing"
	"time"

	"pgregory.net/rapid"

	"verifharness/internal/fakemysql"
	"verifharness/internal/pbt"
	"verifharness/internal/proxyfix"
	sh "verifharness/internal/sesshist"
)

type model struct {
	alive   bool
	txOpen  bool // BEGIN / START TRANSACTION without COMMIT / ROLLBACK
	ac0     bool
	pins    map[string]sh.ConnKey // slice -> pinned connection
	pinGen  int                   // namespace generation the pins belong to
	pending bool                  // the namespace changed since this client's last command
	// state when the namespace changed
	inTxAtChange bool
	ac0AtChange  bool
	// fresh: the client has not yet run a statement since its pins were dropped by a configuration change
	fresh bool
	// doomed: the first command after a configuration change made outside a transaction was BEGIN / START TRANSACTION /
	// SET autocommit=0; the proxy answers OK and then closes the session (second symptom of C23-F1)
	doomed int
}

func genCase(t *rapid.T) sh.Case {
	return sh.Gen(t, sh.Profile{MinCmds: 10, MaxCmds: 28, KeepSession: 1, Reload: true, ReloadWeight: 16, Disconnects: true, Ping: true})
}

func genCaseThorough(t *rapid.T) sh.Case {
	return sh.Gen(t, sh.Profile{MinCmds: 10, MaxCmds: 55, KeepSession: 1, Reload: true, ReloadWeight: 16, Disconnects: true, Ping: true})
}

func checkCase(c sh.Case) (o pbt.Outcome) {
	c.KeepSession = true
	c.MaxExecMs, c.StallMs = 0, 0
	for i := range c.Cmds {
		c.Cmds[i].F = nil
	}
	tr, live := sh.RunLive(c, sh.Options{ProbeCloseOnErr: 20 * time.Second,
		ProbeCloseIf: func(msg string) bool { return strings.Contains(msg, "namespace changed in transaction") }})
	defer live.Close()
	if os.Getenv("VERIF_TRACE") != "" {
		fmt.Println(sh.Dump(tr))
	}
	if tr.SetupErr != "" {
		o.Skip = "fixture: " + strings.SplitN(tr.SetupErr, ":", 2)[0]
		return
	}
	cls := sh.ClassifyConns(tr.AllEvents)
	nsess := len(c.RWSplit)
	ms := make([]*model, nsess)
	for i := range ms {
		ms[i] = &model{alive: true, pins: map[string]sh.ConnKey{}, doomed: -1}
	}
	lab := map[string]bool{}
	lab[fmt.Sprintf("slices_%d", c.Slices)] = true
	fail := func(st sh.Step, f string, a ...interface{}) {
		if o.Violation == "" {
			o.Violation = fmt.Sprintf("step %d (session %d, %s %q): ", st.Idx, st.Cmd.S, st.Cmd.K, st.SQL) + fmt.Sprintf(f, a...)
		}
	}
	// connections that must be closed at the backend by the end (dropped pins)
	mustClose := map[sh.ConnKey]string{}
	owner := func(k sh.ConnKey, except int) int {
		for i, m := range ms {
			if i == except || !m.alive {
				continue
			}
			for _, p := range m.pins {
				if p == k {
					return i
				}
			}
		}
		return -1
	}
	dropPins := func(m *model, why string, st sh.Step) {
		for _, p := range m.pins {
			mustClose[p] = fmt.Sprintf("%s at step %d", why, st.Idx)
		}
		m.pins = map[string]sh.ConnKey{}
	}
	gen := 0
	newPins := map[string]sh.ConnKey{} // pins created by the current step
	knownF1 := ""
	body := func(st sh.Step, s int, m *model, evs []fakemysql.Event, disconnect bool) {
		if st.IOErr != "" {
			fail(st, "the proxy dropped the client without a configuration change inside a transaction or an injected fault (%s)", st.IOErr)
			return
		}
		// nothing a client does may land on a connection pinned by another client
		for _, e := range evs {
			if ow := owner(sh.Key(e), s); ow >= 0 {
				fail(st, "backend command %q ran on %s, which is pinned by session %d", e.SQL, sh.Key(e), ow)
			}
		}
		switch {
		case disconnect:
			if !st.ProxyClosed {
				o.Skip = "proxy did not close the client socket within the deadline"
				return
			}
			if len(m.pins) > 0 {
				lab["disconnect_with_pins"] = true
			}
			m.alive = false
			dropPins(m, "client disconnected", st)
		case sh.IsStmt(st.Cmd.K):
			if !st.OK {
				// no fault is injected: a failing statement comes from the environment (slow handshake, pool wait) and may
				// or may not have pinned connections on the way
				o.Skip = "a statement failed without an injected fault"
				return
			}
			n := 0
			for _, e := range evs {
				if e.Kind != "query" || !sh.HasTag(e.SQL, st.Tag) {
					continue
				}
				n++
				k := sh.Key(e)
				if p, ok := m.pins[e.Slice]; ok {
					if p != k {
						fail(st, "statement ran on %s but the client is pinned to %s on %s since its last configuration change", k, p, e.Slice)
					} else {
						lab["statement_reused_pin"] = true
					}
				} else {
					if why, was := mustClose[k]; was {
						fail(st, "statement ran on %s, a connection that had to be dropped (%s)", k, why)
					}
					m.pins[e.Slice] = k
					m.pinGen = gen
					newPins[e.Slice] = k
				}
			}
			if n == 0 {
				fail(st, "statement succeeded but no backend received it")
			}
			if len(m.pins) > 1 {
				lab["pins_on_several_slices"] = true
			}
			if m.txOpen || m.ac0 {
				lab["statement_inside_tx"] = true
			}
		case st.Cmd.K == sh.KPing:
			for _, e := range st.Events {
				if e.Kind != "ping" || cls[sh.Key(e)] != "session" {
					continue
				}
				pinned := false
				for _, p := range m.pins {
					if p == sh.Key(e) {
						pinned = true
					}
				}
				if !pinned {
					fail(st, "COM_PING pinged %s, which is not one of the client's pinned connections", sh.Key(e))
				}
				lab["ping_reached_pin"] = true
			}
		case st.Cmd.K == sh.KBegin || st.Cmd.K == sh.KStart:
			if st.OK {
				m.txOpen = true
			}
		case st.Cmd.K == sh.KCommit || st.Cmd.K == sh.KRollback:
			if st.OK {
				m.txOpen = false
			}
		case st.Cmd.K == sh.KAc0:
			if st.OK {
				m.ac0 = true
			}
		case st.Cmd.K == sh.KAc1:
			if st.OK {
				m.ac0, m.txOpen = false, false
			}
		case st.Cmd.K == sh.KSetUser:
			lab["set_user_variable"] = true
		}
	}
	for _, st := range tr.Steps {
		if o.Violation != "" {
			break
		}
		if st.Cmd.K == sh.KReload {
			gen = st.Gen
			for _, m := range ms {
				if m.alive && !m.pending {
					m.pending = true
					m.inTxAtChange, m.ac0AtChange = m.txOpen, m.ac0
				}
			}
			// the change itself must not touch the clients' connections
			continue
		}
		if st.NoSession {
			continue
		}
		s := st.Cmd.S
		m := ms[s]
		if strings.Contains(st.IOErr, "timeout") {
			// no answer within the client deadline: a slow machine cannot be told from a hung proxy
			o.Skip = "the proxy did not answer within the client deadline"
			return
		}
		newPins = map[string]sh.ConnKey{}
		evs := sh.SessionEvents(st.Events, cls)
		disconnect := st.Cmd.K == sh.KQuit || st.Cmd.K == sh.KDrop || st.Cmd.K == sh.KDropFlight
		// second symptom of C23-F1: the session was closed right after its OK-answered BEGIN / SET autocommit=0
		if m.doomed >= 0 && st.IOErr != "" && (strings.Contains(st.IOErr, "EOF") || strings.Contains(st.IOErr, "reset") || strings.Contains(st.IOErr, "broken pipe")) {
			if knownF1 == "" {
				knownF1 = fmt.Sprintf("step %d (session %d, %s %q): the proxy dropped the client (%s): the namespace changed while it was outside a transaction, its next command (step %d, entering a transaction) was answered OK and then the session was closed", st.Idx, s, st.Cmd.K, st.SQL, st.IOErr, m.doomed)
			}
			lab["disconnected_after_ok_begin_following_change"] = true
			m.alive, m.pending = false, false
			dropPins(m, "client disconnected by the proxy", st)
		}
		// first command after a configuration change
		if m.alive && m.pending && !disconnect {
			m.pending = false
			switch {
			case m.inTxAtChange:
				// inside a transaction: error, then disconnected
				lab["change_inside_tx"] = true
				o.NonTrivial = true
				if st.OK {
					fail(st, "the namespace changed while this keep-session client was inside a transaction, but its next command succeeded instead of failing")
					break
				}
				if st.Err == nil {
					fail(st, "the namespace changed while this keep-session client was inside a transaction; it was disconnected without an error (%s)", st.IOErr)
					break
				}
				if st.ServedAfterErr {
					fail(st, "the namespace changed while this keep-session client was inside a transaction; it got %v but was not disconnected: 20 s later the session still answered a COM_PING", st.Err)
					break
				}
				if !st.ProxyClosed {
					// neither closed nor serving within the deadline: a late close cannot be told from a hung session
					o.Skip = "after the error the proxy neither closed the client socket nor answered a ping within the deadline"
					return
				}
				m.alive = false
				dropPins(m, "client disconnected after a configuration change inside a transaction", st)
			case m.ac0AtChange && !st.OK && (st.ProxyClosed || st.IOErr != ""):
				// autocommit off, no explicit transaction: the proxy treats it as inside a transaction; the property allows either reading
				lab["change_with_autocommit_off_disconnected"] = true
				o.NonTrivial = true
				m.alive = false
				dropPins(m, "client disconnected after a configuration change with autocommit off", st)
			default:
				lab["change_outside_tx"] = true
				if len(m.pins) > 0 {
					lab["change_outside_tx_with_pins"] = true
				}
				o.NonTrivial = true
				if st.IOErr != "" {
					fail(st, "the namespace changed outside a transaction, but the client was disconnected (%s)", st.IOErr)
					break
				}
				dropPins(m, "pins dropped after a configuration change outside a transaction", st)
				m.pinGen = gen
				m.fresh = true
				if st.OK && (st.Cmd.K == sh.KBegin || st.Cmd.K == sh.KStart || st.Cmd.K == sh.KAc0) {
					m.doomed = st.Idx
				}
			}
		}
		wasFresh := m.fresh && !(m.txOpen || m.ac0)
		if m.alive && o.Violation == "" {
			body(st, s, m, evs, disconnect)
		}
		if o.Skip != "" {
			return
		}
		// the pools of every generation hand out exactly the pinned connections
		if o.Violation == "" {
			want := map[string]int64{}
			for _, om := range ms {
				if !om.alive {
					continue
				}
				for sl := range om.pins {
					name := sl + "/master"
					if om.pinGen != gen {
						name = fmt.Sprintf("gen%d:%s", om.pinGen, name)
					}
					want[name]++
				}
			}
			bad := ""
			for _, p := range append(append([]sh.PoolStat{}, st.Pools...), st.OldPools...) {
				if p.InUse != want[p.Name] {
					bad = fmt.Sprintf("pool %s has InUse=%d but %d connection(s) of it are pinned (%s)", p.Name, p.InUse, want[p.Name], describe(ms))
					break
				}
			}
			if bad != "" && wasFresh && len(newPins) > 0 {
				// C23-F1: the connections pinned by the first statement after a configuration change (outside a
				// transaction) are dropped again at the end of that very command. Classified only if exactly those
				// pins are missing from the pools; the model then follows the proxy so that the search goes on.
				exact := true
				for _, p := range append(append([]sh.PoolStat{}, st.Pools...), st.OldPools...) {
					w := want[p.Name]
					if _, mine := newPins[p.Slice]; mine && p.Role == "master" && !strings.HasPrefix(p.Name, "gen") {
						w--
					}
					if p.InUse != w {
						exact = false
					}
				}
				if exact {
					if knownF1 == "" {
						knownF1 = fmt.Sprintf("step %d (session %d, %s %q): %s [first statement after the configuration change; its new connection(s) were released again at the end of the command]", st.Idx, s, st.Cmd.K, st.SQL, bad)
					}
					for sl, k := range newPins {
						mustClose[k] = fmt.Sprintf("pinned by the first statement after a configuration change and dropped again at step %d", st.Idx)
						delete(m.pins, sl)
					}
					lab["first_statement_after_change_unpinned"] = true
					bad = ""
				}
			}
			if bad != "" {
				fail(st, "%s", bad)
			}
		}
		if sh.IsStmt(st.Cmd.K) && st.OK {
			m.fresh = false
		}
	}
	// dropped pins must be gone at the backend (the proxy is idle now; a connection still open will stay open)
	if o.Violation == "" {
		var keys []string
		byStr := map[string]sh.ConnKey{}
		for k := range mustClose {
			keys = append(keys, k.String())
			byStr[k.String()] = k
		}
		sort.Strings(keys)
		for _, ks := range keys {
			k := byStr[ks]
			if !live.WaitClosed(k, 15*time.Second) {
				o.Violation = fmt.Sprintf("backend connection %s is still open although it had to be released (%s)", k, mustClose[k])
				break
			}
		}
		if len(keys) > 0 {
			lab["dropped_pins_closed"] = true
		}
	}
	if o.Violation == "" && knownF1 != "" {
		o.Known, o.KnownWhat = "C23-F1", knownF1
	}
	for l := range lab {
		o.Labels = append(o.Labels, l)
	}
	sort.Strings(o.Labels)
	return
}

func describe(ms []*model) string {
	var parts []string
	for i, m := range ms {
		var hs []string
		for sl, h := range m.pins {
			hs = append(hs, fmt.Sprintf("%s=%s", sl, h))
		}
		sort.Strings(hs)
		parts = append(parts, fmt.Sprintf("s%d{alive=%v tx=%v ac0=%v gen=%d pending=%v %s}", i, m.alive, m.txOpen, m.ac0, m.pinGen, m.pending, strings.Join(hs, ",")))
	}
	return strings.Join(parts, " ")
}

const rule = "keep-session namespace, 1-3 clients, 1-3 slices: statements on 1-3 slices, SET @v / SET variable, BEGIN / COMMIT / ROLLBACK / SET autocommit / savepoints, COM_PING, namespace configuration change (real prepare+commit of the same name), COM_QUIT / FIN disconnects; non-trivial = a client issues a command after a configuration change"

func TestC23Pinning(t *testing.T) {
	if _, err := proxyfix.Shared(); err != nil {
		t.Fatalf("fixture: the shared proxy did not start: %v", err) // inconclusive, not a violation
	}
	gen := genCase
	if pbt.Tier() == "thorough" {
		gen = genCaseThorough
	}
	pbt.Run(t, pbt.Spec{ID: "C23", Sub: "pinning", Quick: 120, Thorough: 800, Rule: rule, Floor: 0.5}, gen, checkCase)
}
