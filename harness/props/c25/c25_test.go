//go:build verif

// C25 Replica selection follows weights, health and locality.
//
// Sub-checks (all through Slice.GetSlaveConn on a DBInfo whose balancers were
// built by DBInfo.InitBalancers; pools are internal/fakepool):
//
//	window      all replicas up: every run of W = sum(w/gcd) consecutive
//	            selections contains replica i exactly w_i/gcd times (sliding
//	            window over 3W selections), for every policy, from any start value
//	            of the round-robin counter (hook backend.VerifSeekBalancers).
//	health      histories of status flips, counter seeks and selections: a
//	            zero-weight replica is never picked, a down replica is never picked
//	            while an eligible one is up, force-local never returns a remote
//	            replica, prefer-local returns a remote one only when no local
//	            replica can serve, and a selection succeeds whenever an eligible
//	            replica exists.
//	concurrent  2-16 goroutines select m*W times in total: the multiset of picks
//	            is exactly m*w_i/gcd per replica.
package c25

import (
	"fmt"
	"sync"
	"testing"

	"github.com/XiaoMi/Gaea/backend"
	"github.com/XiaoMi/Gaea/log"
	"pgregory.net/rapid"
	"verifharness/internal/fakepool"
	"verifharness/internal/pbt"
)

func init() { log.SetGlobalLogger(fakepool.NullLogger{}) }

// datacenter tags: "" (untagged / proxy without datacenter) and names where one
// is a prefix of another, so that only exact equality counts as local.
var dcNames = []string{"bj", "bj2", "", "c3", "c31"}

type nodeSpec struct {
	W  int  `json:"w"`  // weight 0-8
	DC int  `json:"dc"` // index into dcNames
	Up bool `json:"up"`
}

type cluster struct {
	ProxyDC int        `json:"proxy_dc"` // index into dcNames
	Nodes   []nodeSpec `json:"nodes"`
	Policy  int        `json:"policy"` // 0 closed, 1 prefer local, 2 force local
}

func genCluster(t *rapid.T, allUp bool) cluster {
	var c cluster
	c.ProxyDC = rapid.SampledFrom([]int{0, 0, 1, 2, 2, 3, 4}).Draw(t, "proxy_dc")
	c.Policy = rapid.IntRange(0, 2).Draw(t, "policy")
	n := rapid.SampledFrom([]int{1, 2, 2, 3, 3, 3, 4, 4, 5, 6}).Draw(t, "n")
	dcMode := rapid.IntRange(0, 5).Draw(t, "dc_mode") // 0 all local, 1 all remote, 2-5 mixed
	wMode := rapid.IntRange(0, 5).Draw(t, "w_mode")
	mult := rapid.IntRange(2, 4).Draw(t, "mult")
	for i := 0; i < n; i++ {
		var s nodeSpec
		switch wMode {
		case 0: // equal weights
			s.W = mult
		case 1, 2: // multiples of a common factor (gcd > 1)
			s.W = mult * rapid.IntRange(1, 8/mult).Draw(t, "wk")
		default:
			s.W = rapid.IntRange(1, 8).Draw(t, "w")
		}
		if rapid.IntRange(0, 7).Draw(t, "zero") == 0 {
			s.W = 0
		}
		switch dcMode {
		case 0:
			s.DC = c.ProxyDC
		case 1:
			s.DC = (c.ProxyDC + 1 + rapid.IntRange(0, len(dcNames)-2).Draw(t, "dc_other")) % len(dcNames)
		case 2: // the proxy's tag and the tags that share a prefix with it (bj/bj2, c3/c31, ""/anything)
			partner := map[int]int{0: 1, 1: 0, 3: 4, 4: 3}
			if p, ok := partner[c.ProxyDC]; ok {
				s.DC = rapid.SampledFrom([]int{c.ProxyDC, p, p, 2}).Draw(t, "dc_prefix")
			} else { // empty proxy tag: every name has it as a prefix
				s.DC = rapid.IntRange(0, len(dcNames)-1).Draw(t, "dc_any")
			}
		default:
			s.DC = rapid.IntRange(0, len(dcNames)-1).Draw(t, "dc")
		}
		s.Up = allUp || rapid.IntRange(0, 3).Draw(t, "up") != 0
		c.Nodes = append(c.Nodes, s)
	}
	return c
}

func genStart(t *rapid.T, span int) uint32 {
	switch rapid.IntRange(0, 5).Draw(t, "start_kind") {
	case 0:
		return 0
	case 1:
		return uint32(rapid.IntRange(0, 1000).Draw(t, "start"))
	case 2, 3: // the last values before the counter wraps around
		return uint32(0xFFFFFFFF) - uint32(rapid.IntRange(0, span+2).Draw(t, "before_wrap"))
	default:
		return rapid.Uint32().Draw(t, "start")
	}
}

// ---- reference, from the statement ----

func gcd(a, b int) int {
	for b != 0 {
		a, b = b, a%b
	}
	return a
}

func (c cluster) local(i int) bool { return c.Nodes[i].DC == c.ProxyDC }

// eligible returns the replicas the policy allows to serve now: positive weight,
// up, and (force) local / (prefer) local when a local one can serve, else remote.
func (c cluster) eligible(up []bool) []int {
	var loc, rem []int
	for i, n := range c.Nodes {
		if n.W <= 0 || !up[i] {
			continue
		}
		if c.local(i) {
			loc = append(loc, i)
		} else {
			rem = append(rem, i)
		}
	}
	switch c.Policy {
	case 2:
		return loc
	case 1:
		if len(loc) > 0 {
			return loc
		}
		return rem
	}
	return append(loc, rem...)
}

// quota returns the normalized weight of every eligible replica and their total W.
func (c cluster) quota(el []int) (map[int]int, int) {
	g := 0
	for _, i := range el {
		g = gcd(g, c.Nodes[i].W)
	}
	q := map[int]int{}
	w := 0
	for _, i := range el {
		q[i] = c.Nodes[i].W / g
		w += q[i]
	}
	return q, w
}

func (c cluster) nonTrivial(up []bool) bool {
	g, first, unequal, mixed, down := 0, -1, false, false, false
	for i, n := range c.Nodes {
		if !up[i] {
			down = true
		}
		if n.DC != c.Nodes[0].DC {
			mixed = true
		}
		if n.W > 0 {
			g = gcd(g, n.W)
			if first < 0 {
				first = n.W
			} else if n.W != first {
				unequal = true
			}
		}
	}
	return (unequal && g > 1) || down || mixed
}

// ---- system under test ----

type sut struct {
	slice *backend.Slice
	db    *backend.DBInfo
	index map[*fakepool.Pool]int
}

func build(c cluster) (*sut, error) {
	s := &sut{index: map[*fakepool.Pool]int{}}
	proxyDC := dcNames[c.ProxyDC]
	s.slice = &backend.Slice{Namespace: "c25", ProxyDatacenter: proxyDC}
	s.slice.Cfg.Name = backend.DefaultSlice
	s.db = &backend.DBInfo{}
	for i, n := range c.Nodes {
		p := fakepool.New(fmt.Sprintf("10.0.0.%d:3306", i+1), &fakepool.Options{Datacenter: dcNames[n.DC]})
		s.index[p] = i
		st := backend.StatusUp
		if !n.Up {
			st = backend.StatusDown
		}
		s.db.Nodes = append(s.db.Nodes, &backend.NodeInfo{Address: p.Addr(), Datacenter: dcNames[n.DC], Weight: n.W, ConnPool: p, Status: st})
	}
	if err := s.db.InitBalancers(proxyDC); err != nil {
		return nil, err
	}
	return s, nil
}

// pick performs one selection; -1 means GetSlaveConn returned an error.
func (s *sut) pick(policy int) (int, error) {
	pc, err := s.slice.GetSlaveConn(s.db, policy)
	if err != nil {
		return -1, err
	}
	if pc == nil {
		return -1, fmt.Errorf("nil connection without error")
	}
	fc, ok := pc.(*fakepool.Conn)
	if !ok {
		return -1, fmt.Errorf("foreign connection %T", pc)
	}
	pc.Recycle()
	return s.index[fc.Pool()], nil
}

func pow2(n int) bool { return n > 0 && n&(n-1) == 0 }

// ---- window ----

type windowCase struct {
	Cluster cluster `json:"cluster"`
	Start   uint32  `json:"start"`
}

func genWindow(t *rapid.T) windowCase {
	c := windowCase{Cluster: genCluster(t, true)}
	c.Start = genStart(t, 150)
	return c
}

func checkWindow(c windowCase) (o pbt.Outcome) {
	cl := c.Cluster
	up := make([]bool, len(cl.Nodes))
	for i := range up {
		up[i] = true
		if !cl.Nodes[i].Up {
			o.Skip = "window sub-check needs all replicas up"
			return
		}
	}
	o.NonTrivial = cl.nonTrivial(up)
	o.Labels = append(o.Labels, fmt.Sprintf("policy_%d", cl.Policy))
	s, err := build(cl)
	if err != nil {
		o.Violation = "InitBalancers: " + err.Error()
		return
	}
	el := cl.eligible(up)
	quota, W := cl.quota(el)
	backend.VerifSeekBalancers(s.db, c.Start)
	if len(el) == 0 {
		o.Labels = append(o.Labels, "no_eligible")
		for k := 0; k < 5; k++ {
			if got, _ := s.pick(cl.Policy); got >= 0 {
				o.Violation = fmt.Sprintf("replica %d (weight %d, local=%v) picked although the policy leaves no eligible replica", got, cl.Nodes[got].W, cl.local(got))
				return
			}
		}
		return
	}
	o.Labels = append(o.Labels, fmt.Sprintf("W_%02d", W))
	if !pow2(W) {
		o.Labels = append(o.Labels, "W_not_power_of_two")
	}
	n := 3 * W
	seq := make([]int, n)
	for k := 0; k < n; k++ {
		got, err := s.pick(cl.Policy)
		if err != nil {
			o.Violation = fmt.Sprintf("selection %d failed with all replicas up: %v", k, err)
			return
		}
		if _, ok := quota[got]; !ok {
			o.Violation = fmt.Sprintf("selection %d picked replica %d (weight %d, local=%v) which is not eligible under policy %d", k, got, cl.Nodes[got].W, cl.local(got), cl.Policy)
			return
		}
		seq[k] = got
	}
	// selection k follows counter value Start+1+k; the raw uint32 value passes 2^32 between selections jw and jw+1
	jw := int64(uint32(0xFFFFFFFE) - c.Start)
	if c.Start == 0xFFFFFFFF {
		jw = -10
	}
	if W > 1 && jw >= 0 && jw < int64(n)-1 {
		o.Labels = append(o.Labels, "start_within_3W_of_2^32")
	}
	cnt := map[int]int{}
	for k := 0; k < n; k++ {
		cnt[seq[k]]++
		if k >= W {
			cnt[seq[k-W]]--
		}
		if k < W-1 {
			continue
		}
		a := k - W + 1 // window [a, a+W)
		for _, i := range el {
			if cnt[i] != quota[i] {
				detail := fmt.Sprintf("selections %d..%d (counter values from %d) pick replica %d %d times, its normalized weight is %d of %d; window=%v",
					a, k, uint32(c.Start+1+uint32(a)), i, cnt[i], quota[i], W, seq[a:k+1])
				o.Violation = detail
				return
			}
		}
	}
	return
}

func TestC25Window(t *testing.T) {
	pbt.Run(t, pbt.Spec{ID: "C25", Sub: "window", Quick: 20000, Thorough: 100000,
		Rule: "1-6 replicas, all up, weights 0-8 (equal / multiples of a common factor / free), datacenter tags all-local, all-remote or mixed over {bj, bj2, c3, c31, empty} (prefix-related names; the proxy tag may be empty), three policies, counter start 0 / small / last values before 2^32 / uniform; 3W selections, every window of W checked; non-trivial = unequal weights with gcd>1 or mixed datacenters",
		Floor: 0.4}, genWindow, checkWindow)
}

// ---- health ----

type hop struct {
	K    string `json:"k"`              // sel | set | seek
	Node int    `json:"node,omitempty"` // set: node index (mod n)
	Up   bool   `json:"up,omitempty"`
	N    int    `json:"n,omitempty"`    // sel: how many selections
	Seek uint32 `json:"seek,omitempty"` // seek: counter value
}

type healthCase struct {
	Cluster cluster `json:"cluster"`
	Start   uint32  `json:"start"`
	Ops     []hop   `json:"ops"`
}

func genHealth(t *rapid.T) healthCase {
	c := healthCase{Cluster: genCluster(t, false)}
	c.Start = genStart(t, 60)
	nops := rapid.IntRange(1, 12).Draw(t, "nops")
	for i := 0; i < nops; i++ {
		switch rapid.IntRange(0, 5).Draw(t, "op") {
		case 0, 1:
			c.Ops = append(c.Ops, hop{K: "set", Node: rapid.IntRange(0, 5).Draw(t, "node"), Up: rapid.Bool().Draw(t, "up")})
		case 2:
			c.Ops = append(c.Ops, hop{K: "seek", Seek: genStart(t, 60)})
		default:
			c.Ops = append(c.Ops, hop{K: "sel", N: rapid.IntRange(1, 12).Draw(t, "n")})
		}
	}
	c.Ops = append(c.Ops, hop{K: "sel", N: rapid.IntRange(1, 12).Draw(t, "n_last")})
	return c
}

func checkHealth(c healthCase) (o pbt.Outcome) {
	cl := c.Cluster
	n := len(cl.Nodes)
	up := make([]bool, n)
	for i := range up {
		up[i] = cl.Nodes[i].Up
	}
	s, err := build(cl)
	if err != nil {
		o.Violation = "InitBalancers: " + err.Error()
		return
	}
	o.Labels = append(o.Labels, fmt.Sprintf("policy_%d", cl.Policy))
	backend.VerifSeekBalancers(s.db, c.Start)
	sawDown := false
	seen := map[string]bool{}
	label := func(l string) {
		if !seen[l] {
			seen[l] = true
			o.Labels = append(o.Labels, l)
		}
	}
	sel := 0
	for oi, op := range c.Ops {
		switch op.K {
		case "set":
			i := op.Node % n
			up[i] = op.Up
			if op.Up {
				s.db.Nodes[i].SetStatusUp()
			} else {
				s.db.Nodes[i].SetStatusDown()
			}
		case "seek":
			backend.VerifSeekBalancers(s.db, op.Seek)
		case "sel":
			for k := 0; k < op.N; k++ {
				sel++
				el := cl.eligible(up)
				localCan := false
				for i := range cl.Nodes {
					if !up[i] {
						sawDown = true
					}
					if cl.local(i) && up[i] && cl.Nodes[i].W > 0 {
						localCan = true
					}
				}
				got, err := s.pick(cl.Policy)
				where := fmt.Sprintf("op %d selection %d (states up=%v)", oi, sel, up)
				if got < 0 {
					if len(el) > 0 {
						o.Violation = fmt.Sprintf("%s: GetSlaveConn failed (%v) although replicas %v are up and eligible under policy %d", where, err, el, cl.Policy)
						return
					}
					label("none_eligible_error")
					continue
				}
				nd := cl.Nodes[got]
				switch {
				case nd.W <= 0:
					o.Violation = fmt.Sprintf("%s: zero-weight replica %d picked", where, got)
				case !up[got] && len(el) > 0:
					o.Violation = fmt.Sprintf("%s: down replica %d picked while %v are up and eligible", where, got, el)
				case !up[got]:
					label("down_replica_picked_with_none_eligible") // not forbidden by the statement
				case cl.Policy == 2 && !cl.local(got):
					o.Violation = fmt.Sprintf("%s: force-local picked remote replica %d (dc %q, proxy %q)", where, got, dcNames[nd.DC], dcNames[cl.ProxyDC])
				case cl.Policy == 1 && !cl.local(got) && localCan:
					o.Violation = fmt.Sprintf("%s: prefer-local picked remote replica %d (dc %q, proxy %q) although a local replica is up", where, got, dcNames[nd.DC], dcNames[cl.ProxyDC])
				}
				if o.Violation != "" {
					return
				}
				if cl.Policy == 1 && !cl.local(got) {
					label("prefer_local_fell_back_to_remote")
				}
				if len(el) < n {
					label("picked_with_some_ineligible")
				}
			}
		}
	}
	o.NonTrivial = sawDown || cl.nonTrivial(up)
	return
}

func TestC25Health(t *testing.T) {
	pbt.Run(t, pbt.Spec{ID: "C25", Sub: "health", Quick: 20000, Thorough: 100000,
		Rule: "1-6 replicas with weights 0-8, prefix-related datacenter tags (bj/bj2, c3/c31, empty), random up/down states, three policies; histories of status flips, counter seeks (incl. just before 2^32) and 1-12 selections; every pick judged against the eligible set of the statement; non-trivial = some replica down at a selection, or unequal weights with gcd>1, or mixed datacenters",
		Floor: 0.6}, genHealth, checkHealth)
}

// ---- concurrent ----

type concCase struct {
	Cluster    cluster `json:"cluster"`
	Start      uint32  `json:"start"`
	Goroutines int     `json:"goroutines"`
	Multiple   int     `json:"multiple"` // total selections = Multiple * W
}

func genConc(t *rapid.T) concCase {
	c := concCase{Cluster: genCluster(t, true)}
	c.Goroutines = rapid.IntRange(2, 16).Draw(t, "g")
	c.Multiple = rapid.IntRange(1, 12).Draw(t, "m")
	c.Start = genStart(t, 300)
	return c
}

func checkConc(c concCase) (o pbt.Outcome) {
	cl := c.Cluster
	up := make([]bool, len(cl.Nodes))
	for i := range up {
		up[i] = true
		if !cl.Nodes[i].Up {
			o.Skip = "concurrent sub-check needs all replicas up"
			return
		}
	}
	el := cl.eligible(up)
	if len(el) == 0 {
		o.Skip = "no eligible replica under the policy (covered by the window sub-check)"
		return
	}
	o.NonTrivial = cl.nonTrivial(up)
	s, err := build(cl)
	if err != nil {
		o.Violation = "InitBalancers: " + err.Error()
		return
	}
	quota, W := cl.quota(el)
	total := c.Multiple * W
	backend.VerifSeekBalancers(s.db, c.Start)
	g := c.Goroutines
	counts := make([][]int, g)
	errs := make([]error, g)
	var wg sync.WaitGroup
	startGate := make(chan struct{})
	for w := 0; w < g; w++ {
		share := total / g
		if w < total%g {
			share++
		}
		counts[w] = make([]int, len(cl.Nodes))
		wg.Add(1)
		go func(w, share int) {
			defer wg.Done()
			<-startGate
			for k := 0; k < share; k++ {
				got, err := s.pick(cl.Policy)
				if err != nil {
					errs[w] = err
					return
				}
				counts[w][got]++
			}
		}(w, share)
	}
	close(startGate)
	wg.Wait()
	for _, e := range errs {
		if e != nil {
			o.Violation = "concurrent selection failed with all replicas up: " + e.Error()
			return
		}
	}
	if W > 1 && uint64(c.Start)+uint64(total) >= 1<<32 {
		o.Labels = append(o.Labels, "start_within_total_of_2^32")
	}
	for i := range cl.Nodes {
		sum := 0
		for w := 0; w < g; w++ {
			sum += counts[w][i]
		}
		if sum != c.Multiple*quota[i] {
			detail := fmt.Sprintf("%d goroutines, %d = %d*W selections from counter %d: replica %d (weight %d) picked %d times, expected %d", g, total, c.Multiple, c.Start, i, cl.Nodes[i].W, sum, c.Multiple*quota[i])
			o.Violation = detail
			return
		}
	}
	return
}

func TestC25Concurrent(t *testing.T) {
	pbt.Run(t, pbt.Spec{ID: "C25", Sub: "concurrent", Quick: 4000, Thorough: 30000,
		Rule: "as window, with 2-16 goroutines performing m*W selections in total (m 1-12) through the same DBInfo; the multiset of picks must be exactly m*w_i/gcd; non-trivial = unequal weights with gcd>1 or mixed datacenters",
		Floor: 0.4}, genConc, checkConc)
}
