//go:build verif

// C16 Prepared statements are isolated and never reuse stale parameters.
//
// A history of prepare / send_long_data / execute (well-formed, malformed after
// a valid first parameter, failing on the backend) / reset / close commands over
// 1-3 statements is played by a raw client against the live proxy. A model keeps,
// per statement, the template and the long data pending for the next execution.
// Every execution that reaches the simulated backend must be the statement's
// template with exactly the values of that execution (long data in order for the
// long parameters), decided with the C15 reference lexer; commands on closed or
// unknown ids must be answered with an error.
package c16

import (
	"fmt"
	"strings"
	"sync/atomic"
	"testing"

	"pgregory.net/rapid"

	"verifharness/internal/fakemysql"
	"verifharness/internal/pbt"
	"verifharness/internal/proxyfix"
	"verifharness/internal/sqllex"
	"verifharness/internal/stmtfix"
)

const tag = "c16tag"

// ---- case ----

type op struct {
	Kind string `json:"kind"` // prepare | long | exec | exec_bad | exec_dead | reset | reset_dead | long_dead | close
	S    int    `json:"s"`    // statement selector (modulo the live / dead statements)
	// prepare
	Shape int `json:"shape,omitempty"`
	N     int `json:"n,omitempty"` // number of placeholders 1..3
	// long
	P     int    `json:"p,omitempty"` // parameter selector (modulo the statement's parameter count)
	Chunk []byte `json:"chunk,omitempty"`
	// exec / exec_bad
	Vals       []sqllex.Param `json:"vals,omitempty"` // 3 values; the first N are used
	Bad        string         `json:"bad,omitempty"`  // trunc2 | unknown_type | missing_types | short | no_bitmap | trunc2_temporal
	NoTypes    bool           `json:"no_types,omitempty"`
	BackendErr bool           `json:"backend_err,omitempty"` // the backend answers this execution with an error
}

type c16Case struct {
	Ops []op `json:"ops"`
}

// ---- generators ----

// genVals draws three values that identify the operation they belong to (seq),
// so that a value surviving from another execution or statement is recognisable.
func genVals(t *rapid.T, seq int) []sqllex.Param {
	vals := make([]sqllex.Param, 3)
	for k := range vals {
		name := fmt.Sprintf("o%d_v%d", seq, k)
		uniq := uint64(seq*10 + k + 1)
		switch stmtfix.Pick(t, name+"_k", 8) {
		case 0, 1:
			w := rapid.SampledFrom([]byte{sqllex.TLong, sqllex.TLongLong, sqllex.TShort}).Draw(t, name+"_it")
			vals[k] = sqllex.Param{Kind: "int", Type: w, Bits: uniq}
		case 2:
			vals[k] = sqllex.Param{Kind: "int", Type: sqllex.TTiny, Unsigned: true, Bits: uniq % 250}
		case 3, 4:
			vals[k] = sqllex.Param{Kind: "str", Type: rapid.SampledFrom([]byte{sqllex.TVarString, sqllex.TBlob, sqllex.TString}).Draw(t, name+"_st"),
				Bytes: []byte(fmt.Sprintf("v%d_%d", seq, k))}
		case 5:
			vals[k] = sqllex.Param{Kind: "str", Type: sqllex.TVarString, Bytes: append([]byte(fmt.Sprintf("q%d_%d", seq, k)), stmtfix.GenBytes(t, name+"_b")...)}
			if len(vals[k].Bytes) > 200 {
				vals[k].Bytes = vals[k].Bytes[:200]
			}
		case 6:
			vals[k] = sqllex.Param{Kind: "datetime", Type: sqllex.TDatetime, Len: 7, Year: 2000 + seq%100, Month: 1 + k, Day: 1 + seq%28, Hour: seq % 24, Minute: k, Second: seq % 60}
		default:
			if rapid.Bool().Draw(t, name+"_nb") {
				vals[k] = sqllex.Param{Kind: "null_bitmap", Type: sqllex.TVarString}
			} else {
				vals[k] = sqllex.Param{Kind: "double", Type: sqllex.TDouble, Bits: 0x4000000000000000 + uniq<<32}
			}
		}
	}
	return vals
}

func genChunk(t *rapid.T, seq int) []byte {
	switch stmtfix.Pick(t, fmt.Sprintf("o%d_ck", seq), 5) {
	case 0:
		return []byte{}
	case 1:
		return append([]byte(fmt.Sprintf("L%d:", seq)), stmtfix.GenBytes(t, fmt.Sprintf("o%d_cb", seq))...)
	}
	return []byte(fmt.Sprintf("L%d;", seq))
}

var badKinds = []string{"trunc2", "trunc2", "trunc2", "unknown_type", "unknown_type", "missing_types", "short", "no_bitmap"}

func genCase(t *rapid.T) c16Case {
	var c c16Case
	maxOps := 25
	if pbt.Tier() == "thorough" {
		maxOps = 40
	}
	seq := 0
	add := func(o op) {
		c.Ops = append(c.Ops, o)
		seq++
	}
	prep := func() {
		add(op{Kind: "prepare", Shape: stmtfix.Pick(t, fmt.Sprintf("o%d_shape", seq), 3), N: rapid.SampledFrom([]int{2, 2, 3, 1, 2}).Draw(t, fmt.Sprintf("o%d_n", seq))})
	}
	exec := func(s int) {
		add(op{Kind: "exec", S: s, Vals: genVals(t, seq), NoTypes: stmtfix.Pick(t, fmt.Sprintf("o%d_nt", seq), 5) == 0,
			BackendErr: stmtfix.Pick(t, fmt.Sprintf("o%d_be", seq), 12) == 0})
	}
	bad := func(s int) {
		k := badKinds[stmtfix.Pick(t, fmt.Sprintf("o%d_bad", seq), len(badKinds))]
		if stmtfix.Pick(t, fmt.Sprintf("o%d_tt", seq), 40) == 0 {
			k = "trunc2_temporal"
		}
		add(op{Kind: "exec_bad", S: s, Vals: genVals(t, seq), Bad: k})
	}
	long := func(s int) {
		add(op{Kind: "long", S: s, P: rapid.IntRange(0, 2).Draw(t, fmt.Sprintf("o%d_p", seq)), Chunk: genChunk(t, seq)})
	}
	np := rapid.IntRange(1, 3).Draw(t, "prepares")
	for i := 0; i < np; i++ {
		prep()
	}
	n := rapid.IntRange(3, maxOps-np).Draw(t, "nops")
	for len(c.Ops) < np+n {
		s := rapid.IntRange(0, 2).Draw(t, fmt.Sprintf("o%d_s", seq))
		switch stmtfix.Pick(t, fmt.Sprintf("o%d_kind", seq), 18) {
		case 0, 1, 2:
			exec(s)
		case 3, 4: // failed execution followed by a good one on the same statement
			bad(s)
			if rapid.Bool().Draw(t, fmt.Sprintf("o%d_between", seq)) {
				long(s)
			}
			exec(s)
		case 5:
			bad(s)
		case 6, 7:
			long(s)
		case 8: // interleaved long data of two statements
			s2 := s + 1
			long(s)
			long(s2)
			long(s)
			if rapid.Bool().Draw(t, fmt.Sprintf("o%d_rs", seq)) {
				add(op{Kind: "reset", S: s2})
			}
			exec(s2)
			exec(s)
		case 9:
			add(op{Kind: "reset", S: s})
		case 10:
			add(op{Kind: "close", S: s})
			if rapid.Bool().Draw(t, fmt.Sprintf("o%d_reprep", seq)) {
				prep()
			}
		case 11:
			prep()
		case 12:
			add(op{Kind: "exec_dead", S: s, Vals: genVals(t, seq)})
		case 13:
			add(op{Kind: rapid.SampledFrom([]string{"reset_dead", "long_dead"}).Draw(t, fmt.Sprintf("o%d_dk", seq)), S: s, Chunk: []byte("dead")})
		case 14: // long data, reset, then execute: the long data must be gone
			long(s)
			add(op{Kind: "reset", S: s})
			exec(s)
		case 15: // same types twice: the second execute may omit the type block
			exec(s)
			prev := c.Ops[len(c.Ops)-1]
			add(op{Kind: "exec", S: s, Vals: retag(prev.Vals, seq), NoTypes: true})
		default:
			long(s)
			exec(s)
		}
	}
	return c
}

// retag returns values of the same types as vals but unique to operation seq.
func retag(vals []sqllex.Param, seq int) []sqllex.Param {
	out := append([]sqllex.Param{}, vals...)
	for k := range out {
		uniq := uint64(seq*10 + k + 1)
		switch out[k].Kind {
		case "int":
			out[k].Bits = uniq
			if out[k].Type == sqllex.TTiny {
				out[k].Bits = uniq % 250
			}
		case "str":
			out[k].Bytes = []byte(fmt.Sprintf("r%d_%d", seq, k))
		case "double":
			out[k].Bits = 0x4000000000000000 + uniq<<32
		case "datetime":
			out[k].Year, out[k].Day, out[k].Hour, out[k].Second = 2000+seq%100, 1+seq%28, seq%24, seq%60
		}
	}
	return out
}

// ---- model ----

type mstmt struct {
	id        uint32
	marker    string
	template  string
	n         int
	pending   map[int][]byte // long data per parameter since the last execution/reset
	hasLong   map[int]bool
	types     []byte // type block of the last well-formed execute carrying types (nil: unknown)
	failedAgo bool   // some failed execution since the last successful one (for the non-trivial rule)
}

func template(shape, n int, marker string) string {
	switch shape {
	case 0:
		s := "SELECT '" + tag + "', '" + marker + "'"
		for k := 0; k < n; k++ {
			s += ", ?"
		}
		return s
	case 1:
		cols := []string{"a", "b", "c"}
		return "INSERT INTO " + tag + " (k, " + strings.Join(cols[:n], ", ") + ") VALUES ('" + marker + "'" + strings.Repeat(", ?", n) + ")"
	}
	s := "UPDATE " + tag + " SET a = ? WHERE k = '" + marker + "'"
	for k := 1; k < n; k++ {
		s += fmt.Sprintf(" AND c%d = ?", k)
	}
	return s
}

func header(id uint32) []byte {
	return []byte{byte(id), byte(id >> 8), byte(id >> 16), byte(id >> 24), 0, 1, 0, 0, 0}
}

// buildExec builds a well-formed COM_STMT_EXECUTE payload; parameters with
// pending long data carry a BLOB type and no value.
func buildExec(id uint32, ps []sqllex.Param, long map[int]bool, withTypes bool) (payload []byte, types []byte) {
	p := header(id)
	bm := make([]byte, (len(ps)+7)/8)
	var vals []byte
	for i, pa := range ps {
		if long[i] {
			types = append(types, sqllex.TBlob, 0)
			continue
		}
		tp, uns, null, v := pa.Wire()
		if null {
			bm[i/8] |= 1 << (uint(i) % 8)
		}
		fl := byte(0)
		if uns {
			fl = 0x80
		}
		types = append(types, tp, fl)
		vals = append(vals, v...)
	}
	p = append(p, bm...)
	if withTypes {
		p = append(p, 1)
		p = append(p, types...)
	} else {
		p = append(p, 0)
	}
	return append(p, vals...), types
}

// buildBad builds a malformed payload; taints reports whether the first
// parameter is complete and valid before the defect (so a careless server
// would have bound it).
func buildBad(id uint32, ps []sqllex.Param, kind string) (payload []byte, taints bool) {
	n := len(ps)
	first := ps[0]
	if first.IsNull() {
		first = sqllex.Param{Kind: "int", Type: sqllex.TLong, Bits: 424242}
	}
	switch kind {
	case "short":
		return header(id)[:6], false
	case "no_bitmap":
		return header(id), false
	case "missing_types":
		p := append(header(id), make([]byte, (n+7)/8)...)
		return append(p, 1, sqllex.TLong), false
	}
	if n < 2 {
		p := append(header(id), make([]byte, (n+7)/8)...)
		return append(p, 1, sqllex.TLong), false // one parameter: nothing can precede the defect
	}
	p := append(header(id), make([]byte, (n+7)/8)...)
	p = append(p, 1)
	tp0, uns0, _, v0 := first.Wire()
	fl0 := byte(0)
	if uns0 {
		fl0 = 0x80
	}
	switch kind {
	case "unknown_type":
		p = append(p, tp0, fl0, 0x42, 0)
		for k := 2; k < n; k++ {
			p = append(p, sqllex.TLong, 0)
		}
		p = append(p, v0...)
		p = append(p, 1, 0, 0, 0, 2, 0, 0, 0)
		return p, true
	case "trunc2_temporal":
		p = append(p, tp0, fl0, sqllex.TDatetime, 0)
		for k := 2; k < n; k++ {
			p = append(p, sqllex.TLong, 0)
		}
		p = append(p, v0...)
		p = append(p, 7, 0xe8, 0x07, 1) // length 7 announced, 3 bytes present
		return p, true
	}
	// trunc2: the second value is cut short and nothing follows
	second := ps[1]
	if second.IsNull() {
		second = sqllex.Param{Kind: "str", Type: sqllex.TVarString, Bytes: []byte("cut")}
	}
	tp1, uns1, _, v1 := second.Wire()
	fl1 := byte(0)
	if uns1 {
		fl1 = 0x80
	}
	if second.Kind == "str" && len(second.Bytes) == 0 {
		v1 = []byte{3, 'x'}
	} else {
		v1 = v1[:len(v1)-1]
	}
	p = append(p, tp0, fl0, tp1, fl1)
	for k := 2; k < n; k++ {
		p = append(p, sqllex.TLong, 0)
	}
	p = append(p, v0...)
	p = append(p, v1...)
	return p, true
}

// sendLong sends COM_STMT_SEND_LONG_DATA followed by COM_PING and reports
// whether the server answered the long-data command with an ERR packet (the
// protocol defines no response; Gaea sends ERR on failure). No timing involved:
// the ping's OK packet is the fence.
func sendLong(e *stmtfix.Env, id uint32, param uint16, data []byte) (gotErr bool, lost error) {
	c := e.Conn
	if err := c.SendLongData(id, param, data); err != nil {
		return false, err
	}
	c.ResetSeq()
	if err := c.WritePacket([]byte{0x0e}); err != nil {
		return false, err
	}
	p, err := c.ReadPacket()
	if err != nil {
		return false, err
	}
	if len(p) > 0 && p[0] == 0xff {
		c.SetSeq(1)
		p2, err := c.ReadPacket()
		if err != nil {
			return true, err
		}
		if len(p2) == 0 || p2[0] != 0x00 {
			return true, fmt.Errorf("unexpected packet after long-data error: % x", p2)
		}
		return true, nil
	}
	if len(p) == 0 || p[0] != 0x00 {
		return false, fmt.Errorf("unexpected ping response % x", p)
	}
	return false, nil
}

// ---- oracle ----

func checkCase(c c16Case) (o pbt.Outcome) {
	var failNext int32
	handler := func(_ *fakemysql.Conn, sql string) fakemysql.Reply {
		if strings.Contains(sql, tag) && atomic.CompareAndSwapInt32(&failNext, 1, 0) {
			return fakemysql.Reply{Err: &fakemysql.SQLErr{Code: 1062, State: "23000", Message: "Duplicate entry (scripted)"}}
		}
		return fakemysql.Reply{Unhandled: true}
	}
	e, err := stmtfix.Open("c16", handler)
	if err != nil {
		o.Skip = "fixture: " + err.Error()
		atomic.AddInt64(&fixtureFailures, 1)
		return
	}
	defer e.Close()
	label := func(l string) { o.Labels = append(o.Labels, l) }

	var live, dead []*mstmt
	prepared := 0
	pick := func(list []*mstmt, s int) *mstmt {
		if len(list) == 0 {
			return nil
		}
		return list[((s%len(list))+len(list))%len(list)]
	}
	pendingStmts := func() int {
		n := 0
		for _, st := range live {
			if len(st.hasLong) > 0 {
				n++
			}
		}
		return n
	}

	for oi, op := range c.Ops {
		switch op.Kind {
		case "prepare":
			if len(live) >= 3 {
				label("prepare_skipped_three_live")
				continue
			}
			n := op.N
			if n < 1 || n > 3 {
				n = 2
			}
			marker := fmt.Sprintf("s%d", prepared)
			prepared++
			tm := template(op.Shape%3, n, marker)
			st, perr, err := e.Conn.Prepare(tm)
			if err != nil {
				o.Skip = "transport error on prepare: " + err.Error()
				return
			}
			if perr != nil || int(st.Params) != n {
				o.Violation = fmt.Sprintf("op %d: prepare of %q rejected or wrong parameter count (%v, %+v)", oi, tm, perr, st)
				return
			}
			for _, other := range append(append([]*mstmt{}, live...), dead...) {
				if other.id == st.ID {
					o.Violation = fmt.Sprintf("op %d: prepare returned statement id %d which was already issued in this session", oi, st.ID)
					return
				}
			}
			live = append(live, &mstmt{id: st.ID, marker: "'" + marker + "'", template: tm, n: n, pending: map[int][]byte{}, hasLong: map[int]bool{}})
			label("prepare")

		case "long":
			st := pick(live, op.S)
			if st == nil {
				label("skipped_no_live_statement")
				continue
			}
			pi := op.P % st.n
			gotErr, lost := sendLong(e, st.id, uint16(pi), op.Chunk)
			if lost != nil {
				o.Skip = "transport error on send_long_data: " + lost.Error()
				return
			}
			if gotErr {
				// Gaea rejected long data for a live statement and a valid parameter index
				o.Violation = fmt.Sprintf("op %d: send_long_data(stmt %s, param %d) on a live statement was answered with an error", oi, st.marker, pi)
				return
			}
			st.pending[pi] = append(st.pending[pi], op.Chunk...)
			st.hasLong[pi] = true
			label("long_data")
			if pendingStmts() >= 2 {
				label("long_data_interleaved")
				o.NonTrivial = true
			}

		case "long_dead", "reset_dead", "exec_dead":
			var id uint32
			if d := pick(dead, op.S); d != nil && op.S%2 == 0 {
				id = d.id
				label(op.Kind + "_closed_id")
			} else {
				id = uint32(1000 + op.S)
				label(op.Kind + "_unknown_id")
			}
			switch op.Kind {
			case "long_dead":
				if _, lost := sendLong(e, id, 0, op.Chunk); lost != nil {
					o.Skip = "transport error on send_long_data: " + lost.Error()
					return
				}
			case "reset_dead":
				r, err := e.Conn.StmtReset(id)
				if err != nil {
					o.Skip = "transport error on reset: " + err.Error()
					return
				}
				if r.Err == nil {
					o.Violation = fmt.Sprintf("op %d: COM_STMT_RESET on closed/unknown statement id %d succeeded", oi, id)
					return
				}
			case "exec_dead":
				payload, _ := buildExec(id, op.Vals[:2], nil, true)
				e.NewQueries(tag)
				r, err := e.Conn.ExecuteRaw(payload)
				if err != nil {
					o.Skip = "transport error on execute: " + err.Error()
					return
				}
				if evs := e.NewQueries(tag); r.Err == nil || len(evs) > 0 {
					o.Violation = fmt.Sprintf("op %d: COM_STMT_EXECUTE on closed/unknown statement id %d: error=%v, statements reaching the backend=%d", oi, id, r.Err, len(evs))
					return
				}
			}

		case "reset":
			st := pick(live, op.S)
			if st == nil {
				label("skipped_no_live_statement")
				continue
			}
			r, err := e.Conn.StmtReset(st.id)
			if err != nil {
				o.Skip = "transport error on reset: " + err.Error()
				return
			}
			if r.Err != nil {
				o.Violation = fmt.Sprintf("op %d: COM_STMT_RESET on live statement %s failed: %v", oi, st.marker, r.Err)
				return
			}
			st.pending, st.hasLong = map[int][]byte{}, map[int]bool{}
			label("reset")

		case "close":
			st := pick(live, op.S)
			if st == nil {
				label("skipped_no_live_statement")
				continue
			}
			if err := e.Conn.StmtClose(st.id); err != nil {
				o.Skip = "transport error on close: " + err.Error()
				return
			}
			for i, x := range live {
				if x == st {
					live = append(live[:i:i], live[i+1:]...)
					break
				}
			}
			dead = append(dead, st)
			label("close")

		case "exec_bad":
			st := pick(live, op.S)
			if st == nil {
				label("skipped_no_live_statement")
				continue
			}
			if len(st.hasLong) > 0 {
				label("bad_skipped_pending_long_data") // expected state would be ambiguous
				continue
			}
			payload, taints := buildBad(st.id, op.Vals[:st.n], op.Bad)
			e.NewQueries(st.marker)
			r, err := e.Conn.ExecuteRaw(payload)
			evs := e.NewQueries(st.marker)
			if err != nil {
				label("malformed_execute_connection_closed")
				label("malformed_execute_connection_closed_" + op.Bad)
				if len(evs) > 0 {
					o.Violation = fmt.Sprintf("op %d: malformed execute (%s) closed the connection but %q reached the backend", oi, op.Bad, evs[0].SQL)
					return
				}
				return // the session is gone; nothing more to observe
			}
			if r.Err == nil {
				label("malformed_execute_accepted")
				label("malformed_execute_accepted_" + op.Bad)
				st.types, st.failedAgo = nil, false
				continue
			}
			if len(evs) > 0 {
				o.Violation = fmt.Sprintf("op %d: malformed execute (%s) was answered with an error but %q reached the backend", oi, op.Bad, evs[0].SQL)
				return
			}
			label("malformed_" + op.Bad)
			st.types = nil
			st.failedAgo = true
			if taints {
				label("malformed_after_valid_first_parameter")
			}

		case "exec":
			st := pick(live, op.S)
			if st == nil {
				label("skipped_no_live_statement")
				continue
			}
			vals := append([]sqllex.Param{}, op.Vals[:st.n]...)
			want := append([]sqllex.Param{}, vals...)
			for i := range want {
				if st.hasLong[i] {
					want[i] = sqllex.Param{Kind: "str", Type: sqllex.TBlob, Bytes: st.pending[i]}
				}
			}
			payload, types := buildExec(st.id, vals, st.hasLong, true)
			if op.NoTypes && st.types != nil && string(st.types) == string(types) {
				payload, _ = buildExec(st.id, vals, st.hasLong, false)
				label("execute_without_type_block")
			}
			if op.BackendErr {
				atomic.StoreInt32(&failNext, 1)
			}
			e.NewQueries(st.marker)
			r, err := e.Conn.ExecuteRaw(payload)
			evs := e.NewQueries(st.marker)
			atomic.StoreInt32(&failNext, 0)
			if err != nil {
				o.Skip = fmt.Sprintf("connection lost on a well-formed execute (not a violation by itself): %v", err)
				return
			}
			hadLong := len(st.hasLong) > 0
			afterFailure := st.failedAgo
			// whatever the outcome, the execution consumed the long data (MySQL resets it too)
			st.pending, st.hasLong = map[int][]byte{}, map[int]bool{}
			if len(evs) > 1 {
				o.Violation = fmt.Sprintf("op %d: one execute of %s produced %d statements on the backend", oi, st.marker, len(evs))
				return
			}
			if len(evs) == 0 {
				if r.Err == nil {
					o.Violation = fmt.Sprintf("op %d: execute of %s succeeded but nothing reached the backend", oi, st.marker)
					return
				}
				// rejected by the proxy: no statement ran; never a violation by itself
				label("wellformed_execute_rejected")
				msg := r.Err.Message
				if len(msg) > 70 {
					msg = msg[:70]
				}
				label(fmt.Sprintf("wellformed_execute_rejected: %d %s", r.Err.Code, msg))
				st.types = nil
				st.failedAgo = true
				continue
			}
			if op.BackendErr != (r.Err != nil) {
				o.Violation = fmt.Sprintf("op %d: backend error scripted=%v but client saw error=%v", oi, op.BackendErr, r.Err)
				return
			}
			label("execute_checked")
			if hadLong {
				label("execute_with_long_data")
			}
			if afterFailure {
				label("execute_after_failed_execute")
				o.NonTrivial = true
			}
			ev := evs[0]
			m := sqllex.ParseMode(ev.Vars["sql_mode"])
			res := sqllex.Match(st.template, ev.SQL, m, want, nil)
			if !res.OK {
				detail := fmt.Sprintf("op %d: execute of %s with %s: backend received %q: %s", oi, st.marker, describe(want), ev.SQL, res.Detail)
				o.Violation = detail
				return
			}
			// the statement text reached the backend, so the packet was parsed completely: the server
			// remembers this type block whether or not the backend then failed (as libmysqlclient assumes)
			st.types = types
			st.failedAgo = r.Err != nil
		}
	}
	return
}

func describe(ps []sqllex.Param) string {
	var parts []string
	for _, p := range ps {
		parts = append(parts, p.Describe())
	}
	return "[" + strings.Join(parts, "; ") + "]"
}

// fixtureFailures counts cases that could not be evaluated because the proxy,
// the backend or the client session could not be set up (e.g. the host ran out
// of ephemeral ports). A run dominated by them must not look like a pass.
var fixtureFailures int64

func TestC16History(t *testing.T) {
	if _, err := proxyfix.Shared(); err != nil {
		t.Fatalf("inconclusive: the live proxy fixture cannot start: %v", err)
	}
	defer func() {
		if n := atomic.LoadInt64(&fixtureFailures); n > 20 {
			t.Errorf("inconclusive: the fixture failed to set up %d cases (see the skipped reasons in the evidence)", n)
		}
	}()
	pbt.Run(t, pbt.Spec{ID: "C16", Sub: "history", Quick: 600, Thorough: 5000,
		Rule:  "histories of 4-25 (thorough 40) commands over 1-3 live statements of 1-3 parameters: prepare, send_long_data (also empty chunks, several chunks, interleaved between statements), execute with values unique to the operation (optionally without type block, optionally failing on the backend), malformed execute (second value truncated, unknown type code at the second parameter, type block cut, packet too short), reset, close, re-prepare, commands on closed/unknown ids; non-trivial = a well-formed execute is checked after a failed execute of the same statement, or long data of two statements is pending at once",
		Floor: 0.3}, genCase, checkCase)
}
