//go:build verif

// C14, end-to-end sub-check ("e2e"): what the proxy REPORTS for a prepared
// statement. A raw client sends COM_STMT_PREPARE through a live proxy and reads
// the response itself: num_params of the COM_STMT_PREPARE_OK packet must be the
// number of real parameter markers, exactly that many parameter-definition
// packets plus one EOF must follow (the connection stays in sync: COM_PING and a
// plain query answer correctly afterwards), and executing with N bound values
// must reach the backend with every marker, and nothing else, replaced.
package c14

import (
	"encoding/binary"
	"errors"
	"fmt"
	"net"
	"strings"
	"sync/atomic"
	"testing"
	"time"

	"github.com/XiaoMi/Gaea/models"
	"pgregory.net/rapid"
	"verifharness/internal/fakemysql"
	"verifharness/internal/pbt"
	"verifharness/internal/proxyfix"
	"verifharness/internal/rawclient"
	"verifharness/internal/sqltok"
)

type e2eCase struct {
	N int `json:"n"` // number of real parameter markers
	// Decoys are complete tokens (strings, quoted identifiers, comments) containing
	// '?' that are not markers; Where[i] says in front of which marker (mod N+1) decoy i goes
	Decoys []sqltok.Tok `json:"decoys"`
	Where  []int        `json:"where"`
	Base   int64        `json:"base"` // value bound to marker i is Base+7*i
	Shape  int          `json:"shape"`
	// DashEvery > 0: every marker whose index is a multiple of it is written "7--?"
	// (minus minus: "--" not followed by white space is no comment, the ? is a parameter)
	DashEvery int `json:"dash_every"`
}

var e2eSeq int64

var boundaryN = []int{0, 1, 2, 255, 256, 257, 300, 1000, 4000}

func genE2E(t *rapid.T) e2eCase {
	var c e2eCase
	switch rapid.IntRange(0, 19).Draw(t, "nk") {
	case 0, 1, 2, 3, 4, 5:
		c.N = rapid.SampledFrom(boundaryN).Draw(t, "n_boundary")
	case 6:
		c.N = rapid.SampledFrom([]int{65535, 65535, 65534, 65536, 65537, 70000}).Draw(t, "n_limit")
	case 7:
		c.N = rapid.IntRange(0, 3000).Draw(t, "n_any")
	default:
		c.N = rapid.IntRange(0, 40).Draw(t, "n_small")
	}
	nd := rapid.IntRange(0, 5).Draw(t, "ndecoys")
	for i := 0; i < nd; i++ {
		var tk sqltok.Tok
		switch rapid.IntRange(0, 8).Draw(t, "dk") {
		case 6:
			// comments at their delimiters' edges: "/*/" is an OPEN comment, bodies ending in '*'
			tk = sqltok.Tok{K: sqltok.CBlock, S: rapid.SampledFrom([]string{"/**/", "/***/", "/*/ ? */", "/*/*/", "/* * / ? */", "/*?*/", "/* ? **/", "/*/?*/"}).Draw(t, "cb_fixed")}
		case 7:
			tk = sqltok.Tok{K: sqltok.BQ, S: sqltok.GenBackquoted(t, "bq")}
		case 8:
			if rapid.Bool().Draw(t, "line_dash") {
				tk = sqltok.Tok{K: sqltok.CDash, S: rapid.SampledFrom([]string{"--\n", "-- ?\n", "--\t?\n"}).Draw(t, "dash_fixed")}
			} else {
				tk = sqltok.Tok{K: sqltok.CHash, S: rapid.SampledFrom([]string{"#\n", "#?\n", "#'?\n"}).Draw(t, "hash_fixed")}
			}
		case 0, 1:
			tk = sqltok.Tok{K: sqltok.SQ, S: sqltok.GenString(t, '\'', "sq")}
		case 2:
			tk = sqltok.Tok{K: sqltok.DQ, S: sqltok.GenString(t, '"', "dq")}
		case 3:
			k := rapid.SampledFrom([]sqltok.Kind{sqltok.CDash, sqltok.CHash, sqltok.CBlock}).Draw(t, "ck")
			tk = sqltok.Tok{K: k, S: sqltok.GenComment(t, k, false, "cm")}
		case 4:
			tk = sqltok.Tok{K: sqltok.CBlock, S: "/* why? ' */"}
		default:
			tk = sqltok.Tok{K: sqltok.SQ, S: rapid.SampledFrom([]string{"'?'", "'a\\'?\\'b'", "'''?'", "'\\\\'", "''", "'\\\\\\\\'", "'\\''"}).Draw(t, "sq_fixed")}
		}
		c.Decoys = append(c.Decoys, tk)
		c.Where = append(c.Where, rapid.IntRange(0, 1<<20).Draw(t, "where"))
	}
	c.Base = int64(rapid.IntRange(-1000, 1<<40).Draw(t, "base"))
	c.Shape = rapid.IntRange(0, 1).Draw(t, "shape")
	if rapid.IntRange(0, 2).Draw(t, "dash") == 0 {
		c.DashEvery = rapid.SampledFrom([]int{1, 2, 3, 7}).Draw(t, "dash_every")
	}
	return c
}

// buildStatement returns the statement text and the byte offsets of its markers.
// Shape 0: select 'tag' from `t?` where id in ( m , m , ... )      (decoy strings become list members)
// Shape 1: select 'tag' , m , m ... from `t?`
func buildStatement(c e2eCase, tag string) (string, []int) {
	var b strings.Builder
	var offs []int
	at := map[int][]sqltok.Tok{}
	for i, d := range c.Decoys {
		w := 0
		if i < len(c.Where) {
			w = c.Where[i] % (c.N + 1)
		}
		at[w] = append(at[w], d)
	}
	// a decoy in front of marker i: strings are list members of their own, comments are just comments
	emitDecoys := func(i int, first *bool) {
		for _, d := range at[i] {
			if sqltok.IsComment(d.K) {
				b.WriteString(" " + d.S + " ")
				continue
			}
			if !*first {
				b.WriteString(" , ")
			}
			b.WriteString(d.S)
			*first = false
		}
	}
	first := true
	if c.Shape == 0 {
		b.WriteString("select '" + tag + "' from `t?` where id in ( 0")
		first = false
	} else {
		b.WriteString("select '" + tag + "'")
		first = false
	}
	for i := 0; i <= c.N; i++ {
		emitDecoys(i, &first)
		if i == c.N {
			break
		}
		if !first {
			b.WriteString(" , ")
		}
		if c.DashEvery > 0 && i%c.DashEvery == 0 {
			b.WriteString("7--")
		}
		offs = append(offs, b.Len())
		b.WriteString("?")
		first = false
	}
	if c.Shape == 0 {
		b.WriteString(" )")
	} else {
		b.WriteString(" from `t?`")
	}
	return b.String(), offs
}

// ---- telling load from defects ----

// transport reports whether err is transport-level trouble that a loaded machine
// can produce without any defect (deadline exceeded, connection torn down).
func transport(err error) bool {
	if err == nil {
		return false
	}
	var ne net.Error
	if errors.As(err, &ne) && ne.Timeout() {
		return true
	}
	m := err.Error()
	return strings.Contains(m, "i/o timeout") || strings.Contains(m, "connection reset") || strings.Contains(m, "broken pipe")
}

// outOfSync reports whether err says the client found a packet that does not
// belong to the answer it was reading (rawclient checks every sequence id).
func outOfSync(err error) bool {
	return err != nil && (strings.Contains(err.Error(), "rawclient: sequence") || strings.Contains(err.Error(), "bad "))
}

func showResult(r *rawclient.Result) string {
	if r == nil {
		return "<no result>"
	}
	if r.Err != nil {
		return "ERR " + r.Err.Error()
	}
	if r.OK {
		return fmt.Sprintf("OK affected=%d status=%#x", r.Affected, r.Status)
	}
	var b strings.Builder
	fmt.Fprintf(&b, "resultset %d cols %d rows", len(r.Cols), len(r.Rows)+len(r.RawRows))
	for i, row := range r.Rows {
		if i == 3 {
			b.WriteString(" ...")
			break
		}
		b.WriteString(" [")
		for j, cell := range row {
			if j > 0 {
				b.WriteString(",")
			}
			fmt.Fprintf(&b, "%q", cell)
		}
		b.WriteString("]")
	}
	return b.String()
}

func showResults(rs []*rawclient.Result) string {
	parts := make([]string, len(rs))
	for i, r := range rs {
		parts[i] = showResult(r)
	}
	return "{" + strings.Join(parts, "; ") + "}"
}

// alive sends COM_PING and reports: answered (an OK with the right sequence id:
// the proxy is serving this connection and has nothing older to send), or not
// (transport trouble, or packets that do not belong to the ping).
func alive(cli *rawclient.Conn) (answered bool, detail string) {
	r, err := cli.Ping()
	if err != nil {
		return false, err.Error()
	}
	if r == nil || !r.OK {
		return false, showResult(r)
	}
	return true, ""
}

func isEOFPacket(p []byte) bool { return len(p) > 0 && p[0] == 0xfe && len(p) <= 5 }

func checkE2E(c e2eCase) (o pbt.Outcome) {
	if c.N < 0 || c.N > 200000 {
		o.Skip = "malformed case"
		return
	}
	p, err := proxyfix.Shared()
	if err != nil {
		o.Skip = "fixture: " + err.Error()
		return
	}
	id := atomic.AddInt64(&e2eSeq, 1)
	nsName := proxyfix.UniqueName("c14ns", id)
	user := proxyfix.UniqueName("c14u", id)
	tag := fmt.Sprintf("c14e%dx", id)
	specs := []proxyfix.SliceSpec{{Name: "slice-0", Capacity: 2, MaxCapacity: 4}}
	cl, err := proxyfix.NewCluster(specs)
	if err != nil {
		o.Skip = "fixture: " + err.Error()
		return
	}
	defer cl.Close()
	for _, s := range cl.All() {
		s.Handler = func(conn *fakemysql.Conn, sql string) fakemysql.Reply {
			if !strings.Contains(sql, tag) {
				return fakemysql.Reply{Unhandled: true}
			}
			return fakemysql.Reply{Result: &fakemysql.ResultSet{Cols: []fakemysql.Column{{Name: "tag", Type: fakemysql.TypeVarString}},
				Rows: [][][]byte{{[]byte(tag)}}}}
		}
	}
	ns := proxyfix.BaseNamespace(nsName, cl.SliceConfigs(specs), []*models.User{{UserName: user, Password: "pw", RWFlag: 2, RWSplit: 0}})
	if err := p.Install(ns); err != nil {
		o.Skip = "fixture: install: " + err.Error()
		return
	}
	defer p.Remove(nsName)
	cli, err := p.Dial(user, "pw", "db", 0)
	if err != nil {
		o.Skip = "fixture: dial: " + err.Error()
		return
	}
	defer cli.Close()
	cli.Timeout = 120 * time.Second // generous: the machine may be heavily loaded

	text, offs := buildStatement(c, tag)
	// the harness's own view of the markers must be the construction's
	segs := sqltok.Lex(text)
	if ref := sqltok.KindOffsets(segs, sqltok.Marker); len(ref) != len(offs) || (len(offs) > 0 && fmt.Sprint(ref) != fmt.Sprint(offs)) {
		o.Skip = "harness: generator and reference lexer disagree on the markers"
		return
	}
	hidden := strings.Count(text, "?") - c.N
	o.NonTrivial = c.N >= 255 || (hidden > 1 && c.N > 0) // `t?` is always there
	switch {
	case c.N > 65535:
		o.Labels = append(o.Labels, "n_above_65535")
	case c.N >= 65534:
		o.Labels = append(o.Labels, "n_at_limit")
	case c.N >= 256:
		o.Labels = append(o.Labels, "n_needs_second_byte")
	case c.N == 255:
		o.Labels = append(o.Labels, "n_255")
	case c.N == 0:
		o.Labels = append(o.Labels, "n_0")
	default:
		o.Labels = append(o.Labels, "n_small")
	}
	if hidden > 1 {
		o.Labels = append(o.Labels, "decoy_question_marks")
	}
	if c.DashEvery > 0 && c.N > 0 {
		o.Labels = append(o.Labels, "minus_minus_markers")
	}

	// ---- COM_STMT_PREPARE, response read by hand ----
	cli.ResetSeq()
	if err := cli.WritePacket(append([]byte{0x16}, text...)); err != nil {
		o.Skip = "fixture: write prepare: " + err.Error()
		return
	}
	first, err := cli.ReadPacket()
	if err != nil {
		if transport(err) {
			o.Skip = "inconclusive: no response to COM_STMT_PREPARE within the deadline (transport)"
			return
		}
		o.Violation = fmt.Sprintf("COM_STMT_PREPARE of a statement with %d markers (%d bytes): response unreadable: %v", c.N, len(text), err)
		return
	}
	if len(first) > 0 && first[0] == 0xff {
		// refusing the statement reports nothing wrong; MySQL itself refuses more than 65535 markers
		o.Labels = append(o.Labels, "prepare_rejected")
		if c.N <= 65535 {
			o.Labels = append(o.Labels, "prepare_rejected_within_limit")
		}
		if _, err := cli.Ping(); err != nil && outOfSync(err) {
			o.Violation = fmt.Sprintf("client out of sync after a rejected prepare (%d markers): %v", c.N, err)
		}
		return
	}
	if len(first) != 12 || first[0] != 0 {
		o.Violation = fmt.Sprintf("COM_STMT_PREPARE response for %d markers is not a 12-byte COM_STMT_PREPARE_OK: % x", c.N, first[:min(len(first), 24)])
		return
	}
	stmtID := binary.LittleEndian.Uint32(first[1:])
	numCols := int(binary.LittleEndian.Uint16(first[5:]))
	numParams := int(binary.LittleEndian.Uint16(first[7:]))
	if numParams != c.N {
		detail := fmt.Sprintf("prepared %q...: the statement has %d parameter markers, COM_STMT_PREPARE_OK reports num_params=%d (packet % x)", text[:min(len(text), 80)], c.N, numParams, first)
		// (fixed C14-F4: more than 65535 markers used to be reported truncated to 16 bits)
		o.Violation = detail
		return
	}
	if first[9] != 0 {
		o.Violation = fmt.Sprintf("COM_STMT_PREPARE_OK filler byte is %#x (packet % x)", first[9], first)
		return
	}
	// parameter definitions: read until the EOF packet and count
	readDefs := func(what string, want int) bool {
		if want == 0 {
			return true
		}
		got := 0
		for {
			pk, err := cli.ReadPacket()
			if err != nil {
				detail := fmt.Sprintf("after COM_STMT_PREPARE_OK with %s=%d: %d definition packets, then no further packet before EOF: %v", what, want, got, err)
				if transport(err) {
					// load or defect? If the proxy answers a ping on this connection it has
					// finished the prepare response: the announced packets were never sent.
					if ok, _ := alive(cli); ok {
						o.Violation = detail + " (the proxy answers COM_PING on the same connection, so the response was complete for it)"
					} else {
						o.Skip = "inconclusive: prepare response not complete within the deadline and no answer to a ping (transport)"
					}
					return false
				}
				o.Violation = detail
				return false
			}
			if isEOFPacket(pk) {
				break
			}
			if len(pk) < 4 || pk[0] != 3 || string(pk[1:4]) != "def" {
				o.Violation = fmt.Sprintf("packet %d after COM_STMT_PREPARE_OK is neither a column definition nor EOF: % x", got, pk[:min(len(pk), 24)])
				return false
			}
			got++
			if got > want+2 {
				break
			}
		}
		if got != want {
			o.Violation = fmt.Sprintf("COM_STMT_PREPARE_OK announces %s=%d but %d definition packets precede the EOF", what, want, got)
			return false
		}
		return true
	}
	if !readDefs("num_params", numParams) || !readDefs("num_columns", numCols) {
		return
	}
	// ---- still in sync? ----
	// Out of sync = a packet that does not belong to the answer (wrong sequence id,
	// malformed answer) or a well-formed answer to something else. An ERR packet or
	// a missed deadline is the proxy or the machine having trouble, not this property.
	if r, err := cli.Ping(); err != nil {
		if outOfSync(err) {
			o.Violation = fmt.Sprintf("COM_PING after preparing a statement with %d markers: %v (client out of sync with the prepare response)", c.N, err)
		} else {
			o.Skip = "inconclusive: COM_PING after prepare: transport error"
		}
		return
	} else if r == nil || !r.OK {
		o.Skip = "inconclusive: COM_PING after prepare answered " + showResult(r)
		return
	}
	if rs, err := cli.Query("select '" + tag + "q'"); err != nil {
		if outOfSync(err) {
			o.Violation = fmt.Sprintf("plain query after preparing a statement with %d markers: %v (client out of sync with the prepare response)", c.N, err)
		} else {
			o.Skip = "inconclusive: plain query after prepare: transport error"
		}
		return
	} else if len(rs) == 1 && rs[0].Err != nil {
		// a well-formed error answer to this very query: in sync; the query itself failed
		// (no backend connection in time, ...), which is not this property's business
		o.Skip = "inconclusive: plain query after prepare answered with an error packet"
		o.Labels = append(o.Labels, "followup_query_error")
		return
	} else if len(rs) != 1 || len(rs[0].Rows) != 1 || len(rs[0].Rows[0]) != 1 || string(rs[0].Rows[0][0]) != tag {
		o.Violation = fmt.Sprintf("plain query after preparing a statement with %d markers was answered with something else: %s (expected one row [%q])", c.N, showResults(rs), tag)
		return
	}

	// ---- execute with N bound values ----
	params := make([]rawclient.Param, c.N)
	var want strings.Builder
	prev := 0
	for i := 0; i < c.N; i++ {
		v := c.Base + 7*int64(i)
		var enc [8]byte
		binary.LittleEndian.PutUint64(enc[:], uint64(v))
		params[i] = rawclient.Param{Type: 8, Value: enc[:]}
		want.WriteString(text[prev:offs[i]])
		want.WriteString(fmt.Sprint(v))
		prev = offs[i] + 1
	}
	want.WriteString(text[prev:])
	cl.ResetEvents()
	res, err := cli.ExecuteRaw(rawclient.BuildExecute(stmtID, params, true))
	if err != nil {
		if outOfSync(err) {
			o.Violation = fmt.Sprintf("COM_STMT_EXECUTE with %d bound values: %v (client out of sync)", c.N, err)
		} else {
			o.Skip = "inconclusive: COM_STMT_EXECUTE: transport error"
		}
		return
	}
	if res.Err != nil {
		// the proxy may refuse to run it (e.g. its parser); nothing wrong reached the backend
		o.Labels = append(o.Labels, "execute_rejected")
	} else {
		var received []string
		for _, ev := range cl.Events() {
			if ev.Kind == "query" && strings.Contains(ev.SQL, "'"+tag+"'") {
				received = append(received, ev.SQL)
			}
		}
		if len(received) != 1 {
			o.Violation = fmt.Sprintf("executing the statement with %d bound values reached the backend %d times", c.N, len(received))
			return
		}
		if strings.TrimSpace(received[0]) != strings.TrimSpace(want.String()) {
			g, w := received[0], want.String()
			k := 0
			for k < len(g) && k < len(w) && g[k] == w[k] {
				k++
			}
			o.Violation = fmt.Sprintf("executed statement with %d bound values differs from the text with each marker replaced, first at byte %d: backend got ...%q, expected ...%q",
				c.N, k, g[max(0, k-30):min(len(g), k+40)], w[max(0, k-30):min(len(w), k+40)])
			return
		}
		o.Labels = append(o.Labels, "executed_and_compared")
	}
	if _, err := cli.Ping(); err != nil && outOfSync(err) {
		o.Violation = fmt.Sprintf("COM_PING after executing with %d bound values: %v (client out of sync)", c.N, err)
	}
	return
}

func TestC14E2E(t *testing.T) {
	pbt.Run(t, pbt.Spec{ID: "C14", Sub: "e2e", Quick: 250, Thorough: 1500,
		Rule: "live proxy + simulated backend: prepare a select with N markers, N from {0,1,2,255,256,257,300,1000,4000,65534,65535,65536,65537,70000}, 0-40 and 0-3000, with up to 5 decoy strings / comments containing ? and a backquoted table name `t?`; raw reading of COM_STMT_PREPARE_OK, count of parameter definitions, COM_PING and a plain query afterwards, COM_STMT_EXECUTE with N LONGLONG values compared at the backend; non-trivial = N >= 255, or decoy question marks together with at least one marker",
		Floor: 0.3}, genE2E, checkE2E)
}
