//go:build verif

// C14 Prepared-statement parameters are exactly the SQL grammar's placeholders.
//
// server.CalcParams is the only thing that decides, at COM_STMT_PREPARE, how
// many parameters a statement has and where they are (handleStmtPrepare does
// not parse the text). The check builds texts from tokens whose lexical class
// the generator knows, derives the expected markers twice (by construction and
// with the independent reference lexer of internal/sqltok) and, for complete
// statements, a third time with Gaea's SQL parser (ParamMarkerExpr offsets).
package c14

import (
	"fmt"
	"reflect"
	"strings"
	"testing"

	"github.com/XiaoMi/Gaea/parser"
	"github.com/XiaoMi/Gaea/parser/ast"
	driver "github.com/XiaoMi/Gaea/parser/tidb-types/parser_driver"
	"github.com/XiaoMi/Gaea/proxy/server"
	"pgregory.net/rapid"
	"verifharness/internal/pbt"
	"verifharness/internal/sqltok"
)

type paramCase struct {
	Toks     []sqltok.Tok `json:"toks"`
	Complete bool         `json:"complete"` // built from the statement templates: Gaea's parser is consulted too
}

func genCase(t *rapid.T) paramCase {
	var c paramCase
	switch rapid.IntRange(0, 9).Draw(t, "shape") {
	case 0, 1, 2, 3, 4:
		c.Complete = true
		c.Toks = sqltok.GenStatement(t, "st", sqltok.Opts{Markers: true, CommentPct: rapid.SampledFrom([]int{0, 15, 40}).Draw(t, "cpct")})
		if rapid.IntRange(0, 5).Draw(t, "trail") == 0 {
			// trailing comment, possibly running to the end of the text
			k := rapid.SampledFrom([]sqltok.Kind{sqltok.CDash, sqltok.CHash, sqltok.CBlock}).Draw(t, "tk")
			open := k != sqltok.CBlock && rapid.Bool().Draw(t, "topen")
			c.Toks = append(c.Toks, sqltok.Tok{K: sqltok.Space, S: " "}, sqltok.Tok{K: k, S: sqltok.GenComment(t, k, open, "tc")})
		}
	default:
		c.Toks = sqltok.GenSoup(t, "soup", false)
	}
	return c
}

type markerVisitor struct{ offsets []int }

func (v *markerVisitor) Enter(n ast.Node) (ast.Node, bool) {
	if pm, ok := n.(*driver.ParamMarkerExpr); ok {
		v.offsets = append(v.offsets, pm.Offset)
	}
	return n, false
}
func (v *markerVisitor) Leave(n ast.Node) (ast.Node, bool) { return n, true }

func calcMatches(text string, want []int) (bool, string) {
	var count int
	var offsets []int
	var items []string
	var err error
	if p := pbt.Catch(func() { count, offsets, items, err = server.CalcParams(text) }); p != "" {
		return false, "runtime panic: " + p
	}
	if err != nil {
		return false, "rejected: " + err.Error()
	}
	if count != len(want) || len(offsets) != len(want) || (len(want) > 0 && !reflect.DeepEqual(offsets, want)) {
		return false, fmt.Sprintf("CalcParams(%q) reports %d parameters at %v; the parameter markers are the %d at %v", text, count, offsets, len(want), want)
	}
	if strings.Join(items, "") != text {
		return false, fmt.Sprintf("CalcParams(%q) items %q do not concatenate back to the text", text, items)
	}
	nq := 0
	for _, it := range items {
		if it == "?" {
			nq++
		}
	}
	if nq != len(want) {
		return false, fmt.Sprintf("CalcParams(%q) items %q contain %d \"?\" items for %d parameters", text, items, nq, len(want))
	}
	return true, ""
}

func checkCase(c paramCase) (o pbt.Outcome) {
	text := sqltok.Join(c.Toks)
	segs := sqltok.Lex(text)
	want := sqltok.KindOffsets(segs, sqltok.Marker)
	// the two derivations of the expected markers must agree, else the harness is wrong
	if byCons := sqltok.Offsets(c.Toks, sqltok.Marker); !reflect.DeepEqual(byCons, want) {
		o.Skip = "harness: generator and reference lexer disagree on the markers"
		return
	}
	hidden := 0 // '?' bytes that are not markers
	has := map[sqltok.Kind]bool{}
	hasEsc := false
	for _, s := range segs {
		if s.Special || s.Unterminated {
			o.Skip = "harness: generated an unterminated or special construct"
			return
		}
		if s.K == sqltok.SQ || s.K == sqltok.DQ || s.K == sqltok.BQ || sqltok.IsComment(s.K) {
			body := text[s.Start:s.End]
			if n := strings.Count(body, "?"); n > 0 {
				hidden += n
				has[s.K] = true
			}
			if (s.K == sqltok.SQ || s.K == sqltok.DQ) && strings.Contains(body, "\\") {
				hasEsc = true
			}
		}
	}
	o.NonTrivial = hidden > 0 && len(want) > 0
	for _, k := range []sqltok.Kind{sqltok.SQ, sqltok.DQ, sqltok.BQ, sqltok.CDash, sqltok.CHash, sqltok.CBlock} {
		if has[k] {
			o.Labels = append(o.Labels, "qmark_in_"+string(k))
		}
	}
	if hasEsc {
		o.Labels = append(o.Labels, "string_with_backslash")
	}
	for i, sg := range segs {
		if sg.K == sqltok.Code && strings.HasSuffix(text[sg.Start:sg.End], "--") && i+1 < len(segs) {
			o.Labels = append(o.Labels, "minus_minus_before_"+string(segs[i+1].K))
		} else if sg.K == sqltok.Code && strings.Contains(text[sg.Start:sg.End], "--") {
			o.Labels = append(o.Labels, "minus_minus_before_code")
		}
	}
	if c.Complete {
		o.Labels = append(o.Labels, "complete_statement")
	} else {
		o.Labels = append(o.Labels, "token_soup")
	}
	o.Labels = append(o.Labels, fmt.Sprintf("markers_%d", min(len(want), 4)))

	// third derivation on complete statements: Gaea's own SQL grammar
	if c.Complete {
		var stmts []ast.StmtNode
		var perr error
		if p := pbt.Catch(func() { stmts, _, perr = sqlParser.Parse(text, "", "") }); p != "" {
			perr = fmt.Errorf("parser panic: %s", p)
		}
		if perr != nil || len(stmts) != 1 {
			o.Labels = append(o.Labels, "parser_rejected_template")
		} else {
			v := &markerVisitor{}
			stmts[0].Accept(v)
			got := append([]int{}, v.offsets...)
			sortInts(got)
			if !reflect.DeepEqual(got, want) {
				o.Skip = "harness: reference lexer and Gaea parser disagree on the markers"
				return
			}
			o.Labels = append(o.Labels, "parser_agrees")
		}
	}

	ok, detail := calcMatches(text, want)
	if ok {
		return
	}
	if strings.HasPrefix(detail, "rejected: ") {
		// CalcParams refused the text (unbalanced quotes by its own reckoning):
		// the prepare fails with an error, nothing wrong is reported.
		o.Labels = append(o.Labels, "rejected_by_calcparams")
		return
	}
	if strings.HasPrefix(detail, "runtime panic") {
		o.Violation = detail
		return
	}
	// (C14-F1..F3, the backslash / backquote / comment defects of the old CalcParams, are
	// fixed: any such failure is a plain violation again)
	o.Violation = detail
	return
}

func sortInts(a []int) {
	for i := 1; i < len(a); i++ {
		for j := i; j > 0 && a[j] < a[j-1]; j-- {
			a[j], a[j-1] = a[j-1], a[j]
		}
	}
}

// one parser instance for the whole run (parser.New allocates its tables anew each
// time); Parse resets it, so the check stays a function of the case alone
var sqlParser = parser.New()

func TestC14Params(t *testing.T) {
	pbt.Run(t, pbt.Spec{ID: "C14", Sub: "params", Quick: 30000, Thorough: 300000,
		Rule: "texts concatenated from tokens of known lexical class (words, numbers, operators, whitespace, ?, single/double-quoted strings with \\-escapes and doubled quotes, backquoted identifiers, --/#/C comments, all containing ? ; quotes and comment openers), half of them complete statements from a template grammar that Gaea's parser also judges; non-trivial = at least one ? in a non-marker context and at least one marker",
		Floor: 0.25}, genCase, checkCase)
}
