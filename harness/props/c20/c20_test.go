//go:build verif

// C20 Session settings never leak between clients sharing pooled connections.
//
// Histories of 2-4 clients are run, one statement at a time, against the live
// proxy (internal/proxyfix) in front of ONE simulated MySQL master whose pool
// has capacity 1-2, so that the clients necessarily share backend connections.
// The simulated backend (internal/fakemysql) applies, or atomically rejects,
// every SET statement the proxy sends, and every query event carries the true
// state of the backend connection it ran on. The oracle is a client-side model
// written from the property text (what each client asked for), compared
// semantically (quotes, case, ON/1) with that true state.
package c20

import (
	"fmt"
	"net"
	"os"
	"regexp"
	"sort"
	"strconv"
	"strings"
	"sync/atomic"
	"testing"
	"time"

	"github.com/XiaoMi/Gaea/models"
	"pgregory.net/rapid"
	"verifharness/internal/fakemysql"
	"verifharness/internal/pbt"
	"verifharness/internal/proxyfix"
	"verifharness/internal/rawclient"
)

// ---------------------------------------------------------------- domain tables

// character sets with their MySQL default collation and further collations
// (ids are the protocol's collation ids, needed only for the handshake byte).
type csEntry struct {
	Name    string
	Default string
	Others  []string
}

var charsets = []csEntry{
	{"utf8mb4", "utf8mb4_general_ci", []string{"utf8mb4_bin", "utf8mb4_unicode_ci"}},
	{"utf8", "utf8_general_ci", []string{"utf8_bin", "utf8_unicode_ci"}},
	{"latin1", "latin1_swedish_ci", []string{"latin1_bin", "latin1_general_ci"}},
	{"gbk", "gbk_chinese_ci", []string{"gbk_bin"}},
	{"binary", "binary", nil},
}

// handshake collation ids a client may announce (MySQL protocol constants).
var handshakeColls = []struct {
	ID      byte
	Charset string
	Coll    string
}{
	{45, "utf8mb4", "utf8mb4_general_ci"},
	{33, "utf8", "utf8_general_ci"},
	{8, "latin1", "latin1_swedish_ci"},
	{46, "utf8mb4", "utf8mb4_bin"},
	{83, "utf8", "utf8_bin"},
	{224, "utf8mb4", "utf8mb4_unicode_ci"},
	{28, "gbk", "gbk_chinese_ci"},
}

const (
	serverCharset   = "utf8mb4"
	serverCollation = "utf8mb4_general_ci"
	namesKey        = "names" // pseudo variable: character set + collation
)

type varSpec struct {
	Name   string   // canonical lower-case name ("@x" for user variables)
	Kind   string   // int | bool | mode | tz | str | uvar
	Vals   []string // canonical values
	Custom string   // type in the namespace's allowed_session_variables ("" = built in)
	Bad    []string // literals the proxy itself must refuse (client gets an error, nothing changes)
}

var vars = []varSpec{
	{Name: "sql_mode", Kind: "mode", Vals: []string{"", "STRICT_TRANS_TABLES", "ANSI_QUOTES,NO_ZERO_DATE", "TRADITIONAL", "NO_ENGINE_SUBSTITUTION,STRICT_ALL_TABLES"}},
	{Name: "time_zone", Kind: "tz", Vals: []string{"+08:00", "-03:30", "+00:00", "+05:45"}, Bad: []string{"'Asia/Shanghai'", "'+15:00'"}},
	{Name: "sql_select_limit", Kind: "int", Vals: []string{"1", "10", "1000", "7"}, Bad: []string{"'abc'"}},
	{Name: "group_concat_max_len", Kind: "int", Vals: []string{"4", "1024", "65535", "2048"}, Bad: []string{"1.5"}},
	{Name: "sql_safe_updates", Kind: "bool", Vals: []string{"0", "1"}, Bad: []string{"2"}},
	{Name: "tx_read_only", Kind: "bool", Vals: []string{"0", "1"}, Bad: []string{"'maybe'"}},
	{Name: "lock_wait_timeout", Kind: "int", Vals: []string{"1", "30", "120"}},
	{Name: "innodb_lock_wait_timeout", Kind: "int", Vals: []string{"5", "50", "100"}, Custom: "int"},
	{Name: "default_storage_engine", Kind: "str", Vals: []string{"innodb", "myisam", "memory"}, Custom: "string"},
	{Name: "foreign_key_checks", Kind: "bool", Vals: []string{"0", "1"}, Custom: "bool"},
	{Name: "@a", Kind: "uvar", Vals: []string{"5", "x", "Hello World", "42"}},
	{Name: "@b", Kind: "uvar", Vals: []string{"7", "y", "MiXed", "-1"}},
}

var varIndex = func() map[string]int {
	m := map[string]int{}
	for i, v := range vars {
		m[v.Name] = i
	}
	return m
}()

// canonName maps the names the backend may receive onto the table's names.
func canonName(n string) string {
	n = strings.ToLower(strings.Trim(strings.TrimSpace(n), "`"))
	if n == "transaction_read_only" { // alias of tx_read_only since MySQL 5.7.20
		return "tx_read_only"
	}
	return n
}

// canonValue normalises a value text the way MySQL interprets it for that variable.
func canonValue(name, v string) string {
	v = strings.TrimSpace(v)
	if len(v) >= 2 && (v[0] == '\'' || v[0] == '"') && v[len(v)-1] == v[0] {
		v = v[1 : len(v)-1]
	}
	i, ok := varIndex[name]
	if !ok {
		return v
	}
	switch vars[i].Kind {
	case "int":
		if n, err := strconv.ParseInt(v, 10, 64); err == nil {
			return strconv.FormatInt(n, 10)
		}
	case "bool":
		switch strings.ToLower(v) {
		case "on", "1", "true":
			return "1"
		case "off", "0", "false":
			return "0"
		}
	case "mode":
		var parts []string
		for _, p := range strings.Split(strings.ToUpper(v), ",") {
			if p = strings.TrimSpace(p); p != "" {
				parts = append(parts, p)
			}
		}
		sort.Strings(parts)
		return strings.Join(parts, ",")
	case "tz", "str":
		return strings.ToLower(v)
	}
	return v // user variables: exact
}

// ---------------------------------------------------------------- case

type assign struct {
	Var     int  `json:"var"`
	Val     int  `json:"val"`               // index into Vals (or into Bad when Bad is set)
	Form    int  `json:"form"`              // syntactic variant of name and value
	Default bool `json:"default,omitempty"` // SET v = DEFAULT / SET @u = NULL
	Bad     bool `json:"bad,omitempty"`     // a literal the proxy must refuse
}

type op struct {
	C    int      `json:"c"`
	K    string   `json:"k"`              // set | names | query | begin | commit | rollback
	Sets []assign `json:"sets,omitempty"` // K == set
	CS   int      `json:"cs,omitempty"`   // K == names: charset index (-1 = DEFAULT)
	Coll int      `json:"coll,omitempty"` // K == names: 0 = no COLLATE, i>0 = Others[i-1], -1 = a collation of another charset
	Form int      `json:"form,omitempty"`
}

type reject struct {
	Var int `json:"var"` // index into vars, -1 = SET NAMES
	Val int `json:"val"` // index into Vals / charsets
}

type histCase struct {
	Clients   int      `json:"clients"`
	Capacity  int      `json:"capacity"`
	Backend8  bool     `json:"backend8"`          // backend announces 8.0.x (tx_read_only is sent as transaction_read_only)
	Handshake []int    `json:"handshake"`         // per client: index into handshakeColls
	TxAlias   []bool   `json:"tx_alias"`          // per client: says transaction_read_only instead of tx_read_only
	Rejects   []reject `json:"rejects,omitempty"` // (variable, value) pairs the backend refuses
	Ops       []op     `json:"ops"`
}

// ---------------------------------------------------------------- generator

func genAssign(t *rapid.T, rejects []reject, focus []int, inList bool) assign {
	a := assign{Form: rapid.IntRange(0, 5).Draw(t, "form")}
	// bias towards pairs the backend will refuse
	var rj []reject
	for _, r := range rejects {
		if r.Var >= 0 {
			rj = append(rj, r)
		}
	}
	if len(rj) > 0 && rapid.IntRange(0, 3).Draw(t, "userej") == 0 {
		r := rj[rapid.IntRange(0, len(rj)-1).Draw(t, "rej")]
		a.Var, a.Val = r.Var, r.Val
		return a
	}
	a.Var = rapid.IntRange(0, len(vars)-1).Draw(t, "var")
	if len(focus) > 0 && rapid.IntRange(0, 4).Draw(t, "infocus") != 0 {
		a.Var = focus[rapid.IntRange(0, len(focus)-1).Draw(t, "focusvar")]
	}
	switch k := rapid.IntRange(0, 11).Draw(t, "ak"); {
	case k <= 1 && !(inList && vars[a.Var].Kind == "bool"):
		// (the proxy refuses "= DEFAULT" for ON/OFF variables; a refused list would leave the
		// client model ambiguous, so that combination is only generated as a single assignment)
		a.Default = true
	case k == 2 && !inList && len(vars[a.Var].Bad) > 0:
		a.Bad = true
		a.Val = rapid.IntRange(0, len(vars[a.Var].Bad)-1).Draw(t, "bad")
	default:
		a.Val = rapid.IntRange(0, len(vars[a.Var].Vals)-1).Draw(t, "val")
	}
	return a
}

func genCase(t *rapid.T) histCase {
	c := histCase{
		Clients:  rapid.IntRange(2, 4).Draw(t, "clients"),
		Capacity: rapid.IntRange(1, 2).Draw(t, "capacity"),
		Backend8: rapid.IntRange(0, 3).Draw(t, "b8") == 0,
	}
	for i := 0; i < c.Clients; i++ {
		h := 0
		if rapid.IntRange(0, 2).Draw(t, "hsk") == 0 {
			h = rapid.IntRange(0, len(handshakeColls)-1).Draw(t, "hs")
		}
		c.Handshake = append(c.Handshake, h)
		c.TxAlias = append(c.TxAlias, rapid.Bool().Draw(t, "alias"))
	}
	nrej := rapid.SampledFrom([]int{0, 1, 1, 2, 2, 3}).Draw(t, "nrej")
	for i := 0; i < nrej; i++ {
		if rapid.IntRange(0, 5).Draw(t, "rejnames") == 0 {
			c.Rejects = append(c.Rejects, reject{Var: -1, Val: rapid.IntRange(1, len(charsets)-1).Draw(t, "rejcs")})
			continue
		}
		v := rapid.IntRange(0, len(vars)-1).Draw(t, "rejvar")
		c.Rejects = append(c.Rejects, reject{Var: v, Val: rapid.IntRange(0, len(vars[v].Vals)-1).Draw(t, "rejval")})
	}
	// half of the cases concentrate on a few variables so that clients collide on them
	var focus []int
	if rapid.Bool().Draw(t, "focused") {
		nf := rapid.IntRange(1, 4).Draw(t, "nfocus")
		for i := 0; i < nf; i++ {
			if rapid.IntRange(0, 3).Draw(t, "focustx") == 0 {
				focus = append(focus, varIndex["tx_read_only"])
			} else {
				focus = append(focus, rapid.IntRange(0, len(vars)-1).Draw(t, "focus"))
			}
		}
	}
	n := rapid.IntRange(6, 40).Draw(t, "nops")
	for i := 0; i < n; i++ {
		o := op{C: rapid.IntRange(0, c.Clients-1).Draw(t, "c")}
		switch k := rapid.IntRange(0, 99).Draw(t, "k"); {
		case k < 42:
			o.K = "query"
			o.Form = rapid.SampledFrom([]int{0, 0, 0, 1, 2}).Draw(t, "qform")
		case k < 74:
			o.K = "set"
			na := rapid.SampledFrom([]int{1, 1, 1, 2, 3}).Draw(t, "nassign")
			for j := 0; j < na; j++ {
				o.Sets = append(o.Sets, genAssign(t, c.Rejects, focus, na > 1))
			}
		case k < 88:
			o.K = "names"
			o.Form = rapid.IntRange(0, 3).Draw(t, "form")
			o.CS = rapid.IntRange(0, len(charsets)-1).Draw(t, "cs")
			if rapid.IntRange(0, 14).Draw(t, "namesdefault") == 0 {
				o.CS = -1 // SET NAMES DEFAULT
			}
			// bias towards a charset the backend refuses
			for _, r := range c.Rejects {
				if r.Var < 0 && rapid.IntRange(0, 2).Draw(t, "userejcs") == 0 {
					o.CS = r.Val
				}
			}
			if o.CS >= 0 {
				o.Coll = rapid.IntRange(-1, len(charsets[o.CS].Others)).Draw(t, "coll")
				if o.Coll == -1 && rapid.IntRange(0, 2).Draw(t, "keepbad") != 0 {
					o.Coll = 0
				}
			}
		case k < 93:
			o.K = "begin"
		case k < 98:
			o.K = "commit"
		default:
			o.K = "rollback"
		}
		c.Ops = append(c.Ops, o)
	}
	return c
}

// ---------------------------------------------------------------- rendering client statements

func renderName(name string, form int, alias bool) string {
	if name == "tx_read_only" && alias {
		name = "transaction_read_only"
	}
	if strings.HasPrefix(name, "@") {
		if form%2 == 1 {
			return strings.ToUpper(name)
		}
		return name
	}
	switch form {
	case 1:
		return "session " + name
	case 2:
		return "@@" + name
	case 3:
		return "@@session." + name
	case 4:
		return "@@SESSION." + strings.ToUpper(name)
	case 5:
		return "SESSION " + strings.ToUpper(name)
	}
	return name
}

func renderValue(v varSpec, val string, form int) string {
	q := "'"
	if form%2 == 1 {
		q = "\""
	}
	switch v.Kind {
	case "int":
		return val
	case "bool":
		if form >= 3 {
			if val == "1" {
				return []string{"ON", "on", "On"}[form%3]
			}
			return []string{"OFF", "off", "Off"}[form%3]
		}
		return val
	case "mode":
		if form >= 4 {
			val = strings.ToLower(val)
		}
		return q + val + q
	case "tz":
		return q + val + q
	case "str":
		if form == 2 {
			return strings.ToUpper(val) // unquoted identifier
		}
		if form >= 4 {
			val = strings.ToUpper(val[:1]) + val[1:]
		}
		return q + val + q
	default: // user variable
		if _, err := strconv.ParseInt(val, 10, 64); err == nil {
			return val
		}
		return q + val + q
	}
}

func renderSet(o op, alias bool) string {
	var items []string
	for _, a := range o.Sets {
		v := vars[a.Var]
		name := renderName(v.Name, a.Form, alias)
		switch {
		case a.Default && v.Kind == "uvar":
			items = append(items, name+" = NULL")
		case a.Default:
			items = append(items, name+" = "+[]string{"DEFAULT", "default"}[a.Form%2])
		case a.Bad:
			items = append(items, name+" = "+v.Bad[a.Val%len(v.Bad)])
		default:
			items = append(items, name+" = "+renderValue(v, v.Vals[a.Val%len(v.Vals)], a.Form))
		}
	}
	kw := "SET "
	if len(o.Sets) > 0 && o.Sets[0].Form%2 == 1 {
		kw = "set "
	}
	return kw + strings.Join(items, ", ")
}

// namesTarget gives the statement and the (charset, collation) a conforming server ends up with;
// valid=false when MySQL itself refuses the statement (collation of another character set).
func renderNames(o op) (sql, charset, collation string, valid bool) {
	if o.CS < 0 || o.CS >= len(charsets) {
		return "SET NAMES DEFAULT", serverCharset, serverCollation, true
	}
	cs := charsets[o.CS]
	q := []string{"", "'", "\"", ""}[o.Form%4]
	kw := []string{"SET NAMES ", "set names ", "SET NAMES ", "Set Names "}[o.Form%4]
	sql = kw + q + cs.Name + q
	switch {
	case o.Coll == 0 || (o.Coll > 0 && o.Coll > len(cs.Others)):
		return sql, cs.Name, cs.Default, true
	case o.Coll > 0:
		co := cs.Others[o.Coll-1]
		return sql + " COLLATE " + q + co + q, cs.Name, co, true
	default: // a collation that belongs to another character set
		other := charsets[(o.CS+1)%len(charsets)]
		return sql + " COLLATE " + q + other.Default + q, "", "", false
	}
}

// ---------------------------------------------------------------- model

type settings struct {
	Charset   string
	Collation string
	Want      map[string]string // canonical variable -> canonical value; absent = server default
	Taint     map[string]bool   // variables (and namesKey) that were part of a SET the backend refused on this client's behalf
}

func (s settings) clone() settings {
	n := settings{Charset: s.Charset, Collation: s.Collation, Want: map[string]string{}, Taint: map[string]bool{}}
	for k, v := range s.Want {
		n.Want[k] = v
	}
	for k, v := range s.Taint {
		n.Taint[k] = v
	}
	return n
}

func (s settings) sameAs(o settings) bool {
	if s.Charset != o.Charset || s.Collation != o.Collation || len(s.Want) != len(o.Want) {
		return false
	}
	for k, v := range s.Want {
		if ov, ok := o.Want[k]; !ok || ov != v {
			return false
		}
	}
	return true
}

type queryRec struct {
	Tag    string
	Client int
	OK     bool
	Snap   settings
	InTx   bool
}

var (
	caseCounter int64
	reTag       = regexp.MustCompile(`c20t\d+x\d+x\d+z`)
)

func isSessionSet(sql string) bool {
	body := fakemysql.StripLeadingComments(sql)
	if len(body) < 4 || !strings.EqualFold(body[:3], "set") {
		return false
	}
	as, err := fakemysql.ParseSet(body)
	if err != nil {
		return false
	}
	for _, a := range as {
		if a.Name == "autocommit" {
			return false
		}
	}
	return true
}

// abortClose ends a client session with a connection reset: no socket is left in TIME_WAIT.
func abortClose(c *rawclient.Conn) {
	if c == nil {
		return
	}
	if tc, ok := c.NetConn().(*net.TCPConn); ok {
		tc.SetLinger(0)
	}
	c.Close()
}

// ---------------------------------------------------------------- check

// infraMarks are texts of errors that come from the fixture's infrastructure (pool, sockets,
// deadlines on a loaded machine), not from the behaviour under test: such a case is skipped.
var infraMarks = []string{"create resource failed", "context deadline exceeded", "i/o timeout",
	"connection refused", "connection reset", "broken pipe", "bad connection", "connection was bad", "resource pool timed out",
	"resource pool is closed", "connection pool is closed", "execution timed out", "unexpected eof", "use of closed network connection"}

// a MySQL error of the backend forwarded by the proxy ("ERROR 1231 (42000): ...")
var reBackendSQLErr = regexp.MustCompile(`(?i)error \d+ \([0-9a-z]{5}\)`)

// infraErr returns the mark that makes an error message an infrastructure error ("" if none).
// "getBackendConn failed" alone is one only when it does not wrap a statement the backend refused
// (in a transaction the proxy reports a refused SET that way, which is behaviour under test).
func infraErr(msg string) string {
	m := strings.ToLower(msg)
	for _, k := range infraMarks {
		if strings.Contains(m, k) {
			return k
		}
	}
	if strings.Contains(m, "getbackendconn failed") && !reBackendSQLErr.MatchString(m) {
		return "getbackendconn failed"
	}
	return ""
}

func checkCase(c histCase) (o pbt.Outcome) {
	if c.Clients < 1 || c.Clients > 8 || len(c.Handshake) < c.Clients || len(c.TxAlias) < c.Clients || c.Capacity < 1 {
		o.Skip = "malformed case"
		return
	}
	p, err := proxyfix.Shared()
	if err != nil {
		o.Skip = "fixture: " + err.Error()
		return
	}
	n := atomic.AddInt64(&caseCounter, 1)
	specs := []proxyfix.SliceSpec{{Name: "slice-0", Capacity: c.Capacity, MaxCapacity: c.Capacity}}
	cl, err := proxyfix.NewCluster(specs)
	if err != nil {
		o.Skip = "fixture: " + err.Error()
		return
	}
	defer cl.Close()
	master := cl.Masters["slice-0"]
	master.SnapshotVars = true
	if c.Backend8 {
		master.Version = "8.0.30-fake" // tx_read_only does not exist there (removed in 8.0.3)
	} else {
		master.VarAlias = map[string]string{"transaction_read_only": "tx_read_only"} // one variable, two names (5.7.20+)
	}
	rejected := map[string]bool{}
	for _, r := range c.Rejects {
		if r.Var < 0 {
			rejected[namesKey+"="+charsets[r.Val%len(charsets)].Name] = true
		} else if r.Var < len(vars) {
			v := vars[r.Var]
			rejected[v.Name+"="+v.Vals[r.Val%len(v.Vals)]] = true
		}
	}
	master.RejectSet = func(_ *fakemysql.Conn, name, value string) *fakemysql.SQLErr {
		cn := canonName(name)
		if c.Backend8 && strings.EqualFold(strings.TrimSpace(name), "tx_read_only") {
			return &fakemysql.SQLErr{Code: 1193, State: "HY000", Message: "Unknown system variable 'tx_read_only'"}
		}
		if cn == namesKey {
			if rejected[namesKey+"="+strings.ToLower(value)] {
				return &fakemysql.SQLErr{Code: 1115, State: "42000", Message: fmt.Sprintf("Unknown character set: '%s'", value)}
			}
			return nil
		}
		if strings.EqualFold(value, "default") || strings.EqualFold(value, "null") {
			return nil
		}
		if !rejected[cn+"="+canonValue(cn, value)] {
			return nil
		}
		if i, ok := varIndex[cn]; ok && vars[i].Custom != "" {
			return &fakemysql.SQLErr{Code: 1193, State: "HY000", Message: fmt.Sprintf("Unknown system variable '%s'", name)}
		}
		return &fakemysql.SQLErr{Code: 1231, State: "42000", Message: fmt.Sprintf("Variable '%s' can't be set to the value of '%s'", name, value)}
	}

	nsName := proxyfix.UniqueName("c20ns", n)
	var users []*models.User
	for i := 0; i < c.Clients; i++ {
		users = append(users, &models.User{UserName: fmt.Sprintf("c20u%dx%d", n, i), Password: "pw", RWFlag: 2, RWSplit: 0})
	}
	ns := proxyfix.BaseNamespace(nsName, cl.SliceConfigs(specs), users)
	ns.AllowedSessionVariables = map[string]string{}
	for _, v := range vars {
		if v.Custom != "" {
			ns.AllowedSessionVariables[v.Name] = v.Custom
		}
	}
	if err := p.Install(ns); err != nil {
		o.Skip = "fixture install: " + err.Error()
		return
	}
	defer p.Remove(nsName)
	// the backends go first, with a connection reset, so that neither the proxy's pooled
	// connections nor the server side stay in TIME_WAIT (thousands of cases per minute)
	defer cl.Abort()

	conns := make([]*rawclient.Conn, c.Clients)
	model := make([]settings, c.Clients)
	inTx := make([]bool, c.Clients)
	holds := make([]bool, c.Clients)
	for i := 0; i < c.Clients; i++ {
		h := handshakeColls[c.Handshake[i]%len(handshakeColls)]
		cc, err := rawclient.Dial(p.Addr, rawclient.Options{User: users[i].UserName, Password: "pw", DB: "db", Collation: h.ID, Timeout: 15 * time.Second})
		if err != nil {
			for _, x := range conns {
				abortClose(x)
			}
			o.Skip = "fixture dial: " + err.Error()
			return
		}
		conns[i] = cc
		model[i] = settings{Charset: h.Charset, Collation: h.Coll, Want: map[string]string{}, Taint: map[string]bool{}}
	}
	defer func() {
		for _, x := range conns {
			abortClose(x)
		}
	}()

	var recs []queryRec
	labels := map[string]bool{}
	evPos := 0
	// taintFrom marks what the backend refused during the statement just run for client ci
	taintFrom := func(ci int) bool {
		evs, np := master.EventsSince(evPos)
		evPos = np
		hit := false
		for _, e := range evs {
			if e.Kind != "query" || !strings.HasPrefix(e.Outcome, "err") || !isSessionSet(e.SQL) {
				continue
			}
			as, _ := fakemysql.ParseSet(fakemysql.StripLeadingComments(e.SQL))
			for _, a := range as {
				if a.Names {
					model[ci].Taint[namesKey] = true
				} else {
					model[ci].Taint[canonName(a.Name)] = true
				}
			}
			hit = true
		}
		return hit
	}

	for i, op := range c.Ops {
		ci := op.C % c.Clients
		cc := conns[ci]
		switch op.K {
		case "set":
			if len(op.Sets) == 0 {
				continue
			}
			sql := renderSet(op, c.TxAlias[ci])
			r, err := cc.Exec(sql)
			if err != nil {
				o.Skip = "client transport error (infrastructure)"
				return
			}
			taintFrom(ci)
			if r.Err != nil && infraErr(r.Err.Message) != "" {
				o.Skip = "infrastructure error reported by the proxy: " + infraErr(r.Err.Message)
				return
			}
			if r.Err != nil {
				if len(op.Sets) > 1 {
					o.Skip = "a multi-assignment SET was refused by the proxy (client model ambiguous)"
					return
				}
				if op.Sets[0].Bad {
					labels["bad_literal_refused_by_proxy"] = true
				} else if op.Sets[0].Default {
					labels["default_refused_by_proxy_"+vars[op.Sets[0].Var%len(vars)].Kind] = true
				} else {
					labels["valid_set_refused_by_proxy_"+vars[op.Sets[0].Var%len(vars)].Name] = true
				}
				continue
			}
			for _, a := range op.Sets {
				v := vars[a.Var%len(vars)]
				delete(model[ci].Taint, v.Name)
				switch {
				case a.Default:
					delete(model[ci].Want, v.Name)
					labels["set_default"] = true
				case a.Bad:
					// the proxy accepted a literal MySQL would refuse; what it then means is the literal itself
					model[ci].Want[v.Name] = canonValue(v.Name, v.Bad[a.Val%len(v.Bad)])
					labels["bad_literal_accepted_by_proxy"] = true
				default:
					model[ci].Want[v.Name] = v.Vals[a.Val%len(v.Vals)]
					labels["set_"+v.Kind] = true
				}
			}
		case "names":
			sql, cs, co, valid := renderNames(op)
			r, err := cc.Exec(sql)
			if err != nil {
				o.Skip = "client transport error (infrastructure)"
				return
			}
			taintFrom(ci)
			if r.Err != nil && infraErr(r.Err.Message) != "" {
				o.Skip = "infrastructure error reported by the proxy: " + infraErr(r.Err.Message)
				return
			}
			if r.Err != nil {
				if valid {
					if os.Getenv("C20_DEBUG") != "" {
						fmt.Println("DEBUG refused:", sql, r.Err)
					}
					labels["valid_names_refused_by_proxy"] = true
				} else {
					labels["bad_names_refused_by_proxy"] = true
				}
				continue
			}
			if !valid {
				o.Skip = "proxy accepted SET NAMES with a collation of another character set"
				return
			}
			model[ci].Charset, model[ci].Collation = cs, co
			delete(model[ci].Taint, namesKey)
			labels["set_names"] = true
		case "begin", "commit", "rollback":
			if op.K == "begin" && inTx[ci] {
				continue
			}
			r, err := cc.Exec(op.K)
			if err != nil {
				o.Skip = "client transport error (infrastructure)"
				return
			}
			taintFrom(ci)
			if r.Err != nil && infraErr(r.Err.Message) != "" {
				o.Skip = "infrastructure error reported by the proxy: " + infraErr(r.Err.Message)
				return
			}
			if r.Err == nil {
				if op.K == "begin" {
					inTx[ci] = true
					labels["transaction"] = true
				} else {
					inTx[ci], holds[ci] = false, false
				}
			}
		case "query":
			// a client outside a transaction needs a free pool slot: skip the statement when
			// transactions of other clients hold all of them (it would only time out)
			if !holds[ci] {
				held := 0
				for j := range holds {
					if holds[j] {
						held++
					}
				}
				if held >= c.Capacity {
					labels["query_skipped_pool_exhausted"] = true
					continue
				}
			}
			tag := fmt.Sprintf("c20t%dx%dx%dz", n, ci, i)
			snap := model[ci].clone()
			var r *rawclient.Result
			var err error
			switch op.Form % 3 {
			case 1: // prepared statement
				st, perr, e := cc.Prepare("select id from t where tag = ?")
				if e != nil {
					err = e
				} else if perr != nil {
					r = &rawclient.Result{Err: perr}
				} else {
					r, err = cc.Execute(st, []rawclient.Param{{Type: 253, Value: rawclient.LenEncBytes([]byte(tag))}})
					if err == nil {
						err = cc.StmtClose(st.ID)
					}
					labels["query_prepared"] = true
				}
			case 2:
				r, err = cc.Exec("update t set v = v + 1 where tag = '" + tag + "'")
				labels["query_update"] = true
			default:
				r, err = cc.Exec("select id from t where tag = '" + tag + "'")
			}
			if err != nil {
				o.Skip = "client transport error (infrastructure)"
				return
			}
			if inTx[ci] {
				holds[ci] = true
			}
			if r.Err != nil && infraErr(r.Err.Message) != "" {
				o.Skip = "infrastructure error reported by the proxy: " + infraErr(r.Err.Message)
				return
			}
			if taintFrom(ci) {
				labels["backend_rejected_set"] = true
			}
			recs = append(recs, queryRec{Tag: tag, Client: ci, OK: r.Err == nil, Snap: snap, InTx: inTx[ci]})
			if r.Err != nil {
				labels["query_failed"] = true
			}
		}
	}
	for i, x := range conns {
		abortClose(x)
		conns[i] = nil
	}

	// ---- oracle over the backend's log
	events := master.Events()
	if os.Getenv("C20_DEBUG") != "" {
		for _, e := range events {
			if e.Kind == "query" {
				fmt.Printf("DEBUG ev seq=%d conn=%d %s -> %s | cs=%s/%s vars=%v\n", e.Seq, e.ConnID, e.SQL, e.Outcome, e.Charset, e.Collation, e.Vars)
			}
		}
	}
	byTag := map[string][]fakemysql.Event{}
	for _, e := range events {
		if e.Kind == "query" && e.Outcome == "ok" {
			if t := reTag.FindString(e.SQL); t != "" {
				byTag[t] = append(byTag[t], e)
			}
		}
	}
	// who asked for what, to explain a wrong value
	origin := func(name, val string, self int) string {
		var who []string
		for _, r := range recs {
			if r.Client == self {
				continue
			}
			if name == namesKey {
				if r.Snap.Charset+"/"+r.Snap.Collation == val {
					who = append(who, fmt.Sprintf("client %d", r.Client))
				}
			} else if w, ok := r.Snap.Want[name]; ok && w == val {
				who = append(who, fmt.Sprintf("client %d", r.Client))
			}
		}
		if len(who) == 0 {
			return "no other client's model"
		}
		sort.Strings(who)
		return "requested by " + who[0]
	}
	// lastSet describes, for the violation detail only, the most recent SET on that backend
	// connection that assigned the item
	lastSet := func(e fakemysql.Event, name string) string {
		for i := len(events) - 1; i >= 0; i-- {
			s := events[i]
			if s.ConnID != e.ConnID || s.Seq >= e.Seq || s.Kind != "query" || !isSessionSet(s.SQL) {
				continue
			}
			as, _ := fakemysql.ParseSet(fakemysql.StripLeadingComments(s.SQL))
			for _, a := range as {
				if (name == namesKey && a.Names) || (name != namesKey && !a.Names && canonName(a.Name) == name) {
					return s.SQL + " -> " + s.Outcome
				}
			}
		}
		return "no earlier SET of it on that connection"
	}

	var mms []string
	type use struct {
		client int
		snap   settings
	}
	lastUse := map[uint32]use{}
	rejectedOn := map[uint32]bool{}
	alternation, reuseAfterReject := false, false
	// walk events in order for the non-trivial rule
	tagRec := map[string]queryRec{}
	for _, r := range recs {
		tagRec[r.Tag] = r
	}
	for _, e := range events {
		if e.Kind != "query" {
			continue
		}
		if strings.HasPrefix(e.Outcome, "err") && isSessionSet(e.SQL) {
			rejectedOn[e.ConnID] = true
			continue
		}
		t := reTag.FindString(e.SQL)
		if t == "" {
			continue
		}
		r, ok := tagRec[t]
		if !ok {
			continue
		}
		if rejectedOn[e.ConnID] {
			reuseAfterReject = true
		}
		if u, ok := lastUse[e.ConnID]; ok && u.client != r.Client && !u.snap.sameAs(r.Snap) {
			alternation = true
		}
		lastUse[e.ConnID] = use{r.Client, r.Snap}
	}
	if c.Backend8 {
		labels["backend_8.0"] = true
	} else {
		labels["backend_5.7"] = true
	}
	labels[fmt.Sprintf("capacity_%d_clients_%d", c.Capacity, c.Clients)] = true
	o.NonTrivial = alternation || reuseAfterReject
	if alternation {
		labels["different_clients_alternate_on_connection"] = true
	}
	if reuseAfterReject {
		labels["connection_reused_after_rejected_set"] = true
	}

	evaluated := 0
	for _, r := range recs {
		if !r.OK {
			continue
		}
		evs := byTag[r.Tag]
		if len(evs) != 1 {
			o.Skip = fmt.Sprintf("statement %s succeeded for the client but the backend logged it %d times", r.Tag, len(evs))
			return
		}
		e := evs[0]
		evaluated++
		if r.InTx {
			labels["checked_in_transaction"] = true
		}
		// character set and collation
		wantCS := r.Snap.Charset + "/" + r.Snap.Collation
		gotCS := strings.ToLower(e.Charset) + "/" + strings.ToLower(e.Collation)
		// (no tolerance here: the proxy never drops a client's character set, so after a refused
		// SET NAMES the client's statements either fail or run with exactly what it asked for)
		if gotCS != wantCS {
			mms = append(mms, fmt.Sprintf("%s of client %d ran on backend connection %d with character set/collation %s, the client's own setting is %s (%s; last SET NAMES on that connection: %s)",
				r.Tag, r.Client, e.ConnID, gotCS, wantCS, origin(namesKey, gotCS, r.Client), lastSet(e, namesKey)))
		}
		// variables
		actual := map[string]string{}
		for k, v := range e.Vars {
			cn := canonName(k)
			actual[cn] = canonValue(cn, v)
		}
		names := map[string]bool{}
		for k := range actual {
			names[k] = true
		}
		for k := range r.Snap.Want {
			names[k] = true
		}
		keys := make([]string, 0, len(names))
		for k := range names {
			keys = append(keys, k)
		}
		sort.Strings(keys)
		for _, k := range keys {
			a, aok := actual[k]
			w, wok := r.Snap.Want[k]
			if aok == wok && a == w {
				continue
			}
			if r.Snap.Taint[k] && !aok {
				labels["tolerated_default_after_rejection"] = true
				continue // dropped after a rejection on this client's behalf: tolerated
			}
			show := func(v string, ok bool) string {
				if !ok {
					return "<server default>"
				}
				return fmt.Sprintf("%q", v)
			}
			mms = append(mms, fmt.Sprintf("%s of client %d ran on backend connection %d with %s = %s, the client's own setting is %s (%s; last SET of it on that connection: %s)",
				r.Tag, r.Client, e.ConnID, k, show(a, aok), show(w, wok), origin(k, a, r.Client), lastSet(e, k)))
		}
	}
	if evaluated == 0 {
		o.NonTrivial = false
	}
	for l := range labels {
		o.Labels = append(o.Labels, l)
	}
	sort.Strings(o.Labels)
	if len(mms) > 0 {
		o.Violation = mms[0] // the first mismatch in statement order
	}
	return
}

func TestC20SessionSettings(t *testing.T) {
	pbt.Run(t, pbt.Spec{ID: "C20", Sub: "history", Quick: 160, Thorough: 3000,
		Rule:  "2-4 clients (own handshake collation, own spelling of tx_read_only/transaction_read_only), master pool capacity 1-2, backend 5.7 or 8.0, 0-3 (variable,value)/charset pairs the backend refuses, 6-40 statements: SET of every accepted session variable in six syntactic forms (1-3 assignments, half of the cases concentrated on 1-4 variables), SET NAMES [COLLATE], user variables, = DEFAULT / = NULL, literals the proxy must refuse, begin/commit/rollback, tagged queries (text, prepared, update); non-trivial = two clients with different settings follow each other on one backend connection, or a connection is used again after the backend refused a SET on it, and at least one successful statement was compared",
		Floor: 0.4}, genCase, checkCase)
}
