//go:build verif

// C37 Idle sessions are closed on time and active ones are not.
//
// util.TimeWheel is driven tick by tick through the verif hooks
// (VerifAdd/VerifRemove/VerifTick call the unexported add/remove/handleTick that
// the wheel's own loop calls, in the only order the loop can call them:
// any number of adds/removes, then one tick). The oracle is a ten-line model
// written from the property text, not from the bucket/round arithmetic.
//
// Time model. Tick call number k (k = 1, 2, ...) happens at time k (in tick
// units). Activity that the wheel records after T ticks have been performed
// happened at some real instant t in (T, T+1] and is recorded at the loop
// iteration that performs tick T+1 (proxy/server: tw.Add puts the item in the
// pipeline, the loop drains the pipeline immediately before handleTick). With a
// timeout of D ticks the statement "no earlier than its timeout after the
// activity and no later than one tick after that", demanded for every instant
// the activity can have happened at, leaves exactly one tick:
//
//	due = T + 1 + ceil(D)
//
// (D integral: t+D <= f <= t+D+1 for all t in (T,T+1] gives f = T+1+D;
// D fractional: "no earlier" for t = T+1 gives f >= T+1+ceil(D), and a
// tick-granular wheel that only knows the recording tick cannot do better than
// that tick, so the "one tick late" bound is measured from the recording tick
// there.)
package c37

import (
	"bytes"
	"fmt"
	"runtime"
	"sort"
	"sync"
	"testing"
	"time"

	"github.com/XiaoMi/Gaea/util"
	"pgregory.net/rapid"
	"verifharness/internal/pbt"
)

type twOp struct {
	Kind string `json:"kind"` // add | remove | tick | due
	Key  int    `json:"key,omitempty"`
	// add: timeout in whole seconds (the server's session_timeout is whole seconds)
	TimeoutS int `json:"timeout_s,omitempty"`
	// tick: number of ticks; due: advance to (earliest due tick - N), N in {0,1}
	N int `json:"n,omitempty"`
}

type twCase struct {
	TickS   int    `json:"tick_s"`
	Buckets int    `json:"buckets"`
	Keys    int    `json:"keys"`
	Ops     []twOp `json:"ops"`
}

func genTimeout(t *rapid.T, tickS, buckets int, multiplesOnly bool) int {
	span := buckets
	var ticks int
	switch rapid.IntRange(0, 6).Draw(t, "tk") {
	case 0: // below the span
		ticks = rapid.IntRange(1, max(1, span-1)).Draw(t, "below")
	case 1: // exactly the span
		ticks = span
	case 2: // whole multiples of the span
		ticks = span * rapid.IntRange(2, 4).Draw(t, "mult")
	case 3: // next to a multiple of the span
		ticks = span*rapid.IntRange(1, 4).Draw(t, "mult") + rapid.SampledFrom([]int{-1, 1}).Draw(t, "pm")
	case 4: // one tick
		ticks = 1
	default:
		ticks = rapid.IntRange(1, 4*span+2).Draw(t, "any")
	}
	if ticks < 1 {
		ticks = 1
	}
	s := ticks * tickS
	if !multiplesOnly && tickS > 1 && rapid.IntRange(0, 3).Draw(t, "frac") == 0 {
		// not a multiple of the tick; also below one tick
		k := rapid.IntRange(0, ticks).Draw(t, "fk")
		s = k*tickS + rapid.IntRange(1, tickS-1).Draw(t, "fr")
	}
	return s
}

func genTW(t *rapid.T) twCase {
	var c twCase
	switch rapid.IntRange(0, 39).Draw(t, "cfg") {
	case 17, 23: // production configuration (proxy/server/server.go)
		c.TickS, c.Buckets = 5, 3600
	case 1:
		c.TickS, c.Buckets = rapid.SampledFrom([]int{1, 5}).Draw(t, "tick"), 1
	default:
		c.TickS = rapid.SampledFrom([]int{1, 1, 2, 5, 5, 3}).Draw(t, "tick")
		c.Buckets = rapid.IntRange(2, 8).Draw(t, "buckets")
	}
	c.Keys = rapid.IntRange(1, 5).Draw(t, "keys")
	multiplesOnly := rapid.IntRange(0, 2).Draw(t, "multiples_only") == 0
	n := rapid.IntRange(1, 60).Draw(t, "nops")
	if c.Buckets > 100 {
		n = rapid.IntRange(1, 8).Draw(t, "nops_big")
	}
	for i := 0; i < n; i++ {
		var op twOp
		switch k := rapid.IntRange(0, 99).Draw(t, "op"); {
		case k < 35:
			op = twOp{Kind: "add", Key: rapid.IntRange(0, c.Keys-1).Draw(t, "key"), TimeoutS: genTimeout(t, c.TickS, c.Buckets, multiplesOnly)}
		case k < 45:
			op = twOp{Kind: "remove", Key: rapid.IntRange(0, c.Keys-1).Draw(t, "key")}
		case k < 75:
			op = twOp{Kind: "tick", N: rapid.IntRange(1, 3).Draw(t, "n")}
		case k < 80:
			op = twOp{Kind: "tick", N: rapid.IntRange(1, min(c.Buckets, 40)+1).Draw(t, "nn")}
		default:
			op = twOp{Kind: "due", N: rapid.IntRange(0, 1).Draw(t, "before")}
		}
		c.Ops = append(c.Ops, op)
	}
	return c
}

// registration in the reference model
type reg struct {
	id       int
	key      int
	timeoutS int
	recTick  int // ticks performed when the wheel recorded the activity
	due      int // tick number at which the statement demands the close
	floorDue int // tick number at which finding C37-F1 (rounding down) fires it
	live     bool
}

// twRun counts, per session key, the callbacks that have actually run.
type twRun struct {
	mu    sync.Mutex
	count []int
	sig   chan struct{}
}

func (r *twRun) fired(key int) {
	r.mu.Lock()
	r.count[key]++
	r.mu.Unlock()
	select {
	case r.sig <- struct{}{}:
	default:
	}
}

func (r *twRun) get(key int) int {
	r.mu.Lock()
	defer r.mu.Unlock()
	return r.count[key]
}

// waitCount waits until at least want callbacks of key have run. Whether a close was
// dispatched is decided from the wheel's own state, never from this wait; a timeout here
// only makes the case inconclusive.
func (r *twRun) waitCount(key, want int) bool {
	if r.get(key) >= want {
		return true
	}
	deadline := time.NewTimer(60 * time.Second)
	defer deadline.Stop()
	for r.get(key) < want {
		select {
		case <-r.sig:
		case <-time.After(5 * time.Millisecond):
		case <-deadline.C:
			return r.get(key) >= want
		}
	}
	return true
}

func ceilDiv(a, b int) int { return (a + b - 1) / b }

var (
	twDump     = make([]byte, 1<<20)
	markTickGo = []byte("created by github.com/XiaoMi/Gaea/util.(*TimeWheel).handleTick")
)

// quiesceWheel waits until no goroutine started by handleTick (go callback()) exists any
// more, so that callbacks nobody expects (stale or repeated closes) have been counted too.
func quiesceWheel() bool {
	deadline := time.Now().Add(60 * time.Second)
	for i := 0; ; i++ {
		n := runtime.Stack(twDump, true)
		if !bytes.Contains(twDump[:n], markTickGo) {
			return true
		}
		runtime.Gosched()
		if i > 10 {
			time.Sleep(200 * time.Microsecond)
		}
		if time.Now().After(deadline) {
			return false
		}
	}
}

func checkTW(c twCase) (o pbt.Outcome) {
	if c.TickS < 1 || c.Buckets < 1 || c.Keys < 1 {
		o.Skip = "malformed case"
		return
	}
	tw, err := util.NewTimeWheel(time.Duration(c.TickS)*time.Second, c.Buckets)
	if err != nil {
		o.Violation = "NewTimeWheel rejected a legal configuration: " + err.Error()
		return
	}
	o.Labels = append(o.Labels, fmt.Sprintf("tick_%ds", c.TickS))
	if c.Buckets == 3600 {
		o.Labels = append(o.Labels, "production_wheel")
	}
	run := &twRun{count: make([]int, c.Keys), sig: make(chan struct{}, 1)}
	expect := make([]int, c.Keys) // closes the wheel has dispatched according to its own state
	pend := make([]bool, c.Keys)  // keys registered in the wheel (VerifPending) at the last look
	readPending := func() {
		for k := range pend {
			pend[k] = false
		}
		for _, x := range tw.VerifPending() {
			var k int
			if name, ok := x.(string); ok {
				if _, err := fmt.Sscanf(name, "s%d", &k); err == nil && k >= 0 && k < c.Keys {
					pend[k] = true
				}
			}
		}
	}
	now := 0
	nextID := 0
	cur := map[int]*reg{} // live registration per key
	var all []*reg        // every registration ever made
	known := ""
	lbl := map[string]bool{}

	fail := func(f string, a ...interface{}) {
		if o.Violation == "" {
			o.Violation = fmt.Sprintf(f, a...)
		}
	}
	keyName := func(k int) string { return fmt.Sprintf("s%d", k) }

	// doTick advances the wheel by one tick. Which sessions were closed by this tick is read
	// from the wheel's state: handleTick unregisters a key exactly when it dispatches its
	// callback, so "registered before the tick, not registered after it" means dispatched, and
	// a due session that is still registered was not closed. No timing is involved.
	doTick := func() bool {
		now++
		before := append([]bool(nil), pend...)
		if p := pbt.Catch(tw.VerifTick); p != "" {
			fail("tick %d: runtime panic: %s", now, p)
			return false
		}
		readPending()
		for k := 0; k < c.Keys; k++ {
			if !before[k] || pend[k] {
				continue
			}
			// dispatched at this tick
			expect[k]++
			r := cur[k]
			switch {
			case r == nil || !r.live:
				why := "it has no live registration"
				for i := len(all) - 1; i >= 0; i-- {
					if all[i].key == k && (all[i].due == now || all[i].floorDue == now) {
						why = fmt.Sprintf("an older registration (timeout %ds recorded after tick %d) that was removed, refreshed or already closed is due now", all[i].timeoutS, all[i].recTick)
						break
					}
				}
				fail("tick %d: session %s closed although %s", now, keyName(k), why)
			case r.due == now:
				r.live = false
				lbl["closed_on_time"] = true
				if r.timeoutS >= c.TickS*c.Buckets {
					lbl["closed_after_full_rounds"] = true
				}
			case r.floorDue == now && r.timeoutS%c.TickS != 0:
				// closed one tick before the timeout can have elapsed: timeout/tick rounded down
				r.live = false
				lbl["closed_early_rounding"] = true
				if known == "" {
					o.KnownWhat = fmt.Sprintf("tick %ds, %d buckets: session %s, activity recorded at the iteration of tick %d with timeout %ds, was closed at tick %d, i.e. %ds after the wheel recorded the activity (and at most %ds after the activity itself); the timeout has not elapsed before tick %d",
						c.TickS, c.Buckets, keyName(k), r.recTick+1, r.timeoutS, now, (now-r.recTick-1)*c.TickS, (now-r.recTick)*c.TickS, r.due)
				}
				known = "C37-F1"
			default:
				fail("tick %d: session %s closed, but its last activity (timeout %ds = %.2f ticks) was recorded after tick %d so it is due at tick %d", now, keyName(k), r.timeoutS, float64(r.timeoutS)/float64(c.TickS), r.recTick, r.due)
			}
		}
		for k := 0; k < c.Keys; k++ {
			if r := cur[k]; r != nil && r.live && r.due == now {
				state := "it is still registered in the wheel"
				if !pend[k] {
					state = "the wheel does not know it any more"
				}
				fail("tick %d: session %s not closed (%s); its last activity (timeout %ds) was recorded after tick %d, so the close is due at this tick", now, keyName(k), state, r.timeoutS, r.recTick)
			}
		}
		if o.Violation != "" {
			return false
		}
		// the dispatched callbacks must also run: once each (counted at the end), some time
		for k := 0; k < c.Keys; k++ {
			if before[k] && !pend[k] && !run.waitCount(k, expect[k]) {
				o.Skip = "a dispatched callback did not run within 60 s"
				return false
			}
		}
		return true
	}

	earliestDue := func() int {
		e := -1
		for _, r := range cur {
			if r.live && (e < 0 || r.due < e) {
				e = r.due
			}
		}
		return e
	}

	for _, op := range c.Ops {
		if o.Violation != "" || o.Skip != "" {
			break
		}
		switch op.Kind {
		case "add":
			if op.TimeoutS < 1 || op.Key < 0 || op.Key >= c.Keys {
				continue
			}
			nextID++
			r := &reg{id: nextID, key: op.Key, timeoutS: op.TimeoutS, recTick: now, live: true,
				due: now + 1 + ceilDiv(op.TimeoutS, c.TickS), floorDue: now + 1 + op.TimeoutS/c.TickS}
			if old := cur[op.Key]; old != nil && old.live {
				lbl["refresh"] = true
			}
			cur[op.Key] = r
			all = append(all, r)
			key := r.key
			cb := func() { run.fired(key) }
			if p := pbt.Catch(func() { tw.VerifAdd(time.Duration(op.TimeoutS)*time.Second, keyName(op.Key), cb) }); p != "" {
				fail("add: runtime panic: %s", p)
			}
			readPending()
			switch {
			case op.TimeoutS%c.TickS != 0:
				lbl["timeout_not_multiple_of_tick"] = true
			case op.TimeoutS == c.TickS*c.Buckets:
				lbl["timeout_equals_span"] = true
			case op.TimeoutS > c.TickS*c.Buckets && op.TimeoutS%(c.TickS*c.Buckets) == 0:
				lbl["timeout_multiple_of_span"] = true
			case op.TimeoutS > c.TickS*c.Buckets:
				lbl["timeout_above_span"] = true
			default:
				lbl["timeout_below_span"] = true
			}
		case "remove":
			if op.Key < 0 || op.Key >= c.Keys {
				continue
			}
			if r := cur[op.Key]; r != nil && r.live {
				r.live = false
				lbl["remove_pending"] = true
			}
			if p := pbt.Catch(func() { tw.VerifRemove(keyName(op.Key)) }); p != "" {
				fail("remove: runtime panic: %s", p)
			}
			readPending()
		case "tick":
			for i := 0; i < op.N && i < 4000; i++ {
				if !doTick() {
					break
				}
			}
		case "due":
			e := earliestDue()
			if e < 0 {
				continue
			}
			for now < e-op.N {
				if !doTick() {
					break
				}
			}
		}
	}
	// drain: tick past the due tick of every registration ever made, so that late,
	// missing, repeated and stale closes are all observed
	if o.Violation == "" && o.Skip == "" {
		last := now
		for _, r := range all {
			if r.due+1 > last {
				last = r.due + 1
			}
		}
		for now < last {
			if !doTick() {
				break
			}
		}
	}
	// exactly once, and never by a removed, refreshed or already closed registration: when no
	// goroutine started by the wheel is left, every session's callbacks must have run exactly
	// as often as the wheel's state said it dispatched a close for it (each such dispatch was
	// judged above)
	if o.Violation == "" && o.Skip == "" {
		if !quiesceWheel() {
			o.Skip = "goroutines started by handleTick did not end within 60 s"
		} else {
			for k := 0; k < c.Keys; k++ {
				if got := run.get(k); got != expect[k] {
					fail("after %d ticks: the close callback of session %s ran %d times, but the wheel unregistered it for a close %d times: a close was dispatched by a removed, refreshed or already closed registration, or more than once", now, keyName(k), got, expect[k])
				}
			}
		}
	}
	for l := range lbl {
		o.Labels = append(o.Labels, l)
	}
	sort.Strings(o.Labels)
	o.NonTrivial = lbl["closed_after_full_rounds"] || (lbl["closed_on_time"] && (lbl["refresh"] || lbl["remove_pending"]))
	if o.Violation == "" && known != "" {
		o.Known = known
	} else {
		o.KnownWhat = ""
	}
	return
}

func TestC37Wheel(t *testing.T) {
	pbt.Run(t, pbt.Spec{ID: "C37", Sub: "wheel", Quick: 10000, Thorough: 100000,
		Rule:  "wheel with tick 1/2/3/5 s and 1-8 buckets (5% the production 5 s x 3600); 1-5 sessions; up to 60 operations: add/refresh with whole-second timeouts below, equal to, next to and 2-4 multiples of the span (a quarter of the adds in two thirds of the cases are not multiples of the tick), remove, runs of ticks, advance to (just before) the earliest due tick; then ticks past every registration's due tick. non-trivial = a close was observed after one or more full rounds of the wheel, or a close on time in a history that also refreshed or removed a pending registration",
		Floor: 0.4}, genTW, checkTW)
}
