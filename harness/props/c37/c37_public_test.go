//go:build verif

// C37, public path: util.TimeWheel driven by its own sleeping loop through
// Add/Remove, measured with the wall clock (thorough tier only; a handful of
// cases, each takes 8-20 s). Only statements that scheduling delays cannot
// falsify are asserted strictly: a close observed less than the timeout after
// the *start* of the latest Add call is early whatever the load (delays only
// make the observed interval longer). "Closed at all", "not closed after
// Remove" and "not much too late" use margins of more than a tick.
package c37

import (
	"fmt"
	"sort"
	"sync"
	"testing"
	"time"

	"github.com/XiaoMi/Gaea/util"
	"pgregory.net/rapid"
	"verifharness/internal/pbt"
)

type pubKey struct {
	AddAtMs  int  `json:"add_at_ms"` // offset of the first Add from Start
	TimeoutS int  `json:"timeout_s"` // whole seconds
	Refresh  bool `json:"refresh"`   // a second Add, 1.5 ticks before the first registration is due
	Remove   bool `json:"remove"`    // Remove, 1.5 ticks before the (last) registration is due
}

type pubCase struct {
	TickS   int      `json:"tick_s"`
	Buckets int      `json:"buckets"`
	Keys    []pubKey `json:"keys"`
}

func genPub(t *rapid.T) pubCase {
	c := pubCase{TickS: rapid.SampledFrom([]int{1, 1, 2}).Draw(t, "tick"), Buckets: rapid.IntRange(2, 4).Draw(t, "buckets")}
	n := rapid.IntRange(1, 3).Draw(t, "keys")
	for i := 0; i < n; i++ {
		k := pubKey{
			AddAtMs: rapid.IntRange(0, 2).Draw(t, "tick_no")*c.TickS*1000 + rapid.IntRange(300, 700).Draw(t, "phase")*c.TickS,
			Refresh: rapid.Bool().Draw(t, "refresh"), Remove: rapid.IntRange(0, 3).Draw(t, "remove") == 0,
		}
		ticks := rapid.IntRange(2, 2*c.Buckets+1).Draw(t, "ticks") // >= 2 ticks so that refresh/remove fit in
		k.TimeoutS = ticks * c.TickS
		if c.TickS > 1 && rapid.Bool().Draw(t, "frac") {
			k.TimeoutS++ // not a multiple of the tick
		}
		c.Keys = append(c.Keys, k)
	}
	return c
}

type pubEvent struct {
	at   time.Duration // since Start
	kind string        // add | remove
	key  int
}

func checkPub(c pubCase) (o pbt.Outcome) {
	if c.TickS < 1 || c.Buckets < 1 || len(c.Keys) == 0 {
		o.Skip = "malformed case"
		return
	}
	tick := time.Duration(c.TickS) * time.Second
	tw, err := util.NewTimeWheel(tick, c.Buckets)
	if err != nil {
		o.Violation = err.Error()
		return
	}
	var evs []pubEvent
	end := time.Duration(0)
	for i, k := range c.Keys {
		if k.TimeoutS < 2*c.TickS {
			o.Skip = "timeout below two ticks"
			return
		}
		d := time.Duration(k.TimeoutS) * time.Second
		at := time.Duration(k.AddAtMs) * time.Millisecond
		evs = append(evs, pubEvent{at, "add", i})
		last := at
		if k.Refresh {
			last = at + d - 3*tick/2
			if last <= at {
				last = at + tick/4
			}
			evs = append(evs, pubEvent{last, "add", i})
		}
		if k.Remove {
			evs = append(evs, pubEvent{last + d - 3*tick/2, "remove", i})
		}
		if e := last + d + 3*tick + 2*time.Second; e > end {
			end = e
		}
	}
	sort.SliceStable(evs, func(i, j int) bool { return evs[i].at < evs[j].at })

	var mu sync.Mutex
	fires := map[int][]time.Time{}
	lastAdd := map[int]time.Time{}
	removed := map[int]time.Time{}
	tw.Start()
	defer tw.Stop()
	start := time.Now()
	for _, ev := range evs {
		if d := time.Until(start.Add(ev.at)); d > 0 {
			time.Sleep(d)
		}
		key := ev.key
		switch ev.kind {
		case "add":
			mu.Lock()
			lastAdd[key] = time.Now() // before the call: the interval to the close is never under-estimated
			mu.Unlock()
			tw.Add(time.Duration(c.Keys[key].TimeoutS)*time.Second, fmt.Sprintf("s%d", key), func() {
				mu.Lock()
				fires[key] = append(fires[key], time.Now())
				mu.Unlock()
			})
		case "remove":
			tw.Remove(fmt.Sprintf("s%d", key))
			mu.Lock()
			removed[key] = time.Now()
			mu.Unlock()
		}
	}
	time.Sleep(time.Until(start.Add(end)))
	mu.Lock()
	defer mu.Unlock()
	for i, k := range c.Keys {
		d := time.Duration(k.TimeoutS) * time.Second
		fs := fires[i]
		name := fmt.Sprintf("session s%d (timeout %ds, tick %ds)", i, k.TimeoutS, c.TickS)
		if k.Remove {
			o.Labels = append(o.Labels, "removed")
			if len(fs) > 0 {
				o.Violation = fmt.Sprintf("%s was closed %v after Start although it was removed at %v, 1.5 ticks before it was due", name, fs[0].Sub(start), removed[i].Sub(start))
				return
			}
			continue
		}
		if len(fs) != 1 {
			o.Violation = fmt.Sprintf("%s was closed %d times within %v (last Add %v after Start)", name, len(fs), end, lastAdd[i].Sub(start))
			return
		}
		el := fs[0].Sub(lastAdd[i])
		switch {
		case el < d && k.TimeoutS%c.TickS != 0 && el >= time.Duration(k.TimeoutS/c.TickS)*tick:
			o.Labels = append(o.Labels, "closed_early_rounding")
			o.Known = "C37-F1"
			o.KnownWhat = fmt.Sprintf("public Add/loop path: %s was closed %v after its last Add started", name, el.Round(time.Millisecond))
		case el < d:
			o.Violation = fmt.Sprintf("%s was closed only %v after its last Add started", name, el.Round(time.Millisecond))
			return
		case el > d+2*tick+time.Second:
			o.Violation = fmt.Sprintf("%s was closed %v after its last Add, more than two ticks late", name, el.Round(time.Millisecond))
			return
		default:
			o.Labels = append(o.Labels, "closed_in_window")
		}
		if k.Refresh {
			o.Labels = append(o.Labels, "refreshed")
		}
	}
	o.NonTrivial = true
	return
}

func TestC37Public(t *testing.T) {
	pbt.Run(t, pbt.Spec{ID: "C37", Sub: "public", Quick: 0, Thorough: 2,
		Rule:  "real-time smoke of the public path (Start/Add/Remove, the wheel's own sleeping loop): tick 1 or 2 s, 2-4 buckets, 1-3 sessions with timeouts of 2..2*buckets+1 ticks (tick 2 s: half of them plus one second), optional refresh and remove 1.5 ticks before the due time; every case is non-trivial",
		Floor: 0.9}, genPub, checkPub)
}
