//go:build verif

// C08 Mycat-compatible rules place keys exactly where Mycat does.
//
// A namespace with one mycat_mod / mycat_long / mycat_string / mycat_murmur rule
// is loaded with router.NewRouter; every generated key is routed with
// Rule.FindTableIndex (+ GetDatabaseNameByTableIndex) and compared with
// internal/mycatref, a re-implementation of the Java algorithms with explicit
// int/long/UTF-16 semantics. The reference is validated first against published
// murmur3 vectors and against the Mycat-derived expectations of Gaea's own
// shard_mycat_test.go (TestC08ReferenceVectors).
package c08

import (
	"fmt"
	"math"
	"strconv"
	"strings"
	"testing"
	"unicode/utf8"

	"github.com/XiaoMi/Gaea/models"
	"github.com/XiaoMi/Gaea/proxy/router"
	"pgregory.net/rapid"
	"verifharness/internal/mycatref"
	"verifharness/internal/pbt"
)

// ---------- case ----------

type key struct {
	Kind string `json:"kind"` // "int64" | "uint64" | "string": the Go type handed to FindTableIndex (what util.GetValueExprResult yields)
	I    int64  `json:"i,omitempty"`
	U    uint64 `json:"u,omitempty"`
	S    string `json:"s,omitempty"`
}

func (k key) value() interface{} {
	switch k.Kind {
	case "int64":
		return k.I
	case "uint64":
		return k.U
	}
	return k.S
}

// text is the column value as Mycat sees it (the literal's text).
func (k key) text() string {
	switch k.Kind {
	case "int64":
		return strconv.FormatInt(k.I, 10)
	case "uint64":
		return strconv.FormatUint(k.U, 10)
	}
	return k.S
}

type c08Case struct {
	Rule               string   `json:"rule"`
	Locations          []int    `json:"locations"` // tables (= databases) per slice
	Databases          []string `json:"databases"` // as configured; "p[a-b]" expands to pa..pb
	PartitionCount     string   `json:"partition_count,omitempty"`
	PartitionLength    string   `json:"partition_length,omitempty"`
	HashSlice          string   `json:"hash_slice,omitempty"`
	Seed               string   `json:"seed,omitempty"`
	VirtualBucketTimes string   `json:"virtual_bucket_times,omitempty"`
	Keys               []key    `json:"keys"`
}

// ---------- generators ----------

var extremeInts = []int64{0, 1, -1, 2, -2, math.MinInt64, math.MinInt64 + 1, math.MaxInt64, math.MaxInt64 - 1,
	1023, 1024, 1025, -1023, -1024, -1025, 1 << 31, 1<<31 - 1, -(1 << 31), -(1 << 31) - 1, 1 << 32, 1<<32 - 1, 1<<32 + 1, -(1 << 32),
	1 << 53, 1<<62 + 1023, -(1 << 62) - 1}

func genInt(t *rapid.T, name string) int64 {
	switch rapid.IntRange(0, 5).Draw(t, name+"_k") {
	case 0:
		return rapid.SampledFrom(extremeInts).Draw(t, name+"_x")
	case 1: // around a multiple of 1024
		m := rapid.Int64Range(-(1 << 40), 1<<40).Draw(t, name+"_m")
		return m*1024 + int64(rapid.IntRange(-2, 2).Draw(t, name+"_d"))
	case 2: // around a multiple of 2^32
		m := rapid.Int64Range(-(1 << 30), 1<<30).Draw(t, name+"_m")
		return m<<32 + int64(rapid.IntRange(-2, 2).Draw(t, name+"_d"))
	case 3:
		return rapid.Int64().Draw(t, name+"_u")
	case 4:
		return rapid.Int64Range(-5000, 5000).Draw(t, name+"_s")
	default:
		sh := rapid.IntRange(0, 62).Draw(t, name+"_sh")
		return rapid.Int64().Draw(t, name+"_u") >> uint(sh)
	}
}

// numeric key in one of the Go types / spellings a SQL literal can arrive in
func genNumKey(t *rapid.T, name string) key {
	v := genInt(t, name)
	switch rapid.IntRange(0, 5).Draw(t, name+"_ty") {
	case 0, 1:
		return key{Kind: "int64", I: v}
	case 2:
		if v >= 0 {
			return key{Kind: "uint64", U: uint64(v)}
		}
		return key{Kind: "int64", I: v}
	case 3:
		return key{Kind: "string", S: strconv.FormatInt(v, 10)}
	case 4: // explicit plus / leading zeros: accepted by Long.parseLong, BigInteger and strconv alike
		s := strconv.FormatInt(v, 10)
		if v >= 0 {
			if rapid.Bool().Draw(t, name+"_plus") {
				return key{Kind: "string", S: "+" + s}
			}
			return key{Kind: "string", S: "00" + s}
		}
		return key{Kind: "string", S: "-0" + s[1:]}
	default:
		return key{Kind: "string", S: strconv.FormatInt(v, 10)}
	}
}

var (
	asciiRunes  = []rune("abcxyzABCXYZ0123456789 _-:,.!?@#/\\'\"%()~")
	latin1Runes = []rune("éüßÿÀñ¿£")
	bmp2Runes   = []rune("λЖשع")                 // 2-byte UTF-8
	cjkRunes    = []rune("你好中国日本語かなカナ한글，。")        // 3-byte UTF-8
	markRunes   = []rune{0x0301, 0x0308, 0x20DD, 0x200D} // combining marks, ZWJ
	edgeRunes   = []rune{0x7f, 0x80, 0x7ff, 0x800, 0xd7ff, 0xe000, 0xfffd, 0xffff}
	suppRunes   = []rune{0x1F600, 0x1F468, 0x20000, 0x2A6D6, 0x1D11E, 0x10000, 0x10FFFF, 0xFFFFF}
)

func genText(t *rapid.T, name string) string {
	n := rapid.IntRange(0, 40).Draw(t, name+"_len")
	if rapid.IntRange(0, 3).Draw(t, name+"_short") == 0 {
		n = rapid.IntRange(0, 5).Draw(t, name+"_len2")
	}
	// mix: 0 ascii only, 1 ascii+bmp, 2 everything, 3 mostly supplementary
	mix := rapid.IntRange(0, 3).Draw(t, name+"_mix")
	var sb strings.Builder
	for i := 0; i < n; i++ {
		var set []rune
		c := rapid.IntRange(0, 9).Draw(t, name+"_c")
		switch mix {
		case 0:
			set = asciiRunes
		case 1:
			set = [][]rune{asciiRunes, asciiRunes, asciiRunes, asciiRunes, latin1Runes, bmp2Runes, cjkRunes, cjkRunes, markRunes, edgeRunes}[c]
		case 2:
			set = [][]rune{asciiRunes, asciiRunes, asciiRunes, latin1Runes, bmp2Runes, cjkRunes, cjkRunes, markRunes, suppRunes, suppRunes}[c]
		default:
			set = [][]rune{asciiRunes, asciiRunes, cjkRunes, suppRunes, suppRunes, suppRunes, suppRunes, suppRunes, suppRunes, edgeRunes}[c]
		}
		sb.WriteRune(rapid.SampledFrom(set).Draw(t, name+"_r"))
	}
	return sb.String()
}

func genTextKey(t *rapid.T, name string) key {
	if rapid.IntRange(0, 5).Draw(t, name+"_num") == 0 {
		return genNumKey(t, name+"_n")
	}
	return key{Kind: "string", S: genText(t, name)}
}

// layout draws the number of databases, their split over slices and the
// configured database list (plain names and "prefix[a-b]" lists).
func genLayout(t *rapid.T, n int) ([]int, []string) {
	// locations: split n over 1-4 slices
	ns := rapid.IntRange(1, min(4, n)).Draw(t, "nslices")
	loc := make([]int, ns)
	for i := range loc {
		loc[i] = 1
	}
	for r := n - ns; r > 0; r-- {
		loc[rapid.IntRange(0, ns-1).Draw(t, "loc")]++
	}
	var dbs []string
	left := n
	g := 0
	for left > 0 {
		take := rapid.IntRange(1, left).Draw(t, "dbgroup")
		if take >= 2 && rapid.Bool().Draw(t, "dbrange") {
			a := rapid.IntRange(0, 12).Draw(t, "dba")
			dbs = append(dbs, fmt.Sprintf("g%d_[%d-%d]", g, a, a+take-1))
			left -= take
		} else {
			dbs = append(dbs, fmt.Sprintf("p%d", g))
			left--
		}
		g++
	}
	return loc, dbs
}

// genPartition builds partition_count / partition_length lists whose expanded
// lengths sum to 1024 (construction, not rejection): groups 1..k-1 are drawn
// freely, the last group's count is a divisor of what remains.
func genPartition(t *rapid.T) (n int, count, length string) {
	k := rapid.IntRange(1, 4).Draw(t, "groups")
	var cs, ls []int
	remain := 1024
	nodes := 0
	for g := 0; g < k-1; g++ {
		if nodes >= 15 || remain < 2 {
			break
		}
		c := rapid.IntRange(1, min(6, 15-nodes)).Draw(t, "cnt")
		maxLen := (remain - 1) / c
		if maxLen < 1 {
			break
		}
		var l int
		if rapid.Bool().Draw(t, "pow2") {
			l = 1 << uint(rapid.IntRange(0, 8).Draw(t, "lenpow"))
			if l > maxLen {
				l = maxLen
			}
		} else {
			l = rapid.IntRange(1, maxLen).Draw(t, "len")
		}
		cs, ls = append(cs, c), append(ls, l)
		nodes += c
		remain -= c * l
	}
	var divs []int
	for d := 1; d <= 16-nodes; d++ {
		if remain%d == 0 {
			divs = append(divs, d)
		}
	}
	c := rapid.SampledFrom(divs).Draw(t, "lastcnt")
	cs, ls = append(cs, c), append(ls, remain/c)
	nodes += c
	sep := rapid.SampledFrom([]string{",", ", "}).Draw(t, "sep")
	j := func(v []int) string {
		p := make([]string, len(v))
		for i, x := range v {
			p[i] = strconv.Itoa(x)
		}
		return strings.Join(p, sep)
	}
	return nodes, j(cs), j(ls)
}

func genHashSlice(t *rapid.T) string {
	b := func(name string) int {
		if rapid.IntRange(0, 3).Draw(t, name+"_big") == 0 {
			return rapid.IntRange(0, 90).Draw(t, name)
		}
		return rapid.IntRange(0, 8).Draw(t, name)
	}
	var s string
	switch rapid.IntRange(0, 9).Draw(t, "hs_form") {
	case 0:
		s = strconv.Itoa(b("n"))
	case 1:
		s = "-" + strconv.Itoa(b("n")+1)
	case 2:
		s = fmt.Sprintf("%d:%d", b("a"), b("b"))
	case 3:
		s = fmt.Sprintf("%d:", b("a"))
	case 4:
		s = fmt.Sprintf(":%d", b("b"))
	case 5:
		s = ":"
	case 6:
		s = fmt.Sprintf("-%d:", b("a")+1)
	case 7:
		s = fmt.Sprintf(":-%d", b("b")+1)
	case 8:
		s = fmt.Sprintf("-%d:-%d", b("a")+1, b("b")+1)
	default:
		s = fmt.Sprintf("-%d:%d", b("a")+1, b("b"))
	}
	if rapid.IntRange(0, 7).Draw(t, "hs_ws") == 0 {
		s = " " + s + " "
	}
	return s
}

func genCase(ruleType string) func(t *rapid.T) c08Case {
	return func(t *rapid.T) c08Case {
		c := c08Case{Rule: ruleType}
		var n int
		switch ruleType {
		case "mycat_mod":
			n = rapid.IntRange(1, 16).Draw(t, "dbs")
		case "mycat_long":
			n, c.PartitionCount, c.PartitionLength = genPartition(t)
		case "mycat_string":
			n, c.PartitionCount, c.PartitionLength = genPartition(t)
			c.HashSlice = genHashSlice(t)
		case "mycat_murmur":
			n = rapid.IntRange(1, 16).Draw(t, "dbs")
			switch rapid.IntRange(0, 4).Draw(t, "seedk") {
			case 0:
				c.Seed = "0"
			case 1:
				c.Seed = strconv.Itoa(int(rapid.SampledFrom([]int32{1, -1, math.MaxInt32, math.MinInt32, 42}).Draw(t, "seedx")))
			default:
				c.Seed = strconv.Itoa(int(rapid.Int32().Draw(t, "seed")))
			}
			switch rapid.IntRange(0, 19).Draw(t, "vbk") {
			case 0:
				c.VirtualBucketTimes = "" // default 160
			case 1:
				c.VirtualBucketTimes = "160"
			case 2, 3:
				c.VirtualBucketTimes = strconv.Itoa(rapid.IntRange(61, 200).Draw(t, "vb"))
			case 4, 5, 6, 7, 8, 9:
				c.VirtualBucketTimes = strconv.Itoa(rapid.IntRange(11, 60).Draw(t, "vb"))
			default:
				c.VirtualBucketTimes = strconv.Itoa(rapid.IntRange(1, 10).Draw(t, "vb"))
			}
		}
		c.Locations, c.Databases = genLayout(t, n)
		nk := rapid.IntRange(1, 12).Draw(t, "nkeys")
		for i := 0; i < nk; i++ {
			name := fmt.Sprintf("k%d", i)
			switch ruleType {
			case "mycat_mod", "mycat_long":
				if rapid.IntRange(0, 11).Draw(t, name+"_bad") == 0 {
					// not a number for either side
					c.Keys = append(c.Keys, key{Kind: "string", S: rapid.SampledFrom([]string{"", "abc", "12a", " 12", "12 ", "1.5", "-", "+", "0x10", "1e3", "--5", "你好"}).Draw(t, name+"_s")})
				} else {
					c.Keys = append(c.Keys, genNumKey(t, name))
				}
			default:
				c.Keys = append(c.Keys, genTextKey(t, name))
			}
		}
		return c
	}
}

// ---------- reference helpers written for the check ----------

// expandDatabases is the harness's reading of the documented database list
// syntax: "name[a-b]" stands for namea .. nameb inclusive.
func expandDatabases(dbs []string) []string {
	var out []string
	for _, d := range dbs {
		lb := strings.LastIndexByte(d, '[')
		if lb > 0 && strings.HasSuffix(d, "]") {
			parts := strings.SplitN(d[lb+1:len(d)-1], "-", 2)
			if len(parts) == 2 {
				a, ea := strconv.Atoi(parts[0])
				b, eb := strconv.Atoi(parts[1])
				if ea == nil && eb == nil && a < b {
					for i := a; i <= b; i++ {
						out = append(out, d[:lb]+strconv.Itoa(i))
					}
					continue
				}
			}
		}
		out = append(out, d)
	}
	return out
}

func isASCII(s string) bool {
	for i := 0; i < len(s); i++ {
		if s[i] >= 0x80 {
			return false
		}
	}
	return true
}

func hasSupplementary(s string) bool {
	for _, r := range s {
		if r > 0xffff {
			return true
		}
	}
	return false
}

// ---------- the property ----------

type murmurParams struct {
	seed       int32
	count, vbt int
}

var murmurRefCache = map[murmurParams]*mycatref.Murmur{} // pure memo of the reference ring

func refMurmur(p murmurParams) (*mycatref.Murmur, error) {
	if m, ok := murmurRefCache[p]; ok {
		return m, nil
	}
	m, err := mycatref.NewMurmur(p.seed, p.count, p.vbt)
	if err == nil {
		if len(murmurRefCache) > 256 {
			murmurRefCache = map[murmurParams]*mycatref.Murmur{}
		}
		murmurRefCache[p] = m
	}
	return m, err
}

// route calls Gaea. rejected: an error or a router.KeyError panic (Gaea's
// documented rejection). crash: any other panic.
func route(rule router.Rule, v interface{}) (idx int, db string, rejected string, crash string) {
	defer func() {
		if r := recover(); r != nil {
			if ke, ok := r.(router.KeyError); ok {
				rejected = "KeyError: " + string(ke)
				return
			}
			crash = fmt.Sprint(r)
		}
	}()
	idx, err := rule.FindTableIndex(v)
	if err != nil {
		return idx, "", "error: " + err.Error(), ""
	}
	// the database of that table index; an index outside the table list has none
	db = "<no such table>"
	pbt.Catch(func() {
		if d, e := rule.GetDatabaseNameByTableIndex(idx); e == nil {
			db = d
		}
	})
	return idx, db, "", ""
}

func checkCase(c08 c08Case) (o pbt.Outcome) {
	c := c08
	wantDBs := expandDatabases(c.Databases)
	n := len(wantDBs)
	slices := make([]*models.Slice, len(c.Locations))
	names := make([]string, len(c.Locations))
	for i := range slices {
		names[i] = fmt.Sprintf("slice-%d", i)
		slices[i] = &models.Slice{Name: names[i]}
	}
	ns := &models.Namespace{Name: "ns", Slices: slices, DefaultSlice: names[0], ShardRules: []*models.Shard{{
		DB: "logic", Table: "T", Type: c.Rule, Key: "k", Locations: c.Locations, Slices: names, Databases: c.Databases,
		PartitionCount: c.PartitionCount, PartitionLength: c.PartitionLength, HashSlice: c.HashSlice,
		Seed: c.Seed, VirtualBucketTimes: c.VirtualBucketTimes,
	}}}

	// reference for this parameter set
	var (
		refLong   *mycatref.Long
		refString *mycatref.String
		refMur    *mycatref.Murmur
		seed      int32
		err       error
	)
	switch c.Rule {
	case "mycat_mod":
	case "mycat_long":
		refLong, err = mycatref.NewLong(c.PartitionCount, c.PartitionLength)
	case "mycat_string":
		refString, err = mycatref.NewString(c.PartitionCount, c.PartitionLength, c.HashSlice)
	case "mycat_murmur":
		s64, e := strconv.ParseInt(c.Seed, 10, 32)
		vbt := 160
		if c.VirtualBucketTimes != "" {
			vbt, err = strconv.Atoi(c.VirtualBucketTimes)
		}
		if e != nil {
			err = e
		}
		if err == nil {
			seed = int32(s64)
			refMur, err = refMurmur(murmurParams{seed, n, vbt})
		}
	default:
		o.Skip = "unknown rule type"
		return
	}
	if err != nil {
		o.Skip = "parameter set not valid for Mycat: " + err.Error()
		return
	}
	if refLong != nil && refLong.Nodes() != n || refString != nil && refString.Nodes() != n {
		o.Skip = "partition_count does not sum to the number of databases"
		return
	}

	var rt *router.Router
	if p := pbt.Catch(func() { rt, err = router.NewRouter(ns) }); p != "" {
		o.Violation = "NewRouter panicked on a valid Mycat parameter set: " + p
		return
	}
	if err != nil {
		o.Violation = "NewRouter rejects a valid Mycat parameter set: " + err.Error()
		return
	}
	rule, ok := rt.GetShardRule("logic", "t")
	if !ok {
		o.Violation = "rule logic.t not found after NewRouter"
		return
	}
	o.Labels = append(o.Labels, "rule_"+c.Rule, fmt.Sprintf("dbs_%02d", n))
	if c.Rule == "mycat_string" {
		switch {
		case refString.Start < 0 && refString.End < 0:
			o.Labels = append(o.Labels, "slice_neg_start_neg_end")
		case refString.Start < 0:
			o.Labels = append(o.Labels, "slice_neg_start")
		case refString.End < 0:
			o.Labels = append(o.Labels, "slice_neg_end")
		case refString.End == 0:
			o.Labels = append(o.Labels, "slice_open_end")
		default:
			o.Labels = append(o.Labels, "slice_positive")
		}
		if refString.Start < 0 || refString.End <= 0 {
			o.NonTrivial = true
		}
	}

	var unclassified []string
	for _, k := range c.Keys {
		text := k.text()
		// reference placement
		want, refErr := -1, error(nil)
		switch c.Rule {
		case "mycat_mod":
			want, refErr = mycatref.Mod(n, text)
		case "mycat_long":
			want, refErr = refLong.Calculate(text)
		case "mycat_string":
			want = refString.Calculate(text)
		case "mycat_murmur":
			want = refMur.Calculate(text)
		}
		// labels / non-trivial
		switch {
		case k.Kind != "string" || refErr == nil && (c.Rule == "mycat_mod" || c.Rule == "mycat_long"):
			o.Labels = append(o.Labels, "key_numeric")
			if v, e := strconv.ParseInt(strings.TrimPrefix(text, "+"), 10, 64); e == nil {
				if v < 0 {
					o.Labels = append(o.Labels, "key_negative")
					o.NonTrivial = true
				}
				if v == math.MinInt64 || v == math.MaxInt64 || v == math.MinInt64+1 {
					o.Labels = append(o.Labels, "key_int64_extreme")
					o.NonTrivial = true
				}
			}
		case refErr != nil:
			o.Labels = append(o.Labels, "key_rejected_by_mycat")
		case isASCII(text):
			o.Labels = append(o.Labels, "key_ascii")
		case hasSupplementary(text):
			o.Labels = append(o.Labels, "key_supplementary")
			o.NonTrivial = true
		default:
			o.Labels = append(o.Labels, "key_bmp_multibyte")
			o.NonTrivial = true
		}
		if !utf8.ValidString(text) {
			o.Skip = "key is not valid UTF-8 (generator error)"
			return
		}

		got, gotDB, rejected, crash := route(rule, k.value())
		desc := fmt.Sprintf("%s key %s(%q)", c.Rule, k.Kind, text)
		if refErr != nil {
			// Mycat cannot have stored a row under this key; nothing is demanded of Gaea.
			if rejected == "" && crash == "" {
				o.Labels = append(o.Labels, "gaea_accepts_what_mycat_rejects")
			} else {
				o.Labels = append(o.Labels, "both_reject")
			}
			continue
		}
		fail := ""
		switch {
		case crash != "":
			fail = fmt.Sprintf("%s: Mycat places it in node %d (%s), Gaea fails: %s (index %d)", desc, want, wantDBs[want], crash, got)
		case rejected != "":
			fail = fmt.Sprintf("%s: Mycat places it in node %d (%s), Gaea rejects it: %s", desc, want, wantDBs[want], rejected)
		case got != want:
			fail = fmt.Sprintf("%s: Mycat places it in node %d (%s), Gaea in table index %d (%s)", desc, want, wantDBs[want], got, gotDB)
		case gotDB != wantDBs[want]:
			fail = fmt.Sprintf("%s: node %d is database %s, Gaea names %s", desc, want, wantDBs[want], gotDB)
		}
		if fail == "" {
			continue
		}
		// no finding of this property is open: every disagreement is a violation
		unclassified = append(unclassified, fail)
	}
	if len(unclassified) > 0 {
		o.Violation = unclassified[0]
		if len(unclassified) > 1 {
			o.Violation += fmt.Sprintf(" (+%d more keys of this case)", len(unclassified)-1)
		}
		return
	}
	return
}

const ruleText = "1-16 databases over 1-4 slices, database lists with plain names and name[a-b] ranges; 1-12 keys per parameter set; " +
	"non-trivial = a key is negative / an int64 extreme / contains a non-ASCII character, or the hash slice has a negative or open bound"

func TestC08ReferenceVectors(t *testing.T) {
	if bad := mycatref.CheckVectors(); len(bad) > 0 {
		for _, b := range bad {
			t.Error(b)
		}
		t.Fatalf("the Mycat reference disagrees with %d of the %d Mycat-derived vectors: the oracle cannot be trusted", len(bad), len(mycatref.MycatVectors))
	}
}

func TestC08Mod(t *testing.T) {
	pbt.Run(t, pbt.Spec{ID: "C08", Sub: "mod", Quick: 3000, Thorough: 60000,
		Rule: "mycat_mod vs PartitionByMod (BigInteger.abs().mod): int64 extremes, neighbourhoods of multiples of 1024 and 2^32, uniform; as int64, uint64, decimal strings (with +, leading zeros), non-numeric strings; " + ruleText,
		Floor: 0.5}, genCase("mycat_mod"), checkCase)
}

func TestC08Long(t *testing.T) {
	pbt.Run(t, pbt.Spec{ID: "C08", Sub: "long", Quick: 3000, Thorough: 60000,
		Rule: "mycat_long vs PartitionByLong/PartitionUtil: partition_count/partition_length of 1-4 groups with unequal lengths summing to 1024; keys as for mod; " + ruleText,
		Floor: 0.5}, genCase("mycat_long"), checkCase)
}

func TestC08String(t *testing.T) {
	pbt.Run(t, pbt.Spec{ID: "C08", Sub: "string", Quick: 5000, Thorough: 60000,
		Rule: "mycat_string vs PartitionByString (PairUtil.sequenceSlicing, StringUtil.hash over UTF-16 units): hash slices n, -n, a:b, a:, :b, :, -a:, :-b, -a:-b, -a:b with bounds 0-90; keys of 0-40 characters over ASCII, Latin-1, 2- and 3-byte BMP, combining marks, BMP edge code points and supplementary-plane characters, plus numeric keys; " + ruleText,
		Floor: 0.5}, genCase("mycat_string"), checkCase)
}

func TestC08Murmur(t *testing.T) {
	pbt.Run(t, pbt.Spec{ID: "C08", Sub: "murmur", Quick: 1500, Thorough: 6000,
		Rule: "mycat_murmur vs PartitionByMurmurHash (Guava murmur3_32 hashUnencodedChars, TreeMap tailMap ring): seeds over all int32 incl. 0, -1, MIN, MAX; virtual bucket counts 1-200 and the default; keys as for string; " + ruleText,
		Floor: 0.5}, genCase("mycat_murmur"), checkCase)
}
