//go:build verif

// C12 Length-encoded wire values round-trip and decoding stays in bounds.
package c12

import (
	"bytes"
	"fmt"
	"testing"
	"unsafe"

	"github.com/XiaoMi/Gaea/mysql"
	"pgregory.net/rapid"
	"verifharness/internal/pbt"
)

var boundaryInts = []uint64{0, 1, 249, 250, 251, 252, 253, 254, 255, 256, 1<<16 - 1, 1 << 16, 1<<16 + 1,
	1<<24 - 1, 1 << 24, 1<<24 + 1, 1<<32 - 1, 1 << 32, 1<<32 + 1, 1<<63 - 1, 1 << 63, 1<<63 + 1, 1<<64 - 2, 1<<64 - 1}

func genUint(t *rapid.T, name string) uint64 {
	switch rapid.IntRange(0, 3).Draw(t, name+"_k") {
	case 0:
		return rapid.SampledFrom(boundaryInts).Draw(t, name)
	case 1:
		// around a size-class boundary
		b := rapid.SampledFrom([]uint64{251, 1 << 16, 1 << 24, 1 << 32, 1 << 63}).Draw(t, name+"_b")
		return b + uint64(rapid.IntRange(-3, 3).Draw(t, name+"_d"))
	case 2:
		return rapid.Uint64().Draw(t, name)
	default:
		sh := rapid.IntRange(0, 63).Draw(t, name+"_sh")
		return rapid.Uint64().Draw(t, name) >> uint(sh)
	}
}

// ---- encode round trip ----

type encCase struct {
	V      uint64 `json:"v"`
	Prefix int    `json:"prefix"` // bytes before the value in the buffer
	StrLen int    `json:"str_len"`
	Salt   byte   `json:"salt"`
}

func genEnc(t *rapid.T) encCase {
	c := encCase{V: genUint(t, "v"), Prefix: rapid.IntRange(0, 5).Draw(t, "prefix"), Salt: rapid.Byte().Draw(t, "salt")}
	switch rapid.IntRange(0, 3).Draw(t, "lk") {
	case 0:
		c.StrLen = rapid.SampledFrom([]int{0, 1, 249, 250, 251, 252, 255, 256, 65534, 65535, 65536, 65537, 70000}).Draw(t, "len")
	default:
		c.StrLen = rapid.IntRange(0, 600).Draw(t, "len")
	}
	return c
}

func pattern(n int, salt byte) []byte {
	b := make([]byte, n)
	for i := range b {
		b[i] = byte(i*31) ^ salt ^ byte(i>>8)
	}
	return b
}

func refLenEncSize(v uint64) int {
	switch {
	case v <= 250:
		return 1
	case v <= 0xffff:
		return 3
	case v <= 0xffffff:
		return 4
	}
	return 9
}

func checkEnc(c encCase) (o pbt.Outcome) {
	o.Labels = append(o.Labels, fmt.Sprintf("int_size_%d", refLenEncSize(c.V)))
	o.NonTrivial = c.V > 250 || c.StrLen > 250
	if p := pbt.Catch(func() {
		// integer
		size := mysql.LenEncIntSize(c.V)
		if size != refLenEncSize(c.V) {
			o.Violation = fmt.Sprintf("LenEncIntSize(%d)=%d want %d", c.V, size, refLenEncSize(c.V))
			return
		}
		buf := make([]byte, c.Prefix+size)
		end := mysql.WriteLenEncInt(buf, c.Prefix, c.V)
		if end != c.Prefix+size {
			o.Violation = fmt.Sprintf("WriteLenEncInt(%d) ended at %d want %d", c.V, end, c.Prefix+size)
			return
		}
		app := mysql.AppendLenEncInt(make([]byte, c.Prefix), c.V)
		if !bytes.Equal(app, buf) {
			o.Violation = fmt.Sprintf("AppendLenEncInt and WriteLenEncInt disagree for %d: %x vs %x", c.V, app, buf)
			return
		}
		got, pos, isNull, ok := mysql.ReadLenEncInt(buf, c.Prefix)
		if !ok || isNull || got != c.V || pos != c.Prefix+size {
			o.Violation = fmt.Sprintf("ReadLenEncInt(enc(%d)) = %d,pos=%d,null=%v,ok=%v", c.V, got, pos, isNull, ok)
			return
		}
		// string
		s := pattern(c.StrLen, c.Salt)
		ssize := mysql.LenEncStringSize(string(s))
		if ssize != refLenEncSize(uint64(len(s)))+len(s) {
			o.Violation = fmt.Sprintf("LenEncStringSize(len %d)=%d", len(s), ssize)
			return
		}
		sb := make([]byte, c.Prefix+ssize)
		e2 := mysql.WriteLenEncString(sb, c.Prefix, string(s))
		if e2 != len(sb) {
			o.Violation = fmt.Sprintf("WriteLenEncString(len %d) ended at %d want %d", len(s), e2, len(sb))
			return
		}
		ab := mysql.AppendLenEncStringBytes(make([]byte, c.Prefix), s)
		if !bytes.Equal(ab, sb) {
			o.Violation = fmt.Sprintf("AppendLenEncStringBytes and WriteLenEncString disagree for len %d", len(s))
			return
		}
		gb, p2, n2, ok2 := mysql.ReadLenEncStringAsBytes(sb, c.Prefix)
		if !ok2 || n2 || !bytes.Equal(gb, s) || p2 != len(sb) {
			o.Violation = fmt.Sprintf("ReadLenEncStringAsBytes(enc(len %d)) ok=%v null=%v pos=%d len=%d", len(s), ok2, n2, p2, len(gb))
			return
		}
	}); p != "" {
		o.Violation = "runtime panic: " + p
	}
	return
}

func TestC12Encode(t *testing.T) {
	pbt.Run(t, pbt.Spec{ID: "C12", Sub: "encode", Quick: 20000, Thorough: 300000,
		Rule: "uint64 from size-class boundaries, boundary neighbourhoods, uniform and shifted-uniform; byte strings of 0-70000 bytes; encode with Write*/Append*, decode with ReadLenEncInt/ReadLenEncStringAsBytes; non-trivial = value or length above 250 (multi-byte prefix)",
		Floor: 0.4}, genEnc, checkEnc)
}

// ---- decoder bounds ----

type decCase struct {
	Data []byte `json:"data"`
	Pos  int    `json:"pos"`
	Size int    `json:"size"` // for ReadBytes / ReadBytesCopy when SizeFromLen is false
	// when true the size passed to ReadBytesCopy is int(decoded length) as the handshake parser does
	SizeFromLen bool `json:"size_from_len"`
}

func genDec(t *rapid.T) decCase {
	var c decCase
	n := rapid.IntRange(0, 40).Draw(t, "n")
	body := rapid.SliceOfN(rapid.Byte(), n, n).Draw(t, "body")
	switch rapid.IntRange(0, 6).Draw(t, "shape") {
	case 0: // arbitrary
		c.Data = body
	case 1, 2, 5, 6: // multi-byte prefix with truncated or oversized length
		pre := rapid.SampledFrom([]byte{0xfb, 0xfc, 0xfd, 0xfe, 0xff, 0xfa}).Draw(t, "pre")
		var lenBytes []byte
		switch rapid.IntRange(0, 3).Draw(t, "lk") {
		case 0:
			lenBytes = []byte{0xff, 0xff, 0xff, 0xff, 0xff, 0xff, 0xff, 0xff}
		case 1:
			lenBytes = []byte{0, 0, 0, 0, 0, 0, 0, 0x80}
		case 2:
			lenBytes = []byte{0xff, 0xff, 0xff, 0xff, 0xff, 0xff, 0xff, 0x7f}
		default:
			v := uint64(rapid.IntRange(0, 80).Draw(t, "lv"))
			lenBytes = []byte{byte(v), 0, 0, 0, 0, 0, 0, 0}
		}
		keep := rapid.IntRange(0, 8).Draw(t, "keep")
		lead := rapid.IntRange(0, 3).Draw(t, "lead")
		c.Data = append(make([]byte, lead), pre)
		c.Data = append(c.Data, lenBytes[:keep]...)
		c.Data = append(c.Data, body...)
		c.Pos = lead
	case 3: // short length + exactly-fitting or one-short payload
		l := rapid.IntRange(0, 40).Draw(t, "l")
		short := rapid.IntRange(0, 2).Draw(t, "short")
		c.Data = append([]byte{byte(l)}, pattern(max(0, l-short), 7)...)
	default: // null strings
		c.Data = append(body, 0)
		c.Data = append(c.Data, body...)
	}
	if c.Pos == 0 {
		c.Pos = rapid.IntRange(0, len(c.Data)).Draw(t, "pos")
	}
	c.SizeFromLen = rapid.Bool().Draw(t, "sfl")
	c.Size = rapid.IntRange(0, 2*len(c.Data)+4).Draw(t, "size")
	return c
}

func within(sub, data []byte) bool {
	if len(sub) == 0 {
		return true
	}
	if len(data) == 0 {
		return false
	}
	s0 := uintptr(unsafe.Pointer(&sub[0]))
	d0 := uintptr(unsafe.Pointer(&data[0]))
	return s0 >= d0 && s0+uintptr(len(sub)) <= d0+uintptr(len(data))
}

func checkDec(c decCase) (o pbt.Outcome) {
	data := c.Data
	pos := c.Pos
	if pos < 0 || pos > len(data) {
		o.Skip = "offset outside buffer (callers never do this)"
		return
	}
	orig := append([]byte(nil), data...)
	if pos < len(data) && data[pos] >= 0xfb {
		o.Labels = append(o.Labels, fmt.Sprintf("prefix_%02x", data[pos]))
		o.NonTrivial = true
	}
	fail := func(f string, a ...interface{}) {
		if o.Violation == "" {
			o.Violation = fmt.Sprintf(f, a...)
		}
	}
	posOK := func(name string, np int, ok bool) {
		if ok && (np < pos || np > len(data)) {
			fail("%s: new position %d outside [%d,%d]", name, np, pos, len(data))
		}
	}
	run := func(name string, f func()) {
		if p := pbt.Catch(f); p != "" {
			fail("%s: runtime panic: %s", name, p)
		}
	}
	run("ReadByte", func() { _, np, ok := mysql.ReadByte(data, pos); posOK("ReadByte", np, ok) })
	run("ReadUint16", func() { _, np, ok := mysql.ReadUint16(data, pos); posOK("ReadUint16", np, ok) })
	run("ReadUint32", func() { _, np, ok := mysql.ReadUint32(data, pos); posOK("ReadUint32", np, ok) })
	run("ReadUint64", func() { _, np, ok := mysql.ReadUint64(data, pos); posOK("ReadUint64", np, ok) })
	run("ReadNullString", func() {
		s, np, ok := mysql.ReadNullString(data, pos)
		posOK("ReadNullString", np, ok)
		if ok && (np-1 < pos || string(data[pos:np-1]) != s || data[np-1] != 0) {
			fail("ReadNullString returned %q not matching input", s)
		}
		if !ok && bytes.IndexByte(data[pos:], 0) >= 0 {
			fail("ReadNullString failed although a terminator exists")
		}
	})
	run("ReadNullByte", func() {
		b, np, ok := mysql.ReadNullByte(data, pos)
		posOK("ReadNullByte", np, ok)
		if ok && !within(b, data) {
			fail("ReadNullByte result not inside input")
		}
	})
	var decodedLen uint64
	var lenOK bool
	var afterLen int
	run("ReadLenEncInt", func() {
		v, np, isNull, ok := mysql.ReadLenEncInt(data, pos)
		posOK("ReadLenEncInt", np, ok)
		decodedLen, lenOK, afterLen = v, ok && !isNull, np
		// reference decode
		if pos < len(data) {
			b := data[pos]
			need := map[byte]int{0xfc: 2, 0xfd: 3, 0xfe: 8}[b]
			wantOK := pos+need < len(data) || need == 0
			if ok != wantOK {
				fail("ReadLenEncInt ok=%v want %v (prefix %02x, %d bytes left)", ok, wantOK, b, len(data)-pos)
			}
			if ok && b != 0xfb {
				var want uint64
				if need == 0 {
					want = uint64(b)
				} else {
					for i := need; i >= 1; i-- {
						want = want<<8 | uint64(data[pos+i])
					}
				}
				if v != want || np != pos+1+need {
					fail("ReadLenEncInt=%d,pos %d want %d,pos %d", v, np, want, pos+1+need)
				}
			}
			if ok && (b == 0xfb) != isNull {
				fail("ReadLenEncInt null flag %v for prefix %02x", isNull, b)
			}
		} else if ok {
			fail("ReadLenEncInt ok at end of buffer")
		}
	})
	run("ReadLenEncStringAsBytes", func() {
		b, np, isNull, ok := mysql.ReadLenEncStringAsBytes(data, pos)
		posOK("ReadLenEncStringAsBytes", np, ok)
		if ok {
			if !within(b, data) {
				fail("ReadLenEncStringAsBytes result (len %d) not inside input", len(b))
			}
			if !isNull && lenOK && (uint64(len(b)) != decodedLen || np != afterLen+len(b)) {
				fail("ReadLenEncStringAsBytes length %d pos %d, prefix says %d", len(b), np, decodedLen)
			}
		} else if lenOK && decodedLen <= uint64(len(data)-afterLen) {
			fail("ReadLenEncStringAsBytes failed although %d bytes are available for length %d", len(data)-afterLen, decodedLen)
		}
	})
	size, spos := c.Size, pos
	if c.SizeFromLen {
		if !lenOK {
			size = -1
		} else {
			size, spos = int(decodedLen), afterLen // what readHandshakeResponse passes
			o.Labels = append(o.Labels, "size_from_decoded_length")
		}
	}
	if size >= 0 || c.SizeFromLen && lenOK {
		run("ReadBytes", func() {
			b, np, ok := mysql.ReadBytes(data, spos, size)
			if ok && (np < spos || np > len(data) || !within(b, data) || len(b) != size) {
				fail("ReadBytes(size %d) ok with pos %d len %d", size, np, len(b))
			}
			if !ok && size >= 0 && size <= len(data)-spos {
				fail("ReadBytes(size %d) failed with %d bytes available", size, len(data)-spos)
			}
		})
		run("ReadBytesCopy", func() {
			b, np, ok := mysql.ReadBytesCopy(data, spos, size)
			if ok && (np < spos || np > len(data) || len(b) != size || !bytes.Equal(b, data[spos:spos+size])) {
				fail("ReadBytesCopy(size %d) ok with pos %d len %d", size, np, len(b))
			}
		})
	}
	if !bytes.Equal(orig, data) {
		fail("decoder modified its input")
	}
	return
}

func TestC12Decode(t *testing.T) {
	pbt.Run(t, pbt.Spec{ID: "C12", Sub: "decode", Quick: 30000, Thorough: 500000,
		Rule: "arbitrary buffers biased to prefixes fb/fc/fd/fe/ff followed by truncated or oversized (up to 2^64-1) lengths, offsets in [0,len], ReadBytes sizes in [0,2len+4] or int(decoded length) as the handshake parser passes; non-trivial = byte at offset is a multi-byte/NULL prefix (>=0xfb)",
		Floor: 0.3}, genDec, checkDec)
}

// FuzzC12Decode is the native coverage-guided variant (thorough tier only).
func FuzzC12Decode(f *testing.F) {
	f.Add([]byte{0xfe, 0xff, 0xff, 0xff, 0xff, 0xff, 0xff, 0xff, 0xff}, 0, 3, true)
	f.Add([]byte{0xfc, 0x01}, 0, 1, false)
	f.Add([]byte{0xfb}, 0, 0, false)
	f.Add([]byte{3, 'a', 'b'}, 0, 2, true)
	f.Fuzz(func(t *testing.T, data []byte, pos int, size int, sfl bool) {
		if pos < 0 || pos > len(data) || size < 0 || size > 2*len(data)+4 {
			t.Skip()
		}
		o := checkDec(decCase{Data: data, Pos: pos, Size: size, SizeFromLen: sfl})
		if o.Violation != "" && o.Known == "" {
			t.Fatalf("violation: %s", o.Violation)
		}
	})
}
