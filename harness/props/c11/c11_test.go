//go:build verif

// C11 MySQL packets arrive intact and correctly sequenced.
//
// Write side: mysql.Conn.WritePacket writes into an in-memory net.Conn whose
// Write feeds a streaming frame parser written from the protocol description
// (3-byte little-endian length, 1-byte sequence id, body). Read side: frames
// built by the harness are delivered, in drawn fragment sizes, to
// Conn.ReadPacket and Conn.ReadEphemeralPacket/RecycleReadPacket.
// Payload bytes are a function of (packet, offset, salt), generated and
// verified on the fly, so a multi-frame case never holds more than the buffers
// Gaea itself needs.
package c11

import (
	"fmt"
	"io"
	"net"
	"testing"
	"time"

	"github.com/XiaoMi/Gaea/mysql"
	"pgregory.net/rapid"
	"verifharness/internal/pbt"
)

// M is the frame limit of the protocol: the largest value of the 3-byte length.
const M = 1<<24 - 1

type pkt struct {
	Len  int  `json:"len"`
	Salt byte `json:"salt"`
}

type pktCase struct {
	StartSeq uint8 `json:"start_seq"`
	Pkts     []pkt `json:"pkts"`
	// read side transport: every Read returns at most the next size of this
	// cyclic list, and never crosses a forced cut HdrSplit bytes into a frame header
	Frags    []int `json:"frags"`
	HdrSplit int   `json:"hdr_split"` // 0 = no forced cut, 1..3 = cut inside every header, 4 = cut between header and body
	Buffered bool  `json:"buffered"`  // write side: StartWriterBuffering ... Flush, as the proxy does for results
	Reader   int   `json:"reader"`    // 0 ReadPacket, 1 ReadEphemeralPacket+RecycleReadPacket, 2 alternate per packet
	// Corrupt >= 0: the sequence id of frame (Corrupt mod number of frames) of the
	// read-side stream is changed by CorruptDelta (1..255); the read must fail
	Corrupt      int   `json:"corrupt"`
	CorruptDelta uint8 `json:"corrupt_delta"`
}

// pat is the payload byte at offset i of a packet: every byte of i takes part,
// so frames that are dropped, duplicated or swapped show up.
func pat(i int, salt byte) byte {
	return byte(i) ^ byte(i>>8)*3 ^ byte(i>>16)*5 ^ byte(i>>24)*7 ^ salt
}

func fill(b []byte, off int, salt byte) {
	for i := range b {
		b[i] = pat(off+i, salt)
	}
}

// mismatch returns the first index where b differs from the pattern, or -1.
func mismatch(b []byte, off int, salt byte) int {
	for i := range b {
		if b[i] != pat(off+i, salt) {
			return i
		}
	}
	return -1
}

// frameLens is the reference framing of an n-byte payload: full frames of M
// bytes, then one shorter frame, which is empty when n is a multiple of M
// (including n = 0).
func frameLens(n int) []int {
	var res []int
	for n >= M {
		res = append(res, M)
		n -= M
	}
	return append(res, n)
}

type frame struct {
	pkt, off, n int
	seq         uint8
}

func buildFrames(c pktCase) []frame {
	var fs []frame
	seq := c.StartSeq
	for pi, p := range c.Pkts {
		off := 0
		for _, n := range frameLens(p.Len) {
			fs = append(fs, frame{pi, off, n, seq})
			seq++
			off += n
		}
	}
	return fs
}

// ---- net.Conn stubs ----

type addr struct{}

func (addr) Network() string { return "mem" }
func (addr) String() string  { return "mem" }

type baseConn struct{}

func (baseConn) Close() error                     { return nil }
func (baseConn) LocalAddr() net.Addr              { return addr{} }
func (baseConn) RemoteAddr() net.Addr             { return addr{} }
func (baseConn) SetDeadline(time.Time) error      { return nil }
func (baseConn) SetReadDeadline(time.Time) error  { return nil }
func (baseConn) SetWriteDeadline(time.Time) error { return nil }

// sink is the peer of the write side: it parses the byte stream into frames
// and verifies the bodies against the expected payloads while they arrive.
type sink struct {
	baseConn
	pkts   []pkt
	hdr    [4]byte
	hdrN   int
	body   int // bytes of the current frame body still to come
	cur    int // current packet
	off    int // payload offset inside the current packet
	frames []frame
	bad    string
}

func (s *sink) Read([]byte) (int, error) { return 0, io.EOF }

func (s *sink) endFrame(n int) {
	// a frame shorter than M ends the packet
	if n < M {
		if s.cur < len(s.pkts) && s.off != s.pkts[s.cur].Len && s.bad == "" {
			s.bad = fmt.Sprintf("packet %d ends after %d bytes, payload has %d", s.cur, s.off, s.pkts[s.cur].Len)
		}
		s.cur++
		s.off = 0
	}
}

func (s *sink) Write(b []byte) (int, error) {
	total := len(b)
	for len(b) > 0 {
		if s.body == 0 {
			k := copy(s.hdr[s.hdrN:], b)
			s.hdrN += k
			b = b[k:]
			if s.hdrN < 4 {
				break
			}
			s.hdrN = 0
			n := int(s.hdr[0]) | int(s.hdr[1])<<8 | int(s.hdr[2])<<16
			s.frames = append(s.frames, frame{s.cur, s.off, n, s.hdr[3]})
			s.body = n
			if n == 0 {
				s.endFrame(0)
			}
			continue
		}
		k := min(s.body, len(b))
		if s.bad == "" {
			if s.cur >= len(s.pkts) {
				s.bad = fmt.Sprintf("frame %d carries data after the last packet", len(s.frames)-1)
			} else if s.off+k > s.pkts[s.cur].Len {
				s.bad = fmt.Sprintf("packet %d: frames carry more than the %d payload bytes", s.cur, s.pkts[s.cur].Len)
			} else if i := mismatch(b[:k], s.off, s.pkts[s.cur].Salt); i >= 0 {
				s.bad = fmt.Sprintf("packet %d: byte at payload offset %d is %#x, written %#x", s.cur, s.off+i, b[i], pat(s.off+i, s.pkts[s.cur].Salt))
			}
		}
		s.off += k
		s.body -= k
		b = b[k:]
		if s.body == 0 {
			s.endFrame(s.frames[len(s.frames)-1].n)
		}
	}
	return total, nil
}

// source is the peer of the read side: it produces the frames' bytes on the
// fly and hands them out in fragments.
type source struct {
	baseConn
	pkts     []pkt
	frames   []frame
	fi, fpos int // current frame, position inside it (0..4+n)
	frags    []int
	fragI    int
	hdrSplit int
	reads    int
}

func (s *source) Write(b []byte) (int, error) { return len(b), nil }

func (s *source) Read(p []byte) (int, error) {
	if len(p) == 0 {
		return 0, nil
	}
	if s.fi >= len(s.frames) {
		return 0, io.EOF
	}
	limit := len(p)
	if len(s.frags) > 0 {
		limit = min(limit, max(1, s.frags[s.fragI%len(s.frags)]))
		s.fragI++
	}
	s.reads++
	n := 0
	for n < limit && s.fi < len(s.frames) {
		f := s.frames[s.fi]
		// forced cut inside / right after the header
		if s.hdrSplit > 0 && s.fpos == s.hdrSplit && n > 0 {
			break
		}
		if s.fpos < 4 {
			hdr := [4]byte{byte(f.n), byte(f.n >> 8), byte(f.n >> 16), f.seq}
			p[n] = hdr[s.fpos]
			n++
			s.fpos++
		} else {
			k := min(limit-n, 4+f.n-s.fpos)
			fill(p[n:n+k], f.off+s.fpos-4, s.pkts[f.pkt].Salt)
			n += k
			s.fpos += k
		}
		if s.fpos == 4+f.n {
			s.fi++
			s.fpos = 0
		}
	}
	return n, nil
}

var scratch []byte // payload buffer for the write side, reused between cases (WritePacket does not keep it)

func checkPackets(c pktCase) (o pbt.Outcome) {
	if len(c.Pkts) == 0 {
		o.Skip = "no packet"
		return
	}
	frames := buildFrames(c)
	multi := false
	maxLen := 0
	for _, p := range c.Pkts {
		if p.Len >= M {
			multi = true
			if p.Len%M == 0 {
				o.Labels = append(o.Labels, "exact_multiple_of_frame_limit")
			}
		}
		if p.Len == 0 {
			o.Labels = append(o.Labels, "empty_payload")
		}
		maxLen = max(maxLen, p.Len)
	}
	smallFrag := false
	for _, f := range c.Frags {
		if f < 4 {
			smallFrag = true
		}
	}
	fragHdr := (c.HdrSplit >= 1 && c.HdrSplit <= 3) || smallFrag
	o.NonTrivial = multi || fragHdr || c.Corrupt >= 0
	if multi {
		o.Labels = append(o.Labels, fmt.Sprintf("frames_%d", len(frameLens(maxLen))))
	}
	if fragHdr {
		o.Labels = append(o.Labels, "fragmented_header")
	}
	if int(c.StartSeq)+len(frames) > 255 {
		o.Labels = append(o.Labels, "sequence_wraps")
	}
	o.Labels = append(o.Labels, fmt.Sprintf("reader_%d", c.Reader))
	if maxLen > 100<<20 {
		o.Skip = "payload above 100 MiB (memory)"
		return
	}

	// ---------------- write side ----------------
	if p := pbt.Catch(func() {
		sk := &sink{pkts: c.Pkts}
		conn := mysql.NewConn(sk)
		conn.SetSequence(c.StartSeq)
		if c.Buffered {
			conn.StartWriterBuffering()
			o.Labels = append(o.Labels, "buffered_writer")
		}
		for pi, p := range c.Pkts {
			if cap(scratch) < p.Len {
				scratch = make([]byte, p.Len)
			}
			data := scratch[:p.Len]
			fill(data, 0, p.Salt)
			if err := conn.WritePacket(data); err != nil {
				o.Violation = fmt.Sprintf("WritePacket(packet %d, %d bytes) failed on a healthy connection: %v", pi, p.Len, err)
				return
			}
			if i := mismatch(data, 0, p.Salt); i >= 0 {
				o.Violation = fmt.Sprintf("WritePacket modified the caller's payload at offset %d", i)
				return
			}
		}
		if err := conn.Flush(); err != nil {
			o.Violation = fmt.Sprintf("Flush failed: %v", err)
			return
		}
		if sk.bad != "" {
			o.Violation = "write side: " + sk.bad
			return
		}
		if sk.hdrN != 0 || sk.body != 0 {
			o.Violation = fmt.Sprintf("write side: stream ends inside a frame (%d header bytes, %d body bytes missing)", sk.hdrN, sk.body)
			return
		}
		if len(sk.frames) != len(frames) {
			o.Violation = fmt.Sprintf("write side: %d frames on the wire, the framing of payload lengths %v has %d", len(sk.frames), lens(c.Pkts), len(frames))
			return
		}
		for i, f := range sk.frames {
			w := frames[i]
			if f.n != w.n || f.pkt != w.pkt {
				o.Violation = fmt.Sprintf("write side: frame %d has length %d (packet %d), expected %d (packet %d)", i, f.n, f.pkt, w.n, w.pkt)
				return
			}
			if f.seq != w.seq {
				o.Violation = fmt.Sprintf("write side: frame %d has sequence id %d, expected %d (start %d)", i, f.seq, w.seq, c.StartSeq)
				return
			}
		}
		if got, want := conn.GetSequence(), c.StartSeq+uint8(len(frames)); got != want {
			o.Violation = fmt.Sprintf("write side: next sequence id is %d after %d frames from %d, expected %d", got, len(frames), c.StartSeq, want)
		}
	}); p != "" {
		o.Violation = "write side: runtime panic: " + p
	}
	if o.Violation != "" {
		return
	}

	// ---------------- read side ----------------
	rframes := append([]frame(nil), frames...)
	corrupt := -1
	if c.Corrupt >= 0 && c.CorruptDelta != 0 {
		corrupt = c.Corrupt % len(rframes)
		rframes[corrupt].seq += c.CorruptDelta
		o.Labels = append(o.Labels, "corrupted_sequence_id")
		if rframes[corrupt].n == 0 {
			o.Labels = append(o.Labels, "corrupted_id_on_empty_frame")
		}
	}
	if p := pbt.Catch(func() {
		src := &source{pkts: c.Pkts, frames: rframes, frags: c.Frags, hdrSplit: c.HdrSplit}
		conn := mysql.NewConn(src)
		conn.SetSequence(c.StartSeq)
		nf := 0
		for pi, p := range c.Pkts {
			eph := c.Reader == 1 || (c.Reader == 2 && pi%2 == 1)
			name := "ReadPacket"
			if eph {
				name = "ReadEphemeralPacket"
			}
			var data []byte
			var err error
			if eph {
				data, err = conn.ReadEphemeralPacket()
			} else {
				data, err = conn.ReadPacket()
			}
			k := len(frameLens(p.Len))
			hit := corrupt >= nf && corrupt < nf+k
			nf += k
			if hit {
				if err == nil {
					detail := fmt.Sprintf("%s accepted packet %d (%d bytes) although frame %d (length %d) carries sequence id %d instead of %d",
						name, pi, p.Len, corrupt, rframes[corrupt].n, rframes[corrupt].seq, frames[corrupt].seq)
					// (fixed C11-F1: empty frames used to skip the sequence check)
					o.Violation = detail
				}
				return
			}
			if err != nil {
				o.Violation = fmt.Sprintf("%s failed on packet %d (%d bytes, well-formed frames, fragments %v, header split %d): %v", name, pi, p.Len, c.Frags, c.HdrSplit, err)
				return
			}
			if len(data) != p.Len {
				o.Violation = fmt.Sprintf("%s returned %d bytes for packet %d of %d bytes", name, len(data), pi, p.Len)
				return
			}
			if i := mismatch(data, 0, p.Salt); i >= 0 {
				o.Violation = fmt.Sprintf("%s packet %d: byte at offset %d is %#x, sent %#x", name, pi, i, data[i], pat(i, p.Salt))
				return
			}
			if got, want := conn.GetSequence(), c.StartSeq+uint8(nf); got != want {
				o.Violation = fmt.Sprintf("%s: next sequence id is %d after packet %d (%d frames from %d), expected %d", name, got, pi, nf, c.StartSeq, want)
				return
			}
			if eph {
				conn.RecycleReadPacket()
			}
		}
		// everything was consumed: one more read must hit the end of the stream
		if extra, err := conn.ReadPacket(); err == nil {
			o.Violation = fmt.Sprintf("after all %d packets a further ReadPacket returned %d bytes instead of failing at end of stream (frames left unconsumed)", len(c.Pkts), len(extra))
		}
	}); p != "" {
		o.Violation = "read side: runtime panic: " + p
	}
	return
}

func lens(ps []pkt) []int {
	r := make([]int, len(ps))
	for i, p := range ps {
		r[i] = p.Len
	}
	return r
}

var fragSizes = []int{1, 1, 2, 3, 4, 5, 7, 8, 100, 4096, 16383, 16384, 16385, 65536, 1 << 20}

func genCommon(t *rapid.T, c *pktCase) {
	c.StartSeq = uint8(rapid.SampledFrom([]int{0, 0, 1, 2, 127, 128, 253, 254, 255, -1}).Draw(t, "start"))
	if rapid.IntRange(0, 9).Draw(t, "start_any") == 0 {
		c.StartSeq = rapid.Uint8().Draw(t, "start_u8")
	}
	c.HdrSplit = rapid.SampledFrom([]int{0, 0, 1, 2, 3, 4}).Draw(t, "hdr_split")
	c.Buffered = rapid.Bool().Draw(t, "buffered")
	c.Reader = rapid.IntRange(0, 2).Draw(t, "reader")
	c.Corrupt = -1
	if rapid.IntRange(0, 3).Draw(t, "corrupt_k") == 0 {
		c.Corrupt = rapid.IntRange(0, 11).Draw(t, "corrupt")
		c.CorruptDelta = uint8(rapid.SampledFrom([]int{1, 1, 2, 128, 255, 254}).Draw(t, "delta"))
	}
}

func genSmall(t *rapid.T) pktCase {
	var c pktCase
	genCommon(t, &c)
	n := rapid.IntRange(1, 4).Draw(t, "npkts")
	for i := 0; i < n; i++ {
		var l int
		switch rapid.IntRange(0, 5).Draw(t, "lk") {
		case 0:
			l = rapid.SampledFrom([]int{0, 0, 1, 2, 3, 4, 5}).Draw(t, "len_tiny")
		case 1:
			// around the pooled-buffer and bufio sizes of Conn
			l = rapid.SampledFrom([]int{127, 128, 129, 16379, 16380, 16381, 16383, 16384, 16385, 32768, 65535, 65536}).Draw(t, "len_edge")
		case 2:
			l = rapid.IntRange(0, 256<<10).Draw(t, "len_big")
		default:
			l = rapid.IntRange(0, 600).Draw(t, "len")
		}
		c.Pkts = append(c.Pkts, pkt{Len: l, Salt: rapid.Byte().Draw(t, "salt")})
	}
	nf := rapid.IntRange(0, 4).Draw(t, "nfrags")
	for i := 0; i < nf; i++ {
		c.Frags = append(c.Frags, rapid.SampledFrom(fragSizes).Draw(t, "frag"))
	}
	return c
}

var bigLens = []int{M - 2, M - 1, M, M + 1, M + 2, 2*M - 1, 2 * M, 2*M + 1, 3 * M, 3*M + 5}

func genLarge(t *rapid.T) pktCase {
	var c pktCase
	genCommon(t, &c)
	if rapid.IntRange(0, 2).Draw(t, "wrap") == 0 {
		c.StartSeq = uint8(rapid.IntRange(252, 255).Draw(t, "start_wrap"))
	}
	c.Pkts = []pkt{{Len: rapid.SampledFrom(bigLens).Draw(t, "len"), Salt: rapid.Byte().Draw(t, "salt")}}
	if rapid.IntRange(0, 3).Draw(t, "second") == 0 {
		// a small packet behind the large one: the reader must have consumed the terminator
		c.Pkts = append(c.Pkts, pkt{Len: rapid.IntRange(0, 300).Draw(t, "len2"), Salt: rapid.Byte().Draw(t, "salt2")})
	}
	// at least one large fragment size so that a 48 MiB stream is not delivered byte by byte
	c.Frags = []int{rapid.SampledFrom([]int{65536, 1 << 20, 1<<24 - 1, 1 << 24, 1 << 26}).Draw(t, "frag_big")}
	nf := rapid.IntRange(0, 2).Draw(t, "nfrags")
	for i := 0; i < nf; i++ {
		c.Frags = append(c.Frags, rapid.SampledFrom(fragSizes).Draw(t, "frag"))
	}
	if c.Corrupt >= 0 {
		c.Corrupt = rapid.IntRange(0, 4).Draw(t, "corrupt_big")
	}
	return c
}

func TestC11Small(t *testing.T) {
	pbt.Run(t, pbt.Spec{ID: "C11", Sub: "small", Quick: 3000, Thorough: 20000,
		Rule: "1-4 packets of 0..256 KiB on one connection (edges of Conn's pooled buffers and 16 KiB bufio), start sequence id 0-255, stream delivered in cyclic fragment sizes from 1 byte up with a forced cut inside every frame header; written with WritePacket (direct and buffered) into an independent frame parser, read with ReadPacket / ReadEphemeralPacket+Recycle; one frame's sequence id corrupted in a quarter of the cases; non-trivial = header fragmented, or a corrupted id, or 2+ frames in a packet",
		Floor: 0.5}, genSmall, checkPackets)
}

func TestC11Large(t *testing.T) {
	pbt.Run(t, pbt.Spec{ID: "C11", Sub: "large", Quick: 16, Thorough: 40,
		Rule: "one packet of M-2, M-1, M, M+1, M+2, 2M-1, 2M, 2M+1, 3M or 3M+5 bytes (M = 2^24-1), optionally followed by a small one, run strictly one after the other; same oracles as the small sub-check, including a corrupted id on any frame (the empty terminator included); non-trivial = 2+ frames",
		Floor: 0.5}, genLarge, checkPackets)
}
