//go:build verif

// C32 A namespace change is applied on all proxies or on none.
//
// The real cc/service.ModifyNamespace and DelNamespace run against an
// in-memory etcd v2 server (internal/fakeetcd) and against HTTP servers that
// model the admin API of 1-3 registered proxies (ping, config/prepare,
// config/commit, namespace/delete with basic auth). A model proxy is an ideal
// participant: prepare loads the configuration that is in the store at that
// moment and keeps it per namespace, commit activates the prepared
// configuration of that namespace or fails, delete removes the namespace.
// Faults are injected per proxy, namespace and phase: fail before applying
// (HTTP 500) or apply and lose the reply (connection dropped), for as many
// requests as drawn (the service retries prepare 3 times, commit once).
package c32

import (
	"encoding/json"
	"fmt"
	"net"
	"net/http"
	"os"
	"sort"
	"strings"
	"sync"
	"testing"
	"time"

	"github.com/XiaoMi/Gaea/cc/service"
	"github.com/XiaoMi/Gaea/models"
	"pgregory.net/rapid"
	"verifharness/internal/fakeetcd"
	"verifharness/internal/nsenv"
	"verifharness/internal/pbt"
)

const (
	cluster    = "c32"
	encryptKey = "1234abcd5678efg*"
	adminUser  = "admin"
	adminPass  = "secret"
	absent     = -1
)

var nsNames = []string{"nsa", "nsb"}

func TestMain(m *testing.M) {
	nsenv.Quiet()
	os.Exit(m.Run())
}

// ---------------------------------------------------------------- case

type fault struct {
	Kind  string `json:"kind"`  // "" none, "fail" (500, nothing applied), "lost" (applied, connection dropped before the reply)
	Count int    `json:"count"` // number of requests of that phase that get the fault (then the proxy behaves)
}

type proxyFaults struct {
	Prepare fault `json:"prepare"`
	Commit  fault `json:"commit"`
	Delete  fault `json:"delete"`
}

type change struct {
	NS     int           `json:"ns"`
	Op     string        `json:"op"`     // "modify" | "delete"
	Faults []proxyFaults `json:"faults"` // one per proxy
}

// proxyDelay is how long a model proxy sits on a request of each phase before
// it handles it (ms), so that fast failures and slow successes interleave.
type proxyDelay struct {
	Prepare int `json:"prepare"`
	Commit  int `json:"commit"`
	Delete  int `json:"delete"`
}

type exchCase struct {
	Proxies  int      `json:"proxies"`  // 1..3 registered proxies
	Existing []bool   `json:"existing"` // per namespace: does it exist (version 1 everywhere) before the changes
	// per namespace, if it exists: true = the stored previous configuration is plaintext
	// (is_encrypt=false, written directly); false = it was stored by the control plane
	// itself, i.e. is_encrypt=true with AES/base64 credentials
	Plain   []bool   `json:"plain,omitempty"`
	Changes []change `json:"changes"` // 1, or 2 on different namespaces issued concurrently
	// the exchange is run once per delay assignment (one proxyDelay per proxy); empty = one run without delays
	Delays [][]proxyDelay `json:"delays,omitempty"`
}

func genFault(t *rapid.T, label string, maxCount int) fault {
	switch rapid.IntRange(0, 5).Draw(t, label) {
	case 0, 1, 2:
		return fault{}
	case 3, 4:
		return fault{Kind: "fail", Count: rapid.IntRange(1, maxCount).Draw(t, label+"_n")}
	default:
		return fault{Kind: "lost", Count: rapid.IntRange(1, maxCount).Draw(t, label+"_n")}
	}
}

func genCase(t *rapid.T) exchCase {
	c := exchCase{Proxies: rapid.IntRange(1, 3).Draw(t, "proxies")}
	for range nsNames {
		c.Existing = append(c.Existing, rapid.IntRange(0, 2).Draw(t, "existing") > 0)
		c.Plain = append(c.Plain, rapid.Bool().Draw(t, "plain"))
	}
	n := 1
	if rapid.IntRange(0, 3).Draw(t, "concurrent") == 0 {
		n = 2
	}
	first := rapid.IntRange(0, 1).Draw(t, "ns")
	for i := 0; i < n; i++ {
		ch := change{NS: (first + i) % 2, Op: "modify"}
		if rapid.IntRange(0, 3).Draw(t, "op") == 0 {
			ch.Op = "delete"
		}
		quiet := rapid.IntRange(0, 7).Draw(t, "quiet") == 0 // some exchanges without any fault
		for p := 0; p < c.Proxies; p++ {
			var pf proxyFaults
			if !quiet {
				if ch.Op == "modify" {
					// prepare is tried 3 times: 1-2 faults are survived, 3-4 are not
					pf.Prepare = genFault(t, "prepare", 4)
					if pf.Prepare.Kind == "" || rapid.Bool().Draw(t, "also_commit") {
						pf.Commit = genFault(t, "commit", 2)
					}
				} else {
					pf.Delete = genFault(t, "delete", 2)
				}
			}
			ch.Faults = append(ch.Faults, pf)
		}
		c.Changes = append(c.Changes, ch)
	}
	if rapid.Bool().Draw(t, "delayed") {
		ms := []int{0, 0, 0, 20, 20, 80}
		for a, n := 0, rapid.IntRange(1, 2).Draw(t, "assignments"); a < n; a++ {
			var d []proxyDelay
			for p := 0; p < c.Proxies; p++ {
				d = append(d, proxyDelay{Prepare: rapid.SampledFrom(ms).Draw(t, "dp"), Commit: rapid.SampledFrom(ms).Draw(t, "dc"), Delete: rapid.SampledFrom(ms).Draw(t, "dd")})
			}
			c.Delays = append(c.Delays, d)
		}
	}
	return c
}

// ---------------------------------------------------------------- model proxy

type modelProxy struct {
	mu       sync.Mutex
	id       int
	etcd     *fakeetcd.Server
	ln       net.Listener
	srv      *http.Server
	active   map[string]string // namespace -> canonical decrypted configuration (see canon)
	prepared map[string]string
	delay    proxyDelay
	faults   map[string]*proxyFaults // namespace -> remaining faults
	events   []string
	// what this proxy did during the exchange under test
	preparesApplied map[string]int
	commitsApplied  map[string]int
	deletesApplied  map[string]int
	faultsFired    map[string]int // "commit/fail", "prepare/lost", ...
}

func newModelProxy(id int, etcd *fakeetcd.Server) (*modelProxy, error) {
	ln, err := net.Listen("tcp", "127.0.0.1:0")
	if err != nil {
		return nil, err
	}
	p := &modelProxy{id: id, etcd: etcd, ln: ln, active: map[string]string{}, prepared: map[string]string{},
		faults: map[string]*proxyFaults{}, preparesApplied: map[string]int{}, commitsApplied: map[string]int{}, deletesApplied: map[string]int{}, faultsFired: map[string]int{}}
	p.srv = &http.Server{Handler: http.HandlerFunc(p.serve)}
	go p.srv.Serve(ln)
	return p, nil
}

func (p *modelProxy) port() string {
	_, port, _ := net.SplitHostPort(p.ln.Addr().String())
	return port
}

func (p *modelProxy) resetCounters() {
	p.mu.Lock()
	p.preparesApplied, p.commitsApplied, p.deletesApplied, p.faultsFired = map[string]int{}, map[string]int{}, map[string]int{}, map[string]int{}
	p.mu.Unlock()
}

func (p *modelProxy) activeVersion(ns string) int {
	p.mu.Lock()
	defer p.mu.Unlock()
	return versionOf(ns, p.active[ns])
}

// canon is the configuration a proxy works with, in a comparable form: the
// JSON of the verified, DECRYPTED namespace with the at-rest flag cleared.
func canon(cfg *models.Namespace) string {
	c := *cfg
	c.IsEncrypt = false
	b, _ := json.Marshal(&c)
	return string(b)
}

// expectedCanon is what a proxy must get when version v of ns is in force.
func expectedCanon(ns string, v int) string {
	cfg := nsenv.Config(ns, v)
	if err := cfg.Verify(); err != nil {
		panic("harness: nsenv.Config does not verify: " + err.Error())
	}
	return canon(cfg)
}

const (
	altered    = -2 // a configuration that is neither version 1 nor version 2 of the namespace (e.g. other credentials)
	unloadable = -3 // the store holds something a proxy cannot load (Store.LoadNamespace fails)
)

func versionOf(ns, c string) int {
	switch c {
	case "":
		return absent
	case expectedCanon(ns, 1):
		return 1
	case expectedCanon(ns, 2):
		return 2
	}
	return altered
}

// loadFromStore does what a proxy does in its prepare phase: the real
// models.Store.LoadNamespace (verify + decrypt with the encrypt key) through the
// real etcd client. "" = no such namespace.
func loadFromStore(etcd *fakeetcd.Server, ns string) (string, error) {
	client, err := models.NewClient(models.ConfigEtcd, etcd.Addr(), "", "", "/"+cluster)
	if err != nil {
		return "", fmt.Errorf("harness: etcd client: %v", err)
	}
	store := models.NewStore(client)
	defer store.Close()
	cfg, err := store.LoadNamespace(encryptKey, ns)
	if err != nil {
		if _, ok := etcd.Get("/" + cluster + "/namespace/" + ns); !ok {
			return "", nil
		}
		return "", err
	}
	return canon(cfg), nil
}

func (p *modelProxy) serve(w http.ResponseWriter, r *http.Request) {
	u, pw, ok := r.BasicAuth()
	if !ok || u != adminUser || pw != adminPass {
		w.WriteHeader(http.StatusUnauthorized)
		return
	}
	reply := func(status int, body string) {
		w.Header().Set("Content-Type", "application/json; charset=utf-8")
		w.WriteHeader(status)
		b, _ := json.Marshal(body)
		w.Write(b)
	}
	drop := func() {
		if hj, ok := w.(http.Hijacker); ok {
			if conn, _, err := hj.Hijack(); err == nil {
				conn.Close()
				return
			}
		}
		panic(http.ErrAbortHandler)
	}
	path := r.URL.Path
	if r.Method == http.MethodGet && path == "/api/proxy/ping" {
		reply(http.StatusOK, "OK")
		return
	}
	if r.Method != http.MethodPut {
		reply(http.StatusNotFound, "not found")
		return
	}
	var phase, name string
	for _, ph := range []struct{ prefix, phase string }{
		{"/api/proxy/config/prepare/", "prepare"}, {"/api/proxy/config/commit/", "commit"}, {"/api/proxy/namespace/delete/", "delete"}} {
		if strings.HasPrefix(path, ph.prefix) {
			phase, name = ph.phase, strings.TrimSpace(strings.TrimPrefix(path, ph.prefix))
		}
	}
	if phase == "" || name == "" {
		reply(http.StatusNotFound, "not found")
		return
	}

	if d := map[string]int{"prepare": p.delay.Prepare, "commit": p.delay.Commit, "delete": p.delay.Delete}[phase]; d > 0 {
		time.Sleep(time.Duration(d) * time.Millisecond)
	}
	loaded, loadErr := "", error(nil)
	if phase == "prepare" {
		loaded, loadErr = loadFromStore(p.etcd, name) // outside the lock: it is an HTTP exchange
	}

	p.mu.Lock()
	// which fault, if any, hits this request
	kind := ""
	if pf := p.faults[name]; pf != nil {
		f := map[string]*fault{"prepare": &pf.Prepare, "commit": &pf.Commit, "delete": &pf.Delete}[phase]
		if f.Kind != "" && f.Count > 0 {
			f.Count--
			kind = f.Kind
			p.faultsFired[name+"|"+phase+"/"+kind]++
		}
	}
	if kind == "fail" {
		p.events = append(p.events, fmt.Sprintf("p%d %s(%s): injected failure, nothing applied", p.id, phase, name))
		p.mu.Unlock()
		reply(500, "injected failure")
		return
	}
	status, msg := http.StatusOK, "OK"
	switch phase {
	case "prepare":
		if loadErr != nil || loaded == "" {
			status, msg = 500, fmt.Sprintf("cannot load namespace %s from the store: %v", name, loadErr)
		} else {
			p.prepared[name] = loaded
			p.preparesApplied[name]++
		}
	case "commit":
		if v, ok := p.prepared[name]; ok {
			p.active[name] = v
			delete(p.prepared, name)
			p.commitsApplied[name]++
		} else {
			status, msg = 500, "namespace is not prepared"
		}
	case "delete":
		if _, ok := p.active[name]; ok {
			p.deletesApplied[name]++
		}
		delete(p.active, name)
	}
	p.events = append(p.events, fmt.Sprintf("p%d %s(%s): %d %s%s", p.id, phase, name, status, msg, map[bool]string{true: " [reply lost]", false: ""}[kind == "lost"]))
	p.mu.Unlock()
	if kind == "lost" {
		drop()
		return
	}
	reply(status, msg)
}

// ---------------------------------------------------------------- the check

type world struct {
	storeProblem string // why the last snapshot found the store unloadable
	etcd         *fakeetcd.Server
	proxies []*modelProxy
	cfg     *models.CCConfig
}

func (w *world) close() {
	for _, p := range w.proxies {
		p.srv.Close()
	}
	if w.etcd != nil {
		w.etcd.Close()
	}
}

func newWorld(n int) (*world, error) {
	etcd, err := fakeetcd.New()
	if err != nil {
		return nil, err
	}
	w := &world{etcd: etcd}
	for i := 0; i < n; i++ {
		p, err := newModelProxy(i, etcd)
		if err != nil {
			w.close()
			return nil, err
		}
		w.proxies = append(w.proxies, p)
		token := "127.0.0.1:" + p.port()
		b, _ := json.Marshal(models.ProxyMonitorMetric{Token: token, IP: "127.0.0.1", AdminPort: p.port(), ProxyPort: "0", StartTime: "t"})
		etcd.Set("/"+cluster+"/proxy/proxy-"+token, string(b))
	}
	w.cfg = &models.CCConfig{CoordinatorType: models.ConfigEtcd, CoordinatorAddr: etcd.Addr(), CoordinatorRoot: "/" + cluster,
		ProxyUserName: adminUser, ProxyPassword: adminPass, EncryptKey: encryptKey, DefaultCluster: cluster}
	return w, nil
}

func (w *world) snapshot(ns string) (store int, proxies []int, err error) {
	var c string
	if c, err = loadFromStore(w.etcd, ns); err != nil && !strings.HasPrefix(err.Error(), "harness:") {
		store, w.storeProblem, err = unloadable, err.Error(), nil
	} else {
		store = versionOf(ns, c)
	}
	for _, p := range w.proxies {
		proxies = append(proxies, p.activeVersion(ns))
	}
	return
}

func ver(v int) string {
	switch v {
	case absent:
		return "absent"
	case altered:
		return "ALTERED(neither v1 nor v2 as a proxy decodes it)"
	case unloadable:
		return "UNLOADABLE(Store.LoadNamespace fails)"
	}
	return fmt.Sprintf("v%d", v)
}

func vers(vs []int) string {
	var s []string
	for _, v := range vs {
		s = append(s, ver(v))
	}
	return "[" + strings.Join(s, " ") + "]"
}

func allEqual(vs []int, want int) bool {
	for _, v := range vs {
		if v != want {
			return false
		}
	}
	return true
}

// checkCase runs the exchange once per delay assignment (fresh store and proxies
// each time) and merges the outcomes: any violation wins, then any known finding.
func checkCase(c exchCase) (o pbt.Outcome) {
	runs := c.Delays
	if len(runs) == 0 {
		runs = [][]proxyDelay{nil}
	}
	if len(runs) > 3 {
		return pbt.Outcome{Skip: "malformed case"}
	}
	for ri, d := range runs {
		if d != nil && len(d) != c.Proxies {
			return pbt.Outcome{Skip: "malformed case"}
		}
		r := runOnce(c, d)
		if r.Skip != "" {
			return r
		}
		o.Labels = append(o.Labels, r.Labels...)
		o.NonTrivial = o.NonTrivial || r.NonTrivial
		if r.Violation != "" {
			o.Violation = fmt.Sprintf("[delay assignment %d: %s] %s", ri, mustJSON(d), r.Violation)
			return
		}
		if r.Known != "" && o.Known == "" {
			o.Known, o.KnownWhat = r.Known, r.KnownWhat
		}
		if d != nil {
			o.Labels = append(o.Labels, "run_with_delays")
		}
	}
	return
}

func runOnce(c exchCase, delays []proxyDelay) (o pbt.Outcome) {
	if c.Proxies < 1 || c.Proxies > 3 || len(c.Existing) != len(nsNames) || len(c.Changes) < 1 || len(c.Changes) > 2 {
		o.Skip = "malformed case"
		return
	}
	if len(c.Changes) == 2 && c.Changes[0].NS == c.Changes[1].NS {
		o.Skip = "malformed case"
		return
	}
	for _, ch := range c.Changes {
		if ch.NS < 0 || ch.NS >= len(nsNames) || len(ch.Faults) != c.Proxies || (ch.Op != "modify" && ch.Op != "delete") {
			o.Skip = "malformed case"
			return
		}
	}
	var w *world
	var err error
	for attempt := 0; attempt < 40; attempt++ { // ride out ephemeral-port exhaustion caused by other processes
		if w, err = newWorld(c.Proxies); err == nil {
			break
		}
		time.Sleep(250 * time.Millisecond)
	}
	if err != nil {
		o.Skip = "harness: cannot listen on loopback"
		return
	}
	defer w.close()

	// Setup through the service itself, without faults: it must report success and
	// every proxy and the store must then hold version 1.
	for i, ns := range nsNames {
		if !c.Existing[i] {
			continue
		}
		if i < len(c.Plain) && c.Plain[i] {
			// a plaintext configuration (is_encrypt=false) put there directly, in force on every proxy
			cfg := nsenv.Config(ns, 1)
			cfg.Verify()
			w.etcd.Set("/"+cluster+"/namespace/"+ns, string(cfg.Encode()))
			for _, p := range w.proxies {
				p.active[ns] = expectedCanon(ns, 1)
			}
			if store, px, derr := w.snapshot(ns); derr != nil || store != 1 || !allEqual(px, 1) {
				o.Skip = fmt.Sprintf("harness: plaintext setup is not read back as v1 (store %s, %v)", ver(store), derr)
				return
			}
			o.Labels = append(o.Labels, "previous_stored_plaintext")
			continue
		}
		o.Labels = append(o.Labels, "previous_stored_encrypted")
		var serr error
		if p := pbt.Catch(func() { serr = service.ModifyNamespace(nsenv.Config(ns, 1), w.cfg, cluster) }); p != "" {
			o.Violation = "runtime panic in ModifyNamespace without faults: " + p
			return
		}
		store, px, derr := w.snapshot(ns)
		if serr != nil || derr != nil || store != 1 || !allEqual(px, 1) {
			o.Violation = fmt.Sprintf("creating %s on %d fault-free proxies: returned %v, store %s (%v), proxies %s; want success and v1 everywhere",
				ns, c.Proxies, serr, ver(store), derr, vers(px))
			return
		}
	}

	// the exchange(s) under test
	type result struct {
		err      error
		panicked string
	}
	prev := make([]int, len(c.Changes))
	for i, ch := range c.Changes {
		prev[i] = absent
		if c.Existing[ch.NS] {
			prev[i] = 1
		}
		for pi, p := range w.proxies {
			pf := ch.Faults[pi]
			p.mu.Lock()
			p.faults[nsNames[ch.NS]] = &pf
			if delays != nil {
				p.delay = delays[pi]
			}
			p.mu.Unlock()
		}
	}
	for _, p := range w.proxies {
		p.resetCounters()
	}
	results := make([]result, len(c.Changes))
	var wg sync.WaitGroup
	for i, ch := range c.Changes {
		wg.Add(1)
		go func(i int, ch change) {
			defer wg.Done()
			results[i].panicked = pbt.Catch(func() {
				if ch.Op == "modify" {
					results[i].err = service.ModifyNamespace(nsenv.Config(nsNames[ch.NS], 2), w.cfg, cluster)
				} else {
					results[i].err = service.DelNamespace(nsNames[ch.NS], w.cfg, cluster)
				}
			})
		}(i, ch)
	}
	wg.Wait()
	if len(c.Changes) == 2 {
		o.Labels = append(o.Labels, "two_concurrent_changes")
	}

	var events []string
	for _, p := range w.proxies {
		p.mu.Lock()
		events = append(events, p.events...)
		p.mu.Unlock()
	}

	for i, ch := range c.Changes {
		ns := nsNames[ch.NS]
		res := results[i]
		want := 2
		if ch.Op == "delete" {
			want = absent
		}
		store, px, derr := w.snapshot(ns)
		fired := map[string]int{}
		applied := make([]bool, len(w.proxies)) // proxy applied the commit / delete of this change
		anyApplied := false
		allPrepared := true // every proxy staged the new configuration during this exchange
		for pi, p := range w.proxies {
			p.mu.Lock()
			for k, n := range p.faultsFired {
				if strings.HasPrefix(k, ns+"|") {
					fired[strings.TrimPrefix(k, ns+"|")] += n
				}
			}
			if p.preparesApplied[ns] == 0 {
				allPrepared = false
			}
			if ch.Op == "modify" {
				applied[pi] = p.commitsApplied[ns] > 0
			} else {
				applied[pi] = p.deletesApplied[ns] > 0
			}
			p.mu.Unlock()
			anyApplied = anyApplied || applied[pi]
		}
		var firedKeys []string
		for k := range fired {
			firedKeys = append(firedKeys, k)
			o.Labels = append(o.Labels, "fault_"+k)
		}
		sort.Strings(firedKeys)
		o.Labels = append(o.Labels, ch.Op+map[bool]string{true: "_existing", false: "_new"}[prev[i] != absent])
		if fired["commit/fail"]+fired["commit/lost"]+fired["delete/fail"]+fired["delete/lost"]+fired["prepare/lost"] > 0 {
			o.NonTrivial = true
		}
		describe := func() string {
			return fmt.Sprintf("%s(%s) on %d proxies, faults %s (fired %v): returned %v; store %s, proxies %s; before: %s everywhere; proxy log: %s",
				ch.Op, ns, c.Proxies, mustJSON(ch.Faults), firedKeys, res.err, ver(store)+map[bool]string{true: " [" + w.storeProblem + "]", false: ""}[store == unloadable], vers(px), ver(prev[i]), strings.Join(events, "; "))
		}
		switch {
		case res.panicked != "":
			o.Violation = "runtime panic in the control plane: " + res.panicked + " / " + describe()
			return
		case derr != nil:
			o.Violation = derr.Error() + " / " + describe()
			return
		case res.err == nil:
			o.Labels = append(o.Labels, "reported_success")
			if store != want || !allEqual(px, want) {
				o.Violation = "success reported but not every proxy / the store has the new configuration: " + describe()
				return
			}
		default:
			o.Labels = append(o.Labels, "reported_failure")
			if store == prev[i] && allEqual(px, prev[i]) {
				o.Labels = append(o.Labels, "failure_left_everything_as_before")
				continue
			}
			// failure reported, but something changed: is it one of the known design defects?
			// exact: every proxy runs either the previous or the new state, and each one
			// that runs the new state applied the final step (commit / delete) of THIS exchange
			exact := true
			for pi := range px {
				if px[pi] != prev[i] && !(px[pi] == want && applied[pi]) {
					exact = false
				}
			}
			switch {
			case ch.Op == "modify" && store == prev[i] && exact && anyApplied && allPrepared && fired["commit/fail"]+fired["commit/lost"] > 0:
				// the commit phase was entered legitimately (every proxy had prepared), a commit
				// failed or its reply was lost; store rolled back (and loadable, equal to the
				// previous configuration as a proxy decodes it), committed proxies keep the new one
				if o.Known == "" {
					o.Known, o.KnownWhat = "C32-F1", describe()
				}
				o.Labels = append(o.Labels, "known_F1")
			case ch.Op == "delete" && prev[i] != absent && store == absent && exact && fired["delete/fail"]+fired["delete/lost"] > 0:
				// store entry deleted first and never restored; proxies reached before the failure lost the namespace
				if o.Known == "" {
					o.Known, o.KnownWhat = "C32-F2", describe()
				}
				o.Labels = append(o.Labels, "known_F2")
			default:
				o.Violation = "failure reported but the previous configuration is not in force everywhere: " + describe()
				return
			}
		}
	}
	return
}

func mustJSON(v interface{}) string {
	b, _ := json.Marshal(v)
	return string(b)
}

func TestC32Exchange(t *testing.T) {
	var rec *pbt.Recorder
	pbt.RunWith(t, pbt.Spec{ID: "C32", Sub: "exchange", Quick: 300, Thorough: 2000,
		Rule: "1-3 registered model proxies, namespace new or existing (half stored encrypted by a fault-free ModifyNamespace that is itself checked, half stored as plaintext is_encrypt=false); half of the cases run 1-2 times with drawn per-proxy per-phase delays of 0/20/80 ms; store and proxies are compared as the decrypted configuration a proxy loads (models.Store.LoadNamespace with the key), not a version field; one ModifyNamespace / DelNamespace or two concurrent ones on different namespaces, per proxy and phase a fault from {none, HTTP 500 before applying, apply and drop the connection} for 1-4 prepare requests / 1-2 commit or delete requests; non-trivial = a commit or delete fault fired or a reply was lost",
		Floor: 0.4}, genCase, func(c exchCase, r *pbt.Recorder) pbt.Outcome { rec = r; return checkCase(c) })
	if rec != nil {
		skipped := 0
		for _, n := range rec.Skipped {
			skipped += n
		}
		if skipped*4 > rec.Evaluations {
			t.Fatalf("inconclusive: %d cases skipped against %d evaluated (%v)", skipped, rec.Evaluations, rec.Skipped)
		}
	}
}
