//go:build verif

// C29 Credentials authenticate into exactly their own namespace, across reloads.
//
// A reference set of (namespace, user, password) triples is kept next to
// Gaea's UserManager (sub-check "usermanager") and next to a whole
// server.Manager driven through ReloadNamespacePrepare / ReloadNamespaceCommit /
// DeleteNamespace (sub-check "manager").  After every step each known and each
// wrong pair is presented the way Session.handleHandshakeResponse does it:
// CheckUser, CheckPassword with a native-password proof computed here from the
// protocol description, then GetNamespaceByUser with the password CheckPassword
// returned.
package c29

import (
	"crypto/sha1"
	"fmt"
	"os"
	"runtime"
	"sort"
	"strings"
	"sync"
	"testing"

	"github.com/XiaoMi/Gaea/models"
	"github.com/XiaoMi/Gaea/proxy/server"
	"pgregory.net/rapid"
	"verifharness/internal/nsenv"
	"verifharness/internal/nsgen"
	"verifharness/internal/pbt"
)

func TestMain(m *testing.M) {
	nsgen.Quiet()
	os.Exit(m.Run())
}

type cred struct {
	U string `json:"u"`
	P string `json:"p"`
}

type op struct {
	Kind  string `json:"kind"` // reload | delete | bad_prepare | reload_around_failed_prepare
	NS    int    `json:"ns"`
	Users []cred `json:"users,omitempty"`
	// the failing prepare of bad_prepare / reload_around_failed_prepare (Manager only)
	BadNS    int    `json:"bad_ns,omitempty"`
	BadUsers []cred `json:"bad_users,omitempty"`
	BadKind  int    `json:"bad_kind,omitempty"` // which defect nsenv.BadConfig plants (1..4)
}

type c29Case struct {
	Ops    []op   `json:"ops"`
	Probes []cred `json:"probes"`
	Salt   []byte `json:"salt"`
}

const nNamespaces = 4

func nsName(i int) string { return fmt.Sprintf("c29_ns%d", i) }

// ---- generator ----

var plainNames = []string{"a", "root", "b"}
var nameTokens = []string{"a", "b", "c", ":", "a:b", "b:c", "|", "*", " ", "'", "\"", "é", "root", "x"}
var passTokens = []string{"a", "b", "c", ":", ":", "b:c", "a:b", "c:", ":c", "|", "*", " ", "'", "\"", "ü", "secret", "x", "::"}

func without(tokens []string, ch string) []string {
	var out []string
	for _, t := range tokens {
		if !strings.Contains(t, ch) {
			out = append(out, t)
		}
	}
	return out
}

func genWord(t *rapid.T, name string, tokens []string) string {
	n := rapid.IntRange(1, 3).Draw(t, name+"_n")
	var sb strings.Builder
	for i := 0; i < n; i++ {
		sb.WriteString(tokens[rapid.IntRange(0, len(tokens)-1).Draw(t, fmt.Sprintf("%s_%d", name, i))])
	}
	w := strings.TrimSpace(sb.String()) // the control plane trims names and passwords and refuses empty ones
	if w == "" {
		w = "a"
	}
	return w
}

func genCase(t *rapid.T) c29Case {
	var c c29Case
	// 40% of the histories are free of ':' so that the search is not stopped by the colon finding
	names, passes := nameTokens, passTokens
	if rapid.IntRange(0, 9).Draw(t, "colon_free") >= 6 {
		names, passes = without(nameTokens, ":"), without(passTokens, ":")
	}
	genName := func(label string) string {
		// mostly a few plain names, so that namespaces share user names
		if rapid.IntRange(0, 9).Draw(t, label+"_plain") < 8 {
			return plainNames[rapid.IntRange(0, len(plainNames)-1).Draw(t, label)]
		}
		return genWord(t, label, names)
	}
	n := rapid.IntRange(3, 9).Draw(t, "n_ops")
	for i := 0; i < n; i++ {
		o := op{NS: rapid.IntRange(0, nNamespaces-1).Draw(t, fmt.Sprintf("op%d_ns", i))}
		k := rapid.IntRange(0, 9).Draw(t, fmt.Sprintf("op%d_kind", i))
		genUsers := func(label string) []cred {
			var us []cred
			nu := rapid.IntRange(1, 3).Draw(t, fmt.Sprintf("op%d_%s_n", i, label))
			for j := 0; j < nu; j++ {
				us = append(us, cred{genName(fmt.Sprintf("op%d_%s_u%d", i, label, j)), genWord(t, fmt.Sprintf("op%d_%s_p%d", i, label, j), passes)})
			}
			return us
		}
		switch {
		case k >= 8:
			o.Kind = "delete"
		case k == 7:
			o.Kind = "bad_prepare"
		case k == 6:
			o.Kind = "reload_around_failed_prepare"
			o.Users = genUsers("u")
		default:
			o.Kind = "reload"
			o.Users = genUsers("u")
		}
		if k == 6 || k == 7 {
			o.BadNS = rapid.IntRange(0, nNamespaces-1).Draw(t, fmt.Sprintf("op%d_badns", i))
			o.BadUsers = genUsers("bad")
			o.BadKind = rapid.IntRange(1, nsenv.BadKinds).Draw(t, fmt.Sprintf("op%d_badkind", i))
		}
		c.Ops = append(c.Ops, o)
	}
	np := rapid.IntRange(0, 3).Draw(t, "n_probes")
	for i := 0; i < np; i++ {
		c.Probes = append(c.Probes, cred{genName(fmt.Sprintf("probe%d_u", i)), genWord(t, fmt.Sprintf("probe%d_p", i), passTokens)})
	}
	c.Salt = rapid.SliceOfN(rapid.Byte(), 20, 20).Draw(t, "salt")
	return c
}

// ---- reference ----

// nativeProof is the mysql_native_password response: SHA1(pw) XOR SHA1(salt + SHA1(SHA1(pw))); empty for an empty password.
func nativeProof(salt []byte, pw string) []byte {
	if pw == "" {
		return []byte{}
	}
	s1 := sha1.Sum([]byte(pw))
	s2 := sha1.Sum(s1[:])
	h := sha1.New()
	h.Write(salt)
	h.Write(s2[:])
	s3 := h.Sum(nil)
	out := make([]byte, 20)
	for i := range out {
		out[i] = s1[i] ^ s3[i]
	}
	return out
}

type model map[string][]cred // namespace name -> its users

func (m model) clone() model {
	c := model{}
	for k, v := range m {
		c[k] = append([]cred{}, v...)
	}
	return c
}

func (m model) owner(u, p string) (string, bool) {
	for ns, cs := range m {
		for _, c := range cs {
			if c.U == u && c.P == p {
				return ns, true
			}
		}
	}
	return "", false
}

func (m model) hasUser(u string) bool {
	for _, cs := range m {
		for _, c := range cs {
			if c.U == u {
				return true
			}
		}
	}
	return false
}

// admissible filters the users of a reload the way the control plane would
// accept them: user names unique inside the namespace, and no (user, password)
// pair that another namespace already holds.
func admissible(m model, ns string, users []cred) []cred {
	var out []cred
	seen := map[string]bool{}
	for _, c := range users {
		if seen[c.U] {
			continue
		}
		if o, ok := m.owner(c.U, c.P); ok && o != ns {
			continue
		}
		seen[c.U] = true
		out = append(out, c)
	}
	return out
}

// authenticator is the part of UserManager / Manager a session uses.
type authenticator interface {
	CheckUser(user string) bool
	CheckPassword(user string, salt, auth []byte) (bool, string)
	GetNamespaceByUser(userName, password string) string
}

type caught struct{ runtimeErr, other string }

func guard(f func()) (c caught) {
	defer func() {
		if r := recover(); r != nil {
			if re, ok := r.(runtime.Error); ok {
				c.runtimeErr = re.Error()
			} else {
				c.other = fmt.Sprint(r)
			}
		}
	}()
	f()
	return
}

// mismatch is one disagreement between Gaea and the reference.
type mismatch struct {
	user   string
	detail string
}

// audit presents every probe pair to a and compares with the reference m.
func audit(a authenticator, m model, pairs []cred, salt []byte) *mismatch {
	for _, pr := range pairs {
		var okUser, okPw bool
		var pw, ns string
		g := guard(func() {
			okUser = a.CheckUser(pr.U)
			if okUser { // a session stops at an unknown user
				okPw, pw = a.CheckPassword(pr.U, salt, nativeProof(salt, pr.P))
				if okPw {
					ns = a.GetNamespaceByUser(pr.U, pw)
				}
			}
		})
		if g.runtimeErr != "" || g.other != "" {
			return &mismatch{pr.U, fmt.Sprintf("authenticating %q/%q panicked: %s%s", pr.U, pr.P, g.runtimeErr, g.other)}
		}
		owner, configured := m.owner(pr.U, pr.P)
		switch {
		case okUser != m.hasUser(pr.U):
			return &mismatch{pr.U, fmt.Sprintf("CheckUser(%q) = %v, reference says %v (configured: %s)", pr.U, okUser, m.hasUser(pr.U), m)}
		case configured && !okPw:
			return &mismatch{pr.U, fmt.Sprintf("%q/%q is configured in %s but its proof is rejected (configured: %s)", pr.U, pr.P, owner, m)}
		case !configured && okPw:
			return &mismatch{pr.U, fmt.Sprintf("%q/%q is configured nowhere but its proof is accepted (as password %q, namespace %q; configured: %s)", pr.U, pr.P, pw, ns, m)}
		case configured && pw != pr.P:
			return &mismatch{pr.U, fmt.Sprintf("%q/%q accepted as password %q", pr.U, pr.P, pw)}
		case configured && ns != owner:
			return &mismatch{pr.U, fmt.Sprintf("%q/%q belongs to %s but the session is bound to namespace %q (configured: %s)", pr.U, pr.P, owner, ns, m)}
		}
	}
	return nil
}

func (m model) String() string {
	var names []string
	for k := range m {
		names = append(names, k)
	}
	sort.Strings(names)
	var sb strings.Builder
	for _, n := range names {
		fmt.Fprintf(&sb, "%s%q ", n, m[n])
	}
	return strings.TrimSpace(sb.String())
}

// probePairs: every pair that occurs in the history, the explicit probes, every
// user of the history with every password of the history (wrong combinations),
// and the split-at-colon relatives of each pair.
func probePairs(c c29Case, fixed []cred) []cred {
	seen := map[cred]bool{}
	var out []cred
	add := func(p cred) {
		if !seen[p] {
			seen[p] = true
			out = append(out, p)
		}
	}
	var users, pws []string
	su, sp := map[string]bool{}, map[string]bool{}
	note := func(p cred) {
		add(p)
		if !su[p.U] {
			su[p.U] = true
			users = append(users, p.U)
		}
		if !sp[p.P] {
			sp[p.P] = true
			pws = append(pws, p.P)
		}
	}
	for _, f := range fixed {
		note(f)
	}
	for _, o := range c.Ops {
		for _, u := range append(append([]cred{}, o.Users...), o.BadUsers...) {
			note(u)
			// the same text cut at another colon
			joined := u.U + ":" + u.P
			for i := 0; i < len(joined); i++ {
				if joined[i] == ':' && i > 0 && i < len(joined)-1 {
					note(cred{joined[:i], joined[i+1:]})
				}
			}
		}
	}
	for _, p := range c.Probes {
		note(p)
	}
	for _, u := range users {
		for _, p := range pws {
			if len(out) < 400 {
				add(cred{u, p})
			}
		}
		add(cred{u, ""})
	}
	return out
}

type stepper interface {
	reload(ns string, users []cred) error
	remove(ns string) error
	// failedPrepare stages a configuration of ns (with the given users) that the
	// proxy cannot build; it must be refused. Steppers without a prepare phase return errNoPrepare.
	failedPrepare(ns string, users []cred, kind int) error
	// reloadAround is reload(ns, users) with a failing prepare of badNS between its prepare and its commit.
	reloadAround(ns string, users []cred, badNS string, badUsers []cred, kind int) error
	current() authenticator
	previous() authenticator // generation before the last step (nil if not observable)
}

var errNoPrepare = fmt.Errorf("no prepare phase")

// run interprets the history against a stepper and the reference.
func run(c c29Case, s stepper, base model, fixed []cred) (o pbt.Outcome) {
	if len(c.Salt) != 20 {
		o.Skip = "salt must be 20 bytes"
		return
	}
	m := base.clone()
	pairs := probePairs(c, fixed)
	var ever []cred
	ever = append(ever, fixed...)
	sharedName, colonPw := false, false
	for i, op := range c.Ops {
		ns := nsName(op.NS % nNamespaces)
		badNS := nsName(op.BadNS % nNamespaces)
		prev := m.clone()
		var err error
		switch op.Kind {
		case "delete":
			o.Labels = append(o.Labels, "op_delete")
			delete(m, ns)
			err = s.remove(ns)
		case "bad_prepare":
			// a failed prepare changes nothing: the reference stays as it is
			err = s.failedPrepare(badNS, op.BadUsers, op.BadKind)
			if err == errNoPrepare {
				continue
			}
			o.Labels = append(o.Labels, "op_failed_prepare")
		default:
			users := admissible(m, ns, op.Users)
			if len(users) == 0 {
				o.Labels = append(o.Labels, "op_reload_inadmissible")
				continue // the control plane refuses a namespace without users
			}
			if _, exists := m[ns]; exists {
				o.Labels = append(o.Labels, "op_reload")
			} else {
				o.Labels = append(o.Labels, "op_create")
			}
			m[ns] = users
			ever = append(ever, users...)
			err = errNoPrepare
			if op.Kind == "reload_around_failed_prepare" {
				if err = s.reloadAround(ns, users, badNS, op.BadUsers, op.BadKind); err != errNoPrepare {
					o.Labels = append(o.Labels, "op_failed_prepare_before_commit")
				}
			}
			if err == errNoPrepare {
				err = s.reload(ns, users)
			}
		}
		if err != nil {
			o.Violation = fmt.Sprintf("step %d %s %s: %v", i, op.Kind, ns, err)
			return
		}
		// non-trivial: this step touched one namespace while another one holds one of the affected user names
		touched := append(append([]cred{}, prev[ns]...), m[ns]...)
		for other, cs := range m {
			if other == ns {
				continue
			}
			for _, c := range cs {
				for _, tc := range touched {
					if tc.U == c.U {
						sharedName = true
					}
				}
			}
		}
		for _, e := range ever {
			if strings.Contains(e.P, ":") {
				colonPw = true
			}
		}
		if mm := audit(s.current(), m, pairs, c.Salt); mm != nil {
			o.Violation = fmt.Sprintf("after step %d (%s %s): %s", i, op.Kind, ns, mm.detail)
			return
		}
		if p := s.previous(); p != nil {
			if mm := audit(p, prev, pairs, c.Salt); mm != nil {
				o.Violation = fmt.Sprintf("after step %d (%s %s) [previous generation must be unchanged]: %s", i, op.Kind, ns, mm.detail)
				return
			}
		}
	}
	o.NonTrivial = sharedName && colonPw
	if sharedName {
		o.Labels = append(o.Labels, "shared_user_name")
	}
	if colonPw {
		o.Labels = append(o.Labels, "colon_in_password")
	}
	return
}

// ---- sub-check 1: UserManager ----

type umStepper struct{ cur, prev *server.UserManager }

func usersOf(ns string, users []cred) []*models.User {
	var out []*models.User
	for _, u := range users {
		out = append(out, &models.User{UserName: u.U, Password: u.P, Namespace: ns, RWFlag: models.ReadWrite})
	}
	return out
}

func (s *umStepper) reload(ns string, users []cred) error {
	next := server.CloneUserManager(s.cur) // what Manager.ReloadNamespacePrepare does
	next.RebuildNamespaceUsers(&models.Namespace{Name: ns, Users: usersOf(ns, users)})
	s.prev, s.cur = s.cur, next
	return nil
}

func (s *umStepper) remove(ns string) error {
	next := server.CloneUserManager(s.cur) // what Manager.DeleteNamespace does
	next.ClearNamespaceUsers(ns)
	s.prev, s.cur = s.cur, next
	return nil
}

func (s *umStepper) failedPrepare(ns string, users []cred, kind int) error { return errNoPrepare }
func (s *umStepper) reloadAround(ns string, users []cred, badNS string, badUsers []cred, kind int) error {
	return errNoPrepare // the UserManager has no prepare phase: run interprets the step as a plain reload
}
func (s *umStepper) current() authenticator { return s.cur }
func (s *umStepper) previous() authenticator {
	if s.prev == nil {
		return nil
	}
	return s.prev
}

func checkUM(c c29Case) (o pbt.Outcome) {
	s := &umStepper{cur: server.NewUserManager()}
	var out pbt.Outcome
	if g := guard(func() { out = run(c, s, model{}, nil) }); g.runtimeErr != "" || g.other != "" {
		out.Violation = "UserManager operation panicked: " + g.runtimeErr + g.other
	}
	return out
}

func TestC29UserManager(t *testing.T) {
	pbt.Run(t, pbt.Spec{ID: "C29", Sub: "usermanager", Quick: 5000, Thorough: 60000,
		Rule:  "histories of 3-9 create/reload/delete operations over 4 namespaces, 1-3 users each, names and passwords of 1-3 tokens from an alphabet with ':' '|' '*' space quotes and non-ASCII letters (trimmed, non-empty, pairs unique across namespaces as the control plane enforces); each step is applied to a clone of the UserManager as the Manager does, then every pair of the history, every user x password combination, the colon-shifted relatives and empty passwords are authenticated against current and previous generation; non-trivial = some step touched a namespace while another holds the same user name, and a configured password contains ':'",
		Floor: 0.4}, genCase, checkUM)
}

// ---- sub-check 2: whole Manager ----

var (
	mgrOnce sync.Once
	mgr     *server.Manager
	mgrErr  error
	mgrMu   sync.Mutex
)

const bootNS = "c29_boot"

var bootUser = cred{"boot_user", "boot|pw"}

var mgrCaseSeq int

// prefixed returns the case with every user name prefixed.  The one Manager of
// the process (a second one cannot be created: its statistics register global
// expvar names) is shared by all cases; entries that a defect leaves behind are
// keyed by user name, so giving every case its own user names keeps a case's
// verdict a function of the case alone.
func prefixed(c c29Case, pre string) c29Case {
	out := c29Case{Salt: c.Salt}
	for _, o := range c.Ops {
		n := op{Kind: o.Kind, NS: o.NS, BadNS: o.BadNS, BadKind: o.BadKind}
		for _, u := range o.Users {
			n.Users = append(n.Users, cred{pre + u.U, u.P})
		}
		for _, u := range o.BadUsers {
			n.BadUsers = append(n.BadUsers, cred{pre + u.U, u.P})
		}
		out.Ops = append(out.Ops, n)
	}
	for _, p := range c.Probes {
		out.Probes = append(out.Probes, cred{pre + p.U, p.P})
	}
	return out
}

func nsConfig(name string, users []cred) *models.Namespace {
	return &models.Namespace{
		Name: name, Online: true, AllowedDBS: map[string]bool{"db": true}, DefaultSlice: "slice-0",
		// "#dc1": datacenter given explicitly; port 1 refuses connections at once, nothing is dialled at load time
		Slices: []*models.Slice{{Name: "slice-0", UserName: "u", Password: "p", Master: "127.0.0.1:1#dc1", Capacity: 1, MaxCapacity: 1}},
		Users:  usersOf(name, users),
	}
}

func theManager() (*server.Manager, error) {
	mgrOnce.Do(func() {
		cfg := &models.Proxy{ConfigType: models.ConfigFile, Cluster: "c29", Service: "c29", LogPath: "./logs", LogLevel: "Notice",
			LogFileName: "c29", LogOutput: "file", StatsEnabled: "false", ServerIdc: "dc1", NumCPU: 1, StatsInterval: 3600}
		boot := nsConfig(bootNS, []cred{bootUser})
		if err := boot.Verify(); err != nil {
			mgrErr = err
			return
		}
		mgr, mgrErr = server.CreateManager(cfg, map[string]*models.Namespace{bootNS: boot})
	})
	return mgr, mgrErr
}

type mgrStepper struct{ m *server.Manager }

func (s *mgrStepper) reload(ns string, users []cred) error {
	cfg := nsConfig(ns, users)
	if err := cfg.Verify(); err != nil {
		return fmt.Errorf("harness: generated namespace rejected by Verify: %v", err)
	}
	if err := s.m.ReloadNamespacePrepare(cfg); err != nil {
		return err
	}
	return s.m.ReloadNamespaceCommit(ns)
}

// badConfig is a configuration of ns with the given users that Verify accepts
// and server.NewNamespace refuses (nsenv.BadConfig plants the defect).
func badConfig(ns string, users []cred, kind int) *models.Namespace {
	if kind < 1 || kind > nsenv.BadKinds {
		kind = 1 + (kind%nsenv.BadKinds+nsenv.BadKinds)%nsenv.BadKinds
	}
	c := nsenv.BadConfig(ns, 0, kind)
	c.Users = usersOf(ns, users)
	return c
}

func (s *mgrStepper) failedPrepare(ns string, users []cred, kind int) error {
	if err := s.m.ReloadNamespacePrepare(badConfig(ns, users, kind)); err == nil {
		return fmt.Errorf("harness: ReloadNamespacePrepare accepted a configuration (kind %d) that NewNamespace was expected to refuse", kind)
	}
	return nil
}

func (s *mgrStepper) reloadAround(ns string, users []cred, badNS string, badUsers []cred, kind int) error {
	cfg := nsConfig(ns, users)
	if err := cfg.Verify(); err != nil {
		return fmt.Errorf("harness: generated namespace rejected by Verify: %v", err)
	}
	if err := s.m.ReloadNamespacePrepare(cfg); err != nil {
		return err
	}
	if err := s.failedPrepare(badNS, badUsers, kind); err != nil {
		return err
	}
	// the failed prepare changed nothing: the commit activates what the first prepare staged
	if err := s.m.ReloadNamespaceCommit(ns); err != nil {
		return fmt.Errorf("commit after a failed prepare of %s: %v", badNS, err)
	}
	return nil
}

func (s *mgrStepper) remove(ns string) error  { return s.m.DeleteNamespace(ns) }
func (s *mgrStepper) current() authenticator  { return s.m }
func (s *mgrStepper) previous() authenticator { return nil }

func checkMgr(c c29Case) (o pbt.Outcome) {
	mgrMu.Lock()
	defer mgrMu.Unlock()
	m, err := theManager()
	if err != nil {
		o.Skip = "cannot create a Manager: " + err.Error()
		return
	}
	s := &mgrStepper{m}
	// start every case from the same state: only the boot namespace, freshly reloaded
	for i := 0; i < nNamespaces; i++ {
		if err := m.DeleteNamespace(nsName(i)); err != nil {
			o.Skip = "reset failed: " + err.Error()
			return
		}
	}
	if err := s.reload(bootNS, []cred{bootUser}); err != nil {
		o.Skip = "reset failed: " + err.Error()
		return
	}
	base := model{bootNS: {bootUser}}
	mgrCaseSeq++
	pc := prefixed(c, fmt.Sprintf("k%d_", mgrCaseSeq))
	var out pbt.Outcome
	if g := guard(func() { out = run(pc, s, base, []cred{bootUser}) }); g.runtimeErr != "" || g.other != "" {
		out.Violation = "Manager operation panicked: " + g.runtimeErr + g.other
		return out
	}
	return out
}

func TestC29Manager(t *testing.T) {
	pbt.Run(t, pbt.Spec{ID: "C29", Sub: "manager", Quick: 400, Thorough: 3000,
		Rule:  "the same histories driven through one server.Manager (ReloadNamespacePrepare + ReloadNamespaceCommit, DeleteNamespace; 20% of the operations are a prepare of a configuration NewNamespace refuses - alone, or between the prepare and the commit of a reload - which must fail and change nothing) next to a boot namespace that is never touched by the history; every case first deletes the four namespaces and reloads the boot namespace; authentication through Manager.CheckUser / CheckPassword / GetNamespaceByUser; non-trivial as for usermanager",
		Floor: 0.4}, genCase, checkMgr)
}
