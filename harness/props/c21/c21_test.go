//go:build verif

// C21 Read-only users cannot change data or schema.
//
// Black box: a real proxy, one slice with a simulated master and replica, a
// read-only client. A statement that could modify data or schema must be
// answered with an error and must not appear in any backend's event log,
// whether it is sent as a query, as a piece of a multi-statement query or
// through prepare/execute.
package c21

import (
	"fmt"
	"strings"
	"testing"

	"github.com/XiaoMi/Gaea/models"
	"github.com/XiaoMi/Gaea/parser"
	"github.com/XiaoMi/Gaea/parser/ast"
	"pgregory.net/rapid"

	"verifharness/internal/fakemysql"
	"verifharness/internal/pbt"
	"verifharness/internal/proxyfix"
	"verifharness/internal/rawclient"
	"verifharness/internal/routefix"
)

// statement kinds
const (
	kSelect = iota
	kShow
	kInsert
	kUpdate
	kDelete
	kReplace
	kCreateTable
	kAlterTable
	kDropTable
	kTruncate
	kRename
	kCreateIndex
	kDropIndex
	kLoadData
	nKinds
)

var kindNames = []string{"select", "show", "insert", "update", "delete", "replace", "create_table", "alter_table", "drop_table", "truncate",
	"rename_table", "create_index", "drop_index", "load_data"}

func modifies(k int) bool { return k >= kInsert }
func isDDL(k int) bool    { return k >= kCreateTable && k <= kDropIndex }

// deliveries
const (
	dQuery = iota
	dMulti
	dPrepared
)

var deliveryNames = []string{"query", "multi", "prepared"}

type c21Case struct {
	User     int  `json:"user"`     // 0 read-only, 1 read-only with read/write splitting
	Delivery int  `json:"delivery"` // 0 COM_QUERY, 1 piece of a multi-statement COM_QUERY, 2 COM_STMT_PREPARE + COM_STMT_EXECUTE
	Pos      int  `json:"pos"`      // multi: 0 first, 1 middle, 2 last piece
	Kind     int  `json:"kind"`
	Form     int  `json:"form"`
	KwCase   int  `json:"kw_case"`  // 0 lower, 1 UPPER, 2 aLtErNaTiNg
	Lead     int  `json:"lead"`     // decoration in front of the verb
	VerbSep  int  `json:"verb_sep"` // what separates the verb from the next word
	Wrap     int  `json:"wrap"`     // 0 none, 1 /*!40101 whole statement */, 2 /*!40101 verb */ rest, 3 ( select )
	Hint     bool `json:"hint"`     // "/*master*/ " in front of everything
	Param    bool `json:"param"`    // prepared: use a ? placeholder where the kind has a value
}

var (
	leads    = []string{"", "/* c */ ", "-- c\n", "# c\n", "\n\t ", "/*c*/", "/* a */ /* b */\n", "  "}
	verbSeps = []string{" ", "\n", "\t", "/**/", " /* c */ ", "/*c*/ "}
)

const (
	leadHash = 3
)

func verbSepGlued(i int) bool { return i == 3 || i == 5 }

func genCase(t *rapid.T) c21Case {
	c := c21Case{
		User:     rapid.IntRange(0, 1).Draw(t, "user"),
		Delivery: rapid.IntRange(0, 2).Draw(t, "delivery"),
		Pos:      rapid.IntRange(0, 2).Draw(t, "pos"),
		Form:     rapid.IntRange(0, 3).Draw(t, "form"),
		KwCase:   rapid.SampledFrom([]int{0, 0, 1, 2}).Draw(t, "kwcase"),
		Lead:     rapid.SampledFrom([]int{0, 0, 0, 1, 2, 3, 4, 5, 6, 7}).Draw(t, "lead"),
		VerbSep:  rapid.SampledFrom([]int{0, 0, 0, 0, 1, 2, 3, 4, 5}).Draw(t, "verbsep"),
		Wrap:     rapid.SampledFrom([]int{0, 0, 0, 0, 0, 0, 1, 2, 3}).Draw(t, "wrap"),
		Hint:     rapid.IntRange(0, 5).Draw(t, "hint") == 0,
		Param:    rapid.Bool().Draw(t, "param"),
	}
	// one in seven cases is a non-modifying control
	if rapid.IntRange(0, 6).Draw(t, "control") == 0 {
		c.Kind = rapid.IntRange(kSelect, kShow).Draw(t, "kind")
	} else {
		c.Kind = rapid.IntRange(kInsert, nKinds-1).Draw(t, "kind")
	}
	return c
}

func applyCase(w string, mode int) string {
	switch mode {
	case 1:
		return strings.ToUpper(w)
	case 2:
		b := []byte(strings.ToLower(w))
		up := true
		for i := range b {
			if b[i] >= 'a' && b[i] <= 'z' {
				if up {
					b[i] -= 32
				}
				up = !up
			}
		}
		return string(b)
	}
	return w
}

const tag = "t_c21_tag"

// plain returns verb and rest of the undecorated statement (lower case); ph is the value text.
func (c c21Case) plain(ph string) (verb, rest string) {
	f := c.Form
	pick := func(xs ...string) string { return xs[f%len(xs)] }
	switch c.Kind % nKinds {
	case kSelect:
		return "select", pick("* from "+tag+" where id = "+ph, "a, b from "+tag+" where id = "+ph+" order by a", "count(*) from "+tag+" where id > "+ph)
	case kShow:
		return "show", pick("tables like '"+tag+"%'", "create table "+tag, "columns from "+tag, "index from "+tag)
	case kInsert:
		return "insert", pick("into "+tag+" (a) values ("+ph+")", "into "+tag+" set a = "+ph, "ignore into "+tag+" (a, b) values ("+ph+", 2)", "into "+tag+" (a) select "+ph+" from t_other")
	case kUpdate:
		return "update", pick(tag+" set a = "+ph+" where id = 1", tag+" set a = a + 1 where id = "+ph, "low_priority "+tag+" set a = "+ph)
	case kDelete:
		return "delete", pick("from "+tag+" where id = "+ph, "from "+tag+" where a > "+ph+" limit 3", "quick from "+tag+" where id = "+ph)
	case kReplace:
		return "replace", pick("into "+tag+" (a) values ("+ph+")", "into "+tag+" set a = "+ph, tag+" (a) values ("+ph+")")
	case kCreateTable:
		return "create", pick("table "+tag+" (id int primary key, a int)", "table if not exists "+tag+" (id int)", "temporary table "+tag+" (id int)", "table "+tag+" like t_other")
	case kAlterTable:
		return "alter", pick("table "+tag+" add column c int", "table "+tag+" drop column a", "table "+tag+" add index i_a (a)", "table "+tag+" engine = innodb")
	case kDropTable:
		return "drop", pick("table "+tag, "table if exists "+tag, "table "+tag+", t_other")
	case kTruncate:
		return "truncate", pick("table "+tag, tag)
	case kRename:
		return "rename", pick("table "+tag+" to t_other", "table t_other to "+tag)
	case kCreateIndex:
		return "create", pick("index i_a on "+tag+" (a)", "unique index i_a on "+tag+" (a)")
	case kDropIndex:
		return "drop", pick("index i_a on " + tag)
	default: // kLoadData
		return "load", pick("data infile '/tmp/x.csv' into table "+tag, "data local infile '/tmp/x.csv' into table "+tag, "data infile '/tmp/x.csv' replace into table "+tag+" fields terminated by ','")
	}
}

// hasValue tells whether the form of this kind has a value slot that a ? can fill.
func (c c21Case) hasValue() bool {
	verb, rest := c.plain("\x00")
	_ = verb
	return strings.Contains(rest, "\x00")
}

// undecorated is the statement without any decoration (what the statement "is").
func (c c21Case) undecorated() string {
	v, r := c.plain("7")
	return v + " " + r
}

// render builds the text that is sent.
func (c c21Case) render() string {
	ph := "7"
	if c.Delivery%3 == dPrepared && c.Param {
		ph = "?"
	}
	verb, rest := c.plain(ph)
	words := strings.Split(rest, " ")
	for i := range words {
		words[i] = applyCase(words[i], c.KwCase)
	}
	verb = applyCase(verb, c.KwCase)
	rest = strings.Join(words, " ")
	sep := verbSeps[c.verbSep()]
	var body string
	switch c.wrap() {
	case 1:
		body = "/*!40101 " + verb + sep + rest + " */"
	case 2:
		body = "/*!40101 " + verb + " */" + sep + rest
	case 3:
		body = "(" + verb + sep + rest + ")"
	default:
		body = verb + sep + rest
	}
	s := leads[c.Lead%len(leads)] + body
	if c.Hint {
		s = "/*master*/ " + s
	}
	return s
}

// verbSep normalises the separator choice: no comment nested inside a version comment.
func (c c21Case) verbSep() int {
	v := c.VerbSep % len(verbSeps)
	if (c.wrap() == 1 || c.wrap() == 2) && v >= 3 {
		return 0
	}
	return v
}

// wrap normalises the wrap choice: parentheses only make sense around a SELECT.
func (c c21Case) wrap() int {
	w := c.Wrap % 4
	if w == 3 && c.Kind%nKinds != kSelect {
		return 0
	}
	if w == 2 && c.Kind%nKinds == kShow {
		return 0
	}
	return w
}

// astModifies classifies with Gaea's SQL parser (not the code under test, which is
// parser.Preview + isSQLNotAllowedByUser): ok=false when the text does not parse.
func astModifies(sql string) (mod bool, ok bool) {
	n, err := parser.New().ParseOneStmt(sql, "", "")
	if err != nil {
		return false, false
	}
	switch n.(type) {
	case *ast.InsertStmt, *ast.UpdateStmt, *ast.DeleteStmt, *ast.LoadDataStmt:
		return true, true
	case ast.DDLNode:
		return true, true
	}
	return false, true
}

// ruleError tells whether an error is the read-only rule's own refusal
// (checkSQLAllowed: "write DML is now allowed by read user"), as opposed to any other failure.
func ruleError(e *rawclient.Error) bool {
	l := strings.ToLower(e.Message)
	for _, m := range []string{"read user", "read-only", "read only", "readonly"} {
		if strings.Contains(l, m) {
			return true
		}
	}
	return false
}

func userKey(u int) string { return []string{"ro", "rosplit"}[u%2] }

func checkCase(c c21Case) (o pbt.Outcome) {
	kind := c.Kind % nKinds
	deliv := c.Delivery % 3
	mod := modifies(kind)
	o.Labels = append(o.Labels, "kind_"+kindNames[kind], "delivery_"+deliveryNames[deliv], "user_"+userKey(c.User))

	// cross-check the by-construction classification with the SQL parser on the undecorated text
	if am, ok := astModifies(c.undecorated()); ok {
		if am != mod {
			o.Skip = fmt.Sprintf("harness: generator says modifies=%v, parser says %v for %q", mod, am, c.undecorated())
			return
		}
		o.Labels = append(o.Labels, "ast_confirms_kind")
	} else {
		o.Labels = append(o.Labels, "ast_unparsed_"+kindNames[kind])
	}

	specs := []proxyfix.SliceSpec{{Name: "slice-0", Replicas: 1}}
	users := []routefix.User{{Key: "ro", RWFlag: models.ReadOnly}, {Key: "rosplit", RWFlag: models.ReadOnly, RWSplit: models.ReadWriteSplit}}
	env, err := routefix.Setup("c21n", specs, users, func(ns *models.Namespace) { ns.SupportMultiQuery = true })
	if err != nil {
		o.Skip = "fixture could not be set up (inconclusive)"
		return
	}
	defer env.Close()
	var caps uint32
	if deliv == dMulti {
		caps = rawclient.ClientMultiStatements
	}
	cl, err := env.Dial(userKey(c.User), "db", caps)
	if err != nil {
		o.Skip = "client could not connect to the proxy (inconclusive)"
		return
	}
	defer cl.Close()

	text := c.render()
	var clientErr *rawclient.Error
	stage := ""
	switch deliv {
	case dQuery:
		r, err := cl.Exec(text)
		if err != nil {
			o.Skip = "transport error towards the proxy (inconclusive)"
			return
		}
		clientErr = r.Err
	case dMulti:
		pieces := []string{text}
		switch c.Pos % 3 {
		case 0:
			pieces = []string{text, "select * from t_ok_b"}
		case 1:
			pieces = []string{"select * from t_ok_a", text, "select * from t_ok_b"}
		case 2:
			pieces = []string{"select * from t_ok_a", text}
		}
		o.Labels = append(o.Labels, fmt.Sprintf("multi_pos_%d", c.Pos%3))
		rs, err := cl.Query(strings.Join(pieces, ";"))
		if err != nil {
			o.Skip = "transport error towards the proxy (inconclusive)"
			return
		}
		for _, r := range rs {
			if r.Err != nil {
				clientErr = r.Err
			}
		}
	case dPrepared:
		st, perr, err := cl.Prepare(text)
		if err != nil {
			o.Skip = "transport error towards the proxy (inconclusive)"
			return
		}
		if perr != nil {
			clientErr, stage = perr, " at prepare"
			break
		}
		var params []rawclient.Param
		for i := 0; i < int(st.Params); i++ {
			params = append(params, rawclient.Param{Type: 8, Value: []byte{7, 0, 0, 0, 0, 0, 0, 0}})
		}
		if st.Params > 0 {
			o.Labels = append(o.Labels, "prepared_with_param")
		}
		r, err := cl.Execute(st, params)
		if err != nil {
			o.Skip = "transport error towards the proxy (inconclusive)"
			return
		}
		clientErr, stage = r.Err, " at execute"
	}

	if clientErr != nil && routefix.InfraTrouble(clientErr.Message) {
		// the proxy could not get a backend connection in time (loaded machine): neither a
		// rejection by the read-only rule nor an execution
		o.Skip = "the proxy reported backend connection trouble (inconclusive)"
		return
	}
	var hits []fakemysql.Event
	for _, ev := range env.Cl.Events() {
		if ev.Kind == "query" && strings.Contains(strings.ToLower(ev.SQL), tag) {
			hits = append(hits, ev)
		}
	}
	decorated := c.Lead%len(leads) != 0 || c.verbSep() != 0 || c.wrap() != 0 || c.Hint || c.KwCase != 0
	if mod && (decorated || (kind != kInsert && kind != kUpdate && kind != kDelete)) {
		o.NonTrivial = true
	}

	if !mod {
		// control: the rule must not reject statements that cannot modify anything
		if clientErr != nil && ruleError(clientErr) {
			o.Violation = fmt.Sprintf("read-only user %s, %s: non-modifying statement %q was rejected by the read-only rule%s: %v", userKey(c.User), deliveryNames[deliv], text, stage, clientErr)
			return
		}
		if clientErr != nil {
			o.Labels = append(o.Labels, "control_failed_for_another_reason")
			return
		}
		if len(hits) == 0 {
			o.Labels = append(o.Labels, "control_unobserved")
		} else {
			o.Labels = append(o.Labels, "control_on_"+hits[0].Role)
		}
		return
	}

	var problems []string
	if len(hits) > 0 {
		problems = append(problems, "it reached "+routefix.Describe(hits))
		o.Labels = append(o.Labels, "reached_"+hits[0].Role)
	}
	if clientErr == nil {
		problems = append(problems, "the client got no error")
	} else {
		o.Labels = append(o.Labels, "client_error")
	}
	if len(problems) == 0 {
		o.Labels = append(o.Labels, "rejected_clean")
		return
	}
	if len(hits) == 0 {
		// nothing was executed but the client got OK: the proxy answers OK without doing anything
		// for comment-only input it cannot parse (getPlan's IgnorePlan, the same for every user).
		// That is not the read-only rule at work and nothing can be modified.
		if _, ok := astModifies(text); !ok {
			o.Labels = append(o.Labels, "ignored_unparsable_text")
			return
		}
	}
	detail := fmt.Sprintf("read-only user %s, %s: %s statement %q must be rejected before any backend, but %s", userKey(c.User), deliveryNames[deliv],
		strings.ReplaceAll(kindNames[kind], "_", " "), text, strings.Join(problems, " and "))
	if id := classify(c); id != "" && len(hits) > 0 && clientErr == nil {
		o.Known, o.KnownWhat = id, detail
		o.Labels = append(o.Labels, "known_"+id)
		return
	}
	o.Violation = detail
	return
}

// classify maps "a modifying statement of a read-only user was executed" to its root cause.
func classify(c c21Case) string {
	kind := c.Kind % nKinds
	// the verb is invisible to parser.Preview: inside a /*! */ version comment (StmtComment),
	// behind a # comment, or glued to a following comment (first word is e.g. "insert/**/into")
	hidden := c.wrap() == 1 || c.wrap() == 2 || c.Lead%len(leads) == leadHash || verbSepGlued(c.verbSep())
	switch {
	case kind == kLoadData:
		// F2: parser.Preview does not know LOAD DATA at all (StmtUnknown), hidden or not.
		return "C21-F2"
	case hidden:
		// F3: whatever the kind, the read-only rule never learns what the statement is.
		return "C21-F3"
	}
	// a visible INSERT / UPDATE / DELETE / REPLACE / DDL that is executed has no known
	// explanation (the classifier of the fixed C21-F1 is gone)
	return ""
}

func TestC21ReadOnly(t *testing.T) {
	pbt.Run(t, pbt.Spec{ID: "C21", Sub: "readonly", Quick: 1000, Thorough: 4000,
		Rule: "one statement per case from a read-only user (with / without read/write splitting): kinds select, show (controls, 1/7) and insert, update, delete, replace, create/alter/drop/truncate/rename table, create/drop index, load data (several forms each); keyword case; leading /* */, --, # comments and whitespace; comment or newline between verb and next word; /*!40101 */ around the statement or the verb; /*master*/ hint; sent as COM_QUERY, as first/middle/last piece of a multi-statement query, or through prepare/execute with and without a ? parameter. non-trivial = modifying statement that is decorated or not plain insert/update/delete",
		Floor: 0.5}, genCase, checkCase)
}
