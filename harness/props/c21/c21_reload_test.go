//go:build verif

package c21

import (
	"fmt"
	"regexp"
	"strings"
	"testing"

	"github.com/XiaoMi/Gaea/models"
	"pgregory.net/rapid"

	"verifharness/internal/fakemysql"
	"verifharness/internal/pbt"
	"verifharness/internal/proxyfix"
	"verifharness/internal/rawclient"
	"verifharness/internal/routefix"
)

// The read-only decision must follow the user's CURRENT configuration: a session
// stays open across a namespace reload that flips its user's rw_flag, and every
// statement is judged against the configuration in force when it is sent.

const (
	rOpStmt = iota
	rOpReload
)

// deliveries of the reload histories
const (
	rdQuery = iota
	rdMulti
	rdPrepared      // prepare and execute at the step
	rdPreparedEarly // prepared right after connect (under the initial configuration), executed at the step
)

var rdNames = []string{"query", "multi", "prepared", "prepared_early"}

var reloadKinds = []int{kSelect, kInsert, kUpdate, kDelete, kReplace, kTruncate, kDropTable, kAlterTable}

type rstep struct {
	Op       int `json:"op"`
	Kind     int `json:"kind"` // index into reloadKinds
	Form     int `json:"form"`
	KwCase   int `json:"kw_case"`
	Delivery int `json:"delivery"`
}

type reloadCase struct {
	StartRO bool    `json:"start_ro"` // rw_flag of the user when the session is opened
	Split   bool    `json:"split"`    // rw_split of the user (never changed)
	Steps   []rstep `json:"steps"`
}

func genReloadCase(t *rapid.T) reloadCase {
	c := reloadCase{StartRO: rapid.Bool().Draw(t, "start_ro"), Split: rapid.Bool().Draw(t, "split")}
	n := rapid.IntRange(3, 8).Draw(t, "n")
	for i := 0; i < n; i++ {
		st := rstep{Op: rapid.SampledFrom([]int{rOpStmt, rOpStmt, rOpStmt, rOpReload}).Draw(t, "op")}
		if st.Op == rOpStmt {
			st.Kind = rapid.SampledFrom([]int{0, 1, 1, 2, 2, 3, 3, 4, 5, 6, 7}).Draw(t, "kind")
			st.Form = rapid.IntRange(0, 3).Draw(t, "form")
			st.KwCase = rapid.SampledFrom([]int{0, 0, 1, 2}).Draw(t, "kwcase")
			st.Delivery = rapid.IntRange(0, 3).Draw(t, "delivery")
		}
		c.Steps = append(c.Steps, st)
	}
	return c
}

// asCase expresses a step in terms of the single-statement case (undecorated).
func (s rstep) asCase() c21Case {
	d := dQuery
	if s.Delivery%4 >= rdPrepared {
		d = dPrepared
	}
	return c21Case{Kind: reloadKinds[s.Kind%len(reloadKinds)], Form: s.Form, KwCase: s.KwCase, Delivery: d}
}

var tagRe = regexp.MustCompile("(?i)" + tag)

func stepTag(i int) string { return fmt.Sprintf("%s_s%dx", tag, i) }

func (s rstep) text(i int) string {
	return tagRe.ReplaceAllString(s.asCase().render(), stepTag(i))
}

func checkReload(c reloadCase) (o pbt.Outcome) {
	specs := []proxyfix.SliceSpec{{Name: "slice-0", Replicas: 1}}
	flag := models.ReadWrite
	if c.StartRO {
		flag = models.ReadOnly
	}
	split := models.NoReadWriteSplit
	if c.Split {
		split = models.ReadWriteSplit
	}
	env, err := routefix.Setup("c21r", specs, []routefix.User{{Key: "u", RWFlag: flag, RWSplit: split}},
		func(ns *models.Namespace) { ns.SupportMultiQuery = true })
	if err != nil {
		o.Skip = "fixture could not be set up (inconclusive)"
		return
	}
	defer env.Close()
	cl, err := env.Dial("u", "db", rawclient.ClientMultiStatements)
	if err != nil {
		o.Skip = "client could not connect to the proxy (inconclusive)"
		return
	}
	defer cl.Close()
	o.Labels = append(o.Labels, fmt.Sprintf("start_ro_%v", c.StartRO))

	// statements that are prepared under the initial configuration
	early := map[int]*rawclient.Stmt{}
	for i, s := range c.Steps {
		if s.Op == rOpStmt && s.Delivery%4 == rdPreparedEarly {
			st, perr, err := cl.Prepare(s.text(i))
			if err != nil {
				o.Skip = "transport error towards the proxy (inconclusive)"
				return
			}
			if perr == nil {
				early[i] = st
			}
		}
	}

	ro := c.StartRO
	reloads := 0
	var violation, known, knownWhat string
	for i, s := range c.Steps {
		if s.Op == rOpReload {
			ro = !ro
			for _, u := range env.NS.Users {
				if ro {
					u.RWFlag = models.ReadOnly
				} else {
					u.RWFlag = models.ReadWrite
				}
			}
			if err := env.P.Install(env.NS); err != nil {
				o.Skip = "namespace reload failed (inconclusive)"
				return
			}
			reloads++
			continue
		}
		sc := s.asCase()
		kind := sc.Kind
		mod := modifies(kind)
		text := s.text(i)
		deliv := s.Delivery % 4
		var clientErr *rawclient.Error
		switch deliv {
		case rdQuery:
			r, err := cl.Exec(text)
			if err != nil {
				o.Skip = "transport error towards the proxy (inconclusive)"
				return
			}
			clientErr = r.Err
		case rdMulti:
			rs, err := cl.Query("select * from t_ok_a;" + text + ";select * from t_ok_b")
			if err != nil {
				o.Skip = "transport error towards the proxy (inconclusive)"
				return
			}
			for _, r := range rs {
				if r.Err != nil {
					clientErr = r.Err
				}
			}
		default:
			st := early[i]
			if st == nil {
				var perr *rawclient.Error
				st, perr, err = cl.Prepare(text)
				if err != nil {
					o.Skip = "transport error towards the proxy (inconclusive)"
					return
				}
				clientErr = perr
			}
			if clientErr == nil {
				r, err := cl.Execute(st, nil)
				if err != nil {
					o.Skip = "transport error towards the proxy (inconclusive)"
					return
				}
				clientErr = r.Err
			}
		}
		if clientErr != nil && routefix.InfraTrouble(clientErr.Message) {
			o.Skip = "the proxy reported backend connection trouble (inconclusive)"
			return
		}
		var hits []fakemysql.Event
		for _, ev := range env.Cl.Events() {
			if ev.Kind == "query" && strings.Contains(strings.ToLower(ev.SQL), stepTag(i)) {
				hits = append(hits, ev)
			}
		}
		state := "rw"
		if ro {
			state = "ro"
		}
		after := "before_reload"
		if reloads > 0 {
			after = "after_reload"
		}
		o.Labels = append(o.Labels, fmt.Sprintf("%s_%s_%s_%s", kindNames[kind], state, after, rdNames[deliv]))
		if mod && reloads > 0 {
			o.NonTrivial = true
		}
		where := fmt.Sprintf("step %d (%s, %d reload(s) so far, user is now %s, session opened as %s)", i, rdNames[deliv], reloads,
			map[bool]string{true: "read-only", false: "read-write"}[ro], map[bool]string{true: "read-only", false: "read-write"}[c.StartRO])
		fail := func(detail, id string) {
			if id != "" {
				o.Labels = append(o.Labels, "known_"+id)
				if known == "" {
					known, knownWhat = id, detail
				}
				return
			}
			if violation == "" {
				violation = detail
			}
		}
		switch {
		case !mod:
			if clientErr != nil && !ruleError(clientErr) {
				o.Labels = append(o.Labels, "control_failed_for_another_reason")
			} else if clientErr != nil {
				fail(fmt.Sprintf("%s: non-modifying statement %q was rejected: %v", where, text, clientErr), "")
			}
		case ro:
			var problems []string
			if len(hits) > 0 {
				problems = append(problems, "it reached "+routefix.Describe(hits))
			}
			if clientErr == nil {
				problems = append(problems, "the client got no error")
			}
			if len(problems) > 0 {
				id := ""
				if len(hits) > 0 && clientErr == nil && reloads == 0 {
					id = classify(sc) // only the known single-statement causes, and only without a reload in the history
				}
				fail(fmt.Sprintf("%s: %q must be rejected before any backend, but %s", where, text, strings.Join(problems, " and ")), id)
			}
		default: // read-write in force: the read-only rule must not apply (any more)
			if clientErr != nil && !ruleError(clientErr) {
				o.Labels = append(o.Labels, "write_failed_for_another_reason")
			} else if clientErr != nil {
				fail(fmt.Sprintf("%s: %q was rejected by the read-only rule although the user may write: %v", where, text, clientErr), "")
			} else if len(hits) == 0 {
				o.Labels = append(o.Labels, "rw_unobserved")
			} else {
				for _, ev := range hits {
					if ev.Role != "master" {
						fail(fmt.Sprintf("%s: write %q went to %s", where, text, routefix.Describe(hits)), "")
						break
					}
				}
			}
		}
	}
	switch {
	case violation != "":
		o.Violation = violation
	case known != "":
		o.Known, o.KnownWhat = known, knownWhat
	}
	return
}

func TestC21Reload(t *testing.T) {
	pbt.Run(t, pbt.Spec{ID: "C21", Sub: "reload", Quick: 400, Thorough: 2000,
		Rule: "one session kept open over a history of 3-8 steps: statements (select control, insert, update, delete, replace, truncate, drop table, alter table; keyword case; sent as query, middle piece of a multi-statement packet, prepare+execute, or prepared right after connect and executed at the step) and namespace reloads (Install of the same namespace name) that flip the user's rw_flag between read-write and read-only; sessions start read-write or read-only, with / without rw_split. Each statement is judged against the configuration in force when it is sent: read-only -> error and no backend; read-write -> accepted and on the master. non-trivial = a modifying statement is sent after at least one reload",
		Floor: 0.4}, genReloadCase, checkReload)
}
