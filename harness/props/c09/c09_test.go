//go:build verif

// C09 Range and calendar rules place each key in its configured interval.
//
// Sub-checks:
//
//	range      range rule: table floor(k/limit) for 0 <= k < tables*limit, otherwise a rejection
//	calendar   year/month/day rules under several time zones: configured sub-table list
//	           against independently computed periods, instants placed by their civil
//	           date in the proxy's zone, the three spellings of one instant agree
//	malformed  date strings of every length and shape: canonical valid dates are placed
//	           by their date, strings that are no date under any reading are rejected,
//	           nothing escapes as a Go runtime panic
package c09

import (
	"fmt"
	"math"
	"math/big"
	"strconv"
	"strings"
	"testing"
	"time"
	_ "time/tzdata" // zone database embedded: the sandbox has none and TZ must not depend on the host

	"github.com/XiaoMi/Gaea/models"
	"github.com/XiaoMi/Gaea/proxy/router"
	"pgregory.net/rapid"
	"verifharness/internal/pbt"
)

// ---------- civil calendar arithmetic (independent of package time) ----------

// daysFromCivil: days since 1970-01-01 of the proleptic Gregorian date y-m-d.
func daysFromCivil(y, m, d int) int64 {
	if m <= 2 {
		y--
	}
	var era int
	if y >= 0 {
		era = y / 400
	} else {
		era = (y - 399) / 400
	}
	yoe := y - era*400
	mp := (m + 9) % 12
	doy := (153*mp+2)/5 + d - 1
	doe := yoe*365 + yoe/4 - yoe/100 + doy
	return int64(era)*146097 + int64(doe) - 719468
}

func civilFromDays(z int64) (y, m, d int) {
	z += 719468
	var era int64
	if z >= 0 {
		era = z / 146097
	} else {
		era = (z - 146096) / 146097
	}
	doe := z - era*146097
	yoe := (doe - doe/1460 + doe/36524 - doe/146096) / 365
	yy := yoe + era*400
	doy := doe - (365*yoe + yoe/4 - yoe/100)
	mp := (5*doy + 2) / 153
	d = int(doy - (153*mp+2)/5 + 1)
	if mp < 10 {
		m = int(mp + 3)
	} else {
		m = int(mp - 9)
	}
	if m <= 2 {
		yy++
	}
	return int(yy), m, d
}

func isLeap(y int) bool { return y%4 == 0 && (y%100 != 0 || y%400 == 0) }

func daysInMonth(y, m int) int {
	switch m {
	case 2:
		if isLeap(y) {
			return 29
		}
		return 28
	case 4, 6, 9, 11:
		return 30
	}
	return 31
}

func floorDiv(a, b int64) int64 {
	q := a / b
	if a%b != 0 && (a < 0) != (b < 0) {
		q--
	}
	return q
}

// civilFromLocalSeconds splits seconds since 1970-01-01T00:00:00 of a local
// clock into date and time of day.
func civilFromLocalSeconds(s int64) (y, mo, d, h, mi, se int) {
	days := floorDiv(s, 86400)
	rem := s - days*86400
	y, mo, d = civilFromDays(days)
	return y, mo, d, int(rem / 3600), int(rem % 3600 / 60), int(rem % 60)
}

// ---------- period lists from date_range strings ----------

func atoiDigits(s string) (int, bool) {
	if s == "" {
		return 0, false
	}
	n := 0
	for i := 0; i < len(s); i++ {
		if s[i] < '0' || s[i] > '9' {
			return 0, false
		}
		n = n*10 + int(s[i]-'0')
	}
	return n, true
}

// refPeriods lists the period numbers one date_range entry stands for:
// "P" is one period, "A-B" every period from min(A,B) to max(A,B).
func refPeriods(rule, entry string) ([]int, bool) {
	width := map[string]int{"date_year": 4, "date_month": 6, "date_day": 8}[rule]
	parts := strings.Split(entry, "-")
	if len(parts) > 2 {
		return nil, false
	}
	var v []int
	for _, p := range parts {
		n, ok := atoiDigits(p)
		if !ok || len(p) != width {
			return nil, false
		}
		v = append(v, n)
	}
	if len(v) == 1 {
		return v, true
	}
	a, b := v[0], v[1]
	if b < a {
		a, b = b, a
	}
	var out []int
	switch rule {
	case "date_year":
		for y := a; y <= b; y++ {
			out = append(out, y)
		}
	case "date_month":
		y, m := a/100, a%100
		if m < 1 || m > 12 || b%100 < 1 || b%100 > 12 {
			return nil, false
		}
		for y*100+m <= b {
			out = append(out, y*100+m)
			m++
			if m == 13 {
				y, m = y+1, 1
			}
		}
	case "date_day":
		valid := func(n int) bool {
			y, m, d := n/10000, n/100%100, n%100
			return m >= 1 && m <= 12 && d >= 1 && d <= daysInMonth(y, m)
		}
		if !valid(a) || !valid(b) {
			return nil, false
		}
		from := daysFromCivil(a/10000, a/100%100, a%100)
		to := daysFromCivil(b/10000, b/100%100, b%100)
		for z := from; z <= to; z++ {
			y, m, d := civilFromDays(z)
			out = append(out, y*10000+m*100+d)
		}
	}
	return out, true
}

func periodOf(rule string, y, m, d int) int {
	switch rule {
	case "date_year":
		return y
	case "date_month":
		return y*100 + m
	}
	return y*10000 + m*100 + d
}

// ---------- calling Gaea ----------

func buildRule(sh *models.Shard, nslices int) (router.Rule, error) {
	slices := make([]*models.Slice, nslices)
	names := make([]string, nslices)
	for i := range slices {
		names[i] = fmt.Sprintf("slice-%d", i)
		slices[i] = &models.Slice{Name: names[i]}
	}
	sh.DB, sh.Table, sh.Key, sh.Slices = "logic", "T", "k", names
	ns := &models.Namespace{Name: "ns", Slices: slices, DefaultSlice: names[0], ShardRules: []*models.Shard{sh}}
	var rt *router.Router
	var err error
	if p := pbt.Catch(func() { rt, err = router.NewRouter(ns) }); p != "" {
		return nil, fmt.Errorf("NewRouter panicked: %s", p)
	}
	if err != nil {
		return nil, err
	}
	r, ok := rt.GetShardRule("logic", "t")
	if !ok {
		return nil, fmt.Errorf("rule logic.t missing after NewRouter")
	}
	return r, nil
}

// route: rejected = error returned or router.KeyError panic (Gaea's documented
// rejection, recovered by the session); crash = any other panic.
func route(rule router.Rule, v interface{}) (idx int, rejected, crash string) {
	defer func() {
		if r := recover(); r != nil {
			if ke, ok := r.(router.KeyError); ok {
				rejected = "KeyError: " + string(ke)
				return
			}
			crash = fmt.Sprint(r)
		}
	}()
	idx, err := rule.FindTableIndex(v)
	if err != nil {
		return idx, "error: " + err.Error(), ""
	}
	return idx, "", ""
}

type key struct {
	Kind string `json:"kind"` // "int64" | "uint64" | "string"
	I    int64  `json:"i,omitempty"`
	U    uint64 `json:"u,omitempty"`
	S    string `json:"s,omitempty"`
}

func (k key) value() interface{} {
	switch k.Kind {
	case "int64":
		return k.I
	case "uint64":
		return k.U
	}
	return k.S
}

func (k key) String() string {
	switch k.Kind {
	case "int64":
		return fmt.Sprintf("int64(%d)", k.I)
	case "uint64":
		return fmt.Sprintf("uint64(%d)", k.U)
	}
	return fmt.Sprintf("string(%q)", k.S)
}

// ====================================================================
// range
// ====================================================================

type rangeCase struct {
	Locations     []int `json:"locations"`
	TableRowLimit int   `json:"table_row_limit"`
	Keys          []key `json:"keys"`
}

func genRange(t *rapid.T) rangeCase {
	var c rangeCase
	ns := rapid.IntRange(1, 4).Draw(t, "slices")
	tables := 0
	for i := 0; i < ns; i++ {
		l := rapid.IntRange(1, 4).Draw(t, "loc")
		c.Locations = append(c.Locations, l)
		tables += l
	}
	switch rapid.IntRange(0, 3).Draw(t, "limk") {
	case 0:
		c.TableRowLimit = rapid.SampledFrom([]int{1, 2, 3, 10, 1000, 1024, 999999, 1000000}).Draw(t, "lim")
	case 1:
		c.TableRowLimit = rapid.IntRange(1, 20).Draw(t, "lim")
	default:
		c.TableRowLimit = rapid.IntRange(1, 1000000).Draw(t, "lim")
	}
	lim := int64(c.TableRowLimit)
	total := int64(tables) * lim
	nk := rapid.IntRange(1, 10).Draw(t, "nkeys")
	for i := 0; i < nk; i++ {
		n := fmt.Sprintf("k%d", i)
		var v int64
		switch rapid.IntRange(0, 7).Draw(t, n+"_k") {
		case 0, 1, 2: // around an interval boundary j*limit, j in [0,tables]
			j := int64(rapid.IntRange(0, tables).Draw(t, n+"_j"))
			v = j*lim + int64(rapid.IntRange(-2, 2).Draw(t, n+"_d"))
		case 3:
			v = rapid.Int64Range(0, total-1).Draw(t, n+"_in")
		case 4:
			v = rapid.SampledFrom([]int64{math.MinInt64, math.MinInt64 + 1, -1, 0, 1, math.MaxInt64, math.MaxInt64 - 1, 1 << 32, 1 << 31, -(1 << 31)}).Draw(t, n+"_x")
		case 5:
			v = rapid.Int64().Draw(t, n+"_u")
		case 6: // a little beyond the last interval
			v = total + int64(rapid.IntRange(0, 1000).Draw(t, n+"_b"))
		default:
			v = rapid.Int64Range(-100, 100).Draw(t, n+"_s")
		}
		switch rapid.IntRange(0, 9).Draw(t, n+"_ty") {
		case 0, 1, 2, 3:
			c.Keys = append(c.Keys, key{Kind: "int64", I: v})
		case 4: // negative v becomes a value >= 2^63: beyond every interval
			c.Keys = append(c.Keys, key{Kind: "uint64", U: uint64(v)})
		case 5, 6:
			c.Keys = append(c.Keys, key{Kind: "string", S: strconv.FormatInt(v, 10)})
		case 7:
			s := strconv.FormatInt(v, 10)
			if v >= 0 {
				s = rapid.SampledFrom([]string{"+", "0", "000"}).Draw(t, n+"_pre") + s
			}
			c.Keys = append(c.Keys, key{Kind: "string", S: s})
		case 8: // numeric but beyond int64
			c.Keys = append(c.Keys, key{Kind: "string", S: rapid.SampledFrom([]string{"9223372036854775808", "-9223372036854775809", "18446744073709551616", "99999999999999999999999"}).Draw(t, n+"_big")})
		default: // not numeric
			c.Keys = append(c.Keys, key{Kind: "string", S: rapid.SampledFrom([]string{"", "abc", "12a", " 12", "1.5", "-", "1e3", "0x10", "２"}).Draw(t, n+"_bad")})
		}
	}
	return c
}

// numeric value of a key as an arbitrary-precision integer; ok=false: not a number
func keyNumber(k key) (*big.Int, bool) {
	switch k.Kind {
	case "int64":
		return big.NewInt(k.I), true
	case "uint64":
		return new(big.Int).SetUint64(k.U), true
	}
	s := k.S
	t := s
	if len(t) > 0 && (t[0] == '+' || t[0] == '-') {
		t = t[1:]
	}
	if t == "" || strings.Trim(t, "0123456789") != "" {
		return nil, false
	}
	return new(big.Int).SetString(s, 10)
}

func checkRange(c rangeCase) (o pbt.Outcome) {
	tables := 0
	for _, l := range c.Locations {
		tables += l
	}
	rule, err := buildRule(&models.Shard{Type: "range", Locations: c.Locations, TableRowLimit: c.TableRowLimit}, len(c.Locations))
	if err != nil {
		o.Violation = fmt.Sprintf("valid range layout %v limit %d not loaded: %v", c.Locations, c.TableRowLimit, err)
		return
	}
	o.Labels = append(o.Labels, fmt.Sprintf("tables_%02d", tables))
	// layout: tables 0..tables-1, table t on the slice whose locations cover it
	sub := rule.GetSubTableIndexes()
	if len(sub) != tables {
		o.Violation = fmt.Sprintf("locations %v give %d tables, rule lists %v", c.Locations, tables, sub)
		return
	}
	tb := 0
	for si, l := range c.Locations {
		for j := 0; j < l; j++ {
			if sub[tb] != tb || rule.GetSliceIndexFromTableIndex(tb) != si {
				o.Violation = fmt.Sprintf("locations %v: table %d should be on slice %d; rule lists index %d on slice %d", c.Locations, tb, si, sub[tb], rule.GetSliceIndexFromTableIndex(tb))
				return
			}
			tb++
		}
	}
	lim := big.NewInt(int64(c.TableRowLimit))
	total := new(big.Int).Mul(lim, big.NewInt(int64(tables)))
	for _, k := range c.Keys {
		num, isNum := keyNumber(k)
		got, rejected, crash := route(rule, k.value())
		desc := fmt.Sprintf("range rule locations %v table_row_limit %d, key %s", c.Locations, c.TableRowLimit, k)
		if crash != "" {
			o.Violation = desc + ": Go runtime panic " + crash
			return
		}
		if !isNum {
			o.Labels = append(o.Labels, "key_not_numeric")
			if rejected == "" {
				o.Violation = fmt.Sprintf("%s: not a number but placed in table %d", desc, got)
				return
			}
			continue
		}
		inside := num.Sign() >= 0 && num.Cmp(total) < 0
		// distance to the nearest interval boundary
		rem := new(big.Int).Mod(num, lim)
		near := rem.Cmp(big.NewInt(1)) <= 0 || new(big.Int).Sub(lim, rem).Cmp(big.NewInt(1)) <= 0
		if near && num.Cmp(big.NewInt(-2)) >= 0 && num.Cmp(new(big.Int).Add(total, big.NewInt(2))) <= 0 {
			o.NonTrivial = true
			o.Labels = append(o.Labels, "key_at_boundary")
		}
		if !num.IsInt64() {
			o.NonTrivial = true
			o.Labels = append(o.Labels, "key_beyond_int64")
		} else if v := num.Int64(); v == math.MinInt64 || v == math.MaxInt64 {
			o.NonTrivial = true
		}
		if inside {
			want := int(new(big.Int).Div(num, lim).Int64())
			o.Labels = append(o.Labels, "key_inside")
			if rejected != "" {
				o.Violation = fmt.Sprintf("%s: lies in [%d*limit,%d*limit) but is rejected: %s", desc, want, want+1, rejected)
				return
			}
			if got != want {
				o.Violation = fmt.Sprintf("%s: lies in the interval of table %d, placed in table %d", desc, want, got)
				return
			}
		} else {
			o.Labels = append(o.Labels, "key_outside")
			if rejected == "" {
				o.Violation = fmt.Sprintf("%s: outside [0,%s) but placed in table %d instead of being rejected", desc, total, got)
				return
			}
		}
	}
	return
}

func TestC09Range(t *testing.T) {
	pbt.Run(t, pbt.Spec{ID: "C09", Sub: "range", Quick: 6000, Thorough: 100000,
		Rule: "range layouts of 1-4 slices x 1-4 locations, table_row_limit 1-10^6; 1-10 keys per layout as int64, uint64 (also >= 2^63), decimal strings (+, leading zeros, beyond int64) and non-numeric strings; values at interval boundaries +-2, inside, just beyond the last interval, int64 extremes, uniform; non-trivial = a key within 1 of an interval boundary, an int64 extreme or beyond int64",
		Floor: 0.5}, genRange, checkRange)
}

// ====================================================================
// calendar
// ====================================================================

var zones = []string{"UTC", "Asia/Shanghai", "America/New_York", "Asia/Kolkata", "Pacific/Apia"}

type calCase struct {
	Rule      string   `json:"rule"` // date_year | date_month | date_day
	DateRange []string `json:"date_range"`
	TZ        string   `json:"tz"`
	Instants  []int64  `json:"instants"` // unix seconds
}

// genDateRange builds 1-4 ascending, non-overlapping entries (one per slice);
// an entry is a single period or a span, possibly written in descending order.
// It returns the entries and, for the generator only, the first/last civil day covered.
func genDateRange(t *rapid.T, rule string) []string {
	n := rapid.IntRange(1, 4).Draw(t, "entries")
	var out []string
	switch rule {
	case "date_year":
		y := rapid.IntRange(1990, 2030).Draw(t, "y0")
		for i := 0; i < n; i++ {
			span := 0
			if rapid.IntRange(0, 2).Draw(t, "spank") > 0 {
				span = rapid.IntRange(1, 12).Draw(t, "span")
			}
			out = append(out, spanText(t, fmt.Sprintf("%04d", y), fmt.Sprintf("%04d", y+span), span > 0))
			y += span + 1 + rapid.IntRange(0, 3).Draw(t, "gap")
		}
	case "date_month":
		m := rapid.IntRange(1990*12, 2030*12).Draw(t, "m0") // months since year 0
		txt := func(m int) string { return fmt.Sprintf("%04d%02d", m/12, m%12+1) }
		for i := 0; i < n; i++ {
			span := 0
			switch rapid.IntRange(0, 4).Draw(t, "spank") {
			case 0:
			case 1: // up to the year end and a little beyond
				span = 11 - m%12 + rapid.IntRange(0, 3).Draw(t, "over")
			case 2: // several year ends
				span = rapid.IntRange(13, 40).Draw(t, "span")
			default:
				span = rapid.IntRange(1, 14).Draw(t, "span")
			}
			out = append(out, spanText(t, txt(m), txt(m+span), span > 0))
			m += span + 1 + rapid.IntRange(0, 5).Draw(t, "gap")
		}
	default:
		var z int64
		switch rapid.IntRange(0, 3).Draw(t, "d0k") {
		case 0: // shortly before a year end
			z = daysFromCivil(rapid.IntRange(1999, 2030).Draw(t, "y0"), 12, rapid.IntRange(20, 31).Draw(t, "d0"))
		case 1: // shortly before the end of February
			z = daysFromCivil(rapid.IntRange(1999, 2030).Draw(t, "y0"), 2, rapid.IntRange(20, 28).Draw(t, "d0"))
		default:
			z = daysFromCivil(rapid.IntRange(1995, 2030).Draw(t, "y0"), rapid.IntRange(1, 12).Draw(t, "m0"), rapid.IntRange(1, 28).Draw(t, "d0"))
		}
		txt := func(z int64) string { y, m, d := civilFromDays(z); return fmt.Sprintf("%04d%02d%02d", y, m, d) }
		for i := 0; i < n; i++ {
			span := 0
			switch rapid.IntRange(0, 3).Draw(t, "spank") {
			case 0:
			case 1:
				span = rapid.IntRange(1, 45).Draw(t, "span")
			case 2:
				span = rapid.IntRange(300, 420).Draw(t, "span")
			default:
				span = rapid.IntRange(1, 12).Draw(t, "span")
			}
			out = append(out, spanText(t, txt(z), txt(z+int64(span)), span > 0))
			z += int64(span + 1 + rapid.IntRange(0, 40).Draw(t, "gap"))
		}
	}
	return out
}

func spanText(t *rapid.T, a, b string, span bool) string {
	if !span {
		return a
	}
	if rapid.IntRange(0, 3).Draw(t, "desc") == 0 {
		return b + "-" + a
	}
	return a + "-" + b
}

func genCalendar(t *rapid.T) calCase {
	c := calCase{Rule: rapid.SampledFrom([]string{"date_year", "date_month", "date_day"}).Draw(t, "rule")}
	c.DateRange = genDateRange(t, c.Rule)
	c.TZ = rapid.SampledFrom(zones).Draw(t, "tz")
	loc, err := time.LoadLocation(c.TZ)
	if err != nil {
		panic(err)
	}
	// configured periods, to aim part of the instants at them
	var periods []int
	for _, e := range c.DateRange {
		p, _ := refPeriods(c.Rule, e)
		periods = append(periods, p...)
	}
	nk := rapid.IntRange(1, 8).Draw(t, "ninst")
	for i := 0; i < nk; i++ {
		n := fmt.Sprintf("i%d", i)
		var y, m, d int
		if len(periods) > 0 && rapid.Bool().Draw(t, n+"_cfg") {
			p := rapid.SampledFrom(periods).Draw(t, n+"_p")
			switch c.Rule {
			case "date_year":
				y, m, d = p, rapid.SampledFrom([]int{1, 2, 6, 12}).Draw(t, n+"_m"), 0
			case "date_month":
				y, m, d = p/100, p%100, 0
			default:
				y, m, d = p/10000, p/100%100, p%100
			}
		} else {
			y = rapid.IntRange(1971, 2099).Draw(t, n+"_y")
			m = rapid.IntRange(1, 12).Draw(t, n+"_m")
		}
		if d == 0 {
			d = rapid.SampledFrom([]int{1, 1, 2, 15, 28, 29, 30, 31, 31}).Draw(t, n+"_d")
			if d > daysInMonth(y, m) {
				d = daysInMonth(y, m)
			}
		}
		var ts int64
		switch rapid.IntRange(0, 9).Draw(t, n+"_k") {
		case 0, 1: // first second of the local day
			ts = time.Date(y, time.Month(m), d, 0, 0, 0, 0, loc).Unix()
		case 2, 3: // last second of the local day
			ts = time.Date(y, time.Month(m), d, 23, 59, 59, 0, loc).Unix()
		case 4: // first second of the UTC day: the local date differs in zones east/west of Greenwich
			ts = time.Date(y, time.Month(m), d, 0, 0, 0, 0, time.UTC).Unix()
		case 5:
			ts = time.Date(y, time.Month(m), d, 23, 59, 59, 0, time.UTC).Unix()
		case 6: // one second around a local day boundary
			ts = time.Date(y, time.Month(m), d, 0, 0, 0, 0, loc).Unix() + int64(rapid.IntRange(-1, 1).Draw(t, n+"_pm"))
		case 7:
			ts = time.Date(y, time.Month(m), d, rapid.IntRange(0, 23).Draw(t, n+"_h"), rapid.IntRange(0, 59).Draw(t, n+"_mi"), rapid.IntRange(0, 59).Draw(t, n+"_s"), 0, loc).Unix()
		case 8: // anywhere in 1000-01-02 .. 9999-12-30
			ts = rapid.Int64Range(-30610137600, 253402128000).Draw(t, n+"_any")
		default: // 32-bit timestamps incl. before 1970
			ts = rapid.Int64Range(-(1 << 31), 1<<32).Draw(t, n+"_32")
		}
		c.Instants = append(c.Instants, ts)
	}
	return c
}

func setZone(name string) (*time.Location, error) {
	loc, err := time.LoadLocation(name)
	if err != nil {
		return nil, err
	}
	time.Local = loc // the proxy's zone: what Gaea's time.Unix(...) formats in
	return loc, nil
}

func checkCalendar(c calCase) (o pbt.Outcome) {
	loc, err := setZone(c.TZ)
	if err != nil {
		o.Skip = "zone not available: " + err.Error()
		return
	}
	defer func() { time.Local = time.UTC }()
	// reference period list
	var want []int
	entryOf := map[int]int{}
	crossYear := false
	for i, e := range c.DateRange {
		p, ok := refPeriods(c.Rule, e)
		if !ok {
			o.Skip = "date_range entry outside the generated grammar: " + e
			return
		}
		if len(want) > 0 && p[0] <= want[len(want)-1] {
			o.Skip = "date_range entries overlap (configuration not valid)"
			return
		}
		if div := map[string]int{"date_year": 1, "date_month": 100, "date_day": 10000}[c.Rule]; div > 1 && p[0]/div != p[len(p)-1]/div {
			crossYear = true
		}
		for _, x := range p {
			entryOf[x] = i
		}
		want = append(want, p...)
	}
	rule, err := buildRule(&models.Shard{Type: c.Rule, DateRange: c.DateRange}, len(c.DateRange))
	if err != nil {
		o.Violation = fmt.Sprintf("valid %s date_range %v not loaded: %v", c.Rule, c.DateRange, err)
		return
	}
	o.Labels = append(o.Labels, "rule_"+c.Rule, "tz_"+c.TZ)
	if crossYear {
		o.Labels = append(o.Labels, "span_crosses_year_end")
		o.NonTrivial = true
	}
	for _, e := range c.DateRange {
		if i := strings.IndexByte(e, '-'); i > 0 && e[:i] > e[i+1:] {
			o.Labels = append(o.Labels, "descending_span")
			break
		}
	}
	got := rule.GetSubTableIndexes()
	if len(got) != len(want) {
		o.Violation = fmt.Sprintf("%s date_range %v stands for %d periods %s, rule lists %d: %s", c.Rule, c.DateRange, len(want), brief(want), len(got), brief(got))
		return
	}
	for i := range want {
		if got[i] != want[i] {
			o.Violation = fmt.Sprintf("%s date_range %v: period #%d should be %d, rule lists %d (%s)", c.Rule, c.DateRange, i, want[i], got[i], brief(got))
			return
		}
		if si := rule.GetSliceIndexFromTableIndex(want[i]); si != entryOf[want[i]] {
			o.Violation = fmt.Sprintf("%s date_range %v: period %d belongs to entry %d, rule maps it to slice %d", c.Rule, c.DateRange, want[i], entryOf[want[i]], si)
			return
		}
	}
	if rule.GetFirstTableIndex() != want[0] || rule.GetLastTableIndex() != want[len(want)-1] {
		o.Violation = fmt.Sprintf("%s date_range %v: first/last table %d/%d want %d/%d", c.Rule, c.DateRange, rule.GetFirstTableIndex(), rule.GetLastTableIndex(), want[0], want[len(want)-1])
		return
	}

	for _, ts := range c.Instants {
		_, off := time.Unix(ts, 0).In(loc).Zone() // zone database offset at that instant (trusted)
		y, mo, d, h, mi, se := civilFromLocalSeconds(ts + int64(off))
		if y < 1000 || y > 9999 {
			o.Labels = append(o.Labels, "instant_outside_4_digit_years")
			continue
		}
		p := periodOf(c.Rule, y, mo, d)
		// within one second of the period's boundary?
		y2, mo2, d2, _, _, _ := civilFromLocalSeconds(ts + int64(off) + 1)
		y0, mo0, d0, _, _, _ := civilFromLocalSeconds(ts + int64(off) - 1)
		if periodOf(c.Rule, y2, mo2, d2) != p || periodOf(c.Rule, y0, mo0, d0) != p {
			o.NonTrivial = true
			o.Labels = append(o.Labels, "instant_at_period_edge")
		}
		if mo == 2 && d == 29 {
			o.Labels = append(o.Labels, "leap_day")
		}
		uy, um, ud, _, _, _ := civilFromLocalSeconds(ts)
		if uy != y || um != mo || ud != d {
			o.Labels = append(o.Labels, "local_date_differs_from_utc")
			o.NonTrivial = true
		}
		_, configured := entryOf[p]
		if configured {
			o.Labels = append(o.Labels, "instant_in_configured_period")
		}
		spell := []key{{Kind: "int64", I: ts},
			{Kind: "string", S: fmt.Sprintf("%04d-%02d-%02d", y, mo, d)},
			{Kind: "string", S: fmt.Sprintf("%04d-%02d-%02d %02d:%02d:%02d", y, mo, d, h, mi, se)}}
		if ts >= 0 {
			spell = append(spell, key{Kind: "uint64", U: uint64(ts)})
		}
		for _, k := range spell {
			idx, rejected, crash := route(rule, k.value())
			desc := fmt.Sprintf("%s rule, zone %s, instant %d = %04d-%02d-%02d %02d:%02d:%02d local, spelled %s", c.Rule, c.TZ, ts, y, mo, d, h, mi, se, k)
			switch {
			case crash != "":
				o.Violation = desc + ": Go runtime panic " + crash
			case rejected != "":
				o.Violation = desc + ": rejected: " + rejected
			case idx != p:
				o.Violation = fmt.Sprintf("%s: belongs to period %d, placed in %d", desc, p, idx)
			}
			if o.Violation != "" {
				return
			}
		}
	}
	return
}

func brief(v []int) string {
	if len(v) <= 8 {
		return fmt.Sprint(v)
	}
	return fmt.Sprintf("[%d %d %d ... %d %d %d]", v[0], v[1], v[2], v[len(v)-3], v[len(v)-2], v[len(v)-1])
}

func TestC09Calendar(t *testing.T) {
	pbt.Run(t, pbt.Spec{ID: "C09", Sub: "calendar", Quick: 6000, Thorough: 100000,
		Rule: "date_year/date_month/date_day rules with 1-4 ascending date_range entries (single periods, spans up to 12 years / 40 months / 420 days, spans over one and several year ends and over 29 Feb, descending spelling); time.Local set to UTC, Asia/Shanghai, America/New_York, Asia/Kolkata or Pacific/Apia; 1-8 instants per case at the first/last second of local and UTC days, months and years (+-1 s), in configured periods, uniform over 1000-9999 and over 32-bit timestamps; each instant is routed as int64, uint64, 'YYYY-MM-DD' and 'YYYY-MM-DD hh:mm:ss'; non-trivial = an instant within 1 s of a period boundary, or whose local date differs from the UTC date, or a span crossing a year end",
		Floor: 0.5}, genCalendar, checkCalendar)
}

// ====================================================================
// malformed / shapes
// ====================================================================

type shapeCase struct {
	Rule string   `json:"rule"`
	Keys []string `json:"keys"`
	Ints []key    `json:"ints,omitempty"` // extreme integers: only "no runtime panic" is demanded
}

var junk = []string{"a", "Z", "-", "/", ".", ":", " ", "+", "0", "9", "x", "_", "年", "２", "\x00", "é"}

func genShape(t *rapid.T) shapeCase {
	c := shapeCase{Rule: rapid.SampledFrom([]string{"date_year", "date_month", "date_day"}).Draw(t, "rule")}
	nk := rapid.IntRange(1, 10).Draw(t, "nkeys")
	for i := 0; i < nk; i++ {
		n := fmt.Sprintf("k%d", i)
		y := rapid.IntRange(1000, 9999).Draw(t, n+"_y")
		if rapid.Bool().Draw(t, n+"_recent") {
			y = rapid.IntRange(1990, 2040).Draw(t, n+"_y2")
		}
		m := rapid.IntRange(1, 12).Draw(t, n+"_m")
		d := rapid.IntRange(1, daysInMonth(y, m)).Draw(t, n+"_d")
		full := fmt.Sprintf("%04d-%02d-%02d %02d:%02d:%02d", y, m, d, rapid.IntRange(0, 23).Draw(t, n+"_h"), rapid.IntRange(0, 59).Draw(t, n+"_mi"), rapid.IntRange(0, 59).Draw(t, n+"_s"))
		var s string
		switch rapid.IntRange(0, 11).Draw(t, n+"_k") {
		case 0: // canonical
			s = rapid.SampledFrom([]string{full[:10], full, full[:10] + "T" + full[11:], full + ".123456", full[:16]}).Draw(t, n+"_c")
		case 1, 2: // every length 0-12 (and a few longer)
			s = full[:rapid.IntRange(0, 12).Draw(t, n+"_len")]
		case 3: // one character replaced
			p := rapid.IntRange(0, 9).Draw(t, n+"_pos")
			s = full[:p] + rapid.SampledFrom(junk).Draw(t, n+"_j") + full[p+1:]
			if rapid.Bool().Draw(t, n+"_dateonly") {
				s = s[:len(s)-9]
			}
		case 4: // separators replaced
			a, b := rapid.SampledFrom(junk).Draw(t, n+"_s1"), rapid.SampledFrom(junk).Draw(t, n+"_s2")
			s = full[:4] + a + full[5:7] + b + full[8:]
		case 5: // no separators / compact forms
			comp := full[:4] + full[5:7] + full[8:10]
			s = rapid.SampledFrom([]string{comp, comp + "ab", comp[:6], comp[2:], comp + full[11:13] + full[14:16] + full[17:19], comp + "00"}).Draw(t, n+"_comp")
		case 6: // sign in front
			s = rapid.SampledFrom([]string{"-", "+"}).Draw(t, n+"_sg") + full[1:10]
		case 7: // a character inserted or removed
			p := rapid.IntRange(0, 10).Draw(t, n+"_pos")
			if rapid.Bool().Draw(t, n+"_ins") {
				s = full[:p] + rapid.SampledFrom(junk).Draw(t, n+"_j") + full[p:10]
			} else if p < 10 {
				s = full[:p] + full[p+1:10]
			}
		case 8: // short parts (valid for MySQL, not the canonical spelling)
			s = fmt.Sprintf("%d-%d-%d", y, m, d)
		case 9: // impossible but canonical
			s = fmt.Sprintf("%04d-%02d-%02d", y, rapid.SampledFrom([]int{0, 13, 99, m}).Draw(t, n+"_bm"), rapid.SampledFrom([]int{0, 32, 99, 31}).Draw(t, n+"_bd"))
		case 10: // unix timestamp written as a string, other numbers
			s = rapid.SampledFrom([]string{"1496275200", "0", "-1", "149627520000", "2017", "201705", "1.5e9"}).Draw(t, n+"_num")
		default: // free text
			s = rapid.SampledFrom([]string{"", " ", "null", "now()", "２０１７-０５-０１", "2017年05月01日", "yyyy-mm-dd", "    -  -  ", "0000-00-00", "\x00\x00\x00\x00", "١٢٣٤-٠٥-٠١"}).Draw(t, n+"_free")
		}
		c.Keys = append(c.Keys, s)
	}
	if rapid.IntRange(0, 3).Draw(t, "ints") == 0 {
		v := rapid.SampledFrom([]int64{math.MaxInt64, math.MinInt64, 253402300800, -62135596801, 1 << 62, -(1 << 62), 1 << 40}).Draw(t, "iv")
		c.Ints = append(c.Ints, key{Kind: "int64", I: v}, key{Kind: "uint64", U: uint64(v)})
	}
	return c
}

func isDigit(b byte) bool { return b >= '0' && b <= '9' }
func isAlnum(b byte) bool {
	return isDigit(b) || b >= 'a' && b <= 'z' || b >= 'A' && b <= 'Z' || b >= 0x80
}

// canonicalDate: exactly 'YYYY-MM-DD' or 'YYYY-MM-DD hh:mm:ss' (the two string
// spellings the property names). Returns the date fields.
func canonicalDate(s string) (y, m, d int, ok bool) {
	if len(s) < 10 {
		return
	}
	for _, i := range []int{0, 1, 2, 3, 5, 6, 8, 9} {
		if !isDigit(s[i]) {
			return
		}
	}
	if s[4] != '-' || s[7] != '-' {
		return
	}
	if len(s) != 10 {
		// ' hh:mm:ss'
		if len(s) != 19 || s[10] != ' ' || s[13] != ':' || s[16] != ':' {
			return
		}
		for _, i := range []int{11, 12, 14, 15, 17, 18} {
			if !isDigit(s[i]) {
				return
			}
		}
	}
	y, _ = atoiDigits(s[0:4])
	m, _ = atoiDigits(s[5:7])
	d, _ = atoiDigits(s[8:10])
	return y, m, d, true
}

// couldBeDate is deliberately generous: true for every string that MySQL's own
// relaxed literal grammar might read as a date - up to 4 digits, punctuation,
// 1-2 digits, punctuation, 1-2 digits (anything may follow), or an all-digit
// string of 6, 8, 12 or 14 digits (optionally with a fraction) - after leading
// blanks. Only strings for which this is false are "malformed" for the oracle.
func couldBeDate(s string) bool {
	s = strings.TrimLeft(s, " \t\r\n")
	i := 0
	digits := func(max int) int {
		n := 0
		for i < len(s) && n < max && isDigit(s[i]) {
			i++
			n++
		}
		return n
	}
	punct := func() int {
		n := 0
		for i < len(s) && !isAlnum(s[i]) && s[i] > ' ' && s[i] < 0x7f {
			i++
			n++
		}
		return n
	}
	// compact numeric forms
	j := 0
	for j < len(s) && isDigit(s[j]) {
		j++
	}
	if (j == 6 || j == 8 || j == 12 || j == 14) && (j == len(s) || s[j] == '.') {
		return true
	}
	if digits(4) == 0 || punct() == 0 || digits(2) == 0 || punct() == 0 || digits(2) == 0 {
		return false
	}
	return true
}

// what the current code reads (used only to classify the known leniency):
// year = Atoi(first 4 bytes); month = Atoi(bytes 0-3,5-6); day = Atoi(bytes 0-3,5-6,8-9),
// month/day only for strings of at least 10 bytes.
func lenientReading(rule, s string) (int, bool) {
	var t string
	switch rule {
	case "date_year":
		if len(s) < 4 {
			return 0, false
		}
		t = s[:4]
	case "date_month":
		if len(s) < 10 {
			return 0, false
		}
		t = s[:4] + s[5:7]
	default:
		if len(s) < 10 {
			return 0, false
		}
		t = s[:4] + s[5:7] + s[8:10]
	}
	v, err := strconv.Atoi(t)
	return v, err == nil
}

func checkShape(c shapeCase) (o pbt.Outcome) {
	time.Local = time.UTC
	dr := map[string][]string{"date_year": {"2015-2020"}, "date_month": {"201501-202012"}, "date_day": {"20170101-20171231"}}[c.Rule]
	rule, err := buildRule(&models.Shard{Type: c.Rule, DateRange: dr}, 1)
	if err != nil {
		o.Violation = fmt.Sprintf("valid %s date_range %v not loaded: %v", c.Rule, dr, err)
		return
	}
	o.Labels = append(o.Labels, "rule_"+c.Rule)
	var unclassified, classified []string
	knownID := ""
	note := func(id, msg string) {
		if id == "" {
			unclassified = append(unclassified, msg)
			return
		}
		classified = append(classified, "["+id+"] "+msg)
		if knownID == "" {
			knownID = id
		}
		o.Labels = append(o.Labels, "known_"+id)
	}
	for _, s := range c.Keys {
		idx, rejected, crash := route(rule, s)
		desc := fmt.Sprintf("%s rule, key string(%q)", c.Rule, s)
		o.Labels = append(o.Labels, fmt.Sprintf("len_%02d", min(len(s), 13)))
		y, m, d, canon := canonicalDate(s)
		switch {
		case canon && m >= 1 && m <= 12 && d >= 1 && d <= daysInMonth(y, m):
			o.Labels = append(o.Labels, "canonical_valid")
			want := periodOf(c.Rule, y, m, d)
			switch {
			case crash != "":
				note("", desc+": Go runtime panic "+crash)
			case rejected != "":
				note("", desc+": a valid date in the canonical spelling is rejected: "+rejected)
			case idx != want:
				note("", fmt.Sprintf("%s: belongs to period %d, placed in %d", desc, want, idx))
			}
		case canon || couldBeDate(s):
			// impossible date, or a spelling only MySQL's relaxed grammar knows: either outcome is fine
			o.Labels = append(o.Labels, "not_canonical_but_maybe_a_date")
			if crash != "" {
				note("", desc+": Go runtime panic "+crash)
			}
		default:
			o.NonTrivial = true
			o.Labels = append(o.Labels, "malformed")
			switch {
			case crash != "":
				note("", desc+": Go runtime panic instead of an error: "+crash)
			case rejected == "":
				o.Labels = append(o.Labels, "malformed_accepted")
				if v, ok := lenientReading(c.Rule, s); ok && v == idx {
					note("C09-F2", fmt.Sprintf("%s: not a date under any reading, yet accepted and placed in period %d", desc, idx))
				} else {
					note("", fmt.Sprintf("%s: not a date under any reading, yet accepted and placed in period %d", desc, idx))
				}
			default:
				o.Labels = append(o.Labels, "malformed_rejected")
			}
		}
	}
	for _, k := range c.Ints {
		if _, _, crash := route(rule, k.value()); crash != "" {
			note("", fmt.Sprintf("%s rule, key %s: Go runtime panic %s", c.Rule, k, crash))
		}
		o.Labels = append(o.Labels, "extreme_integer")
	}
	if len(unclassified) > 0 {
		o.Violation = unclassified[0]
		return
	}
	if knownID != "" {
		o.Known = knownID
		o.KnownWhat = classified[0]
	}
	return
}

func TestC09Malformed(t *testing.T) {
	pbt.Run(t, pbt.Spec{ID: "C09", Sub: "malformed", Quick: 8000, Thorough: 150000,
		Rule: "1-10 string keys per case for a year, month or day rule: canonical dates/datetimes, every prefix length 0-12 of one, one character replaced / inserted / removed, separators replaced by letters, digits, punctuation and multi-byte characters, compact digit forms, sign prefixes, impossible dates, numeric strings, free text; plus extreme integers (no-crash only). Oracle: canonical valid date -> placed by its date; not a date under any reading (neither d{1,4} P d{1,2} P d{1,2}... nor 6/8/12/14 digits) -> must be rejected with an error; never a Go runtime panic. non-trivial = the case contains a malformed key",
		Floor: 0.5}, genShape, checkShape)
}
