//go:build verif

// C04 Global tables: writes reach every copy, reads touch one copy.
//
// Case = namespace layout with one or two global tables (locations per slice
// 1-3, explicit database lists with and without the prefix[a-b] syntax, or the
// implicit logical database) + session database + one statement that involves
// only global tables. The statement is planned with plan.BuildPlan and executed
// against a recording plan.Executor. Reference, from the configuration alone
// (GlobalSpec.Copies): the copies of the table are the (slice, physical
// database) pairs its rule configures. A write must reach every copy exactly
// once and nothing else; a SELECT must produce exactly one statement, on one
// copy. Every statement is re-parsed: the table name must be unchanged and
// every schema qualifier (of tables and of columns) must be the physical
// database of the copy the statement is sent to.
package c04

import (
	"errors"
	"fmt"
	"sort"
	"strings"
	"testing"

	"github.com/XiaoMi/Gaea/parser/ast"
	"github.com/XiaoMi/Gaea/util"
	"pgregory.net/rapid"
	"verifharness/internal/pbt"
	"verifharness/internal/shardfix"
)

type c04Case struct {
	Layout shardfix.Layout `json:"layout"`
	DB     string          `json:"db"`
	SQL    string          `json:"sql"`
}

// ---------------------------------------------------------------- generator

func genCase(t *rapid.T) c04Case {
	l := shardfix.GenLayout(t, shardfix.Opts{Globals: rapid.IntRange(1, 2).Draw(t, "n_globals"), SameGlobals: true,
		Kinds: []string{"", "hash", "mycat_mod", "range"}, NoSeq: true})
	c := c04Case{Layout: l, DB: shardfix.DB}
	noDB := rapid.IntRange(0, 14).Draw(t, "no_session_db") == 0
	if noDB {
		c.DB = ""
	}
	two := len(l.Globals) == 2
	tab := func(name string) string {
		if noDB || rapid.IntRange(0, 1).Draw(t, "qual_"+name) == 0 {
			return shardfix.DB + "." + name
		}
		return name
	}
	alias := func(name string) string {
		if !noDB && rapid.IntRange(0, 2).Draw(t, "alias_"+name) == 0 {
			return rapid.SampledFrom([]string{"x", "y", "gg"}).Draw(t, "aliasname_"+name)
		}
		return ""
	}
	// one statement in three writes every column with its database (db.g1.col), the
	// form whose database must be rewritten to the copy's physical database
	fullQual := rapid.IntRange(0, 2).Draw(t, "full_qualified") == 0
	col := func(name, al, column string, must bool) string {
		if fullQual && al == "" {
			return shardfix.DB + "." + name + "." + column
		}
		if noDB {
			if !must && rapid.IntRange(0, 1).Draw(t, "bare") == 0 {
				return column
			}
			return shardfix.DB + "." + name + "." + column
		}
		if al != "" {
			if !must && rapid.IntRange(0, 2).Draw(t, "bare") == 0 {
				return column
			}
			return al + "." + column
		}
		switch k := rapid.IntRange(0, 5).Draw(t, "colform"); {
		case k < 2 && !must:
			return column
		case k >= 4:
			return shardfix.DB + "." + name + "." + column
		default:
			return name + "." + column
		}
	}
	cond := func(name, al string, must bool) string {
		var parts []string
		n := rapid.IntRange(1, 3).Draw(t, "conds")
		for i := 0; i < n; i++ {
			switch shardfix.Uniform(t, "cond", 12) {
			case 7:
				parts = append(parts, col(name, al, "id", must)+" NOT BETWEEN 4 AND 6")
			case 8:
				parts = append(parts, "NOT ("+col(name, al, "id", must)+" BETWEEN 2 AND 3)")
			case 9:
				parts = append(parts, "5 >= "+col(name, al, "id", must))
			case 10:
				parts = append(parts, col(name, al, "a", must)+" <=> NULL")
			case 11:
				parts = append(parts, "("+col(name, al, "id", must)+" IN (1,9) OR "+col(name, al, "a", must)+" BETWEEN 1 AND 2)")
			case 0:
				parts = append(parts, col(name, al, "id", must)+" = 3")
			case 1:
				parts = append(parts, col(name, al, "id", must)+" IN (1,2,3)")
			case 2:
				parts = append(parts, col(name, al, "a", must)+" IS NULL")
			case 3:
				parts = append(parts, col(name, al, "id", must)+" BETWEEN 2 AND 9")
			case 4:
				parts = append(parts, col(name, al, "id", must)+" NOT IN (7)")
			case 5:
				parts = append(parts, "("+col(name, al, "a", must)+" < 5 OR "+col(name, al, "id", must)+" > 1)")
			default:
				parts = append(parts, "NOT ("+col(name, al, "a", must)+" = 1)")
			}
		}
		return strings.Join(parts, rapid.SampledFrom([]string{" AND ", " AND ", " OR "}).Draw(t, "glue"))
	}
	g := rapid.SampledFrom(l.Globals).Draw(t, "gtab").Table
	switch k := shardfix.Uniform(t, "stmt", 100); {
	case k < 18: // INSERT
		verb := rapid.SampledFrom([]string{"INSERT INTO", "REPLACE INTO", "INSERT IGNORE INTO"}).Draw(t, "verb")
		if rapid.IntRange(0, 3).Draw(t, "set_form") == 0 {
			c.SQL = verb + " " + tab(g) + " SET id = 4, a = 1"
			break
		}
		n := rapid.IntRange(1, 3).Draw(t, "rows")
		var rows []string
		for i := 0; i < n; i++ {
			rows = append(rows, fmt.Sprintf("(%d,%s)", i+1, rapid.SampledFrom([]string{"1", "NULL", "2+3"}).Draw(t, "v")))
		}
		c.SQL = verb + " " + tab(g) + " (id, a) VALUES " + strings.Join(rows, ",")
		if verb == "INSERT INTO" && rapid.IntRange(0, 3).Draw(t, "dup") == 0 {
			c.SQL += " ON DUPLICATE KEY UPDATE a = a + 1"
		}
	case k < 40: // UPDATE
		al := alias(g)
		from := tab(g)
		if al != "" {
			from += " AS " + al
		}
		set := rapid.SampledFrom([]string{"a = 9", "a = a + 1"}).Draw(t, "set")
		if rapid.IntRange(0, 2).Draw(t, "qual_set") == 0 {
			set = col(g, al, "a", false) + " = 7"
		}
		c.SQL = "UPDATE " + from + " SET " + set
		if rapid.IntRange(0, 4).Draw(t, "where") != 0 {
			c.SQL += " WHERE " + cond(g, al, false)
		}
		c.SQL += rapid.SampledFrom([]string{"", "", " LIMIT 10", " ORDER BY id LIMIT 2", " ORDER BY " + col(g, al, "id", false) + " DESC LIMIT 3"}).Draw(t, "tail")
	case k < 58: // DELETE
		c.SQL = "DELETE FROM " + tab(g)
		if rapid.IntRange(0, 4).Draw(t, "where") != 0 {
			c.SQL += " WHERE " + cond(g, "", false)
		}
		c.SQL += rapid.SampledFrom([]string{"", "", " LIMIT 10", " ORDER BY " + col(g, "", "id", false) + " LIMIT 2"}).Draw(t, "tail")
	case k < 84 || !two: // SELECT from one global table
		al := alias(g)
		from := tab(g)
		if al != "" {
			from += rapid.SampledFrom([]string{" AS ", " "}).Draw(t, "as") + al
		}
		fields := rapid.SampledFrom([]string{"*", "id, a", "count(*)", col(g, al, "a", false), "max(a)"}).Draw(t, "fields")
		c.SQL = "SELECT " + fields + " FROM " + from
		if rapid.IntRange(0, 4).Draw(t, "where") != 0 {
			c.SQL += " WHERE " + cond(g, al, false)
		}
		tail := rapid.SampledFrom([]string{"", "", " ORDER BY id", " LIMIT 3", " ORDER BY " + col(g, al, "id", false) + " DESC LIMIT 2, 3", " GROUP BY a",
			" ORDER BY " + col(g, al, "a", false) + ", " + col(g, al, "id", false), " GROUP BY " + col(g, al, "a", false)}).Draw(t, "tail")
		if strings.Contains(fields, "(") && strings.Contains(tail, "ORDER") {
			tail = ""
		}
		if fields == "id, a" && strings.Contains(tail, "GROUP") {
			tail = ""
		}
		c.SQL += tail
	default: // SELECT joining the two global tables
		a1, a2 := alias("g1"), alias("g2")
		if a1 == a2 {
			a2 = ""
		}
		f1, f2 := tab("g1"), tab("g2")
		if a1 != "" {
			f1 += " AS " + a1
		}
		if a2 != "" {
			f2 += " " + a2
		}
		on := col("g1", a1, "id", true) + " = " + col("g2", a2, "id", true)
		switch rapid.IntRange(0, 2).Draw(t, "join") {
		case 0:
			c.SQL = "SELECT * FROM " + f1 + " JOIN " + f2 + " ON " + on
		case 1:
			c.SQL = "SELECT * FROM " + f1 + " LEFT JOIN " + f2 + " ON " + on
		default:
			c.SQL = "SELECT * FROM " + f1 + ", " + f2 + " WHERE " + on
		}
		if rapid.IntRange(0, 1).Draw(t, "where") == 0 {
			w := cond("g1", a1, true)
			if strings.Contains(c.SQL, " WHERE ") {
				c.SQL += " AND (" + w + ")"
			} else {
				c.SQL += " WHERE " + w
			}
		}
	}
	return c
}

// ---------------------------------------------------------------- reference

type loc struct{ slice, db string }

var errRecorded = errors.New("c04: statements recorded")

func stmtKind(n ast.StmtNode) string {
	switch n.(type) {
	case *ast.SelectStmt:
		return "select"
	case *ast.InsertStmt:
		return "insert"
	case *ast.UpdateStmt:
		return "update"
	case *ast.DeleteStmt:
		return "delete"
	}
	return ""
}

func isPrefixOrder(rs []int) bool {
	for i, v := range rs {
		if v != i {
			return false
		}
	}
	return true
}

func wantOf(g shardfix.GlobalSpec) map[loc]int {
	want := map[loc]int{}
	for _, cp := range g.Copies() {
		want[loc{cp.Slice, cp.DB}]++
	}
	return want
}

// copyProblems compares the statements per (slice, database) with the copies of
// a write: each copy exactly once, nothing else.
func copyProblems(want, got map[loc]int) (probs []string) {
	for lc := range want {
		if got[lc] == 0 {
			probs = append(probs, fmt.Sprintf("copy %s/%s gets nothing", lc.slice, lc.db))
		} else if got[lc] > 1 {
			probs = append(probs, fmt.Sprintf("copy %s/%s gets the statement %d times", lc.slice, lc.db, got[lc]))
		}
	}
	for lc := range got {
		if want[lc] == 0 {
			probs = append(probs, fmt.Sprintf("%s/%s is not a copy but gets the statement", lc.slice, lc.db))
		}
	}
	sort.Strings(probs)
	return probs
}

// namesProblem checks the names in one executed statement against the copy it
// was sent to.
func namesProblem(st shardfix.Stmt, globals map[string]bool, origTabs map[string]bool) string {
	node, err := shardfix.Parse(st.SQL)
	if err != nil {
		return fmt.Sprintf("statement for %s/%s does not parse: %q: %v", st.Slice, st.DB, st.SQL, err)
	}
	tabs, cols := shardfix.Names(node)
	seen := map[string]bool{}
	for _, tr := range tabs {
		low := strings.ToLower(tr.Name)
		seen[low] = true
		if !globals[low] {
			return fmt.Sprintf("statement for %s/%s names table %q which is not one of the statement's global tables: %q", st.Slice, st.DB, tr.Name, st.SQL)
		}
		if tr.Schema != "" && tr.Schema != st.DB {
			return fmt.Sprintf("statement for %s/%s names database %q for table %s: %q", st.Slice, st.DB, tr.Schema, tr.Name, st.SQL)
		}
	}
	for name := range origTabs {
		if !seen[name] {
			return fmt.Sprintf("statement for %s/%s lost table %s: %q", st.Slice, st.DB, name, st.SQL)
		}
	}
	for _, cr := range cols {
		if cr.Schema != "" && cr.Schema != st.DB {
			return fmt.Sprintf("statement for %s/%s qualifies column %s.%s.%s with a database that is not the copy's: %q", st.Slice, st.DB, cr.Schema, cr.Table, cr.Name, st.SQL)
		}
	}
	return ""
}

func checkCase(c c04Case) (o pbt.Outcome) {
	f, err := shardfix.Build(c.Layout)
	if err != nil {
		o.Skip = "layout rejected by configuration validation: " + err.Error()
		return
	}
	ref, err := shardfix.Parse(c.SQL)
	if err != nil {
		o.Skip = "statement does not parse"
		return
	}
	kind := stmtKind(ref)
	if kind == "" {
		o.Skip = "statement kind outside the property"
		return
	}
	tabs, cols := shardfix.Names(ref)
	origTabs := map[string]bool{}
	globals := map[string]bool{}
	var g shardfix.GlobalSpec
	qualified := false
	for i, tr := range tabs {
		low := strings.ToLower(tr.Name)
		gs, ok := f.Global(low)
		if !ok {
			o.Skip = "statement involves a table that is not global"
			return
		}
		if i == 0 {
			g = gs
		} else if fmt.Sprint(gs.RuleSlices, gs.Locations, gs.Databases) != fmt.Sprint(g.RuleSlices, g.Locations, g.Databases) {
			o.Skip = "global tables with different layouts in one statement (Gaea documents that they must be configured alike)"
			return
		}
		origTabs[low] = true
		globals[low] = true
		if tr.Schema != "" {
			qualified = true
		}
	}
	for _, cr := range cols {
		if cr.Schema != "" {
			qualified = true
		}
	}
	if len(origTabs) == 0 {
		o.Skip = "no table"
		return
	}
	for _, where := range qualifiedColumnPlaces(ref) {
		o.Labels = append(o.Labels, "dbqualified_column_in_"+where)
	}
	hasAlias := strings.Contains(strings.ToUpper(c.SQL), " AS ") || aliasUsed(ref)
	want := wantOf(g)
	o.Labels = append(o.Labels, "stmt_"+kind, fmt.Sprintf("copies_%d", len(want)))
	if len(origTabs) > 1 {
		o.Labels = append(o.Labels, "two_global_tables")
	}
	switch {
	case len(g.Databases) == 0:
		o.Labels = append(o.Labels, "db_implicit")
	case len(shardfix.ExpandDatabases(g.Databases)) != len(g.Databases):
		o.Labels = append(o.Labels, "db_range_syntax")
	default:
		o.Labels = append(o.Labels, "db_explicit")
	}
	if qualified {
		o.Labels = append(o.Labels, "schema_qualified")
	}
	if hasAlias {
		o.Labels = append(o.Labels, "alias")
	}
	o.NonTrivial = len(want) >= 2 && (qualified || hasAlias)

	// A SELECT picks its copy at random: plan it many times. Writes are planned
	// twice. The statements generated here are plain and valid, so a Go runtime
	// panic is a violation (the read did not land on a copy), and so is a statement
	// that is accepted in one planning and refused in another.
	rounds := 2
	if kind == "select" {
		rounds = 12
	}
	if len(want) < c.Layout.NSSlices {
		o.Labels = append(o.Labels, "fewer_copies_than_slices")
	}
	accepted, refused := 0, ""
	for round := 0; round < rounds; round++ {
		p, perr, pan, _ := f.Plan(c.DB, c.SQL)
		if pan != "" && shardfix.IsRuntimePanic(pan) {
			o.Violation = fmt.Sprintf("global table %s (slices %v locations %v databases %v): planning %q panics: %s", g.Table, g.RuleSlices, g.Locations, g.Databases, c.SQL, pan)
			return
		}
		if perr != nil || pan != "" {
			refused = fmt.Sprintf("plan: %v %s", perr, pan)
			continue
		}
		rec := shardfix.NewRecorder()
		if kind == "select" {
			rec.Fail = errRecorded // stop after the statements were handed over: the stub results cannot be merged
		}
		var execErr error
		if pp := pbt.Catch(func() { _, execErr = p.ExecuteIn(util.NewRequestContext(), rec) }); pp != "" {
			o.Violation = fmt.Sprintf("global table %s (slices %v locations %v databases %v): executing %q panics: %s (statements so far %v)", g.Table, g.RuleSlices, g.Locations, g.Databases, c.SQL, pp, sqlsOf(rec.Stmts()))
			return
		}
		if execErr != nil && strings.Contains(execErr.Error(), errRecorded.Error()) {
			execErr = nil
		}
		if execErr != nil {
			if len(rec.Stmts()) > 0 {
				o.Violation = fmt.Sprintf("global table %s: %q fails (%v) after %d statements were executed", g.Table, c.SQL, execErr, len(rec.Stmts()))
				return
			}
			refused = "execute: " + execErr.Error()
			continue
		}
		accepted++
		stmts := rec.Stmts()
		got := map[loc]int{}
		for _, st := range stmts {
			got[loc{st.Slice, st.DB}]++
		}
		// names first: whatever copy a statement was sent to (also under the open
		// finding C04-F2), everything in it must belong to that copy's database
		for _, st := range stmts {
			if problem := namesProblem(st, globals, origTabs); problem != "" {
				o.Violation = problem + fmt.Sprintf(" (original %q)", c.SQL)
				return
			}
			if node, err := shardfix.Parse(st.SQL); err == nil && stmtKind(node) != kind {
				o.Violation = fmt.Sprintf("statement kind changed: %q (original %q)", st.SQL, c.SQL)
				return
			}
		}
		describe := fmt.Sprintf("global table %s (slices %v locations %v databases %v)", g.Table, g.RuleSlices, g.Locations, g.Databases)
		// the layout Gaea actually addresses: namespace slice i for the rule's i-th entry (open finding C04-F2)
		g2 := g
		g2.RuleSlices = nil
		for i := range g.RuleSlices {
			g2.RuleSlices = append(g2.RuleSlices, i)
		}
		want2 := wantOf(g2)
		if kind == "select" {
			problem := ""
			switch {
			case len(stmts) != 1:
				problem = fmt.Sprintf("%s: a read produced %d statements %v instead of one (sql %q)", describe, len(stmts), sqlsOf(stmts), c.SQL)
			case want[loc{stmts[0].Slice, stmts[0].DB}] == 0:
				problem = fmt.Sprintf("%s: the read was sent to %s/%s which is not a copy (sql %q -> %q)", describe, stmts[0].Slice, stmts[0].DB, c.SQL, stmts[0].SQL)
			}
			if problem != "" {
				if len(stmts) == 1 && !isPrefixOrder(g.RuleSlices) && want2[loc{stmts[0].Slice, stmts[0].DB}] > 0 {
					o.Known, o.KnownWhat = "C04-F2", problem
					return
				}
				o.Violation = problem
				return
			}
		} else {
			probs := copyProblems(want, got)
			if len(probs) > 0 {
				detail := fmt.Sprintf("%s: %s (sql %q)", describe, strings.Join(probs, "; "), c.SQL)
				// C04-F2 (open): accepted only when the statements are exactly one per copy
				// of the layout Gaea's slice substitution implies
				if !isPrefixOrder(g.RuleSlices) && len(copyProblems(want2, got)) == 0 {
					o.Known, o.KnownWhat = "C04-F2", detail
				} else {
					o.Violation = detail
				}
				return
			}
		}
	}
	switch {
	case accepted > 0 && refused != "":
		o.Violation = fmt.Sprintf("global table %s (slices %v locations %v databases %v): %q is accepted in %d of %d plannings and refused in the others (%s)", g.Table, g.RuleSlices, g.Locations, g.Databases, c.SQL, accepted, rounds, refused)
	case accepted > 0:
		o.Labels = append(o.Labels, "accepted")
	default:
		o.Labels = append(o.Labels, "rejected")
	}
	return
}

// qualifiedColumnPlaces lists the syntactic places (between, in, compare,
// isnull, orderby, groupby, fields, assignment) where the statement writes a
// column with its database name.
func qualifiedColumnPlaces(n ast.StmtNode) []string {
	set := map[string]bool{}
	isQ := func(e ast.ExprNode) bool {
		c, ok := e.(*ast.ColumnNameExpr)
		return ok && c.Name.Schema.O != ""
	}
	var walk func(e ast.ExprNode)
	walk = func(e ast.ExprNode) {
		switch x := e.(type) {
		case *ast.ParenthesesExpr:
			walk(x.Expr)
		case *ast.UnaryOperationExpr:
			walk(x.V)
		case *ast.BinaryOperationExpr:
			if isQ(x.L) || isQ(x.R) {
				set["compare"] = true
			}
			walk(x.L)
			walk(x.R)
		case *ast.BetweenExpr:
			if isQ(x.Expr) {
				if x.Not {
					set["not_between"] = true
				} else {
					set["between"] = true
				}
			}
		case *ast.PatternInExpr:
			if isQ(x.Expr) {
				if x.Not {
					set["not_in"] = true
				} else {
					set["in"] = true
				}
			}
		case *ast.IsNullExpr:
			if isQ(x.Expr) {
				set["isnull"] = true
			}
		}
	}
	by := func(items []*ast.ByItem, name string) {
		for _, it := range items {
			if isQ(it.Expr) {
				set[name] = true
			}
		}
	}
	var joinOn func(rs ast.ResultSetNode)
	joinOn = func(rs ast.ResultSetNode) {
		if j, ok := rs.(*ast.Join); ok && j != nil {
			if j.Left != nil {
				joinOn(j.Left)
			}
			if j.Right != nil {
				joinOn(j.Right)
			}
			if j.On != nil {
				walk(j.On.Expr)
			}
		}
	}
	switch s := n.(type) {
	case *ast.SelectStmt:
		if s.Where != nil {
			walk(s.Where)
		}
		if s.From != nil && s.From.TableRefs != nil {
			joinOn(s.From.TableRefs)
		}
		if s.OrderBy != nil {
			by(s.OrderBy.Items, "orderby")
		}
		if s.GroupBy != nil {
			by(s.GroupBy.Items, "groupby")
		}
		if s.Fields != nil {
			for _, f := range s.Fields.Fields {
				if f.Expr != nil && isQ(f.Expr) {
					set["fields"] = true
				}
			}
		}
	case *ast.UpdateStmt:
		if s.Where != nil {
			walk(s.Where)
		}
		if s.Order != nil {
			by(s.Order.Items, "orderby")
		}
		for _, a := range s.List {
			if a.Column.Schema.O != "" {
				set["assignment"] = true
			}
		}
	case *ast.DeleteStmt:
		if s.Where != nil {
			walk(s.Where)
		}
		if s.Order != nil {
			by(s.Order.Items, "orderby")
		}
	}
	var out []string
	for k := range set {
		out = append(out, k)
	}
	sort.Strings(out)
	return out
}

func aliasUsed(n ast.StmtNode) bool {
	found := false
	var walk func(rs ast.ResultSetNode)
	walk = func(rs ast.ResultSetNode) {
		switch x := rs.(type) {
		case *ast.Join:
			if x.Left != nil {
				walk(x.Left)
			}
			if x.Right != nil {
				walk(x.Right)
			}
		case *ast.TableSource:
			if x.AsName.L != "" {
				found = true
			}
		}
	}
	switch s := n.(type) {
	case *ast.SelectStmt:
		if s.From != nil && s.From.TableRefs != nil {
			walk(s.From.TableRefs)
		}
	case *ast.UpdateStmt:
		if s.TableRefs != nil && s.TableRefs.TableRefs != nil {
			walk(s.TableRefs.TableRefs)
		}
	case *ast.DeleteStmt:
		if s.TableRefs != nil && s.TableRefs.TableRefs != nil {
			walk(s.TableRefs.TableRefs)
		}
	}
	return found
}

func sqlsOf(st []shardfix.Stmt) []string {
	var out []string
	for _, s := range st {
		out = append(out, s.Slice+"/"+s.DB+": "+s.SQL)
	}
	return out
}

func TestC04Global(t *testing.T) {
	pbt.Run(t, pbt.Spec{ID: "C04", Sub: "global", Quick: 2000, Thorough: 10000,
		Rule:  "namespace of 1-4 slices with one or two identically configured global tables (1-3 locations per listed slice, implicit database / explicit list / prefix[a-b] list, slice lists in and out of namespace order) x INSERT/REPLACE (VALUES and SET), UPDATE, DELETE, SELECT, join of the two global tables, with and without schema-qualified tables and columns, aliases, IN / BETWEEN / OR conditions, ORDER BY / LIMIT; non-trivial = the table has >=2 copies and the statement is schema-qualified or uses an alias",
		Floor: 0.5}, genCase, checkCase)
}
