//go:build verif

// C26 A replica is fused exactly when recent connection errors reach the threshold.
//
// Sub-checks:
//   window   backend.NewSlidingWindow / Trigger against a reference count of the
//            events in (now-W, now] (exported API only, timestamps are inputs).
//   errkind  Slice.TryFuse: only connection-type errors are recorded, a disabled
//            or absent breaker never fires. The wall clock that TryFuse reads is
//            made irrelevant by a one-hour window (see the Rule text).
//   TODO(C26-tryfuse-clock): TryFuse with windows of 1-8 s and drawn clock
//            advances needs the injectable backend clock (build tag verif) that
//            is being added to /repo; see TestC26TryFuseClock below.
package c26

import (
	"context"
	"errors"
	"fmt"
	"io"
	"testing"

	"github.com/XiaoMi/Gaea/backend"
	"github.com/XiaoMi/Gaea/log"
	"github.com/XiaoMi/Gaea/mysql"
	"pgregory.net/rapid"
	"verifharness/internal/fakepool"
	"verifharness/internal/pbt"
)

func init() { log.SetGlobalLogger(fakepool.NullLogger{}) }

// ---- sliding window ----

type winCase struct {
	Window    int64   `json:"window"`
	Threshold int64   `json:"threshold"`
	Base      int64   `json:"base"`   // timestamp of the first event (unix seconds, >= 0)
	Deltas    []int64 `json:"deltas"` // non-negative increments; event i happens at Base+sum(Deltas[:i+1]) (Deltas[0] is added too)
}

func genWin(t *rapid.T) winCase {
	var c winCase
	switch rapid.IntRange(0, 9).Draw(t, "cfg") {
	case 0: // disabled
		c.Window = int64(rapid.SampledFrom([]int{0, -1, -5, 3, 8}).Draw(t, "w"))
		if c.Window > 0 {
			c.Threshold = int64(rapid.SampledFrom([]int{0, -1, -7}).Draw(t, "m"))
		} else {
			c.Threshold = int64(rapid.IntRange(-2, 8).Draw(t, "m"))
		}
	case 1: // beyond the stated domain, still legal configuration
		c.Window = int64(rapid.IntRange(9, 70).Draw(t, "w"))
		c.Threshold = int64(rapid.IntRange(1, 12).Draw(t, "m"))
	default:
		c.Window = int64(rapid.IntRange(1, 8).Draw(t, "w"))
		c.Threshold = int64(rapid.IntRange(1, 8).Draw(t, "m"))
	}
	w := c.Window
	if w <= 0 {
		w = 4
	}
	switch rapid.IntRange(0, 3).Draw(t, "basek") {
	case 0:
		c.Base = int64(rapid.IntRange(0, int(2*w)).Draw(t, "base")) // first seconds of the epoch: window start <= 0
	case 1:
		c.Base = 1700000000 + int64(rapid.IntRange(0, 100000).Draw(t, "base"))
	case 2:
		c.Base = w*int64(rapid.IntRange(1, 1000).Draw(t, "basem")) + int64(rapid.IntRange(-1, 1).Draw(t, "based"))
	default:
		c.Base = int64(rapid.Int64Range(0, 1<<40).Draw(t, "base"))
	}
	n := rapid.IntRange(1, 60).Draw(t, "n")
	// a per-case bias so that some histories are bursts and some are sparse
	bias := rapid.IntRange(0, 3).Draw(t, "bias")
	for i := 0; i < n; i++ {
		var d int64
		k := rapid.IntRange(0, 9).Draw(t, "dk")
		switch {
		case k <= 2+bias: // same second
			d = 0
		case k <= 5+bias/2:
			d = 1
		case k == 7:
			d = w + int64(rapid.IntRange(-2, 1).Draw(t, "dd")) // just below, equal to, just above the window
		case k == 8:
			d = int64(rapid.IntRange(0, int(2*w+1)).Draw(t, "dd"))
		default:
			d = int64(rapid.SampledFrom([]int{2, 3, 100, 86400}).Draw(t, "dd"))
		}
		if d < 0 {
			d = 0
		}
		c.Deltas = append(c.Deltas, d)
	}
	return c
}

func checkWin(c winCase) (o pbt.Outcome) {
	if c.Base < 0 || c.Base > 1<<41 || len(c.Deltas) > 5000 {
		o.Skip = "timestamp outside unix-seconds range"
		return
	}
	for _, d := range c.Deltas {
		if d < 0 || d > 1<<30 {
			o.Skip = "decreasing or absurd timestamp step"
			return
		}
	}
	disabled := c.Window <= 0 || c.Threshold <= 0
	if disabled {
		o.Labels = append(o.Labels, "disabled")
	} else if c.Window > 8 || c.Threshold > 8 {
		o.Labels = append(o.Labels, "config_beyond_1_8")
	}
	var times []int64 // reference: every recorded event
	fired, expired, wrapped, belowWindowGap := false, false, false, false
	if p := pbt.Catch(func() {
		sw := backend.NewSlidingWindow(c.Window, c.Threshold)
		now := c.Base
		for i, d := range c.Deltas {
			now += d
			got := sw.Trigger(now)
			times = append(times, now)
			want := false
			if !disabled {
				cnt := int64(0)
				for _, ts := range times {
					if ts > now-c.Window { // (now-W, now]
						cnt++
					} else {
						expired = true
					}
				}
				want = cnt >= c.Threshold
				if now-c.Base >= c.Window {
					wrapped = true
				}
				if d > 0 && d == c.Window-1 && i > 0 {
					belowWindowGap = true
				}
				if got != want {
					o.Violation = fmt.Sprintf("event %d at t=%d (window %d, threshold %d): Trigger=%v, but %d events lie in (%d,%d] so want %v",
						i, now, c.Window, c.Threshold, got, cnt, now-c.Window, now, want)
					return
				}
			} else if got {
				o.Violation = fmt.Sprintf("disabled breaker (window %d, threshold %d) fired at event %d", c.Window, c.Threshold, i)
				return
			}
			if got {
				fired = true
			}
		}
	}); p != "" {
		o.Violation = "runtime panic: " + p
		return
	}
	if fired {
		o.Labels = append(o.Labels, "fired")
	}
	if expired {
		o.Labels = append(o.Labels, "events_expired")
	}
	if wrapped {
		o.Labels = append(o.Labels, "bucket_reuse")
	}
	if belowWindowGap {
		o.Labels = append(o.Labels, "gap_window_minus_1")
	}
	if fired && expired {
		o.Labels = append(o.Labels, "fired_and_expired")
	}
	o.NonTrivial = !disabled && expired && len(c.Deltas) >= 3
	return
}

func TestC26Window(t *testing.T) {
	pbt.Run(t, pbt.Spec{ID: "C26", Sub: "window", Quick: 20000, Thorough: 200000,
		Rule: "window 1-8 (10%: 9-70; 10%: disabled by window/threshold <= 0), threshold 1-8; 1-60 events with non-decreasing unix-second timestamps starting near 0, near 1.7e9, next to a multiple of the window or anywhere below 2^40; steps 0 (same second), 1, W-2..W+1, uniform in [0,2W+1], or long gaps; reference = number of recorded events in (now-W, now] >= threshold; non-trivial = enabled breaker, >= 3 events and at least one event had left the window when a later one was judged",
		Floor: 0.5}, genWin, checkWin)
}

// ---- Slice.TryFuse: which errors count ----

type kindCase struct {
	Threshold int64 `json:"threshold"`
	Window    int64 `json:"window"`   // 3600 (enabled) or <= 0 (disabled)
	Recovery  int   `json:"recovery"` // 0 hard cool-down, 1 gradual, 2 no recovery strategy installed, 3 no fuse strategy installed
	Ops       []int `json:"ops"`      // index into errKinds, or -1 = the prober marks the node up again
}

type errKind struct {
	name string
	err  error
	conn bool
}

var errKinds = []errKind{
	{"nil", nil, false},
	{"conn_dial", mysql.NewConnTypeError("127.0.0.1:3306", "failed to dial"), true},
	{"conn_pool_timeout", mysql.NewConnTypeError("", "resource pool timed out"), true},
	{"plain", errors.New("some error"), false},
	{"sql_error", mysql.NewError(mysql.ErrUnknown, "unknown"), false},
	{"sql_error_1040", mysql.NewError(1040, "Too many connections"), false},
	{"pool_closed", backend.ErrConnectionPoolClosed, false},
	{"ctx_deadline", context.DeadlineExceeded, false},
	{"eof", io.EOF, false},
}

func genKind(t *rapid.T) kindCase {
	c := kindCase{Threshold: int64(rapid.IntRange(1, 8).Draw(t, "m")), Window: 3600}
	switch rapid.IntRange(0, 9).Draw(t, "cfg") {
	case 0:
		c.Threshold = int64(rapid.SampledFrom([]int{0, -1}).Draw(t, "m0"))
	case 1:
		c.Window = int64(rapid.SampledFrom([]int{0, -3}).Draw(t, "w0"))
	}
	c.Recovery = rapid.SampledFrom([]int{0, 0, 0, 1, 1, 1, 2, 3}).Draw(t, "rec")
	n := rapid.IntRange(1, 40).Draw(t, "n")
	connBias := rapid.IntRange(2, 7).Draw(t, "cb")
	for i := 0; i < n; i++ {
		k := rapid.IntRange(0, 9).Draw(t, "k")
		switch {
		case k < connBias:
			c.Ops = append(c.Ops, rapid.IntRange(1, 2).Draw(t, "ck"))
		case k == 9:
			c.Ops = append(c.Ops, -1)
		default:
			c.Ops = append(c.Ops, rapid.SampledFrom([]int{0, 3, 4, 5, 6, 7, 8}).Draw(t, "ok"))
		}
	}
	return c
}

func checkKind(c kindCase) (o pbt.Outcome) {
	if c.Window > 0 && c.Window < 3600 {
		o.Skip = "window shorter than an hour would make the result depend on the wall clock"
		return
	}
	node := &backend.NodeInfo{Address: "127.0.0.1:3307", Status: backend.StatusUp, ConnPool: fakepool.New("127.0.0.1:3307", nil)}
	switch c.Recovery {
	case 0:
		node.FuseStrategy = backend.NewSlidingWindow(c.Window, c.Threshold)
		node.RecoveryStrategy = backend.NewHardCoolDown(10)
		o.Labels = append(o.Labels, "hard_cooldown")
	case 1:
		node.FuseStrategy = backend.NewSlidingWindow(c.Window, c.Threshold)
		node.RecoveryStrategy = backend.NewGradualRecovery()
		o.Labels = append(o.Labels, "gradual")
	case 2:
		node.FuseStrategy = backend.NewSlidingWindow(c.Window, c.Threshold)
		o.Labels = append(o.Labels, "no_recovery_strategy")
	default:
		node.RecoveryStrategy = backend.NewHardCoolDown(10)
		o.Labels = append(o.Labels, "no_fuse_strategy")
	}
	// Fusing is configured per node through InitFuseRecoveryPolicy, which always
	// installs both strategies; with either missing TryFuse is documented to do nothing.
	enabled := c.Recovery <= 1 && c.Window > 0 && c.Threshold > 0
	if !enabled {
		o.Labels = append(o.Labels, "breaker_off")
	}
	s := &backend.Slice{Namespace: "ns"}
	connErrs := int64(0)
	down := false
	sawOtherAfterPartial, fusedCnt := false, 0
	if p := pbt.Catch(func() {
		for i, op := range c.Ops {
			if op == -1 || op >= len(errKinds) || op < -1 {
				node.SetStatusUp()
				down = false
				continue
			}
			k := errKinds[op]
			s.TryFuse(node, k.err)
			if k.conn {
				connErrs++
				if enabled && connErrs >= c.Threshold {
					if !down {
						fusedCnt++
					}
					down = true
				}
			} else if connErrs > 0 && connErrs < c.Threshold {
				sawOtherAfterPartial = true
			}
			if got := node.IsStatusDown(); got != down {
				o.Violation = fmt.Sprintf("after op %d (TryFuse with %s error; %d connection errors so far, threshold %d, breaker enabled=%v): node down=%v want %v",
					i, k.name, connErrs, c.Threshold, enabled, got, down)
				return
			}
		}
	}); p != "" {
		o.Violation = "runtime panic: " + p
		return
	}
	if fusedCnt > 0 {
		o.Labels = append(o.Labels, "fused")
	}
	if fusedCnt > 1 {
		o.Labels = append(o.Labels, "fused_again_after_recovery")
	}
	if sawOtherAfterPartial {
		o.Labels = append(o.Labels, "other_error_between_conn_errors")
	}
	o.NonTrivial = (enabled && fusedCnt > 0 && c.Threshold >= 2) || (!enabled && connErrs >= 1)
	return
}

func TestC26ErrKind(t *testing.T) {
	pbt.Run(t, pbt.Spec{ID: "C26", Sub: "errkind", Quick: 6000, Thorough: 60000,
		Rule: "a NodeInfo with SlidingWindow(3600 s, threshold 1-8) (20%: disabled by parameter; 25%: one of the two strategies absent) and hard or gradual recovery; 1-40 TryFuse calls with nil, mysql.ConnTypeError, plain, *SQLError, pool-closed, context and EOF errors, interleaved with the prober setting the node up; the one-hour window makes every event of a case lie inside the window whatever the wall clock reads, so the node must be down exactly from the threshold-th connection error on; non-trivial = breaker fired with threshold >= 2, or a disabled breaker saw a connection error",
		Floor: 0.4}, genKind, checkKind)
}

// TODO(C26-tryfuse-clock): the time-dependent half of the TryFuse level (windows of
// 1-8 s, drawn clock advances between TryFuse calls, expiry of old connection
// errors) needs the injectable backend clock that is being added to /repo under
// build tag `verif` (DESIGN.md section 5, shared with C27). Once it exists: reuse
// genWin's timestamp histories, set the hook clock to each timestamp, call
// Slice.TryFuse with a drawn error kind and compare node.IsStatusDown() with the
// same reference count as checkWin restricted to connection-type errors.
func TestC26TryFuseClock(t *testing.T) {
	t.Skip("TODO(C26-tryfuse-clock): waits for the verif clock hook in /repo/backend")
}
