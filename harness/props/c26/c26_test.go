//go:build verif

// C26 A replica is fused exactly when recent connection errors reach the threshold.
//
// Sub-checks:
//
//	window   backend.NewSlidingWindow / Trigger against a reference count of the
//	         events in (now-W, now] (exported API only, timestamps are inputs).
//	tryfuse  Slice.TryFuse on a NodeInfo under the injectable backend clock
//	         (backend.VerifSetClock, build tag verif): only connection-type errors
//	         are recorded, the node goes down exactly when the reference window
//	         count reaches the threshold, a disabled or absent breaker never fires.
package c26

import (
	"context"
	"errors"
	"fmt"
	"io"
	"testing"
	"time"

	"github.com/XiaoMi/Gaea/backend"
	"github.com/XiaoMi/Gaea/log"
	"github.com/XiaoMi/Gaea/mysql"
	"pgregory.net/rapid"
	"verifharness/internal/fakepool"
	"verifharness/internal/pbt"
)

func init() { log.SetGlobalLogger(fakepool.NullLogger{}) }

// ---- sliding window ----

type winCase struct {
	Window    int64   `json:"window"`
	Threshold int64   `json:"threshold"`
	Base      int64   `json:"base"`   // timestamp of the first event (unix seconds, >= 0)
	Deltas    []int64 `json:"deltas"` // non-negative increments; event i happens at Base+sum(Deltas[:i+1]) (Deltas[0] is added too)
}

func genWin(t *rapid.T) winCase {
	var c winCase
	switch rapid.IntRange(0, 9).Draw(t, "cfg") {
	case 0: // disabled
		c.Window = int64(rapid.SampledFrom([]int{0, -1, -5, 3, 8}).Draw(t, "w"))
		if c.Window > 0 {
			c.Threshold = int64(rapid.SampledFrom([]int{0, -1, -7}).Draw(t, "m"))
		} else {
			c.Threshold = int64(rapid.IntRange(-2, 8).Draw(t, "m"))
		}
	case 1: // beyond the stated domain, still legal configuration
		c.Window = int64(rapid.IntRange(9, 70).Draw(t, "w"))
		c.Threshold = int64(rapid.IntRange(1, 12).Draw(t, "m"))
	default:
		c.Window = int64(rapid.IntRange(1, 8).Draw(t, "w"))
		c.Threshold = int64(rapid.IntRange(1, 8).Draw(t, "m"))
	}
	w := c.Window
	if w <= 0 {
		w = 4
	}
	switch rapid.IntRange(0, 3).Draw(t, "basek") {
	case 0:
		c.Base = int64(rapid.IntRange(0, int(2*w)).Draw(t, "base")) // first seconds of the epoch: window start <= 0
	case 1:
		c.Base = 1700000000 + int64(rapid.IntRange(0, 100000).Draw(t, "base"))
	case 2:
		c.Base = w*int64(rapid.IntRange(1, 1000).Draw(t, "basem")) + int64(rapid.IntRange(-1, 1).Draw(t, "based"))
	default:
		c.Base = int64(rapid.Int64Range(0, 1<<40).Draw(t, "base"))
	}
	n := rapid.IntRange(1, 60).Draw(t, "n")
	// a per-case bias so that some histories are bursts and some are sparse
	bias := rapid.IntRange(0, 3).Draw(t, "bias")
	for i := 0; i < n; i++ {
		var d int64
		k := rapid.IntRange(0, 9).Draw(t, "dk")
		switch {
		case k <= 2+bias: // same second
			d = 0
		case k <= 5+bias/2:
			d = 1
		case k == 7:
			d = w + int64(rapid.IntRange(-2, 1).Draw(t, "dd")) // just below, equal to, just above the window
		case k == 8:
			d = int64(rapid.IntRange(0, int(2*w+1)).Draw(t, "dd"))
		default:
			d = int64(rapid.SampledFrom([]int{2, 3, 100, 86400}).Draw(t, "dd"))
		}
		if d < 0 {
			d = 0
		}
		c.Deltas = append(c.Deltas, d)
	}
	return c
}

func checkWin(c winCase) (o pbt.Outcome) {
	if c.Base < 0 || c.Base > 1<<41 || len(c.Deltas) > 5000 {
		o.Skip = "timestamp outside unix-seconds range"
		return
	}
	for _, d := range c.Deltas {
		if d < 0 || d > 1<<30 {
			o.Skip = "decreasing or absurd timestamp step"
			return
		}
	}
	disabled := c.Window <= 0 || c.Threshold <= 0
	if disabled {
		o.Labels = append(o.Labels, "disabled")
	} else if c.Window > 8 || c.Threshold > 8 {
		o.Labels = append(o.Labels, "config_beyond_1_8")
	}
	var times []int64 // reference: every recorded event
	fired, expired, wrapped, belowWindowGap := false, false, false, false
	if p := pbt.Catch(func() {
		sw := backend.NewSlidingWindow(c.Window, c.Threshold)
		now := c.Base
		for i, d := range c.Deltas {
			now += d
			got := sw.Trigger(now)
			times = append(times, now)
			want := false
			if !disabled {
				cnt := int64(0)
				for _, ts := range times {
					if ts > now-c.Window { // (now-W, now]
						cnt++
					} else {
						expired = true
					}
				}
				want = cnt >= c.Threshold
				if now-c.Base >= c.Window {
					wrapped = true
				}
				if d > 0 && d == c.Window-1 && i > 0 {
					belowWindowGap = true
				}
				if got != want {
					o.Violation = fmt.Sprintf("event %d at t=%d (window %d, threshold %d): Trigger=%v, but %d events lie in (%d,%d] so want %v",
						i, now, c.Window, c.Threshold, got, cnt, now-c.Window, now, want)
					return
				}
			} else if got {
				o.Violation = fmt.Sprintf("disabled breaker (window %d, threshold %d) fired at event %d", c.Window, c.Threshold, i)
				return
			}
			if got {
				fired = true
			}
		}
	}); p != "" {
		o.Violation = "runtime panic: " + p
		return
	}
	if fired {
		o.Labels = append(o.Labels, "fired")
	}
	if expired {
		o.Labels = append(o.Labels, "events_expired")
	}
	if wrapped {
		o.Labels = append(o.Labels, "bucket_reuse")
	}
	if belowWindowGap {
		o.Labels = append(o.Labels, "gap_window_minus_1")
	}
	if fired && expired {
		o.Labels = append(o.Labels, "fired_and_expired")
	}
	o.NonTrivial = !disabled && expired && len(c.Deltas) >= 3
	return
}

func TestC26Window(t *testing.T) {
	pbt.Run(t, pbt.Spec{ID: "C26", Sub: "window", Quick: 20000, Thorough: 200000,
		Rule:  "window 1-8 (10%: 9-70; 10%: disabled by window/threshold <= 0), threshold 1-8; 1-60 events with non-decreasing unix-second timestamps starting near 0, near 1.7e9, next to a multiple of the window or anywhere below 2^40; steps 0 (same second), 1, W-2..W+1, uniform in [0,2W+1], or long gaps; reference = number of recorded events in (now-W, now] >= threshold; non-trivial = enabled breaker, >= 3 events and at least one event had left the window when a later one was judged",
		Floor: 0.5}, genWin, checkWin)
}

// ---- Slice.TryFuse under the injectable clock ----

type fuseStep struct {
	Delta int64 `json:"d"`  // clock advance (seconds, >= 0) before the operation
	Op    int   `json:"op"` // index into errKinds = TryFuse with that error; -1 = the prober marks the node up again
}

type fuseCase struct {
	Window    int64      `json:"window"`
	Threshold int64      `json:"threshold"`
	Recovery  int        `json:"recovery"` // 0 hard cool-down, 1 gradual, 2 no recovery strategy installed, 3 no fuse strategy installed
	Base      int64      `json:"base"`
	Steps     []fuseStep `json:"steps"`
}

type errKind struct {
	name string
	err  error
	conn bool
}

// Connection-type errors are the values of mysql.ConnTypeError that the dial /
// handshake path (backend/direct_connection.go) and the resource pool
// (util.ErrTimeout, create-resource failure) return from ConnectionPool.Get;
// everything else Get can return is "another error".
var errKinds = []errKind{
	{"nil", nil, false},
	{"conn_dial", mysql.NewConnTypeError("127.0.0.1:3306", "failed to dial"), true},
	{"conn_pool_timeout", mysql.NewConnTypeError("", "resource pool timed out"), true},
	{"plain", errors.New("some error"), false},
	{"sql_error", mysql.NewError(mysql.ErrUnknown, "unknown"), false},
	{"sql_error_1040", mysql.NewError(1040, "Too many connections"), false},
	{"pool_closed", backend.ErrConnectionPoolClosed, false},
	{"ctx_deadline", context.DeadlineExceeded, false},
	{"eof", io.EOF, false},
}

func genFuse(t *rapid.T) fuseCase {
	w := genWin(t) // same configuration and timestamp-step distribution as the window level
	c := fuseCase{Window: w.Window, Threshold: w.Threshold, Base: w.Base}
	if c.Base == 0 {
		c.Base = 1
	}
	c.Recovery = rapid.SampledFrom([]int{0, 0, 0, 0, 1, 1, 1, 1, 2, 3}).Draw(t, "rec")
	connBias := rapid.IntRange(3, 8).Draw(t, "cb")
	for _, d := range w.Deltas {
		st := fuseStep{Delta: d}
		k := rapid.IntRange(0, 9).Draw(t, "k")
		switch {
		case k < connBias:
			st.Op = rapid.IntRange(1, 2).Draw(t, "ck")
		case k == 9:
			st.Op = -1
		default:
			st.Op = rapid.SampledFrom([]int{0, 3, 4, 5, 6, 7, 8}).Draw(t, "ok")
		}
		c.Steps = append(c.Steps, st)
	}
	return c
}

func checkFuse(c fuseCase) (o pbt.Outcome) {
	if c.Base < 1 || c.Base > 1<<41 || len(c.Steps) > 5000 {
		o.Skip = "timestamp outside unix-seconds range"
		return
	}
	for _, st := range c.Steps {
		if st.Delta < 0 || st.Delta > 1<<30 || st.Op < -1 || st.Op >= len(errKinds) {
			o.Skip = "decreasing or absurd timestamp step, or unknown operation"
			return
		}
	}
	now := c.Base
	backend.VerifSetClock(func() time.Time { return time.Unix(now, 0) })
	defer backend.VerifSetClock(nil)

	node := &backend.NodeInfo{Address: "127.0.0.1:3307", Status: backend.StatusUp, ConnPool: fakepool.New("127.0.0.1:3307", nil)}
	switch c.Recovery {
	case 0:
		node.FuseStrategy = backend.NewSlidingWindow(c.Window, c.Threshold)
		node.RecoveryStrategy = backend.NewHardCoolDown(10)
		o.Labels = append(o.Labels, "hard_cooldown")
	case 1:
		node.FuseStrategy = backend.NewSlidingWindow(c.Window, c.Threshold)
		node.RecoveryStrategy = backend.NewGradualRecovery()
		o.Labels = append(o.Labels, "gradual")
	case 2:
		node.FuseStrategy = backend.NewSlidingWindow(c.Window, c.Threshold)
		o.Labels = append(o.Labels, "no_recovery_strategy")
	default:
		node.RecoveryStrategy = backend.NewHardCoolDown(10)
		o.Labels = append(o.Labels, "no_fuse_strategy")
	}
	// Fusing is switched on per node by InitFuseRecoveryPolicy, which installs both
	// strategies; with either missing the breaker is off for that node.
	enabled := c.Recovery <= 1 && c.Window > 0 && c.Threshold > 0
	if !enabled {
		o.Labels = append(o.Labels, "breaker_off")
	}
	s := &backend.Slice{Namespace: "ns"}
	var connTimes []int64 // reference: timestamps of the recorded connection errors
	down := false
	fusedCnt, expired, otherBetween, connSeen := 0, false, false, 0
	if p := pbt.Catch(func() {
		for i, st := range c.Steps {
			now += st.Delta
			if st.Op == -1 {
				node.SetStatusUp()
				down = false
				continue
			}
			k := errKinds[st.Op]
			s.TryFuse(node, k.err)
			cnt := int64(0)
			if k.conn {
				connSeen++
				connTimes = append(connTimes, now)
				for _, ts := range connTimes {
					if ts > now-c.Window {
						cnt++
					} else {
						expired = true
					}
				}
				if enabled && cnt >= c.Threshold {
					if !down {
						fusedCnt++
					}
					down = true
				}
			} else if len(connTimes) > 0 {
				otherBetween = true
			}
			if got := node.IsStatusDown(); got != down {
				o.Violation = fmt.Sprintf("step %d at t=%d: TryFuse with %s error (window %d, threshold %d, breaker enabled=%v, %d connection errors in (%d,%d]): node down=%v want %v",
					i, now, k.name, c.Window, c.Threshold, enabled, cnt, now-c.Window, now, got, down)
				return
			}
		}
	}); p != "" {
		o.Violation = "runtime panic: " + p
		return
	}
	if fusedCnt > 0 {
		o.Labels = append(o.Labels, "fused")
	}
	if fusedCnt > 1 {
		o.Labels = append(o.Labels, "fused_again_after_recovery")
	}
	if expired {
		o.Labels = append(o.Labels, "conn_errors_expired")
	}
	if otherBetween {
		o.Labels = append(o.Labels, "other_error_after_conn_error")
	}
	if enabled && fusedCnt == 0 && connSeen >= int(c.Threshold) {
		o.Labels = append(o.Labels, "threshold_many_errors_but_spread_out")
	}
	o.NonTrivial = (enabled && connSeen >= 2 && (expired || fusedCnt > 0)) || (!enabled && connSeen >= 1)
	return
}

func TestC26TryFuse(t *testing.T) {
	pbt.Run(t, pbt.Spec{ID: "C26", Sub: "tryfuse", Quick: 10000, Thorough: 100000,
		Rule:  "a NodeInfo with SlidingWindow(window, threshold) as in the window sub-check (20%: one of the two strategies absent) and hard or gradual recovery; the backend clock hook is set to a drawn non-decreasing timestamp before every step; steps are Slice.TryFuse with nil, mysql.ConnTypeError (dial, pool timeout), plain, *SQLError, pool-closed, context-deadline and EOF errors, or the prober marking the node up; reference = the node is down from the first connection error at which the number of connection errors in (now-W, now] >= threshold until the prober marks it up, nothing else changes its status; non-trivial = enabled breaker with >= 2 connection errors of which one expired or one fused, or a switched-off breaker that saw a connection error",
		Floor: 0.5}, genFuse, checkFuse)
}

// ---- several replicas, strategies installed by the real InitFuseRecoveryPolicy ----

type groupStep struct {
	Delta int64 `json:"d"`    // clock advance (seconds, >= 0) before the operation
	Node  int   `json:"node"` // replica index, taken modulo the number of replicas
	Op    int   `json:"op"`   // index into errKinds = TryFuse on that replica with that error; -1 = the prober marks it up
}

type groupCase struct {
	Window    int64       `json:"window"`
	Threshold int64       `json:"threshold"`
	Cooldown  int64       `json:"cooldown"` // > 0: hard cool-down recovery, otherwise gradual
	Replicas  int         `json:"replicas"` // 2-4
	ViaSlice  bool        `json:"via_slice"`
	Base      int64       `json:"base"`
	Steps     []groupStep `json:"steps"`
}

func genGroup(t *rapid.T) groupCase {
	w := genWin(t)
	c := groupCase{Window: w.Window, Threshold: w.Threshold, Base: w.Base, Replicas: rapid.IntRange(2, 4).Draw(t, "replicas"),
		ViaSlice: rapid.Bool().Draw(t, "via_slice"), Cooldown: int64(rapid.SampledFrom([]int{0, 0, 1, 10, 120}).Draw(t, "cooldown"))}
	if c.Base == 0 {
		c.Base = 1
	}
	if c.Window < 0 {
		c.Window = 0 // a negative window is refused by InitFuseRecoveryPolicy; 0 disables
	}
	connBias := rapid.IntRange(4, 8).Draw(t, "cb")
	// bursts tend to stay on one replica or alternate between two, so that the sum over the
	// group reaches the threshold while no single replica does
	cur := 0
	for _, d := range w.Deltas {
		st := groupStep{Delta: d}
		switch rapid.IntRange(0, 3).Draw(t, "nk") {
		case 0:
			cur = rapid.IntRange(0, c.Replicas-1).Draw(t, "node")
		case 1:
			cur = (cur + 1) % c.Replicas
		}
		st.Node = cur
		k := rapid.IntRange(0, 9).Draw(t, "k")
		switch {
		case k < connBias:
			st.Op = rapid.IntRange(1, 2).Draw(t, "ck")
		case k == 9:
			st.Op = -1
		default:
			st.Op = rapid.SampledFrom([]int{0, 3, 4, 5, 6, 7, 8}).Draw(t, "ok")
		}
		c.Steps = append(c.Steps, st)
	}
	return c
}

func checkGroup(c groupCase) (o pbt.Outcome) {
	if c.Base < 1 || c.Base > 1<<41 || len(c.Steps) > 5000 || c.Replicas < 2 || c.Replicas > 8 || c.Window < 0 || c.Window > 4096 {
		o.Skip = "outside the modelled domain"
		return
	}
	for _, st := range c.Steps {
		if st.Delta < 0 || st.Delta > 1<<30 || st.Op < -1 || st.Op >= len(errKinds) {
			o.Skip = "decreasing or absurd timestamp step, or unknown operation"
			return
		}
	}
	now := c.Base
	backend.VerifSetClock(func() time.Time { return time.Unix(now, 0) })
	defer backend.VerifSetClock(nil)

	group := &backend.DBInfo{}
	for i := 0; i < c.Replicas; i++ {
		addr := fmt.Sprintf("127.0.0.1:33%02d", i)
		group.Nodes = append(group.Nodes, &backend.NodeInfo{Address: addr, Weight: 1, Status: backend.StatusUp, ConnPool: fakepool.New(addr, nil)})
	}
	s := &backend.Slice{Namespace: "ns", FuseEnabled: "ON", FuseWindowSize: c.Window, FuseMinErrorCount: c.Threshold, FuseCooldownPeriod: c.Cooldown}
	s.Slave = group
	var err error
	if p := pbt.Catch(func() {
		if c.ViaSlice {
			err = s.InitFuseRecoveryPolicy(group)
		} else {
			err = group.InitFuseRecoveryPolicy(c.Window, c.Threshold, c.Cooldown)
		}
	}); p != "" {
		o.Violation = "InitFuseRecoveryPolicy panicked: " + p
		return
	}
	if err != nil {
		o.Violation = fmt.Sprintf("InitFuseRecoveryPolicy(window %d, threshold %d, cooldown %d) failed: %v", c.Window, c.Threshold, c.Cooldown, err)
		return
	}
	enabled := c.Window > 0 && c.Threshold > 0
	if !enabled {
		o.Labels = append(o.Labels, "breaker_off")
	}
	if c.Cooldown > 0 {
		o.Labels = append(o.Labels, "hard_cooldown")
	} else {
		o.Labels = append(o.Labels, "gradual")
	}
	o.Labels = append(o.Labels, fmt.Sprintf("replicas_%d", c.Replicas))
	connTimes := make([][]int64, c.Replicas) // reference: one window per replica
	down := make([]bool, c.Replicas)
	fused := 0
	groupWouldFire := false // the errors of the whole group in the window reach the threshold while the replica's own do not
	if p := pbt.Catch(func() {
		for i, st := range c.Steps {
			now += st.Delta
			n := ((st.Node % c.Replicas) + c.Replicas) % c.Replicas
			node := group.Nodes[n]
			if st.Op == -1 {
				node.SetStatusUp()
				down[n] = false
			} else {
				k := errKinds[st.Op]
				s.TryFuse(node, k.err)
				if k.conn {
					connTimes[n] = append(connTimes[n], now)
					own, all := int64(0), int64(0)
					for m := range connTimes {
						for _, ts := range connTimes[m] {
							if ts > now-c.Window {
								all++
								if m == n {
									own++
								}
							}
						}
					}
					if enabled && own >= c.Threshold {
						if !down[n] {
							fused++
						}
						down[n] = true
					} else if enabled && all >= c.Threshold {
						groupWouldFire = true
					}
				}
			}
			// every replica is compared after every step: an error on one must not move another
			for m, nd := range group.Nodes {
				if got := nd.IsStatusDown(); got != down[m] {
					o.Violation = fmt.Sprintf("step %d at t=%d (op %d on replica %d; window %d, threshold %d, %d replicas): replica %d down=%v want %v (its own connection errors in the window: %v)",
						i, now, st.Op, n, c.Window, c.Threshold, c.Replicas, m, got, down[m], connTimes[m])
					return
				}
			}
		}
	}); p != "" {
		o.Violation = "runtime panic: " + p
		return
	}
	if fused > 0 {
		o.Labels = append(o.Labels, "fused")
	}
	if groupWouldFire {
		o.Labels = append(o.Labels, "group_sum_reaches_threshold_but_replica_does_not")
	}
	o.NonTrivial = enabled && (groupWouldFire || fused > 0)
	return
}

func TestC26Replicas(t *testing.T) {
	pbt.Run(t, pbt.Spec{ID: "C26", Sub: "replicas", Quick: 10000, Thorough: 100000,
		Rule:  "a replica group of 2-4 NodeInfo whose fuse and recovery strategies are installed by the real DBInfo.InitFuseRecoveryPolicy(window, threshold, cooldown) (half of the cases through Slice.InitFuseRecoveryPolicy); window/threshold and timestamp steps as in the window sub-check, cooldown 0 (gradual) or 1-120 s (hard); every step picks a replica (staying, moving to the next, or drawn) and is TryFuse with a drawn error kind or the prober marking it up, under the injected clock; reference = one independent window count per replica; after every step every replica's status is compared; non-trivial = enabled breaker and either a replica fused or the connection errors of the whole group in the window reached the threshold while the replica's own did not",
		Floor: 0.4}, genGroup, checkGroup)
}
