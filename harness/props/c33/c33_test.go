//go:build verif

// C33 Stored configurations round-trip exactly and stay inside the storage area.
//
//	roundtrip: Verify -> Encrypt(key) -> Store.UpdateNamespace -> Store.LoadNamespace(key)
//	           gives back the verified configuration, through an in-memory
//	           coordinator client and through models.LocalClient on disk;
//	decrypt:   EncryptECB/DecryptECB agree with AES-ECB + PKCS#7 written from the
//	           standard, and arbitrary keys / ciphertexts never crash;
//	paths:     models.LocalClient never touches anything outside its storage directory.
package c33

import (
	"bytes"
	"crypto/aes"
	"encoding/base64"
	"fmt"
	"os"
	"path/filepath"
	"reflect"
	"runtime"
	"sort"
	"strings"
	"sync/atomic"
	"testing"
	"time"
	"unicode/utf8"

	"github.com/XiaoMi/Gaea/models"
	"github.com/XiaoMi/Gaea/proxy/server"
	"github.com/XiaoMi/Gaea/util/crypto"
	"pgregory.net/rapid"
	"verifharness/internal/nsgen"
	"verifharness/internal/pbt"
)

func TestMain(m *testing.M) {
	nsgen.Quiet()
	code := m.Run()
	os.RemoveAll(scratchBase())
	os.Exit(code)
}

// ---- helpers ----

type caught struct{ runtimeErr, other string }

func guard(f func()) (c caught) {
	defer func() {
		if r := recover(); r != nil {
			if re, ok := r.(runtime.Error); ok {
				c.runtimeErr = re.Error()
			} else {
				c.other = fmt.Sprint(r)
			}
		}
	}()
	f()
	return
}

func (c caught) any() string { return c.runtimeErr + c.other }

var scratchSeq int64

func scratchBase() string {
	return filepath.Join(pbt.VerifDir(), "build", "scratch", fmt.Sprintf("c33-%d", os.Getpid()))
}

// newRoot creates <base>/<n>/ and returns it; the storage directory is <root>/storage.
func newRoot() (string, error) {
	root := filepath.Join(scratchBase(), fmt.Sprint(atomic.AddInt64(&scratchSeq, 1)))
	os.RemoveAll(root)
	return root, os.MkdirAll(root, 0o755)
}

// memClient is an in-memory models.Client with the semantics the store relies on
// (Read of a missing key returns nil, nil; List returns full keys of direct children).
type memClient struct {
	prefix string
	data   map[string][]byte
}

func newMem(prefix string) *memClient { return &memClient{prefix: prefix, data: map[string][]byte{}} }

func (m *memClient) Create(path string, data []byte) error { return m.Update(path, data) }
func (m *memClient) Update(path string, data []byte) error {
	m.data[path] = append([]byte(nil), data...)
	return nil
}
func (m *memClient) UpdateWithTTL(path string, data []byte, ttl time.Duration) error {
	return m.Update(path, data)
}
func (m *memClient) Delete(path string) error { delete(m.data, path); return nil }
func (m *memClient) Read(path string) ([]byte, error) {
	b, ok := m.data[path]
	if !ok {
		return nil, nil
	}
	return append([]byte(nil), b...), nil
}
func (m *memClient) children(path string) []string {
	var out []string
	pre := strings.TrimSuffix(path, "/") + "/"
	for k := range m.data {
		if strings.HasPrefix(k, pre) && !strings.Contains(k[len(pre):], "/") {
			out = append(out, k)
		}
	}
	sort.Strings(out)
	return out
}
func (m *memClient) List(path string) ([]string, error) { return m.children(path), nil }
func (m *memClient) ListWithValues(path string) (map[string]string, error) {
	res := map[string]string{}
	for _, k := range m.children(path) {
		res[k] = string(m.data[k])
	}
	return res, nil
}
func (m *memClient) Close() error       { return nil }
func (m *memClient) BasePrefix() string { return m.prefix }

// refEncrypt is AES-ECB with PKCS#7 padding, from the standard (FIPS 197 block cipher, RFC 5652 6.3 padding).
func refEncrypt(key, plain []byte) ([]byte, error) {
	blk, err := aes.NewCipher(key)
	if err != nil {
		return nil, err
	}
	pad := 16 - len(plain)%16
	buf := append(append([]byte{}, plain...), bytes.Repeat([]byte{byte(pad)}, pad)...)
	out := make([]byte, len(buf))
	for i := 0; i < len(buf); i += 16 {
		blk.Encrypt(out[i:i+16], buf[i:i+16])
	}
	return out, nil
}

func validKeyLen(n int) bool { return n == 16 || n == 24 || n == 32 }

// ---- roundtrip ----

type rtCase struct {
	NS        *models.Namespace `json:"ns"`
	Name      string            `json:"name"`
	Prefix    string            `json:"prefix"`
	UserNames [][]byte          `json:"user_names"` // raw bytes for Users[i].UserName
	UserPass  [][]byte          `json:"user_pass"`
	SliceUser [][]byte          `json:"slice_user"`
	SlicePass [][]byte          `json:"slice_pass"`
	Key       []byte            `json:"key"`
	WrongKey  []byte            `json:"wrong_key"`
}

func genBytes(t *rapid.T, name string, allowEmpty bool) []byte {
	var b []byte
	switch rapid.IntRange(0, 7).Draw(t, name+"_k") {
	case 0: // plain ASCII
		b = []byte(rapid.StringMatching(`[a-zA-Z0-9_@.:|*!#$%^&()+=-]{1,20}`).Draw(t, name))
	case 1: // arbitrary bytes
		b = rapid.SliceOfN(rapid.Byte(), 1, 40).Draw(t, name)
	case 2: // invalid UTF-8 on purpose
		b = append([]byte(rapid.StringMatching(`[a-z]{0,6}`).Draw(t, name)), pick(t, name+"_bad", [][]byte{{0xff}, {0xc3}, {0xe2, 0x82}, {0xf0, 0x9f, 0x98}, {0x80}, {0xed, 0xa0, 0x80}})...)
		b = append(b, []byte(rapid.StringMatching(`[a-z]{0,6}`).Draw(t, name+"_tail"))...)
	case 3: // NUL and control bytes
		b = append([]byte(rapid.StringMatching(`[a-z]{0,6}`).Draw(t, name)), pick(t, name+"_ctl", [][]byte{{0}, {0, 0}, {1}, {0x7f}, {'\n'}, {'"', '\\'}})...)
		b = append(b, []byte(rapid.StringMatching(`[a-z]{0,6}`).Draw(t, name+"_tail"))...)
	case 4: // block boundaries of the cipher
		n := pick(t, name+"_n", []int{15, 16, 17, 31, 32, 33, 48, 64})
		b = rapid.SliceOfN(rapid.ByteRange(33, 126), n, n).Draw(t, name)
	case 5: // multi-byte UTF-8
		b = []byte(pick(t, name, []string{"пароль", "密码", "pässwörd", "🔑key", "a b", "x y"}))
	case 6: // trailing bytes that look like padding
		b = append([]byte(rapid.StringMatching(`[a-z]{1,12}`).Draw(t, name)), pick(t, name+"_pad", [][]byte{{1}, {2, 2}, {3, 3, 3}, {16}, {0}})...)
	default: // surrounded by white space (Verify trims user names and passwords)
		b = []byte(pick(t, name+"_ws", []string{" ", "\t", ""}) + rapid.StringMatching(`[a-z0-9]{1,8}`).Draw(t, name) + pick(t, name+"_ws2", []string{" ", "\n", "", "  "}))
	}
	if allowEmpty && rapid.IntRange(0, 60).Draw(t, name+"_empty") == 37 { // rapid favours the ends of a range, not the middle
		b = []byte{}
	}
	return b
}

func pick[T any](t *rapid.T, name string, xs []T) T {
	return xs[rapid.IntRange(0, len(xs)-1).Draw(t, name)]
}

func genKey(t *rapid.T, name string) []byte {
	var n int
	switch rapid.IntRange(0, 9).Draw(t, name+"_k") {
	case 0:
		n = pick(t, name+"_bad", []int{0, 1, 15, 17, 23, 25, 31, 33, 64})
	default:
		n = pick(t, name+"_len", []int{16, 24, 32})
	}
	if rapid.Bool().Draw(t, name+"_ascii") {
		return rapid.SliceOfN(rapid.ByteRange(33, 126), n, n).Draw(t, name)
	}
	return rapid.SliceOfN(rapid.Byte(), n, n).Draw(t, name)
}

func genRT(t *rapid.T) rtCase {
	c := rtCase{NS: nsgen.Valid(t, "ns_c33")}
	c.Name = pick(t, "name", []string{"ns_c33", "gaea_namespace_1", "a", "ns.with.dots", "ns-1", "NS_Upper", "ns with space", "名字", "a=b&c", "ns%2f", "x.json"})
	c.Prefix = pick(t, "prefix", []string{"/gaea", "/gaea_cluster_1", "gaea", "/a/b", "/"})
	for i := range c.NS.Users {
		c.UserNames = append(c.UserNames, genBytes(t, fmt.Sprintf("un%d", i), true))
		c.UserPass = append(c.UserPass, genBytes(t, fmt.Sprintf("up%d", i), true))
	}
	for i := range c.NS.Slices {
		c.SliceUser = append(c.SliceUser, genBytes(t, fmt.Sprintf("su%d", i), true))
		c.SlicePass = append(c.SlicePass, genBytes(t, fmt.Sprintf("sp%d", i), true))
	}
	c.Key = genKey(t, "key")
	c.WrongKey = genKey(t, "wrong_key")
	return c
}

// firstDiff names the first field in which two namespaces differ.
func firstDiff(a, b *models.Namespace) string {
	va, vb := reflect.ValueOf(*a), reflect.ValueOf(*b)
	for i := 0; i < va.NumField(); i++ {
		if !reflect.DeepEqual(va.Field(i).Interface(), vb.Field(i).Interface()) {
			name := va.Type().Field(i).Name
			switch name {
			case "Users":
				for j := 0; j < len(a.Users) && j < len(b.Users); j++ {
					if !reflect.DeepEqual(a.Users[j], b.Users[j]) {
						return fmt.Sprintf("Users[%d]: loaded %q/%q, submitted %q/%q", j, a.Users[j].UserName, a.Users[j].Password, b.Users[j].UserName, b.Users[j].Password)
					}
				}
			case "Slices":
				for j := 0; j < len(a.Slices) && j < len(b.Slices); j++ {
					if !reflect.DeepEqual(a.Slices[j], b.Slices[j]) {
						return fmt.Sprintf("Slices[%d]: loaded %+v, submitted %+v", j, *a.Slices[j], *b.Slices[j])
					}
				}
			case "ShardRules":
				for j := 0; j < len(a.ShardRules) && j < len(b.ShardRules); j++ {
					if !reflect.DeepEqual(a.ShardRules[j], b.ShardRules[j]) {
						return fmt.Sprintf("ShardRules[%d]: loaded %+v, submitted %+v", j, *a.ShardRules[j], *b.ShardRules[j])
					}
				}
			}
			return fmt.Sprintf("%s: loaded %#v, submitted %#v", name, va.Field(i).Interface(), vb.Field(i).Interface())
		}
	}
	return ""
}

func checkRT(c rtCase) (o pbt.Outcome) {
	if c.NS == nil || len(c.UserNames) != len(c.NS.Users) || len(c.UserPass) != len(c.NS.Users) ||
		len(c.SliceUser) != len(c.NS.Slices) || len(c.SlicePass) != len(c.NS.Slices) {
		o.Skip = "malformed case"
		return
	}
	ns := nsgen.Copy(c.NS)
	ns.Name = c.Name
	nonUTF8 := false
	for i, u := range ns.Users {
		u.UserName, u.Password = string(c.UserNames[i]), string(c.UserPass[i])
		if u.Namespace != "" {
			u.Namespace = c.Name
		}
		nonUTF8 = nonUTF8 || !utf8.Valid(c.UserNames[i]) || !utf8.Valid(c.UserPass[i])
	}
	for i, s := range ns.Slices {
		s.UserName, s.Password = string(c.SliceUser[i]), string(c.SlicePass[i])
		nonUTF8 = nonUTF8 || !utf8.Valid(c.SliceUser[i]) || !utf8.Valid(c.SlicePass[i])
	}
	if nonUTF8 {
		o.Labels = append(o.Labels, "non_utf8_credentials")
	}
	var err error
	if g := guard(func() { err = ns.Verify() }); g.any() != "" {
		o.Violation = "Verify panicked on a configuration with unusual credentials: " + g.any()
		return
	}
	if err != nil {
		o.Labels = append(o.Labels, "verify_rejected", "rejected: "+strings.SplitN(strings.SplitN(err.Error(), ", ", 3)[len(strings.SplitN(err.Error(), ", ", 3))-1], ":", 2)[0])
		return
	}
	ref := nsgen.Copy(ns) // the configuration the control plane accepted
	ref.IsEncrypt = true
	key := string(c.Key)

	if g := guard(func() { err = ns.Encrypt(key) }); g.any() != "" {
		o.Violation = fmt.Sprintf("Encrypt(key of %d bytes) panicked: %s", len(c.Key), g.any())
		return
	}
	if !validKeyLen(len(c.Key)) {
		o.Labels = append(o.Labels, "invalid_key_length")
		if err == nil {
			o.Violation = fmt.Sprintf("Encrypt accepted a key of %d bytes", len(c.Key))
		}
		return
	}
	if err != nil {
		o.Violation = fmt.Sprintf("Encrypt with a valid %d-byte key failed: %v", len(c.Key), err)
		return
	}
	o.Labels = append(o.Labels, fmt.Sprintf("key_%d", len(c.Key)))
	o.NonTrivial = nonUTF8
	// what is stored must be base64(AES-ECB/PKCS#7) so that every component reading the coordinator agrees
	for i, u := range ns.Users {
		for _, f := range [][2]string{{u.UserName, ref.Users[i].UserName}, {u.Password, ref.Users[i].Password}} {
			want, _ := refEncrypt(c.Key, []byte(f[1]))
			if f[0] != base64.StdEncoding.EncodeToString(want) {
				o.Violation = fmt.Sprintf("Users[%d]: stored ciphertext of %q is %q, AES-ECB/PKCS#7 + base64 gives %q", i, f[1], f[0], base64.StdEncoding.EncodeToString(want))
				return
			}
		}
	}
	for i, s := range ns.Slices {
		for _, f := range [][2]string{{s.UserName, ref.Slices[i].UserName}, {s.Password, ref.Slices[i].Password}} {
			want, _ := refEncrypt(c.Key, []byte(f[1]))
			if f[0] != base64.StdEncoding.EncodeToString(want) {
				o.Violation = fmt.Sprintf("Slices[%d]: stored ciphertext of %q is %q, AES-ECB/PKCS#7 + base64 gives %q", i, f[1], f[0], base64.StdEncoding.EncodeToString(want))
				return
			}
		}
	}

	root, rerr := newRoot()
	if rerr != nil {
		o.Skip = "cannot create scratch directory: " + rerr.Error()
		return
	}
	defer os.RemoveAll(root)
	storage := filepath.Join(root, "storage")
	lc, lerr := models.NewLocalClient(storage, c.Prefix)
	if lerr != nil {
		o.Violation = "NewLocalClient on a fresh directory failed: " + lerr.Error()
		return
	}

	clients := []struct {
		name string
		cl   models.Client
	}{{"coordinator", newMem(c.Prefix)}, {"local", lc}}
	for _, cc := range clients {
		store := models.NewStore(cc.cl)
		var loaded *models.Namespace
		var all map[string]*models.Namespace
		var names []string
		var uerr, lerr, aerr, nerr error
		g := guard(func() {
			if uerr = store.UpdateNamespace(ns); uerr != nil {
				return
			}
			loaded, lerr = store.LoadNamespace(key, c.Name)
			all, aerr = store.LoadNamespaces(key)
			names, nerr = store.ListNamespaceName()
		})
		switch {
		case g.any() != "":
			o.Violation = fmt.Sprintf("[%s] store round trip panicked: %s", cc.name, g.any())
		case uerr != nil:
			o.Violation = fmt.Sprintf("[%s] UpdateNamespace(%q) failed: %v", cc.name, c.Name, uerr)
		case lerr != nil:
			o.Violation = fmt.Sprintf("[%s] LoadNamespace(%q) of what was just stored failed: %v", cc.name, c.Name, lerr)
		case loaded == nil:
			o.Violation = fmt.Sprintf("[%s] LoadNamespace(%q) returned nil without error", cc.name, c.Name)
		case !reflect.DeepEqual(loaded, ref):
			o.Violation = fmt.Sprintf("[%s] loaded namespace differs from the verified one: %s", cc.name, firstDiff(loaded, ref))
		case aerr != nil:
			o.Violation = fmt.Sprintf("[%s] LoadNamespaces failed: %v", cc.name, aerr)
		case len(all) != 1:
			o.Violation = fmt.Sprintf("[%s] LoadNamespaces returned %d namespaces after storing one", cc.name, len(all))
		case nerr != nil || len(names) != 1 || names[0] != c.Name:
			o.Violation = fmt.Sprintf("[%s] ListNamespaceName = %q, %v; stored %q", cc.name, names, nerr, c.Name)
		default:
			for k, v := range all {
				if !reflect.DeepEqual(v, ref) {
					o.Violation = fmt.Sprintf("[%s] LoadNamespaces()[%q] differs from the verified one: %s", cc.name, k, firstDiff(v, ref))
				}
				if k != store.NamespacePath(c.Name) {
					o.Violation = fmt.Sprintf("[%s] LoadNamespaces key %q, want %q", cc.name, k, store.NamespacePath(c.Name))
				}
			}
		}
		if o.Violation != "" {
			return
		}
		// a wrong key fails or yields data, never crashes
		if g := guard(func() { store.LoadNamespace(string(c.WrongKey), c.Name) }); g.any() != "" {
			o.Violation = fmt.Sprintf("[%s] LoadNamespace with a wrong key (%d bytes) panicked: %s", cc.name, len(c.WrongKey), g.any())
			return
		}
	}
	// what a proxy does at start-up: copy the coordinator's namespaces to its local storage and
	// use the decrypted set (SyncNamespaces); later, without coordinator, load the local copy.
	remote := newMem(c.Prefix)
	if err := models.NewStore(remote).UpdateNamespace(ns); err != nil {
		o.Violation = "UpdateNamespace on the in-memory coordinator failed: " + err.Error()
		return
	}
	lc2, lerr := models.NewLocalClient(filepath.Join(root, "storage", "proxy2"), c.Prefix)
	if lerr != nil {
		o.Violation = "NewLocalClient failed: " + lerr.Error()
		return
	}
	var synced, fromLocal map[string]*models.Namespace
	var serr, flerr error
	if g := guard(func() {
		synced, serr = server.SyncNamespaces(remote, lc2, key)
		fromLocal, flerr = server.LoadDecryptNamespaces(lc2, key)
	}); g.any() != "" {
		o.Violation = "SyncNamespaces / LoadDecryptNamespaces panicked: " + g.any()
		return
	}
	for _, r := range []struct {
		what string
		got  map[string]*models.Namespace
		err  error
	}{{"SyncNamespaces", synced, serr}, {"LoadDecryptNamespaces(local copy)", fromLocal, flerr}} {
		if r.err != nil {
			o.Violation = fmt.Sprintf("%s failed for a namespace the control plane stored: %v", r.what, r.err)
			return
		}
		if len(r.got) != 1 {
			o.Violation = fmt.Sprintf("%s returned %d namespaces, one was stored", r.what, len(r.got))
			return
		}
		for k, v := range r.got {
			if !reflect.DeepEqual(v, ref) {
				o.Violation = fmt.Sprintf("%s()[%q] differs from the verified configuration: %s", r.what, k, firstDiff(v, ref))
				return
			}
		}
	}
	o.Labels = append(o.Labels, "synced_to_local_copy")
	if stray := strayEntries(root); len(stray) > 0 {
		o.Violation = fmt.Sprintf("local persistence created %v next to its storage directory", stray)
	}
	return
}

// strayEntries lists everything directly under root other than "storage".
func strayEntries(root string) []string {
	ents, _ := os.ReadDir(root)
	var out []string
	for _, e := range ents {
		if e.Name() != "storage" {
			out = append(out, e.Name())
		}
	}
	return out
}

func TestC33RoundTrip(t *testing.T) {
	pbt.Run(t, pbt.Spec{ID: "C33", Sub: "roundtrip", Quick: 2000, Thorough: 6000,
		Rule:  "valid namespaces from the C10 generator; user and backend credentials replaced by raw byte strings (ASCII punctuation, arbitrary bytes, invalid UTF-8, NUL/control bytes, cipher block boundaries, padding look-alikes, surrounding white space); keys of 16/24/32 bytes (90%) or invalid lengths; store prefixes and namespace names of several shapes; Verify -> Encrypt -> UpdateNamespace -> LoadNamespace/LoadNamespaces through an in-memory client and through LocalClient; non-trivial = round trip completed with at least one credential that is not valid UTF-8",
		Floor: 0.3}, genRT, checkRT)
}

// ---- decrypt ----

type decCase struct {
	Key   []byte   `json:"key"`
	Plain []byte   `json:"plain"`
	Data  []byte   `json:"data"`  // arbitrary "ciphertext"
	Creds []string `json:"creds"` // what an encrypted namespace's credential fields hold
	Tweak int      `json:"tweak"` // how Data was derived: 0 arbitrary, 1 valid ciphertext, 2 last byte changed, 3 truncated, 4 extended
}

func genDec(t *rapid.T) decCase {
	c := decCase{Key: genKey(t, "key"), Plain: rapid.SliceOfN(rapid.Byte(), 0, 50).Draw(t, "plain")}
	c.Tweak = rapid.IntRange(0, 4).Draw(t, "tweak")
	if c.Tweak == 0 || !validKeyLen(len(c.Key)) {
		c.Tweak = 0
		n := pick(t, "dlen", []int{0, 1, 15, 16, 17, 31, 32, 33, 48})
		c.Data = rapid.SliceOfN(rapid.Byte(), n, n).Draw(t, "data")
	} else {
		good, _ := refEncrypt(c.Key, c.Plain)
		switch c.Tweak {
		case 1:
			c.Data = good
		case 2: // corrupt the block that carries the padding
			c.Data = append([]byte{}, good...)
			c.Data[len(good)-1-rapid.IntRange(0, 15).Draw(t, "pos")] ^= byte(rapid.IntRange(1, 255).Draw(t, "xor"))
		case 3:
			c.Data = good[:len(good)-rapid.IntRange(1, 16).Draw(t, "cut")]
		default:
			c.Data = append(append([]byte{}, good...), rapid.SliceOfN(rapid.Byte(), 1, 17).Draw(t, "ext")...)
		}
	}
	nc := rapid.IntRange(1, 4).Draw(t, "ncreds")
	for i := 0; i < nc; i++ {
		switch rapid.IntRange(0, 4).Draw(t, fmt.Sprintf("ck%d", i)) {
		case 0:
			c.Creds = append(c.Creds, base64.StdEncoding.EncodeToString(c.Data))
		case 1:
			c.Creds = append(c.Creds, rapid.StringMatching(`[A-Za-z0-9+/=!* ]{0,40}`).Draw(t, fmt.Sprintf("cred%d", i)))
		case 2:
			c.Creds = append(c.Creds, "")
		case 3:
			b := rapid.SliceOfN(rapid.Byte(), 0, 48).Draw(t, fmt.Sprintf("credb%d", i))
			c.Creds = append(c.Creds, base64.StdEncoding.EncodeToString(b))
		default:
			c.Creds = append(c.Creds, "plain-text-password")
		}
	}
	return c
}

func checkDec(c decCase) (o pbt.Outcome) {
	key := string(c.Key)
	valid := validKeyLen(len(c.Key))
	o.Labels = append(o.Labels, fmt.Sprintf("tweak_%d", c.Tweak))
	if !valid {
		o.Labels = append(o.Labels, "invalid_key_length")
	}
	// encrypt agrees with the standard construction, decrypt inverts it
	var enc []byte
	var eerr error
	if g := guard(func() { enc, eerr = crypto.EncryptECB(key, append([]byte{}, c.Plain...)) }); g.any() != "" {
		o.Violation = fmt.Sprintf("EncryptECB(key %d bytes, %d bytes) panicked: %s", len(c.Key), len(c.Plain), g.any())
		return
	}
	want, werr := refEncrypt(c.Key, c.Plain)
	if (eerr == nil) != (werr == nil) {
		o.Violation = fmt.Sprintf("EncryptECB(key %d bytes) error %v, AES says %v", len(c.Key), eerr, werr)
		return
	}
	if eerr == nil {
		if !bytes.Equal(enc, want) {
			o.Violation = fmt.Sprintf("EncryptECB(%x) = %x, AES-ECB/PKCS#7 gives %x", c.Plain, enc, want)
			return
		}
		var dec []byte
		var derr error
		if g := guard(func() { dec, derr = crypto.DecryptECB(key, append([]byte{}, want...)) }); g.any() != "" {
			o.Violation = "DecryptECB of a well-formed ciphertext panicked: " + g.any()
			return
		}
		if derr != nil || !bytes.Equal(dec, c.Plain) {
			o.Violation = fmt.Sprintf("DecryptECB(encrypt(%x)) = %x, %v", c.Plain, dec, derr)
			return
		}
	}
	// arbitrary data: an error or some bytes, never a crash; an invalid key is an error
	var dec []byte
	var derr error
	if g := guard(func() { dec, derr = crypto.DecryptECB(key, append([]byte{}, c.Data...)) }); g.any() != "" {
		o.Violation = fmt.Sprintf("DecryptECB(key %d bytes, data %x) panicked: %s", len(c.Key), c.Data, g.any())
		return
	}
	if !valid && derr == nil {
		o.Violation = fmt.Sprintf("DecryptECB accepted a key of %d bytes", len(c.Key))
		return
	}
	if valid && len(c.Data)%16 != 0 && derr == nil {
		o.Violation = fmt.Sprintf("DecryptECB accepted %d bytes, not a whole number of cipher blocks (result %x)", len(c.Data), dec)
		return
	}
	if derr == nil && len(dec) > len(c.Data) {
		o.Violation = fmt.Sprintf("DecryptECB returned %d bytes from %d bytes of input", len(dec), len(c.Data))
		return
	}
	if c.Tweak == 1 && (derr != nil || !bytes.Equal(dec, c.Plain)) {
		o.Violation = fmt.Sprintf("DecryptECB of a well-formed ciphertext = %x, %v; plaintext %x", dec, derr, c.Plain)
		return
	}
	o.NonTrivial = c.Tweak != 1 || !valid
	// a whole namespace whose encrypted fields hold arbitrary text
	ns := &models.Namespace{Name: "n", IsEncrypt: true}
	for i, s := range c.Creds {
		ns.Users = append(ns.Users, &models.User{UserName: s, Password: c.Creds[(i+1)%len(c.Creds)]})
		ns.Slices = append(ns.Slices, &models.Slice{Name: fmt.Sprint(i), UserName: c.Creds[(i+1)%len(c.Creds)], Password: s})
	}
	if g := guard(func() { ns.Decrypt(key) }); g.any() != "" {
		o.Violation = fmt.Sprintf("Namespace.Decrypt with credential fields %q panicked: %s", c.Creds, g.any())
	}
	return
}

func TestC33Decrypt(t *testing.T) {
	pbt.Run(t, pbt.Spec{ID: "C33", Sub: "decrypt", Quick: 10000, Thorough: 100000,
		Rule:  "keys of valid and invalid lengths, plaintexts of 0-50 bytes, ciphertexts that are arbitrary, well-formed, corrupted in the padding block, truncated or extended; credential fields holding base64 of those, non-base64 text or nothing; non-trivial = the ciphertext is not a well-formed one for the key",
		Floor: 0.5}, genDec, checkDec)
}

// ---- paths ----

type pathOp struct {
	Op   string `json:"op"` // create update read delete list listv clean store_update store_load store_del ttl
	Path string `json:"path"`
}

type pathCase struct {
	Prefix string   `json:"prefix"`
	Ops    []pathOp `json:"ops"`
}

var pathAtoms = []string{"a", "ns1", "namespace", "..", ".", "", "...", "..a", "a..", "x.json", "storage", "b c", "é", "-", "~"}

func genPath(t *rapid.T, name string) string {
	switch rapid.IntRange(0, 9).Draw(t, name+"_k") {
	case 0:
		return pick(t, name, []string{"", ".", "..", "/", "//", "/..", "/.", "../", "./", "a/..", "a/../", "/a/..", "a/b/../..", "./.", "a/./..", "../storage/x", "..\\x", "/../..", "a/../../b", "/a/../../b", "....//x"})
	case 1:
		return strings.Repeat(pick(t, name+"_c", []string{"a", "ab/", "../", "./"}), pick(t, name+"_n", []int{255, 256, 300, 512, 1025, 1100}))
	case 2:
		return pick(t, name+"_pre", []string{"", "a", "/a"}) + pick(t, name+"_ch", []string{"<", ">", "\"", "|", "?", "*", "\x00", "\n", "\\", ":", "%2e%2e"}) + pick(t, name+"_suf", []string{"", "b", "/.."})
	default:
		n := rapid.IntRange(1, 5).Draw(t, name+"_n")
		var parts []string
		for i := 0; i < n; i++ {
			parts = append(parts, pick(t, fmt.Sprintf("%s_p%d", name, i), pathAtoms))
		}
		p := strings.Join(parts, "/")
		if rapid.IntRange(0, 2).Draw(t, name+"_abs") == 0 {
			p = "/" + p
		}
		return p
	}
}

func genPaths(t *rapid.T) pathCase {
	c := pathCase{Prefix: pick(t, "prefix", []string{"/gaea", "gaea", "", "/", "/a/b", "..", "/.."})}
	n := rapid.IntRange(1, 8).Draw(t, "n_ops")
	ops := []string{"create", "update", "read", "delete", "list", "listv", "clean", "store_update", "store_load", "store_del", "update", "store_update"}
	for i := 0; i < n; i++ {
		c.Ops = append(c.Ops, pathOp{Op: pick(t, fmt.Sprintf("op%d", i), ops), Path: genPath(t, fmt.Sprintf("p%d", i))})
	}
	return c
}

// inside reports whether full is the storage directory itself (dirOK) or lies below it.
func inside(storage, full string, dirOK bool) bool {
	if full == storage {
		return dirOK
	}
	return strings.HasPrefix(full, storage+string(filepath.Separator)) && filepath.Clean(full) == full
}

func minimalNS(name string) *models.Namespace {
	return &models.Namespace{Name: name, AllowedDBS: map[string]bool{"db": true}, DefaultSlice: "s",
		Slices: []*models.Slice{{Name: "s", UserName: "u", Password: "p", Master: "dc1-db0.test:3306", Capacity: 1, MaxCapacity: 1}},
		Users:  []*models.User{{UserName: "u", Password: "p", Namespace: name, RWFlag: 2}}}
}

func checkPaths(c pathCase) (o pbt.Outcome) {
	root, err := newRoot()
	if err != nil {
		o.Skip = "cannot create scratch directory: " + err.Error()
		return
	}
	defer os.RemoveAll(root)
	storage := filepath.Join(root, "storage")
	lc, err := models.NewLocalClient(storage, c.Prefix)
	if err != nil {
		o.Violation = "NewLocalClient on a fresh directory failed: " + err.Error()
		return
	}
	store := models.NewStore(lc)
	for i, op := range c.Ops {
		p := op.Path
		isStore := strings.HasPrefix(op.Op, "store_")
		if isStore {
			if p == "" {
				continue // Verify rejects an empty namespace name before anything is stored
			}
			p = store.NamespacePath(op.Path)
		}
		dirOp := op.Op == "list" || op.Op == "listv" || op.Op == "clean"
		if strings.Contains(op.Path, "..") || filepath.IsAbs(op.Path) {
			o.NonTrivial = true
		}
		// the pure path computation first: nothing is touched for a path that escapes
		var full string
		var perr error
		g := guard(func() {
			if dirOp {
				full, perr = lc.FullDirPath(p)
			} else {
				full, perr = lc.FullNamespacePath(p)
			}
		})
		if g.any() != "" {
			o.Violation = fmt.Sprintf("op %d %s(%q): path computation panicked: %s", i, op.Op, op.Path, g.any())
			return
		}
		if perr != nil {
			o.Labels = append(o.Labels, "path_rejected")
			continue
		}
		if !inside(storage, full, dirOp) {
			o.Violation = fmt.Sprintf("op %d %s(%q) [client path %q] resolves to %q, outside the storage directory %q", i, op.Op, op.Path, p, full, storage)
			return
		}
		o.Labels = append(o.Labels, "path_inside")
		g = guard(func() {
			switch op.Op {
			case "create":
				lc.Create(p, []byte("x"))
			case "update":
				lc.Update(p, []byte("y"))
			case "read":
				lc.Read(p)
			case "delete":
				lc.Delete(p)
			case "list":
				lc.List(p)
			case "listv":
				lc.ListWithValues(p)
			case "clean":
				lc.Clean(p)
			case "store_update":
				store.UpdateNamespace(minimalNS(op.Path))
			case "store_load":
				store.LoadNamespace("0123456789abcdef", op.Path)
			case "store_del":
				store.DelNamespace(op.Path)
			}
		})
		if g.any() != "" {
			o.Violation = fmt.Sprintf("op %d %s(%q) panicked: %s", i, op.Op, op.Path, g.any())
			return
		}
		if stray := strayEntries(root); len(stray) > 0 {
			o.Violation = fmt.Sprintf("after op %d %s(%q) [client path %q, file %q] the parent of the storage directory holds %v", i, op.Op, op.Path, p, full, stray)
			return
		}
	}
	return
}

func TestC33Paths(t *testing.T) {
	pbt.Run(t, pbt.Spec{ID: "C33", Sub: "paths", Quick: 2000, Thorough: 6000,
		Rule:  "1-8 LocalClient / Store operations on a fresh storage directory with paths and namespace names built from '..', '.', empty, dotted, absolute, over-long components and the characters the client forbids, under several store prefixes; the resolved path is computed first (FullNamespacePath / FullDirPath) and must lie in the storage directory, then the operation runs and the storage directory's parent must hold nothing else; non-trivial = some path contains '..' or is absolute",
		Floor: 0.5}, genPaths, checkPaths)
}
