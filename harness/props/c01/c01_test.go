//go:build verif

// C01 Sharded reads are routed to every table that can hold a matching row.
//
// Case = shard layout + session database + one SELECT / UPDATE / DELETE text.
// The statement is parsed with Gaea's parser and planned with plan.BuildPlan as
// the session does; the tables it is sent to are read from the per-slice SQL
// map a recording plan.Executor receives (and, as a cross-check, from the
// plan's route result). The reference evaluates the statement's WHERE and ON
// conditions (package condeval, three-valued logic over the AST of a separate
// parse) for every key of a boundary-rich universe, grouped by the table that
// INSERT routing (Rule.FindTableIndex) places the key in: a table with at least
// one key and one choice of the other columns making the conditions TRUE "can
// hold a matching row" and must be in the route. Keys are finite, so the
// needed set is a lower bound and over-approximation by Gaea always passes.
package c01

import (
	"errors"
	"fmt"
	"sort"
	"strconv"
	"strings"
	"testing"

	"github.com/XiaoMi/Gaea/parser/ast"
	"github.com/XiaoMi/Gaea/parser/opcode"
	driver "github.com/XiaoMi/Gaea/parser/tidb-types/parser_driver"
	"github.com/XiaoMi/Gaea/proxy/plan"
	"github.com/XiaoMi/Gaea/util"
	"pgregory.net/rapid"
	"verifharness/internal/condeval"
	"verifharness/internal/pbt"
	"verifharness/internal/shardfix"
)

type c01Case struct {
	Layout shardfix.Layout `json:"layout"`
	DB     string          `json:"db"`  // session database ("" = none selected)
	SQL    string          `json:"sql"` // the statement
}

// ---------------------------------------------------------------- generator

type colRef struct {
	text  string // as written in SQL
	isKey bool
}

type genScope struct {
	keys   []colRef // sharding-column references usable in this statement
	others []colRef // other columns (integer typed, values NULL/1/5)
	lits   []string // key literals (boundary universe)
	intKey bool
	ranged bool // the rule prunes < <= > >= BETWEEN (range and calendar rules)
}

func maxDepth() int {
	if pbt.Tier() == "thorough" {
		return 5
	}
	return 4
}

func genKeyLit(t *rapid.T, sc *genScope) string {
	l := rapid.SampledFrom(sc.lits).Draw(t, "lit")
	if sc.intKey && !strings.HasPrefix(l, "'") && rapid.IntRange(0, 24).Draw(t, "neg") == 0 {
		return "-" + l // a unary expression, not a literal: must not prune
	}
	return l
}

func genLeaf(t *rapid.T, sc *genScope) string {
	kind := shardfix.Uniform(t, "leaf", 100)
	if !sc.ranged && kind >= 48 && kind < 68 && rapid.IntRange(0, 2).Draw(t, "hash_eq") != 0 {
		kind = 0 // hash-like rules only prune = and IN: keep most leaves prunable
	}
	if len(sc.keys) == 0 || kind >= 86 {
		// a condition on another column
		c := rapid.SampledFrom(sc.others).Draw(t, "ocol").text
		switch shardfix.Uniform(t, "oleaf", 7) {
		case 0:
			return c + " = " + rapid.SampledFrom([]string{"1", "5"}).Draw(t, "ov")
		case 1:
			return c + " <> 1"
		case 2:
			return c + " IS NULL"
		case 3:
			return c + " IN (1,5)"
		case 4:
			return c + " < 5"
		case 5:
			return c + " IS NOT NULL"
		default:
			if rapid.IntRange(0, 1).Draw(t, "obetween") == 0 {
				return c + " BETWEEN 1 AND 5"
			}
			return "1 = 1"
		}
	}
	c := rapid.SampledFrom(sc.keys).Draw(t, "kcol").text
	ops := []string{"=", "=", "<>", "!=", "<", "<", "<=", ">", ">=", "<=>"}
	if !sc.ranged {
		ops = []string{"=", "=", "=", "=", "=", "<>", "<", ">=", "<=>", "="}
	}
	switch {
	case kind < 34:
		op := rapid.SampledFrom(ops).Draw(t, "op")
		if rapid.IntRange(0, 3).Draw(t, "flip") == 0 {
			return genKeyLit(t, sc) + " " + op + " " + c
		}
		return c + " " + op + " " + genKeyLit(t, sc)
	case kind < 48:
		n := rapid.IntRange(1, 4).Draw(t, "in_n")
		var vs []string
		for i := 0; i < n; i++ {
			vs = append(vs, genKeyLit(t, sc))
		}
		not := ""
		if rapid.IntRange(0, 2).Draw(t, "not_in") == 0 {
			not = "NOT "
		}
		return c + " " + not + "IN (" + strings.Join(vs, ",") + ")"
	case kind < 68:
		not := ""
		if rapid.IntRange(0, 1).Draw(t, "not_between") == 0 {
			not = "NOT "
		}
		return c + " " + not + "BETWEEN " + genKeyLit(t, sc) + " AND " + genKeyLit(t, sc)
	case kind < 71:
		return c + rapid.SampledFrom([]string{" IS NULL", " IS NOT NULL"}).Draw(t, "isnull")
	case kind < 75 && sc.intKey:
		switch rapid.IntRange(0, 2).Draw(t, "arith") {
		case 0:
			return c + " + 1 = " + genKeyLit(t, sc)
		case 1:
			return "abs(" + c + ") < " + genKeyLit(t, sc)
		default:
			return c + " = " + genKeyLit(t, sc) + " + 1"
		}
	case kind < 78 && len(sc.keys) > 1:
		return c + " = " + rapid.SampledFrom(sc.keys).Draw(t, "kcol2").text
	case kind < 82:
		return c + " = " + genKeyLit(t, sc)
	default:
		return c + " = " + rapid.SampledFrom(sc.others).Draw(t, "ocol2").text
	}
}

func genCond(t *rapid.T, sc *genScope, depth int) (string, bool) {
	if depth <= 0 || rapid.IntRange(0, 9).Draw(t, "stop") < 3 {
		return genLeaf(t, sc), false
	}
	wrap := func(s string, compound bool) string {
		if compound && rapid.IntRange(0, 9).Draw(t, "paren") < 7 {
			return "(" + s + ")"
		}
		return s
	}
	switch k := shardfix.Uniform(t, "node", 100); {
	case k < 50:
		l, lc := genCond(t, sc, depth-1)
		r, rc := genCond(t, sc, depth-1)
		return wrap(l, lc) + " AND " + wrap(r, rc), true
	case k < 84:
		l, lc := genCond(t, sc, depth-1)
		r, rc := genCond(t, sc, depth-1)
		return wrap(l, lc) + " OR " + wrap(r, rc), true
	case k < 94:
		c, _ := genCond(t, sc, depth-1)
		if rapid.IntRange(0, 5).Draw(t, "bang") == 0 {
			return "!(" + c + ")", false
		}
		return "NOT (" + c + ")", false
	case k < 97:
		l, _ := genCond(t, sc, depth-1)
		r, _ := genCond(t, sc, depth-1)
		return "(" + l + ") XOR (" + r + ")", true
	default:
		c, _ := genCond(t, sc, depth-1)
		return "((" + c + "))", false
	}
}

func literalPool(f *shardfix.Fixture) []string {
	var out []string
	for _, k := range f.Universe() {
		out = append(out, k.Lit)
		if k.Type != shardfix.KeyInt { // quoted numbers for integer keys are an implicit cast: rare, below
			out = append(out, k.Alt...)
		}
	}
	if f.Layout.KeyType == shardfix.KeyInt {
		u := f.Universe()
		for i := 0; i < len(u); i += 7 {
			out = append(out, u[i].Alt...)
		}
		out = append(out, "18446744073709551615")
	}
	return out
}

func genCase(t *rapid.T) c01Case {
	l := shardfix.GenLayout(t, shardfix.Opts{NoSeq: true})
	f, err := shardfix.Build(l)
	if err != nil {
		t.Fatalf("generator produced a rejected layout: %v", err)
	}
	c := c01Case{Layout: l, DB: shardfix.DB}
	noDB := rapid.IntRange(0, 19).Draw(t, "no_session_db") == 0
	if noDB {
		c.DB = ""
	}
	sc := &genScope{lits: literalPool(f), intKey: l.KeyType == shardfix.KeyInt || l.KeyType == shardfix.KeyUnix, ranged: l.IsRangeLike()}
	shape := shardfix.Uniform(t, "shape", 100)
	hasChild := l.ChildKey != ""
	hasGlobal := len(l.Globals) > 0
	tabText := func(name string, forceQual bool) string {
		if noDB || forceQual || rapid.IntRange(0, 5).Draw(t, "qual_"+name) == 0 {
			return shardfix.DB + "." + name
		}
		return name
	}
	// how a column of table `name` (alias `alias`) may be written
	col := func(name, alias, column string, mustQualify bool) string {
		if noDB {
			// without a session database Gaea refuses table-qualified columns that carry no schema
			if !mustQualify && rapid.IntRange(0, 1).Draw(t, "bare_"+column) == 0 {
				return column
			}
			return shardfix.DB + "." + name + "." + column
		}
		if alias != "" {
			if !mustQualify && rapid.IntRange(0, 2).Draw(t, "bare_"+column) == 0 {
				return column
			}
			return alias + "." + column
		}
		switch k := rapid.IntRange(0, 5).Draw(t, "colform_"+name+column); {
		case k < 3 && !mustQualify:
			return column
		case k == 5:
			return shardfix.DB + "." + name + "." + column
		default:
			return name + "." + column
		}
	}
	alias := func(n string) string {
		if noDB {
			return ""
		}
		if rapid.IntRange(0, 2).Draw(t, "alias_"+n) == 0 {
			return rapid.SampledFrom([]string{"x", "y", "tt"}).Draw(t, "aliasname_"+n)
		}
		return ""
	}
	depth := 1 + shardfix.Uniform(t, "depth", maxDepth()) // 1..max, uniform: simple and deep conditions alike
	switch {
	case shape < 40 || (shape >= 64 && shape < 92 && !hasChild) || (shape >= 92 && !hasGlobal): // single-table SELECT
		a := alias("t")
		sc.keys = []colRef{{col("t", a, "k", false), true}, {col("t", a, "k", false), true}}
		sc.others = []colRef{{text: col("t", a, "a", false)}}
		cond, _ := genCond(t, sc, depth)
		from := tabText("t", false)
		if a != "" {
			from += rapid.SampledFrom([]string{" AS ", " "}).Draw(t, "as") + a
		}
		fields := rapid.SampledFrom([]string{"*", "*", "k, a", "count(*)", "a"}).Draw(t, "fields")
		tail := rapid.SampledFrom([]string{"", "", "", " ORDER BY a", " LIMIT 3", " ORDER BY a DESC LIMIT 2, 3", " GROUP BY a", " FOR UPDATE"}).Draw(t, "tail")
		if fields == "count(*)" && strings.Contains(tail, "ORDER") {
			tail = ""
		}
		if fields == "k, a" && strings.Contains(tail, "GROUP") {
			tail = ""
		}
		c.SQL = "SELECT " + fields + " FROM " + from + " WHERE " + cond + tail
	case shape < 52: // UPDATE
		a := alias("t")
		sc.keys = []colRef{{col("t", a, "k", false), true}}
		sc.others = []colRef{{text: col("t", a, "a", false)}}
		cond, _ := genCond(t, sc, depth)
		from := tabText("t", false)
		if a != "" {
			from += " AS " + a
		}
		set := rapid.SampledFrom([]string{"a = 9", "a = a + 1", "s = 'x', a = 2"}).Draw(t, "set")
		tail := rapid.SampledFrom([]string{"", "", " ORDER BY a LIMIT 2", " LIMIT 1"}).Draw(t, "tail")
		c.SQL = "UPDATE " + from + " SET " + set + " WHERE " + cond + tail
	case shape < 64: // DELETE
		sc.keys = []colRef{{col("t", "", "k", false), true}}
		sc.others = []colRef{{text: col("t", "", "a", false)}}
		cond, _ := genCond(t, sc, depth)
		tail := rapid.SampledFrom([]string{"", "", " ORDER BY a LIMIT 2", " LIMIT 1"}).Draw(t, "tail")
		c.SQL = "DELETE FROM " + tabText("t", false) + " WHERE " + cond + tail
	case shape < 84: // t joined with its linked table
		a1, a2 := alias("t"), alias("tc")
		if a1 == a2 {
			a2 = ""
		}
		ck := l.ChildKey
		sc.keys = []colRef{{col("t", a1, "k", true), true}, {col("tc", a2, ck, ck == "k" || rapid.IntRange(0, 3).Draw(t, "q") != 0), true}}
		sc.others = []colRef{{text: col("t", a1, "a", true)}, {text: col("tc", a2, "a", true)}}
		if ck == "pk" {
			sc.others = append(sc.others, colRef{text: col("tc", a2, "k", true)}) // a non-sharding column named like the parent's key
		}
		f1, f2 := tabText("t", false), tabText("tc", false)
		if a1 != "" {
			f1 += " AS " + a1
		}
		if a2 != "" {
			f2 += " " + a2
		}
		jk := shardfix.Uniform(t, "join_kind", 10)
		eq := sc.keys[0].text + " = " + sc.keys[1].text
		switch {
		case jk < 5:
			on := eq
			if rapid.IntRange(0, 1).Draw(t, "on_extra") == 0 {
				e, comp := genCond(t, sc, 2)
				if comp {
					e = "(" + e + ")"
				}
				on += " AND " + e
			}
			c.SQL = "SELECT * FROM " + f1 + rapid.SampledFrom([]string{" JOIN ", " INNER JOIN "}).Draw(t, "jw") + f2 + " ON " + on
			if rapid.IntRange(0, 3).Draw(t, "where") != 0 {
				w, _ := genCond(t, sc, depth-1)
				c.SQL += " WHERE " + w
			}
		case jk < 7:
			on, _ := genCond(t, sc, 2)
			w, _ := genCond(t, sc, depth-1)
			c.SQL = "SELECT * FROM " + f1 + " LEFT JOIN " + f2 + " ON " + eq + " AND (" + on + ") WHERE " + w
		default:
			w, comp := genCond(t, sc, depth-1)
			if comp {
				w = "(" + w + ")"
			}
			c.SQL = "SELECT * FROM " + f1 + ", " + f2 + " WHERE " + eq + " AND " + w
		}
	case shape < 92: // the linked table alone
		a := alias("tc")
		ck := l.ChildKey
		sc.keys = []colRef{{col("tc", a, ck, false), true}}
		sc.others = []colRef{{text: col("tc", a, "a", false)}}
		if ck == "pk" {
			sc.others = append(sc.others, colRef{text: col("tc", a, "k", false)})
		}
		cond, _ := genCond(t, sc, depth)
		from := tabText("tc", false)
		if a != "" {
			from += " " + a
		}
		c.SQL = "SELECT * FROM " + from + " WHERE " + cond
	default: // t joined with a global table
		a := alias("t")
		sc.keys = []colRef{{col("t", a, "k", true), true}}
		sc.others = []colRef{{text: col("t", a, "a", true)}, {text: "g1.id"}, {text: "g1.a"}}
		cond, _ := genCond(t, sc, depth-1)
		from := tabText("t", false)
		if a != "" {
			from += " " + a
		}
		c.SQL = "SELECT * FROM " + from + " JOIN g1 ON " + sc.others[0].text + " = g1.id WHERE " + cond
	}
	return c
}

// ---------------------------------------------------------------- statement analysis (oracle side)

type fromTab struct {
	name, alias string // lower case
}

type stmtInfo struct {
	kind  string // select, update, delete
	tabs  []fromTab
	conds []ast.ExprNode // WHERE and every ON: a matching row (pair) satisfies all of them
	left  bool           // contains an outer join
}

func collectJoin(j *ast.Join, si *stmtInfo) bool {
	if j == nil {
		return true
	}
	for _, side := range []ast.ResultSetNode{j.Left, j.Right} {
		switch s := side.(type) {
		case nil:
		case *ast.Join:
			if !collectJoin(s, si) {
				return false
			}
		case *ast.TableSource:
			tn, ok := s.Source.(*ast.TableName)
			if !ok {
				return false
			}
			si.tabs = append(si.tabs, fromTab{name: tn.Name.L, alias: s.AsName.L})
		default:
			return false
		}
	}
	if j.On != nil {
		si.conds = append(si.conds, j.On.Expr)
	}
	if j.Tp == ast.LeftJoin || j.Tp == ast.RightJoin {
		si.left = true
	}
	return len(j.Using) == 0
}

func analyse(stmt ast.StmtNode) (*stmtInfo, bool) {
	si := &stmtInfo{}
	switch s := stmt.(type) {
	case *ast.SelectStmt:
		si.kind = "select"
		if s.From == nil || !collectJoin(s.From.TableRefs, si) {
			return nil, false
		}
		if s.Where != nil {
			si.conds = append(si.conds, s.Where)
		}
	case *ast.UpdateStmt:
		si.kind = "update"
		if s.TableRefs == nil || !collectJoin(s.TableRefs.TableRefs, si) {
			return nil, false
		}
		if s.Where != nil {
			si.conds = append(si.conds, s.Where)
		}
	case *ast.DeleteStmt:
		si.kind = "delete"
		if s.TableRefs == nil || !collectJoin(s.TableRefs.TableRefs, si) {
			return nil, false
		}
		if s.Where != nil {
			si.conds = append(si.conds, s.Where)
		}
	default:
		return nil, false
	}
	return si, true
}

// columns of the fixed schema
func tableColumns(l shardfix.Layout, name string) []string {
	switch name {
	case shardfix.Table:
		return []string{"k", "a", "s", "id"}
	case shardfix.Child:
		if l.ChildKey == "pk" {
			return []string{"pk", "a", "k", "cid"}
		}
		return []string{"k", "a", "cid"}
	case "g1", "g2":
		return []string{"id", "a"}
	}
	return nil
}

// slot is one column instance of the statement that the reference varies.
type slot struct {
	tab    int // index in stmtInfo.tabs
	col    string
	isKey  bool // sharding column of t / tc: ranges over the keys of the candidate table
	domain []condeval.Val
}

type resolver struct {
	l     shardfix.Layout
	si    *stmtInfo
	slots []slot
	index map[string]int // "tab#col" -> slot
	cache map[string]int // "schema.table.col" -> slot or -1
}

func (r *resolver) resolve(schema, table, name string) int {
	key := schema + "\x00" + table + "\x00" + name
	if v, ok := r.cache[key]; ok {
		return v
	}
	res := -1
	defer func() { r.cache[key] = res }()
	if schema != "" && schema != shardfix.DB {
		return -1
	}
	cand := -1
	for i, ft := range r.si.tabs {
		has := false
		for _, c := range tableColumns(r.l, ft.name) {
			if c == name {
				has = true
			}
		}
		if !has {
			continue
		}
		if table != "" {
			// an aliased table is only reachable through its alias
			if (ft.alias != "" && ft.alias == table && schema == "") || (ft.alias == "" && ft.name == table) {
				cand = i
				break
			}
			continue
		}
		if cand >= 0 {
			return -1 // ambiguous
		}
		cand = i
	}
	if cand < 0 {
		return -1
	}
	sk := strconv.Itoa(cand) + "#" + name
	if s, ok := r.index[sk]; ok {
		res = s
		return res
	}
	ft := r.si.tabs[cand]
	sl := slot{tab: cand, col: name}
	if (ft.name == shardfix.Table && name == shardfix.Key) || (ft.name == shardfix.Child && name == r.l.ChildKey) {
		sl.isKey = true
	}
	r.slots = append(r.slots, sl)
	res = len(r.slots) - 1
	r.index[sk] = res
	return res
}

func keyVal(k shardfix.KeyVal) condeval.Val {
	switch k.Type {
	case shardfix.KeyInt, shardfix.KeyUnix:
		return condeval.Int(k.I)
	case shardfix.KeyStr:
		return condeval.Str(k.S)
	}
	t, _ := shardfix.ParseDatetime(k.S)
	return condeval.Time(t)
}

// walkCols visits every column reference of e.
func walkCols(e ast.ExprNode, fn func(*ast.ColumnNameExpr)) {
	switch x := e.(type) {
	case *ast.ColumnNameExpr:
		fn(x)
	case *ast.ParenthesesExpr:
		walkCols(x.Expr, fn)
	case *ast.UnaryOperationExpr:
		walkCols(x.V, fn)
	case *ast.BinaryOperationExpr:
		walkCols(x.L, fn)
		walkCols(x.R, fn)
	case *ast.PatternInExpr:
		walkCols(x.Expr, fn)
		for _, it := range x.List {
			walkCols(it, fn)
		}
	case *ast.BetweenExpr:
		walkCols(x.Expr, fn)
		walkCols(x.Left, fn)
		walkCols(x.Right, fn)
	case *ast.IsNullExpr:
		walkCols(x.Expr, fn)
	case *ast.FuncCallExpr:
		for _, a := range x.Args {
			walkCols(a, fn)
		}
	}
}

// keyLeaf is one comparison of a sharding column with literals.
type keyLeaf struct {
	op   string // = <> < <= > >= <=> in notin between notbetween (normalised so the column is on the left)
	lits []*driver.ValueExpr
}

func (r *resolver) isKeyCol(e ast.ExprNode) bool {
	c, ok := e.(*ast.ColumnNameExpr)
	if !ok {
		return false
	}
	s := r.resolve(c.Name.Schema.L, c.Name.Table.L, c.Name.Name.L)
	return s >= 0 && r.slots[s].isKey
}

func collectKeyLeaves(r *resolver, e ast.ExprNode, out *[]keyLeaf) {
	switch x := e.(type) {
	case *ast.ParenthesesExpr:
		collectKeyLeaves(r, x.Expr, out)
	case *ast.UnaryOperationExpr:
		collectKeyLeaves(r, x.V, out)
	case *ast.BinaryOperationExpr:
		switch x.Op {
		case opcode.LogicAnd, opcode.LogicOr, opcode.LogicXor:
			collectKeyLeaves(r, x.L, out)
			collectKeyLeaves(r, x.R, out)
		case opcode.EQ, opcode.NE, opcode.LT, opcode.LE, opcode.GT, opcode.GE, opcode.NullEQ:
			name := map[opcode.Op]string{opcode.EQ: "=", opcode.NE: "<>", opcode.LT: "<", opcode.LE: "<=", opcode.GT: ">", opcode.GE: ">=", opcode.NullEQ: "<=>"}
			flip := map[string]string{"<": ">", "<=": ">=", ">": "<", ">=": "<=", "=": "=", "<>": "<>", "<=>": "<=>"}
			if v, ok := x.R.(*driver.ValueExpr); ok && r.isKeyCol(x.L) {
				*out = append(*out, keyLeaf{op: name[x.Op], lits: []*driver.ValueExpr{v}})
			} else if v, ok := x.L.(*driver.ValueExpr); ok && r.isKeyCol(x.R) {
				*out = append(*out, keyLeaf{op: flip[name[x.Op]], lits: []*driver.ValueExpr{v}})
			}
		}
	case *ast.PatternInExpr:
		if r.isKeyCol(x.Expr) {
			kl := keyLeaf{op: "in"}
			if x.Not {
				kl.op = "notin"
			}
			for _, it := range x.List {
				if v, ok := it.(*driver.ValueExpr); ok {
					kl.lits = append(kl.lits, v)
				}
			}
			*out = append(*out, kl)
		}
	case *ast.BetweenExpr:
		if r.isKeyCol(x.Expr) {
			lo, ok1 := x.Left.(*driver.ValueExpr)
			hi, ok2 := x.Right.(*driver.ValueExpr)
			if ok1 && ok2 {
				kl := keyLeaf{op: "between", lits: []*driver.ValueExpr{lo, hi}}
				if x.Not {
					kl.op = "notbetween"
				}
				*out = append(*out, kl)
			}
		}
	}
}

// ---------------------------------------------------------------- route extraction

var errStop = errors.New("c01: recorded")

func splitPhysical(name, base string) (int, bool) {
	if !strings.HasPrefix(name, base+"_") {
		return 0, false
	}
	d := name[len(base)+1:]
	if d == "" || len(d) < 4 {
		return 0, false
	}
	n, err := strconv.Atoi(d)
	if err != nil || n < 0 {
		return 0, false
	}
	return n, true
}

// stmtTable identifies the physical table a recorded statement addresses and
// checks that everything in it names that table.
func stmtTable(f *shardfix.Fixture, st shardfix.Stmt, notes *[]string) (int, string) {
	node, err := shardfix.Parse(st.SQL)
	if err != nil {
		return 0, fmt.Sprintf("statement sent to %s/%s does not parse: %q: %v", st.Slice, st.DB, st.SQL, err)
	}
	tabs, cols := shardfix.Names(node)
	l := f.Layout
	idx, have := 0, false
	set := func(i int) bool {
		if have && idx != i {
			return false
		}
		idx, have = i, true
		return true
	}
	if l.IsMycat() {
		for _, tl := range f.Tables {
			if tl.DB == st.DB {
				set(tl.Index)
			}
		}
		if !have {
			return 0, fmt.Sprintf("statement sent to %s/%s: no table of the rule lives in that database: %q", st.Slice, st.DB, st.SQL)
		}
	}
	check := func(schema, name string, isCol bool) string {
		low := strings.ToLower(name)
		if l.IsMycat() {
			if low == shardfix.Table || low == shardfix.Child {
				if schema != "" && schema != st.DB {
					return fmt.Sprintf("%s.%s is not in the database %s the statement is sent to", schema, name, st.DB)
				}
			}
			return ""
		}
		if low == shardfix.Table || low == shardfix.Child {
			if isCol {
				return "" // an alias may be called t
			}
			return fmt.Sprintf("logical table name %s was not rewritten", name)
		}
		for _, base := range []string{shardfix.Table, shardfix.Child} {
			if i, ok := splitPhysical(low, base); ok {
				if !set(i) {
					return fmt.Sprintf("names tables of two different shards (%d and %d)", idx, i)
				}
			}
		}
		return ""
	}
	seenTable := false
	for _, tr := range tabs {
		low := strings.ToLower(tr.Name)
		if low == shardfix.Table || low == shardfix.Child || strings.HasPrefix(low, shardfix.Table+"_") || strings.HasPrefix(low, shardfix.Child+"_") {
			seenTable = true
		}
		if p := check(tr.Schema, tr.Name, false); p != "" {
			return 0, fmt.Sprintf("statement sent to %s/%s: %s: %q", st.Slice, st.DB, p, st.SQL)
		}
	}
	for _, cr := range cols {
		if cr.Table == "" {
			continue
		}
		if p := check(cr.Schema, cr.Table, true); p != "" {
			// a column qualifier left unrewritten (seen under XOR, which the planner does not
			// descend into) makes the backend refuse the statement; the routing property is
			// about which tables are addressed, so this is recorded, not judged
			*notes = append(*notes, "observed_unrewritten_column_qualifier")
		}
		if !l.IsMycat() && strings.ToLower(cr.Table) == shardfix.Table && cr.Schema != "" {
			*notes = append(*notes, "observed_unrewritten_column_qualifier")
		}
	}
	if !have || !seenTable {
		return 0, fmt.Sprintf("statement sent to %s/%s names no physical table of t: %q", st.Slice, st.DB, st.SQL)
	}
	tl, ok := f.TableByIndex(idx)
	if !ok {
		return 0, fmt.Sprintf("statement sent to %s/%s names table index %d which is not configured: %q", st.Slice, st.DB, idx, st.SQL)
	}
	if tl.Slice != st.Slice || tl.DB != st.DB {
		return 0, fmt.Sprintf("table %d lives on %s/%s but its statement was sent to %s/%s: %q", idx, tl.Slice, tl.DB, st.Slice, st.DB, st.SQL)
	}
	return idx, ""
}

// ---------------------------------------------------------------- the property

func otherDomain() []condeval.Val {
	return []condeval.Val{condeval.Int(1), condeval.Null(), condeval.Int(5)}
}

func checkCase(c c01Case) (o pbt.Outcome) {
	f, err := shardfix.Build(c.Layout)
	if err != nil {
		o.Skip = "layout rejected by configuration validation: " + err.Error()
		return
	}
	l := c.Layout
	if l.Kind == "" {
		o.Skip = "no sharded table"
		return
	}
	o.Labels = append(o.Labels, "rule_"+l.Kind, "keytype_"+l.KeyType)
	ref, err := shardfix.Parse(c.SQL)
	if err != nil {
		o.Skip = "statement does not parse"
		return
	}
	si, ok := analyse(ref)
	if !ok {
		o.Skip = "statement form outside the reference"
		return
	}
	shape := si.kind
	if len(si.tabs) > 1 {
		shape += "_join"
		if si.left {
			shape += "_outer"
		}
	} else if len(si.tabs) == 1 && si.tabs[0].name == shardfix.Child {
		shape += "_linked_only"
	}
	o.Labels = append(o.Labels, "stmt_"+shape)

	// ---- reference: which tables can hold a matching row
	r := &resolver{l: l, si: si, index: map[string]int{}, cache: map[string]int{}}
	for _, cnd := range si.conds {
		walkCols(cnd, func(ce *ast.ColumnNameExpr) { r.resolve(ce.Name.Schema.L, ce.Name.Table.L, ce.Name.Name.L) })
	}
	var leaves []keyLeaf
	for _, cnd := range si.conds {
		collectKeyLeaves(r, cnd, &leaves)
	}
	for _, kl := range leaves {
		o.Labels = append(o.Labels, "op_"+kl.op)
	}
	universe := f.Universe()
	byTable := shardfix.ByTable(universe)
	var trap []condeval.Val
	trap = append(trap, condeval.Null())
	for i, k := range universe {
		if i == 0 || i == len(universe)/2 {
			trap = append(trap, keyVal(k))
		}
	}
	vals := make([]condeval.Val, len(r.slots))
	env := func(schema, table, name string) (condeval.Val, bool) {
		s := r.resolve(schema, table, name)
		if s < 0 {
			return condeval.Val{}, false
		}
		return vals[s], true
	}
	holds := func() bool {
		for _, cnd := range si.conds {
			tv, ok := condeval.Truth(cnd, env)
			if !ok || tv != condeval.True {
				return false
			}
		}
		return true
	}
	needed := map[int]string{} // table index -> witness
	for _, tl := range f.Tables {
		keys := byTable[tl.Index]
		if len(keys) == 0 {
			continue
		}
		kv := make([]condeval.Val, len(keys))
		for i, k := range keys {
			kv[i] = keyVal(k)
		}
		doms := make([][]condeval.Val, len(r.slots))
		for i, s := range r.slots {
			switch {
			case s.isKey:
				doms[i] = kv
			case si.tabs[s.tab].name == shardfix.Child && s.col == "k":
				doms[i] = trap
			default:
				doms[i] = otherDomain()
			}
		}
		var rec func(i int) bool
		rec = func(i int) bool {
			if i == len(doms) {
				return holds()
			}
			for _, v := range doms[i] {
				vals[i] = v
				if rec(i + 1) {
					return true
				}
			}
			return false
		}
		if rec(0) {
			var w []string
			for i, s := range r.slots {
				name := si.tabs[s.tab].name
				w = append(w, fmt.Sprintf("%s.%s=%s", name, s.col, showVal(vals[i])))
			}
			if len(w) == 0 {
				w = append(w, "any row")
			}
			needed[tl.Index] = strings.Join(w, ", ")
		}
	}
	allTables := len(f.Tables)
	pruneExpected := len(needed) < allTables

	// ---- Gaea
	p, perr, pan, keyErr := f.Plan(c.DB, c.SQL)
	if perr != nil || pan != "" {
		switch {
		case pan != "" && shardfix.IsRuntimePanic(pan):
			o.Labels = append(o.Labels, "rejected_runtime_panic")
		case pan != "" && keyErr:
			o.Labels = append(o.Labels, "rejected_keyerror_panic")
		case pan != "":
			o.Labels = append(o.Labels, "rejected_deliberate_panic")
		default:
			o.Labels = append(o.Labels, "rejected_error")
		}
		o.NonTrivial = len(leaves) > 0 && pruneExpected
		return
	}
	var stmts []shardfix.Stmt
	if sp, ok := p.(*plan.SelectPlan); ok {
		// SelectPlan exports its SQL map; ExecuteIn is not needed to observe the route
		// (with an empty route and ORDER BY it panics in newEmptyResultset, which is not
		// this property's concern: counted in the label below)
		stmts = shardfix.Flatten(sp.GetSQLs())
		if len(stmts) == 0 {
			r2 := shardfix.NewRecorder()
			if pp := pbt.Catch(func() { p.ExecuteIn(util.NewRequestContext(), r2) }); pp != "" {
				o.Labels = append(o.Labels, "observed_panic_in_select_with_empty_route")
			}
		}
	} else {
		rec := shardfix.NewRecorder()
		rec.Fail = errStop
		var execErr error
		if pp := pbt.Catch(func() { _, execErr = p.ExecuteIn(util.NewRequestContext(), rec) }); pp != "" {
			o.Violation = fmt.Sprintf("runtime panic in ExecuteIn: %s (sql %q)", pp, c.SQL)
			return
		}
		if execErr != nil && !errors.Is(execErr, errStop) && !strings.Contains(execErr.Error(), errStop.Error()) {
			o.Labels = append(o.Labels, "rejected_at_execute")
			o.NonTrivial = len(leaves) > 0 && pruneExpected
			return
		}
		stmts = rec.Stmts()
	}
	routed := map[int]bool{}
	for _, st := range stmts {
		idx, problem := stmtTable(f, st, &o.Labels)
		if problem != "" {
			o.Violation = problem + fmt.Sprintf(" (original %q)", c.SQL)
			return
		}
		if routed[idx] {
			o.Violation = fmt.Sprintf("table %d receives the statement twice (sql %q)", idx, c.SQL)
			return
		}
		routed[idx] = true
	}
	// cross-check with the plan's route result
	var rr *plan.RouteResult
	switch pl := p.(type) {
	case *plan.SelectPlan:
		rr = pl.GetRouteResult()
	case *plan.UpdatePlan:
		rr = pl.GetRouteResult()
	case *plan.DeletePlan:
		rr = pl.GetRouteResult()
	default:
		o.Violation = fmt.Sprintf("statement on a sharded table got plan %T (sql %q)", p, c.SQL)
		return
	}
	got := rr.GetShardIndexes()
	if len(got) != len(routed) {
		o.Violation = fmt.Sprintf("route result %v and executed statements %v disagree (sql %q)", got, keysOf(routed), c.SQL)
		return
	}
	for _, i := range got {
		if !routed[i] {
			o.Violation = fmt.Sprintf("route result %v and executed statements %v disagree (sql %q)", got, keysOf(routed), c.SQL)
			return
		}
	}
	if len(routed) < allTables {
		o.Labels = append(o.Labels, "pruned")
	} else {
		o.Labels = append(o.Labels, "all_tables")
	}
	if len(routed) == 0 {
		o.Labels = append(o.Labels, "routed_nowhere")
	}
	o.NonTrivial = len(leaves) > 0 && len(routed) < allTables

	// ---- compare
	var missing []int
	for i := range needed {
		if !routed[i] {
			missing = append(missing, i)
		}
	}
	if len(missing) == 0 {
		return
	}
	sort.Ints(missing)
	var ws []string
	for _, i := range missing {
		ws = append(ws, fmt.Sprintf("table %d (row %s)", i, needed[i]))
	}
	detail := fmt.Sprintf("%s rule, %q is sent to tables %v but a matching row can live in %s", l.Kind, c.SQL, keysOf(routed), strings.Join(ws, "; "))
	// every routing defect found so far has been repaired: a missing table is a violation
	o.Violation = detail
	return
}

func keysOf(m map[int]bool) []int {
	var out []int
	for k := range m {
		out = append(out, k)
	}
	sort.Ints(out)
	return out
}

func showVal(v condeval.Val) string {
	switch v.K {
	case condeval.KNull:
		return "NULL"
	case condeval.KInt:
		return strconv.FormatInt(v.I, 10)
	case condeval.KUint:
		return strconv.FormatUint(v.U, 10)
	case condeval.KStr:
		return "'" + v.S + "'"
	}
	return "'" + shardfix.FormatDatetime(v.T) + "'"
}

func TestC01Route(t *testing.T) {
	pbt.Run(t, pbt.Spec{ID: "C01", Sub: "route", Quick: 4000, Thorough: 40000,
		Rule:  "layout of every rule type (1-4 slices, 1-4 tables per slice, calendar spans with gaps and year ends, linked and global tables) x SELECT/UPDATE/DELETE/join-with-linked/linked-only/join-with-global whose WHERE/ON is a condition tree (depth<=4, thorough 5) of = <> < <= > >= <=> IN NOT-IN BETWEEN NOT-BETWEEN IS-NULL arithmetic under AND OR NOT XOR and parentheses over the sharding column, a second column and boundary literals of the column's type; non-trivial = the conditions compare the sharding column with a literal and the statement was sent to a strict subset of the tables, or such a statement with a reference set smaller than all tables was rejected",
		Floor: 0.3}, genCase, checkCase)
}
