//go:build verif

package c01

import (
	"verifharness/internal/shardfix"
	"fmt"
	"os"
	"strings"
	"testing"

	"pgregory.net/rapid"
)

func TestDebugLabels(t *testing.T) {
	want := os.Getenv("C01_LABEL")
	if want == "" {
		t.Skip()
	}
	n := 0
	rapid.Check(t, func(rt *rapid.T) {
		c := genCase(rt)
		o := checkCase(c)
		for _, l := range o.Labels {
			if strings.HasPrefix(l, want) && n < 25 {
				n++
				_, err, pan, _ := func() (interface{}, error, string, bool) { f, _ := buildFix(c); return f.Plan(c.DB, c.SQL) }()
				fmt.Printf("%s | %s | db=%q | %s | err=%v pan=%s\n", l, c.Layout.Kind, c.DB, c.SQL, err, pan)
			}
		}
	})
}

func buildFix(c c01Case) (*shardfixFixture, error) { return shardfixBuild(c.Layout) }

type shardfixFixture = shardfix.Fixture

var shardfixBuild = shardfix.Build
