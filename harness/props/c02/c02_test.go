//go:build verif

// C02 Cross-shard SELECT returns what one database holding all shards would return.
package c02

import (
	"crypto/sha1"
	"encoding/json"
	"fmt"
	"math"
	"os"
	"sort"
	"strconv"
	"strings"
	"testing"

	"github.com/XiaoMi/Gaea/mysql"
	"github.com/XiaoMi/Gaea/parser/ast"
	"github.com/XiaoMi/Gaea/util"
	"pgregory.net/rapid"

	"verifharness/internal/pbt"
	"verifharness/internal/shardfix"
	"verifharness/internal/shardsim"
	"verifharness/internal/sqlmodel"
)

type c02Case struct {
	Layout shardfix.Layout `json:"layout"`
	Data   shardsim.Data   `json:"data"`
	SQL    string          `json:"sql"`
}

func genCase(t *rapid.T) c02Case {
	l := shardsim.GenLayout(t)
	g, err := shardsim.NewGen(t, l)
	if err != nil {
		t.Fatalf("generated layout rejected: %v", err)
	}
	c := c02Case{Layout: l}
	rows := 40
	if pbt.Tier() == "thorough" {
		rows = 120
	}
	c.Data = g.GenData(rows)
	c.SQL = g.Select()
	return c
}

// ---- value normalisation and the validity predicate (DESIGN.md C02) ----

func valEqual(a, b sqlmodel.Value) bool {
	if a.Null || b.Null {
		return a.Null && b.Null
	}
	if a.K == sqlmodel.KDouble || b.K == sqlmodel.KDouble {
		num := func(v sqlmodel.Value) bool {
			return v.K == sqlmodel.KInt || v.K == sqlmodel.KDec || v.K == sqlmodel.KDouble
		}
		if !num(a) || !num(b) {
			return false
		}
		x, y := toFloat(a), toFloat(b)
		if x == y {
			return true
		}
		// The generated doubles are dyadic rationals whose sums are exact, so
		// this tolerance only absorbs text round trips. It must stay far below
		// the smallest difference between two distinct generated sums (0.125 at
		// magnitude 1e10, i.e. 1.25e-11 relative): a looser tolerance would let
		// the greedy matching below pair a row with a different reference row.
		return math.Abs(x-y) <= 1e-13*math.Max(math.Abs(x), math.Abs(y))
	}
	strish := func(v sqlmodel.Value) bool { return v.K == sqlmodel.KString || v.K == sqlmodel.KTime }
	if strish(a) != strish(b) {
		return false
	}
	if strish(a) {
		return a.S == b.S
	}
	return sqlmodel.Compare(a, b) == 0
}

func toFloat(v sqlmodel.Value) float64 {
	switch v.K {
	case sqlmodel.KDouble:
		return v.F
	case sqlmodel.KInt:
		return float64(v.I)
	}
	x, _ := strconv.ParseFloat(v.Text(), 64)
	return x
}

func rowEqual(a, b []sqlmodel.Value) bool {
	if len(a) != len(b) {
		return false
	}
	for i := range a {
		if !valEqual(a[i], b[i]) {
			return false
		}
	}
	return true
}

func rowText(r []sqlmodel.Value) string {
	s := make([]string, len(r))
	for i, v := range r {
		s[i] = v.String()
	}
	return "(" + strings.Join(s, ", ") + ")"
}

func rowsText(rows [][]sqlmodel.Value, max int) string {
	var sb strings.Builder
	for i, r := range rows {
		if i == max {
			fmt.Fprintf(&sb, " ... (%d rows)", len(rows))
			break
		}
		sb.WriteString(rowText(r))
	}
	return sb.String()
}

// verdict classes of the validity predicate
const (
	vOK        = ""
	vColumns   = "columns"
	vRowCount  = "rowcount"
	vForeign   = "foreign-row" // a returned row is not a row of the reference (or is returned more often)
	vOrder     = "order"       // rows are reference rows but the ORDER BY key sequence differs
	vUndecoded = "undecodable"
)

// validate applies the validity predicate: got must be an admissible answer
// given the reference rows before LIMIT (in ORDER BY order) and the window.
func validate(ref *sqlmodel.ResultSet, gotCols int, got [][]sqlmodel.Value) (class, detail string) {
	if gotCols != len(ref.Cols) {
		return vColumns, fmt.Sprintf("result has %d columns, the reference %d", gotCols, len(ref.Cols))
	}
	E := ref.PreLimit
	want := int64(len(E))
	off := int64(0)
	if ref.Count >= 0 {
		off = ref.Offset
		want = int64(len(E)) - off
		if want < 0 {
			want = 0
		}
		if want > ref.Count {
			want = ref.Count
		}
	}
	if int64(len(got)) != want {
		return vRowCount, fmt.Sprintf("result has %d rows, expected %d (reference has %d rows before LIMIT); got %s; reference %s",
			len(got), want, len(E), rowsText(got, 6), rowsText(E, 6))
	}
	used := make([]bool, len(E))
	for i, r := range got {
		found := -1
		if ref.Keys != nil {
			K := ref.Keys[off+int64(i)]
			for j := range E {
				if !used[j] && rowEqual(E[j], r) && rowEqual(ref.Keys[j], K) {
					found = j
					break
				}
			}
			if found < 0 {
				for j := range E {
					if !used[j] && rowEqual(E[j], r) {
						return vOrder, fmt.Sprintf("row %d is %s whose ORDER BY key is %s, but position %d of the ordered reference has key %s; got %s; reference %s",
							i, rowText(r), rowText(ref.Keys[j]), off+int64(i), rowText(K), rowsText(got, 8), rowsText(E, 8))
					}
				}
			}
		} else {
			for j := range E {
				if !used[j] && rowEqual(E[j], r) {
					found = j
					break
				}
			}
		}
		if found < 0 {
			return vForeign, fmt.Sprintf("row %d %s is not a row of the reference answer (or occurs more often than there); got %s; reference %s",
				i, rowText(r), rowsText(got, 8), rowsText(E, 8))
		}
		used[found] = true
	}
	return vOK, ""
}

// ---- statement features (labels, non-trivial rule) ----

type features struct {
	agg, distinctAgg, group, order, limit, distinct, union, join, where bool
	orderPos, orderAgg                                                   bool
}

func featuresOf(st ast.StmtNode) features {
	var f features
	var sel func(s *ast.SelectStmt)
	var hasAgg func(x ast.ExprNode) (bool, bool)
	hasAgg = func(x ast.ExprNode) (bool, bool) {
		switch n := x.(type) {
		case *ast.AggregateFuncExpr:
			return true, n.Distinct
		case *ast.ParenthesesExpr:
			return hasAgg(n.Expr)
		}
		return false, false
	}
	sel = func(s *ast.SelectStmt) {
		if s.Distinct {
			f.distinct = true
		}
		if s.GroupBy != nil {
			f.group = true
		}
		if s.Where != nil {
			f.where = true
		}
		if s.Limit != nil {
			f.limit = true
		}
		if s.OrderBy != nil {
			f.order = true
			for _, it := range s.OrderBy.Items {
				if _, ok := it.Expr.(*ast.PositionExpr); ok {
					f.orderPos = true
				}
				if a, _ := hasAgg(it.Expr); a {
					f.orderAgg = true
				}
			}
		}
		if s.Fields != nil {
			for _, fl := range s.Fields.Fields {
				if fl.Expr != nil {
					a, d := hasAgg(fl.Expr)
					f.agg = f.agg || a
					f.distinctAgg = f.distinctAgg || d
				}
			}
		}
		if s.From != nil && s.From.TableRefs != nil && s.From.TableRefs.Right != nil {
			f.join = true
		}
	}
	switch s := st.(type) {
	case *ast.SelectStmt:
		sel(s)
	case *ast.UnionStmt:
		f.union = true
		for _, x := range s.SelectList.Selects {
			sel(x)
		}
		if s.OrderBy != nil {
			f.order = true
		}
		if s.Limit != nil {
			f.limit = true
		}
	}
	return f
}

func (f features) names() []string {
	var n []string
	add := func(b bool, s string) {
		if b {
			n = append(n, s)
		}
	}
	add(f.agg, "agg")
	add(f.distinctAgg, "agg_distinct")
	add(f.group, "group")
	add(f.order, "order")
	add(f.orderPos, "order_pos")
	add(f.orderAgg, "order_agg")
	add(f.limit, "limit")
	add(f.distinct, "distinct")
	add(f.union, "union")
	add(f.join, "join")
	return n
}

// ---- running Gaea ----

type gaeaRun struct {
	rejected string // non-empty: BuildPlan / ExecuteIn returned an error (or a recovered panic)
	panicked bool
	res      *mysql.Result
	w        *shardsim.World
}

func runGaea(w *shardsim.World, sql string) gaeaRun {
	g := gaeaRun{w: w}
	p, err, pan, _ := w.F.Plan(shardfix.DB, sql)
	if pan != "" {
		g.rejected, g.panicked = "panic in BuildPlan: "+pan, true
		return g
	}
	if err != nil {
		g.rejected = "BuildPlan: " + err.Error()
		return g
	}
	rec := shardfix.NewRecorder()
	rec.Exec = w.ExecStmt
	var res *mysql.Result
	var xerr error
	if pn := pbt.Catch(func() { res, xerr = p.ExecuteIn(util.NewRequestContext(), rec) }); pn != "" {
		g.rejected, g.panicked = "panic in ExecuteIn: "+pn, true
		return g
	}
	if xerr != nil {
		g.rejected = "ExecuteIn: " + xerr.Error()
		return g
	}
	g.res = res
	return g
}

// evaluation is one differential run of a case.
type evaluation struct {
	skip     string
	rejected string
	panicked bool
	class    string // verdict class of the validity predicate ("" = valid)
	detail   string
	w        *shardsim.World
	st       ast.StmtNode
	feat     features
	ref      *sqlmodel.ResultSet
	got      [][]sqlmodel.Value
}

func evaluate(c c02Case) (ev evaluation) {
	w, err := shardsim.Build(c.Layout, c.Data)
	if err != nil {
		ev.skip = "malformed case: " + err.Error()
		return
	}
	ev.w = w
	st, err := sqlmodel.Parse(c.SQL)
	if err != nil {
		ev.skip = "statement does not parse"
		return
	}
	ev.st = st
	ev.feat = featuresOf(st)
	ref, err := sqlmodel.QueryStmt(st, w.Union)
	if err != nil {
		if _, ok := err.(*sqlmodel.Unsupported); ok {
			ev.skip = "evaluator: " + err.Error()
		} else {
			ev.skip = "a single database rejects the statement"
		}
		return
	}
	ev.ref = ref
	g := runGaea(w, c.SQL)
	if len(w.Unsupported) > 0 {
		ev.skip = "evaluator (shard side): " + w.Unsupported[0]
		return
	}
	if g.rejected != "" {
		ev.rejected, ev.panicked = g.rejected, g.panicked
		return
	}
	cols, rows, derr := sqlmodel.Decode(g.res)
	if derr != nil {
		ev.class, ev.detail = vUndecoded, "result cannot be decoded: "+derr.Error()
		return
	}
	ev.got = rows
	if len(rows) == 0 && len(ref.PreLimit) == 0 {
		// no rows on either side: the property speaks about rows; column
		// metadata of an empty answer (SELECT * on an empty route) is not compared
		return
	}
	ev.class, ev.detail = validate(ref, len(cols), rows)
	return
}

func checkCase(c c02Case) (o pbt.Outcome) {
	ev := evaluate(c)
	if ev.skip != "" {
		o.Skip = ev.skip
		return
	}
	o.Labels = append(o.Labels, "rule_"+c.Layout.Kind)
	fn := ev.feat.names()
	for i, a := range fn {
		o.Labels = append(o.Labels, "f_"+a)
		for _, b := range fn[i+1:] {
			o.Labels = append(o.Labels, "f_"+a+"+"+b)
		}
	}
	shardsWithRows := 0
	for _, tr := range ev.w.Trace {
		if tr.Matched > 0 {
			shardsWithRows++
		}
	}
	f := ev.feat
	hasFeature := f.agg || f.group || f.order || f.limit || f.distinct || f.union || f.join
	o.NonTrivial = shardsWithRows >= 2 && hasFeature
	if len(ev.w.Trace) >= 2 {
		o.Labels = append(o.Labels, "multi_shard")
	}
	if !o.NonTrivial {
		switch {
		case !hasFeature:
			o.Labels = append(o.Labels, "trivial_plain_projection")
		case len(ev.w.Trace) < 2:
			o.Labels = append(o.Labels, "trivial_single_shard_route")
		default:
			o.Labels = append(o.Labels, "trivial_rows_on_one_shard")
		}
	}
	if ev.rejected != "" {
		o.Labels = append(o.Labels, "rejected")
		if ev.panicked {
			o.Labels = append(o.Labels, "rejected_by_panic")
		}
		return
	}
	o.Labels = append(o.Labels, "answered")
	if ev.class == vOK {
		return
	}
	if id, what := classify(c, ev); id != "" {
		o.Known, o.KnownWhat = id, what+" | "+c.SQL+": "+ev.detail
		return
	}
	o.Violation = fmt.Sprintf("[%s] %s: %s", ev.class, c.SQL, ev.detail)
	return
}

func TestC02Select(t *testing.T) {
	pbt.Run(t, pbt.Spec{ID: "C02", Sub: "select", Quick: 3000, Thorough: 30000,
		Rule: "layout of every rule type (1-4 slices, 1-4 tables per slice, linked table, global table); 0-40 rows placed by the rule's own placement with NULLs, duplicates, separator strings; one statement from the supported SELECT grammar (projection, WHERE of the C01 grammar, COUNT/SUM/MAX/MIN [DISTINCT], GROUP BY, ORDER BY, LIMIT/OFFSET, DISTINCT, UNION [ALL], joins with the linked / global table); non-trivial = at least two per-shard statements matched rows and the statement has an aggregate / GROUP BY / ORDER BY / LIMIT / DISTINCT / UNION / join",
		Floor: 0.5}, genCase, checkCase)
}

// TestExploreC02 is a development aid: it tallies failure classes over many
// generated cases instead of stopping at the first (VERIF_EXPLORE=n).
func TestExploreC02(t *testing.T) {
	n := 0
	fmt.Sscan(os.Getenv("VERIF_EXPLORE"), &n)
	if n == 0 {
		t.Skip("set VERIF_EXPLORE")
	}
	type bucket struct {
		n   int
		ex  string
		sql string
	}
	buckets := map[string]*bucket{}
	total, nontrivial, rejected := 0, 0, 0
	skips := map[string]int{}
	rapid.Check(t, func(rt *rapid.T) {
		c := genCase(rt)
		o := checkCase(c)
		if o.Skip != "" {
			k := o.Skip
			if len(k) > 60 {
				k = k[:60]
			}
			skips[k]++
			return
		}
		total++
		if o.NonTrivial {
			nontrivial++
		}
		for _, l := range o.Labels {
			if l == "rejected" {
				rejected++
			}
			if strings.HasPrefix(l, "trivial") {
				skips[l]++
			}
		}
		msg := o.Violation
		if o.Known != "" {
			msg = "KNOWN " + o.Known
		}
		if os.Getenv("VERIF_EXPLORE_REJ") != "" {
			if ev := evaluate(c); ev.rejected != "" {
				r := ev.rejected
				if len(r) > 90 {
					r = r[:90]
				}
				skips["REJ "+r]++
				if strings.Contains(ev.rejected, os.Getenv("VERIF_EXPLORE_REJ")) && os.Getenv("VERIF_EXPLORE_REJ") != "1" {
					fmt.Println("REJ:", c.SQL, "=>", ev.rejected)
				}
			}
		}
		if msg == "" {
			return
		}
		key := msg
		if i := strings.Index(key, "]"); i > 0 && o.Known == "" {
			f := featuresOf(mustParse(c.SQL))
			key = key[:i+1] + " " + strings.Join(f.names(), ",")
		}
		b := buckets[key]
		if b == nil {
			b = &bucket{}
			buckets[key] = b
		}
		b.n++
		if b.ex == "" || len(c.SQL) < len(b.sql) {
			b.ex, b.sql = msg, c.SQL
			if o.Known == "" {
				cj, _ := json.Marshal(c)
				os.MkdirAll("/verif/build/fail", 0o755)
				os.WriteFile(fmt.Sprintf("/verif/build/fail/C02-explore-%x.json", sha1.Sum([]byte(key)))[:60]+".json",
					[]byte(fmt.Sprintf(`{"property":"C02","sub":"select","expect":"pass","case":%s}`, cj)), 0o644)
			}
		}
	})
	keys := make([]string, 0, len(buckets))
	for k := range buckets {
		keys = append(keys, k)
	}
	sort.Slice(keys, func(i, j int) bool { return buckets[keys[i]].n > buckets[keys[j]].n })
	fmt.Printf("explore: %d evaluated, %d non-trivial, %d rejected, skips %v\n", total, nontrivial, rejected, skips)
	for _, k := range keys {
		b := buckets[k]
		ex := b.ex
		if len(ex) > 700 {
			ex = ex[:700]
		}
		fmt.Printf("%5d  %s\n         e.g. %s\n", b.n, k, ex)
	}
}

func mustParse(sql string) ast.StmtNode {
	st, _ := sqlmodel.Parse(sql)
	return st
}

// TestDebugC02 prints the details of one saved case (VERIF_DEBUG=<file>).
func TestDebugC02(t *testing.T) {
	p := os.Getenv("VERIF_DEBUG")
	if p == "" {
		t.Skip("set VERIF_DEBUG")
	}
	b, err := os.ReadFile(p)
	if err != nil {
		t.Fatal(err)
	}
	var rf struct {
		Case c02Case `json:"case"`
	}
	if err := json.Unmarshal(b, &rf); err != nil {
		t.Fatal(err)
	}
	c := rf.Case
	ev := evaluate(c)
	fmt.Printf("layout: %+v\nsql: %s\nskip=%q rejected=%q class=%q\ndetail: %s\n", c.Layout, c.SQL, ev.skip, ev.rejected, ev.class, ev.detail)
	if ev.w != nil {
		for _, tr := range ev.w.Trace {
			fmt.Printf("  -> %s/%s matched=%d rows=%d err=%s: %s\n", tr.Stmt.Slice, tr.Stmt.DB, tr.Matched, tr.Rows, tr.Err, tr.Stmt.SQL)
		}
		for _, tl := range ev.w.F.Tables {
			fmt.Printf("  table %d %s/%s/%s: %d rows\n", tl.Index, tl.Slice, tl.DB, tl.Name, len(ev.w.TableAt(tl.Index).Rows))
		}
	}
	for _, n := range neutralisers {
		if nc, ok := n.apply(c, ev); ok {
			nev := evaluate(nc)
			fmt.Printf("neutraliser %s applies -> sql %s\n   skip=%q rejected=%q class=%q detail=%s\n", n.id, nc.SQL, nev.skip, nev.rejected, nev.class, nev.detail)
		}
	}
	o := checkCase(c)
	fmt.Printf("outcome: known=%q violation=%q\n", o.Known, o.Violation)
}
