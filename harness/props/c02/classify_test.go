//go:build verif

package c02

import (
	"fmt"
	"os"
	"strings"

	"github.com/XiaoMi/Gaea/parser/ast"
	"github.com/XiaoMi/Gaea/parser/format"

	"verifharness/internal/sqlmodel"
)

// Open findings of C02 (findings.d/C02.json). Only OPEN findings have a
// classifier: a failing case is classified as finding F only if
//
//	(a) F's trigger is present in the case (a predicate over statement, plan
//	    and data that pins F's root cause), and
//	(b) the case with only F's trigger neutralised - a minimally changed case
//	    that does not exercise the root cause - is answered correctly by Gaea
//	    (the differential is re-run on it).
//
// A failure that survives the neutralisation of the open findings' triggers
// is a violation. Findings that were repaired in /repo (C02-F1 positions,
// F2 map key, F3 DISTINCT aggregates, F4 ORDER BY aggregate, F6 aggregate on
// an empty route, F7/F8 inherited routing) have no classifier any more: their
// witnesses are expect-pass regression cases and a recurrence is a plain
// violation.
const (
	fGroupLimit = "C02-F5" // GROUP BY with LIMIT: LIMIT pushed to every shard cuts partial groups
)

type neutraliser struct {
	id   string
	what string
	// apply returns the neutralised case, or ok=false when the trigger is absent.
	apply func(c c02Case, ev evaluation) (c02Case, bool)
}

func restoreSQL(st ast.StmtNode) string {
	var sb strings.Builder
	if err := st.Restore(format.NewRestoreCtx(format.DefaultRestoreFlags, &sb)); err != nil {
		return ""
	}
	return sb.String()
}

func selectsOf(st ast.StmtNode) []*ast.SelectStmt {
	switch s := st.(type) {
	case *ast.SelectStmt:
		return []*ast.SelectStmt{s}
	case *ast.UnionStmt:
		return s.SelectList.Selects
	}
	return nil
}

// rewrite parses the statement, lets f edit it and restores it.
func rewrite(sql string, f func(st ast.StmtNode) bool) (string, bool) {
	st, err := sqlmodel.Parse(sql)
	if err != nil {
		return "", false
	}
	if !f(st) {
		return "", false
	}
	out := restoreSQL(st)
	return out, out != ""
}

// neutraliseGroupLimit removes LIMIT from GROUP BY selects, provided the
// pushed-down LIMIT actually cut some shard's answer.
func neutraliseGroupLimit(c c02Case, ev evaluation) (c02Case, bool) {
	if len(ev.w.Trace) < 2 {
		return c, false
	}
	sel, ok := ev.st.(*ast.SelectStmt)
	if !ok || sel.GroupBy == nil || sel.Limit == nil {
		return c, false
	}
	bound := ev.ref.Offset + ev.ref.Count
	cut := false
	for _, tr := range ev.w.Trace {
		if int64(tr.Rows) == bound {
			cut = true // this shard returned exactly offset+count rows: its LIMIT was binding
		}
	}
	if !cut {
		return c, false
	}
	sql, ok := rewrite(c.SQL, func(st ast.StmtNode) bool {
		st.(*ast.SelectStmt).Limit = nil
		return true
	})
	if !ok {
		return c, false
	}
	c.SQL = sql
	return c, true
}

var neutralisers = []neutraliser{
	{fGroupLimit, "GROUP BY with LIMIT pushed to the shards", neutraliseGroupLimit},
}

func passes(c c02Case) bool {
	ev := evaluate(c)
	return ev.skip == "" && (ev.rejected != "" || ev.class == vOK)
}

// disabled reports whether a finding's classifier is switched off
// (VERIF_C02_DISABLE=C02-F1,C02-F3: used to produce minimised witnesses and to
// test that an unlisted failure is reported).
func disabled(id string) bool {
	return strings.Contains(os.Getenv("VERIF_C02_DISABLE"), id)
}

func classifySelect(c c02Case, ev evaluation) (string, string) {
	for _, n := range neutralisers {
		if disabled(n.id) {
			continue
		}
		if nc, ok := n.apply(c, ev); ok && passes(nc) {
			return n.id, n.what
		}
	}
	return "", ""
}

// classify is classifySelect for one SELECT; for a UNION whose failure no
// union-level neutralisation explains, a branch that fails on its own with a
// known finding explains the union's failure.
func classify(c c02Case, ev evaluation) (string, string) {
	if id, what := classifySelect(c, ev); id != "" {
		return id, what
	}
	u, ok := ev.st.(*ast.UnionStmt)
	if !ok {
		return "", ""
	}
	for i, br := range u.SelectList.Selects {
		br.IsInBraces = false
		bc := c
		bc.SQL = restoreSQL(br)
		if bc.SQL == "" {
			continue
		}
		bev := evaluate(bc)
		if bev.skip != "" || bev.rejected != "" || bev.class == vOK {
			continue
		}
		if id, what := classifySelect(bc, bev); id != "" {
			return id, fmt.Sprintf("union branch %d: %s", i, what)
		}
	}
	return "", ""
}
