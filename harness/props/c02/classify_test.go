//go:build verif

package c02

import (
	"fmt"
	"os"
	"strings"

	"github.com/XiaoMi/Gaea/parser/ast"
	"github.com/XiaoMi/Gaea/parser/format"
	"github.com/XiaoMi/Gaea/parser/model"
	driver "github.com/XiaoMi/Gaea/parser/tidb-types/parser_driver"

	"verifharness/internal/shardsim"
	"verifharness/internal/sqlmodel"
)

// Known findings of C02 (findings.d/C02.json). A failing case is classified
// as finding F only if
//
//	(a) F's trigger is present in the case (a predicate over statement, plan
//	    and data that pins F's root cause), and
//	(b) the case with F's trigger neutralised - an equivalent or minimally
//	    changed case that does not exercise the root cause - is answered
//	    correctly by Gaea (the differential is re-run on it).
//
// When several triggers are present and no single neutralisation repairs the
// answer, all of them are neutralised together; the failure is then booked
// under the first trigger. A failure that survives every applicable
// neutralisation is reported as a violation.
const (
	fPosition    = "C02-F1" // GROUP BY / ORDER BY <position> sent to the shards as an integer constant
	fMapKey      = "C02-F2" // generateMapKey: NULL vs 'NULL', '+' inside values
	fDistinctAgg = "C02-F3" // COUNT(DISTINCT)/SUM(DISTINCT) merged by addition
	fOrderAgg    = "C02-F4" // ORDER BY <aggregate expression>: helper column is not merged
	fGroupLimit  = "C02-F5" // GROUP BY with LIMIT: LIMIT pushed to every shard cuts partial groups
	fEmptyAgg    = "C02-F6" // aggregate without GROUP BY on an empty route: no row instead of one
	fRouteLT     = "C02-F7" // calendar rule: k < bound / NOT BETWEEN drops the bound's own period (C01)
	fRouteNotBtw = "C02-F8" // NOT BETWEEN lo AND hi with lo > hi drops the tables between the bounds (C01)
)

type neutraliser struct {
	id   string
	what string
	// apply returns the neutralised case, or ok=false when the trigger is absent.
	apply func(c c02Case, ev evaluation) (c02Case, bool)
}

func restoreSQL(st ast.StmtNode) string {
	var sb strings.Builder
	if err := st.Restore(format.NewRestoreCtx(format.DefaultRestoreFlags, &sb)); err != nil {
		return ""
	}
	return sb.String()
}

func selectsOf(st ast.StmtNode) []*ast.SelectStmt {
	switch s := st.(type) {
	case *ast.SelectStmt:
		return []*ast.SelectStmt{s}
	case *ast.UnionStmt:
		return s.SelectList.Selects
	}
	return nil
}

func colRef(name string) *ast.ColumnNameExpr {
	return &ast.ColumnNameExpr{Name: &ast.ColumnName{Name: model.NewCIStr(name)}}
}

func exprText(x ast.Node) string {
	var sb strings.Builder
	x.Restore(format.NewRestoreCtx(format.DefaultRestoreFlags, &sb))
	return sb.String()
}

// rewrite parses the statement, lets f edit it and restores it.
func rewrite(sql string, f func(st ast.StmtNode) bool) (string, bool) {
	st, err := sqlmodel.Parse(sql)
	if err != nil {
		return "", false
	}
	if !f(st) {
		return "", false
	}
	out := restoreSQL(st)
	return out, out != ""
}

// neutralisePositions replaces GROUP BY / ORDER BY positions by a reference to
// the select item they denote (its column or an alias given to it).
func neutralisePositions(c c02Case, ev evaluation) (c02Case, bool) {
	if len(ev.w.Trace) < 2 {
		return c, false
	}
	sql, ok := rewrite(c.SQL, func(st ast.StmtNode) bool {
		changed := false
		for _, s := range selectsOf(st) {
			fix := func(items []*ast.ByItem) {
				for _, it := range items {
					p, ok := it.Expr.(*ast.PositionExpr)
					if !ok || p.N < 1 || p.N > len(s.Fields.Fields) {
						continue
					}
					fl := s.Fields.Fields[p.N-1]
					if fl.WildCard != nil {
						continue
					}
					if cn, isCol := fl.Expr.(*ast.ColumnNameExpr); isCol && fl.AsName.O == "" {
						cp := *cn.Name
						it.Expr = &ast.ColumnNameExpr{Name: &cp}
					} else {
						if fl.AsName.O == "" {
							fl.AsName = model.NewCIStr(fmt.Sprintf("zp%d", p.N))
						}
						it.Expr = colRef(fl.AsName.O)
					}
					changed = true
				}
			}
			if s.GroupBy != nil {
				fix(s.GroupBy.Items)
			}
			if s.OrderBy != nil {
				fix(s.OrderBy.Items)
			}
		}
		return changed
	})
	if !ok {
		return c, false
	}
	c.SQL = sql
	return c, true
}

// neutraliseOrderAgg makes every ORDER BY <aggregate expression> refer to a
// select item by alias (adding the aggregate as a trailing item when the
// select list does not have it; both sides then return that extra column).
func neutraliseOrderAgg(c c02Case, ev evaluation) (c02Case, bool) {
	if len(ev.w.Trace) < 2 {
		return c, false
	}
	sql, ok := rewrite(c.SQL, func(st ast.StmtNode) bool {
		changed := false
		for _, s := range selectsOf(st) {
			if s.OrderBy == nil {
				continue
			}
			for k, it := range s.OrderBy.Items {
				if _, isAgg := it.Expr.(*ast.AggregateFuncExpr); !isAgg {
					continue
				}
				txt := exprText(it.Expr)
				var target *ast.SelectField
				for _, fl := range s.Fields.Fields {
					if fl.Expr != nil && exprText(fl.Expr) == txt {
						target = fl
						break
					}
				}
				if target == nil {
					if s.Distinct {
						continue
					}
					target = &ast.SelectField{Expr: it.Expr}
					s.Fields.Fields = append(s.Fields.Fields, target)
				}
				if target.AsName.O == "" {
					target.AsName = model.NewCIStr(fmt.Sprintf("zo%d", k+1))
				}
				it.Expr = colRef(target.AsName.O)
				changed = true
			}
		}
		return changed
	})
	if !ok {
		return c, false
	}
	c.SQL = sql
	return c, true
}

// neutraliseDistinctAgg drops DISTINCT inside COUNT / SUM.
func neutraliseDistinctAgg(c c02Case, ev evaluation) (c02Case, bool) {
	if len(ev.w.Trace) < 2 {
		return c, false
	}
	sql, ok := rewrite(c.SQL, func(st ast.StmtNode) bool {
		changed := false
		for _, s := range selectsOf(st) {
			visit := func(x ast.ExprNode) {
				if a, ok := x.(*ast.AggregateFuncExpr); ok && a.Distinct {
					a.Distinct = false
					changed = true
				}
			}
			for _, fl := range s.Fields.Fields {
				if fl.Expr != nil {
					visit(fl.Expr)
				}
			}
			if s.OrderBy != nil {
				for _, it := range s.OrderBy.Items {
					visit(it.Expr)
				}
			}
		}
		return changed
	})
	if !ok {
		return c, false
	}
	c.SQL = sql
	return c, true
}

func deMapKey(s string) string {
	if s == "NULL" {
		return "NUL_"
	}
	return strings.ReplaceAll(s, "+", "_")
}

// neutraliseMapKey removes the two ingredients of a key-encoding collision
// from the data and from the statement's string literals: the string 'NULL'
// and the separator character '+'.
func neutraliseMapKey(c c02Case, ev evaluation) (c02Case, bool) {
	f := ev.feat
	if !(f.group || f.distinct || f.union) {
		return c, false
	}
	changed := false
	d := c.Data
	d.T = append([]shardsim.Row(nil), d.T...)
	for i := range d.T {
		if d.T[i].S != nil {
			if n := deMapKey(*d.T[i].S); n != *d.T[i].S {
				d.T[i].S = &n
				changed = true
			}
		}
	}
	d.TC = append([]shardsim.ChildRow(nil), d.TC...)
	for i := range d.TC {
		if d.TC[i].W != nil {
			if n := deMapKey(*d.TC[i].W); n != *d.TC[i].W {
				d.TC[i].W = &n
				changed = true
			}
		}
	}
	if !changed {
		return c, false
	}
	sql, ok := rewrite(c.SQL, func(st ast.StmtNode) bool {
		st.Accept(&literalRewriter{})
		return true
	})
	if !ok {
		return c, false
	}
	c.Data, c.SQL = d, sql
	return c, true
}

type literalRewriter struct{}

func (literalRewriter) Enter(n ast.Node) (ast.Node, bool) { return n, false }
func (literalRewriter) Leave(n ast.Node) (ast.Node, bool) {
	if v, ok := n.(*driver.ValueExpr); ok && v.Kind() == 5 /* KindString */ {
		if s := v.GetString(); deMapKey(s) != s {
			v.SetString(deMapKey(s))
		}
	}
	return n, true
}

// neutraliseGroupLimit removes LIMIT from GROUP BY selects, provided the
// pushed-down LIMIT actually cut some shard's answer.
func neutraliseGroupLimit(c c02Case, ev evaluation) (c02Case, bool) {
	if len(ev.w.Trace) < 2 {
		return c, false
	}
	sel, ok := ev.st.(*ast.SelectStmt)
	if !ok || sel.GroupBy == nil || sel.Limit == nil {
		return c, false
	}
	bound := ev.ref.Offset + ev.ref.Count
	cut := false
	for _, tr := range ev.w.Trace {
		if int64(tr.Rows) == bound {
			cut = true // this shard returned exactly offset+count rows: its LIMIT was binding
		}
	}
	if !cut {
		return c, false
	}
	sql, ok := rewrite(c.SQL, func(st ast.StmtNode) bool {
		st.(*ast.SelectStmt).Limit = nil
		return true
	})
	if !ok {
		return c, false
	}
	c.SQL = sql
	return c, true
}

// neutraliseRouteLT / neutraliseRouteNotBetween: the two routing defects
// inherited from C01 (see shardsim/routeclass.go): the tables the defect drops
// for this statement, when they were in fact not routed, are emptied.
func neutraliseRouteLT(c c02Case, ev evaluation) (c02Case, bool) {
	drop := ev.w.DroppedLT(ev.st)
	if len(drop) == 0 {
		return c, false
	}
	d, changed := ev.w.DropRows(c.Data, drop)
	c.Data = d
	return c, changed
}

func neutraliseRouteNotBetween(c c02Case, ev evaluation) (c02Case, bool) {
	drop := ev.w.DroppedNB(ev.st)
	if len(drop) == 0 {
		return c, false
	}
	d, changed := ev.w.DropRows(c.Data, drop)
	c.Data = d
	return c, changed
}

var neutralisers = []neutraliser{
	{fPosition, "positional GROUP BY / ORDER BY item", neutralisePositions},
	{fOrderAgg, "ORDER BY aggregate expression", neutraliseOrderAgg},
	{fDistinctAgg, "DISTINCT aggregate over several shards", neutraliseDistinctAgg},
	{fMapKey, "group / distinct key encoding collision", neutraliseMapKey},
	{fGroupLimit, "GROUP BY with LIMIT pushed to the shards", neutraliseGroupLimit},
	{fRouteLT, "calendar rule drops the bound's own period", neutraliseRouteLT},
	{fRouteNotBtw, "NOT BETWEEN with descending bounds drops tables", neutraliseRouteNotBetween},
}

func passes(c c02Case) bool {
	ev := evaluate(c)
	return ev.skip == "" && (ev.rejected != "" || ev.class == vOK)
}

// emptyRouteAggregate is finding F6's direct predicate: an aggregate query
// without GROUP BY whose route is empty (no statement reached any backend)
// answers with no row where a database answers with exactly one.
func emptyRouteAggregate(ev evaluation) bool {
	sel, ok := ev.st.(*ast.SelectStmt)
	return ok && ev.feat.agg && sel.GroupBy == nil && len(ev.w.Trace) == 0 &&
		ev.class == vRowCount && len(ev.got) == 0 && len(ev.ref.PreLimit) == 1
}

// disabled reports whether a finding's classifier is switched off
// (VERIF_C02_DISABLE=C02-F1,C02-F3: used to produce minimised witnesses and to
// test that an unlisted failure is reported).
func disabled(id string) bool {
	return strings.Contains(os.Getenv("VERIF_C02_DISABLE"), id)
}

func classifySelect(c c02Case, ev evaluation) (string, string) {
	if !disabled(fEmptyAgg) && emptyRouteAggregate(ev) {
		return fEmptyAgg, "aggregate without GROUP BY on an empty route"
	}
	type applied struct {
		n neutraliser
		c c02Case
	}
	var trig []applied
	for _, n := range neutralisers {
		if disabled(n.id) {
			continue
		}
		if nc, ok := n.apply(c, ev); ok {
			if passes(nc) {
				return n.id, n.what
			}
			trig = append(trig, applied{n, nc})
		}
	}
	if len(trig) < 2 {
		return "", ""
	}
	// several triggers: neutralise them one after the other
	cur, cev := c, ev
	var ids []string
	for _, n := range neutralisers {
		if disabled(n.id) {
			continue
		}
		nc, ok := n.apply(cur, cev)
		if !ok {
			continue
		}
		cur = nc
		ids = append(ids, n.id)
		cev = evaluate(cur)
		if cev.skip != "" {
			return "", ""
		}
		if cev.rejected != "" || cev.class == vOK {
			return ids[0], "combination of " + strings.Join(ids, "+")
		}
		if !disabled(fEmptyAgg) && emptyRouteAggregate(cev) {
			ids = append(ids, fEmptyAgg)
			return ids[0], "combination of " + strings.Join(ids, "+")
		}
	}
	return "", ""
}

// classify is classifySelect for one SELECT; for a UNION whose failure no
// union-level neutralisation explains, a branch that fails on its own with a
// known finding explains the union's failure.
func classify(c c02Case, ev evaluation) (string, string) {
	if id, what := classifySelect(c, ev); id != "" {
		return id, what
	}
	u, ok := ev.st.(*ast.UnionStmt)
	if !ok {
		return "", ""
	}
	for i, br := range u.SelectList.Selects {
		br.IsInBraces = false
		bc := c
		bc.SQL = restoreSQL(br)
		if bc.SQL == "" {
			continue
		}
		bev := evaluate(bc)
		if bev.skip != "" || bev.rejected != "" || bev.class == vOK {
			continue
		}
		if id, what := classifySelect(bc, bev); id != "" {
			return id, fmt.Sprintf("union branch %d: %s", i, what)
		}
	}
	return "", ""
}
