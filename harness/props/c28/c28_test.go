//go:build verif

// C28 Health checks mark nodes down and up according to the probe history.
//
//	replica  histories of health-check rounds (Slice.TryRecover with scripted
//	         probe, SHOW SLAVE STATUS and master state), breaker calls and clock
//	         advances under the injectable clock, judged step by step by the
//	         reference in internal/healthfix: down once no probe passed for
//	         down_after; down when the replication check (master up, probe passed)
//	         shows lag over the limit or a stopped thread; up again after a round
//	         with passing probe and healthy replication (recovery policies: C27);
//	         unchanged by a failed probe, by non-connection errors reported to
//	         TryFuse, and a round on one replica never changes another node.
//	master   (thorough tier only, real time) Slice.CheckStatus runs the real 4 s
//	         ticker loop over 48 slices with scripted probe results per tick; the
//	         master's status after each tick must follow the same rule, with a
//	         tolerance of one second on the down_after comparison.
package c28

import (
	"context"
	"fmt"
	"sync"
	"testing"
	"time"

	"github.com/XiaoMi/Gaea/backend"
	"github.com/XiaoMi/Gaea/log"
	"pgregory.net/rapid"
	"verifharness/internal/fakepool"
	hf "verifharness/internal/healthfix"
	"verifharness/internal/pbt"
)

func init() { log.SetGlobalLogger(fakepool.NullLogger{}) }

type histCase struct {
	Cfg hf.Config `json:"cfg"`
	Ops []hf.Op   `json:"ops"`
}

func genProbe(t *rapid.T, cfg hf.Config) hf.Probe {
	var p hf.Probe
	switch rapid.IntRange(0, 11).Draw(t, "probe") {
	case 0:
		p.GetCheck = "err"
	case 1:
		p.PingFail = rapid.IntRange(1, 5).Draw(t, "ping_fail")
	case 2:
		p.SelFail = rapid.IntRange(1, 5).Draw(t, "sel_fail")
	case 3:
		p.PingFail = 5
	}
	if cfg.HealthSQL {
		p.Health = rapid.SampledFrom([]string{"", "", "", "soft", "soft", "soft", "soft1ok", "shutdown", "ts_missing", "ts_discarded", "timeout"}).Draw(t, "health")
	}
	return p
}

func genRepl(t *rapid.T, cfg hf.Config) hf.Repl {
	var r hf.Repl
	switch rapid.SampledFrom([]int{0, 1, 2, 3, 4, 5, 5, 6, 7, 8, 9, 10, 11}).Draw(t, "repl") {
	case 0:
		r.Kind = "empty"
	case 1:
		r.Kind = "noprivilege"
	case 2:
		r.Kind = "error"
	case 3:
		r.Lag = int64(cfg.SBM) + int64(rapid.IntRange(-1, 1).Draw(t, "lag_edge"))
		if r.Lag < 0 {
			r.Lag = 0
		}
	case 4:
		r.Lag = int64(cfg.SBM) + int64(rapid.SampledFrom([]int{1, 2, 100, 100000}).Draw(t, "lag_over"))
	case 5: // NULL Seconds_Behind_Master: a stopped / connecting IO thread, a stopped SQL thread, both, or (not produced by MySQL) running threads
		r.Lag = -1
		switch rapid.IntRange(0, 4).Draw(t, "null_lag") {
		case 0:
			r.IO = rapid.SampledFrom([]string{"No", "Connecting"}).Draw(t, "io")
		case 1:
			r.SQL = "No"
		case 2:
			r.IO, r.SQL = "No", "No"
		case 3:
			r.IO, r.SQL = "Connecting", "Yes"
		}
	case 6:
		r.Lag, r.SQL = int64(rapid.IntRange(0, 3).Draw(t, "lag_small")), "No"
	default:
		r.Lag = int64(rapid.IntRange(0, max(1, cfg.SBM)).Draw(t, "lag"))
	}
	return r
}

func genReplica(t *rapid.T) histCase {
	var c histCase
	c.Cfg.Policy = rapid.SampledFrom([]string{"none", "none", "none", "hard", "gradual"}).Draw(t, "policy")
	c.Cfg.Cooldown = int64(rapid.SampledFrom([]int{4, 10, 30, 60}).Draw(t, "cooldown"))
	c.Cfg.FuseWindow = int64(rapid.IntRange(1, 8).Draw(t, "fuse_window"))
	c.Cfg.FuseMinErr = int64(rapid.IntRange(1, 3).Draw(t, "fuse_min_err"))
	c.Cfg.DownAfter = rapid.SampledFrom([]int{4, 5, 8, 12, 16, 32, 64}).Draw(t, "down_after")
	c.Cfg.SBM = rapid.SampledFrom([]int{0, 1, 10, 30, 30, 100}).Draw(t, "sbm")
	c.Cfg.HealthSQL = rapid.Bool().Draw(t, "health_sql")
	c.Cfg.StartDown = rapid.IntRange(0, 9).Draw(t, "start_down") == 0
	c.Cfg.Replicas = rapid.SampledFrom([]int{1, 1, 2, 3}).Draw(t, "replicas")
	n := rapid.IntRange(4, 16).Draw(t, "nops")
	// a history has a "weather": mostly fine, mostly failing, or mixed
	weather := rapid.SampledFrom([]int{0, 1, 2, 2, 2}).Draw(t, "weather")
	for i := 0; i < n; i++ {
		k := rapid.IntRange(0, 11).Draw(t, "op")
		node := 0
		if c.Cfg.Replicas > 1 {
			node = rapid.IntRange(0, c.Cfg.Replicas-1).Draw(t, "node")
		}
		switch {
		case k == 0:
			c.Ops = append(c.Ops, hf.Op{K: "adv", Dt: int64(rapid.SampledFrom([]int{1, 3, 4, 10, 40, 70}).Draw(t, "adv"))})
		case k == 1:
			c.Ops = append(c.Ops, hf.Op{K: "fuse", Node: node, Err: rapid.SampledFrom([]string{"conn", "conn", "sql", "generic", "nil"}).Draw(t, "err"),
				N: rapid.IntRange(1, 3).Draw(t, "nfuse"), Via: rapid.SampledFrom([]string{"", "getconn"}).Draw(t, "via")})
		default:
			op := hf.Op{K: "round", Node: node, N: rapid.IntRange(1, 5).Draw(t, "n"),
				Dt:     rapid.SampledFrom([]int64{4, 4, 4, 4, 0, 1, 3, 5, 8}).Draw(t, "dt"),
				Master: rapid.SampledFrom([]string{"", "", "", "", "", "", "down", "down", "missing"}).Draw(t, "master")}
			fine := weather == 0 && k < 10 || weather == 2 && k < 6
			if fine {
				if c.Cfg.HealthSQL && k%2 == 0 {
					op.Probe.Health = "soft"
				}
				op.Repl = hf.Repl{Lag: int64(rapid.IntRange(0, max(1, c.Cfg.SBM)).Draw(t, "lag_ok"))}
			} else {
				op.Probe = genProbe(t, c.Cfg)
				op.Repl = genRepl(t, c.Cfg)
			}
			c.Ops = append(c.Ops, op)
		}
	}
	return c
}

func checkReplica(c histCase) (o pbt.Outcome) {
	if c.Cfg.DownAfter <= 0 {
		o.Skip = "down_after must be positive (namespace.go replaces 0 by the default and rejects negatives)"
		return
	}
	tr := hf.Run(c.Cfg, c.Ops)
	if tr.Panic != "" {
		o.Violation = "runtime panic: " + tr.Panic
		return
	}
	if len(tr.Other) > 0 {
		o.Violation = tr.Other[0]
		return
	}
	seen := map[string]bool{}
	label := func(l string) {
		if !seen[l] {
			seen[l] = true
			o.Labels = append(o.Labels, l)
		}
	}
	label("policy_" + c.Cfg.Policy)
	label(fmt.Sprintf("replicas_%d", max(1, c.Cfg.Replicas)))
	forced := 0
	for _, st := range tr.Steps {
		label(st.Kind + ":" + st.Cat)
		if st.Kind == "round" && st.Before != st.After {
			if st.After {
				label("changed_to_up")
			} else {
				label("changed_to_down")
			}
			if !(st.AllowUp && st.AllowDown) {
				forced++
			}
		}
		if !st.Deviates() {
			continue
		}
		switch st.Cat {
		case "hard_gate", "hard_recover", "masterdown_gate":
			label("recovery_gate_deviation(C27):" + st.Cat)
			continue
		case "fuse_trigger", "fuse_below_threshold":
			label("breaker_count_deviation(C26):" + st.Cat)
			continue
		}
		o.Violation = fmt.Sprintf("policy %s, down_after %ds, limit %ds: %s", c.Cfg.Policy, c.Cfg.DownAfter, c.Cfg.SBM, st.String())
		return
	}
	for _, is := range tr.Issues {
		if is.Cat == "gradual_never_recovers" {
			o.Violation = "gradual policy: " + is.Detail
			return
		}
	}
	o.NonTrivial = forced >= 1
	return
}

func TestC28Replica(t *testing.T) {
	pbt.Run(t, pbt.Spec{ID: "C28", Sub: "replica", Quick: 40000, Thorough: 200000,
		Rule: "no-recovery (60%), hard and gradual replicas in a group of 1-3 (ops address a random replica, reference state per replica, a step on one replica must not change another); down_after 4-64 s, lag limit 0 (off) / 1-100 s, with and without a health statement; 4-16 ops (up to ~80 rounds) of: rounds at 0-8 s steps with probe outcome (ok, no check connection, ping / select 1 failing at one repeat or always, health statement ok / ordinary error / each fatal class / timeout), SHOW SLAVE STATUS (lag around the limit, stopped IO/SQL thread, NULL lag with stopped / connecting / running threads, empty, no privilege, error), master up/down/missing; clock jumps; breaker calls of every error kind; non-trivial = at least one round in which the reference forces a status change",
		Floor: 0.5}, genReplica, checkReplica)
}

// ---- master loop, real time (thorough tier) ----

type masterScript struct {
	DownAfter int    `json:"down_after"`
	Pass      []bool `json:"pass"` // probe outcome per tick
}

type masterCase struct {
	Slices []masterScript `json:"slices"`
}

func genMaster(t *rapid.T) masterCase {
	var c masterCase
	for i := 0; i < 48; i++ {
		s := masterScript{DownAfter: rapid.SampledFrom([]int{2, 6, 10, 14}).Draw(t, "down_after")}
		for k := 0; k < 6; k++ {
			s.Pass = append(s.Pass, rapid.IntRange(0, 2).Draw(t, "pass") == 0)
		}
		c.Slices = append(c.Slices, s)
	}
	return c
}

type masterObs struct {
	mu     sync.Mutex
	tick   int
	at     []int64 // unix second at which tick k's probe started
	status []bool  // master status observed when tick k's probe started (= result of ticks < k)
	done   chan struct{}
}

func checkMaster(c masterCase) (o pbt.Outcome) {
	if pbt.Tier() != "thorough" {
		o.Skip = "real-time master loop is sampled in the thorough tier only"
		return
	}
	o = runMaster(c)
	if o.Violation != "" {
		// wall-clock check: a miss counts only if it reproduces (DESIGN C28)
		first := o.Violation
		o = runMaster(c)
		if o.Violation == "" && o.Skip == "" {
			o = pbt.Outcome{Skip: "master-loop miss not reproduced on the second run (scheduling delay?): " + first}
		}
	}
	return
}

func runMaster(c masterCase) (o pbt.Outcome) {
	backend.VerifSetClock(nil) // real time
	ctx, cancel := context.WithCancel(context.Background())
	defer cancel()
	obs := make([]*masterObs, len(c.Slices))
	pools := make([]*fakepool.Pool, len(c.Slices))
	nodes := make([]*backend.NodeInfo, len(c.Slices))
	start := time.Now().Unix()
	for i := range c.Slices {
		i := i
		sc := c.Slices[i]
		ob := &masterObs{done: make(chan struct{})}
		obs[i] = ob
		p := fakepool.New(fmt.Sprintf("10.2.0.%d:3306", i+1), &fakepool.Options{Clock: func() int64 { return time.Now().Unix() }})
		p.SetLastCheckedAt(start)
		pools[i] = p
		s := fakepool.MasterSlice("c28m", p)
		nodes[i] = s.Master.Nodes[0]
		p.OnGetCheck = func(_ *fakepool.Pool, n int) error {
			ob.mu.Lock()
			defer ob.mu.Unlock()
			k := ob.tick
			ob.tick++
			if k <= len(sc.Pass) {
				ob.at = append(ob.at, time.Now().Unix())
				ob.status = append(ob.status, nodes[i].IsStatusUp())
			}
			if k == len(sc.Pass) {
				close(ob.done)
			}
			if k < len(sc.Pass) && sc.Pass[k] {
				return nil
			}
			return fmt.Errorf("scripted probe failure")
		}
		s.CheckStatus(ctx, sc.DownAfter, 0)
	}
	deadline := time.After(time.Duration(4*(6+3)) * time.Second)
	for _, ob := range obs {
		select {
		case <-ob.done:
		case <-deadline:
			o.Skip = "a master loop did not reach its 7th tick within 36 s (machine overloaded?)"
			return
		}
	}
	cancel()
	changes := 0
	for i, sc := range c.Slices {
		ob := obs[i]
		ob.mu.Lock()
		at, status := ob.at, ob.status
		ob.mu.Unlock()
		tOK := start
		up := true
		for k := 0; k < len(sc.Pass); k++ {
			// reference for tick k executed at at[k]; observed = status[k+1]
			allowUp, allowDown := false, false
			if sc.Pass[k] {
				tOK = at[k]
				allowUp = true // a passing probe: up (0 < down_after)
				// the probe may complete in the next wall-clock second
			} else {
				el := at[k] - tOK
				switch {
				case el >= int64(sc.DownAfter)+1:
					allowDown = true
				case el <= int64(sc.DownAfter)-2:
					allowUp, allowDown = up, !up
				default: // within one second of the threshold: either
					allowDown = true
					allowUp = up
				}
			}
			got := status[k+1]
			if (got && !allowUp) || (!got && !allowDown) {
				o.Violation = fmt.Sprintf("master loop slice %d (down_after %ds, script %v): after tick %d at +%ds (last passing probe at +%ds) the master is %s, before it was %s; tick times %v",
					i, sc.DownAfter, sc.Pass, k, at[k]-start, tOK-start, updown(got), updown(up), rel(at, start))
				return
			}
			if got != up {
				changes++
			}
			up = got
		}
	}
	o.NonTrivial = changes > 0
	o.Labels = append(o.Labels, fmt.Sprintf("status_changes_%02d_plus", changes/10*10))
	return
}

func updown(b bool) string {
	if b {
		return "up"
	}
	return "down"
}

func rel(at []int64, start int64) []int64 {
	r := make([]int64, len(at))
	for i, v := range at {
		r[i] = v - start
	}
	return r
}

func TestC28Master(t *testing.T) {
	pbt.Run(t, pbt.Spec{ID: "C28", Sub: "master", Quick: 0, Thorough: 1,
		Rule: "thorough tier only, wall clock: one case = 48 slices whose real checkBackendMasterStatus loops (4 s ticker) see a scripted 6-tick pass/fail history with down_after 2-14 s; the status sampled at the start of the next tick must be up after a passing probe, down once no probe passed for down_after (one second tolerance), unchanged otherwise; non-trivial = at least one status change",
		Floor: 0}, genMaster, checkMaster)
}
