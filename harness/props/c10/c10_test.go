//go:build verif

// C10 Accepted configurations load and give an unambiguous routing table.
//
// Every configuration models.Namespace.Verify accepts must be loadable
// (router.NewRouter and server.NewNamespace succeed), every configured rule
// must be present in the loaded routing table, each physical table of a rule
// must be listed once and map to exactly one valid slice, and the sharding
// function of hash / mod / range / mycat rules must only name listed tables.
package c10

import (
	"fmt"
	"math"
	"os"
	"regexp"
	"runtime"
	"sort"
	"strconv"
	"strings"
	"testing"
	"time"

	"github.com/XiaoMi/Gaea/models"
	"github.com/XiaoMi/Gaea/proxy/router"
	"github.com/XiaoMi/Gaea/proxy/server"
	"pgregory.net/rapid"
	"verifharness/internal/nsgen"
	"verifharness/internal/pbt"
)

func TestMain(m *testing.M) {
	nsgen.Quiet()
	os.Exit(m.Run())
}

type c10Case struct {
	NS        *models.Namespace `json:"ns"`
	Mutations []string          `json:"mutations"`
	Keys      []int64           `json:"keys"`
	StrKeys   []string          `json:"str_keys"`
}

func genCase(t *rapid.T) c10Case {
	c := c10Case{NS: nsgen.Valid(t, "ns_c10")}
	// about half stay valid by construction, the rest get 1-3 edits
	switch rapid.IntRange(0, 5).Draw(t, "n_mut") {
	case 0, 1, 2:
	case 3, 4:
		c.Mutations = append(c.Mutations, nsgen.Mutate(t, c.NS, "m0"))
	default:
		n := rapid.IntRange(2, 3).Draw(t, "n_mut2")
		for i := 0; i < n; i++ {
			c.Mutations = append(c.Mutations, nsgen.Mutate(t, c.NS, fmt.Sprintf("m%d", i)))
		}
	}
	c.Keys = rapid.SliceOfN(rapid.Int64Range(-1<<40, 1<<40), 0, 4).Draw(t, "keys")
	c.StrKeys = rapid.SliceOfN(rapid.StringMatching(`[0-9a-zA-Z_\-]{0,24}`), 0, 3).Draw(t, "str_keys")
	return c
}

// ---- reference model of a rule's table layout, from the configuration manual ----

type layout struct {
	regular bool        // the configuration is one the manual describes; the table below is then authoritative
	idx     []int       // sub-table indexes in order
	slice   map[int]int // table index -> position in the rule's slice list
	dbs     []string    // mycat / global with databases: physical database per index
	dbsOK   bool
}

var reDBRange = regexp.MustCompile(`^(\S+?)\[(\d+)-(\d+)\]$`)

// expandDatabases: "name" is one database, "prefix[a-b]" with a<b is prefix+a ... prefix+b.
func expandDatabases(dbs []string) ([]string, bool) {
	var out []string
	for _, d := range dbs {
		m := reDBRange.FindStringSubmatch(d)
		if m == nil {
			out = append(out, d)
			continue
		}
		a, e1 := strconv.Atoi(m[2])
		b, e2 := strconv.Atoi(m[3])
		if e1 != nil || e2 != nil || b <= a || b-a > 4096 {
			return nil, false
		}
		for i := a; i <= b; i++ {
			out = append(out, m[1]+strconv.Itoa(i))
		}
	}
	return out, true
}

var (
	reYear  = regexp.MustCompile(`^\d{4}$`)
	reMonth = regexp.MustCompile(`^\d{6}$`)
	reDay   = regexp.MustCompile(`^\d{8}$`)
)

func expandDate(typ, s string) ([]int, bool) {
	parts := strings.Split(s, "-")
	if len(parts) > 2 {
		return nil, false
	}
	re := map[string]*regexp.Regexp{models.ShardYear: reYear, models.ShardMonth: reMonth, models.ShardDay: reDay}[typ]
	var v []int
	for _, p := range parts {
		if !re.MatchString(p) {
			return nil, false
		}
		n, _ := strconv.Atoi(p)
		switch typ {
		case models.ShardYear:
			if n < 1 {
				return nil, false
			}
		case models.ShardMonth:
			if n%100 < 1 || n%100 > 12 {
				return nil, false
			}
		default:
			y, m, d := n/10000, n/100%100, n%100
			tm := time.Date(y, time.Month(m), d, 0, 0, 0, 0, time.UTC)
			if m < 1 || m > 12 || tm.Year() != y || int(tm.Month()) != m || tm.Day() != d {
				return nil, false
			}
		}
		v = append(v, n)
	}
	if len(v) == 1 {
		return v, true
	}
	a, b := v[0], v[1]
	if b < a {
		a, b = b, a
	}
	var out []int
	switch typ {
	case models.ShardYear:
		if b-a > 2000 {
			return nil, false
		}
		for y := a; y <= b; y++ {
			out = append(out, y)
		}
	case models.ShardMonth:
		for y, m := a/100, a%100; y*100+m <= b; {
			out = append(out, y*100+m)
			if m++; m > 12 {
				m = 1
				y++
			}
			if len(out) > 100000 {
				return nil, false
			}
		}
	default:
		tm := time.Date(a/10000, time.Month(a/100%100), a%100, 0, 0, 0, 0, time.UTC)
		for {
			n := tm.Year()*10000 + int(tm.Month())*100 + tm.Day()
			if n > b {
				break
			}
			out = append(out, n)
			tm = tm.AddDate(0, 0, 1)
			if len(out) > 100000 {
				return nil, false
			}
		}
	}
	return out, true
}

func isMycat(t string) bool {
	switch t {
	case models.ShardMycatMod, models.ShardMycatLong, models.ShardMycatString, models.ShardMycatMURMUR, models.ShardMycatPaddingMod:
		return true
	}
	return false
}

func refLayout(r *models.Shard) layout {
	l := layout{slice: map[int]int{}}
	switch r.Type {
	case models.ShardYear, models.ShardMonth, models.ShardDay:
		if len(r.DateRange) != len(r.Slices) || len(r.Slices) == 0 {
			return l
		}
		for i, dr := range r.DateRange {
			v, ok := expandDate(r.Type, dr)
			if !ok {
				return l
			}
			if len(l.idx) > 0 && v[0] <= l.idx[len(l.idx)-1] {
				return l // overlapping / descending: not a described configuration
			}
			for _, x := range v {
				l.idx = append(l.idx, x)
				l.slice[x] = i
			}
		}
		l.regular = true
	default:
		if len(r.Locations) != len(r.Slices) || len(r.Slices) == 0 {
			return l
		}
		n := 0
		for i, c := range r.Locations {
			if c < 0 {
				return l
			}
			for j := 0; j < c; j++ {
				l.idx = append(l.idx, n)
				l.slice[n] = i
				n++
			}
		}
		if n == 0 {
			return l
		}
		l.regular = true
	}
	if isMycat(r.Type) || r.Type == models.ShardGlobal && len(r.Databases) > 0 {
		l.dbs, l.dbsOK = expandDatabases(r.Databases)
		if !l.dbsOK || len(l.dbs) != len(l.idx) {
			l.dbsOK = false
		}
	}
	return l
}

// ---- failures and their classification ----

type failure struct {
	kind   string // load_router, load_namespace, load_panic, rule_missing, rule_replaced, empty_tables, dup_index, bad_slice, layout, db_per_index, dup_physical, find_unlisted, find_runtime_panic, linked
	rule   int    // index into ShardRules, -1 for namespace-level failures
	detail string
}

func (f failure) String() string {
	if f.rule >= 0 {
		return fmt.Sprintf("%s (rule #%d): %s", f.kind, f.rule, f.detail)
	}
	return fmt.Sprintf("%s: %s", f.kind, f.detail)
}

// caseClash reports whether rule i has a sibling (same db) whose table equals
// its own when lower-cased but is spelled differently.
func caseClash(ns *models.Namespace, i int) bool {
	for j, o := range ns.ShardRules {
		if j != i && o.DB == ns.ShardRules[i].DB && o.Table != ns.ShardRules[i].Table &&
			strings.ToLower(o.Table) == strings.ToLower(ns.ShardRules[i].Table) {
			return true
		}
	}
	return false
}

// classify maps a failure to the id of the open finding whose root cause it
// matches (narrowly), or "".  Only C10-F1 and C10-F4 are open; every other
// failure - including a recurrence of a repaired defect - is a violation.
func classify(ns *models.Namespace, f failure) string {
	load := f.kind == "load_router" || f.kind == "load_namespace"
	if load && ns.DefaultSlice == "" && strings.Contains(f.detail, "default slice[] not in the slice list") {
		return "C10-F1"
	}
	if f.rule < 0 || f.kind != "find_runtime_panic" {
		return ""
	}
	r := ns.ShardRules[f.rule]
	if r.Type == models.ShardMycatPaddingMod && strings.Contains(f.detail, "slice bounds out of range") {
		pl, e1 := strconv.Atoi(r.PadLength)
		me, e2 := strconv.Atoi(r.ModEnd)
		if e1 == nil && e2 == nil && pl < me {
			return "C10-F4"
		}
	}
	return ""
}

// ---- the check ----

type caught struct {
	runtimeErr string // Go runtime panic (index out of range, divide by zero, ...)
	other      string // deliberate panic (router.KeyError or a string)
}

func guard(f func()) (c caught) {
	defer func() {
		if r := recover(); r != nil {
			if re, ok := r.(runtime.Error); ok {
				c.runtimeErr = re.Error()
			} else {
				c.other = fmt.Sprint(r)
			}
		}
	}()
	f()
	return
}

func sampleKeys(c c10Case) []interface{} {
	keys := []interface{}{int64(0), int64(1), int64(-1), int64(7), int64(1023), int64(1024), int64(1025), int64(12345678901),
		int64(math.MaxInt64), int64(-99999), uint64(5), uint64(1 << 40), int(9), "0", "17", "-3", "abc", "", "2016-03-05", "1234567890123456789", "héllo"}
	for _, k := range c.Keys {
		keys = append(keys, k)
	}
	for _, k := range c.StrKeys {
		keys = append(keys, k)
	}
	return keys
}

func hasUpper(s string) bool { return strings.ToLower(s) != s }

// features lists the unusual features of an accepted configuration.
func features(ns *models.Namespace) []string {
	set := map[string]bool{}
	if ns.DefaultSlice == "" {
		set["feat_default_slice_empty"] = true
	}
	for _, s := range ns.Slices {
		if strings.TrimSpace(s.Name) != s.Name {
			set["feat_slice_name_space"] = true
		}
	}
	for i, r := range ns.ShardRules {
		if r.Type == models.ShardLinked {
			for j := i + 1; j < len(ns.ShardRules); j++ {
				if o := ns.ShardRules[j]; o.DB == r.DB && strings.EqualFold(o.Table, r.ParentTable) {
					set["feat_child_before_parent"] = true
				}
			}
		}
		for _, l := range r.Locations {
			if l == 0 {
				set["feat_location_zero"] = true
			}
			if l < 0 {
				set["feat_location_negative"] = true
			}
		}
		if hasUpper(r.Table) || hasUpper(r.ParentTable) || hasUpper(r.Key) {
			set["feat_upper_case_name"] = true
		}
		if caseClash(ns, i) {
			set["feat_case_variant_pair"] = true
		}
		for _, d := range r.Databases {
			if reDBRange.MatchString(d) {
				set["feat_db_range_syntax"] = true
			}
		}
		if len(r.Databases) > 0 && !isMycat(r.Type) && r.Type != models.ShardGlobal {
			set["feat_db_list_on_plain_rule"] = true
		}
		for _, d := range r.DateRange {
			p := strings.Split(d, "-")
			if len(p) == 2 && p[1] < p[0] {
				set["feat_date_span_reversed"] = true
			}
		}
		if strings.ContainsAny(r.PartitionCount+r.PartitionLength, " ") {
			set["feat_partition_spaces"] = true
		}
	}
	var out []string
	for k := range set {
		out = append(out, k)
	}
	sort.Strings(out)
	return out
}

// inspect loads an accepted configuration and returns every failure found.
func inspect(c c10Case, accepted *models.Namespace) (fails []failure, labels []string) {
	add := func(kind string, rule int, f string, a ...interface{}) {
		fails = append(fails, failure{kind, rule, fmt.Sprintf(f, a...)})
	}
	// (i) loadable
	var rt *router.Router
	var err error
	if g := guard(func() { rt, err = router.NewRouter(nsgen.Copy(accepted)) }); g.runtimeErr != "" || g.other != "" {
		add("load_panic", -1, "router.NewRouter panicked: %s%s", g.runtimeErr, g.other)
		return
	}
	if err != nil {
		add("load_router", -1, "Verify accepted the configuration but router.NewRouter fails: %v", err)
		return
	}
	var sn *server.Namespace
	if g := guard(func() { sn, err = server.NewNamespace(nsgen.Copy(accepted), "dc1") }); g.runtimeErr != "" || g.other != "" {
		add("load_panic", -1, "server.NewNamespace panicked: %s%s", g.runtimeErr, g.other)
		return
	}
	if err != nil {
		add("load_namespace", -1, "Verify accepted the configuration but server.NewNamespace fails: %v", err)
		return
	}
	sn.Close(false)
	labels = append(labels, "loaded")

	sliceNames := map[string]bool{}
	for _, s := range accepted.Slices {
		sliceNames[s.Name] = true
	}
	keys := sampleKeys(c)

	for ri, cfg := range accepted.ShardRules {
		r, ok := rt.GetShardRule(cfg.DB, strings.ToLower(cfg.Table))
		if !ok {
			add("rule_missing", ri, "rule for %s.%s is not in the loaded routing table", cfg.DB, cfg.Table)
			continue
		}
		if cfg.Type == models.ShardLinked {
			labels = append(labels, "rule_linked")
			if !r.IsLinkedRule() {
				add("linked", ri, "linked rule %s.%s was loaded as a %s rule", cfg.DB, cfg.Table, r.GetType())
				continue
			}
			parent, pok := rt.GetShardRule(cfg.DB, strings.ToLower(cfg.ParentTable))
			if !pok || parent.IsLinkedRule() {
				add("linked", ri, "parent %s of linked rule %s.%s is missing or linked in the routing table", cfg.ParentTable, cfg.DB, cfg.Table)
				continue
			}
			if fmt.Sprint(r.GetSubTableIndexes()) != fmt.Sprint(parent.GetSubTableIndexes()) || r.GetType() != parent.GetType() {
				add("linked", ri, "linked rule %s.%s does not share its parent's tables", cfg.DB, cfg.Table)
			}
			continue
		}
		labels = append(labels, "rule_"+cfg.Type)
		if r.IsLinkedRule() || r.GetType() != cfg.Type {
			kind := r.GetType()
			if r.IsLinkedRule() {
				kind = "linked->" + kind
			}
			add("rule_replaced", ri, "configured %s rule %s.%s is answered by a %s rule in the routing table", cfg.Type, cfg.DB, cfg.Table, kind)
			continue
		}
		// (ii) tables listed once, each on exactly one valid slice
		idx := r.GetSubTableIndexes()
		if len(idx) == 0 {
			add("empty_tables", ri, "%s rule %s.%s (locations %v, slices %v) loads with no physical table at all", cfg.Type, cfg.DB, cfg.Table, cfg.Locations, cfg.Slices)
			continue
		}
		ref := refLayout(cfg)
		seen := map[int]bool{}
		listed := map[int]bool{}
		bad := false
		for _, ti := range idx {
			listed[ti] = true
			if seen[ti] {
				add("dup_index", ri, "%s rule %s.%s (locations %v): physical table index %d is listed twice in %v", cfg.Type, cfg.DB, cfg.Table, cfg.Locations, ti, idx)
				bad = true
				break
			}
			seen[ti] = true
			si := r.GetSliceIndexFromTableIndex(ti)
			slices := r.GetSlices()
			if si < 0 || si >= len(slices) || !sliceNames[slices[si]] {
				add("bad_slice", ri, "%s rule %s.%s: table index %d maps to slice index %d of %v", cfg.Type, cfg.DB, cfg.Table, ti, si, slices)
				bad = true
				break
			}
			var gs string
			if g := guard(func() { gs = r.GetSlice(si) }); g.runtimeErr != "" || gs != slices[si] {
				add("bad_slice", ri, "%s rule %s.%s: GetSlice(%d)=%q %s", cfg.Type, cfg.DB, cfg.Table, si, gs, g.runtimeErr)
				bad = true
				break
			}
			if ref.regular {
				want := cfg.Slices[ref.slice[ti]]
				if cfg.Type == models.ShardGlobal {
					// a global rule answers with the namespace's slice list; the position must still be the configured one
					want = slices[ref.slice[ti]]
				}
				if _, known := ref.slice[ti]; !known || slices[si] != want {
					add("layout", ri, "%s rule %s.%s (locations %v, ranges %v, slices %v): table index %d is on slice %q, the configuration puts it on %q",
						cfg.Type, cfg.DB, cfg.Table, cfg.Locations, cfg.DateRange, cfg.Slices, ti, slices[si], want)
					bad = true
					break
				}
			}
		}
		if bad {
			continue
		}
		if ref.regular {
			labels = append(labels, "layout_compared")
			if fmt.Sprint(idx) != fmt.Sprint(ref.idx) {
				add("layout", ri, "%s rule %s.%s (locations %v, ranges %v): loaded table indexes %v, configuration describes %v", cfg.Type, cfg.DB, cfg.Table, cfg.Locations, cfg.DateRange, idx, ref.idx)
				continue
			}
			if r.GetFirstTableIndex() != ref.idx[0] || r.GetLastTableIndex() != ref.idx[len(ref.idx)-1] {
				add("layout", ri, "%s rule %s.%s: first/last table index %d/%d, want %d/%d", cfg.Type, cfg.DB, cfg.Table, r.GetFirstTableIndex(), r.GetLastTableIndex(), ref.idx[0], ref.idx[len(ref.idx)-1])
				continue
			}
		}
		// one physical database per index (mycat and global rules)
		if isMycat(cfg.Type) || cfg.Type == models.ShardGlobal {
			phys := map[string]int{}
			for pos, ti := range idx {
				var db string
				var derr error
				g := guard(func() { db, derr = r.GetDatabaseNameByTableIndex(ti) })
				if g.runtimeErr != "" || derr != nil {
					add("db_per_index", ri, "%s rule %s.%s (databases %v): no physical database for table index %d: %v %s", cfg.Type, cfg.DB, cfg.Table, cfg.Databases, ti, derr, g.runtimeErr)
					bad = true
					break
				}
				if ref.regular && ref.dbsOK && db != ref.dbs[pos] {
					add("db_per_index", ri, "%s rule %s.%s (databases %v): table index %d is in database %q, the configuration says %q", cfg.Type, cfg.DB, cfg.Table, cfg.Databases, ti, db, ref.dbs[pos])
					bad = true
					break
				}
				if cfg.Type == models.ShardGlobal && len(cfg.Databases) == 0 && db != cfg.DB {
					add("db_per_index", ri, "global rule %s.%s without databases: table index %d is in database %q", cfg.DB, cfg.Table, ti, db)
					bad = true
					break
				}
				if isMycat(cfg.Type) {
					key := fmt.Sprintf("%s\x00%s", r.GetSlices()[r.GetSliceIndexFromTableIndex(ti)], db)
					if prev, dup := phys[key]; dup {
						add("dup_physical", ri, "%s rule %s.%s (databases %v): physical table %s.%s on slice %s is listed twice (table indexes %d and %d)",
							cfg.Type, cfg.DB, cfg.Table, cfg.Databases, db, cfg.Table, r.GetSlices()[r.GetSliceIndexFromTableIndex(ti)], prev, ti)
						bad = true
						break
					}
					phys[key] = ti
				} else if len(cfg.Databases) > 0 {
					// a global rule with an explicit database list: Verify has no duplicate test for it
					// (verifyGlobalTableRuleSliceInfos); observed and counted, not judged here
					key := fmt.Sprintf("%s\x00%s", r.GetSlices()[r.GetSliceIndexFromTableIndex(ti)], db)
					if _, dup := phys[key]; dup {
						labels = append(labels, "obs_global_rule_duplicate_database")
					}
					phys[key] = ti
				}
			}
			if bad {
				continue
			}
		}
		// (iii) the sharding function only names listed tables
		switch cfg.Type {
		case models.ShardHash, models.ShardMod, models.ShardRange, models.ShardMycatMod, models.ShardMycatLong,
			models.ShardMycatString, models.ShardMycatMURMUR, models.ShardMycatPaddingMod:
			named := 0
			for _, k := range keys {
				var ti int
				var ferr error
				g := guard(func() { ti, ferr = r.FindTableIndex(k) })
				if g.runtimeErr != "" {
					add("find_runtime_panic", ri, "%s rule %s.%s (locations %v pad_length %q mod_begin %q mod_end %q): FindTableIndex(%T %v) dies with a Go runtime error: %s",
						cfg.Type, cfg.DB, cfg.Table, cfg.Locations, cfg.PadLength, cfg.ModBegin, cfg.ModEnd, k, k, g.runtimeErr)
					break
				}
				if g.other != "" || ferr != nil {
					continue // deliberate rejection of the key
				}
				named++
				if !listed[ti] {
					add("find_unlisted", ri, "%s rule %s.%s (locations %v): FindTableIndex(%T %v) names table %d, listed tables are %v", cfg.Type, cfg.DB, cfg.Table, cfg.Locations, k, k, ti, idx)
					break
				}
			}
			if named > 0 {
				labels = append(labels, "keys_routed")
			}
		}
	}
	return
}

func checkCase(c c10Case) (o pbt.Outcome) {
	if c.NS == nil {
		o.Skip = "no namespace in case"
		return
	}
	for _, m := range c.Mutations {
		o.Labels = append(o.Labels, "mut_"+m)
	}
	if len(c.Mutations) == 0 {
		o.Labels = append(o.Labels, "built_valid")
	}
	work := nsgen.Copy(c.NS)
	var verr error
	if g := guard(func() { verr = work.Verify() }); g.runtimeErr != "" || g.other != "" {
		// validation itself crashed: the configuration was not accepted (the HTTP layer answers 500)
		o.Labels = append(o.Labels, "verify_panicked")
		return
	}
	if verr != nil {
		o.Labels = append(o.Labels, "verify_rejected")
		if len(c.Mutations) == 0 {
			o.Violation = fmt.Sprintf("harness: configuration built to be valid is rejected by Verify: %v", verr)
		}
		return
	}
	o.Labels = append(o.Labels, "verify_accepted")
	feats := features(work)
	o.Labels = append(o.Labels, feats...)
	o.NonTrivial = len(work.ShardRules) >= 1 && len(feats) >= 1

	var all []failure
	fails, labels := inspect(c, work)
	all = append(all, fails...)
	o.Labels = append(o.Labels, labels...)
	// look behind the empty-default-slice finding: repair it and inspect the rest
	if len(fails) == 1 && classify(work, fails[0]) == "C10-F1" && len(work.Slices) > 0 {
		rep := nsgen.Copy(work)
		rep.DefaultSlice = rep.Slices[0].Name
		if rep.Verify() == nil {
			f2, l2 := inspect(c, rep)
			all = append(all, f2...)
			o.Labels = append(o.Labels, l2...)
		}
	}
	if len(all) == 0 {
		return
	}
	var known *failure
	var knownID string
	for i := range all {
		id := classify(work, all[i])
		if id == "" {
			o.Violation = all[i].String()
			o.Labels = append(o.Labels, "fail_"+all[i].kind)
			return
		}
		if known == nil {
			known, knownID = &all[i], id
		}
	}
	o.Known, o.KnownWhat = knownID, known.String()
	o.Labels = append(o.Labels, "known_"+knownID)
	return
}

func TestC10Configs(t *testing.T) {
	pbt.Run(t, pbt.Spec{ID: "C10", Sub: "configs", Quick: 5000, Thorough: 30000,
		Rule:  "namespace configurations built valid field by field (list entries in permuted order: linked children before their parents, databases interleaved; 1-4 slices, users, 0-5 rules of all 12 types + linked, database lists with prefix[a-b] ranges, calendar ranges incl. reversed spans and year ends, partition parameters) and, for half of them, 1-3 realistic edits (zero/negative/mismatched locations, case variants of table and parent names, bad database lists, database lists whose entries are equal as written or only after expansion - range+name, overlapping ranges, differently spelled ranges -, overlapping dates, consecutive calendar ranges that share exactly their boundary period, wrong partition sums, ...); non-trivial = accepted by Verify, >= 1 shard rule and >= 1 unusual feature (zero/negative location, upper-case or case-variant name, range syntax, reversed span, empty default slice, padded slice name)",
		Floor: 0.25}, genCase, checkCase)
}
