//go:build verif

// C17, end-to-end sub-check ("e2e"): a client with CLIENT_MULTI_STATEMENTS on a
// namespace with support_multi_query sends one COM_QUERY holding several
// statements. The simulated backend must receive exactly the non-empty pieces,
// in order, each unchanged (up to surrounding whitespace and trailing semicolons, which a
// MySQL server strips itself), and nothing after
// the first piece that is scripted to fail; the client must see one result per
// executed piece, in order, then the error. The pieces are known by
// construction; semicolons are placed inside single/double-quoted strings,
// backquoted identifiers and the three comment forms.
package c17

import (
	"fmt"
	"regexp"
	"strings"
	"sync/atomic"
	"testing"
	"time"

	"github.com/XiaoMi/Gaea/models"
	"pgregory.net/rapid"

	"verifharness/internal/fakemysql"
	"verifharness/internal/pbt"
	"verifharness/internal/proxyfix"
	"verifharness/internal/rawclient"
)

// e2ePiece is one statement of the text. Text contains the placeholder @TAG@
// exactly once, inside a single-quoted literal; check replaces it by a tag that
// is unique for the case and the piece.
type e2ePiece struct {
	Text string `json:"text"`
	Kind string `json:"kind"` // "select" (result set) or "dml" (OK packet)
}

// e2eSep is the text between two pieces: Before belongs to the piece in front
// of it (whitespace, comments), then the separator ';', then zero or more empty
// pieces (blank or comment-only, each closed by its own ';'), then After, which
// belongs to the following piece. Without Semi (last separator only) the text
// is just Before.
type e2eSep struct {
	Before  string   `json:"before"`
	Semi    bool     `json:"semi"`
	Empties []string `json:"empties"`
	After   string   `json:"after"`
}

func (s e2eSep) text() string {
	if !s.Semi {
		return s.Before
	}
	var b strings.Builder
	b.WriteString(s.Before)
	b.WriteString(";")
	for _, e := range s.Empties {
		b.WriteString(e)
		b.WriteString(";")
	}
	b.WriteString(s.After)
	return b.String()
}

type e2eCase struct {
	Pieces []e2ePiece `json:"pieces"`
	// Seps[i] follows piece i; every separator but the last has Semi set. The
	// After of the last separator must be blank or comment-only (it is no statement).
	Seps []e2eSep `json:"seps"`
	// Lead precedes the first piece: Before is ignored, Semi says whether it starts with empty pieces.
	Lead e2eSep `json:"lead"`
	Fail int    `json:"fail"` // index of the piece the backend answers with an error, -1 = none
}

var e2eHidden = []string{"';'", "'a;b'", "'x'';y'", "'\\';'", "'a\\\\'", "\";\"", "\"a;'b\"", "'--;'", "'/*;*/'", "'#;'", "';;;'", "'q\"; w'"}
var e2ePlain = []string{"1", "42", "'v'", "3.5", "\"d\""}
var e2eIdent = []string{"t1", "tbl", "`t;1`", "`a;b`", "`x``;y`", "`semi;`"}
var e2eCol = []string{"a", "c1", "`c;1`", "`;`"}
var e2eGlue = []string{" ", " ", "  ", "\n", "\t", " /*;*/ ", " /* a;b ' */ ", " /* \" ; */ ", " -- ;\n", " -- it's; \n", " #;\n", " # \";\n"}

func genE2EVal(t *rapid.T, label string) string {
	if rapid.IntRange(0, 2).Draw(t, label+"_hk") > 0 {
		return rapid.SampledFrom(e2eHidden).Draw(t, label+"_h")
	}
	return rapid.SampledFrom(e2ePlain).Draw(t, label+"_p")
}

func genE2EPiece(t *rapid.T) e2ePiece {
	g := func(label string) string {
		if rapid.IntRange(0, 3).Draw(t, label+"_gk") == 0 {
			return rapid.SampledFrom(e2eGlue).Draw(t, label)
		}
		return " "
	}
	tbl := rapid.SampledFrom(e2eIdent).Draw(t, "tbl")
	col := rapid.SampledFrom(e2eCol).Draw(t, "col")
	v1, v2 := genE2EVal(t, "v1"), genE2EVal(t, "v2")
	var toks []string
	kind := "dml"
	switch rapid.IntRange(0, 4).Draw(t, "tm") {
	case 0:
		kind = "select"
		toks = []string{"select", v1, ",", "'@TAG@'", "from", tbl, "where", col, "=", v2}
	case 1:
		kind = "select"
		toks = []string{"select", "'@TAG@'", ",", col, "from", tbl, "where", col, "in", "(", v1, ",", v2, ")", "limit", "3"}
	case 2:
		toks = []string{"insert", "into", tbl, "(", "a", ",", col, ")", "values", "(", "'@TAG@'", ",", v1, ")"}
	case 3:
		toks = []string{"update", tbl, "set", col, "=", v1, "where", "b", "=", "'@TAG@'", "and", col, "<>", v2}
	default:
		toks = []string{"delete", "from", tbl, "where", "b", "=", "'@TAG@'", "or", col, "like", v1}
	}
	var b strings.Builder
	for i, tk := range toks {
		if i > 0 {
			b.WriteString(g(fmt.Sprintf("g%d", i)))
		}
		b.WriteString(tk)
	}
	return e2ePiece{Text: b.String(), Kind: kind}
}

var e2eAttach = []string{"", "", "", " ", "\n", "\t ", " /* c;d */ ", " /* it's; */", " -- x;\n", " # y;'\n"}
var e2eEmpty = []string{"", "", " ", "\n", "\t", " /* only; comment */ ", " -- nothing;\n", " #;\n "}

func genE2ESep(t *rapid.T, label string, last bool) e2eSep {
	var s e2eSep
	s.Semi = !last || rapid.Bool().Draw(t, label+"_semi")
	s.Before = rapid.SampledFrom(e2eAttach).Draw(t, label+"_before")
	if !s.Semi {
		return s
	}
	if rapid.IntRange(0, 3).Draw(t, label+"_ek") == 0 {
		ne := rapid.IntRange(1, 3).Draw(t, label+"_ne")
		for i := 0; i < ne; i++ {
			s.Empties = append(s.Empties, rapid.SampledFrom(e2eEmpty).Draw(t, label+"_e"))
		}
	}
	s.After = rapid.SampledFrom(e2eAttach).Draw(t, label+"_after")
	return s
}

func genE2E(t *rapid.T) e2eCase {
	var c e2eCase
	n := rapid.IntRange(1, 5).Draw(t, "n")
	if rapid.IntRange(0, 9).Draw(t, "n1") > 0 && n == 1 {
		n = 2
	}
	for i := 0; i < n; i++ {
		c.Pieces = append(c.Pieces, genE2EPiece(t))
		c.Seps = append(c.Seps, genE2ESep(t, fmt.Sprintf("sep%d", i), i == n-1))
	}
	if rapid.IntRange(0, 3).Draw(t, "leadk") == 0 {
		c.Lead = genE2ESep(t, "lead", false)
		c.Lead.Before = ""
		if rapid.Bool().Draw(t, "lead_nosemi") {
			c.Lead.Semi, c.Lead.Empties = false, nil
		}
	}
	c.Fail = -1
	if rapid.IntRange(0, 2).Draw(t, "failk") > 0 {
		c.Fail = rapid.IntRange(0, n-1).Draw(t, "fail")
	}
	return c
}

var e2eSeq int64

// the backend's scripted failure: a code and message nothing else in the proxy or the fixture produces
const (
	e2eScriptedCode = 1644
	e2eScriptedMsg  = "c17-scripted-failure"
)

var e2eTransportRe = regexp.MustCompile(`(?i)time ?out|timed out|deadline|connection|broken pipe|\bEOF\b|reset by peer|create resource|bad conn|invalid conn|i/o|\bpool\b|no alive|backendconn|get conn|unavailable|refused`)

// e2eTransportLike: the error text speaks of the proxy's path to its backend, not of the statement.
func e2eTransportLike(msg string) bool { return e2eTransportRe.MatchString(msg) }

// e2eNorm removes what a MySQL server strips from a query before parsing it:
// surrounding whitespace and trailing semicolons.
func e2eNorm(sql string) string {
	return strings.TrimLeft(strings.TrimRight(sql, "; \t\r\n"), " \t\r\n")
}

// e2eStripLeading removes leading whitespace and comments of all three forms.
func e2eStripLeading(sql string) string {
	for {
		sql = strings.TrimLeft(sql, " \t\r\n")
		switch {
		case strings.HasPrefix(sql, "/*"):
			i := strings.Index(sql[2:], "*/")
			if i < 0 {
				return ""
			}
			sql = sql[2+i+2:]
		case strings.HasPrefix(sql, "-- "), strings.HasPrefix(sql, "#"):
			i := strings.IndexByte(sql, '\n')
			if i < 0 {
				return ""
			}
			sql = sql[i+1:]
		default:
			return sql
		}
	}
}

func checkE2E(c e2eCase) (o pbt.Outcome) {
	n := len(c.Pieces)
	if n == 0 || len(c.Seps) != n || c.Fail >= n {
		o.Skip = "malformed case"
		return
	}
	for i, p := range c.Pieces {
		if strings.Count(p.Text, "@TAG@") != 1 {
			o.Skip = "malformed case: piece without tag"
			return
		}
		if i < n-1 && !c.Seps[i].Semi {
			o.Skip = "malformed case: separator without semicolon"
			return
		}
	}
	p, err := proxyfix.Shared()
	if err != nil {
		o.Skip = "fixture: " + err.Error()
		return
	}
	id := atomic.AddInt64(&e2eSeq, 1)
	nsName := proxyfix.UniqueName("c17ns", id)
	user := proxyfix.UniqueName("c17u", id)
	specs := []proxyfix.SliceSpec{{Name: "slice-0", Capacity: 2, MaxCapacity: 4}}
	cl, err := proxyfix.NewCluster(specs)
	if err != nil {
		o.Skip = "fixture: " + err.Error()
		return
	}
	defer cl.Close()

	tag := func(i int) string { return fmt.Sprintf("c17e%dp%d", id, i) }
	casePrefix := fmt.Sprintf("c17e%dp", id)
	pieces := make([]string, n) // the statements as the backend must see them (before trimming)
	hidden, empties := 0, 0
	var text strings.Builder
	// the text in front of the first piece: empty pieces, then what attaches to piece 0
	attach := c.Lead.After
	if c.Lead.Semi {
		text.WriteString(";")
		for _, e := range c.Lead.Empties {
			text.WriteString(e + ";")
		}
		empties += 1 + len(c.Lead.Empties)
	}
	text.WriteString(c.Lead.After)
	for i, pc := range c.Pieces {
		body := strings.Replace(pc.Text, "@TAG@", tag(i), 1)
		pieces[i] = attach + body + c.Seps[i].Before
		text.WriteString(body)
		text.WriteString(c.Seps[i].text())
		attach = c.Seps[i].After
		empties += len(c.Seps[i].Empties)
		if i == n-1 && c.Seps[i].Semi {
			empties++ // what follows the last separator is blank or a comment
		}
		// a semicolon inside pieces[i] is always inside a string, quoted identifier or comment (by construction)
		hidden += strings.Count(pieces[i], ";")
		for _, e := range c.Seps[i].Empties {
			hidden += strings.Count(e, ";")
		}
	}
	failTag := ""
	if c.Fail >= 0 {
		failTag = "'" + tag(c.Fail) + "'"
	}
	for _, s := range cl.All() {
		s.Handler = func(conn *fakemysql.Conn, sql string) fakemysql.Reply {
			i := strings.Index(sql, casePrefix)
			if i < 0 {
				return fakemysql.Reply{Unhandled: true}
			}
			if failTag != "" && strings.Contains(sql, failTag) {
				return fakemysql.Reply{Err: &fakemysql.SQLErr{Code: e2eScriptedCode, State: "45000", Message: e2eScriptedMsg + " " + tag(c.Fail)}}
			}
			// answer with the tag found in the statement so that the client can attribute the result
			j := i
			for j < len(sql) && sql[j] != '\'' {
				j++
			}
			found := sql[i:j]
			if strings.HasPrefix(strings.ToLower(e2eStripLeading(sql)), "select") {
				return fakemysql.Reply{Result: &fakemysql.ResultSet{Cols: []fakemysql.Column{{Name: "tag", Type: fakemysql.TypeVarString}},
					Rows: [][][]byte{{[]byte(found)}}}}
			}
			var k uint64
			fmt.Sscanf(found[len(casePrefix):], "%d", &k)
			return fakemysql.Reply{Affected: 100 + k}
		}
	}
	slices := cl.SliceConfigs(specs)
	for _, sl := range slices {
		sl.HandshakeTimeout = 30000 // ms; the default of 500 ms is easily missed on a loaded machine
	}
	ns := proxyfix.BaseNamespace(nsName, slices, []*models.User{{UserName: user, Password: "pw", RWFlag: 2, RWSplit: 0}})
	ns.SupportMultiQuery = true
	if err := p.Install(ns); err != nil {
		o.Skip = "fixture: install: " + err.Error()
		return
	}
	defer p.Remove(nsName)

	cli, err := p.Dial(user, "pw", "db", rawclient.ClientMultiStatements)
	if err != nil {
		o.Skip = "fixture: dial: " + err.Error()
		return
	}
	defer cli.Close()
	cli.Timeout = 90 * time.Second

	full := text.String()
	results, ioErr := cli.Query(full)

	// what the backend received for this case, in order
	var received []string
	for _, ev := range cl.Events() {
		if ev.Kind == "query" && strings.Contains(ev.SQL, casePrefix) {
			received = append(received, strings.TrimSpace(ev.SQL))
		}
	}

	o.NonTrivial = n >= 2 && hidden > 0
	o.Labels = append(o.Labels, fmt.Sprintf("pieces_%d", n))
	if hidden > 0 {
		o.Labels = append(o.Labels, "hidden_semicolons")
	}
	if c.Fail >= 0 {
		o.Labels = append(o.Labels, "scripted_failure")
		if c.Fail < n-1 {
			o.Labels = append(o.Labels, "failure_before_last_piece")
		}
	}
	if empties > 0 {
		o.Labels = append(o.Labels, "has_empty_piece")
	}

	// client side: s successes, then optionally an error
	succ := 0
	var cliErr string
	var lastErr *rawclient.Error
	var seen []string
	for k, r := range results {
		if r.Err != nil {
			cliErr, lastErr = r.Err.Error(), r.Err
			seen = append(seen, fmt.Sprintf("#%d ERR %d (%s) %q", k, r.Err.Code, r.Err.State, r.Err.Message))
			if k != len(results)-1 {
				o.Violation = fmt.Sprintf("results continue after an error packet: %s", strings.Join(seen, ", "))
				return
			}
			break
		}
		if r.OK {
			seen = append(seen, fmt.Sprintf("#%d OK affected=%d", k, r.Affected))
		} else {
			var cells []string
			for _, row := range r.Rows {
				for _, cell := range row {
					cells = append(cells, string(cell))
				}
			}
			seen = append(seen, fmt.Sprintf("#%d ROWS %d %q", k, len(r.Rows), cells))
		}
		succ++
	}
	if ioErr != nil {
		cliErr = "connection: " + ioErr.Error()
		seen = append(seen, "then connection error: "+ioErr.Error())
	}
	desc := fmt.Sprintf("text %q; pieces %q; fail=%d; backend received %q; client saw [%s]", full, pieces, c.Fail, received, strings.Join(seen, ", "))
	// the error is the scripted one only if the client sees exactly the backend's code and message
	scripted := ioErr == nil && lastErr != nil && c.Fail >= 0 && lastErr.Code == e2eScriptedCode && strings.Contains(lastErr.Message, e2eScriptedMsg+" "+tag(c.Fail))

	// 1. the backend saw a prefix of the pieces, each unchanged
	for k, got := range received {
		if k >= n {
			o.Violation = fmt.Sprintf("the backend received %d statements for %d pieces [%s]", len(received), n, desc)
			return
		}
		if e2eNorm(got) != e2eNorm(pieces[k]) {
			detail := fmt.Sprintf("statement %d reached the backend as %q, the piece is %q [%s]", k, got, strings.TrimSpace(pieces[k]), desc)
			o.Violation = detail
			return
		}
	}
	// 2. results seen by the client belong to the pieces, in order
	for k := 0; k < succ; k++ {
		r := results[k]
		if k >= n {
			o.Violation = fmt.Sprintf("client received %d successful results for %d pieces [%s]", succ, n, desc)
			return
		}
		if c.Pieces[k].Kind == "select" {
			if r.OK || len(r.Rows) != 1 || len(r.Rows[0]) != 1 || string(r.Rows[0][0]) != tag(k) {
				o.Violation = fmt.Sprintf("result %d is not the result of piece %d (rows %q ok=%v) [%s]", k, k, r.Rows, r.OK, desc)
				return
			}
		} else if !r.OK || r.Affected != 100+uint64(k) {
			o.Violation = fmt.Sprintf("result %d is not the OK of piece %d (ok=%v affected=%d) [%s]", k, k, r.OK, r.Affected, desc)
			return
		}
	}
	// 3. nothing runs after the piece the backend failed, whatever the client was told
	if c.Fail >= 0 && len(received) > c.Fail+1 {
		o.Violation = fmt.Sprintf("piece %d failed on the backend, yet %d statements reached the backend [%s]", c.Fail, len(received), desc)
		return
	}
	// 4. how far execution went
	switch {
	case cliErr == "":
		if c.Fail >= 0 {
			o.Violation = fmt.Sprintf("piece %d failed on the backend but the client saw no error (%d results) [%s]", c.Fail, succ, desc)
			return
		}
		if succ != n || len(received) != n {
			o.Violation = fmt.Sprintf("no error, but %d results at the client and %d statements at the backend for %d pieces [%s]", succ, len(received), n, desc)
			return
		}
		o.Labels = append(o.Labels, "all_executed")
	case scripted:
		// the backend's own error: it belongs to piece Fail, which reached the backend, and nothing after it did
		if succ != c.Fail || len(received) != c.Fail+1 {
			o.Violation = fmt.Sprintf("the error of failing piece %d arrived after %d results with %d statements at the backend [%s]", c.Fail, succ, len(received), desc)
			return
		}
		o.Labels = append(o.Labels, "stopped_at_scripted_failure")
	case c.Fail >= 0 && succ > c.Fail:
		o.Violation = fmt.Sprintf("execution continued after failing piece %d: %d successful results, then %s [%s]", c.Fail, succ, cliErr, desc)
		return
	case ioErr != nil || e2eTransportLike(cliErr):
		// the proxy could not reach its backend in time (pool wait, dial/handshake, socket): says nothing about splitting
		o = pbt.Outcome{Skip: "inconclusive: transport or timeout error between proxy and backend"}
		return
	default:
		// the proxy itself refused piece number succ (a rejection is allowed): nothing after it may run
		if len(received) > succ+1 || len(received) < succ {
			o.Violation = fmt.Sprintf("the proxy reported an error for piece %d (%s) after %d results, but the backend received %d statements [%s]", succ, cliErr, succ, len(received), desc)
			return
		}
		o.Labels = append(o.Labels, "proxy_rejected_piece")
	}
	return
}

func TestC17E2E(t *testing.T) {
	pbt.Run(t, pbt.Spec{ID: "C17", Sub: "e2e", Quick: 500, Thorough: 4000,
		Rule:  "one COM_QUERY with 1-5 statements (select/insert/update/delete templates whose strings, backquoted identifiers and /* */, -- and # comments contain semicolons, quotes and comment openers), separators with blanks, empty and comment-only pieces, optional leading/trailing separators, one piece optionally scripted to fail on the backend; client with CLIENT_MULTI_STATEMENTS, namespace with support_multi_query, live proxy, simulated backend; non-trivial = at least 2 pieces and at least one semicolon inside a quoted or commented context",
		Floor: 0.4}, genE2E, checkE2E)
}
