//go:build verif

// C17 Multi-statement text is split exactly at statement boundaries.
//
// This file is the function-level sub-check ("split"): parser.SplitStatementToPieces
// against texts whose statement boundaries are known by construction, against
// the independent reference lexer of internal/sqltok, and against Gaea's own
// SQL parser (number and text of the statements it sees in the whole text).
// The end-to-end sub-check through a live proxy (doMultiStmts: pieces reach the
// backend in order, nothing after the first failing piece) lives in
// c17_e2e_test.go in this package.
package c17

import (
	"fmt"
	"reflect"
	"strings"
	"testing"

	"github.com/XiaoMi/Gaea/parser"
	"github.com/XiaoMi/Gaea/parser/ast"
	_ "github.com/XiaoMi/Gaea/parser/tidb-types/parser_driver"
	"pgregory.net/rapid"
	"verifharness/internal/pbt"
	"verifharness/internal/sqltok"
)

// splitCase is one multi-statement text. Toks holds the whole text; the
// statement separators are the tokens of kind "semi".
type splitCase struct {
	Toks     []sqltok.Tok `json:"toks"`
	Complete bool         `json:"complete"` // every non-empty piece is a template statement: Gaea's parser is consulted too
	// CallerTrim: strip trailing semicolons first, as handleQuery does before it
	// calls doMultiStmts (strings.TrimRight(sql, ";")).
	CallerTrim bool `json:"caller_trim"`
}

func genSplitCase(t *rapid.T) splitCase {
	var c splitCase
	semi := func() {
		c.Toks = append(c.Toks, sqltok.Tok{K: sqltok.Semi, S: ";"})
	}
	if rapid.IntRange(0, 9).Draw(t, "shape") < 7 {
		c.Complete = true
		n := rapid.IntRange(1, 5).Draw(t, "n")
		cp := rapid.SampledFrom([]int{0, 15, 40}).Draw(t, "cpct")
		nonEmpty := 0
		for i := 0; i < n; i++ {
			if i > 0 {
				semi()
			}
			switch rapid.IntRange(0, 9).Draw(t, "pk") {
			case 0: // empty piece
			case 1: // blank piece
				c.Toks = append(c.Toks, sqltok.Tok{K: sqltok.Space, S: sqltok.GenSpace(t, "blank")})
			case 2: // comment-only piece
				c.Toks = append(c.Toks, sqltok.GenGlue(t, "conly", 100)...)
			default:
				nonEmpty++
				if rapid.Bool().Draw(t, "lead_sp") {
					c.Toks = append(c.Toks, sqltok.Tok{K: sqltok.Space, S: sqltok.GenSpace(t, "lsp")})
				}
				c.Toks = append(c.Toks, sqltok.GenStatement(t, "st", sqltok.Opts{Markers: false, CommentPct: cp})...)
				if rapid.Bool().Draw(t, "trail_sp") {
					c.Toks = append(c.Toks, sqltok.Tok{K: sqltok.Space, S: sqltok.GenSpace(t, "tsp")})
				}
			}
		}
		switch rapid.IntRange(0, 3).Draw(t, "tail") {
		case 0:
			semi()
		case 1:
			semi()
			c.Toks = append(c.Toks, sqltok.Tok{K: sqltok.Space, S: sqltok.GenSpace(t, "tailsp")})
		}
		// the proxy never hands a text ending in ';' to the splitter; without this
		// precondition ";" alone comes back as one empty piece
		c.CallerTrim = nonEmpty == 0 || rapid.Bool().Draw(t, "trim")
	} else {
		c.Toks = sqltok.GenSoup(t, "soup", true)
		c.CallerTrim = true
	}
	return c
}

func trimAll(in []string) []string {
	out := make([]string, 0, len(in))
	for _, s := range in {
		out = append(out, strings.TrimSpace(s))
	}
	return out
}

func checkSplit(c splitCase) (o pbt.Outcome) {
	text := sqltok.Join(c.Toks)
	if c.CallerTrim {
		text = strings.TrimRight(text, ";")
	}
	segs := sqltok.Lex(text)
	for _, s := range segs {
		if s.Special || s.Unterminated {
			o.Skip = "harness: generated an unterminated or special construct"
			return
		}
	}
	want := sqltok.Statements(text, segs)

	// by construction: cut the token list at the separator tokens
	var byCons []string
	{
		var cur strings.Builder
		code := false
		flush := func() {
			if code {
				byCons = append(byCons, strings.TrimSpace(cur.String()))
			}
			cur.Reset()
			code = false
		}
		for _, tk := range c.Toks {
			if tk.K == sqltok.Semi {
				flush()
				continue
			}
			cur.WriteString(tk.S)
			if tk.K != sqltok.Space && !sqltok.IsComment(tk.K) {
				code = true
			}
		}
		flush()
	}
	if len(byCons) != len(want) || (len(want) > 0 && !reflect.DeepEqual(byCons, want)) {
		o.Skip = "harness: generator and reference lexer disagree on the pieces"
		return
	}

	hidden := 0
	for _, s := range segs {
		if s.K == sqltok.SQ || s.K == sqltok.DQ || s.K == sqltok.BQ || sqltok.IsComment(s.K) {
			if strings.Contains(text[s.Start:s.End], ";") {
				hidden++
				o.Labels = append(o.Labels, "semicolon_in_"+string(s.K))
			}
		}
	}
	for _, sg := range segs {
		if sg.K == sqltok.Code && strings.Contains(text[sg.Start:sg.End], "--") {
			o.Labels = append(o.Labels, "minus_minus_in_code")
		}
	}
	nsemi := len(sqltok.KindOffsets(segs, sqltok.Semi))
	o.NonTrivial = len(want) >= 2 && hidden > 0
	o.Labels = append(o.Labels, fmt.Sprintf("pieces_%d", min(len(want), 5)))
	if nsemi+1 > len(want) && nsemi > 0 {
		o.Labels = append(o.Labels, "has_empty_piece")
	}
	if c.Complete {
		o.Labels = append(o.Labels, "complete_statements")
	} else {
		o.Labels = append(o.Labels, "token_soup")
	}

	// Gaea's grammar on the whole text: same statements
	if c.Complete && len(want) > 0 {
		var stmts []ast.StmtNode
		var perr error
		if p := pbt.Catch(func() { stmts, _, perr = sqlParser.Parse(text, "", "") }); p != "" {
			perr = fmt.Errorf("parser panic: %s", p)
		}
		if perr != nil {
			o.Labels = append(o.Labels, "parser_rejected_template")
		} else if len(stmts) != len(want) {
			o.Skip = fmt.Sprintf("harness: reference lexer sees %d statements, Gaea parser %d", len(want), len(stmts))
			return
		} else {
			o.Labels = append(o.Labels, "parser_agrees_on_count")
		}
	}

	var got []string
	var err error
	if p := pbt.Catch(func() { got, err = parser.SplitStatementToPieces(text) }); p != "" {
		o.Violation = fmt.Sprintf("SplitStatementToPieces(%q): runtime panic: %s", text, p)
		return
	}
	if err != nil {
		// refusing the whole text executes nothing
		o.Labels = append(o.Labels, "rejected_by_splitter")
		return
	}
	if nsemi == 0 {
		// no separator: the text is handed on as it is (single-statement path)
		if len(got) > 1 || (len(got) == 1 && got[0] != text) {
			o.Violation = fmt.Sprintf("SplitStatementToPieces(%q) = %q for a text without statement separator", text, got)
		}
		return
	}
	gt := trimAll(got)
	if len(gt) != len(want) || (len(want) > 0 && !reflect.DeepEqual(gt, want)) {
		detail := fmt.Sprintf("SplitStatementToPieces(%q) = %q; the statements are %q", text, got, want)
		// (fixed C17-F1: a one-byte piece after the last separator used to be dropped)
		o.Violation = detail
	}
	return
}

// one parser instance for the whole run (parser.New allocates its tables anew each
// time); Parse resets it, so the check stays a function of the case alone
var sqlParser = parser.New()

func TestC17Split(t *testing.T) {
	pbt.Run(t, pbt.Spec{ID: "C17", Sub: "split", Quick: 20000, Thorough: 200000,
		Rule: "1-5 pieces (template statements whose strings, backquoted identifiers and --/#/C comments contain ; quotes and comment openers; empty, blank and comment-only pieces) joined by ; with optional trailing separator, plus lexically well-formed token soups with separators; non-trivial = at least 2 non-empty pieces and at least one ; inside a string, quoted identifier or comment",
		Floor: 0.2}, genSplitCase, checkSplit)
}
